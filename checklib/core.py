"""Shared machinery of ./check: builds, the implementation/model pair runner, comparison, evidence, theorem audit."""
import json, math, os, re, struct, subprocess, sys, time, hashlib, random

ROOT = os.path.dirname(os.path.dirname(os.path.abspath(__file__)))
LEAN = os.path.join(ROOT, 'lean')
HARNESS = os.path.join(ROOT, 'harness')
GEN = os.path.join(LEAN, 'RvModel', 'Gen')
REPO = os.environ.get('RV_REPO', '/repo')
ENV = dict(os.environ, CARGO_NET_OFFLINE='true')
ALLOWED_AXIOMS = {'propext', 'Classical.choice', 'Quot.sound'}


def log(*a):
    print(*a, file=sys.stderr, flush=True)


def sh(cmd, cwd=None, timeout=None, check=False, input=None):
    p = subprocess.run(cmd, cwd=cwd, shell=isinstance(cmd, str), capture_output=True, text=True, env=ENV,
                       timeout=timeout, input=input)
    if check and p.returncode != 0:
        raise RuntimeError(f'command failed: {cmd}\n{p.stdout[-3000:]}\n{p.stderr[-3000:]}')
    return p


# ------------------------------------------------------------------------------------------------ builds
_built = {}


def build_harness():
    if 'harness' in _built:
        return _built['harness']
    t = time.time()
    lock = os.path.join(HARNESS, 'Cargo.lock')
    if not os.path.exists(lock):
        sh(['cp', os.path.join(REPO, 'Cargo.lock'), lock])
    p = sh(['cargo', 'build', '--release', '--offline', '-q'], cwd=HARNESS, timeout=3000)
    ok = p.returncode == 0
    _built['harness'] = (ok, p.stderr[-4000:], time.time() - t)
    return _built['harness']


def regen():
    """run the translator; returns (ok, message, manifest)"""
    if 'regen' in _built:
        return _built['regen']
    p = sh([sys.executable, os.path.join(ROOT, 'rs2lean', 'rs2lean.py'), '--src', os.path.join(REPO, 'src')], timeout=600)
    ok = p.returncode == 0
    man = None
    try:
        man = json.load(open(os.path.join(GEN, 'manifest.json')))
    except Exception as e:
        ok = False
    _built['regen'] = (ok, (p.stdout + p.stderr)[-3000:], man)
    return _built['regen']


def lake_build(targets, timeout=3000):
    key = ('lake',) + tuple(targets)
    if key in _built:
        return _built[key]
    p = sh(['lake', 'build'] + list(targets), cwd=LEAN, timeout=timeout)
    _built[key] = (p.returncode == 0, (p.stdout + p.stderr)[-6000:])
    return _built[key]


_driver = {'bin': 'rvdrv', 'dropped': []}


def build_driver():
    """Build the model driver.  If the full driver does not build (a hand-written module no longer fits the regenerated
    model), fall back to `rvdrv_fb`: generated dispatch + every hand table whose module still compiles, so that the
    search for a failing input can still run; the broken build stays a broken obligation."""
    ok, err = lake_build(['rvdrv'])
    if ok:
        return ok, err
    src = open(os.path.join(LEAN, 'RvModel', 'Hand', 'DispatchAll.lean')).read()
    mods = re.findall(r'^import (RvModel\.[A-Za-z0-9_.]+)', src, re.M)
    m = re.search(r'def table[^\n]*:=\s*(.*)', src)
    terms = [t.strip() for t in m.group(1).split('++')] if m else []
    good_mods, good_terms = [], []
    for mod in mods:
        okm, _ = lake_build([mod])
        if not okm:
            _driver['dropped'].append(mod)
            continue
        good_mods.append(mod)
        body = open(os.path.join(LEAN, *mod.split('.')) + '.lean').read()
        for t in terms:
            if re.search(r'^def %s\b' % re.escape(t.split('.')[-1]), body, re.M) and t not in good_terms:
                good_terms.append(t)
    os.makedirs(os.path.join(LEAN, 'RvModel', 'Fb'), exist_ok=True)
    with open(os.path.join(LEAN, 'RvModel', 'Fb', 'DispatchFb.lean'), 'w') as f:
        f.write(''.join('import %s\n' % mm for mm in good_mods) + 'import RvModel.Wire\nopen HandDispatch in\n'
                'def HandDispatchFb.table : List (String × Rd String) := ' + (' ++ '.join(good_terms) if good_terms else '[]') + '\n')
    okf, errf = lake_build(['rvdrv_fb'])
    if okf:
        _driver['bin'] = 'rvdrv_fb'
        log('driver: full build failed, using fallback without', _driver['dropped'])
    return False, err


def driver_usable():
    return os.path.exists(driver_path()) and (_driver['bin'] == 'rvdrv_fb' or _built.get(('lake', 'rvdrv'), (False,))[0])


def driver_path():
    return os.path.join(LEAN, '.lake', 'build', 'bin', _driver['bin'])


def harness_path():
    return os.path.join(HARNESS, 'target', 'release', 'rvharness')


# ------------------------------------------------------------------------------------------------ tokens
def fbits(x):
    return 'x%016x' % struct.unpack('<Q', struct.pack('<d', float(x)))[0]


def tok_to_float(t):
    if t == 'xNaN':
        return float('nan')
    return struct.unpack('<d', struct.pack('<Q', int(t[1:], 16)))[0]


def enc(v):
    """python value -> token string.  float -> bits; int -> decimal; bool -> T/F; list -> L<n> …; None -> N;
    ('S', v) -> option some; ('D', list) / ('Q', struct-tuple) -> DataOrSuffStat; tuple -> concatenation"""
    if isinstance(v, bool):
        return 'T' if v else 'F'
    if isinstance(v, float):
        return fbits(v)
    if isinstance(v, int):
        return str(v)
    if v is None:
        return 'N'
    if isinstance(v, list):
        return ' '.join(['L%d' % len(v)] + [enc(x) for x in v])
    if isinstance(v, tuple):
        if v and v[0] in ('S', 'D', 'Q') and len(v) == 2 and isinstance(v[0], str):
            return v[0] + ' ' + enc(v[1])
        return ' '.join(enc(x) for x in v)
    raise ValueError(f'enc {v!r}')


def _run_impl(lines):
    """feed the lines to the harness; the harness gives up (exit 3) after a few hung calls — their threads keep
    spinning — and is restarted on the remaining lines; an aborted process marks the line it died on as DIED"""
    out = []
    restarts = 0
    env = dict(os.environ, RVH_MAX_HANGS='3')
    while len(out) < len(lines):
        rest = lines[len(out):]
        p = subprocess.run([harness_path()], input='\n'.join(rest) + '\n', capture_output=True, text=True, env=env)
        got = p.stdout.split('\n')
        if got and got[-1] == '':
            got.pop()
        got = got[:len(rest)]
        out += got
        if len(got) == len(rest):
            break
        restarts += 1
        if p.returncode != 3:
            out.append('DIED')          # abort / stack overflow on this line
        if restarts >= 2:
            env['RVH_HANG_MS'] = '2000'
        if restarts > 40:
            out += ['DIED'] * (len(lines) - len(out))
    return out[:len(lines)]


def run_pair(lines, want_model=True):
    """feed the same lines to the Rust harness (real code) and the Lean driver (model); returns two lists of answers"""
    data = '\n'.join(lines) + '\n'
    pm = subprocess.Popen([driver_path()], stdin=subprocess.PIPE, stdout=subprocess.PIPE, text=True) if want_model else None
    import threading
    res = {}

    def feed(p, k):
        out, _ = p.communicate(data)
        res[k] = out.split('\n')[:-1] if out.endswith('\n') else out.split('\n')

    def feed_impl():
        res['impl'] = _run_impl(lines)
    ts = [threading.Thread(target=feed_impl)]
    if pm:
        ts.append(threading.Thread(target=feed, args=(pm, 'model')))
    for t in ts:
        t.start()
    for t in ts:
        t.join()
    impl = res.get('impl', [])
    model = res.get('model', []) if pm else [None] * len(lines)
    if len(impl) != len(lines):
        impl = impl + ['DIED'] * (len(lines) - len(impl))
    if pm and len(model) != len(lines):
        model = model + ['DIED'] * (len(lines) - len(model))
    return impl, model


# ------------------------------------------------------------------------------------------------ comparison
def ulp(x):
    if x == 0 or math.isinf(x) or math.isnan(x):
        return 5e-324
    return abs(x) * 2.220446049250313e-16


def close(a, b, rel=1e-9, abs_=1e-12):
    if math.isnan(a) or math.isnan(b):
        return math.isnan(a) and math.isnan(b)
    if math.isinf(a) or math.isinf(b):
        return a == b
    return abs(a - b) <= abs_ + rel * max(abs(a), abs(b))


def cmp_tokens(a, b, rel=1e-9, abs_=1e-12):
    """compare two answer lines token-wise; floats with tolerance, everything else exactly. returns (ok, detail)"""
    ta, tb = a.split(), b.split()
    if len(ta) != len(tb):
        return False, 'shape'
    for x, y in zip(ta, tb):
        if x.startswith('x') and y.startswith('x') and len(x) in (4, 17) and len(y) in (4, 17):
            fa, fb = tok_to_float(x), tok_to_float(y)
            if not close(fa, fb, rel, abs_):
                return False, f'{fa!r} vs {fb!r}'
        elif x != y:
            return False, f'{x} vs {y}'
    return True, ''


def floats_of(ans):
    return [tok_to_float(t) for t in ans.split() if t.startswith('x') and len(t) in (4, 17)]


# ------------------------------------------------------------------------------------------------ theorems
def check_props_file(relpath, timeout=3000):
    """elaborate a Props file with per-message JSON; returns dict(theorems={name: {'ok':bool,'axioms':[..]}}, errors=[...])"""
    t0 = time.time()
    p = sh(['lake', 'env', 'lean', '--json', relpath], cwd=LEAN, timeout=timeout)
    src = open(os.path.join(LEAN, relpath)).read()
    # theorem name -> line span
    decl = [(m.start(), m.group(2)) for m in re.finditer(r'^(theorem|lemma)\s+([A-Za-z_0-9.\']+)', src, re.M)]
    lines_of = {}
    offs = [0]
    for ln in src.split('\n'):
        offs.append(offs[-1] + len(ln) + 1)
    import bisect

    def line_of(pos):
        return bisect.bisect_right(offs, pos)
    spans = []
    for i, (pos, name) in enumerate(decl):
        start = line_of(pos)
        end = line_of(decl[i + 1][0]) - 1 if i + 1 < len(decl) else len(offs)
        mpa = re.compile(r'^#print axioms', re.M).search(src, pos)
        if mpa and line_of(mpa.start()) - 1 < end:
            end = line_of(mpa.start()) - 1     # the trailing block of `#print axioms` lines belongs to no theorem
        spans.append((start, end, name))
    errors = []
    axioms = {}
    sorry = set()
    for ln in p.stdout.split('\n'):
        ln = ln.strip()
        if not ln.startswith('{'):
            continue
        try:
            m = json.loads(ln)
        except Exception:
            continue
        sev = m.get('severity')
        data = m.get('data', '')
        line = (m.get('pos') or {}).get('line', 0)
        if sev == 'error':
            errors.append((line, data[:400]))
        elif sev == 'warning' and 'sorry' in data:
            sorry.add(line)
        elif sev == 'information':
            mm = re.match(r"'([^']+)' depends on axioms: \[(.*)\]", data.replace('\n', ' '))
            if mm:
                axioms[mm.group(1)] = [x.strip() for x in mm.group(2).split(',') if x.strip()]
            mm = re.match(r"'([^']+)' does not depend on any axioms", data)
            if mm:
                axioms[mm.group(1)] = []
    theorems = {}
    for (s, e, name) in spans:
        errs = [d for (l, d) in errors if s <= l <= e]
        sor = any(s <= l <= e for l in sorry)
        ax = axioms.get(name)
        if ax is None:
            for k, v in axioms.items():
                if k.endswith('.' + name):
                    ax = v
                    break
        ok = not errs and not sor
        bad_ax = [a for a in (ax or []) if a not in ALLOWED_AXIOMS]
        theorems[name] = {'ok': ok and not bad_ax, 'errors': errs[:2], 'sorry': sor, 'axioms': ax, 'bad_axioms': bad_ax,
                          'line': s}
    stray = [(l, d) for (l, d) in errors if not any(s <= l <= e for (s, e, _) in spans)]
    # `#print axioms X` of a theorem that failed to elaborate ("Unknown constant"): already counted at the theorem
    broken_names = {n for n, r in theorems.items() if not r['ok']}
    stray = [(l, d) for (l, d) in stray
             if not (d.startswith('Unknown constant') and any(d.rstrip('`').endswith('.' + n) or d.rstrip('`').endswith('`' + n) for n in broken_names))]
    return {'theorems': theorems, 'stray_errors': stray, 'rc': p.returncode, 'wall_s': time.time() - t0,
            'stderr': p.stderr[-2000:]}


FORBIDDEN = re.compile(r'\bsorry\b|\badmit\b|^axiom\s|native_decide|bv_decide|implemented_by|\bunsafe\s|maxHeartbeats\s+0\b', re.M)


def grep_forbidden(paths):
    hits = []
    for path in paths:
        txt = open(path).read()
        # strip comments
        txt2 = re.sub(r'/-.*?-/', lambda m: '\n' * m.group(0).count('\n'), txt, flags=re.S)
        txt2 = re.sub(r'--[^\n]*', '', txt2)
        for m in FORBIDDEN.finditer(txt2):
            hits.append((path, txt2.count('\n', 0, m.start()) + 1, m.group(0)))
    return hits


# ------------------------------------------------------------------------------------------------ evidence
def write_evidence(pid, tier, seed, coverage, assumptions, wall_s, violations):
    path = os.path.join(ROOT, 'evidence', f'{pid}.json')
    os.makedirs(os.path.dirname(path), exist_ok=True)
    ev = {'property_id': pid, 'tier': tier, 'seed': seed, 'level': 'proof', 'coverage': coverage,
          'assumptions': assumptions, 'wall_s': round(wall_s, 2), 'violations': violations}
    json.dump(ev, open(path, 'w'), indent=1, sort_keys=True, default=str)
    return path


def write_replay(pid, n, payload):
    d = os.path.join(ROOT, 'replays')
    os.makedirs(d, exist_ok=True)
    path = os.path.join(d, f'{pid}-{n}.json')
    json.dump(payload, open(path, 'w'), indent=1, default=str)
    return path


def load_known_findings():
    path = os.path.join(ROOT, 'known_findings.json')
    if not os.path.exists(path):
        return []
    return json.load(open(path)).get('findings', [])
