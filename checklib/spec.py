"""Implementation-vs-Spec comparison: the property itself, evaluated at sampled in-support inputs.
The Spec side is the hand-written textbook definition in lean/RvModel/Spec, run on Float by rvdrv."""
import random, math
from .core import enc, run_pair, tok_to_float, floats_of, cmp_tokens
from . import gen
from .gen import parse_ty
from .sweep import kinds_of, KCLASS


def support_value(sup, selfv, fields, kind, rng):
    """an observation inside the textbook support `sup` of the distribution with parameters selfv"""
    p = dict(zip(fields, selfv)) if selfv is not None else {}
    r = rng.random()
    if sup == 'real':
        v = gen.real(rng) if r < 0.8 else rng.choice([0.0, 1e-6, -1e-6, 50.0, -50.0])
    elif sup == 'pos':
        v = gen.pos(rng) if r < 0.85 else rng.choice([1e-6, 1e-3, 200.0, 1e4])
    elif sup == 'unit':
        v = gen.unit(rng) if r < 0.85 else rng.choice([1e-6, 1 - 1e-6, 0.5])
    elif sup == 'nat':
        v = gen.obs_nat(rng)
    elif sup == 'nat_le_n':
        cap = {'u8': 255, 'i8': 127}.get(kind, 10 ** 9)
        v = rng.randint(0, min(p['n'], cap))
    elif sup == 'int':
        v = rng.choice([-1, 1]) * rng.randint(0, 15)
    elif sup == 'bool':
        v = rng.random() < 0.5
    elif sup == 'bit':
        v = rng.randint(0, 1)
    elif sup == 'ge_scale':
        v = p['scale'] * (1.0 + gen.pos(rng))
    elif sup == 'uniform_ab':
        v = p['a'] + (p['b'] - p['a']) * rng.random()
    elif sup == 'circle':
        v = rng.uniform(0.0, 2 * math.pi)
    elif sup == 'cat':
        k = len(p.get('ln_weights') or p.get('alphas') or [0])
        v = rng.randrange(k)
    elif sup == 'gev':
        # support of GEV: 1 + shape (x-loc)/scale > 0
        z = gen.real(rng)
        s = p['shape']
        if s > 0:
            z = -1 / s + gen.pos(rng)
        elif s < 0:
            z = -1 / s - gen.pos(rng)
        v = p['loc'] + p['scale'] * z
    elif sup == 'du':
        v = rng.randint(p['a'], p['b'])
    elif sup == 'catbool':
        k = len(p.get('ln_weights') or p.get('alphas') or [0])
        v = (rng.random() < 0.5) if k >= 2 else False
    elif sup == 'simplex':
        k = len(p['alphas']) if 'alphas' in p else p['k']
        v = gen.simplex(rng, k)
    elif sup == 'partition':
        n = min(p['n'], 300) if 'n' in p else rng.randint(1, 40)
        z, k = [], 0
        for i in range(n):
            j = rng.randint(0, k)
            if j == k:
                k += 1
            z.append(j)
        counts = [z.count(j) for j in range(k)]
        v = (z, counts)
    else:
        raise KeyError(sup)
    if isinstance(v, float) and kind == 'f32':
        v = gen.f32r(v)
    return v


def classify_val(ans):
    if ans in ('PANIC', 'HANG', 'DIED', 'NOOP'):
        return ans.lower()
    fl = floats_of(ans)
    if any(x != x for x in fl):
        return 'nan'
    if any(abs(x) == float('inf') for x in fl):
        return 'inf'
    return 'value'


def spec_compare(man, entries, n, seed, sites=None, extra_args=None):
    """entries: dicts with keys op (generated def = implementation op name), spec (driver op name), support,
    rel, abs_, optional site.  Returns dict(stats, failures, samples)."""
    rng = random.Random(seed * 7919 + 13)
    structs = man['structs']
    impl_lines, spec_lines, meta = [], [], []
    skipped = man.get('rust_dispatch_skipped', {})
    for e in entries:
        op = e['op']
        site = e.get('site', op)
        if sites is not None and not any(site == s or site.startswith(s.split('_')[0]) or s.startswith(site.split('_')[0]) for s in sites):
            continue
        d = man['defs'].get(op)
        if d is None or op in skipped:
            continue
        fields = [f for f, t in structs[d['owner']]] if d['has_self'] else []
        ks = e.get('kinds') or kinds_of(d)
        for kind in ks:
            for _ in range(n):
                selfv = gen.struct_value(d['owner'], structs, rng) if d['has_self'] else None
                if e.get('params'):
                    selfv = e['params'](rng)
                args = []
                ptys = [parse_ty(t) for t in d['ptys']]
                for i, ty in enumerate(ptys):
                    if i == 0 and e.get('support'):
                        args.append(support_value(e['support'], selfv, fields, kind, rng))
                    else:
                        args.append(gen.arg_value(ty, kind, rng, structs))
                body = ' '.join(enc(x) for x in ([selfv] if selfv is not None else []) + args)
                impl_lines.append(f'{op} {kind} {body}')
                spec_lines.append(f'{e["spec"]} {kind} {body}')
                meta.append((e, kind, site))
    if not impl_lines:
        return {'stats': {'evaluations': 0, 'distinct_nontrivial': 0, 'failures': 0}, 'failures': [], 'samples': []}
    impl, _ = run_pair(impl_lines, want_model=False)
    from .core import driver_path
    import subprocess
    p = subprocess.run([driver_path()], input='\n'.join(spec_lines) + '\n', capture_output=True, text=True)
    spec = p.stdout.split('\n')
    failures = []
    nontrivial = set()
    noop = 0
    for il, sl, a, b, (e, kind, site) in zip(impl_lines, spec_lines, impl, spec, meta):
        if b in ('NOOP',) or b.startswith('BAD') or a == 'NOOP':
            noop += 1
            continue
        rel = e.get('rel', 1e-9)
        ab = e.get('abs_', 1e-9)
        if kind == 'f32':
            rel = max(rel, 3e-7)
        ok, detail = cmp_tokens(a, b, rel, ab)
        if classify_val(b) == 'value':
            nontrivial.add(il)
        if not ok:
            failures.append({'site': site, 'case': il, 'spec_case': sl, 'impl': a, 'expected': b, 'detail': detail,
                             'observed': classify_val(a), 'kind': kind, 'tolerance': [rel, ab]})
    return {'stats': {'evaluations': len(impl_lines), 'distinct_nontrivial': len(nontrivial), 'failures': len(failures),
                      'spec_noop': noop},
            'failures': failures, 'samples': impl_lines[:3]}
