"""Model-vs-implementation sweep over generated definitions (is the generated model the code?)."""
import json, os
import random, collections, json, os
from .core import enc, run_pair, cmp_tokens, GEN
from . import gen
from .gen import parse_ty

KCLASS = {'f32': 'real', 'f64': 'real', 'bool': 'bool'}
for k in ('u8', 'u16', 'u32', 'u64', 'usize'):
    KCLASS[k] = 'nat'
for k in ('i8', 'i16', 'i32', 'i64', 'isize'):
    KCLASS[k] = 'int'


def kinds_of(d):
    ks = d['kinds_all'] or [d['kind'] or '-']
    if d['kind'] and d['kind'] in KCLASS:
        kc = KCLASS[d['kind']]
        ks = [k for k in ks if KCLASS.get(k) == kc] or [d['kind']]
    return ks


BOOL_OWNERS = ('Bernoulli', 'BernoulliSuffStat')
CAT_OWNERS = ('Categorical', 'CategoricalSuffStat', 'Dirichlet', 'SymmetricDirichlet')
# observation domain (interior of the support) for methods whose contract excludes unsupported x (cdf, sf)
OBS = {'Gamma': 'pos', 'Beta': 'unit', 'ChiSquared': 'pos', 'InvChiSquared': 'pos', 'InvGamma': 'pos',
       'ScaledInvChiSquared': 'pos', 'InvGaussian': 'pos', 'Kumaraswamy': 'unit', 'UnitPowerLaw': 'unit',
       'Exponential': 'pos', 'LogNormal': 'pos', 'Pareto': 'pos', 'KsTwoAsymptotic': 'pos'}
SUPPORT_ONLY = ('cdf', 'sf')
HISTORY_OPS = ('forget', 'forget_many')


def make_case(lean, d, kind, structs, rng):
    parts = []
    selfv = None
    if d['has_self']:
        selfv = gen.struct_value(d['owner'], structs, rng)
        parts.append(selfv)
    pnames = [p[0] for p in d['rparams'] if p[0] != 'self']
    owner = d['owner']
    boolish = owner in BOOL_OWNERS or lean.endswith('_Bernoulli')
    catk = None
    if (owner in CAT_OWNERS or lean.endswith('_Categorical')) and selfv is not None:
        for v in selfv:
            if isinstance(v, list):
                catk = len(v)
                break
        if owner == 'SymmetricDirichlet':
            catk = selfv[1]

    def fix(v, ty):
        if ty in ('nat', 'int') and boolish:
            return v % 2
        if ty in ('nat', 'int') and catk:
            return v % catk
        if ty == 'bool' and catk is not None and catk < 2:
            return False
        if isinstance(ty, tuple) and ty[0] == 'list' and ty[1] == 'real' and catk and 'with_cache' in lean:
            return [gen.pos(rng) for _ in range(catk)]       # a cache vector has one entry per category
        if isinstance(ty, tuple) and ty[0] == 'tup' and isinstance(v, tuple):
            return tuple(fix(x, t) for x, t in zip(v, ty[1]))
        if isinstance(ty, tuple) and ty[0] == 'list' and isinstance(v, list):
            return [fix(x, ty[1]) for x in v]
        if isinstance(ty, tuple) and ty[0] == 'dos' and v[0] == 'D':
            return ('D', [fix(x, ty[1]) for x in v[1]])
        if isinstance(ty, tuple) and ty[0] == 'dos' and v[0] == 'Q' and catk and ty[2][1] == 'CategoricalSuffStat':
            counts = [float(rng.randint(0, 9)) for _ in range(catk)]
            return ('Q', (int(sum(counts)), counts))
        return v
    for ts, pn in zip(d['ptys'], pnames):
        ty = parse_ty(ts)
        v = gen.arg_value(ty, kind, rng, structs, pn)
        if ty == 'real' and d['name'] in SUPPORT_ONLY and owner in OBS:
            v = gen.pos(rng) if OBS[owner] == 'pos' else gen.unit(rng)
            if kind == 'f32':
                v = gen.f32r(v)
        parts.append(fix(v, ty))
    return f'{lean} {kind} ' + ' '.join(enc(p) for p in parts)


def f32_overflow(a, b):
    """the implementation's `as f32` overflowed to ±inf where the (f64) model is beyond f32 range: unmodelled rounding"""
    from .core import tok_to_float
    ta, tb = a.split(), b.split()
    if len(ta) != len(tb):
        return False
    for x, y in zip(ta, tb):
        if x == y:
            continue
        if x.startswith('x') and y.startswith('x') and len(x) == 17 and len(y) == 17:
            fa, fb = tok_to_float(x), tok_to_float(y)
            if (abs(fa) == float('inf') and abs(fb) > 3.4e38) or (fa == 0.0 and abs(fb) < 1.5e-45) or abs(fa - fb) <= 3e-7 * abs(fb) \
                    or (abs(fb) < 1.2e-38 and abs(fa - fb) <= 1.5e-45):
                continue
        return False
    return True


def _load_f32_exact():
    try:
        from .core import GEN
        return set(json.load(open(os.path.join(GEN, 'baseline.json'))).get('f32_exact', []))
    except Exception:
        return set()


F32_EXACT = None


def tolerance(lean, d, kind):
    global F32_EXACT
    if F32_EXACT is None:
        F32_EXACT = _load_f32_exact()
    if kind == 'f32':
        if lean in F32_EXACT:
            # accepted baseline: this definition widens its f32 argument first and computes in binary64
            return 1e-9, 1e-30
        return 3e-7, 1e-30
    if d['name'] in ('sf', 'cdf'):
        return 1e-9, 1e-9
    if d['name'] in ('ln_m', 'ln_m_with_cache', 'ln_pp', 'ln_pp_with_cache', 'ln_pp_cache', 'm', 'pp', 'pp_with_cache', 'posterior',
                     'posterior_from_suffstat'):
        # differences of large log-normalisers: fused vs unfused multiply-add residues are absolute, not relative
        return 1e-9, 1e-9
    return 1e-9, 1e-12


def sweep(manifest, names, n_per_op, seed, kinds_limit=None):
    """returns dict(stats..., disagreements=[...])"""
    rng = random.Random(seed)
    structs = manifest['structs']
    skipped = manifest.get('rust_dispatch_skipped', {})
    lines, meta = [], []
    ungen = collections.Counter()
    for lean in names:
        d = manifest['defs'].get(lean)
        if d is None or lean in skipped or d['name'] in HISTORY_OPS or d.get('stub'):
            continue      # stubs have no Lean definition: implementation-side checks only
        ks = kinds_of(d)
        if kinds_limit:
            ks = ks[:kinds_limit]
        for kind in ks:
            for _ in range(n_per_op):
                try:
                    line = make_case(lean, d, kind, structs, rng)
                except KeyError as e:
                    ungen[lean] += 1
                    break
                lines.append(line)
                meta.append((lean, kind))
    impl, model = run_pair(lines) if lines else ([], [])
    per_op = collections.defaultdict(lambda: [0, 0, 0])   # n, disagree, noop
    dis = []
    distinct = set()
    for line, (lean, kind), a, b in zip(lines, meta, impl, model):
        st = per_op[(lean, kind)]
        st[0] += 1
        distinct.add(line)
        if a == 'NOOP' or b == 'NOOP' or (b or '').startswith('BAD'):
            st[2] += 1
            continue
        rel, ab = tolerance(lean, manifest['defs'][lean], kind)
        ok, detail = cmp_tokens(a, b, rel, ab)
        if not ok and kind == 'f32' and lean not in (F32_EXACT or ()) and f32_overflow(a, b):
            ok = True
        if not ok:
            st[1] += 1
            dis.append({'line': line, 'impl': a, 'model': b, 'detail': detail, 'op': lean, 'kind': kind})
    return {'evaluations': len(lines), 'distinct': len(distinct), 'per_op': {f'{k[0]}[{k[1]}]': v for k, v in per_op.items()},
            'disagreements': dis, 'ungenerated': dict(ungen)}
