"""Input generators for the correspondence check: structured, mostly-valid parameters per model struct, observation
pools per type, special values.  Every random choice derives from the `random.Random` passed in."""
import math, struct, ast

SPECIALS = [float('nan'), float('inf'), float('-inf'), 0.0, -0.0, 5e-324, -5e-324, 1e-300, -1e-300, 1.0, -1.0,
            1.0 + 2.220446049250313e-16, 1.0 - 1.1102230246251565e-16, 1e300, -1e300, 1.7976931348623157e308,
            -1.7976931348623157e308]


def f32r(x):
    """round to the nearest f32 (so that `x as f32` is exact in the harness)"""
    try:
        return struct.unpack('<f', struct.pack('<f', x))[0]
    except OverflowError:
        return math.copysign(float('inf'), x)


def logu(rng, lo=1e-3, hi=1e3):
    return math.exp(rng.uniform(math.log(lo), math.log(hi)))


def pos(rng):
    r = rng.random()
    if r < 0.08:
        return rng.choice([0.5, 1.0, 2.0, 3.0, 4.0, 10.0, 0.1])
    return logu(rng)


def real(rng):
    r = rng.random()
    if r < 0.1:
        return rng.choice([0.0, 1.0, -1.0, 0.5, -2.5])
    return rng.choice([-1, 1]) * logu(rng, 1e-2, 1e2)


def unit(rng, closed=False):
    r = rng.random()
    if closed and r < 0.08:
        return rng.choice([0.0, 1.0])
    if r < 0.2:
        return rng.choice([0.5, 0.1, 0.9, 0.25, 1e-3, 0.999])
    return rng.uniform(0.001, 0.999)


def nat1(rng):
    r = rng.random()
    if r < 0.7:
        return rng.randint(1, 12)
    return rng.choice([20, 50, 100, 253, 254, 255, 300, 1000])


def simplex(rng, k=None, zeros=False):
    k = k or rng.randint(1, 6)
    w = [rng.random() + 0.05 for _ in range(k)]
    if zeros and k > 1 and rng.random() < 0.3:
        w[rng.randrange(k)] = 0.0
    s = sum(w)
    return [x / s for x in w]


# field domains per model struct: name -> {field: domain}.  Domains: real pos unit unitc nat nat1 lnsimplex poslist ...
DOM = {
    'Gaussian': {'mu': 'real', 'sigma': 'pos'},
    'Bernoulli': {'p': 'unitc'},
    'Beta': {'alpha': 'pos', 'beta': 'pos'},
    'BetaBinomial': {'n': 'nat1', 'alpha': 'pos', 'beta': 'pos'},
    'Binomial': {'n': 'nat1', 'p': 'unit'},
    'Categorical': {'ln_weights': 'lnsimplex'},
    'Cauchy': {'loc': 'real', 'scale': 'pos'},
    'ChiSquared': {'k': 'pos'},
    'Crp': {'alpha': 'pos', 'n': 'nat1s'},
    'Dirichlet': {'alphas': 'poslist'},
    'SymmetricDirichlet': {'alpha': 'pos', 'k': 'nat1s'},
    'Exponential': {'rate': 'pos'},
    'Gamma': {'shape': 'pos', 'rate': 'pos'},
    'Geometric': {'p': 'unit'},
    'Gev': {'loc': 'real', 'scale': 'pos', 'shape': 'gevshape'},
    'InvChiSquared': {'v': 'pos'},
    'InvGamma': {'shape': 'pos', 'scale': 'pos'},
    'InvGaussian': {'mu': 'pos', 'lambda': 'pos'},
    'Kumaraswamy': {'a': 'pos', 'b': 'pos'},
    'Laplace': {'mu': 'real', 'b': 'pos'},
    'LogNormal': {'mu': 'real', 'sigma': 'pos'},
    'NegBinomial': {'r': 'pos', 'p': 'unit'},
    'Pareto': {'shape': 'pos', 'scale': 'pos'},
    'Poisson': {'rate': 'pos'},
    'ScaledInvChiSquared': {'v': 'pos', 't2': 'pos'},
    'Skellam': {'mu_1': 'pos', 'mu_2': 'pos'},
    'StudentsT': {'v': 'pos'},
    'Uniform': {'a': 'real', 'b': '>a'},
    'UnitPowerLaw': {'alpha': 'pos'},
    'NormalGamma': {'m': 'real', 'r': 'pos', 's': 'pos', 'v': 'pos'},
    'NormalInvGamma': {'m': 'real', 'v': 'pos', 'a': 'pos', 'b': 'pos'},
    'NormalInvChiSquared': {'m': 'real', 'k': 'pos', 'v': 'pos', 's2': 'pos'},
    'KsTwoAsymptotic': {},
    'GaussianSuffStat': '@gaussian_stat',
    'BernoulliSuffStat': '@bernoulli_stat',
    'CategoricalSuffStat': '@categorical_stat',
    'PoissonSuffStat': '@poisson_stat',
    'BetaSuffStat': '@beta_stat',
    'InvGammaSuffStat': '@invgamma_stat',
    'InvGaussianSuffStat': '@invgaussian_stat',
    'UnitPowerLawSuffStat': '@upl_stat',
}


def stat_value(name, rng):
    n = rng.randint(2, 30)
    xs = [real(rng) for _ in range(n)]
    ps = [unit(rng) for _ in range(n)]
    qs = [pos(rng) for _ in range(n)]
    if name == '@gaussian_stat':
        m = sum(xs) / n
        return (n, m, sum((x - m) ** 2 for x in xs))
    if name == '@bernoulli_stat':
        return (n, rng.randint(0, n))
    if name == '@categorical_stat':
        k = rng.randint(2, 5)
        counts = [float(rng.randint(1, 9)) for _ in range(k)]
        return (int(sum(counts)), counts)
    if name == '@poisson_stat':
        ks = [rng.randint(0, 12) for _ in range(n)]
        return (n, float(sum(ks)), sum(math.lgamma(k + 1.0) for k in ks))
    if name == '@beta_stat':
        return (n, sum(math.log(p) for p in ps), sum(math.log(1 - p) for p in ps))
    if name == '@invgamma_stat':
        return (n, sum(math.log(q) for q in qs), sum(1 / q for q in qs))
    if name == '@invgaussian_stat':
        return (n, sum(qs), sum(1 / q for q in qs), sum(math.log(q) for q in qs))
    if name == '@upl_stat':
        return (n, sum(math.log(p) for p in ps))
    raise KeyError(name)


def parse_ty(s):
    """manifest type string -> python structure"""
    if s in ('real', 'nat', 'int', 'bool', 'unit'):
        return s
    try:
        return ast.literal_eval(s)
    except Exception:
        return s


def field_value(dom, ty, rng, sofar):
    if dom == 'real':
        return real(rng)
    if dom == 'pos':
        return pos(rng)
    if dom == 'unit':
        return unit(rng)
    if dom == 'unitc':
        return unit(rng, closed=True)
    if dom == 'nat1':
        return nat1(rng)
    if dom == 'nat1s':
        return rng.randint(1, 6)
    if dom == 'gevshape':
        return rng.choice([0.0, 0.5, 1.0, -0.5, 0.25, -0.25, rng.uniform(-1.5, 1.5)])
    if dom == '>a':
        return sofar[-1] + pos(rng)
    if dom == 'lnsimplex':
        return [math.log(w) if w > 0 else float('-inf') for w in simplex(rng)]
    if dom == 'poslist':
        return [pos(rng) for _ in range(rng.randint(1, 6))]
    raise KeyError(dom)


def default_value(ty, rng):
    if ty == 'real':
        return real(rng)
    if ty == 'nat':
        return rng.choice([0, 1, 2, 3, 5, 8, 13, 40])
    if ty == 'int':
        return rng.choice([-7, -1, 0, 1, 2, 3, 5, 11])
    if ty == 'bool':
        return rng.random() < 0.5
    if isinstance(ty, tuple):
        if ty[0] == 'list':
            return [default_value(ty[1], rng) for _ in range(rng.randint(0, 5))]
        if ty[0] == 'opt':
            return None if rng.random() < 0.3 else ('S', default_value(ty[1], rng))
        if ty[0] == 'tup':
            return tuple(default_value(t, rng) for t in ty[1])
    raise KeyError(f'default {ty}')


def bessel_i0(x):
    t, s, k = 1.0, 1.0, 0
    while k < 2000:
        k += 1
        t *= (x / 2.0) ** 2 / (k * k)
        s += t
        if t < 1e-17 * s:
            break
    return s


def struct_value(name, structs, rng):
    """tuple of field values of model struct `name` (valid parameters)"""
    if name == 'VonMises':
        k = pos(rng) if rng.random() < 0.9 else rng.choice([1e-3, 50.0, 300.0])
        k = min(k, 500.0)
        return (rng.uniform(0.0, 2 * math.pi), k, bessel_i0(k))
    fields = structs[name]
    dom = DOM.get(name)
    if isinstance(dom, str):
        return stat_value(dom, rng)
    vals = []
    for f, ts in fields:
        ty = parse_ty(ts)
        d = (dom or {}).get(f)
        if d is not None:
            vals.append(field_value(d, ty, rng, vals))
        elif isinstance(ty, tuple) and ty[0] == 'struct':
            vals.append(struct_value(ty[1], structs, rng))
        else:
            vals.append(default_value(ty, rng))
    return tuple(vals)


REAL_POOL = [0.0, 1.0, 0.5, 2.0, -1.0, 1e-3, 0.999, 3.7, 10.0, -3.2, 0.25, 100.0, 1e-8, 7.5]


def obs_real(rng):
    r = rng.random()
    if r < 0.25:
        return rng.choice(REAL_POOL)
    if r < 0.55:
        return rng.uniform(0.0, 1.0)
    if r < 0.8:
        return logu(rng, 1e-3, 1e3)
    return real(rng)


def obs_nat(rng):
    r = rng.random()
    if r < 0.7:
        return rng.randint(0, 12)
    return rng.choice([20, 50, 100, 200, 253, 254, 255])


def arg_value(ty, kind, rng, structs, pname=''):
    """value of a (non-self) method argument"""
    if ty == 'real':
        if pname in ('p', 'u', 'q'):
            return unit(rng)
        v = obs_real(rng)
        return f32r(v) if kind == 'f32' else v
    if ty == 'nat':
        v = obs_nat(rng)
        if kind in ('u8',):
            v = min(v, 255)
        return v
    if ty == 'int':
        v = rng.choice([-1, 1]) * obs_nat(rng) if rng.random() < 0.3 else obs_nat(rng)
        if kind == 'i8':
            v = max(-128, min(127, v))
        return v
    if ty == 'bool':
        return rng.random() < 0.5
    if isinstance(ty, tuple):
        if ty[0] == 'struct':
            return struct_value(ty[1], structs, rng)
        if ty[0] == 'list':
            return [arg_value(ty[1], kind, rng, structs) for _ in range(rng.choice([0, 1, 2, 3, 5, 9, 17]))]
        if ty[0] == 'tup':
            return tuple(arg_value(t, kind, rng, structs) for t in ty[1])
        if ty[0] == 'opt':
            return None if rng.random() < 0.3 else ('S', arg_value(ty[1], kind, rng, structs))
        if ty[0] == 'dos':
            if rng.random() < 0.5:
                return ('D', [arg_value(ty[1], kind, rng, structs) for _ in range(rng.choice([0, 1, 2, 3, 7, 20]))])
            return ('Q', struct_value(ty[2][1], structs, rng))
    raise KeyError(f'arg {ty}')
