"""C09 — cached quantities never go stale; results do not depend on call history."""
import random, collections
from checklib import gen
from checklib.core import enc, run_pair, tok_to_float
from checklib.gen import parse_ty

ID = 'C09'
LEAN_DEPS = ['RvModel.Hand.CacheSM']
TRUSTED = ['fact extraction rs2lean/facts.py (read sets of cache initialisers, write/reset sets of setters, PartialEq field lists)',
           'atomicity of OnceLock::get_or_init and of &mut self setters (threads = interleavings of atomic operations)']
ASSUMPTIONS = ['every cache is only reached through its getter; every parameter write goes through a setter listed in the facts']
N_GEN = {'quick': 0, 'thorough': 0}


def gen_ops(man):
    return []


def history(tname, meta, structs, rng, length):
    selfv = gen.struct_value(tname, structs, rng)
    fields = [f for f, t in structs[tname]]
    dom = gen.DOM.get(tname, {})
    steps = []
    cur = dict(zip(fields, selfv)) if isinstance(selfv, (list, tuple)) and len(selfv) == len(fields) else {}
    # some histories move a parameter only by tiny amounts / between tiny magnitudes ("did it change?" guards on setters)
    tiny_mode = rng.random() < 0.2
    asked = []
    cloned = False
    for _ in range(length):
        r = rng.random()
        if r < 0.33 and meta['setters']:
            m, ptys = rng.choice(meta['setters'])
            fld = m.replace('set_', '').replace('_unchecked', '')
            vals = []
            for t in ptys:
                d = dom.get(fld) if isinstance(dom, dict) else None
                if d in ('>a',):
                    d = 'real'
                c = cur.get(fld)
                if tiny_mode and t == 'real' and len(ptys) == 1 and d in (None, 'pos', 'real') and rng.random() < 0.7:
                    if isinstance(c, float) and c == c and abs(c) < 1e300 and rng.random() < 0.4:
                        vals.append(c * (1.0 + rng.choice([1, 2, 3, -1, -2]) * 2.220446049250313e-16) if c != 0.0 else 5e-324)
                    else:
                        vals.append(gen.pos(rng) * rng.choice([1e-16, 1e-17, 1e-18, 1e-20]))
                    cur[fld] = vals[-1]
                    continue
                if d is not None and t == 'real':
                    vals.append(gen.field_value(d, t, rng, [0.0]))
                elif d is not None and t in ('nat', 'int'):
                    vals.append(gen.field_value(d, t, rng, [0]))
                else:
                    vals.append(gen.default_value(t, rng) if t != 'real' else gen.pos(rng))
            steps.append(m + ' ' + ' '.join(enc(v) for v in vals))
        elif r < 0.84 and asked and rng.random() < 0.4:
            # ask an earlier question again (same method, same arguments): the direct probe for a stale cache
            steps.append(rng.choice(asked))
        elif r < 0.84:
            q, ptys, kd = rng.choice(meta['queries'])
            args = []
            for ts in ptys:
                ty = parse_ty(ts)
                v = gen.arg_value(ty, kd, rng, structs, 'p' if 'invcdf' in q else '')
                if ty in ('nat', 'int') and tname in ('Bernoulli',):
                    v = v % 2
                args.append(v)
            steps.append(q + (' ' + ' '.join(enc(v) for v in args) if args else ''))
            asked.append(steps[-1])
        elif r < 0.96:
            steps.append('clone' if (not cloned or rng.random() < 0.4) else 'swap')
            cloned = True
        elif meta['eq']:
            steps.append('eq')
    return f'hist.{tname} - {enc(selfv)} {len(steps)} ' + ' '.join(steps), steps


def mixture_history(rng, length):
    """history of a Mixture<Gaussian> for the hand-written runner hist.MixtureGaussian (harness/src/manual.rs)"""
    def params(k):
        w = [rng.random() + 0.05 for _ in range(k)]
        t = sum(w)
        return [x / t for x in w], [rng.uniform(-6, 6) for _ in range(k)], [gen.pos(rng) for _ in range(k)]
    w0, mu0, sg0 = params(rng.choice([1, 2, 3, 5]))
    k = len(w0)
    steps = []
    for _ in range(length):
        r = rng.random()
        if r < 0.4:
            steps.append('q ' + enc(rng.uniform(-8, 8)))
        elif r < 0.55:
            steps.append('lw')
        elif r < 0.7:
            steps.append('w ' + enc(params(k)[0]))
        elif r < 0.85:
            w, mu, sg = params(rng.choice([1, 2, 3, 4, 6]))
            k = len(w)
            steps.append('cw ' + enc(w) + ' ' + enc(mu) + ' ' + enc(sg))
        elif r < 0.91:
            steps.append('clone')
        elif r < 0.96 and k <= 12:
            # Mixture::combine of the live object with a second mixture, either of which may have been queried before
            # (seeded change C09-7: cached ln_weights of the inputs carried into the result)
            w, mu, sg = params(rng.choice([1, 2, 3]))
            k += len(w)
            steps.append('comb ' + enc(w) + ' ' + enc(mu) + ' ' + enc(sg) + ' ' + str(rng.choice([0, 1, 2, 3])))
        else:
            steps.append('eq')
    return f'hist.MixtureGaussian - {enc(w0)} {enc(mu0)} {enc(sg0)} {len(steps)} ' + ' '.join(steps), steps


def search_site(man, site, seed):
    """a fact theorem about type `site` broke: run many histories on that type only and return the stale ones"""
    site = site.split('.')[0]          # a definition name or `<Type>.<facts>` stands for its type
    out = extra_run(man, 'thorough', seed, only=site, nper=6000)
    return out['failures']


def extra_run(man, tier, seed, only=None, nper=None):
    rng = random.Random(seed * 31 + 9)
    structs = man['structs']
    hist = {k: v for k, v in man.get('hist', {}).items() if only is None or k == only}
    nper = nper or (40 if tier == 'quick' else 1500)
    lines, meta = [], []
    for tname, m in sorted(hist.items()):
        for i in range(nper):
            length = rng.choice([2, 3, 4, 6, 8, 12, 16])
            line, steps = history(tname, m, structs, rng, length)
            lines.append(line)
            meta.append((tname, steps))
    if only in (None, 'Mixture'):
        for i in range(nper):
            line, steps = mixture_history(rng, rng.choice([3, 4, 6, 8, 12]))
            lines.append(line)
            meta.append(('Mixture', steps))
    impl, _ = run_pair(lines, want_model=False)
    failures = []
    obligations = []
    bad_types = collections.Counter()
    nq = 0
    ran, answered = collections.Counter(), collections.Counter()
    for line, (tname, steps), ans in zip(lines, meta, impl):
        ran[tname] += 1
        if ans in ('PANIC', 'HANG', 'DIED', 'NOOP'):
            # a panic inside a query on out-of-domain input is not a history dependence; count separately
            continue
        answered[tname] += 1
        pairs = [p.split() for p in ans.split(' | ')] if ans else []
        for p in pairs:
            nq += 1
            h = len(p) // 2
            if len(p) % 2 != 0 or p[:h] != p[h:]:
                bad_types[tname] += 1
                failures.append({'site': tname, 'case': line, 'impl': ans, 'expected': 'every pair "got fresh" bit-identical',
                                 'observed': 'stale', 'detail': ' '.join(p)})
                break
    # a type whose histories (almost) all fail to run is not being observed at all (e.g. an op name shadowed in the harness)
    for tname in sorted(ran):
        if answered[tname] * 2 < ran[tname]:
            obligations.append({'name': f'coverage:hist.{tname}', 'kind': 'coverage', 'ok': False, 'site': tname,
                                'detail': f'only {answered[tname]} of {ran[tname]} histories of {tname} ran to the end (PANIC / HANG / NOOP)'})
    # every cache-holding type must have a soundness theorem (coverage of the theorem list)
    import re, os
    from checklib import core
    src = open(os.path.join(core.LEAN, 'RvModel', 'Props', 'C09A.lean')).read()
    for tname, f in man.get('facts', {}).items():
        if f['caches'] or f['derived']:
            if f['setters'] and not re.search(rf'theorem {tname}_sound\b', src):
                obligations.append({'name': f'coverage:{tname}_sound', 'kind': 'coverage', 'ok': False, 'site': tname,
                                    'detail': 'type with caches and setters has no soundness theorem in Props/C09A.lean'})
        if f['caches'] and not re.search(rf'theorem {tname}_closed\b', src):
            obligations.append({'name': f'coverage:{tname}_closed', 'kind': 'coverage', 'ok': False, 'site': tname,
                                'detail': 'cache-holding type has no alphabet-closure theorem (foreignCacheWrites = []) in Props/C09A.lean'})
    return {'obligations': obligations, 'failures': failures,
            'stats': {'evaluations': len(lines), 'distinct_nontrivial': len(set(lines)), 'queries_compared': nq,
                      'types': len(hist)},
            'samples': lines[:2]}
