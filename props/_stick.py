"""StickBreaking / StickBreakingDiscrete conjugate pair (hand model Hand/StickConj.lean, theorems Props/C05S.lean):
obligations shared by C05 (posterior) and C06 (marginal / predictive).  See props/C05S_notes.md."""
from props import cases_c05s
from checklib import core

C05_REL = ('rel:empty_is_prior', 'rel:closed_form', 'rel:stat_eq_data', 'rel:seq_eq_batch', 'rel:posterior_valid', 'rel:bayes',
           'rel:stat_counts_add', 'rel:panic_on_valid_input')
C07_REL = ('rel:ln_f_stat_eq_sum', 'rel:ln_f_stat_state_independent', 'rel:stat_counts_add')
C06_REL = ('rel:ln_m_empty', 'rel:chain_rule', 'rel:perm', 'rel:cached', 'rel:normalised')
SITE = {'rel:empty_is_prior': 'StickBreaking.posterior', 'rel:closed_form': 'StickBreaking.posterior_from_suffstat',
        'rel:stat_eq_data': 'StickBreaking.posterior', 'rel:seq_eq_batch': 'StickBreaking.posterior_from_suffstat',
        'rel:posterior_valid': 'StickBreaking.posterior_from_suffstat', 'rel:bayes': 'StickBreaking.ln_f',
        'rel:stat_counts_add': 'StickBreakingDiscreteSuffStat.observe', 'rel:panic_on_valid_input': 'StickBreaking',
        'rel:ln_m_empty': 'StickBreaking.ln_m', 'rel:chain_rule': 'StickBreaking.ln_pp', 'rel:perm': 'StickBreaking.ln_m',
        'rel:cached': 'StickBreaking.ln_pp_with_cache', 'rel:normalised': 'StickBreaking.pp',
        'rel:ln_f_stat_eq_sum': 'StickBreakingDiscrete.ln_f_stat', 'rel:ln_f_stat_state_independent': 'StickBreakingDiscrete.ln_f_stat'}

def stick_extra(pid, tier, seed):            # call from extra_run of C05.py (pid='C05') and C06.py (pid='C06'); merge the three lists
    r = cases_c05s.run(tier, seed + {'C05': 5, 'C06': 6, 'C07': 7}[pid], harness=core.harness_path(), driver=core.driver_path(),
                       units=None if pid == 'C05' else (150 if tier == 'quick' else 2500))
    rels = {'C05': C05_REL, 'C06': C06_REL, 'C07': C07_REL}[pid]
    ops05 = ('sb.posterior', 'sb.posterior_stat', 'sb.ln_f', 'sb.f', 'sb.breaks', 'sb.weights', 'sbstat.', 'sbd.')
    if pid == 'C07':
        mine = [m for m in r['mismatches'] if m[0].startswith(('sbd.', 'sbstat.'))]
    else:
        mine = [m for m in r['mismatches'] if m[0].startswith(ops05) == (pid == 'C05')]
    obligations = [{'name': f'corr:StickBreaking({pid} ops, hand model Hand.StickConj)', 'kind': 'corr', 'ok': not mine and r['cases'] > 0,
                    'site': 'StickBreaking', 'detail': f"{r['cases']} lines, {len(mine)} mismatches",
                    'cases': [{'line': l[:3000], 'impl': a[:600], 'model': b[:600]} for l, a, b in mine[:3]],
                    'all_cases': [{'line': l[:3000], 'impl': a[:600], 'model': b[:600]} for l, a, b in mine[:50]] if len(mine) <= 50 else None}]
    failures = []
    for name in rels:
        bad = r['findings'].get(name, [])
        obligations.append({'name': f'corr:StickBreaking:{name[4:]}', 'kind': 'corr', 'ok': not bad, 'site': SITE[name],
                            'detail': f'{len(bad)} violations of the relation on the implementation' + (': ' + bad[0][:200] if bad else ''),
                            'cases': [{'line': c[:3000], 'impl': '', 'model': ''} for c in bad[:3]]})
        failures += [{'site': SITE[name], 'case': c[:3000], 'impl': '', 'expected': name, 'observed': 'value', 'detail': name} for c in bad[:5]]
    # accepted observations -> known findings (never VIOLATION): obs:ln_m_both_arm_underflow (C06), obs:ln_f_empty_weights_panics (C05)
    if pid == 'C07':
        failures += [{'site': 'StickBreakingDiscrete.ln_f_stat', 'case': c, 'impl': 'NaN', 'expected': 'sum of ln_f', 'observed': 'value',
                      'detail': '0 * ln 0', 'cls': 'sbd_zero_weight_empty_slot'} for c in r['findings'].get('obs:ln_f_stat_nan_on_empty_slot_of_zero_weight', [])]
    elif pid == 'C06':
        failures += [{'site': 'StickBreaking.ln_m', 'case': c, 'impl': '-inf', 'expected': 'finite ln_m', 'observed': 'value',
                      'detail': 'both-arm underflow', 'cls': 'sb_both_arm_underflow'} for c in r['findings'].get('obs:ln_m_both_arm_underflow', [])]
    else:
        failures += [{'site': 'StickBreaking.ln_f', 'case': c, 'impl': 'PANIC', 'expected': 'a value or an error', 'observed': 'panic',
                      'detail': 'empty PartialWeights', 'cls': 'empty_weights'} for c in r['findings'].get('obs:ln_f_empty_weights_panics', [])]
    return {'obligations': obligations, 'failures': failures, 'stats': {'evaluations': r['cases'], 'distinct_nontrivial': r['cases']},
            'samples': r['samples']}
# INPUT_CLASSES (C06.py): {'sb_both_arm_underflow': lambda f: f.get('cls') == 'sb_both_arm_underflow'}
# INPUT_CLASSES (C05.py): {'empty_weights': lambda f: f.get('cls') == 'empty_weights'}
