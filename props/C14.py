"""C14 — special functions and quadrature tables meet their accuracy contract."""
import random, math, subprocess
from checklib.core import enc, run_pair, cmp_tokens, tok_to_float, driver_path

ID = 'C14'
LEAN_DEPS = ['RvModel.Gen.Tables', 'RvModel.Hand.Legendre', 'RvModel.Hand.LnFact', 'RvModel.Hand.Bessel',
             'RvModel.Lemmas.C14Legendre', 'RvModel.Lemmas.C14LnFact', 'RvModel.Lemmas.C14Bessel', 'RvModel.Hand.DispatchAll']
TRUSTED = ['table extraction rs2lean/tables.py (exact rational of every binary64 literal)',
           'hand models Hand/Legendre.lean (table mirroring), Hand/Bessel.lean (decision structure only), tied by correspondence',
           'Float oracles of FloatInst.lean (lgamma, I_v power series) validated against mpmath at construction; NOT certified']
ASSUMPTIONS = ['accuracy of the Chebyshev / Temme / continued-fraction Bessel kernels and of special::ln_gamma is explored against '
               'uncertified oracles only; theorems cover tables, the ln n! table, switch-point continuity and dispatcher logic']
N_GEN = {'quick': 30, 'thorough': 400}
REQUIRED = ['ln_fact', 'ln_binom', 'lnmv_gamma', 'i0', 'i1']


def gen_ops(man):
    return [o for o in ('ln_fact', 'ln_binom', 'lnmv_gamma', 'mvgamma', 'i0', 'i1', 'chbevl') if o in man['defs']]


def extra_run(man, tier, seed):
    rng = random.Random(seed * 19 + 1)
    pairs = []     # (impl line, model/oracle line, site, rel, abs)
    for n in range(2, 31):
        pairs.append((f'gauss_legendre_table - {n}', f'hand.gauss_legendre_table - {n}', 'gauss_legendre_table', 0.0, 0.0))
        for k in ([0, 1, 2, 2 * n - 1] if tier == 'quick' else range(2 * n)):
            a, b = -1.0, 1.0
            pairs.append((f'gauss_legendre_quadrature_monomial - {n} {k} {enc((a, b))}',
                          f'hand.gauss_legendre_quadrature_monomial - {n} {k} {enc((a, b))}', 'gauss_legendre_quadrature', 1e-13, 1e-15))
    ns = list(range(0, 300)) + [10 ** 3, 10 ** 4, 10 ** 5, 10 ** 6, 253, 254, 255]
    if tier == 'thorough':
        ns += [rng.randint(300, 10 ** 6) for _ in range(20000)]
    for n in ns:
        pairs.append((f'ln_fact - {n}', f'hand.ln_fact_spec - {n}', 'ln_fact', 1e-10, 1e-13))
    xs = [1e-300, 1e-10, 0.1, 1.0, 2.0, 5.0, 7.999999, 8.0, 8.000001, 10.0, 30.0, 100.0, 300.0, 700.0]
    xs += [math.exp(rng.uniform(-5, 6.5)) for _ in range(100 if tier == 'quick' else 5000)]
    for x in xs:
        pairs.append((f'i0 - {enc(x)}', f'hand.i0_spec - {enc(x)}', 'i0', 1e-10, 0.0))
        pairs.append((f'i1 - {enc(x)}', f'hand.i1_spec - {enc(x)}', 'i1', 1e-10, 0.0))
    vs = [0.0, 1.0, 2.0, 0.5, -0.5, 3.7, 10.0, -10.0, 49.5, 50.0, 50.5, 60.0, 100.0, -1.0, -3.0]
    for _ in range(60 if tier == 'quick' else 4000):
        v = rng.choice(vs) if rng.random() < 0.5 else rng.uniform(-100, 100)
        z = rng.choice([0.0, -1.0, -2.5, 1e-10, 1.9999, 2.0, 2.0001, 8.0, 99.99, 100.0, 100.01]) if rng.random() < 0.3 else math.exp(rng.uniform(-6, 6.5))
        pairs.append((f'bessel_iv - {enc((v, z))}', f'hand.bessel_iv - {enc((v, z))}', 'bessel_iv', 1e-8, 1e-300))
    # negative integer orders (the Skellam path: I_{-n} = I_n exactly) and orders around the |v| = 50 switch, on a grid of
    # small and moderate arguments: a reflection term sin(pi v) K_v that is not exactly zero shows for small z
    for v in [-1.0, -2.0, -3.0, -5.0, -10.0, -15.0, -20.0, -30.0, -49.0, -50.0, -51.0, -60.0, -75.0, -100.0, -51.5, -52.5, -60.5, 51.0, 75.0]:
        for z in [1e-3, 0.01, 0.1, 0.5, 1.0, 2.0, 5.0, 10.0, 30.0, 60.0]:
            pairs.append((f'bessel_iv - {enc((v, z))}', f'hand.bessel_iv - {enc((v, z))}', 'bessel_iv', 1e-8, 1e-300))
    for _ in range(100 if tier == 'quick' else 5000):
        x = math.exp(rng.uniform(-6, 6))
        pairs.append((f'ln_gammafn - {enc(x)}', f'hand.ln_gamma_spec - {enc(x)}', 'ln_gammafn', 1e-10, 1e-13))
    # the rule itself: an n-point Gauss–Legendre rule integrates x^k over [-1, 1] exactly for k < 2n: 2/(k+1) (k even), 0 (k odd)
    exact_lines, exact_want = [], []
    for nq in range(2, 31):
        for k in ([0, 1, 2, 3, 2 * nq - 2, 2 * nq - 1] if tier == 'quick' else range(2 * nq)):
            exact_lines.append(f'gauss_legendre_quadrature_monomial - {nq} {k} {enc((-1.0, 1.0))}')
            exact_want.append(2.0 / (k + 1) if k % 2 == 0 else 0.0)
    ex_impl, _ = run_pair(exact_lines, want_model=False)
    impl, _ = run_pair([p[0] for p in pairs], want_model=False)
    p = subprocess.run([driver_path()], input='\n'.join(q[1] for q in pairs) + '\n', capture_output=True, text=True)
    orc = p.stdout.split('\n')
    failures = []
    nontrivial = 0
    for (il, ol, site, rel, ab), a, b in zip(pairs, impl, orc):
        if b == 'NOOP' or b.startswith('BAD') or a == 'NOOP':
            continue
        nontrivial += 1
        ok, detail = cmp_tokens(a, b, rel, ab)
        if not ok:
            vals = [tok_to_float(t) for t in il.split()[2:] if t.startswith('x')]
            failures.append({'site': site, 'case': il, 'spec_case': ol, 'impl': a, 'expected': b, 'detail': detail,
                             'observed': 'panic' if a == 'PANIC' else ('nan' if 'nan' in detail else 'value'), 'args': vals})
    for l, a, w in zip(exact_lines, ex_impl, exact_want):
        if a == 'NOOP':
            break
        v = tok_to_float(a) if a.startswith('x') else float('nan')
        if not (abs(v - w) <= 1e-12):
            failures.append({'site': 'gauss_legendre_table', 'case': l, 'spec_case': '', 'impl': a, 'expected': repr(w), 'detail': f'{v!r} vs exact integral {w!r}',
                             'observed': 'panic' if a == 'PANIC' else ('nan' if v != v else 'value'), 'args': []})
    return {'obligations': [], 'failures': failures,
            'stats': {'evaluations': len(pairs) + len(exact_lines), 'distinct_nontrivial': nontrivial + len(exact_lines)}, 'samples': [pairs[0][0], pairs[-1][0]]}


INPUT_CLASSES = {}
