"""Shared helpers for the conjugate-pair properties (C05, C06): pairs, data generators, op lines."""
import math
from checklib import gen
from checklib.core import enc

# prior struct, likelihood tag in op names, kind token, kind suffix, observation generator, stat struct
PAIRS = [
    ('Beta', 'Bernoulli', 'bool', 'bool', lambda r, pv: r.random() < 0.5, 'BernoulliSuffStat'),
    ('UnitPowerLaw', 'Bernoulli', 'bool', 'bool', lambda r, pv: r.random() < 0.5, 'BernoulliSuffStat'),
    # counts up to the top of the observation type (u32): sums of a few of them exceed 2^32
    ('Gamma', 'Poisson', 'u32', 'nat', lambda r, pv: gen.obs_nat(r) if r.random() < 0.85 else r.randint(2 ** 31, 2 ** 32 - 1), 'PoissonSuffStat'),
    ('Dirichlet', 'Categorical', 'usize', 'nat', lambda r, pv: r.randrange(len(pv[0])), 'CategoricalSuffStat'),
    ('SymmetricDirichlet', 'Categorical', 'usize', 'nat', lambda r, pv: r.randrange(pv[1]), 'CategoricalSuffStat'),
    ('NormalGamma', 'Gaussian', 'f64', 'real', lambda r, pv: gen.real(r), 'GaussianSuffStat'),
    ('NormalInvGamma', 'Gaussian', 'f64', 'real', lambda r, pv: gen.real(r), 'GaussianSuffStat'),
    ('NormalInvChiSquared', 'Gaussian', 'f64', 'real', lambda r, pv: gen.real(r), 'GaussianSuffStat'),
]


def op(prior, name, suf, lik):
    return f'{prior}.{name}_{suf}_{lik}'


def data_tok(xs):
    return 'D ' + enc(xs)


def datasets(rng, obs, pv, n_sets, sizes=(0, 1, 2, 3, 5, 10, 40, 200)):
    out = []
    for _ in range(n_sets):
        n = rng.choice(sizes)
        out.append([obs(rng, pv) for _ in range(n)])
    return out
