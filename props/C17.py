"""C17 — Gaussian-process fitting, evidence and prediction match GP algebra.

Implementation ops: harness/src/manual_c17.rs (`gp.*`); model ops: lean/RvModel/Hand/DispatchC17.lean (same names).
Generators, tolerances and comparisons: props/cases_c17.py (details in props/C17_notes.md).  What is run:
  1. implementation vs executable model `Hand/Gp.lean` on random training sets (1-40 points, input dimension 1-4, kernels
     rbf / const·rbf / rbf·const / const+rbf / const·rbf+const / rbf·rbf, Uniform and PerPoint noise): train (Cholesky factor,
     alpha, K⁻¹), ln_m, ln_m_with_params (value + gradient), set_parameters∘ln_m, predictive mean / cov / variance / std,
     set_parameters(parameters()), the assembled query matrix — relative 1e-8·max(1, cond/1e6);
  2. the gradient of the implementation against central differences of the implementation's own ln_m in every log-parameter;
  2b. set_parameters(θ') with every log-parameter moved by 0.2–1.0, all six kernel shapes × both noise models: parameters, ln_m,
     the cached alpha (private; read through the serde rendering), predictive mean / cov / variance of the resulting process
     against the model's refit AND against a process the implementation trains from scratch with the kernel at θ'
     (`gp.set_vs_fresh`); a set_parameters with a wrong number of parameters is rejected and leaves the process unchanged;
  3. Uniform(1e-10): predictive mean at the training inputs = targets, input dimension 1..4;
  4. layout: the matrix handed to the kernel is the list of query points, the joint prediction at n points equals the n
     single-point predictions (model-independent), dimension 1..4; the witness of the repaired scrambling defect;
  5. fixed cases: noise variants, size mismatch, non-PSD, missing / extra / out-of-range / NaN parameters, panics.
Accepted observations (reported in the obligations' details / samples, never as failures): `Uniform(σ)` adds σ² while
`PerPoint(v)` adds vᵢ; `set_parameters(parameters())` is bit-identical only when exp(ln θ) = θ in binary64 (≈84 %), otherwise
ln_m / mean move at rounding level (required: within the cond-scaled tolerance).
"""
from checklib.core import run_pair
from props import cases_c17

ID = 'C17'
LEAN_DEPS = ['RvModel.Hand.Gp', 'RvModel.Lemmas.C17', 'RvModel.Hand.DispatchAll']
TRUSTED = ['hand model Hand/Gp.lean of GaussianProcess / GaussianProcessPrediction / NoiseModel over a kernel tree '
           'const | rbf | add | mul (tied by the correspondence runs of props/cases_c17.py; ln_m_model / grad_loop_model tie its list '
           'programs to the matrix expressions of the theorems)',
           "nalgebra's Cholesky::new returns a lower triangular L with positive diagonal and L·Lᵀ = K, and Cholesky::solve / inverse solve "
           'the two triangular systems (hypotheses hL hpos hK hz hα of the theorems; the factor, alpha and K⁻¹ of the implementation '
           'are compared with the model through gp.train)',
           'GPML eq. 5.9: d ln det K = tr(K⁻¹ dK) and d(yᵀK⁻¹y) = −αᵀ dK α are HYPOTHESES of grad_is_derivative_partial (not in Mathlib); '
           'the gradient is checked against central differences of the implementation',
           'kernel leaves other than Constant / RBF and their gradients are the subject of C16']
ASSUMPTIONS = ['K = kernel + noise is positive definite (train succeeded); positive kernel parameters (checked constructors)',
               'every query point has as many coordinates as the training inputs',
               'binary64: "unchanged" / "reproduces" are read up to rounding scaled by the condition number of K']
N_GEN = {'quick': 0, 'thorough': 0}


def gen_ops(man):
    return []


def extra_run(man, tier, seed):
    r = cases_c17.run(run_pair, tier, seed)
    obligations = r['obligations']
    # accepted observations travel as information inside an always-true obligation (kind 'finding', as in props/C19.py)
    for x in r['findings']:
        obligations.append({'name': 'finding:' + x['class'] + ':' + x['site'], 'kind': 'finding', 'ok': True, 'site': x['site'],
                            'detail': x['observed'][:600], 'cases': [{'line': x['case'][:2000], 'impl': '', 'model': ''}] if x.get('case') else []})
    st = r['stats']
    stats = {'evaluations': st.get('evaluations', 0), 'distinct_nontrivial': st.get('distinct_nontrivial', 0)}
    samples = list(r.get('samples', []))
    samples.append('max cond %.3g; set_parameters(parameters()) bit-identical %d / rounding drift %d; std() NaN entries %d' % (
        st.get('max_cond', 0.0), st.get('roundtrip_bit_identical', 0), st.get('roundtrip_rounding_drift', 0), st.get('std_nan_entries', 0)))
    return {'obligations': obligations, 'failures': r['failures'], 'stats': stats, 'samples': [s[:300] for s in samples]}
