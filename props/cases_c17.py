"""C17 — case generators and comparisons for the Gaussian-process check (contributed; used by props/C17.py).

Everything is a function of `run_pair(lines) -> (impl_answers, model_answers)` (checklib.core.run_pair) so that the module
can be exercised against private builds.  Ops: harness/src/manual_c17.rs  =  lean/RvModel/Hand/DispatchC17.lean.

    run(run_pair, tier, seed) -> dict(failures=[...], obligations=[...], findings=[...], stats={...}, samples=[...])

* failures     {site, case, impl, expected, observed, detail}: implementation ≠ executable model beyond tolerance, gradient ≠
               finite differences, interpolation / layout broken: VIOLATION material
* obligations  {name, kind: 'corr', ok, site, detail, cases}: one per compared function / named fact about the implementation
* findings     accepted observations with witnesses (noise parametrisation, exp∘ln drift, panics): information only,
               never failures
"""
import math, random, struct

SITE = {'gp.train': 'GaussianProcess::train', 'gp.ln_m': 'GaussianProcess::ln_m', 'gp.ln_m_with_params': 'GaussianProcess::ln_m_with_params',
        'gp.ln_m_fd': 'GaussianProcess::set_parameters', 'gp.ln_m_at': 'GaussianProcess::set_parameters',
        'gp.set_parameters': 'GaussianProcess::set_parameters', 'gp.predict_mean': 'GaussianProcess::sample_function',
        'gp.predict_cov': 'GaussianProcessPrediction::cov', 'gp.predict_var': 'GaussianProcessPrediction::variance',
        'gp.predict_std': 'GaussianProcessPrediction::std', 'gp.params_roundtrip': 'GaussianProcess::set_parameters',
        'gp.query_layout': 'GaussianProcess::sample_function', 'gp.set_vs_fresh': 'GaussianProcess::set_parameters',
        'gp.state': 'GaussianProcess::set_parameters', 'gp.add_noise': 'NoiseModel::add_noise_to_kernel'}


def mk_fail(op, case, impl, expected, detail=''):
    return {'site': SITE.get(op, op), 'case': case, 'impl': impl[:300], 'expected': expected[:300], 'observed': 'mismatch', 'detail': f'{op}: {detail}'}



def fb(x):
    return 'x%016x' % struct.unpack('<Q', struct.pack('<d', float(x)))[0]


def tf(t):
    if t == 'xNaN':
        return float('nan')
    return struct.unpack('<d', struct.pack('<Q', int(t[1:], 16)))[0]


def L(xs):
    return ' '.join(['L%d' % len(xs)] + [fb(x) for x in xs])


def pts(X):
    n = len(X)
    d = len(X[0]) if X else 0
    return ' '.join([str(n), str(d)] + [fb(v) for r in X for v in r])


def tree(k):
    if k[0] in ('const', 'rbf'):
        return f'{k[0]} {fb(k[1])}'
    return f'{k[0]} {tree(k[1])} {tree(k[2])}'


def params(k):
    return [math.log(k[1])] if k[0] in ('const', 'rbf') else params(k[1]) + params(k[2])


def noise(nm):
    return f'uniform {fb(nm[1])}' if nm[0] == 'uniform' else 'perpoint ' + L(nm[1])


def gp(k, nm, X, y):
    return f'{tree(k)} {noise(nm)} {pts(X)} {L(y)}'


def floats(ans):
    return [tf(t) for t in ans.split() if t.startswith('x') and len(t) in (4, 17)]


def shape(ans):
    return [t for t in ans.split() if not (t.startswith('x') and len(t) in (4, 17))]


def kcov(k, x, y):
    if k[0] == 'const':
        return k[1]
    if k[0] == 'rbf':
        return math.exp(-0.5 * sum(((a - b) / k[1]) ** 2 for a, b in zip(x, y)))
    a, b = kcov(k[1], x, y), kcov(k[2], x, y)
    return a + b if k[0] == 'add' else a * b


def norminf(M):
    return max(sum(abs(v) for v in r) for r in M) if M else 0.0


def vec_err(a, b, scale=None):
    if len(a) != len(b):
        return float('inf')
    if not a:
        return 0.0
    if any((x != x) != (y != y) for x, y in zip(a, b)):
        return float('inf')
    a = [0.0 if x != x else x for x in a]
    b = [0.0 if x != x else x for x in b]
    s = scale if scale is not None else max(max(abs(v) for v in a), max(abs(v) for v in b), 1e-300)
    return max(abs(x - y) for x, y in zip(a, b)) / s


def lg4(rng, a, b):
    """log-uniform, rounded to 4 decimals: NOT an image of exp (see notes: round trip)"""
    return round(math.exp(rng.uniform(math.log(a), math.log(b))), 4)


SHAPES = [
    ('rbf', lambda r: ('rbf', lg4(r, 0.3, 3.0))),
    ('const*rbf', lambda r: ('mul', ('const', lg4(r, 0.1, 10.0)), ('rbf', lg4(r, 0.3, 3.0)))),
    ('rbf*const', lambda r: ('mul', ('rbf', lg4(r, 0.3, 3.0)), ('const', lg4(r, 0.1, 10.0)))),
    ('const+rbf', lambda r: ('add', ('const', lg4(r, 0.1, 10.0)), ('rbf', lg4(r, 0.3, 3.0)))),
    ('const*rbf+const', lambda r: ('add', ('mul', ('const', lg4(r, 0.1, 10.0)), ('rbf', lg4(r, 0.3, 3.0))), ('const', lg4(r, 0.1, 2.0)))),
    ('rbf*rbf', lambda r: ('mul', ('rbf', lg4(r, 0.3, 3.0)), ('rbf', lg4(r, 0.3, 3.0)))),
]


def rkernel(rng):
    r = rng.random()
    i = 0 if r < 0.3 else 1 if r < 0.5 else 2 if r < 0.65 else 3 if r < 0.85 else 4 if r < 0.95 else 5
    return SHAPES[i][1](rng)


def with_params(k, th):
    """the kernel of the same shape with log-parameters th (consumed left to right); returns (kernel, rest)"""
    if k[0] in ('const', 'rbf'):
        return (k[0], math.exp(th[0])), th[1:]
    a, rest = with_params(k[1], th)
    b, rest = with_params(k[2], rest)
    return (k[0], a, b), rest


def rcase(rng):
    n = rng.choice([1, 2, 3, 4, 5, 6, 8, 10, 13, 17, 20, 25, 30, 35, 40])
    d = rng.choice([1, 1, 2, 3, 4])
    spread = rng.choice([1.0, 3.0, 10.0])
    X = [[rng.uniform(-spread, spread) for _ in range(d)] for _ in range(n)]
    f = rng.choice(['sin', 'gauss', 'lin'])
    if f == 'sin':
        y = [math.sin(sum(x)) for x in X]
    elif f == 'gauss':
        y = [rng.gauss(0, 1) for _ in X]
    else:
        y = [0.5 * sum(x) + rng.gauss(0, 0.1) for x in X]
    if rng.random() < 0.7:
        nm = ('uniform', rng.choice([1e-4, 1e-3, 1e-2, 0.1, 0.5, 1.0, 2.0]))
    else:
        nm = ('perpoint', [math.exp(rng.uniform(math.log(1e-6), 0.0)) for _ in range(n)])
    return rkernel(rng), nm, X, y, d


OPS = ['gp.train', 'gp.ln_m', 'gp.ln_m_with_params', 'gp.ln_m_fd', 'gp.predict_mean', 'gp.predict_cov', 'gp.predict_var',
       'gp.predict_std', 'gp.params_roundtrip', 'gp.query_layout']
FD_H = 1e-5


def correspondence(run_pair, rng, ncase, failures, obligations, findings, stats, samples):
    """implementation vs executable model on random training sets; gradient vs central differences of the implementation"""
    cases = [rcase(rng) for _ in range(ncase)]
    lines = []
    for k, nm, X, y, d in cases:
        g = gp(k, nm, X, y)
        nq = rng.choice([1, 2, 3, 5, 8])
        Xq = [[rng.uniform(-4, 4) for _ in range(d)] for _ in range(nq)]
        th = [t + rng.uniform(-0.3, 0.3) for t in params(k)]
        lines += [f'gp.train - {g}', f'gp.ln_m - {g}', f'gp.ln_m_with_params - {g} {L(th)}',
                  f'gp.ln_m_fd - {g} {L(th)} {fb(FD_H)}', f'gp.predict_mean - {g} {pts(Xq)}',
                  f'gp.predict_cov - {g} {pts(Xq)}', f'gp.predict_var - {g} {pts(Xq)}', f'gp.predict_std - {g} {pts(Xq)}',
                  f'gp.params_roundtrip - {g} {pts(Xq)}', f'gp.query_layout - {pts(Xq)}']
    per = len(OPS)
    impl, model = run_pair(lines)
    samples += [f'{lines[1][:160]} … -> impl {impl[1]} model {model[1]}']
    bad = {op: [] for op in OPS}
    worst = {op: 0.0 for op in OPS}
    count = {op: 0 for op in OPS}
    fd_bad, fd_n, fd_worst = [], 0, 0.0
    rt_same = rt_drift = 0
    rt_max = 0.0
    max_cond = 0.0
    for ci, (k, nm, X, y, d) in enumerate(cases):
        I, M = impl[ci * per:(ci + 1) * per], model[ci * per:(ci + 1) * per]
        n = len(X)
        tr = floats(I[0])
        if len(tr) != 2 * n * n + n:                       # training failed: same error on both sides, nothing else to compare
            stats['train_error'] = stats.get('train_error', 0) + 1
            if shape(I[0]) != shape(M[0]):
                bad['gp.train'].append((lines[ci * per], I[0], M[0], 'outcome'))
            continue
        kinv = [tr[n * n + n + i * n:n * n + n + (i + 1) * n] for i in range(n)]
        nd = [nm[1] ** 2] * n if nm[0] == 'uniform' else nm[1]
        K = [[kcov(k, X[i], X[j]) + (nd[i] if i == j else 0.0) for j in range(n)] for i in range(n)]
        cond = norminf(K) * norminf(kinv)
        tol = 1e-8 * max(1.0, cond / 1e6)                  # 1e-8 relative, scaled by the condition number
        max_cond = max(max_cond, cond)
        pv = kcov(k, [0.0] * d, [0.0] * d)                 # prior variance = scale of the predictive (co)variance
        for oi, (op, a, b) in enumerate(zip(OPS, I, M)):
            ln = lines[ci * per + oi]
            if op == 'gp.params_roundtrip' and a.split()[0] in ('T', 'F'):
                # accepted observation: exp(ln θ) ≠ θ in binary64, so the flag is a rounding-level fact of each side — not compared;
                # what IS required: ln_m and the mean are unchanged within the tolerance
                if a.split()[0] == 'T':
                    rt_same += 1
                else:
                    rt_drift += 1
                fr = floats(a)
                nq = (len(fr) - 2) // 2
                drift = max(abs(fr[0] - fr[1]) / max(1.0, abs(fr[0])), vec_err(fr[2:2 + nq], fr[2 + nq:]))
                rt_max = max(rt_max, drift / max(1.0, cond / 1e6))
                if not drift <= tol:
                    bad[op].append((ln, a, 'ln_m and mean unchanged by set_parameters(parameters())', f'drift {drift:.3g} tol {tol:.3g}'))
                a, b = ' '.join(a.split()[1:]), ' '.join(b.split()[1:])
            if shape(a) != shape(b):
                bad[op].append((ln, a, b, 'outcome/shape'))
                continue
            fa, fm = floats(a), floats(b)
            if op == 'gp.ln_m_with_params':
                e = max(vec_err(fa[:1], fm[:1]), vec_err(fa[1:], fm[1:], scale=max(1.0, max(abs(v) for v in fa[1:]))))
            elif op == 'gp.ln_m_fd':
                e = vec_err(fa, fm, scale=max(1.0, max(abs(v) for v in fa))) * (tol / max(tol, 1e-5))
            elif op in ('gp.predict_var', 'gp.predict_cov'):
                e = vec_err(fa, fm, scale=max(pv, 1e-300))
            elif op == 'gp.predict_std':                   # sqrt amplifies absolute errors near 0: compare the squares;
                # NaN = sqrt of a variance that rounding made negative (sign not comparable): counted as 0
                z = lambda v: 0.0 if v != v else v * v
                stats['std_nan_entries'] = stats.get('std_nan_entries', 0) + sum(v != v for v in fa)
                e = vec_err([z(v) for v in fa], [z(v) for v in fm], scale=max(pv, 1e-300))
            else:
                e = vec_err(fa, fm)
            count[op] += 1
            worst[op] = max(worst[op], e / max(1.0, cond / 1e6))
            if not e <= tol:
                bad[op].append((ln, a, b, f'err {e:.3g} tol {tol:.3g} cond {cond:.3g}'))
        # analytic gradient of the implementation vs central differences of the implementation's own ln_m
        g_an, g_fd = floats(I[2])[1:], floats(I[3])
        if len(g_an) == len(g_fd) and g_an and I[3].startswith('L'):
            lnm = abs(floats(I[1])[0])
            lim = 1e-5 + 10 * 1e-16 * cond * max(1.0, lnm) / FD_H      # truncation O(h²) + cancellation eps·cond·|ln_m|/h
            for i, (x, z) in enumerate(zip(g_an, g_fd)):
                err = abs(x - z) / max(1.0, abs(x))
                fd_n += 1
                fd_worst = max(fd_worst, err / lim)
                if not err <= lim:
                    fd_bad.append((lines[ci * per + 2], repr(x), repr(z), f'gradient[{i}] vs central difference: err {err:.3g} lim {lim:.3g}'))
    for op in OPS:
        for (ln, a, b, det) in bad[op][:5]:
            failures.append(mk_fail(op, ln, a, b, det))
        obligations.append({'name': f'corr:{op}(hand model)', 'kind': 'corr', 'ok': not bad[op] and count[op] > 0, 'site': SITE[op],
                            'detail': f'{count[op]} cases, {len(bad[op])} beyond 1e-8·max(1,cond/1e6); worst scaled error {worst[op]:.3g}'
                                      + (f'; first: {bad[op][0][3]}' if bad[op] else ''),
                            'cases': [{'line': ln[:2000], 'impl': a[:300], 'model': b[:300]} for (ln, a, b, _) in bad[op][:3]]})
    for (ln, a, b, det) in fd_bad[:5]:
        failures.append(mk_fail('gp.ln_m_with_params', ln, a, b, det))
    obligations.append({'name': 'corr:gradient_vs_central_differences', 'kind': 'corr', 'ok': not fd_bad and fd_n > 0,
                        'site': 'GaussianProcess::ln_m_with_params',
                        'detail': f'{fd_n} gradient entries against (ln_m(θ+h eᵢ) − ln_m(θ−h eᵢ))/2h of the implementation, h = {FD_H}: {len(fd_bad)} beyond the limit; worst {fd_worst:.3g} of the limit',
                        'cases': [{'line': ln[:2000], 'impl': a, 'model': b} for (ln, a, b, _) in fd_bad[:3]]})
    findings.append({'site': 'GaussianProcess::set_parameters', 'class': 'accepted:exp_ln_drift',
                     'observed': f'set_parameters(parameters()) bit-identical in {rt_same}/{rt_same + rt_drift} cases (exp(ln θ) ≠ θ in binary64 otherwise); '
                                 f'worst cond-scaled relative change of ln_m / mean {rt_max:.3g} (tolerance 1e-8)'})
    stats['max_cond'] = max_cond
    stats['roundtrip_bit_identical'] = rt_same
    stats['roundtrip_rounding_drift'] = rt_drift
    stats['evaluations'] = stats.get('evaluations', 0) + len(lines)
    stats['distinct_nontrivial'] = stats.get('distinct_nontrivial', 0) + sum(count.values())


def separated_points(rng, n, d, l):
    if d == 1:
        X = [[1.3 * l * i + rng.uniform(-0.1, 0.1)] for i in range(n)]
        rng.shuffle(X)
        return X
    X = []
    while len(X) < n:
        p = [rng.uniform(-3, 3) * l for _ in range(d)]
        if all(sum((a - b) ** 2 for a, b in zip(p, q)) >= l * l for q in X):
            X.append(p)
    return X


def interpolation(run_pair, rng, ncase, failures, obligations, findings, stats, samples):
    """Uniform(1e-10): the predictive mean at the training inputs reproduces the targets, input dimension 1..4"""
    for d in (1, 2, 3, 4):
        lines, meta = [], []
        for _ in range(ncase):
            n = rng.choice([1, 2, 3, 4, 5, 6, 8, 10, 12])
            l = round(rng.uniform(0.5, 1.5), 3)
            X = separated_points(rng, n, d, l)
            y = [rng.gauss(0, 1) for _ in X]
            k = rng.choice([('rbf', l), ('mul', ('const', round(rng.uniform(0.5, 3), 3)), ('rbf', l))])
            g = gp(k, ('uniform', 1e-10), X, y)
            lines += [f'gp.predict_mean - {g} {pts(X)}', f'gp.train - {g}']
            meta.append((n, X, y))
        impl, model = run_pair(lines)
        bad, worst = [], 0.0
        for t, (n, X, y) in enumerate(meta):
            a, tr = floats(impl[2 * t]), floats(impl[2 * t + 1])
            if len(tr) != 2 * n * n + n or len(a) != n:
                bad.append((lines[2 * t], impl[2 * t], L(y), 'outcome'))
                continue
            kinv = [tr[n * n + n + i * n:n * n + n + (i + 1) * n] for i in range(n)]
            cond = norminf(kinv) * n * 3.0
            tol = 1e-8 * max(1.0, cond / 1e6)
            sc = max(abs(v) for v in y)
            e = vec_err(a, y, scale=sc)
            worst = max(worst, e / max(1.0, cond / 1e6))
            if not e <= tol:
                bad.append((lines[2 * t], impl[2 * t], L(y), f'mean(X_train) ≠ y: rel err {e:.3g} tol {tol:.3g}'))
            em = vec_err(a, floats(model[2 * t]), scale=sc)          # and the model follows the implementation
            if not em <= tol:
                bad.append((lines[2 * t], impl[2 * t], model[2 * t], f'model: err {em:.3g}'))
        for (ln, a, b, det) in bad[:3]:
            failures.append(mk_fail('gp.predict_mean', ln, a, b, f'interpolation d={d}: {det}'))
        obligations.append({'name': f'corr:interpolation:d={d}', 'kind': 'corr', 'ok': not bad, 'site': 'GaussianProcess::sample_function',
                            'detail': f'Uniform(1e-10), mean at the {d}-D training inputs = targets within 1e-8·max(1,cond/1e6): '
                                      f'{ncase - len({b[0] for b in bad})}/{ncase} hold; worst scaled rel. error {worst:.3g}',
                            'cases': [{'line': ln[:2000], 'impl': a[:300], 'model': b[:300]} for (ln, a, b, _) in bad[:3]]})
        stats['evaluations'] = stats.get('evaluations', 0) + len(lines)
        stats['distinct_nontrivial'] = stats.get('distinct_nontrivial', 0) + ncase


def layout(run_pair, rng, ncase, failures, obligations, findings, stats, samples):
    """the query matrix is the list of query points (row i = point i): the matrix itself, model agreement, and the
    model-independent fact that the joint prediction at n points equals the n single-point predictions"""
    for d in (1, 2, 3, 4):
        lines, meta = [], []
        for _ in range(ncase):
            n = rng.choice([3, 5, 8, 12])
            X = [[rng.uniform(-2, 2) for _ in range(d)] for _ in range(n)]
            y = [math.sin(sum(x)) for x in X]
            g = gp(('mul', ('const', 1.7), ('rbf', 0.9)), ('uniform', 0.1), X, y)
            nq = rng.choice([2, 3, 5])
            Q = [[rng.uniform(-2, 2) for _ in range(d)] for _ in range(nq)]
            blk = [f'gp.query_layout - {pts(Q)}', f'gp.predict_mean - {g} {pts(Q)}', f'gp.predict_var - {g} {pts(Q)}']
            blk += [f'gp.predict_mean - {g} {pts([q])}' for q in Q] + [f'gp.predict_var - {g} {pts([q])}' for q in Q]
            meta.append((len(lines), nq, Q))
            lines += blk
        impl, model = run_pair(lines)
        bad = []
        for (o, nq, Q) in meta:
            flat = [v for r in Q for v in r]
            if floats(impl[o]) != flat or impl[o] != model[o]:
                bad.append((lines[o], impl[o], L(flat), 'assembled matrix ≠ the query points (entry (i,j) = flat[i·m+j])'))
            for q in (1, 2):
                if shape(impl[o + q]) != shape(model[o + q]) or not vec_err(floats(impl[o + q]), floats(model[o + q]), scale=1.0) <= 1e-9:
                    bad.append((lines[o + q], impl[o + q], model[o + q], 'implementation ≠ model'))
            singles_m = [floats(impl[o + 3 + t])[0] for t in range(nq)]
            singles_v = [floats(impl[o + 3 + nq + t])[0] for t in range(nq)]
            if not vec_err(floats(impl[o + 1]), singles_m, scale=1.0) <= 1e-9:
                bad.append((lines[o + 1], impl[o + 1], L(singles_m), 'joint mean ≠ single-point means'))
            if not vec_err(floats(impl[o + 2]), singles_v, scale=1.0) <= 1e-9:
                bad.append((lines[o + 2], impl[o + 2], L(singles_v), 'joint variance ≠ single-point variances'))
        for (ln, a, b, det) in bad[:3]:
            failures.append(mk_fail('gp.query_layout', ln, a, b, f'layout d={d}: {det}'))
        obligations.append({'name': f'corr:layout:d={d}', 'kind': 'corr', 'ok': not bad, 'site': 'GaussianProcess::sample_function',
                            'detail': f'{ncase} query sets of 2–5 points in dimension {d}: matrix handed to the kernel = query points, joint prediction = '
                                      f'single-point predictions, implementation = model: {len(bad)} discrepancies',
                            'cases': [{'line': ln[:2000], 'impl': a[:300], 'model': b[:300]} for (ln, a, b, _) in bad[:3]]})
        stats['evaluations'] = stats.get('evaluations', 0) + len(lines)
        stats['distinct_nontrivial'] = stats.get('distinct_nontrivial', 0) + ncase
    # the witness of the repaired defect
    X = [[0.0, 0.0], [1.0, 0.0], [0.0, 2.0]]
    y = [1.0, 2.0, 3.0]
    g = gp(('rbf', 1.0), ('uniform', 1e-5), X, y)
    w = [f'gp.predict_mean - {g} {pts(X)}', f'gp.query_layout - {pts(X)}']
    i, m = run_pair(w)
    ok = vec_err(floats(i[0]), y, scale=1.0) <= 1e-8 and floats(i[1]) == [v for r in X for v in r]
    if not ok:
        failures.append(mk_fail('gp.query_layout', w[0], i[0], L(y), 'witness of the (repaired) layout defect: X = Xq = (0,0),(1,0),(0,2), y = (1,2,3)'))
    obligations.append({'name': 'corr:layout:witness', 'kind': 'corr', 'ok': ok, 'site': 'GaussianProcess::sample_function',
                        'detail': f'X = Xq = {X}, y = {y}, rbf 1, Uniform(1e-5): mean {floats(i[0])}, query matrix {floats(i[1])} '
                                  '(before the repair: mean (1.0000000001, 1.0000000001, 2.0081775468), matrix rows (0,0),(0,1),(0,2))',
                        'cases': [] if ok else [{'line': w[0], 'impl': i[0], 'model': m[0]}]})
    samples.append(f'{w[1]} -> {i[1]}')


def fixed(run_pair, failures, obligations, findings, stats, samples):
    """noise semantics, error paths, panics — exact agreement of outcome class between implementation and model"""
    k2 = ('add', ('mul', ('const', 2.0), ('rbf', 0.7)), ('const', 0.3))
    g3 = gp(k2, ('uniform', 0.1), [[0.0], [1.0], [2.5]], [1.0, -1.0, 0.3])
    K = [1.0, 0.25, 0.25, 1.0]
    r1 = gp(('rbf', 1.0), ('uniform', 0.5), [[0.0], [1.0]], [1.0, -1.0])
    w = [f'gp.add_noise - uniform {fb(0.5)} 2 {L(K)}', f'gp.add_noise - perpoint {L([0.5, 0.5])} 2 {L(K)}',
         f'gp.add_noise - perpoint {L([0.25, 0.25])} 2 {L(K)}',
         f'gp.add_noise - perpoint {L([0.5])} 2 {L(K)}', f'gp.add_noise - perpoint {L([0.5, 0.5, 0.5])} 2 {L(K)}',
         f'gp.add_noise - uniform {fb(-0.5)} 2 {L(K)}', f'gp.add_noise - perpoint {L([-0.5, -2.0])} 2 {L(K)}',
         f'gp.ln_m - {r1}',
         f'gp.ln_m - {gp(("rbf", 1.0), ("perpoint", [0.5, 0.5]), [[0.0], [1.0]], [1.0, -1.0])}',
         f'gp.ln_m - {gp(("rbf", 1.0), ("perpoint", [0.25, 0.25]), [[0.0], [1.0]], [1.0, -1.0])}',
         f'gp.ln_m - {gp(("rbf", 1.0), ("perpoint", [0.25]), [[0.0], [1.0]], [1.0, -1.0])}',
         f'gp.ln_m - {gp(("rbf", 1.0), ("perpoint", [-2.0, -2.0]), [[0.0], [1.0]], [1.0, -1.0])}',
         f'gp.ln_m - {gp(("rbf", 1.0), ("uniform", 0.0), [[0.0], [0.0]], [1.0, -1.0])}',
         f'gp.ln_m - {gp(("rbf", 1.0), ("uniform", 0.0), [[0.0], [1.0]], [1.0])}']
    for th in ([], [0.1], [0.1, 0.2], [0.1, 0.2, 0.3], [0.1, 0.2, 0.3, 0.4], [0.1, 0.2, 0.3, 0.4, 0.5], [0.1, -800.0, 0.3],
               [float('nan'), 0.2, 0.3]):
        w += [f'gp.set_parameters - {g3} {L(th)}']
        if not any(t != t for t in th):                   # (the crate eprintln!s the matrix when the factorisation of a NaN kernel fails)
            w += [f'gp.ln_m_with_params - {g3} {L(th)}']
    i, m = run_pair(w)
    bad = []
    for ln, a, b in zip(w, i, m):
        if not (shape(a) == shape(b) and vec_err(floats(a), floats(b)) <= 1e-9):
            bad.append((ln, a, b, 'outcome'))
            failures.append(mk_fail(ln.split()[0], ln, a, b, 'fixed case: outcome'))
    obligations.append({'name': 'corr:fixed_cases(hand model)', 'kind': 'corr', 'ok': not bad, 'site': 'GaussianProcess',
                        'detail': f'{len(w)} fixed lines (noise variants, size mismatch, non-PSD, missing/extra/out-of-range/NaN parameters, panics): '
                                  f'{len(bad)} outcomes differ from the model',
                        'cases': [{'line': ln[:2000], 'impl': a[:300], 'model': b[:300]} for (ln, a, b, _) in bad[:3]]})
    f = floats
    facts = [
        ('noise_size_mismatch_is_error', 'NoiseModel::add_noise_to_kernel', i[3] == i[4] == i[10] == 'E:MisshapenNoiseModel', f'{i[3]} {i[4]} {i[10]}', w[3]),
        ('not_psd_is_error', 'GaussianProcess::train', i[11] == i[12] == 'E:NotPositiveSemiDefinite', f'{i[11]} {i[12]}', w[12]),
        ('set_parameters_missing_extra_rejected', 'GaussianProcess::set_parameters',
         [shape(i[14 + 2 * t]) for t in range(6)] == [['E:MissingParameters', '3'], ['E:MissingParameters', '2'], ['E:MissingParameters', '1'], ['L3'],
                                                     ['E:ExtraneousParameters', '1'], ['E:ExtraneousParameters', '2']],
         str([shape(i[14 + 2 * t]) for t in range(6)]), w[14]),
        ('kernel_plus_noise_on_the_diagonal', 'NoiseModel::add_noise_to_kernel',
         f(i[0])[1:3] == [0.25, 0.25] and f(i[1])[1:3] == [0.25, 0.25] and f(i[0])[0] == f(i[0])[3] and f(i[1])[0] == f(i[1])[3], f'{i[0]} | {i[1]}', w[0]),
    ]
    for name, site, ok, det, ln in facts:
        obligations.append({'name': f'corr:{name}', 'kind': 'corr', 'ok': bool(ok), 'site': site, 'detail': det[:300],
                            'cases': [] if ok else [{'line': ln[:2000], 'impl': det[:300], 'model': ''}]})
        if not ok:
            failures.append({'site': site, 'case': ln, 'impl': det[:300], 'expected': name, 'observed': 'mismatch', 'detail': name})
    # accepted observations — information only, never failures
    findings.append({'site': 'NoiseModel::add_noise_to_kernel', 'class': 'accepted:noise_parametrisation',
                     'observed': f'Uniform(0.5) adds {f(i[0])[0] - 1.0} (σ²), PerPoint([0.5,0.5]) adds {f(i[1])[0] - 1.0} (vᵢ); '
                                 f'ln_m: Uniform(.5) {f(i[7])} = PerPoint(.25,.25) {f(i[9])} ≠ PerPoint(.5,.5) {f(i[8])}'})
    if i[13] == 'PANIC':
        findings.append({'site': 'GaussianProcess::train', 'class': 'observation', 'case': w[13],
                         'observed': 'PANIC: y_train shorter than x_train (nalgebra shape assertion in solve)'})
    if i[15] == 'PANIC':
        findings.append({'site': 'GaussianProcess::ln_m_with_params', 'class': 'observation', 'case': w[15],
                         'observed': 'PANIC: fewer parameters than the left operand of a composite kernel needs (slice::split_at), where set_parameters answers MissingParameters'})
    stats['evaluations'] = stats.get('evaluations', 0) + len(w)
    stats['distinct_nontrivial'] = stats.get('distinct_nontrivial', 0) + len(w)


def parse_state(toks):
    """STATE = L<p> parameters  ln_m  L<n> alpha  L<nq> mean  L<nq²> cov  L<nq> variance  -> (dict, remaining tokens) or (None, toks)"""
    def lst(t):
        if not t or not (t[0].startswith('L') and t[0][1:].isdigit()):
            raise ValueError
        n = int(t[0][1:])
        return [tf(x) for x in t[1:1 + n]], t[1 + n:]
    try:
        st = {}
        st['params'], t = lst(toks)
        st['ln_m'], t = [tf(t[0])], t[1:]
        for key in ('alpha', 'mean', 'cov', 'var'):
            st[key], t = lst(t)
        return st, t
    except (ValueError, IndexError):
        return None, toks


def state_err(a, b, pv, tol=None):
    """largest scaled deviation between two STATEs and the component(s) where it occurs (all those beyond `tol` if given)"""
    errs = {}
    for key in ('params', 'ln_m', 'alpha', 'mean', 'cov', 'var'):
        if key == 'params':
            errs[key] = vec_err(a[key], b[key], scale=1.0) * 1e4          # log-parameters: absolute 1e-12 at tolerance 1e-8
        elif key in ('cov', 'var'):
            errs[key] = vec_err(a[key], b[key], scale=max(pv, 1e-300))
        else:
            errs[key] = vec_err(a[key], b[key])
    worst = max(errs.values(), key=lambda e: float('inf') if e != e else e)
    beyond = [k for k, e in errs.items() if tol is not None and not e <= tol]
    return worst, '+'.join(beyond) if beyond else max(errs, key=lambda k: errs[k])


def refit(run_pair, rng, reps, failures, obligations, findings, stats, samples):
    """set_parameters(θ') with a genuinely different valid θ': the resulting process (parameters, ln_m, the cached alpha,
    predictive mean / cov / variance) against (a) the model's refit and (b) a process trained from scratch with the kernel
    at θ' by the implementation itself; a failing set_parameters (wrong length) leaves the original process unchanged.
    All six kernel shapes × both noise models, `reps` training sets each."""
    lines, meta = [], []
    for (sname, mk) in SHAPES:
        for nkind in ('uniform', 'perpoint'):
            for _ in range(reps):
                n = rng.choice([2, 3, 5, 8, 12, 20])
                d = rng.choice([1, 2, 3])
                X = [[rng.uniform(-3, 3) for _ in range(d)] for _ in range(n)]
                y = [math.sin(sum(x)) + rng.gauss(0, 0.3) for x in X]
                k = mk(rng)
                nm = ('uniform', rng.choice([1e-2, 0.1, 0.5])) if nkind == 'uniform' else ('perpoint', [lg4(rng, 1e-4, 1.0) for _ in range(n)])
                th0 = params(k)
                th = [t + rng.choice([-1, 1]) * rng.uniform(0.2, 1.0) for t in th0]     # every log-parameter moves by ≥ 0.2
                bad_th = th + [0.1] if rng.random() < 0.5 else th[:-1]
                Xq = [[rng.uniform(-3, 3) for _ in range(d)] for _ in range(rng.choice([1, 2, 4]))] + [X[0]]
                g = gp(k, nm, X, y)
                k2, _ = with_params(k, th)
                meta.append((len(lines), sname, nkind, k2, X, nm, d))
                lines += [f'gp.set_vs_fresh - {g} {L(th)} {pts(Xq)}', f'gp.set_vs_fresh - {g} {L(bad_th)} {pts(Xq)}',
                          f'gp.state - {g} {pts(Xq)}', f'gp.train - {gp(k2, nm, X, y)}']
    impl, model = run_pair(lines)
    bad_fresh, bad_model, bad_err = [], [], []
    n_ok = n_bit = 0
    worst_fresh = worst_model = 0.0
    combos = {}
    for (o, sname, nkind, k2, X, nm, d) in meta:
        n = len(X)
        tr = floats(impl[o + 3])
        if len(tr) == 2 * n * n + n:
            kinv = [tr[n * n + n + i * n:n * n + n + (i + 1) * n] for i in range(n)]
            nd = [nm[1] ** 2] * n if nm[0] == 'uniform' else nm[1]
            K = [[kcov(k2, X[i], X[j]) + (nd[i] if i == j else 0.0) for j in range(n)] for i in range(n)]
            cond = norminf(K) * norminf(kinv)
        else:
            cond = 1.0
        tol = 1e-8 * max(1.0, cond / 1e6)
        pv = kcov(k2, [0.0] * d, [0.0] * d)
        # --- valid θ'
        A, rest = parse_state(impl[o].split())
        B, rest2 = parse_state(rest) if A else (None, rest)
        MA, _ = parse_state(model[o].split())
        if A is None or B is None or rest2:
            if shape(impl[o]) != shape(model[o]):               # e.g. not PSD at θ': same outcome required on both sides
                bad_model.append((lines[o], impl[o], model[o], 'outcome'))
        else:
            n_ok += 1
            combos[(sname, nkind)] = combos.get((sname, nkind), 0) + 1
            half = len(impl[o].split()) // 2
            n_bit += impl[o].split()[:half] == impl[o].split()[half:]
            e, where = state_err(A, B, pv, tol)
            worst_fresh = max(worst_fresh, e / max(1.0, cond / 1e6))
            if not e <= tol:
                bad_fresh.append((lines[o], ' '.join(impl[o].split()[:half]), ' '.join(impl[o].split()[half:]),
                                  f'{sname}/{nkind}: after set_parameters(θ\') the {where} differs from a freshly trained process: scaled err {e:.3g} tol {tol:.3g}'))
            if MA is None:
                bad_model.append((lines[o], impl[o], model[o], 'outcome'))
            else:
                e, where = state_err(A, MA, pv, tol)
                worst_model = max(worst_model, e / max(1.0, cond / 1e6))
                if not e <= tol:
                    bad_model.append((lines[o], impl[o], model[o], f'{sname}/{nkind}: {where} after set_parameters(θ\') ≠ model refit: scaled err {e:.3g} tol {tol:.3g}'))
        # --- wrong number of parameters: error, and the original process is untouched
        ti, tm, t0 = impl[o + 1].split(), model[o + 1].split(), impl[o + 2].split()
        ne = 2 if ti and ti[0] in ('E:MissingParameters', 'E:ExtraneousParameters') else 1
        if not (ti and ti[0].startswith('E:')) or ti[:ne] != tm[:ne]:
            bad_err.append((lines[o + 1], ' '.join(ti[:3]), ' '.join(tm[:3]), 'wrong-length θ must be rejected with the model\'s error'))
        elif ti[ne:] != t0:
            bad_err.append((lines[o + 1], ' '.join(ti[ne:]), ' '.join(t0), 'state after a failed set_parameters ≠ state of the original process'))
    ncase = len(meta)
    for lst_ in (bad_fresh, bad_model, bad_err):
        for (ln, a, b, det) in lst_[:4]:
            failures.append(mk_fail('gp.set_vs_fresh', ln, a, b, det))
    cs = lambda l: [{'line': ln[:3000], 'impl': a[:400], 'model': b[:400]} for (ln, a, b, _) in l[:3]]
    obligations.append({'name': 'corr:set_parameters_refit=fresh_train', 'kind': 'corr', 'ok': not bad_fresh and n_ok > 0,
                        'site': 'GaussianProcess::set_parameters',
                        'detail': f'{n_ok} refits with every log-parameter moved by 0.2–1.0 ({len(combos)} of 12 kernel-shape × noise-model combinations): parameters, ln_m, cached alpha, '
                                  f'predictive mean/cov/variance vs train(kernel(θ\'), X, y, noise) of the implementation: {len(bad_fresh)} beyond 1e-8·max(1,cond/1e6), '
                                  f'{n_bit} bit-identical; worst scaled error {worst_fresh:.3g}' + (f'; first: {bad_fresh[0][3]}' if bad_fresh else ''),
                        'cases': cs(bad_fresh)})
    obligations.append({'name': 'corr:set_parameters_refit(hand model)', 'kind': 'corr', 'ok': not bad_model and n_ok > 0,
                        'site': 'GaussianProcess::set_parameters',
                        'detail': f'{n_ok} refits vs Hand.Gp.setParameters: {len(bad_model)} beyond tolerance; worst scaled error {worst_model:.3g}'
                                  + (f'; first: {bad_model[0][3]}' if bad_model else ''), 'cases': cs(bad_model)})
    obligations.append({'name': 'corr:set_parameters_error_leaves_process_unchanged', 'kind': 'corr', 'ok': not bad_err, 'site': 'GaussianProcess::set_parameters',
                        'detail': f'{ncase} calls with one parameter too many / too few: rejected with the model\'s error, the original process answers as before '
                                  f'(bit for bit): {len(bad_err)} discrepancies' + (f'; first: {bad_err[0][3]}' if bad_err else ''), 'cases': cs(bad_err)})
    stats['evaluations'] = stats.get('evaluations', 0) + len(lines)
    stats['distinct_nontrivial'] = stats.get('distinct_nontrivial', 0) + 2 * ncase
    stats['refit_bit_identical'] = n_bit


def with_retry(run_pair):
    """a case answered HANG (3 s watchdog of the harness) on a loaded machine is run once more on its own"""
    def rp(lines):
        impl, model = run_pair(lines)
        again = [i for i, a in enumerate(impl) if a == 'HANG']
        if again and len(again) <= 20:
            i2, _ = run_pair([lines[i] for i in again])
            for i, a in zip(again, i2):
                impl[i] = a
        return impl, model
    return rp


def run(run_pair, tier, seed):
    run_pair = with_retry(run_pair)
    rng = random.Random(seed * 1000003 + 17)
    quick = tier == 'quick'
    failures, obligations, findings, stats, samples = [], [], [], {}, []
    correspondence(run_pair, rng, 200 if quick else 1500, failures, obligations, findings, stats, samples)
    refit(run_pair, rng, 4 if quick else 30, failures, obligations, findings, stats, samples)
    interpolation(run_pair, rng, 40 if quick else 200, failures, obligations, findings, stats, samples)
    layout(run_pair, rng, 40 if quick else 150, failures, obligations, findings, stats, samples)
    fixed(run_pair, failures, obligations, findings, stats, samples)
    return {'failures': failures, 'obligations': obligations, 'findings': findings, 'stats': stats, 'samples': samples}


if __name__ == '__main__':
    import sys, os, time
    if len(sys.argv) > 4:                                 # private builds:  cases_c17.py <tier> <seed> <harness> <driver>
        import subprocess, threading

        def rp(lines, H=sys.argv[3], D=sys.argv[4]):
            res = {}

            def one(k, prog):
                out = subprocess.run([prog], input='\n'.join(lines) + '\n', capture_output=True, text=True).stdout.split('\n')
                out = out[:-1] if out and out[-1] == '' else out
                res[k] = out + ['DIED'] * (len(lines) - len(out))
            ts = [threading.Thread(target=one, args=('i', H)), threading.Thread(target=one, args=('m', D))]
            [t.start() for t in ts]
            [t.join() for t in ts]
            return res['i'], res['m']
    else:
        sys.path.insert(0, os.path.dirname(os.path.dirname(os.path.abspath(__file__))))
        from checklib.core import run_pair as rp          # needs manual_c17 / tableC17 registered and both programs built
    t0 = time.time()
    r = run(rp, sys.argv[1] if len(sys.argv) > 1 else 'quick', int(sys.argv[2]) if len(sys.argv) > 2 else 1)
    print('failures', len(r['failures']), 'wall %.1fs' % (time.time() - t0))
    for x in r['failures'][:10]:
        print('  ', {k: (v[:120] if isinstance(v, str) else v) for k, v in x.items()})
    for o in r['obligations']:
        print('  %-48s ok=%-5s %s' % (o['name'], o['ok'], o['detail'][:150]))
    for x in r['findings']:
        print('  NOTE', x['site'], x['class'], x['observed'][:200])
    print({k: (round(v, 18) if isinstance(v, float) else v) for k, v in r['stats'].items()})
