"""C13B correspondence cases for the index samplers / list helpers of src/misc/func.rs.

Every line is fed unchanged to BOTH programs (harness op of harness/src/manual_c13b.rs, driver entry of
lean/RvModel/Hand/DispatchC13B.lean):   <op> - <args…> <words as L<n> w…>   answers: index | L<n> indices | f64 | PANIC.

    cases(seed, n)                  -> list of lines (n random cases per op + scripted extreme words / weight vectors)
    predict_ln_pflips(line, fused)  -> the answer of `ln_pflips` (current code: `r = Open01 * total`, `total = cws.last()`, bisection
                                       test `cws[mid] <= r`) computed here with (fused=True) or without (False) a fused `mul_add` in
                                       `logsumexp`: the Float model uses `x*a+b` (Num.lean `mulAdd`), the Rust code the fused
                                       instruction, so `z` may differ by one ulp and with it every cumulative weight.  The rare
                                       disagreements of `ln_pflips` (normed = F only) are exactly the cases where the two
                                       predictions differ (rust = fused, model = unfused).
Standalone:  python3 props/cases_c13b.py <seed> <n>  > cases.txt
"""
import random, struct, math, sys
from fractions import Fraction


def cases(seed=20260930, N=2200):
    rnd = random.Random(seed)


    def ft(x):
        return "x%016x" % struct.unpack("<Q", struct.pack("<d", x))[0]
    def fl(xs):
        return " ".join(["L%d" % len(xs)] + [ft(x) for x in xs])
    def wl(ws):
        return " ".join(["L%d" % len(ws)] + [str(w) for w in ws])

    M = (1 << 64) - 1
    EXT = [0, M, 1 << 11, 1 << 12, ((1 << 53) - 1) << 11, (1 << 11) - 1, (1 << 12) - 1, 1 << 63, (1 << 63) - 1,
           M - ((1 << 11) - 1), M - ((1 << 12) - 1), (1 << 63) + (1 << 11), 1, 2047, 2048, 4095, 4096, 1 << 52, 1 << 53,
           (1 << 64) - (1 << 12) - 1, ((1 << 52) - 1) << 12]

    def word():
        t = rnd.random()
        if t < 0.15:
            return rnd.choice(EXT)
        if t < 0.25:
            return rnd.getrandbits(rnd.randint(1, 64))
        if t < 0.30:
            return M - rnd.getrandbits(rnd.randint(1, 30))
        return rnd.getrandbits(64)

    def length():
        t = rnd.random()
        if t < 0.35:
            return rnd.choice([1, 2, 3, 7, 8, 9, 10, 11, 12, 16])
        if t < 0.8:
            return rnd.randint(1, 40)
        if t < 0.97:
            return rnd.randint(41, 400)
        return rnd.randint(401, 3000)

    def weights(n):
        style = rnd.randint(0, 7)
        ws = []
        for i in range(n):
            if style == 0:
                w = rnd.random()
            elif style == 1:
                w = rnd.choice([0.0, 0.0, 1.0, 2.0, 0.5])
            elif style == 2:
                w = rnd.expovariate(1.0) * 10 ** rnd.randint(-3, 3)
            elif style == 3:
                w = float(rnd.randint(0, 3))
            elif style == 4:
                w = 0.0 if rnd.random() < 0.5 else rnd.random()
            elif style == 5:
                w = 1.0
            elif style == 6:
                w = rnd.random() * 1e-300 if rnd.random() < 0.3 else rnd.random()
            else:
                w = rnd.choice([0.25, 0.125, 0.5, 0.0])
            ws.append(w)
        t = rnd.random()
        if t < 0.25:
            ws[0] = 0.0
        if t > 0.8:
            ws[-1] = 0.0
        if style in (0, 2) and rnd.random() < 0.4:     # normalise (sum slightly off one)
            s = sum(ws)
            if s > 0:
                ws = [w / s for w in ws]
                if rnd.random() < 0.3:
                    ws = [w * (1 - 1e-12) for w in ws]
        if all(w == 0.0 for w in ws) and rnd.random() < 0.9:
            ws[rnd.randrange(n)] = 1.0
        return ws

    def seqsum(ws):
        s = 0.0
        for w in ws:
            s += w
        return s

    out = []
    # ---- generator maps
    for op in ("std01", "open01", "uniform01"):
        for w in EXT:
            out.append("%s - L1 %d" % (op, w))
        for _ in range(N):
            out.append("%s - L1 %d" % (op, word()))

    # ---- pflip
    for _ in range(N):
        n = length(); ws = weights(n)
        t = rnd.random()
        if t < 0.5:
            s = "N"
        elif t < 0.8:
            s = "S " + ft(seqsum(ws))
        elif t < 0.9:
            s = "S " + ft(seqsum(ws) * (1 + rnd.random()))     # too large: may panic
        else:
            s = "S " + ft(seqsum(ws) * rnd.random())
        out.append("pflip - %s %s L1 %d" % (fl(ws), s, word()))
    for w in EXT:
        for ws in ([1.0], [0.0, 1.0], [1.0, 0.0], [0.0] * 9 + [1.0], [0.0] + [1.0] * 9, [0.5, 0.5], [0.0, 0.0]):
            out.append("pflip - %s N L1 %d" % (fl(ws), w))
    out.append("pflip - L0 N L1 5")

    # ---- pflips
    for _ in range(N):
        n = length(); ws = weights(n)
        k = rnd.choice([1, 1, 2, 3, 5, 0]) if rnd.random() < 0.95 else 20
        out.append("pflips - %s %s" % (fl(ws), wl([word() for _ in range(k)])))
    for w in EXT:
        for ws in ([1.0], [0.0, 1.0], [1.0, 0.0], [0.0] * 9 + [1.0], [0.0] + [1.0] * 9, [0.0] + [1.0] * 8, [0.0, 0.0] + [1.0] * 9,
                   [1.0] * 9 + [0.0], [1.0] * 10 + [0.0, 0.0], [0.5] * 10, [0.25] * 8, [0.0] * 10):
            out.append("pflips - %s L1 %d" % (fl(ws), w))
    # exact ties r = cws[i] (u = k/2^j)
    for j in (1, 2, 3):
        for k in range(1, 1 << j):
            w = (k << (52 - j)) << 12
            for ws in ([1.0] * 8, [1.0] * 16, [1.0, 0.0, 1.0, 0.0] * 2, [1.0, 0.0, 1.0, 0.0] * 4, [0.0, 1.0] * 8, [0.0, 1.0] * 4):
                out.append("pflips - %s L1 %d" % (fl(ws), w))
    out.append("pflips - L0 L1 5")
    out.append("pflips - L0 L0")

    # ---- ln_pflips
    def lnweights(n):
        ws = weights(n)
        return [(-math.inf if w == 0.0 else math.log(w)) for w in ws]
    for _ in range(N):
        n = length(); lw = lnweights(n)
        normed = rnd.random() < 0.4
        if normed:
            ws = [math.exp(x) for x in lw]; s = seqsum(ws)
            lw = [x - math.log(s) for x in lw] if s > 0 else lw
        k = rnd.choice([1, 1, 2, 3, 5, 0])
        out.append("ln_pflips - %s %s %s" % (fl(lw), "T" if normed else "F", wl([word() for _ in range(k)])))
    for w in EXT:
        for lw in ([0.0], [-math.inf, 0.0], [0.0, -math.inf], [-math.inf] * 9 + [0.0], [-math.inf] + [0.0] * 9, [math.log(0.5)] * 2,
                   [-math.inf] * 3, [-math.inf] * 12, [1e300, 0.0], [-1e300, -1e300]):
            for nm in "TF":
                if nm == "T" and lw[0] == 1e300:
                    continue        # `normed = true` with exp(1e300) = inf is not a valid call (total = inf, r = inf: panics)
                out.append("ln_pflips - %s %s L1 %d" % (fl(lw), nm, w))
    out.append("ln_pflips - L0 F L1 5")
    out.append("ln_pflips - L0 F L0")

    # ---- ln_pflip / gumbel_pflip
    rnd_shift = random.Random(seed ^ 0x5eed7)
    for _ in range(N):
        n = length() if rnd.random() < 0.9 else rnd.randint(1, 6)
        lw = lnweights(n)
        if rnd.random() < 0.3:      # keep at most one -inf
            seen = False
            for i in range(n):
                if lw[i] == -math.inf:
                    if seen:
                        lw[i] = math.log(rnd.random() + 1e-9)
                    seen = True
        if rnd_shift.random() < 0.3:
            # unnormalised log-weights far from 0: the law is shift-invariant, but exp(+-ln_w) over/underflows beyond ~ +-709/745
            # (seeded change C13-7: exponential-race keys -ln u * exp(-ln_w) tie at 0 / inf and the first index wins)
            sh = rnd_shift.choice([-5000.0, -800.0, -760.0, -720.0, -400.0, 400.0, 720.0, 760.0, 800.0, 5000.0])
            lw = [x + sh if x != -math.inf else x for x in lw]
        out.append("ln_pflip - %s %s" % (fl(lw), wl([word() for _ in range(n)])))
    for w1 in EXT[:8]:
        for w2 in EXT[:8]:
            for lw in ([0.0, 0.0], [-math.inf, 0.0], [0.0, -math.inf], [-math.inf, -math.inf], [0.0, 1.0], [-1e300, 1e300]):
                out.append("ln_pflip - %s L2 %d %d" % (fl(lw), w1, w2))
    out.append("ln_pflip - L0 L0")
    out.append("ln_pflip - L1 %s L1 0" % ft(-math.inf))
    for _ in range(N):
        n = length() if rnd.random() < 0.9 else rnd.randint(1, 6)
        ws = weights(n)
        out.append("gumbel_pflip - %s %s" % (fl(ws), wl([word() for _ in range(n)])))
    for w1 in EXT[:8]:
        for w2 in EXT[:8]:
            for ws in ([1.0, 1.0], [0.0, 1.0], [1.0, 0.0], [0.0, 0.0], [1.0, 2.0], [1e-300, 1e300]):
                out.append("gumbel_pflip - %s L2 %d %d" % (fl(ws), w1, w2))
    out.append("gumbel_pflip - L0 L0")

    # ---- argmax
    SPEC = [math.nan, math.inf, -math.inf, 0.0, -0.0, 1.0, -1.0, 5e-324, 1.7976931348623157e308]
    for _ in range(N):
        n = rnd.randint(0, 30) if rnd.random() < 0.9 else rnd.randint(31, 3000)
        style = rnd.randint(0, 3)
        xs = []
        for i in range(n):
            if style == 0:
                x = float(rnd.randint(0, 4))
            elif style == 1:
                x = rnd.gauss(0, 1)
            elif style == 2:
                x = rnd.choice(SPEC) if rnd.random() < 0.3 else float(rnd.randint(-2, 2))
            else:
                x = rnd.choice([1.0, 1.0, 2.0, math.nan]) if rnd.random() < 0.5 else rnd.random()
            xs.append(x)
        out.append("argmax - %s" % fl(xs))

    # ---- log_product
    for _ in range(N):
        n = rnd.randint(0, 30) if rnd.random() < 0.9 else rnd.randint(31, 2000)
        style = rnd.randint(0, 4)
        xs = []
        for i in range(n):
            if style == 0:
                x = rnd.random() * 10
            elif style == 1:
                x = 10.0 ** rnd.uniform(-300, 300)
            elif style == 2:
                x = rnd.choice([1e300, 1e-300, 1e100, 1e-100, 2.0, 0.5, 5e-324, 2.2250738585072014e-308, 1.7976931348623157e308])
            elif style == 3:
                x = rnd.choice(SPEC) if rnd.random() < 0.15 else rnd.random() * 1e-200
            else:
                x = rnd.expovariate(1.0)
                if rnd.random() < 0.03:
                    x = 0.0
            xs.append(x)
        out.append("log_product - %s" % fl(xs))

    # ---- cumsum
    for _ in range(N):
        n = rnd.randint(0, 30) if rnd.random() < 0.9 else rnd.randint(31, 3000)
        xs = [rnd.choice(SPEC) if rnd.random() < 0.02 else rnd.gauss(0, 1) * 10 ** rnd.randint(-5, 5) for _ in range(n)]
        out.append("cumsum - %s" % fl(xs))

    return out


def fb(t): return struct.unpack("<d", struct.pack("<Q", int(t[1:],16)))[0]
def fma(a,b,c):
    if any(math.isinf(x) or math.isnan(x) for x in (a,b,c)): return a*b+c
    return float(Fraction(a)*Fraction(b)+Fraction(c))
def lse(xs, fused):
    alpha, r = -math.inf, 0.0
    for x in xs:
        if x == -math.inf: continue
        if x <= alpha: r = r + math.exp(x-alpha)
        else:
            e = math.exp(alpha - x)
            r = fma(e, r, 1.0) if fused else e*r+1.0
            alpha = x
    return alpha + (math.log(r) if r > 0 else -math.inf)
def open01(w): return (2*(w>>12)+1)/2.0**53
def catflip(c, r):
    if len(c) > 9:
        l, u = 0, len(c)
        while l < u:
            m = (l+u)//2
            if c[m] <= r: l = m+1
            else: u = m
        return l if l < len(c) else None
    for i,x in enumerate(c):
        if x > r: return i
    return None
def _exp(x):
    try:
        return math.exp(x)
    except OverflowError:
        return math.inf


def predict_ln_pflips(line, fused):
    t = line.split(); n = int(t[2][1:]); xs = [fb(x) for x in t[3:3+n]]; normed = t[3+n]=="T"
    k = int(t[4+n][1:]); ws = [int(x) for x in t[5+n:5+n+k]]
    z = 0.0 if normed else lse(xs, fused)
    s = 0.0; c=[]
    for x in xs:
        s += _exp(x - z); c.append(s)
    total = c[-1] if c else 1.0          # func.rs: `cws.last().copied().unwrap_or(1.0)`
    out=[]
    for w in ws:
        i = catflip(c, open01(w) * total)   # func.rs: `r = rng.sample(Open01) * total`
        if i is None: return "PANIC"
        out.append(i)
    return "L%d %s" % (len(out), " ".join(map(str,out))) if out else "L0"


if __name__ == '__main__':
    seed = int(sys.argv[1]) if len(sys.argv) > 1 else 20260930
    n = int(sys.argv[2]) if len(sys.argv) > 2 else 2200
    sys.stdout.write("\n".join(cases(seed, n)) + "\n")
