"""C07 — sufficient statistics are an exact, order-free, reversible data summary."""
import random, math
from fractions import Fraction
from checklib import gen
from checklib.core import enc, run_pair, tok_to_float, cmp_tokens, fbits

ID = 'C07'
LEAN_DEPS = ['RvModel.Lemmas.C07', 'RvModel.Hand.StickConj', 'RvModel.Lemmas.C05S', 'RvModel.Hand.DispatchAll']
EXTRA_PROPS = ['RvModel/Props/C05S.lean']     # ln_f_stat = sum of ln_f for the stick-breaking likelihood (4 theorems there)
TRUSTED = ['closed forms of each statistic (Props/C07*.lean Abs<Stat>) as the abstraction to the data multiset']
ASSUMPTIONS = ['histories never forget an absent item; exact reals in theorems, binary64 drift only sampled against exact rational closed forms']
N_GEN = {'quick': 8, 'thorough': 120}

STATS = {
    # stat: (kind, observation generator, suffix)
    'GaussianSuffStat': ('f64', lambda r: gen.real(r) * r.choice([1e-6, 1.0, 1.0, 1e3]), 'real'),
    'BernoulliSuffStat': ('bool', lambda r: r.random() < 0.5, 'bool'),
    'PoissonSuffStat': ('u32', lambda r: gen.obs_nat(r), 'nat'),
    'BetaSuffStat': ('f64', lambda r: r.uniform(0.01, 0.99), 'real'),
    'InvGammaSuffStat': ('f64', lambda r: gen.pos(r), 'real'),
    'InvGaussianSuffStat': ('f64', lambda r: gen.pos(r), 'real'),
    'UnitPowerLawSuffStat': ('f64', lambda r: r.uniform(0.05, 0.99), 'real'),
}


def gen_ops(man):
    return [n for n, d in man['defs'].items() if (d['owner'].endswith('SuffStat') and d['file'].startswith('data/stat'))
            or d['name'] == 'ln_f_stat']


def closed_form(stat, xs):
    """exact (rational where possible) closed form of the statistic of data xs, as floats"""
    n = len(xs)
    if stat == 'GaussianSuffStat':
        if n == 0:
            return [0, 0.0, 0.0]
        fx = [Fraction(x) for x in xs]
        m = sum(fx) / n
        return [n, float(m), float(sum((x - m) ** 2 for x in fx))]
    if stat == 'BernoulliSuffStat':
        return [n, sum(1 for x in xs if x)]
    if stat == 'PoissonSuffStat':
        return [n, float(sum(xs)), math.fsum(math.lgamma(x + 1.0) for x in xs)]
    if stat == 'BetaSuffStat':
        return [n, math.fsum(math.log(x) for x in xs), math.fsum(math.log1p(-x) for x in xs)]
    if stat == 'InvGammaSuffStat':
        return [n, math.fsum(math.log(x) for x in xs), math.fsum(1.0 / x for x in xs)]
    if stat == 'InvGaussianSuffStat':
        return [n, math.fsum(xs), math.fsum(1.0 / x for x in xs), math.fsum(math.log(x) for x in xs)]
    if stat == 'UnitPowerLawSuffStat':
        return [n, math.fsum(math.log(x) for x in xs)]
    raise KeyError(stat)


def stat_close(stat, toks, want, xs):
    vals = toks.split()
    if len(vals) != len(want):
        return False, 'shape'
    scale = sum(abs(float(x)) for x in xs) + 1.0 if stat != 'BernoulliSuffStat' else 1.0
    if stat in ('InvGammaSuffStat', 'InvGaussianSuffStat'):
        # sums of reciprocals: forgetting a tiny datum cancels a huge term, the rounding error scales with it
        scale += sum(abs(1.0 / float(x)) for x in xs if float(x) != 0.0)
    sq = sum(float(x) ** 2 for x in xs) + 1.0 if stat == 'GaussianSuffStat' else scale
    for i, (t, w) in enumerate(zip(vals, want)):
        if isinstance(w, int):
            if t != str(w):
                return False, f'field {i}: {t} vs {w}'
        else:
            f = tok_to_float(t)
            tol = 1e-9 * max(1.0, abs(w)) + 1e-12 * (sq if (stat == 'GaussianSuffStat' and i == 2) else scale) * max(1, len(xs))
            if not (abs(f - w) <= tol):
                return False, f'field {i}: {f!r} vs {w!r} (tol {tol:.3g})'
    return True, ''


def extra_run(man, tier, seed):
    out = extra_run_stats(man, tier, seed)
    from props import _stick
    st = _stick.stick_extra('C07', tier, seed)
    out['obligations'] = out.get('obligations', []) + st['obligations']
    out['failures'] += st['failures']
    for k_, v_ in st['stats'].items():
        out['stats'][k_] = out['stats'].get(k_, 0) + v_
    return out


def extra_run_stats(man, tier, seed):
    rng = random.Random(seed * 101 + 7)
    nh = 30 if tier == 'quick' else 800
    failures, obligations, samples = [], [], []
    total = 0
    model_dis = 0
    runs = []
    for stat, (kind, obs, suf) in STATS.items():
        runs.append((stat, kind, obs, suf))
        if kind == 'f64' and 'f32' in (man['defs'].get(f'{stat}.observe_{suf}', {}).get('kinds_all') or []):
            # the same statistic fed with f32 observations: the closed form is taken at the exactly widened values, so
            # arithmetic done in f32 before widening shows up as a deviation beyond binary64 rounding
            runs.append((stat, 'f32', (lambda r, obs=obs: gen.f32r(obs(r) if r.random() < 0.8 else obs(r) * r.choice([1e-3, 1e-6, 1e-9]))), suf))
    for stat, kind, obs, suf in runs:
        if f'{stat}.observe_{suf}' not in man['defs']:
            obligations.append({'name': f'translate:{stat}.observe_{suf}', 'kind': 'translate', 'ok': False, 'site': stat, 'detail': 'not generated'})
            continue
        hs = []
        for _ in range(nh):
            n = rng.choice([1, 2, 3, 5, 8, 20, 60]) if tier == 'quick' else rng.choice([1, 2, 3, 5, 8, 20, 60, 200, 400])
            xs = [obs(rng) for _ in range(n)]
            if rng.random() < 0.2:
                xs = xs + xs[: max(1, n // 3)]            # repeats
            k = rng.randint(0, len(xs))
            forget = rng.sample(range(len(xs)), k)
            if rng.random() < 0.15:
                forget = list(range(len(xs)))               # forget everything
            hs.append((xs, forget))
        new_line = f'{stat}.new - '
        impl0, model0 = run_pair([new_line])
        state_i = [impl0[0]] * nh
        state_m = [model0[0]] * nh
        state_p = [impl0[0]] * nh          # implementation on a permuted order, one observe at a time (first 12 items)

        def step(op, states, args, impl_side=True):
            lines = [f'{stat}.{op} {kind} {s} {a}' for s, a in zip(states, args)]
            i, m = run_pair(lines)
            return lines, i, m
        # 1. observe_many in two batches (the second one lands on a statistic that already holds data; either may be empty)
        cut = [rng.choice([0, len(xs), rng.randint(0, len(xs)), rng.randint(0, len(xs))]) for xs, _ in hs]
        args_a = [enc(xs[:c]) for (xs, _), c in zip(hs, cut)]
        args_b = [enc(xs[c:]) for (xs, _), c in zip(hs, cut)]
        _, i1a, _ = step(f'observe_many_{suf}', state_i, args_a)
        _, _, m1a = step(f'observe_many_{suf}', state_m, args_a)
        l1, i1, _ = step(f'observe_many_{suf}', i1a, args_b)
        _, _, m1 = step(f'observe_many_{suf}', m1a, args_b)
        total += 4 * nh
        # 2. forget_many the subset
        args2 = [enc([xs[j] for j in f]) for xs, f in hs]
        l2, i2, _ = step(f'forget_many_{suf}', i1, args2)
        _, _, m2 = step(f'forget_many_{suf}', m1, args2)
        total += 2 * nh
        samples.append(l1[0][:200])
        # 3. permuted: observe remaining items one at a time in shuffled order (implementation only)
        rem = []
        for xs, f in hs:
            fs = set(f)
            r_ = [x for j, x in enumerate(xs) if j not in fs]
            rem.append(r_)
        maxlen = max(len(r_) for r_ in rem)
        perm = [rng.sample(r_, len(r_)) for r_ in rem]
        cur = list(state_p)
        for t in range(min(maxlen, 60)):
            idx = [h for h in range(nh) if t < len(perm[h]) and len(perm[h]) <= 60]
            if not idx:
                break
            lines = [f'{stat}.observe_{suf} {kind} {cur[h]} {enc(perm[h][t])}' for h in idx]
            ii, _ = run_pair(lines, want_model=False)
            for h, a in zip(idx, ii):
                cur[h] = a
            total += len(idx)
        for h, ((xs, f), a_impl, a_model) in enumerate(zip(hs, i2, m2)):
            site = f'{stat}'
            # (a) implementation vs generated model on Float, same operation order
            ok, detail = cmp_tokens(a_impl, a_model, 1e-9, 1e-9)
            if not ok and a_model not in ('NOOP',) and not a_model.startswith('BAD'):
                # fused vs unfused multiply-add under cancellation: compare with the data-scaled tolerance
                try:
                    mv = [int(t) if not t.startswith('x') else tok_to_float(t) for t in a_model.split()]
                    ok, detail = stat_close(stat, a_impl, mv, xs)
                except ValueError:
                    pass
            if not ok:
                model_dis += 1
                obligations.append({'name': f'corr:{stat}.history', 'kind': 'corr', 'ok': False, 'site': stat,
                                    'detail': f'{l2[h][:150]} impl={a_impl} model={a_model}', 'cases': [{'line': l2[h], 'impl': a_impl, 'model': a_model}]})
            # (b) implementation vs exact closed form of the remaining data
            want = closed_form(stat, rem[h])
            ok, detail = stat_close(stat, a_impl, want, xs) if a_impl not in ('PANIC', 'HANG') else (False, a_impl)
            if not ok:
                failures.append({'site': site, 'case': l2[h], 'impl': a_impl, 'expected': ' '.join(map(str, want)),
                                 'history': [f'{stat}.new', f'observe_many {kind} {args_a[h]}', f'observe_many {kind} {args_b[h]}', f'forget_many {kind} {args2[h]}'],
                                 'detail': detail, 'observed': 'value' if a_impl not in ('PANIC', 'HANG') else a_impl.lower(),
                                 'n_obs': len(xs), 'n_forget': len(f), 'all_forgotten': len(f) == len(xs), 'stat': stat})
            # (d) forgetting everything returns exactly the empty statistic
            if len(f) == len(xs) and a_impl not in ('PANIC', 'HANG'):
                ok, detail = cmp_tokens(a_impl, impl0[0], 0.0, 0.0)
                if not ok:
                    failures.append({'site': site, 'case': l2[h], 'impl': a_impl, 'expected': impl0[0] + ' (the empty statistic, exactly)',
                                     'detail': detail, 'observed': 'residue', 'stat': stat, 'n_obs': len(xs), 'n_forget': len(f),
                                     'all_forgotten': True})
            # (c) permutation: one-at-a-time in shuffled order reaches the same statistic
            if len(perm[h]) <= 60:
                ok, detail = stat_close(stat, cur[h], want, xs) if cur[h] not in ('PANIC', 'HANG') else (False, cur[h])
                if not ok:
                    failures.append({'site': site, 'case': f'{stat} observe one-at-a-time permuted {perm[h][:8]}…', 'impl': cur[h],
                                     'expected': ' '.join(map(str, want)), 'detail': detail, 'observed': 'value', 'stat': stat,
                                     'n_obs': len(xs), 'n_forget': len(f), 'all_forgotten': False})
    # MvGaussianSuffStat (feature arraydist; hand model in Hand/Mvg.lean, theorems C15.stat_*): implementation-level relations
    # through the harness op mvgstat.observe_forget <data> <indices> -> n, sum_x, sum_x_sq
    ml, mm = [], []
    for _ in range(nh):
        d = rng.choice([1, 2, 3, 5])
        n = rng.choice([1, 2, 3, 5, 8, 20])
        rows = [[gen.real(rng) * rng.choice([1e-3, 1.0, 1.0, 7e5]) if rng.random() < 0.7 else rng.choice([0.1, 0.2, 0.3]) for _ in range(d)] for _ in range(n)]
        k = n if rng.random() < 0.4 else rng.randint(0, n)
        idx = rng.sample(range(n), k)
        flat = [v for r_ in rows for v in r_]
        ml.append(f'mvgstat.observe_forget - {n} {d} {enc(flat)} L{k}' + ''.join(f' {i}' for i in idx))
        mm.append((rows, idx, d))
    mi, _ = run_pair(ml, want_model=False)
    total += len(ml)
    for line, (rows, idx, d), a in zip(ml, mm, mi):
        if a in ('NOOP',):
            break
        keep = [r_ for j, r_ in enumerate(rows) if j not in set(idx)]
        toks = a.split()
        bad = None
        if a in ('PANIC', 'HANG', 'DIED'):
            bad = a
        else:
            fl = [tok_to_float(t) for t in toks if t.startswith('x')]
            if toks[0] != str(len(keep)):
                bad = f'n = {toks[0]}, {len(keep)} data held'
            elif not keep and any(v != 0.0 for v in fl):
                bad = 'residue after forgetting everything: ' + ' '.join(repr(v) for v in fl if v != 0.0)[:120]
            elif keep:
                sx = [math.fsum(r_[i] for r_ in keep) for i in range(d)]
                mag = sum(abs(v) for r_ in rows for v in r_) + 1.0
                if any(abs(p - q) > 1e-9 * mag for p, q in zip(fl[:d], sx)):
                    bad = f'sum_x {fl[:d]} vs {sx}'
        if bad:
            failures.append({'site': 'MvGaussianSuffStat', 'case': line, 'impl': a, 'expected': 'statistic of the remaining data (exactly empty when none)',
                             'detail': bad, 'observed': 'residue' if not keep else 'value', 'stat': 'MvGaussianSuffStat',
                             'n_obs': len(rows), 'n_forget': len(idx), 'all_forgotten': not keep})
    # one obligation per stat for the correspondence of histories (dedupe)
    seen = set()
    obs2 = []
    for o in obligations:
        if o['name'] in seen:
            continue
        seen.add(o['name'])
        obs2.append(o)
    for stat in STATS:
        if f'corr:{stat}.history' not in seen:
            obs2.append({'name': f'corr:{stat}.history', 'kind': 'corr', 'ok': True, 'site': stat, 'detail': ''})
    return {'obligations': obs2, 'failures': failures,
            'stats': {'evaluations': total, 'distinct_nontrivial': total, 'history_model_disagreements': model_dis},
            'samples': samples[:3]}


def _upl_underflow(f):
    if f.get('stat') != 'UnitPowerLawSuffStat':
        return False
    toks = f.get('case', '').split()
    try:
        i = max(j for j, t in enumerate(toks) if t.startswith('L'))
        xs = [tok_to_float(t) for t in toks[i + 1:]]
        # the product is formed in the observation type: binary64 underflows below e^-708, f32 already below e^-87
        lim = -85.0 if len(toks) > 1 and toks[1] == 'f32' else -700.0
        return sum(math.log(x) for x in xs if x > 0) < lim or 'inf' in f.get('detail', '') or 'nan' in f.get('detail', '')
    except Exception:
        return False


INPUT_CLASSES = {'upl_product_underflow': _upl_underflow, 'sbd_zero_weight_empty_slot': (lambda f: f.get('cls') == 'sbd_zero_weight_empty_slot')}
