"""C04 — samplers draw from the distribution the density describes.

Theorems: Props/C04A.lean (`namespace C04`) about the hand models of Hand/Draw.lean (`draw` / `sample` of the hand-written samplers
as functions of the generator words) and the generated `cdf / supports / ln_f`: inversion law `cdf(draw u) = u` and monotonicity
(Laplace, Gev, Kumaraswamy, UnitPowerLaw), interval law (Bernoulli, Geometric both methods), support / totality for EVERY 64-bit
generator word on the carrier X (Laplace, Gev, Kumaraswamy, UnitPowerLaw, Categorical, Geometric; Uniform / DiscreteUniform /
Empirical in range), termination (Geometric search on exact reals; VonMises: acceptance rectangle for every κ > 0), `sample` = n
draws (Bernoulli, UnitPowerLaw, DiscreteUniform, Categorical; Mixture: permuted stream), re-parameterisation of the delegating
samplers as density identities (Gamma, InvGamma, ScaledInvChiSquared, ChiSquared, InvChiSquared, Exponential, Pareto).
Tie of the hand models to the code and everything binary64-specific: props/cases_c04.py (details in props/C04_notes.md):
  1. BITWISE correspondence of `draw.<Dist>` / `sample.<Dist>` (harness/src/manual_c04.rs, real code with a scripted generator) with
     the models on Float (Hand/DispatchC04.lean, exact fused multiply-add) on extreme and random generator words;
  2. regression lines of the six repaired findings (Laplace, Kumaraswamy, UnitPowerLaw, Geometric ×2, VonMises, KsTwoAsymptotic);
  3. witness lines of the REMAINING findings (reported as failures, matched by known_findings.json);
  4. seeded checks (`Xoshiro256Plus::seed_from_u64`) of all 40 sampleable distributions: no non-finite / unsupported draw, no
     panic, determinism (same seed twice ⇒ bit-identical), `sample(n).len() == n`;
  5. ConjugateModel (Beta/Bernoulli, Gamma/Poisson, NormalGamma/Gaussian): `sample(n)` is bit-identical to n successive `draw`s
     from the same seeded generator state, and a fixed-seed 6σ TEST of the joint law of `sample(2)` / `sample(50)`;
     same-seed scaling of the prior draws in the precision multiplier (NormalGamma, NIX, NIG, NIW); Mixture<Gaussian> index draw at
     the extreme words for the weights [1/k; k]; `UnitPowerLaw::draw` after `set_alpha` (history line, compared with the model);
  6. a fixed-seed Kolmogorov–Smirnov TEST (not a theorem) of `sample(2000)` of 28 parameterisations against the object's own
     cdf, rejected only below p = 1e-6.
"""
from checklib import core
from props import cases_c04

ID = 'C04'
LEAN_DEPS = ['RvModel.Hand.Draw', 'RvModel.Lemmas.C04', 'RvModel.Props.C04A', 'RvModel.Hand.DispatchAll']
TRUSTED = ['hand models Hand/Draw.lean of the hand-written samplers (Bernoulli, Laplace, Gev, Kumaraswamy, UnitPowerLaw, Geometric, '
           'DiscreteUniform, Uniform, Categorical, Mixture<Laplace>, InvGaussian given its normal variate, VonMises, Empirical) and of '
           "rand-0.8.5's word → variate maps (Standard, Open01, Uniform::new(0,1), UniformInt, gen_range), transcribed from the cited "
           'source lines and tied to the real code by the bitwise correspondence run of props/cases_c04.py',
           'rand_distr-0.4.3 samplers (Normal, Gamma, Beta, ChiSquared, StudentT, Poisson, Binomial, Cauchy, Pareto, LogNormal, Exp) '
           'have the law their rustdoc documents: only the constructor arguments rv passes are proved to match the generated ln_f; '
           'the law is TESTED (fixed-seed KS against the object\'s own cdf), not proved',
           'the generator is a black box delivering 64-bit words; determinism of draws in the generator state is true of the models by '
           'construction and tested on the implementation (same seed twice)',
           'KsTwoAsymptotic::draw (invcdf of ks.rs) and the law of InvGaussian / VonMises / Gumbel-max index draws are not modelled / '
           'not proved (implementation-side checks only)']
ASSUMPTIONS = ['parameters valid as the checked constructors enforce them; generator words < 2^64',
               'carrier X: exact reals with IEEE special values — no rounding; binary64 rounding effects are the float-only finding '
               'classes float_rounding_boundary / small_shape_underflow / narrow_interval_scale_loop / top_variate_sum_rounding',
               'the statistical check is a test at level 1e-6 with a fixed seed, not a proof']
N_GEN = {'quick': 0, 'thorough': 0}
CLASSES = ('model_disagreement', 'conjugate_sample_vs_draws', 'conjugate_sample_joint_law', 'prior_draw_scaling', 'mixture_index_draw',
           'float_rounding_boundary', 'small_shape_underflow', 'narrow_interval_scale_loop', 'top_variate_sum_rounding',
           'seeded_draw_check', 'regression_of_repaired_defect', 'statistical_law')


def gen_ops(man):
    return []


def extra_run(man, tier, seed):
    r = cases_c04.run(tier, seed, harness=core.harness_path(), driver=core.driver_path())
    obligations, failures, samples = [], [], []
    # 1. bitwise correspondence, one obligation per sampler entry point
    for site, v in r['corr'].items():
        mm = v['mismatches']
        obligations.append({'name': 'corr:' + site + '(hand model, bitwise)', 'kind': 'corr', 'ok': not mm and v['cases'] > 0, 'site': site,
                            'detail': '%d cases, %d disagreements' % (v['cases'], len(mm)),
                            'cases': [{'line': l[:3000], 'impl': a[:600], 'model': b[:600]} for l, a, b in mm[:3]]})
        for l, a, b in mm[:5]:
            failures.append({'site': site, 'case': l[:3000], 'impl': a[:600], 'expected': 'the answer of the hand model: ' + b[:300],
                             'observed': a if a in ('PANIC', 'HANG', 'DIED') else 'value', 'detail': 'implementation and model disagree',
                             'cls': 'model_disagreement'})
    # 2. regression of the repaired findings
    for x in r['regress']:
        obligations.append({'name': 'regress:' + x['site'] + ':' + x['what'][:60], 'kind': 'regress', 'ok': x['ok'], 'site': x['site'],
                            'detail': x['what'] + ' — impl ' + x['impl'][:80],
                            'cases': [] if x['ok'] else [{'line': x['line'][:3000], 'impl': x['impl'][:600], 'model': x['model'][:600]}]})
        if not x['ok']:
            failures.append({'site': x['site'], 'case': x['line'][:3000], 'impl': x['impl'][:600], 'expected': x['what'],
                             'observed': 'regressed', 'detail': x['what'], 'cls': 'regression_of_repaired_defect'})
    # 3. remaining findings: every reproduced witness is a failure entry (known_findings.json decides KNOWN-FINDING / VIOLATION)
    for x in r['witness']:
        if x['reproduced']:
            failures.append({'site': x['site'], 'case': x['line'][:3000], 'impl': x['impl'][:600], 'expected': 'a supported, terminating draw',
                             'observed': x['observed'], 'detail': 'model answers ' + x['model'][:100], 'cls': x['cls']})
        else:
            samples.append('witness no longer reproduces: %s [%s] impl=%s' % (x['site'], x['cls'], x['impl'][:60]))
    # 4. seeded checks
    nstd = sum(1 for x in r['drawchk'] if not x['known'])
    bad = [x for x in r['drawchk'] if x['observed']]
    obligations.append({'name': 'seeded:all-sampleable-distributions(standard parameters)', 'kind': 'test',
                        'ok': not [x for x in bad if not x['known']], 'site': 'Sampleable.draw',
                        'detail': '%d standard-parameter lines: no non-finite / unsupported draw, no panic, deterministic, sample(n) has n '
                                  'elements; %d small-shape / rounding lines reported as findings' % (nstd, len(r['drawchk']) - nstd),
                        'cases': [{'line': x['line'][:600], 'impl': x['impl'], 'model': ''} for x in bad if not x['known']][:3]})
    for x in bad:
        failures.append({'site': x['site'], 'case': x['line'][:3000], 'impl': x['impl'], 'expected': '0 0 0 T T',
                         'observed': x['observed'], 'detail': '#non-finite #unsupported #panics det len seq = ' + x['impl'], 'cls': x['cls']})
    seqF = [x['site'] for x in r['drawchk'] if not x['observed'] and x['impl'].split()[-1:] == ['F']]
    if seqF:
        samples.append('sample(n) is not the n seeded draws (same law, other use of the stream; C04.Mixture_sample_two): ' + ', '.join(seqF))
    # 4b. ConjugateModel, prior scaling, Mixture<Gaussian> index draw
    for key, name, kind, site in (('joint', 'joint:ConjugateModel.sample = n draws (seed-for-seed) + joint-law test', 'test', 'ConjugateModel.sample'),
                                  ('scaling', 'scaling:prior draws scale with the precision multiplier (same seed)', 'test', 'NormalInvWishart.draw'),
                                  ('mixture_gaussian', 'scripted:Mixture<Gaussian>.draw never panics on valid weights', 'test', 'Mixture.draw')):
        xs = r[key]
        bad = [x for x in xs if not x['ok']]
        obligations.append({'name': name, 'kind': kind, 'ok': not bad and len(xs) > 0, 'site': site,
                            'detail': '%d lines, %d bad' % (len(xs), len(bad)),
                            'cases': [{'line': x['line'][:3000], 'impl': x['impl'][:600], 'model': ''} for x in bad[:3]]})
        shown = {}
        for x in bad:
            kcls = (x['site'], x.get('cls'), x.get('observed'))
            shown[kcls] = shown.get(kcls, 0) + 1
            if shown[kcls] > 3:
                continue
            failures.append({'site': x['site'], 'case': x['line'][:3000], 'impl': x['impl'][:600],
                             'expected': x.get('expected', 'a supported draw, no panic'),
                             'observed': x.get('observed') or (x['impl'] if x['impl'] in ('PANIC', 'HANG', 'DIED') else 'value'),
                             'detail': x['impl'][:300], 'cls': x.get('cls', 'mixture_index_draw')})
    for x in r['joint']:
        if x['cls'] == 'conjugate_sample_joint_law':
            samples.append('joint law: ' + x['impl'])
    # 5. statistical law (a test)
    sb = [x for x in r['stat'] if not x['ok']]
    obligations.append({'name': 'test:KS(sample(n) vs own cdf, fixed seed, p >= 1e-6)', 'kind': 'test', 'ok': not sb, 'site': 'Sampleable.sample',
                        'detail': '%d parameterisations, n = %d; smallest p = %.3g' % (
                            len(r['stat']), cases_c04.N_STAT, min([x['p'] for x in r['stat']] or [0.0])),
                        'cases': [{'line': x['name'], 'impl': x['detail'], 'model': ''} for x in sb[:3]]})
    for x in sb:
        failures.append({'site': x['site'], 'case': x['name'], 'impl': x['detail'], 'expected': 'KS p >= 1e-6', 'observed': 'law',
                         'detail': x['detail'], 'cls': 'statistical_law'})
    notes = r['notes']
    samples.append('scripted answers of note: ' + ', '.join('%s %s ×%d' % (k[0], k[1], n) for k, n in sorted(notes.items())))
    samples += ['%s: %s' % (x['name'], x['detail']) for x in r['stat'][:3]]
    ncorr = sum(v['cases'] for v in r['corr'].values())
    stats = {'evaluations': r['evaluations'], 'distinct_nontrivial': ncorr}
    return {'obligations': obligations, 'failures': failures, 'stats': stats, 'samples': [s[:300] for s in samples]}


INPUT_CLASSES = {c: (lambda f, c=c: f.get('cls') == c) for c in CLASSES}
