"""C02 — probability functions are normalised, total and mutually consistent."""
import random, math, collections
from checklib import gen
from checklib.core import enc, run_pair, tok_to_float
from checklib.gen import parse_ty
from checklib.sweep import kinds_of

ID = 'C02'
LEAN_DEPS = ['RvModel.ExtInst', 'RvModel.Lemmas.C02', 'RvModel.Lemmas.C02C']
TRUSTED = ['carrier X for totality / off-support theorems; Mathlib measure theory for the normalisation theorems']
ASSUMPTIONS = ['normalisation is proved for 14 laws (see Props/C02C.lean header for the missing ones and the blocking fact)',
               'raw f/ln_f are only required to be numbers on the support; off the support the pdf/pmf wrappers are checked']
N_GEN = {'quick': 6, 'thorough': 60}
METHODS = ('ln_f', 'f', 'supports', 'ln_pdf', 'pdf', 'ln_pmf', 'pmf')
SPECIAL_X = [float('nan'), float('inf'), float('-inf'), 0.0, -0.0, 5e-324, 1.0, -1.0, 1.0 - 1.1102230246251565e-16,
             1.0 + 2.220446049250313e-16, 1e300, -1e300, 0.5, 2.0]


def gen_ops(man):
    return [n for n, d in man['defs'].items() if d['name'] in METHODS and d['file'].startswith('dist/')]


def boundary_params(name, structs, rng):
    v = list(gen.struct_value(name, structs, rng))
    dom = gen.DOM.get(name, {})
    if isinstance(dom, dict) and rng.random() < 0.3:
        for i, (f, t) in enumerate(structs[name]):
            if dom.get(f) in ('unit', 'unitc') and rng.random() < 0.7:
                v[i] = rng.choice([0.0, 1.0])
    return tuple(v)


def extra_run(man, tier, seed):
    rng = random.Random(seed * 37 + 2)
    structs = man['structs']
    n = 25 if tier == 'quick' else 500
    skipped = man.get('rust_dispatch_skipped', {})
    groups = collections.defaultdict(dict)   # (owner, suffix, kind) -> {method: lean}
    for lean, d in man['defs'].items():
        if d['name'] in METHODS and d['file'].startswith('dist/') and lean not in skipped and d['has_self'] and len(d['ptys']) == 1:
            suf = lean.split('.', 1)[1][len(d['name']):]
            ty = parse_ty(d['ptys'][0])
            if ty not in ('real', 'nat', 'int', 'bool'):
                continue
            for k in kinds_of(d):
                groups[(d['owner'], suf, k, ty)][d['name']] = lean
    lines, meta = [], []
    for (owner, suf, kind, ty), ms in sorted(groups.items()):
        if 'supports' not in ms or 'ln_f' not in ms:
            continue
        wrap = 'ln_pdf' if 'ln_pdf' in ms else ('ln_pmf' if 'ln_pmf' in ms else None)
        lin = 'pdf' if 'pdf' in ms else ('pmf' if 'pmf' in ms else None)
        xs_all = None
        if ty in ('nat', 'int') and kind in ('u8', 'i8'):
            xs_all = list(range(0, 256)) if kind == 'u8' else list(range(-128, 128))
        for i in range(n):
            pv = boundary_params(owner, structs, rng)
            if ty == 'real':
                x = rng.choice(SPECIAL_X) if rng.random() < 0.35 else gen.obs_real(rng)
                if kind == 'f32':
                    x = gen.f32r(x)
            elif ty == 'bool':
                x = rng.random() < 0.5
            elif xs_all is not None and tier == 'thorough':
                x = xs_all[i % len(xs_all)]
            else:
                x = gen.arg_value(ty, kind, rng, structs)
                if owner == 'Bernoulli' and rng.random() < 0.8:
                    x = x % 2
            base = len(lines)
            names = ['supports', 'ln_f', 'f'] + ([wrap] if wrap else []) + ([lin] if lin else [])
            for m in names:
                lines.append(f'{ms[m]} {kind} {enc(pv)} {enc(x)}' if m in ms else 'NOOP -')
            meta.append((owner, suf, kind, names, base, pv, x))
    impl, _ = run_pair(lines, want_model=False)
    failures = []
    for owner, suf, kind, names, b, pv, x in meta:
        ans = dict(zip(names, impl[b:b + len(names)]))
        site = f'{owner}.ln_f{suf}'
        case = lines[b + 1]

        def fail(what, observed, extra=''):
            failures.append({'site': site, 'case': case, 'impl': ' '.join(f'{k}={v}' for k, v in ans.items()), 'expected': what,
                             'observed': observed, 'detail': extra, 'params': list(pv), 'x': x, 'owner': owner, 'kind': kind})
        sup = ans['supports']
        if any(v in ('NOOP', 'DIED') or v.startswith('BAD') for v in ans.values()):
            continue
        if sup in ('PANIC', 'HANG'):
            fail('supports returns a bool', sup.lower())
            continue
        supported = sup == 'T'
        wrapn = next((m for m in names if m.startswith('ln_p')), None)
        linn = next((m for m in names if m in ('pdf', 'pmf')), None)
        if supported:
            for m in ('ln_f', 'f'):
                a = ans[m]
                if a in ('PANIC', 'HANG'):
                    fail(f'{m} is a number on the support', a.lower())
                elif math.isnan(tok_to_float(a)):
                    fail(f'{m} is a number on the support', 'nan')
            if ans['ln_f'] not in ('PANIC', 'HANG') and ans['f'] not in ('PANIC', 'HANG'):
                lf, ff = tok_to_float(ans['ln_f']), tok_to_float(ans['f'])
                if not (math.isnan(lf) or math.isnan(ff)):
                    e = math.exp(lf) if lf < 709 else float('inf')
                    if not (abs(ff - e) <= 1e-12 * max(abs(e), 1e-300) + 1e-300 or ff == e):
                        fail('f = exp(ln_f)', 'value', f'f={ff!r} exp(ln_f)={e!r}')
        else:
            if wrapn:
                a = ans[wrapn]
                if a in ('PANIC', 'HANG'):
                    fail(f'{wrapn} = -inf off the support', a.lower())
                elif tok_to_float(a) != float('-inf'):
                    fail(f'{wrapn} = -inf off the support', 'value' if not math.isnan(tok_to_float(a)) else 'nan')
            if linn:
                a = ans[linn]
                if a in ('PANIC', 'HANG'):
                    fail(f'{linn} = 0 off the support', a.lower())
                elif tok_to_float(a) != 0.0:
                    fail(f'{linn} = 0 off the support', 'value' if not math.isnan(tok_to_float(a)) else 'nan')
    return {'obligations': [], 'failures': failures, 'stats': {'evaluations': len(lines), 'distinct_nontrivial': len(set(lines))},
            'samples': lines[:3]}


def _p(f, i=0):
    try:
        return f['params'][i]
    except Exception:
        return None


INPUT_CLASSES = {
    'p_boundary': lambda f: any(isinstance(v, float) and v in (0.0, 1.0) for v in f.get('params', [])),
    'x_nonpositive': lambda f: isinstance(f.get('x'), float) and f['x'] <= 0.0,
    'gev_endpoint': lambda f: f.get('owner') == 'Gev',
    'not_bit': lambda f: f.get('owner') == 'Bernoulli' and isinstance(f.get('x'), int) and f['x'] not in (0, 1),
}
