"""C20 — goodness-of-fit statistics and p-values are the ones they are named after."""
import random, math, struct, subprocess
from math import gcd, comb
from checklib.core import run_pair, cmp_tokens, tok_to_float, driver_path, enc

ID = 'C20'
LEAN_DEPS = ['RvModel.Hand.Ks', 'RvModel.Hand.Empirical', 'RvModel.Hand.Mardia', 'RvModel.Spec.C20', 'RvModel.Lemmas.C20',
             'RvModel.Hand.DispatchAll']
TRUSTED = ['hand models Hand/Ks.lean, Hand/Empirical.lean, Hand/Mardia.lean (exact correspondence incl. panics and out-of-range p-values)',
           'Spec/C20.lean: true two-sided KS distance, ECDF, lattice-path enumerator, Pearson statistic']
ASSUMPTIONS = ['ks_cdf (Marsaglia-Tsang-Wang) and asymptotic p-values: correspondence only; lattice-path theorems by kernel evaluation for sizes <= 6']
N_GEN = {'quick': 20, 'thorough': 200}
MODES = ['exact', 'asymptotic', 'auto']
ALTS = ['two_sided', 'less', 'greater']


def gen_ops(man):
    return [o for o in ('mmul', 'paths_outside_proportion', 'Empirical.mean_real', 'Empirical.variance_real') if o in man['defs']]


def f(x):
    return 'x%016x' % struct.unpack('<Q', struct.pack('<d', float(x)))[0]


def L(xs):
    return ' '.join(['L%d' % len(xs)] + [f(x) for x in xs])


def inside(m, n, h, two):
    M, N = max(m, n), min(m, n)
    g = gcd(m, n)
    mg, ng = M // g, N // g
    A = [[0] * (N + 1) for _ in range(M + 1)]
    for x in range(M + 1):
        for y in range(N + 1):
            dd = ng * x - mg * y
            A[x][y] = 0 if (dd >= h or (two and -dd >= h)) else 1 if x == y == 0 else (A[x - 1][y] if x else 0) + (A[x][y - 1] if y else 0)
    return A[M][N]


def extra_run(man, tier, seed):
    rnd = random.Random(seed * 53 + 20200)
    n = 60 if tier == 'quick' else 1500
    big = tier == 'thorough'

    def size():
        r = rnd.random()
        return rnd.randint(1, 8) if r < .3 else rnd.randint(1, 60) if r < .7 else rnd.randint(1, 300 if big else 120)

    def sample(k, ties):
        kind = rnd.choice('ugei')
        xs = ([rnd.random() for _ in range(k)] if kind == 'u' else [rnd.gauss(0, 1) for _ in range(k)] if kind == 'g' else
              [rnd.expovariate(1.0) * 10 ** rnd.randint(-3, 3) for _ in range(k)] if kind == 'e' else [float(rnd.randint(-5, 5)) for _ in range(k)])
        if ties and kind != 'i':
            r = rnd.choice([1, 2])
            xs = [round(x, r) for x in xs]
        xs = [x if x != 0 else 0.0 for x in xs]
        o = rnd.choice(['sorted', 'rev', 'shuf'])
        if o == 'sorted':
            xs.sort()
        elif o == 'rev':
            xs.sort(reverse=True)
        return xs
    lines, kinds, meta = [], [], []

    def add(line, kind, m=None):
        lines.append(line)
        kinds.append(kind)
        meta.append(m)
    for _ in range(n):
        xs = sample(size(), rnd.random() < .3)
        tab = {}
        F = rnd.choice([lambda x: min(1, max(0, x)), lambda x: .5 * (1 + math.erf(x / 2 ** .5)),
                        lambda x: .5 * (1 + math.erf((x - .3) / 2 ** .5)), lambda x: tab.setdefault(x, rnd.random())])
        vals = [F(x) for x in xs]
        add('ks_test - ' + L(xs) + ' ' + L(vals), 'ks_test', (xs, vals))
        perm = list(range(len(xs)))
        rnd.shuffle(perm)
        add('ks_test - ' + L([xs[i] for i in perm]) + ' ' + L([vals[i] for i in perm]), 'ks_test_perm', len(lines) - 1)
        nx = size()
        ny = nx if rnd.random() < .4 else size()
        t = rnd.random() < .3
        a, b = sample(nx, t), sample(ny, t)
        if rnd.random() < .5:
            b = [y + rnd.choice([0, .1, .5]) for y in b]
        mode, alt = rnd.choice(MODES), rnd.choice(ALTS)
        add('ks_two_sample - %s %s %s %s' % (L(a), L(b), mode, alt), 'ks_two_sample', (a, b, mode, alt))
        m_, n_ = rnd.randint(1, 25), rnd.randint(1, 25)
        if rnd.random() < .2:
            n_ = m_
        i_, j_ = rnd.randint(0, m_), rnd.randint(0, n_)
        mode, alt = rnd.choice(MODES), rnd.choice(ALTS)
        add('ks_two_sample.ij - %d %d %d %d %s %s' % (m_, n_, i_, j_, mode, alt), 'ks2ij', (m_, n_, i_, j_, mode, alt))
        es = sample(size(), rnd.random() < .4)
        x = rnd.choice(es) if rnd.random() < .4 else rnd.uniform(min(es) - 1, max(es) + 1)
        add('empirical.cdf - %s %s' % (L(es), f(x)), 'empirical.cdf', (es, x))
        add('empirical.mean - ' + L(es), 'empirical.mean', es)
        add('empirical.variance - ' + L(es), 'empirical.variance', es)
        kk = rnd.randint(2, 8)
        ps = [rnd.random() + .05 for _ in range(kk)]
        s = sum(ps)
        ps = [p / s for p in ps]
        obs = [rnd.randint(0, 40) for _ in range(kk)]
        if sum(obs) == 0:
            obs[0] = 3
        add('x2_test - L%d %s %s' % (kk, ' '.join(map(str, obs)), L(ps)), 'x2_test', (obs, ps))
        if rnd.random() < (0.3 if big else 0.1):
            d = rnd.randint(1, 4)
            nn = rnd.randint(d + 3, 40)
            A = [[rnd.gauss(0, 1) for _ in range(d)] for _ in range(d)]
            data = []
            for _ in range(nn):
                z = [rnd.gauss(0, 1) for _ in range(d)]
                data += [sum(A[r][c] * z[c] for c in range(d)) + r for r in range(d)]
            add('mardia - %d %d %s' % (nn, d, L(data)), 'mardia', None)

    # ---- Empirical through its three public constructors (`new`, `from_params` on an arbitrary — unsorted, reversed, duplicated —
    #      parameter vector, `from_params(emit_params())`): same object, same answers; ECDF oracle away from the sample
    for _ in range(max(12, n // 4)):
        es = sample(size(), rnd.random() < .4)
        r = rnd.random()
        if r < .3:
            rnd.shuffle(es)
        elif r < .45:
            es = sorted(es) + [rnd.uniform(min(es) - 2, max(es) + 2) for _ in range(rnd.randint(1, 4))]     # appended observations
        elif r < .6:
            es = es + es[:rnd.randint(1, len(es))]                                                            # duplicated
        lo, hi = min(es), max(es)
        qs = [rnd.choice(es) for _ in range(3)] + [rnd.uniform(lo - 1, hi + 1) for _ in range(5)] + [lo, hi, lo - 1.0, hi + 1.0]
        qs += [(a_ + b_) / 2 for a_, b_ in zip(sorted(es), sorted(es)[1:])][:6]
        base = len(lines)
        for ctor in ('new', 'from_params', 'roundtrip'):
            add('empirical.queries - %s %s %s' % (ctor, L(es), L(qs)), 'emp.queries', (ctor, es, qs, base))
        words = [rnd.getrandbits(64) for _ in range(6)]
        for ctor in ('new', 'from_params'):
            add('empirical.draws - %s %s L%d %s' % (ctor, L(es), len(words), ' '.join(map(str, words))), 'emp.draws', (ctor, es, base + 3))
    # ---- two-sample symmetry: ks_two_sample(a, b, Less) = ks_two_sample(b, a, Greater) (and two-sided in both orders), with
    #      the FIRST sample the shorter one in most cases; one-sided asymptotic p-value against Hodges' closed form
    swap = {'less': 'greater', 'greater': 'less', 'two_sided': 'two_sided'}
    for it in range(max(16, n // 3)):
        na = rnd.randint(1, 40)
        nb = na + rnd.randint(1, 60) if rnd.random() < .8 else rnd.randint(1, 40)
        t = rnd.random() < .2
        a_, b_ = sample(na, t), sample(nb, t)
        if rnd.random() < .6:
            b_ = [y + rnd.choice([.05, .3, 1.0]) for y in b_]
        mode = 'asymptotic' if rnd.random() < .7 else rnd.choice(MODES)
        alt = rnd.choice(['less', 'greater']) if rnd.random() < .8 else 'two_sided'
        add('ks_two_sample - %s %s %s %s' % (L(a_), L(b_), mode, alt), 'ks2sym', (a_, b_, mode, alt, None))
        add('ks_two_sample - %s %s %s %s' % (L(b_), L(a_), mode, swap[alt]), 'ks2sym', (b_, a_, mode, swap[alt], len(lines) - 1))
    impl, model = run_pair(lines)
    # oracle ops on the driver
    olines = []
    for line, k in zip(lines, kinds):
        if k == 'ks_test':
            olines.append('c20.ksD -' + line[len('ks_test -'):])
        elif k == 'empirical.cdf':
            olines.append('c20.ecdf -' + line[len('empirical.cdf -'):])
        elif k == 'x2_test':
            olines.append('c20.x2_stat -' + line[len('x2_test -'):])
        else:
            olines.append('NOOP -')
    p = subprocess.run([driver_path()], input='\n'.join(olines) + '\n', capture_output=True, text=True)
    orc = p.stdout.split('\n')
    obligations = {}
    failures = []
    for idx, (line, k, a, b, o, mt) in enumerate(zip(lines, kinds, impl, model, orc, meta)):
        op = line.split()[0]
        ob = obligations.setdefault(op, {'name': f'corr:{op}', 'kind': 'corr', 'ok': True, 'site': op, 'detail': '', 'cases': []})
        if not (b == 'NOOP' or b.startswith('BAD') or a == 'NOOP'):
            tol = (1e-6, 1e-9) if op == 'mardia' else (1e-9, 1e-12)
            ok, detail = cmp_tokens(a, b, *tol)
            if not ok:
                ob['ok'] = False
                if len(ob['cases']) < 3:
                    ob['cases'].append({'line': line[:400], 'impl': a, 'model': b})
                ob['detail'] = f'{line[:160]} impl={a[:50]} model={b[:50]}'

        def fail(site, what, observed, extra=None):
            d = {'site': site, 'case': line[:900], 'impl': a, 'expected': what, 'observed': observed, 'detail': ''}
            d.update(extra or {})
            failures.append(d)

        def hodges(vals, sizes, mode, alt, info):
            """one-sided asymptotic p-value against the closed form (Hodges 1958 / SciPy): m = LARGER, n = smaller size"""
            if len(vals) == 2 and mode == 'asymptotic' and alt != 'two_sided':
                mm, nn = float(max(sizes)), float(min(sizes))
                z = math.sqrt(mm * nn / (mm + nn)) * vals[0]
                pe = math.exp(-2.0 * z * z - 2.0 * z * (mm + 2.0 * nn) / math.sqrt(mm * nn * (mm + nn)) / 3.0)
                if not (abs(vals[1] - pe) <= 1e-10 * max(1.0, pe)):
                    fail('ks_two_sample', f"Hodges' one-sided asymptotic p-value {pe!r} (m = larger, n = smaller size)", 'pvalue_asymptotic', info)
        if a in ('PANIC', 'HANG', 'ABORT'):
            if k == 'ks2sym':
                if mt[4] is not None and a != impl[mt[4]]:
                    failures.append({'site': 'ks_two_sample', 'case': line[:900], 'impl': a, 'expected': 'same outcome as the swapped call: ' + impl[mt[4]], 'observed': 'symmetry', 'detail': ''})
                fail('ks_two_sample', 'a statistic and a p-value', 'panic', {'unequal': len(mt[0]) != len(mt[1]), 'mode': mt[2], 'alt': mt[3], 'sizes': (len(mt[0]), len(mt[1]))})
            elif k in ('ks_two_sample', 'ks2ij'):
                m_ = mt
                unequal = (len(m_[0]) != len(m_[1])) if k == 'ks_two_sample' else (m_[0] != m_[1])
                fail('ks_two_sample', 'a statistic and a p-value', 'panic', {'unequal': unequal, 'mode': m_[-2], 'alt': m_[-1],
                                                                         'sizes': (len(m_[0]), len(m_[1])) if k == 'ks_two_sample' else (m_[0], m_[1])})
            elif k != 'mardia':
                fail(op, 'a value', a.lower())
            continue
        vals = [tok_to_float(t) for t in a.split() if t.startswith('x')]
        if k == 'ks_test':
            d_true = tok_to_float(o) if o.startswith('x') else None
            if d_true is not None and not (abs(vals[0] - d_true) <= 1e-12):
                fail('ks_test', f'two-sided KS distance {d_true!r}', 'statistic', {'stat': vals[0], 'true': d_true})
            if not (0.0 <= vals[1] <= 1.0):
                fail('ks_test', 'p-value in [0,1]', 'pvalue_range')
        elif k == 'ks_test_perm':
            if a != impl[mt]:
                ok, _ = cmp_tokens(a, impl[mt], 1e-12, 1e-15)
                if not ok:
                    fail('ks_test', 'permutation invariance: ' + impl[mt], 'perm')
        elif k in ('ks_two_sample', 'ks2ij'):
            m_ = mt
            sizes = (len(m_[0]), len(m_[1])) if k == 'ks_two_sample' else (m_[0], m_[1])
            info = {'unequal': sizes[0] != sizes[1], 'mode': m_[-2], 'alt': m_[-1], 'sizes': sizes,
                    'ties': k == 'ks_two_sample' and (len(set(m_[0])) < len(m_[0]) or len(set(m_[1])) < len(m_[1]) or bool(set(m_[0]) & set(m_[1])))}
            if len(vals) == 2 and not (-1e-12 <= vals[1] <= 1.0 + 1e-12):
                fail('ks_two_sample', 'p-value in [0,1]', 'pvalue_range', info)
            hodges(vals, sizes, m_[-2], m_[-1], info)
            if len(vals) == 2 and k == 'ks2ij' and m_[4] in ('exact', 'auto') and max(sizes) <= 25:
                mm, nn, ii, jj = m_[0], m_[1], m_[2], m_[3]
                lcm = mm * nn // gcd(mm, nn)
                stat = vals[0]
                h = round(abs(stat) * lcm)
                two = m_[5] == 'two_sided'
                pt = 1.0 if h == 0 else 1.0 - inside(mm, nn, h, two) / comb(mm + nn, nn)
                if stat >= 0 and 0 <= vals[1] <= 1 and not (abs(vals[1] - pt) <= 1e-9):
                    fail('ks_two_sample', f'exact p-value {pt!r}', 'pvalue', info)
        elif k == 'emp.queries':
            ctor, es, qs, base = mt
            ref = impl[base]                      # the `new` line of this group
            if ctor != 'new' and a != ref:
                fail('Empirical.from_params', 'the answers of Empirical::new on the same sample: ' + ref[:300], 'ctor_vs_new', {'ctor': ctor})
            nq = len(qs)
            if len(vals) == nq + 4:
                srt = sorted(es)
                for q, c in zip(qs, vals[:nq]):
                    if q not in es:
                        e = sum(1 for x in es if x <= q) / len(es)
                        if c != e:
                            fail('Empirical.from_params' if ctor != 'new' else 'Empirical.cdf', f'#{{x_i <= {q!r}}}/n = {e!r}', 'ecdf',
                                 {'ctor': ctor, 'query': q, 'got': c})
                            break
                m_ref = 0.0
                for x in srt:
                    m_ref += x
                m_ref /= len(srt)
                v_ref = 0.0
                for x in srt:
                    v_ref += (x - m_ref) * (x - m_ref)
                v_ref /= len(srt)
                if not (abs(vals[nq] - m_ref) <= 1e-12 * max(1.0, abs(m_ref)) and abs(vals[nq + 1] - v_ref) <= 1e-12 * max(1.0, abs(v_ref))):
                    fail('Empirical.from_params' if ctor != 'new' else 'Empirical.mean', f'mean {m_ref!r}, variance {v_ref!r}', 'moments', {'ctor': ctor})
                if (vals[nq + 2], vals[nq + 3]) != (srt[0], srt[-1]):
                    fail('Empirical.from_params' if ctor != 'new' else 'Empirical.new', f'range ({srt[0]!r}, {srt[-1]!r})', 'range', {'ctor': ctor})
        elif k == 'emp.draws':
            ctor, es, ref_idx = mt
            if ctor != 'new' and a != impl[ref_idx]:
                fail('Empirical.from_params', 'the draws of Empirical::new(xs) under the same generator: ' + impl[ref_idx][:300], 'draws', {'ctor': ctor})
            if any(v not in es for v in vals):
                fail('Empirical.draw', 'an observation of the sample', 'draw_support', {'ctor': ctor})
        elif k == 'ks2sym':
            a_, b_, mode, alt, partner = mt
            sizes = (len(a_), len(b_))
            info = {'unequal': sizes[0] != sizes[1], 'mode': mode, 'alt': alt, 'sizes': sizes,
                    'ties': len(set(a_)) < len(a_) or len(set(b_)) < len(b_) or bool(set(a_) & set(b_))}
            if partner is not None:
                okp, dp = cmp_tokens(a, impl[partner], 1e-12, 1e-15)
                if not okp:
                    fail('ks_two_sample', 'ks_two_sample(xs, ys, Less) = ks_two_sample(ys, xs, Greater) (two-sided: either order); the swapped call '
                         + lines[partner][:40] + '… gave ' + impl[partner], 'symmetry', info)
            hodges(vals, sizes, mode, alt, info)
        elif k == 'empirical.cdf':
            e = tok_to_float(o) if o.startswith('x') else None
            es, x = mt
            if e is not None and not (abs(vals[0] - e) <= 1e-15):
                fail('Empirical.cdf', f'#{{x_i <= x}}/n = {e!r}', 'value', {'at_sample_point': x in es})
        elif k == 'x2_test':
            e = tok_to_float(o) if o.startswith('x') else None
            if e is not None and not (abs(vals[0] - e) <= 1e-9 * max(1.0, abs(e))):
                fail('x2_test', f'Pearson statistic {e!r}', 'statistic')
            if not (0.0 <= vals[1] <= 1.0):
                fail('x2_test', 'p-value in [0,1]', 'pvalue_range')
        elif k == 'mardia':
            if len(vals) == 2 and not all(0.0 <= v <= 1.0 for v in vals):
                fail('mardia', 'p-values in [0,1]', 'pvalue_range')
    return {'obligations': list(obligations.values()), 'failures': failures,
            'stats': {'evaluations': len(lines), 'distinct_nontrivial': len(set(lines))}, 'samples': [lines[0][:200], lines[2][:200]]}


INPUT_CLASSES = {
    'ks_left_limit_only': lambda f_: f_.get('true') is not None and f_.get('stat') is not None and f_['stat'] <= f_['true'] + 1e-12,
    'at_sample_point': lambda f_: bool(f_.get('at_sample_point')),
    'exact_unequal_sizes': lambda f_: bool(f_.get('unequal')) and f_.get('mode') in ('exact', 'auto'),
    'ties_asymptotic': lambda f_: bool(f_.get('ties')),
}
