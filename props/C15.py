"""C15 — the multivariate Gaussian family is correct in every dimension.

Theorems: Props/C15A.lean (MvGaussian, MvGaussianSuffStat), Props/C15B.lean (InvWishart, NormalInvWishart conjugacy) over
`Matrix (Fin d) (Fin d) ℝ` for arbitrary d, bridged to the executable list model Hand/Mvg.lean (`exec_*` theorems).
Correspondence: props/cases_c15.py runs the real code (harness/src/manual_c15.rs) and the model on the same lines
(d = 1..8, condition numbers 1..1e8, n = 0..60, malformed input stream, setter histories), and checks the implementation
against the statement itself (Σ ln_f, chain rule, Bayes' rule, sequential = batch, moments of draws).
"""
import os
from checklib import core

ID = 'C15'
LEAN_DEPS = ['RvModel.Hand.Mvg', 'RvModel.Lemmas.C15', 'RvModel.Props.C15A', 'RvModel.Props.C15B', 'RvModel.Hand.DispatchAll']
TRUSTED = ['hand model Hand/Mvg.lean of dist/mvg.rs, data/stat/mvg.rs, dist/wishart.rs, dist/niw.rs, dist/niw/mvg_prior.rs (tied by the '
           'correspondence run props/cases_c15.py; lnmv_gamma is the generated Gen.lnmv_gamma)',
           "nalgebra's Cholesky / Cholesky::inverse establish L lower-triangular with positive diagonal, L Lᵀ = Σ, Σ⁻¹Σ = 1 "
           '(hypothesis AMvg.Valid of the abstract theorems; the list algorithms of the model are compared with nalgebra through mat.* ops)',
           'normalisation of the inverse-Wishart density (ln_m as an integral) is not proved; niw_bayes is the log-density identity at every θ',
           'laws of draw (MvGaussian, InvWishart, NIW): algebra z ↦ μ + L z proved, the law of z and the Wishart construction are checked '
           'statistically only']
ASSUMPTIONS = ['covariance / scale symmetric positive definite, df >= d, k > 0 (checked constructors)',
               'binary64 answers are compared with the model within 1e-9·cond relative']
N_GEN = {'quick': 0, 'thorough': 0}
# finding name printed by cases_c15.py -> (site, input class)
KNOWN = {'cov_nan_upper_accepted': ('MvGaussian.new', 'upper_triangle'),
         'iw_ln_f_inaccurate_d3': ('InvWishart.ln_f', 'ill_conditioned_d34'),
         'iw_ln_f_inaccurate_d4': ('InvWishart.ln_f', 'ill_conditioned_d34')}


def gen_ops(man):
    return []


def _cases():
    try:
        from props import cases_c15
        return cases_c15
    except Exception:
        import importlib.util
        spec = importlib.util.spec_from_file_location('cases_c15', os.path.join(os.path.dirname(__file__), 'cases_c15.py'))
        mod = importlib.util.module_from_spec(spec)
        spec.loader.exec_module(mod)
        return mod


def extra_run(man, tier, seed):
    """library call cases_c15.run(tier, seed): every correspondence mismatch is stored as a concrete (line, impl, model) case,
    every finding outside KNOWN (failed_set_cov_mutates, failed_set_mu_mutates, forget_to_1_wrong, forget_to_0_wrong,
    new_cholesky_cov_ne_sigma, new_cholesky_unchecked_ne_checked, params_roundtrip_ne, niw_draw_mean_scale, iw_sample_ne_draws, iw_sample_mean, ln_f_stat_ne_sum,
    chain_rule, bayes_rule, sequential_ne_batch, ln_m_empty_not_zero, draw_moments, niw_accepts_nan_k, ln_f_stat_empty_not_zero)
    as a failure with its input"""
    try:
        r = _cases().run(tier, seed + 15, n=(12 if tier == 'quick' else 150), harness=core.harness_path(), driver=core.driver_path())
        err = ''
    except Exception as e:          # a crashed run is a failed obligation, not a silent pass
        r = {'cases': 0, 'mismatches': [], 'findings': {}, 'samples': [], 'counts': {}}
        err = ' run failed: %r' % (e,)
    ncases, mism = r['cases'], r['mismatches']
    # one stored case per distinct op first (so that several regressions at once all show up), then the rest
    seen, first, rest = set(), [], []
    for line, a, b in mism:
        op = line.split()[0]
        (rest if op in seen else first).append({'line': line[:3000], 'impl': a[:1200], 'model': b[:1200]})
        seen.add(op)
    obligations = [{'name': 'corr:MvGaussianFamily(hand model)', 'kind': 'corr', 'ok': (not mism) and ncases > 0 and not err,
                    'site': 'MvGaussian',
                    'detail': ('%d cases, %d mismatches%s' % (ncases, len(mism), err))
                              + ''.join('\n  %s | impl %s | model %s' % (c['line'][:300], c['impl'][:160], c['model'][:160]) for c in first[:4]),
                    'cases': (first + rest)[:6]}]
    failures = []
    for name, cs in sorted(r['findings'].items()):
        site, cls = KNOWN.get(name, ('MvGaussianFamily.' + name, name))
        for c in cs[:5]:
            failures.append({'site': site, 'case': c[:3000], 'impl': '', 'expected': f'no `{name}`', 'observed': name, 'detail': name, 'cls': cls})
    samples = list(r.get('samples', []))[:4] + ['counts: %r' % (r.get('counts'),)]
    return {'obligations': obligations, 'failures': failures, 'stats': {'evaluations': ncases, 'distinct_nontrivial': ncases}, 'samples': samples}


INPUT_CLASSES = {c: (lambda f, c=c: f.get('cls') == c) for c in ('nan_k', 'empty_stat', 'upper_triangle', 'ill_conditioned_d34')}
