"""C15 — the multivariate Gaussian family is correct in every dimension.

Theorems: Props/C15A.lean (MvGaussian, MvGaussianSuffStat), Props/C15B.lean (InvWishart, NormalInvWishart conjugacy) over
`Matrix (Fin d) (Fin d) ℝ` for arbitrary d, bridged to the executable list model Hand/Mvg.lean (`exec_*` theorems).
Correspondence: props/cases_c15.py runs the real code (harness/src/manual_c15.rs) and the model on the same lines
(d = 1..8, condition numbers 1..1e8, n = 0..60, malformed input stream, setter histories), and checks the implementation
against the statement itself (Σ ln_f, chain rule, Bayes' rule, sequential = batch, moments of draws).
"""
import os, re, subprocess, sys
from checklib import core

ID = 'C15'
LEAN_DEPS = ['RvModel.Hand.Mvg', 'RvModel.Lemmas.C15', 'RvModel.Props.C15A', 'RvModel.Props.C15B', 'RvModel.Hand.DispatchAll']
TRUSTED = ['hand model Hand/Mvg.lean of dist/mvg.rs, data/stat/mvg.rs, dist/wishart.rs, dist/niw.rs, dist/niw/mvg_prior.rs (tied by the '
           'correspondence run props/cases_c15.py; lnmv_gamma is the generated Gen.lnmv_gamma)',
           "nalgebra's Cholesky / Cholesky::inverse establish L lower-triangular with positive diagonal, L Lᵀ = Σ, Σ⁻¹Σ = 1 "
           '(hypothesis AMvg.Valid of the abstract theorems; the list algorithms of the model are compared with nalgebra through mat.* ops)',
           'normalisation of the inverse-Wishart density (ln_m as an integral) is not proved; niw_bayes is the log-density identity at every θ',
           'laws of draw (MvGaussian, InvWishart, NIW): algebra z ↦ μ + L z proved, the law of z and the Wishart construction are checked '
           'statistically only']
ASSUMPTIONS = ['covariance / scale symmetric positive definite, df >= d, k > 0 (checked constructors)',
               'binary64 answers are compared with the model within 1e-9·cond relative']
N_GEN = {'quick': 0, 'thorough': 0}
# finding name printed by cases_c15.py -> (site, input class)
KNOWN = {'cov_nan_upper_accepted': ('MvGaussian.new', 'upper_triangle'),
         'iw_ln_f_inaccurate_d3': ('InvWishart.ln_f', 'ill_conditioned_d34'),
         'iw_ln_f_inaccurate_d4': ('InvWishart.ln_f', 'ill_conditioned_d34')}


def gen_ops(man):
    return []


def extra_run(man, tier, seed):
    n = 12 if tier == 'quick' else 150
    script = os.path.join(os.path.dirname(__file__), 'cases_c15.py')
    p = subprocess.run([sys.executable, script, core.harness_path(), core.driver_path(), str(seed + 15), str(n)],
                       capture_output=True, text=True, timeout=3000)
    out = p.stdout
    m = re.search(r'cases: (\d+)', out)
    ncases = int(m.group(1)) if m else 0
    m = re.search(r'mismatches beyond tolerance: (\d+)', out)
    nmis = int(m.group(1)) if m else -1
    lines = out.split('\n')
    mis_cases = []
    for i, l in enumerate(lines):
        if 'MISMATCH' in l and i + 3 < len(lines):
            mis_cases.append({'line': lines[i + 1].strip()[:3000], 'impl': lines[i + 2].strip()[:600], 'model': lines[i + 3].strip()[:600]})
    obligations = [{'name': 'corr:MvGaussianFamily(hand model)', 'kind': 'corr', 'ok': nmis == 0 and ncases > 0, 'site': 'MvGaussian',
                    'detail': ('%d cases, %d mismatches' % (ncases, nmis)) + ('' if p.returncode == 0 else ' rc=%d %s' % (p.returncode, p.stderr[-300:])),
                    'cases': mis_cases[:3]}]
    failures = []
    cur = None
    for l in lines:
        mm = re.match(r'finding (\w+) (\d+)', l)
        if mm:
            cur = mm.group(1)
            continue
        if cur and l.startswith('    ') and l.strip():
            site, cls = KNOWN.get(cur, ('MvGaussianFamily.' + cur, cur))
            failures.append({'site': site, 'case': l.strip()[:3000], 'impl': '', 'expected': f'no `{cur}`', 'observed': cur, 'detail': cur, 'cls': cls})
        elif not l.startswith('    '):
            cur = None
    samples = [l.strip()[:200] for l in lines if l.startswith('cases:') or l.startswith('      d=')][:6]
    return {'obligations': obligations, 'failures': failures, 'stats': {'evaluations': ncases, 'distinct_nontrivial': ncases}, 'samples': samples}


INPUT_CLASSES = {c: (lambda f, c=c: f.get('cls') == c) for c in ('nan_k', 'empty_stat', 'upper_triangle', 'ill_conditioned_d34')}
