"""C18 — serialisation and parameter extraction round-trip without changing behaviour."""
import random
from checklib import gen
from checklib.core import enc, run_pair

ID = 'C18'
LEAN_DEPS = ['RvModel.Hand.CacheSM']
TRUSTED = ['serde fact extraction (rs2lean/facts.py: skip / default / rename_all / proxies per field) and the record model of serde derive',
           'serde, serde_json, serde_yaml crates']
ASSUMPTIONS = ['types covered at run time: the 29 parameterised distributions with a public constructor and getters; Mixture, MvGaussian, '
               'kernels and processes are covered by the fact theorems only']
N_GEN = {'quick': 0, 'thorough': 0}


def gen_ops(man):
    return []


def extra_run(man, tier, seed):
    rng = random.Random(seed * 47 + 8)
    n = 25 if tier == 'quick' else 600
    structs = man['structs']
    lines, meta = [], []
    for tname, sm in sorted(man.get('serde', {}).items()):
        for _ in range(n):
            pv = gen.struct_value(tname, structs, rng)
            warm = rng.random() < 0.5
            xs = [rng.choice([0.3, 0.7, 0.123456789, 0.5]), rng.uniform(0.01, 0.99)]
            ns = [rng.randint(0, 1), rng.randint(0, 6)] if tname != 'Bernoulli' else [0, 1]
            lines.append(f'serde.{tname} - {enc(pv)} {enc(warm)} F {enc(xs)} {enc(ns)}')
            meta.append((tname, sm))
    impl, _ = run_pair(lines, want_model=False)
    failures = []
    facts = man.get('facts', {})
    for line, (tname, sm), a in zip(lines, meta, impl):
        site = f'{tname}'
        if a in ('PANIC', 'HANG', 'NOOP', 'DIED'):
            failures.append({'site': site, 'case': line, 'impl': a, 'expected': 'round trip succeeds', 'observed': a.lower(), 'detail': ''})
            continue
        parts = [p.strip() for p in a.split('|')]
        keys = sorted(k for k in parts[0][2:].split(',') if k)
        want = sorted(sm['params'])
        want_nonderived = sorted(p for p in sm['params'] if p not in sm['derived'])
        if keys != want_nonderived:
            failures.append({'site': site, 'case': line, 'impl': ','.join(keys), 'expected': 'keys = parameters only: ' + ','.join(want_nonderived),
                             'observed': 'keys', 'detail': 'serialised field names'})
        if parts[1] != 'T T':
            failures.append({'site': site, 'case': line, 'impl': parts[1], 'expected': 'deserialised == original (JSON, YAML)', 'observed': 'neq', 'detail': ''})
        if not (parts[2] == parts[3] == parts[4]):
            failures.append({'site': site, 'case': line, 'impl': f'{parts[2][:80]} / {parts[3][:80]} / {parts[4][:80]}',
                             'expected': 'bit-identical queries after JSON and YAML round trips', 'observed': 'query', 'detail': ''})
        if parts[5] != parts[2]:
            failures.append({'site': site, 'case': line, 'impl': parts[5][:120], 'expected': 'sequence-format round trip gives the same queries',
                             'observed': 'seq', 'detail': ''})
    # ---- types the generated runners do not reach (generic structs, nalgebra fields, kernels, processes, statistics built by
    # observe): harness ops serde2.<T> (harness/src/manual_c18.rs)
    T2 = ['StickSequence', 'VonMises', 'Categorical', 'Dirichlet', 'DiscreteUniform', 'MixtureGaussian', 'MvGaussian', 'InvWishart', 'NormalInvWishart', 'Crp', 'Partition', 'Empirical', 'KsTwoAsymptotic',
          'GaussianSuffStat', 'BernoulliSuffStat', 'CategoricalSuffStat', 'PoissonSuffStat', 'BetaSuffStat', 'InvGammaSuffStat',
          'InvGaussianSuffStat', 'UnitPowerLawSuffStat', 'MvGaussianSuffStat', 'RBFKernel', 'ConstantKernel', 'WhiteKernel',
          'RationalQuadratic', 'ExpSineSquaredKernel', 'MaternKernel', 'SEardKernel', 'AddKernel', 'ProductKernel', 'NoiseModel',
          'GaussianProcess']
    import re as _re

    def snake(v):
        return _re.sub(r'(?<!^)(?=[A-Z])', '_', v).lower()
    allowed = set()
    for tname, f in facts.items():
        allowed |= set(f.get('serialized', []))
    for ename, e in man.get('enums', {}).items():
        if e.get('serde_derive'):
            allowed |= {snake(v) for v in e['variants']}
    allowed.add('s')         # rand_xoshiro's Xoshiro256Plus { s } inside StickSequence (a foreign type's field name)
    allowed.add('chol')      # nalgebra's Cholesky { chol } inside GaussianProcess::k_chol (a foreign type's field name)
    n2 = 6 if tier == 'quick' else 200
    l2, m2 = [], []
    for t in T2:
        for i in range(n2):
            l2.append(f'serde2.{t} - {rng.randrange(1 << 30) * 16 + i}')
            m2.append(t)
    i2, _ = run_pair(l2, want_model=False)
    for line, t, a in zip(l2, m2, i2):
        fname = 'Mixture' if t == 'MixtureGaussian' else t
        if a == 'NOOP':
            continue
        if a in ('PANIC', 'HANG', 'DIED'):
            failures.append({'site': fname, 'case': line, 'impl': a, 'expected': 'round trip succeeds', 'observed': a.lower(), 'detail': ''})
            continue
        parts = [p.strip() for p in a.split('|')]
        keys = [k for k in parts[0][2:].split(',') if k]
        badk = [k for k in keys if k not in allowed]
        if badk:
            failures.append({'site': fname, 'case': line, 'impl': ','.join(keys), 'expected': 'documented snake_case names of fields / variants',
                             'observed': 'keys', 'detail': 'unexpected serialised name(s): ' + ','.join(badk)})
        der = [k for k in keys if k in set(facts.get(fname, {}).get('derived', {}))]
        if der:
            failures.append({'site': fname, 'case': line, 'impl': ','.join(keys), 'expected': 'parameters only', 'observed': 'derived_serialised',
                             'detail': 'derived quantities in the serialised form: ' + ','.join(der)})
        if parts[1] != 'T T':
            failures.append({'site': fname, 'case': line, 'impl': parts[1], 'expected': 'deserialised == original (JSON, YAML)', 'observed': 'neq', 'detail': ''})
        if parts[2] != 'T T' or parts[3] != 'T':
            failures.append({'site': fname, 'case': line, 'impl': parts[2] + ' ' + parts[3], 'expected': 'bit-identical parameters after JSON and YAML round trips',
                             'observed': 'query', 'detail': 'rendering of the deserialised object differs'})
        if len(parts) > 4:
            q = parts[4].split()
            if len(q) >= 2 and len(set(q)) != 1:
                failures.append({'site': fname, 'case': line, 'impl': parts[4], 'expected': 'bit-identical query after the round trip', 'observed': 'query', 'detail': ''})
    # coverage: every type deriving Serialize has a serde fact theorem
    import os, re
    from checklib import core
    src = open(os.path.join(core.LEAN, 'RvModel', 'Props', 'C18A.lean')).read()
    obligations = []
    for tname, f in facts.items():
        if f['serde_derive'] and not re.search(rf'theorem {tname}_serde(_counterexample)?\b', src):
            obligations.append({'name': f'coverage:{tname}_serde', 'kind': 'coverage', 'ok': False, 'site': tname,
                                'detail': 'serialisable type without a serde fact theorem in Props/C18A.lean'})
    return {'obligations': obligations, 'failures': failures, 'stats': {'evaluations': len(lines) + len(l2), 'distinct_nontrivial': len(set(lines)) + len(set(l2)),
                                                                       'types': len(man.get('serde', {}))}, 'samples': lines[:2]}


INPUT_CLASSES = {}
