"""C10 — checked constructors and setters accept exactly the documented domain."""
import random, itertools
from checklib import gen
from checklib.core import enc, run_pair, cmp_tokens
from checklib.gen import parse_ty, SPECIALS

ID = 'C10'
LEAN_DEPS = ['RvModel.ExtInst', 'RvModel.Spec.C10', 'RvModel.Lemmas.C10']
TRUSTED = ['Spec/C10.lean: documented domains transcribed from the rustdoc of each constructor, over the IEEE-special-value carrier X']
ASSUMPTIONS = ['the generated validation ladders are compared with the implementation over the cross product of the special-value alphabet; '
               'theorems quantify over ALL values of X (NaN, +-inf, every real)']
N_GEN = {'quick': 0, 'thorough': 0}
ALPHA = SPECIALS + [0.5, 2.0, 6.283185307179586, 6.283185307179587, 7.0, 3.0, 1e-3]


def gen_ops(man):
    return []


def is_ctor_or_setter(d):
    if d['name'] == 'set_cache_cap':      # not a distribution parameter; documented to panic on 0
        return False
    return d['owner'] and d['file'].startswith('dist/') and d['trait'] is None and (d['name'] == 'new' or (d['name'].startswith('set_') and not d['name'].endswith('_unchecked')))


def extra_run(man, tier, seed):
    rng = random.Random(seed * 43 + 6)
    structs = man['structs']
    skipped = man.get('rust_dispatch_skipped', {})
    cap = 250 if tier == 'quick' else 20000
    lines, meta = [], []
    for lean, d in sorted(man['defs'].items()):
        if not is_ctor_or_setter(d) or lean in skipped:
            continue
        ptys = [parse_ty(t) for t in d['ptys']]
        if not all(t in ('real', 'nat', 'int') or (isinstance(t, tuple) and t[0] == 'list' and t[1] == 'real') for t in ptys):
            continue
        doms = []
        for t in ptys:
            if t == 'real':
                doms.append(ALPHA)
            elif t in ('nat', 'int'):
                doms.append([0, 1, 2, 7, 300])
            else:
                doms.append([[], [0.0], [0.0, 0.0], [0.5, 0.5], [1.0, float('nan')], [-1.0, 2.0], [float('inf'), 1.0], [1.0, 2.0, 3.0], [0.0, 1.0],
                             [-0.0, 1.0, 3.0], [1.0, -0.0], [5e-324, 1.0], [1e300, 1e300]])
        total = 1
        for dd in doms:
            total *= len(dd)
        if total <= cap:
            combos = list(itertools.product(*doms))
        else:
            combos = [tuple(rng.choice(dd) for dd in doms) for _ in range(cap)]
        for combo in combos:
            pre = ''
            if d['has_self']:
                pre = enc(gen.struct_value(d['owner'], structs, rng)) + ' '
            lines.append(f'{lean} - {pre}' + ' '.join(enc(v) for v in combo))
            meta.append(lean)
    impl, model = run_pair(lines)
    obligations = {}
    failures = []
    for line, lean, a, b in zip(lines, meta, impl, model):
        o = obligations.setdefault(lean, {'name': f'corr:{lean}', 'kind': 'corr', 'ok': True, 'site': lean, 'detail': '', 'cases': []})
        if a in ('PANIC', 'HANG'):
            failures.append({'site': lean, 'case': line, 'impl': a, 'expected': 'Ok or Err, never a panic', 'observed': a.lower(), 'detail': ''})
            continue
        if b == 'NOOP' or b.startswith('BAD') or a == 'NOOP':
            continue
        if lean.startswith('VonMises.') and len(a.split()) == 3 and len(b.split()) == 3:
            # the derived field I0(k) overflows for huge k: the Float oracle of the model is not defined there
            a, b = ' '.join(a.split()[:2]), ' '.join(b.split()[:2])
        ok, detail = cmp_tokens(a, b, 1e-12, 0.0)
        if not ok:
            o['ok'] = False
            if len(o['cases']) < 3:
                o['cases'].append({'line': line, 'impl': a, 'model': b})
            o['detail'] = f'{line[:160]} impl={a[:60]} model={b[:60]}'
    # implementation against the documented domain itself (the theorems live on X, which has no subnormal range and no
    # largest finite value): every finite value of the documented domain, down to the smallest subnormal and up to the
    # largest finite number, must be ACCEPTED by the setter of that field and by `new`
    EXT = {'pos': [5e-324, 1e-310, 2.2250738585072014e-308, 1e-300, 1e300, 1.7976931348623157e308],
           'real': [5e-324, -5e-324, 1e-310, -1e-310, 1e300, -1e300, 1.7976931348623157e308, -1.7976931348623157e308, 0.0, -0.0]}
    # fields whose documented domain is not the plain class of gen.DOM: r >= 1 (NegBinomial), a < b (Uniform)
    REL = {('NegBinomial', 'r'), ('Uniform', 'a'), ('Uniform', 'b')}
    alines, ameta = [], []
    for lean, d in sorted(man['defs'].items()):
        if not is_ctor_or_setter(d) or lean in skipped or d['owner'] not in gen.DOM or not isinstance(gen.DOM[d['owner']], dict):
            continue
        dom = gen.DOM[d['owner']]
        fields = [f for f, t in structs[d['owner']]]
        if d['name'].startswith('set_') and len(d['ptys']) == 1 and d['ptys'][0] == 'real':
            fld = d['name'][4:]
            for v in (EXT.get(dom.get(fld), []) if (d['owner'], fld) not in REL else []):
                base = gen.struct_value(d['owner'], structs, rng)
                alines.append(f'{lean} - {enc(base)} {enc(v)}')
                ameta.append((lean, fld, v))
        elif d['name'] == 'new' and all(t == 'real' for t in d['ptys']) and len(d['ptys']) == len(fields):
            for i, fld in enumerate(fields):
                for v in (EXT.get(dom.get(fld), []) if (d['owner'], fld) not in REL else []):
                    base = list(gen.struct_value(d['owner'], structs, rng))
                    if len(base) != len(fields):
                        continue
                    base[i] = v
                    alines.append(f'{lean} - ' + ' '.join(enc(x) for x in base))
                    ameta.append((lean, fld, v))
    # list-valued constructors: weight vectors of the documented domain (entries >= 0 incl. -0.0 and subnormals, finite,
    # at least one positive; Dirichlet: all positive)
    for lean, lists in (('Categorical.new', [[-0.0, 1.0, 3.0], [1.0, -0.0], [0.0, 2.0], [5e-324, 1.0], [1e300, 1e300], [1e-300, 1e-300], [7.0]]),
                        ('Dirichlet.new', [[5e-324, 1.0], [1e300, 2.0], [1e-300], [0.5, 0.5, 0.5]])):
        if lean in man['defs'] and lean not in skipped:
            for ws in lists:
                alines.append(f'{lean} - {enc(ws)}')
                ameta.append((lean, 'weights' if 'Cat' in lean else 'alphas', ws))
    aimpl, _ = run_pair(alines, want_model=False) if alines else ([], None)
    for line, (lean, fld, v), a in zip(alines, ameta, aimpl):
        if a.startswith('E:') or a in ('PANIC', 'HANG'):
            failures.append({'site': lean, 'case': line, 'impl': a, 'expected': f'accepted: {fld} = {v!r} is in the documented domain',
                             'observed': 'rejected_valid' if a.startswith('E:') else a.lower(), 'detail': f'{fld}={v!r}', 'field': fld, 'value': v})
    return {'obligations': list(obligations.values()), 'failures': failures,
            'stats': {'evaluations': len(lines) + len(alines), 'distinct_nontrivial': len(set(lines)) + len(set(alines)),
                      'constructors_and_setters': len(obligations), 'valid_extremes': len(alines)},
            'samples': lines[:3]}
