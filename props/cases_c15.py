#!/usr/bin/env python3
"""C15 correspondence run: real rv MvGaussian / MvGaussianSuffStat / InvWishart / NormalInvWishart (harness ops of
harness/src/manual_c15.rs) vs the hand model Hand.Mvg on Float (driver entries of lean/RvModel/Hand/DispatchC15.lean)
on random cases, plus direct checks of the implementation's answers against the statement of the property
(see props/C15_notes.md).  Two entry points:
  * library:      `from props import cases_c15; r = cases_c15.run(tier, seed)`  ->  dict with the keys
                  cases (int), mismatches (list of (line, impl, model)), findings (dict name -> list of case strings),
                  samples (a few evaluated lines), and the extras worst / errors / accuracy / counts (see `run`);
  * stand-alone:  python3 props/cases_c15.py [<rvharness> <rvdrv> [seed] [n]]      # about 33 lines per unit of n
Pure Python (no numpy)."""
import math, os, random, struct, subprocess, sys, collections

_ROOT = os.path.dirname(os.path.dirname(os.path.abspath(__file__)))
H = os.path.join(_ROOT, 'harness', 'target', 'release', 'rvharness')      # overridden by run(harness=…) / the CLI
D = os.path.join(_ROOT, 'lean', '.lake', 'build', 'bin', 'rvdrv')
N = 100
UNITS = {'quick': 12, 'thorough': 100}      # units per tier (≈ 33 case lines per unit, + draws + probes)
rng = random.Random(15)                     # re-seeded by run()
NAN, INF = float('nan'), float('inf')
DMAX, NMAX = 8, 60
RTOL = 1e-9           # relative tolerance, multiplied by the condition number of the matrices of the case


def fb(x):
    x = float(x)
    if x != x:
        return 'xNaN'
    return 'x%016x' % struct.unpack('<Q', struct.pack('<d', x))[0]


def tf(t):
    if t == 'xNaN':
        return NAN
    return struct.unpack('<d', struct.pack('<Q', int(t[1:], 16)))[0]


def V(xs):
    return ' '.join(['L%d' % len(xs)] + [fb(x) for x in xs])


def M(rows, r=None, c=None):
    r = len(rows) if r is None else r
    c = (len(rows[0]) if rows else 0) if c is None else c
    flat = [x for row in rows for x in row]
    return '%d %d %s' % (r, c, V(flat))


# ------------------------------------------------------------------------------------------- linear algebra (pure python)
def eye(d):
    return [[1.0 if i == j else 0.0 for j in range(d)] for i in range(d)]


def matmul(a, b):
    n, m, p = len(a), len(b), len(b[0]) if b else 0
    return [[math.fsum(a[i][k] * b[k][j] for k in range(m)) for j in range(p)] for i in range(n)]


def transpose(a):
    return [list(r) for r in zip(*a)] if a else []


def rand_rotation(d):
    q = eye(d)
    for _ in range(2 * d):
        for i in range(d):
            for j in range(i + 1, d):
                if rng.random() < 0.6:
                    t = rng.uniform(0, 2 * math.pi)
                    c, s = math.cos(t), math.sin(t)
                    for k in range(d):
                        a, b = q[k][i], q[k][j]
                        q[k][i], q[k][j] = c * a - s * b, s * a + c * b
    return q


def spd(d, cond=None, scale=None, eig=None):
    """Q D Qᵀ with eigenvalues log-uniform in [scale, scale*cond]; returns (matrix, cond)"""
    if cond is None:
        cond = 10 ** rng.choice([0, 0, 1, 2, 3, 4, 6, 8]) * (1.0 if rng.random() < 0.3 else rng.uniform(0.3, 1.0))
        cond = max(cond, 1.0)
    if scale is None:
        scale = 10 ** rng.uniform(-3, 3) if rng.random() < 0.5 else 1.0
    if eig is None:
        eig = [scale * cond ** rng.random() for _ in range(d)]
        if d >= 2:
            eig[0], eig[-1] = scale, scale * cond
        elif d == 1:
            cond = 1.0
    q = rand_rotation(d)
    qd = [[q[i][k] * eig[k] for k in range(d)] for i in range(d)]
    a = matmul(qd, transpose(q))
    a = [[0.5 * (a[i][j] + a[j][i]) for j in range(d)] for i in range(d)]
    return a, cond


def gvec(d, s=1.0):
    return [rng.gauss(0, s) for _ in range(d)]


def chol(a):
    d = len(a)
    l = [[0.0] * d for _ in range(d)]
    for i in range(d):
        for j in range(i + 1):
            s = a[i][j] - math.fsum(l[i][k] * l[j][k] for k in range(j))
            if i == j:
                if not s > 0:
                    return None
                l[i][j] = math.sqrt(s)
            else:
                l[i][j] = s / l[j][j]
    return l


def sample_from(mu, cov, n):
    l = chol(cov)
    d = len(mu)
    out = []
    for _ in range(n):
        z = gvec(d)
        out.append([mu[i] + math.fsum(l[i][j] * z[j] for j in range(i + 1)) for i in range(d)])
    return out


def exact_det_inv(m):
    """exact rational determinant and inverse of a float matrix (Gauss-Jordan over Fraction)"""
    from fractions import Fraction as Fr
    n = len(m)
    a = [[Fr(x) for x in r] + [Fr(int(i == j)) for j in range(n)] for i, r in enumerate(m)]
    d = Fr(1)
    for c in range(n):
        p = next((r for r in range(c, n) if a[r][c] != 0), None)
        if p is None:
            return Fr(0), None
        if p != c:
            a[c], a[p] = a[p], a[c]
            d = -d
        pv = a[c][c]
        d *= pv
        a[c] = [x / pv for x in a[c]]
        for r in range(n):
            if r != c and a[r][c] != 0:
                f = a[r][c]
                a[r] = [x - f * y for x, y in zip(a[r], a[c])]
    return d, [r[n:] for r in a]


def iw_ln_f_ref(scale, df, x):
    """inverse-Wishart log-density from exact determinant / inverse (reference for the implementation)"""
    from fractions import Fraction as Fr
    p = len(scale)
    ds, _ = exact_det_inv(scale)
    dx, xi = exact_det_inv(x)
    tr = sum(sum(Fr(scale[i][k]) * xi[k][i] for k in range(p)) for i in range(p))
    lnmv = p * (p - 1) / 4 * math.log(math.pi) + sum(math.lgamma(df / 2 + (1 - j) / 2) for j in range(1, p + 1))
    ln = lambda q: math.log(q.numerator) - math.log(q.denominator)
    return df * 0.5 * ln(ds) - (math.log(2) * df * p * 0.5 + lnmv) - (df + p + 1) * 0.5 * ln(dx) - 0.5 * float(tr)


# ------------------------------------------------------------------------------------------- running both programs
def pipe(prog, lines):
    p = subprocess.run([prog], input='\n'.join(lines) + '\n', capture_output=True, text=True, timeout=3000)
    out = p.stdout.split('\n')
    if out and out[-1] == '':
        out.pop()
    if len(out) != len(lines):
        raise RuntimeError('%s answered %d lines for %d requests: %s' % (prog, len(out), len(lines), p.stderr[-300:]))
    return out


def parse(ans):
    """answer -> list of ('f', float) | ('s', str)"""
    out = []
    for t in ans.split():
        if t == 'xNaN' or (t.startswith('x') and len(t) == 17):
            out.append(('f', tf(t)))
        else:
            out.append(('s', t))
    return out


def floats(ans):
    return [v for k, v in parse(ans) if k == 'f']


def close(a, b, tol_rel, mag):
    if a != a or b != b:
        return (a != a) and (b != b)
    if math.isinf(a) or math.isinf(b):
        return a == b
    return abs(a - b) <= tol_rel * max(mag, abs(a), abs(b))


def compare(ans_i, ans_m, cond, mag=1.0):
    """structural tokens exact, floats within RTOL·cond relative to max(mag, |values of the answer|); returns worst ratio or None"""
    pi, pm = parse(ans_i), parse(ans_m)
    if len(pi) != len(pm):
        return None
    fl = [abs(v) for k, v in pi + pm if k == 'f' and v == v and not math.isinf(v)]
    m = max([mag] + fl) or 1.0
    worst = 0.0
    for (ki, vi), (km, vm) in zip(pi, pm):
        if ki != km:
            return None
        if ki == 's':
            if vi != vm:
                return None
        else:
            if not close(vi, vm, RTOL * cond, m):
                return None
            if vi == vi and not math.isinf(vi):
                worst = max(worst, abs(vi - vm) / (m * cond))
    return worst


# ------------------------------------------------------------------------------------------- case generation
cases = []          # (line, cond, mag, tag)


def add(line, cond=1.0, mag=1.0, tag=''):
    cases.append((line, cond, mag, tag))


def niw_tokens(mu, k, df, scale):
    return '%s %s %d %s' % (V(mu), fb(k), df, M(scale))


def gen_unit(u):
    d = 1 + (u % DMAX)
    cov, cond = spd(d)
    mu = gvec(d, 10.0 if rng.random() < 0.5 else 1.0)
    sc = math.sqrt(max(abs(cov[i][i]) for i in range(d)))
    x = [m + sc * rng.gauss(0, 1.5) for m in mu]
    n = rng.choice([0, 1, 2, 3, 5, 10, 20, 40, NMAX]) if rng.random() < 0.7 else rng.randrange(0, NMAX + 1)
    data = sample_from(mu, cov, n) if rng.random() < 0.7 else [[m + rng.gauss(0, 3 * sc) for m in mu] for _ in range(n)]
    dm = max([1.0] + [abs(v) for r in data for v in r])
    quad = 1.0 + sum((a - b) ** 2 for a, b in zip(x, mu)) / min(cov[i][i] for i in range(d))
    add('mvg.new - %s %s' % (V(mu), M(cov)), tag='valid')
    add('mvg.mean_variance - %s %s' % (V(mu), M(cov)))
    add('mvg.ln_f - %s %s %s' % (V(mu), M(cov), V(x)), cond, quad)
    add('mvg.entropy - %s %s' % (V(mu), M(cov)), cond)
    add('mvg.ln_f_stat - %s %s %s' % (V(mu), M(cov), M(data, n, d)), cond, 1.0 + n * quad, tag='lnfstat n=%d' % n)
    # history: set_cov to another SPD matrix / to a malformed one
    cov2, cond2 = spd(d)
    add('mvg.set_cov_then_ln_f - %s %s %s %s' % (V(mu), M(cov), M(cov2), V(x)), max(cond, cond2), quad * max(1.0, cond), tag='history')
    bad = bad_cov(d)
    add('mvg.set_cov_then_ln_f - %s %s %s %s' % (V(mu), M(cov), bad, V(x)), cond, quad, tag='history-bad')
    # a set_cov that passes the shape tests and fails in the Cholesky (indefinite matrix of the right size): the object must not change
    eig = [rng.uniform(0.5, 2.0) for _ in range(d)]
    eig[rng.randrange(d)] = -rng.uniform(0.5, 2.0)
    indef = spd(d, eig=eig)[0] if d > 1 or rng.random() < 0.5 else [[-1.0]]
    if d == 2 and rng.random() < 0.3:
        indef = [[1.0, 2.0], [2.0, 1.0]]
    add('mvg.set_cov_then_ln_f - %s %s %s %s' % (V(mu), M(cov), M(indef), V(x)), cond, quad, tag=('setfail', cov))
    # Cholesky constructors and the parameter round trip
    add('mvg.from_chol - %s %s %s' % (V(mu), M(cov), V(x)), cond, quad, tag=('fromchol', cov, cond))
    if rng.random() < 0.15:
        add('mvg.from_chol - %s %s %s' % (V(gvec(d + 1)), M(cov), V(x)), cond, quad)
    mu2 = gvec(d if rng.random() < 0.6 else max(0, d + rng.choice([-1, 1, 2])))
    add('mvg.set_mu - %s %s %s' % (V(mu), M(cov), V(mu2)), tag=('setmu', mu, cov, mu2))
    # statistic
    k = rng.randrange(0, n + 1) if n else 0
    idx = rng.sample(range(n), k) if n else []
    if rng.random() < 0.25:
        idx = list(range(n))
        rng.shuffle(idx)
    add('mvgstat.observe_forget - %s %s' % (M(data, n, d), ' '.join(['L%d' % len(idx)] + [str(i) for i in idx])), 1.0, n * dm * dm, tag='stat')
    if n >= 2:      # forget down to exactly ONE remaining observation, and down to none (the two branches of `forget`)
        order = list(range(n))
        rng.shuffle(order)
        for keep in (1, 0):
            idx = order[:n - keep]
            add('mvgstat.observe_forget - %s %s' % (M(data, n, d), ' '.join(['L%d' % len(idx)] + [str(i) for i in idx])), 1.0, n * dm * dm,
                tag=('forget_to', keep, [data[i] for i in order[n - keep:]]))
    # inverse Wishart
    scale, cs = spd(d)
    df = d + rng.choice([0, 0, 1, 2, 3, 10, 50])
    xm, cx = spd(d)
    add('iw.new - %s %d' % (M(scale), df))
    add('iw.ln_f - %s %d %s' % (M(scale), df, M(xm)), max(cs, cx) , 1.0 + df * (1.0 + abs(math.log(cs)) + abs(math.log(cx))) + tr_ratio(scale, xm),
        tag=('iwref', scale, df, xm))
    # the nalgebra routines behind the model's linear algebra
    add('mat.det - %s' % M(xm), cx, 1.0, tag='mat')
    add('mat.inverse - %s' % M(xm), cx * cx, 1.0, tag='mat')
    add('mat.chol - %s' % M(xm), 1.0, 1.0, tag='mat')
    add('mat.chol_inverse - %s' % M(xm), cx, 1.0, tag='mat')
    add('mat.chol - %s' % bad_cov(d), 1.0, 1.0, tag='mat')
    add('iw.mean - %s %d' % (M(scale), df))
    add('iw.mode - %s %d' % (M(scale), df))
    # NIW
    kk = 10 ** rng.uniform(-2, 2)
    niw = niw_tokens(mu2 if len(mu2) == d else mu, kk, df, scale)
    add('niw.new - %s' % niw)
    gm = [m + rng.gauss(0, sc) for m in mu]
    add('niw.ln_f - %s %s %s' % (niw, V(gm), M(cov)), max(cs, cond), 1.0 + kk * quad * cond + df * (1 + abs(math.log(cs)) + abs(math.log(cond))) + tr_ratio(scale, cov))
    for arm in 'DQ':
        add('niw.posterior - %s %s %s' % (niw, arm, M(data, n, d)), 1.0, 1e3 * (1.0 + n * dm * dm), tag='post')
        add('niw.ln_m - %s %s %s' % (niw, arm, M(data, n, d)), cs, 1.0 + (df + n) * (1 + abs(math.log(cs))), tag='lnm n=%d' % n)
    y = [m + rng.gauss(0, 2 * sc) for m in mu]
    add('niw.ln_pp - %s %s %s %s' % (niw, V(y), rng.choice('DQ'), M(data, n, d)), cs, 1.0 + (df + n) * (1 + abs(math.log(cs))), tag='lnpp')
    # malformed inputs
    add('mvg.new - %s %s' % (V(mu), bad), tag='bad')
    add('mvg.new - %s %s' % (V(gvec(d + rng.choice([-1, 1, 3]) if d > 1 or rng.random() < 0.5 else 2)), M(cov)), tag='bad')
    add('mvg.ln_f - %s %s %s' % (V(mu), bad, V(x)), cond, quad, tag='bad')
    add('iw.new - %s %d' % (bad_scale(d), rng.randrange(0, d + 2)), tag='bad')
    add('iw.new - %s %d' % (M(scale), rng.randrange(0, d)), tag='bad')
    add('niw.new - %s' % bad_niw(d, mu, scale), tag='bad')
    add('niw.new - %s' % bad_niw(d, mu, scale), tag='bad')
    # inputs on which nalgebra / an unwrap panics (dimension assertions, singular matrix)
    r = rng.random()
    d2 = d + rng.choice([1, 2]) if d == 1 or rng.random() < 0.5 else d - 1
    if r < 0.2:
        add('mvg.ln_f - %s %s %s' % (V(mu), M(cov), V(gvec(d2))), tag='panic')
    elif r < 0.4:
        sing = [[1.0] * d for _ in range(d)] if d > 1 and rng.random() < 0.6 else [[0.0] * d for _ in range(d)]
        add('iw.ln_f - %s %d %s' % (M(scale), df, M(sing)), tag='panic')
    elif r < 0.55:
        add('iw.ln_f - %s %d %s' % (M(scale), df, M(spd(d2)[0])), tag='panic')
    elif r < 0.7:
        add('niw.ln_f - %s %s %s' % (niw_tokens(mu, kk, df, scale), V(gvec(d2)), M(spd(d2)[0])), tag='panic')
    elif r < 0.85 and n > 0:
        bad_data = [gvec(d2) for _ in range(n)]
        add('niw.posterior - %s %s %s' % (niw_tokens(mu, kk, df, scale), rng.choice('DQ'), M(bad_data, n, d2)), tag='panic')
    elif n > 0:
        add('mvg.ln_f_stat - %s %s %s' % (V(mu), M(cov), M([gvec(d2) for _ in range(n)], n, d2)), tag='panic')


def tr_ratio(a, b):
    return sum(abs(a[i][i]) for i in range(len(a))) / min(abs(b[i][i]) for i in range(len(b))) * len(a)


def bad_cov(d):
    r = rng.random()
    if r < 0.2:          # non-square
        rr, cc = rng.choice([(d, d + 1), (d + 1, d), (d, max(1, d - 1) if d > 1 else 2), (d + 2, d)])
        return M([[rng.gauss(0, 1) for _ in range(cc)] for _ in range(rr)], rr, cc)
    if r < 0.4:          # square of another dimension
        dd = d + rng.choice([1, 2]) if d == 1 or rng.random() < 0.5 else d - 1
        return M(spd(dd)[0])
    if r < 0.65:         # indefinite: one clearly negative eigenvalue
        eig = [rng.uniform(0.5, 2.0) for _ in range(d)]
        eig[rng.randrange(d)] = -rng.uniform(0.1, 2.0)
        return M(spd(d, eig=eig)[0])
    if r < 0.75:         # exactly singular with exact arithmetic: all ones / zeros
        return M([[1.0] * d for _ in range(d)]) if d > 1 and rng.random() < 0.6 else M([[0.0] * d for _ in range(d)])
    a = spd(d, cond=10.0, scale=1.0)[0]
    if r < 0.85:         # NaN / inf in the part that IS read (lower triangle incl. diagonal)
        i = rng.randrange(d)
        j = rng.randrange(i + 1)
        a[i][j] = rng.choice([NAN, -INF, NAN])
        return M(a)
    if r < 0.93 and d > 1:   # NaN in the strict upper triangle: never read by the Cholesky -> accepted
        i = rng.randrange(d - 1)
        j = rng.randrange(i + 1, d)
        a[i][j] = NAN
        return M(a)
    # asymmetric: upper triangle replaced by noise (only the lower triangle is read)
    for i in range(d):
        for j in range(i + 1, d):
            a[i][j] = rng.gauss(0, 5)
    return M(a)


def bad_scale(d):
    r = rng.random()
    if r < 0.6:
        rr, cc = rng.choice([(d, d + 1), (d + 1, d), (d + 2, d)])
        return M([[rng.gauss(0, 1) for _ in range(cc)] for _ in range(rr)], rr, cc)
    return M(spd(d)[0])


def bad_niw(d, mu, scale):
    r = rng.random()
    k = 10 ** rng.uniform(-2, 2)
    df = d + rng.randrange(0, 4)
    if r < 0.3:
        k = rng.choice([0.0, -0.0, -1.0, -1e-300, NAN, -INF, INF, 5e-324])
    elif r < 0.5:
        df = rng.randrange(0, d)
    elif r < 0.7:
        rr, cc = rng.choice([(d, d + 1), (d + 1, d)])
        return '%s %s %d %s' % (V(mu), fb(k), df, M([[rng.gauss(0, 1) for _ in range(cc)] for _ in range(rr)], rr, cc))
    elif r < 0.85:
        dd = d + 1
        return '%s %s %d %s' % (V(mu), fb(k), df + 1, M(spd(dd)[0]))
    else:    # several violations at once: the ladder order decides
        k = rng.choice([0.0, NAN, -2.0, 1.0])
        df = rng.randrange(0, d + 1)
        rr, cc = rng.choice([(d, d + 1), (d + 1, d + 1), (d, d)])
        return '%s %s %d %s' % (V(mu), fb(k), df, M([[rng.gauss(0, 1) for _ in range(cc)] for _ in range(rr)], rr, cc))
    return niw_tokens(mu, k, df, scale)


def run(tier='quick', seed=15, n=None, harness=None, driver=None):
    """one correspondence run; returns
         {'cases': int, 'mismatches': [(line, impl, model)], 'findings': {name: [case strings]}, 'samples': [str],
          'worst': {op: worst |impl-model|/(magnitude·cond)}, 'errors': {"<op> <E:…|PANIC>": count},
          'accuracy': {(d, log10 cond): worst relative error of the implementation's InvWishart::ln_f vs exact},
          'counts': {'corr': …, 'draws': …, 'probes': …, 'statistical': …}}
       `tier` selects the number of units (UNITS) unless `n` is given; `harness` / `driver` default to the /verif binaries."""
    global rng, cases, N, H, D
    rng = random.Random(seed)
    cases = []
    N = int(n) if n is not None else UNITS.get(tier, UNITS['quick'])
    if harness:
        H = harness
    if driver:
        D = driver
    for u in range(N):
        gen_unit(u)
    lines = [c[0] for c in cases]
    oi = pipe(H, lines)
    om = pipe(D, lines)
    mism, worst = [], collections.defaultdict(float)
    errs = collections.Counter()
    for (line, cond, mag, tag), a, b in zip(cases, oi, om):
        op = line.split()[0]
        w = compare(a, b, cond, mag)
        if a.startswith('E') or a == 'PANIC':
            errs[op + ' ' + a.split()[0]] += 1
        if w is None:
            mism.append((line, a, b, cond))
        else:
            worst[op] = max(worst[op], w)
    # ------------------------------------------------------------------ draws: z recovered from the implementation, replayed in the model
    dl, dinfo = [], []
    for u in range(max(8, N // 2)):
        d = 1 + (u % DMAX)
        cov, cond = spd(d)
        mu = gvec(d, 5.0)
        dl.append('mvg.draw_with_z - %s %s %d' % (V(mu), M(cov), rng.randrange(1 << 62)))
        dinfo.append((mu, cov, cond, d))
    di = pipe(H, dl)
    ml = []
    for (mu, cov, cond, d), a in zip(dinfo, di):
        fl = floats(a)
        z, x = fl[:d], fl[d:]
        ml.append('mvg.draw_z - %s %s %s' % (V(mu), M(cov), V(z)))
    dm_ = pipe(D, ml)
    ndraw = 0
    for (mu, cov, cond, d), a, b, l in zip(dinfo, di, dm_, ml):
        ndraw += 1
        x_i, x_m = floats(a)[d:], floats(b)
        mag = max([1.0] + [abs(v) for v in x_i])
        if len(x_i) != len(x_m) or any(not close(p, q, 1e-12, mag) for p, q in zip(x_i, x_m)):
            mism.append((l, a, b, cond))
    # ------------------------------------------------------------------ NIW draws: variates recovered from the implementation, replayed in the model
    nl, ninfo = [], []
    for u in range(max(10, N // 2)):
        d = 1 + (u % 5)
        scale, cs = spd(d, cond=10 ** rng.choice([0, 1, 2]), scale=1.0)
        kk = [0.25, 1.0, 4.0, 25.0, 10 ** rng.uniform(-1, 1)][u % 5] if u % 2 == 0 else [4.0, 0.25, 25.0, 2.0, 1.0][(u // 2) % 5]
        df = d + 2 + rng.randrange(0, 6)
        niw = niw_tokens(gvec(d, 3.0), kk, df, scale)
        nl.append('niw.draw_with_z - %s %d' % (niw, rng.randrange(1 << 62)))
        ninfo.append((niw, d, df, cs, kk))
    ni = pipe(H, nl)
    nml = []
    for (niw, d, df, cs, kk), a in zip(ninfo, ni):
        t = a.split()
        nz = 3 + (df + 1) * d
        nml.append('niw.draw_z - %s %s' % (niw, ' '.join(t[:nz])))
    nm_ = pipe(D, nml)
    for (niw, d, df, cs, kk), a, b, hline in zip(ninfo, ni, nm_, nl):
        ndraw += 1
        t = a.split()
        rest = ' '.join(t[3 + (df + 1) * d:])
        if compare(rest, b, 1e3 * cs * cs) is None:        # two inversions and a Cholesky on a random scatter matrix: loose, a wrong divisor is O(1)
            # reported line = the harness line (replayable); model answer = `niw.draw_z` on the variates the harness printed
            mism.append((hline, '(k = %r) <mu> <cov> = ' % kk + rest, '(niw.draw_z on the same variates) ' + b, cs))
    # ------------------------------------------------------------------ implementation against the statement of the property
    findings = collections.defaultdict(list)
    # scaled Mahalanobis distance of the drawn mean: k (μ−μ0)ᵀ Σ⁻¹ (μ−μ0) ~ χ²_d whatever k, mean d (6σ of the Monte-Carlo error)
    nmc = 3000
    hl, hinfo = [], []
    for d in (1, 2, 3, 4):
        for kk in (0.25, 1.0, 4.0, 25.0):
            scale, cs = spd(d, cond=10.0, scale=1.0)
            hl.append('niw.draw_maha - %s %d %d' % (niw_tokens(gvec(d, 2.0), kk, d + 3, scale), rng.randrange(1 << 62), nmc))
            hinfo.append((d, kk))
    ho = pipe(H, hl)
    for (d, kk), a, l in zip(hinfo, ho, hl):
        m = floats(a)[0] if floats(a) else NAN
        if not abs(m - d) <= 6.0 * math.sqrt(2.0 * d / nmc):
            findings['niw_draw_mean_scale'].append('%s -> mean of k·(μ−μ0)ᵀΣ⁻¹(μ−μ0) over %d draws = %r, expected %d ± %.3f (k = %r)'
                                                   % (l, nmc, m, d, 6.0 * math.sqrt(2.0 * d / nmc), kk))
    # InvWishart::sample OVERRIDES the trait default: seed for seed it must equal n successive draws (exact), and its mean is Ψ/(ν−p−1)
    wl, winfo = [], []
    for d in (1, 2, 3, 4, 5, 6):
        for rep in range(2):
            scale, cs = spd(d, cond=10.0, scale=10 ** rng.uniform(-1, 1))
            wl.append('iw.sample_vs_draws - %s %d %d %d' % (M(scale), d + rng.randrange(0, 7), rng.randrange(1 << 62), 6))
            winfo.append(('exact', d, None, None))
    nsm = 4000
    for d in (1, 2, 3, 4):
        scale, cs = spd(d, cond=10.0, scale=10 ** rng.uniform(-0.5, 1))
        wl.append('iw.sample_mean - %s %d %d %d' % (M(scale), d + 10, rng.randrange(1 << 62), nsm))
        winfo.append(('mean', d, scale, d + 10))
    wo = pipe(H, wl)
    for (kind, d, scale, df), a, l in zip(winfo, wo, wl):
        if kind == 'exact':
            if a != 'T':
                findings['iw_sample_ne_draws'].append('%s -> %s' % (l, a))
        else:
            fl = floats(a)
            bad = len(fl) != d * d
            for i in range(d if not bad else 0):      # Var X_ii = 2 ψ_ii² / ((ν−p−1)² (ν−p−3))
                want = scale[i][i] / (df - d - 1)
                sd = math.sqrt(2.0 * scale[i][i] ** 2 / ((df - d - 1) ** 2 * (df - d - 3)) / nsm)
                bad = bad or not abs(fl[i * d + i] - want) <= 6.0 * sd
            if bad:
                findings['iw_sample_mean'].append('%s -> diagonal of the mean of %d samples %r, expected %r (6σ)'
                                                  % (l, nsm, [fl[i * d + i] for i in range(d)] if len(fl) == d * d else a,
                                                     [scale[i][i] / (df - d - 1) for i in range(d)]))
    # implementation-only state checks: failing setters leave the object unchanged; Cholesky constructors report Σ; params round trip
    for (line, cond, mag, tag), a in zip(cases, oi):
        if not isinstance(tag, tuple):
            continue
        if tag[0] == 'setfail' and a.startswith('E:'):
            d = len(tag[1])
            fl = floats(a)
            cov_after = fl[2 + d:2 + d + d * d]
            flat = [v for r in tag[1] for v in r]
            if cov_after != flat or not a.endswith(' T'):
                findings['failed_set_cov_mutates'].append('%s -> %s' % (line, a))
        if tag[0] == 'setmu' and a.startswith('E:'):
            fl = floats(a)
            if fl[:len(tag[1])] != list(tag[1]):
                findings['failed_set_mu_mutates'].append('%s -> %s' % (line, a))
        if tag[0] == 'fromchol' and not a.startswith(('E', 'N', 'P')):
            cov, cond_ = tag[1], tag[2]
            d = len(cov)
            fl = floats(a)
            flat = [v for r in cov for v in r]
            mx = max(abs(v) for v in flat)
            ca, cb = fl[:d * d], fl[d * d:2 * d * d]
            var, cr = fl[2 * d * d + 2:3 * d * d + 2], fl[3 * d * d + 2:4 * d * d + 2]
            flags = [t for t in a.split() if t in ('T', 'F')]
            if any(abs(p - q) > 1e-12 * cond_ * mx for p, q in zip(ca, flat)) or any(abs(p - q) > 1e-12 * cond_ * mx for p, q in zip(cb, flat)) \
                    or var != cb:
                findings['new_cholesky_cov_ne_sigma'].append('%s -> %s' % (line, a))
            if flags[:1] != ['T']:
                findings['new_cholesky_unchecked_ne_checked'].append('%s -> %s' % (line, a))
            if cr != flat or flags[1:2] != ['T']:
                findings['params_roundtrip_ne'].append('%s -> %s' % (line, a))
        if tag[0] == 'forget_to' and floats(a):
            keep, rem = tag[1], tag[2]
            toks = a.split()
            d = int(toks[1][1:])
            sx = floats(a)[:d]
            want = rem[0] if keep == 1 else [0.0] * d
            mg = max([1.0] + [abs(v) for v in floats(a)])
            if toks[0] != str(keep) or any(abs(p - q) > 1e-9 * mg for p, q in zip(sx, want)):
                findings['forget_to_%d_wrong' % keep].append('%s -> %s' % (line, a))
    byline = {c[0]: (a, b) for c, a, b in zip(cases, oi, om)}
    prop_lines, prop_meta = [], []
    for u in range(max(6, N // 3)):
        d = 1 + (u % DMAX)
        cov, cond = spd(d, cond=10 ** rng.choice([0, 1, 2, 4]))
        mu = gvec(d, 2.0)
        n = rng.choice([1, 2, 3, 7, 20, 45])
        data = sample_from(mu, cov, n)
        scale, cs = spd(d, cond=10 ** rng.choice([0, 1, 3]))
        df = d + rng.randrange(0, 6)
        kk = 10 ** rng.uniform(-1, 1)
        m0 = gvec(d, 2.0)
        niw = niw_tokens(m0, kk, df, scale)
        y = sample_from(mu, cov, 1)[0]
        ls = ['mvg.ln_f_stat - %s %s %s' % (V(mu), M(cov), M(data, n, d))]
        ls += ['mvg.ln_f - %s %s %s' % (V(mu), M(cov), V(r)) for r in data]
        ls += ['niw.ln_m - %s D %s' % (niw, M(data, n, d)), 'niw.ln_m - %s D %s' % (niw, M(data + [y], n + 1, d)),
               'niw.ln_pp - %s %s D %s' % (niw, V(y), M(data, n, d)),
               'niw.posterior - %s D %s' % (niw, M(data, n, d)), 'niw.ln_f - %s %s %s' % (niw, V(mu), M(cov))]
        h = n // 2
        ls += ['niw.posterior - %s D %s' % (niw, M(data[:h], h, d))]
        prop_meta.append((len(prop_lines), len(ls), d, n, h, cond, cs, mu, cov, data, niw))
        prop_lines += ls
    po = pipe(H, prop_lines)
    second = []
    for (o, k, d, n, h, cond, cs, mu, cov, data, niw) in prop_meta:
        a = po[o:o + k]
        lnfstat, lnfs = floats(a[0])[0], [floats(t)[0] for t in a[1:1 + n]]
        s = math.fsum(lnfs)
        if not close(lnfstat, s, 1e-10 * cond, 1.0 + sum(abs(v) for v in lnfs)):
            findings['ln_f_stat_ne_sum'].append('%s -> %r vs Σ ln_f = %r' % (prop_lines[o][:200], lnfstat, s))
        lm, lm1, lpp = floats(a[1 + n])[0], floats(a[2 + n])[0], floats(a[3 + n])[0]
        if not close(lpp, lm1 - lm, 1e-9 * cs, 1.0 + abs(lm) + abs(lm1)):
            findings['chain_rule'].append('%s -> ln_pp %r vs ln_m(D+y) - ln_m(D) = %r' % (prop_lines[o + 3 + n][:200], lpp, lm1 - lm))
        # posterior tokens -> second phase: Bayes' rule and sequential = batch
        post = a[4 + n]
        half = a[6 + n]
        second.append(('niw.ln_f - %s %s %s' % (post, V(mu), M(cov)), 'bayes', (floats(a[5 + n])[0], s, lm, cond, cs, prop_lines[o + 5 + n])))
        second.append(('niw.posterior - %s D %s' % (half, M(data[h:], n - h, d)), 'seq', (post, n, data, cs)))
    so = pipe(H, [s[0] for s in second])
    for (line, kind, meta), a in zip(second, so):
        if kind == 'bayes':
            prior, s, lm, cond, cs, pl = meta
            lhs, rhs = floats(a)[0], prior + s - lm
            if not close(lhs, rhs, 1e-8 * max(cond, cs), 1.0 + abs(prior) + abs(s) + abs(lm)):
                findings['bayes_rule'].append('%s -> ln_f(post) %r vs prior + loglik - ln_m = %r' % (pl[:200], lhs, rhs))
        else:
            post, n, data, cs = meta
            mag = 1.0 + n * max(abs(v) for r in data for v in r) ** 2
            if compare(a, post, 1.0, 1e3 * mag) is None:
                findings['sequential_ne_batch'].append('%s -> %s vs %s' % (line[:160], a[:160], post[:160]))
    # accuracy of the implementation's InvWishart::ln_f against exact rational linear algebra
    for (line, cond, mag, tag), a in zip(cases, oi):
        if isinstance(tag, tuple) and tag[0] == 'iwref' and floats(a):
            ref = iw_ln_f_ref(tag[1], tag[2], tag[3])
            if not close(floats(a)[0], ref, RTOL * cond, mag):
                findings['iw_ln_f_inaccurate_d%d' % len(tag[1])].append('%s -> impl %r, exact %r (cond %.3g)' % (line, floats(a)[0], ref, cond))
    # dedicated accuracy sweep: ill-conditioned X, every d (nalgebra inverts d ≤ 4 by closed-form cofactors)
    al, am = [], []
    for d in range(1, DMAX + 1):
        for lc in (2, 4, 6, 8):
            for _ in range(max(1, N // 25)):
                scale, cs = spd(d, cond=10.0, scale=1.0)
                xm, cx = spd(d, cond=10.0 ** lc)
                df = d + rng.randrange(0, 5)
                al.append('iw.ln_f - %s %d %s' % (M(scale), df, M(xm)))
                am.append((d, lc, scale, df, xm, cx))
    ao = pipe(H, al)
    acc = collections.defaultdict(float)
    for (d, lc, scale, df, xm, cx), a, l in zip(am, ao, al):
        ref = iw_ln_f_ref(scale, df, xm)
        err = abs(floats(a)[0] - ref) / max(1.0, abs(ref))
        acc[(d, lc)] = max(acc[(d, lc)], err)
        if err > 1e-13 * cx:          # more than ~3 digits worse than the conditioning explains
            findings['iw_ln_f_inaccurate_d%d' % d].append('%s -> impl %r, exact %r (cond %.3g)' % (l, floats(a)[0], ref, cx))
    # empty data; `ln_f_stat_empty_not_zero` and `niw_accepts_nan_k` were defects of the pinned tree, REPAIRED in /repo by
    # ed8aba1 / 395fe75: the detection stays, a recurrence is a regression (not a known finding any more)
    for (line, cond, mag, tag), a in zip(cases, oi):
        if tag == 'lnfstat n=0' and not a.startswith('E') and floats(a) and floats(a)[0] != 0.0:
            findings['ln_f_stat_empty_not_zero'].append('%s -> %s' % (line[:200], a))
        if tag == 'lnm n=0' and floats(a) and floats(a)[0] != 0.0:
            findings['ln_m_empty_not_zero'].append('%s -> %s' % (line[:200], a))
        if line.startswith('niw.new') and a == 'ok' and 'xNaN' in line.split()[2 + int(line.split()[2][1:]) + 1]:
            findings['niw_accepts_nan_k'].append(line[:200])
        if tag in ('bad', 'history-bad') and line.startswith('mvg.') and 'xNaN' in line and (a == 'ok' or (tag == 'history-bad' and not a.startswith('E'))):
            findings['cov_nan_upper_accepted'].append(line[:240])
    # statistical check of draws (implementation only)
    sl, sm = [], []
    for u in range(6):
        d = 1 + u
        cov, cond = spd(d, cond=10.0, scale=1.0)
        mu = gvec(d, 3.0)
        sl.append('mvg.draw_moments - %s %s %d %d' % (V(mu), M(cov), rng.randrange(1 << 62), 20000))
        sm.append((mu, cov, d))
    st = pipe(H, sl)
    for (mu, cov, d), a, l in zip(sm, st, sl):
        fl = floats(a)
        m, c = fl[:d], fl[d:]
        bad = any(abs(m[i] - mu[i]) > 6 * math.sqrt(cov[i][i] / 20000) for i in range(d))
        bad = bad or any(abs(c[i * d + j] - cov[i][j]) > 6 * math.sqrt((cov[i][i] * cov[j][j] + cov[i][j] ** 2) / 20000) for i in range(d) for j in range(d))
        if bad:
            findings['draw_moments'].append(l[:200] + ' -> ' + a[:200])
    total = len(cases) + ndraw
    return {'cases': total,
            'mismatches': [(line, a, b) for line, a, b, cond in mism],
            'mismatch_conds': [cond for line, a, b, cond in mism],
            'findings': {k: list(v) for k, v in findings.items()},
            'samples': ['%s -> %s' % (c[0][:160], a[:60]) for c, a in list(zip(cases, oi))[:4]],
            'worst': dict(worst), 'errors': dict(errs), 'accuracy': dict(acc),
            'counts': {'corr': len(cases), 'draws': ndraw, 'probes': len(prop_lines) + len(second), 'statistical': len(sl) + len(hl) + len(wl)}}


def main():
    harness = sys.argv[1] if len(sys.argv) > 2 else None
    driver = sys.argv[2] if len(sys.argv) > 2 else None
    seed = int(sys.argv[3]) if len(sys.argv) > 3 else 15
    n = int(sys.argv[4]) if len(sys.argv) > 4 else 100
    r = run('thorough', seed, n=n, harness=harness, driver=driver)
    c = r['counts']
    print('accuracy of the implementation, InvWishart::ln_f vs exact rational linear algebra: worst relative error')
    for d in range(1, DMAX + 1):
        print('      d=%d  ' % d + '  '.join('cond 1e%d: %.2g' % (lc, r['accuracy'].get((d, lc), 0.0)) for lc in (2, 4, 6, 8)))
    print('cases: %d  (harness+model %d, draws replayed %d; property probes %d, statistical %d)'
          % (r['cases'], c['corr'], c['draws'], c['probes'], c['statistical']))
    print('mismatches beyond tolerance: %d' % len(r['mismatches']))
    if os.environ.get('C15_DUMP'):
        with open(os.environ['C15_DUMP'], 'w') as f:
            for line, a, b in r['mismatches']:
                f.write('%s\n%s\n%s\n' % (line, a, b))
    for (line, a, b), cond in list(zip(r['mismatches'], r['mismatch_conds']))[:12]:
        print('  MISMATCH cond=%.3g' % cond)
        print('      ' + line[:300])
        print('      impl:  ' + a[:300])
        print('      model: ' + b[:300])
    print('worst |impl-model| / (magnitude·cond) per op:')
    for op in sorted(r['worst']):
        print('      %-26s %.3g' % (op, r['worst'][op]))
    print('error / panic answers (identical on both sides):')
    for k in sorted(r['errors']):
        print('      %-60s %d' % (k, r['errors'][k]))
    for k in sorted(r['findings']):
        print('finding %s %d' % (k, len(r['findings'][k])))
        for l in r['findings'][k][:3]:
            print('    ' + l[:4000])


if __name__ == '__main__':
    main()
