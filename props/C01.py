"""C01 — log-densities equal the textbook density of the named distribution."""
from checklib import spec as S

ID = 'C01'
LEAN_DEPS = ['RvModel.Spec.C01A', 'RvModel.Spec.C01B', 'RvModel.Lemmas.C01B', 'RvModel.Spec.C01C', 'RvModel.Lemmas.C01C', 'RvModel.Hand.DispatchAll']
METHODS = ('ln_f', 'f', 'ln_pdf', 'pdf', 'ln_pmf', 'pmf')
N_GEN = {'quick': 10, 'thorough': 150}

# implementation op (= generated definition) vs textbook Spec op, with the textbook support of the observation
SPEC = [
    {'op': 'Gaussian.ln_f_real', 'spec': 'spec.Gaussian.ln_f_real', 'support': 'real'},
]
import glob, json, os
for _f in sorted(glob.glob(os.path.join(os.path.dirname(__file__), 'spec', 'C01*.json'))):
    SPEC += json.load(open(_f))
REQUIRED = [e['op'] for e in SPEC]
TRUSTED = ['Spec/C01*.lean textbook log-densities; Mathlib densities where a bridge theorem exists']
ASSUMPTIONS = ['exact real arithmetic in theorems; binary64 rounding only sampled',
               'special::ln_gamma etc. compute the functions they name']


def gen_ops(man):
    return [n for n, d in man['defs'].items() if d['name'] in METHODS and d['file'].startswith('dist/')]


def spec_run(man, tier, seed, sites=None):
    n = 40 if tier == 'quick' else 600
    return S.spec_compare(man, SPEC, n, seed, sites)


def extra_run(man, tier, seed):
    """implementation against the definition where no generated model / Spec op reaches:
    (a) Skellam (Bessel-based pmf, hand-modelled cache): ln_f vs the Poisson-difference convolution, both tails;
    (b) location-scale laws at EXTREME but valid scales (1e-170 … 1e160) at points loc + t·scale: the log-density is
        ln g(t) - ln scale for the standard density g, whatever the scale (no intermediate may leave the binary64 range)."""
    import math, random
    from checklib.core import enc, run_pair, tok_to_float
    rng = random.Random(seed * 61 + 2)
    n = 12 if tier == 'quick' else 300
    failures, lines, want = [], [], []

    def lnpois(k, mu):
        return k * math.log(mu) - mu - math.lgamma(k + 1.0)

    def skellam(x, m1, m2):
        ks = range(max(0, -x), max(0, -x) + 400)
        ts = [lnpois(k + x, m1) + lnpois(k, m2) for k in ks]
        mx = max(ts)
        return mx + math.log(math.fsum(math.exp(t - mx) for t in ts))
    if 'Skellam.ln_f_int' in man['defs']:
        for _ in range(n * 3):
            m1, m2 = [rng.choice([0.1, 1.0, 2.0, 5.3, 6.5]) if rng.random() < 0.4 else math.exp(rng.uniform(-2.5, 3.5)) for _ in range(2)]
            x = rng.choice([-1, 1]) * rng.choice([0, 1, 2, 3, 5, 8, 11, 15, 25, 40, 60])
            lines.append(f'Skellam.ln_f_int i32 {enc((m1, m2))} {x}')
            want.append(('Skellam.ln_f_int', skellam(x, m1, m2), 1e-8))
    STD = {  # type -> (loc field, scale field, other fields fixed, standard log-density of t)
        'Gaussian': ('mu', 'sigma', {}, lambda t: -0.5 * t * t - 0.5 * math.log(2 * math.pi)),
        'Cauchy': ('loc', 'scale', {}, lambda t: -math.log(math.pi) - math.log1p(t * t)),
        'Laplace': ('mu', 'b', {}, lambda t: -abs(t) - math.log(2.0)),
    }
    for ty, (lf, sf, other, g) in STD.items():
        op = f'{ty}.ln_f_real'
        if op not in man['defs'] or man['defs'][op].get('stub'):
            continue
        fields = [f for f, t in man['structs'][ty]]
        for _ in range(n):
            scale = 10.0 ** rng.choice([-170, -161, -150, -100, -20, 20, 100, 150, 160])
            loc = rng.choice([0.0, 1.0, -3.5, scale, -scale * 7])
            t = rng.choice([0.0, 0.5, -0.5, 1.0, -3.0, 6.0])
            x = loc + t * scale
            if not math.isfinite(x) or (scale < 1 and abs(loc) > 0 and abs(t * scale) < abs(loc) * 1e-13 and t != 0.0):
                continue              # x would round to loc: the point does not exist in binary64
            teff = (x - loc) / scale
            pv = tuple({lf: loc, sf: scale}.get(f, other.get(f)) for f in fields)
            lines.append(f'{op} f64 {enc(pv)} {enc(x)}')
            want.append((op, g(teff) - math.log(scale), 1e-9))
    impl, _ = run_pair(lines, want_model=False)
    for l, a, (site, w, rel) in zip(lines, impl, want):
        if a in ('NOOP',) or a.startswith('BAD'):
            continue
        v = tok_to_float(a) if a.startswith('x') else float('nan')
        if not (abs(v - w) <= rel * max(1.0, abs(w))):
            failures.append({'site': site, 'case': l, 'impl': a, 'expected': repr(w), 'observed': 'panic' if a == 'PANIC' else ('nan' if v != v else 'value'),
                             'detail': f'{v!r} vs definition {w!r}'})
    return {'obligations': [], 'failures': failures, 'stats': {'evaluations': len(lines), 'distinct_nontrivial': len(set(lines))}, 'samples': lines[:2]}
