"""C01 — log-densities equal the textbook density of the named distribution."""
from checklib import spec as S

ID = 'C01'
LEAN_DEPS = ['RvModel.Spec.C01A', 'RvModel.Spec.C01B', 'RvModel.Lemmas.C01B', 'RvModel.Spec.C01C', 'RvModel.Lemmas.C01C', 'RvModel.Hand.DispatchAll']
METHODS = ('ln_f', 'f', 'ln_pdf', 'pdf', 'ln_pmf', 'pmf')
N_GEN = {'quick': 10, 'thorough': 150}

# implementation op (= generated definition) vs textbook Spec op, with the textbook support of the observation
SPEC = [
    {'op': 'Gaussian.ln_f_real', 'spec': 'spec.Gaussian.ln_f_real', 'support': 'real'},
]
import glob, json, os
for _f in sorted(glob.glob(os.path.join(os.path.dirname(__file__), 'spec', 'C01*.json'))):
    SPEC += json.load(open(_f))
REQUIRED = [e['op'] for e in SPEC]
TRUSTED = ['Spec/C01*.lean textbook log-densities; Mathlib densities where a bridge theorem exists']
ASSUMPTIONS = ['exact real arithmetic in theorems; binary64 rounding only sampled',
               'special::ln_gamma etc. compute the functions they name']


def gen_ops(man):
    return [n for n, d in man['defs'].items() if d['name'] in METHODS and d['file'].startswith('dist/')]


def spec_run(man, tier, seed, sites=None):
    n = 40 if tier == 'quick' else 600
    return S.spec_compare(man, SPEC, n, seed, sites)
