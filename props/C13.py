"""C13 — log-domain arithmetic and weighted index sampling are exact and total."""
import random, math
from checklib.core import enc, run_pair, cmp_tokens, tok_to_float, driver_path
import subprocess

ID = 'C13'
LEAN_DEPS = ['RvModel.ExtInst', 'RvModel.Lemmas.C13A', 'RvModel.Lemmas.C13B', 'RvModel.Hand.Samplers', 'RvModel.Hand.DispatchAll']
TRUSTED = ['carrier X (IEEE special values over exact reals, one zero, no rounding): RvModel/ExtInst.lean',
           'Spec/C13.lean reference definitions (max-shifted log-sum-exp)']
ASSUMPTIONS = ['binary64 rounding of finite values is not modelled; sampled against the Spec with a few-ulp tolerance']
N_GEN = {'quick': 40, 'thorough': 600}
OPS = ['logsumexp', 'logaddexp', 'log1pexp', 'cumsum', 'ln_binom', 'lnmv_gamma', 'binary_search', 'catflip',
       'catflip_standard', 'catflip_bisection', 'ln_fact']
REQUIRED = ['logsumexp', 'logaddexp', 'log1pexp', 'cumsum', 'ln_binom', 'lnmv_gamma', 'binary_search', 'catflip']
NINF = float('-inf')


def gen_ops(man):
    return [o for o in OPS if o in man['defs']]


def special_real(rng):
    r = rng.random()
    if r < 0.25:
        return NINF
    if r < 0.35:
        return rng.choice([-37.0, 18.0, 33.3, -37.000000000000004, 18.000000000000004, 33.300000000000004, 33.29999999999999, 0.0])
    if r < 0.45:
        return rng.choice([-1, 1]) * rng.choice([1e300, 1e100, 745.0, 700.0])
    return rng.uniform(-60, 60) if r < 0.8 else rng.choice([-1, 1]) * math.exp(rng.uniform(-20, 8))


def sampler_run(tier, seed):
    """hand models of the index samplers vs the implementation under scripted generator words (exact), and the
    property itself on the implementation: index in range, weight of the index positive"""
    from props import cases_c13b
    lines = cases_c13b.cases(seed + 20260930, 150 if tier == 'quick' else 2500)
    impl, model = run_pair(lines)
    obligations = {}
    failures = []
    for line, a, b in zip(lines, impl, model):
        op = line.split()[0]
        o = obligations.setdefault(op, {'name': f'corr:{op}', 'kind': 'corr', 'ok': True, 'site': op, 'detail': '', 'cases': []})
        if b == 'NOOP' or b.startswith('BAD') or a == 'NOOP':
            continue
        ok, detail = cmp_tokens(a, b, 1e-13, 0.0)
        if not ok and op == 'ln_pflips':
            # fused multiply-add in logsumexp (Rust) vs x*a+b (model): accept iff the fused prediction explains the answer
            try:
                ok = cases_c13b.predict_ln_pflips(line, True) == a
            except Exception:
                ok = False
        if not ok:
            o['ok'] = False
            if len(o['cases']) < 3:
                o['cases'].append({'line': line, 'impl': a, 'model': b})
            o['detail'] = f'{line[:160]} impl={a[:40]} model={b[:40]}'
        # the property on the implementation: samplers never panic and never return a zero-weight index
        if op in ('pflip', 'pflips', 'ln_pflip', 'ln_pflips', 'gumbel_pflip'):
            toks = line.split()
            n = int(toks[2][1:])
            ws = [tok_to_float(t) for t in toks[3:3 + n]]
            zero = (lambda w: w == NINF) if op.startswith('ln_') else (lambda w: w == 0.0)
            valid = all((w == w and (w >= 0 or op.startswith('ln_'))) and abs(w) != float('inf') or (op.startswith('ln_') and w == NINF) for w in ws) \
                and any(not zero(w) for w in ws)
            supplied_sum = op == 'pflip' and toks[3 + n] == 'S'
            if op == 'ln_pflips' and toks[3 + n] == 'T':
                # `normed = true` is a promise of the caller: only normalised log-weights are valid input
                tot = sum(math.exp(w) for w in ws if w != NINF and w < 700)
                valid = valid and abs(tot - 1.0) < 1e-9
            if not valid or supplied_sum:
                continue
            wi = max(j for j, t in enumerate(toks) if t.startswith('L'))
            info = {'site': op, 'case': line, 'impl': a, 'weights_n': n, 'n_zero': sum(1 for w in ws if zero(w)),
                    'words': [int(t) for t in toks[wi + 1:]], 'normed_false': ' F ' in line}
            if a in ('PANIC', 'HANG'):
                failures.append(dict(info, expected='an index (never a panic) for valid weights', observed='panic', detail=''))
            else:
                idx = [int(t) for t in a.split() if not t.startswith('L')]
                bad = [i for i in idx if i >= n or zero(ws[i])]
                if bad:
                    failures.append(dict(info, expected='index with positive weight', observed='zero_weight_index', detail=f'indices {bad[:3]}'))
    return list(obligations.values()), failures, len(lines)


def extra_run(man, tier, seed):
    out = extra_run0(man, tier, seed)
    obs, fails, n = sampler_run(tier, seed)
    out['obligations'] += obs
    out['failures'] += fails
    out['stats']['evaluations'] += n
    out['stats']['distinct_nontrivial'] += n
    return out


def extra_run0(man, tier, seed):
    rng = random.Random(seed * 17 + 3)
    n = 400 if tier == 'quick' else 20000
    impl_lines, spec_lines, sites = [], [], []
    # exhaustive -inf patterns up to length 5 (quick) / 7 (thorough)
    maxlen = 5 if tier == 'quick' else 7
    for ln in range(0, maxlen + 1):
        for mask in range(1 << ln):
            xs = [NINF if (mask >> i) & 1 else rng.uniform(-30, 30) for i in range(ln)]
            impl_lines.append(f'logsumexp - {enc(xs)}'); spec_lines.append(f'spec.logsumexp - {enc(xs)}'); sites.append('logsumexp')
    for _ in range(n):
        xs = [special_real(rng) for _ in range(rng.choice([0, 1, 2, 3, 5, 9, 40, 500]))]
        impl_lines.append(f'logsumexp - {enc(xs)}'); spec_lines.append(f'spec.logsumexp - {enc(xs)}'); sites.append('logsumexp')
        x, y = special_real(rng), special_real(rng)
        impl_lines.append(f'logaddexp - {enc((x, y))}'); spec_lines.append(f'spec.logaddexp - {enc((x, y))}'); sites.append('logaddexp')
        z = special_real(rng)
        if z != NINF or True:
            impl_lines.append(f'log1pexp - {enc(z)}'); spec_lines.append(f'spec.log1pexp - {enc(z)}'); sites.append('log1pexp')
        ws = [abs(special_real(rng)) if rng.random() < 0.9 else 0.0 for _ in range(rng.choice([0, 1, 2, 9, 10, 33]))]
        ws = [w if math.isfinite(w) and w < 1e290 else 1.0 for w in ws]
        impl_lines.append(f'cumsum - {enc(ws)}'); spec_lines.append(f'spec.cumsum - {enc(ws)}'); sites.append('cumsum')
    impl, _ = run_pair(impl_lines, want_model=False)
    p = subprocess.run([driver_path()], input='\n'.join(spec_lines) + '\n', capture_output=True, text=True)
    spec = p.stdout.split('\n')
    failures = []
    for il, sl, a, b, site in zip(impl_lines, spec_lines, impl, spec, sites):
        if b == 'NOOP' or b.startswith('BAD') or a == 'NOOP':
            continue
        ok, detail = cmp_tokens(a, b, 4e-15 if site != 'cumsum' else 1e-12, 1e-300)
        if not ok:
            vals = [tok_to_float(t) for t in il.split()[2:] if t.startswith('x')]
            failures.append({'site': site, 'case': il, 'spec_case': sl, 'impl': a, 'expected': b, 'detail': detail,
                             'observed': 'nan' if 'nan' in detail.split(' vs ')[0] or a == 'xNaN' else ('panic' if a == 'PANIC' else 'value'),
                             'args': vals})
    # lnmv_gamma(p, a) = p(p-1)/4 ln pi + sum_{j=1..p} lnGamma(a + (1-j)/2) and ln_binom(n, k) = lnGamma(n+1) - lnGamma(k+1)
    # - lnGamma(n-k+1) (real arguments: the Gamma-Poisson predictive uses a generalised coefficient with k > n), python lgamma
    mg_lines, mg_want = [], []
    for _ in range(n // 8 + 40):
        pdim = rng.choice([1, 2, 3, 4, 5, 6, 8, 12])
        a = (pdim - 1) / 2.0 + math.exp(rng.uniform(-3, 4))
        mg_lines.append(f'lnmv_gamma - {pdim} {enc(a)}')
        mg_want.append(pdim * (pdim - 1) / 4.0 * math.log(math.pi) + math.fsum(math.lgamma(a + (1 - j) / 2.0) for j in range(1, pdim + 1)))
        nn = math.exp(rng.uniform(-2, 5)) if rng.random() < 0.5 else float(rng.randint(0, 60))
        kk = float(rng.randint(0, 40)) if rng.random() < 0.7 else nn * rng.random()
        if nn - kk + 1.0 > 0 and nn + 1.0 > 0:
            mg_lines.append(f'ln_binom - {enc((nn, kk))}')
            mg_want.append(math.lgamma(nn + 1.0) - math.lgamma(kk + 1.0) - math.lgamma(nn - kk + 1.0))
    mg_impl, _ = run_pair(mg_lines, want_model=False)
    for l, a, w in zip(mg_lines, mg_impl, mg_want):
        if a in ('NOOP',) or a.startswith('BAD'):
            continue
        v = tok_to_float(a) if a.startswith('x') else float('nan')
        if not (abs(v - w) <= 1e-9 * max(1.0, abs(w)) + 1e-10):
            failures.append({'site': l.split()[0], 'case': l, 'impl': a, 'expected': repr(w), 'detail': f'{v!r} vs definition {w!r}',
                             'observed': 'panic' if a == 'PANIC' else ('nan' if v != v else 'value'), 'args': []})
    # log_product against the exactly rounded sum of logs (python fsum): running products that overflow, underflow or pass
    # through the subnormal range must be flushed into the log accumulator without loss
    lp_lines, lp_want = [], []
    for _ in range(n // 4 + 20):
        k = rng.choice([1, 2, 3, 5, 9, 40, 200])
        mode = rng.random()
        if mode < 0.3:
            xs = [math.exp(rng.uniform(-5, 5)) for _ in range(k)]
        elif mode < 0.6:
            xs = [10.0 ** rng.choice([-160, -155, -100, -300, -12, 3, 150]) * rng.uniform(1, 10) for _ in range(k)]
        elif mode < 0.8:
            xs = [10.0 ** rng.uniform(-170, -140) for _ in range(k)]
        else:
            xs = [2.0 ** rng.randint(-1074, 1023) for _ in range(k)]
        lp_lines.append(f'log_product - {enc(xs)}')
        lp_want.append((math.fsum(math.log(x) for x in xs), sum(abs(math.log(x)) for x in xs)))
    lp_impl, _ = run_pair(lp_lines, want_model=False)
    for l, a, (w, mag) in zip(lp_lines, lp_impl, lp_want):
        if a == 'NOOP':
            break
        v = tok_to_float(a) if a.startswith('x') else float('nan')
        if not (abs(v - w) <= 1e-13 * mag + 4e-15 * abs(w)):
            failures.append({'site': 'log_product', 'case': l, 'impl': a, 'expected': repr(w), 'detail': f'{v!r} vs sum of logs {w!r}',
                             'observed': 'panic' if a == 'PANIC' else ('nan' if v != v else 'value'), 'args': []})
    return {'obligations': [], 'failures': failures,
            'stats': {'evaluations': len(impl_lines) + len(lp_lines), 'distinct_nontrivial': len(set(impl_lines)) + len(set(lp_lines))},
            'samples': impl_lines[40:43]}


def _near_zero(f):
    try:
        a, b = tok_to_float(f['impl']), tok_to_float(f['expected'])
    except Exception:
        return False
    return abs(b) <= 0.25 and abs(a - b) <= 4.5e-16


def _words(f):
    return f.get('words', [])


INPUT_CLASSES = {
    'result_near_zero': _near_zero,
    # Uniform::new(0,1) maps words < 2^12 to the variate 0; bisection (more than 9 weights) then returns index 0
    'variate_zero_leading_zero_weight': lambda f: f.get('weights_n', 0) > 9 and any(w < 4096 for w in _words(f)),
    'gumbel_degenerate': lambda f: f.get('n_zero', 0) >= 1 or any(w < 2048 for w in _words(f)),
    # the rounded running total of n terms can fall short of 1 by up to ~n ulps (2^-53 each = 2^11 generator words)
    'open01_top': lambda f: any(w >= (1 << 64) - max(2, int(f.get('weights_n', 2))) * (1 << 12) for w in _words(f)),
    'both_ninf': lambda f: len(f.get('args', [])) == 2 and all(x == NINF for x in f['args']),
    'pinf_arg': lambda f: any(x == float('inf') for x in f.get('args', [])),
}
