"""C13 — log-domain arithmetic and weighted index sampling are exact and total."""
import random, math
from checklib.core import enc, run_pair, cmp_tokens, tok_to_float, driver_path
import subprocess

ID = 'C13'
LEAN_DEPS = ['RvModel.ExtInst', 'RvModel.Lemmas.C13A', 'RvModel.Hand.DispatchAll']
TRUSTED = ['carrier X (IEEE special values over exact reals, one zero, no rounding): RvModel/ExtInst.lean',
           'Spec/C13.lean reference definitions (max-shifted log-sum-exp)']
ASSUMPTIONS = ['binary64 rounding of finite values is not modelled; sampled against the Spec with a few-ulp tolerance']
N_GEN = {'quick': 40, 'thorough': 600}
OPS = ['logsumexp', 'logaddexp', 'log1pexp', 'cumsum', 'ln_binom', 'lnmv_gamma', 'binary_search', 'catflip',
       'catflip_standard', 'catflip_bisection', 'ln_fact']
REQUIRED = ['logsumexp', 'logaddexp', 'log1pexp', 'cumsum', 'ln_binom', 'lnmv_gamma', 'binary_search', 'catflip']
NINF = float('-inf')


def gen_ops(man):
    return [o for o in OPS if o in man['defs']]


def special_real(rng):
    r = rng.random()
    if r < 0.25:
        return NINF
    if r < 0.35:
        return rng.choice([-37.0, 18.0, 33.3, -37.000000000000004, 18.000000000000004, 33.300000000000004, 33.29999999999999, 0.0])
    if r < 0.45:
        return rng.choice([-1, 1]) * rng.choice([1e300, 1e100, 745.0, 700.0])
    return rng.uniform(-60, 60) if r < 0.8 else rng.choice([-1, 1]) * math.exp(rng.uniform(-20, 8))


def extra_run(man, tier, seed):
    rng = random.Random(seed * 17 + 3)
    n = 400 if tier == 'quick' else 20000
    impl_lines, spec_lines, sites = [], [], []
    # exhaustive -inf patterns up to length 5 (quick) / 7 (thorough)
    maxlen = 5 if tier == 'quick' else 7
    for ln in range(0, maxlen + 1):
        for mask in range(1 << ln):
            xs = [NINF if (mask >> i) & 1 else rng.uniform(-30, 30) for i in range(ln)]
            impl_lines.append(f'logsumexp - {enc(xs)}'); spec_lines.append(f'spec.logsumexp - {enc(xs)}'); sites.append('logsumexp')
    for _ in range(n):
        xs = [special_real(rng) for _ in range(rng.choice([0, 1, 2, 3, 5, 9, 40, 500]))]
        impl_lines.append(f'logsumexp - {enc(xs)}'); spec_lines.append(f'spec.logsumexp - {enc(xs)}'); sites.append('logsumexp')
        x, y = special_real(rng), special_real(rng)
        impl_lines.append(f'logaddexp - {enc((x, y))}'); spec_lines.append(f'spec.logaddexp - {enc((x, y))}'); sites.append('logaddexp')
        z = special_real(rng)
        if z != NINF or True:
            impl_lines.append(f'log1pexp - {enc(z)}'); spec_lines.append(f'spec.log1pexp - {enc(z)}'); sites.append('log1pexp')
        ws = [abs(special_real(rng)) if rng.random() < 0.9 else 0.0 for _ in range(rng.choice([0, 1, 2, 9, 10, 33]))]
        ws = [w if math.isfinite(w) and w < 1e290 else 1.0 for w in ws]
        impl_lines.append(f'cumsum - {enc(ws)}'); spec_lines.append(f'spec.cumsum - {enc(ws)}'); sites.append('cumsum')
    impl, _ = run_pair(impl_lines, want_model=False)
    p = subprocess.run([driver_path()], input='\n'.join(spec_lines) + '\n', capture_output=True, text=True)
    spec = p.stdout.split('\n')
    failures = []
    for il, sl, a, b, site in zip(impl_lines, spec_lines, impl, spec, sites):
        if b == 'NOOP' or b.startswith('BAD') or a == 'NOOP':
            continue
        ok, detail = cmp_tokens(a, b, 4e-15 if site != 'cumsum' else 1e-12, 1e-300)
        if not ok:
            vals = [tok_to_float(t) for t in il.split()[2:] if t.startswith('x')]
            failures.append({'site': site, 'case': il, 'spec_case': sl, 'impl': a, 'expected': b, 'detail': detail,
                             'observed': 'nan' if 'nan' in detail.split(' vs ')[0] or a == 'xNaN' else ('panic' if a == 'PANIC' else 'value'),
                             'args': vals})
    return {'obligations': [], 'failures': failures,
            'stats': {'evaluations': len(impl_lines), 'distinct_nontrivial': len(set(impl_lines))}, 'samples': impl_lines[40:43]}


def _near_zero(f):
    try:
        a, b = tok_to_float(f['impl']), tok_to_float(f['expected'])
    except Exception:
        return False
    return abs(b) <= 0.25 and abs(a - b) <= 4.5e-16


INPUT_CLASSES = {
    'result_near_zero': _near_zero,
    'both_ninf': lambda f: len(f.get('args', [])) == 2 and all(x == NINF for x in f['args']),
    'pinf_arg': lambda f: any(x == float('inf') for x in f.get('args', [])),
}
