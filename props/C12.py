"""C12 — quantile function is the inverse of the CDF."""
from props import _generic
import random
from checklib.core import cmp_tokens, enc, run_pair, tok_to_float
from checklib import gen

LEAN_DEPS = ['RvModel.Spec.C12', 'RvModel.Lemmas.C12', 'RvModel.Hand.C12', 'RvModel.Hand.DispatchAll']
TRUSTED = ['Spec/C12.lean textbook quantile functions; erf bijectivity is proved (Lemmas/C12.lean), not assumed']
ASSUMPTIONS = ['p in the open interval (0,1); special::inv_error computes the inverse error function (far-tail accuracy only sampled)']
N_GEN = {'quick': 12, 'thorough': 150}
_generic.install(globals(), 'C12', methods=('invcdf', 'quantile', 'interval'), n_spec=(60, 800))

ROUND = ['Exponential', 'Uniform', 'Cauchy', 'Kumaraswamy', 'UnitPowerLaw', 'Gaussian', 'LogNormal']


def extra_run(man, tier, seed):
    """round trip cdf(invcdf(p)) = p on the implementation itself (moderate parameters: representable quantiles)"""
    rng = random.Random(seed * 13 + 5)
    n = 60 if tier == 'quick' else 1500
    structs = man['structs']
    l1, meta = [], []
    for d in ROUND:
        if f'{d}.invcdf_real' not in man['defs'] or f'{d}.cdf_real' not in man['defs']:
            continue
        for _ in range(n):
            sv = tuple(min(max(v, -8.0), 8.0) if isinstance(v, float) else v for v in gen.struct_value(d, structs, rng))
            sv = tuple((abs(v) + 0.2 if isinstance(v, float) and abs(v) < 0.2 else v) for v in sv)
            if d == 'Uniform':
                sv = (sv[0], sv[0] + abs(sv[1]) + 0.5)
            elif d in ('Exponential', 'Kumaraswamy', 'UnitPowerLaw'):
                sv = tuple(abs(v) for v in sv)
            elif d in ('Gaussian', 'LogNormal', 'Cauchy'):
                sv = (sv[0], abs(sv[1]))
            p = rng.choice([1e-9, 1 - 1e-9, 0.5, rng.random(), rng.random(), rng.random()])
            l1.append(f'{d}.invcdf_real f64 {enc(sv)} {enc(p)}')
            meta.append((d, sv, p))
    a1, _ = run_pair(l1, want_model=False)
    l2 = [f'{d}.cdf_real f64 {enc(sv)} {a}' for (d, sv, p), a in zip(meta, a1)]
    a2, _ = run_pair(l2, want_model=False)
    failures = []
    suspects = []
    for (d, sv, p), x, c, line in zip(meta, a1, a2, l1):
        if x in ('PANIC', 'HANG') or c in ('PANIC', 'HANG', 'NOOP'):
            failures.append({'site': f'{d}.invcdf_real', 'case': line, 'impl': x, 'expected': 'no panic', 'observed': x.lower(), 'detail': ''})
            continue
        cv = tok_to_float(c)
        if not (abs(cv - p) <= 1e-8):
            suspects.append(((d, sv, p), x, c, line))
    # "up to rounding": where the cdf is steep (density ~1e9 next to an end point) one ulp of the quantile moves the cdf by more
    # than 1e-8; a suspect is a failure only if p lies outside [cdf(x - 2ulp), cdf(x + 2ulp)] widened by 1e-8
    import math as _m
    nb = []
    for (d, sv, p), x, c, line in suspects:
        xv = tok_to_float(x)
        lo = _m.nextafter(_m.nextafter(xv, -_m.inf), -_m.inf)
        hi = _m.nextafter(_m.nextafter(xv, _m.inf), _m.inf)
        nb += [f'{d}.cdf_real f64 {enc(sv)} {enc(lo)}', f'{d}.cdf_real f64 {enc(sv)} {enc(hi)}']
    nbv, _ = run_pair(nb, want_model=False) if nb else ([], None)
    for j, ((d, sv, p), x, c, line) in enumerate(suspects):
        cv = tok_to_float(c)
        try:
            clo, chi = tok_to_float(nbv[2 * j]), tok_to_float(nbv[2 * j + 1])
        except Exception:
            clo = chi = cv
        if min(clo, chi, cv) - 1e-8 <= p <= max(clo, chi, cv) + 1e-8:
            continue
        if True:
            failures.append({'site': f'{d}.invcdf_real', 'case': line, 'impl': f'invcdf={tok_to_float(x)!r} cdf(invcdf)={cv!r}',
                             'expected': f'cdf(invcdf(p)) = {p!r} within 1e-8', 'observed': 'value', 'detail': ''})
    # DiscreteUniform<T> over the integer kinds (hand model Hand.DiscreteUniform.invcdf = a + trunc(p (b-a)); generated cdf at
    # integers): correspondence with the real code, and the clause that holds for this law: invcdf(cdf x) stays in the support
    # and x = a ↦ a ... (the code is NOT the generalised inverse: theorem DiscreteUniform_invcdf_counterexample, recorded)
    RANGE = {'i8': (-128, 127), 'i16': (-32768, 32767), 'i32': (-2 ** 31, 2 ** 31 - 1), 'i64': (-2 ** 40, 2 ** 40), 'u8': (0, 255),
             'u16': (0, 65535), 'u32': (0, 2 ** 32 - 1)}
    dl, dmeta = [], []
    for _ in range(n * 3):
        kind = rng.choice(list(RANGE))
        lo, hi = RANGE[kind]
        w = rng.choice([1, 2, 3, 10, 20, 100, (hi - lo) // 3, hi - lo, hi - lo - 1, (hi - lo) // 2 + 1])     # up to the full range of the type
        a_ = rng.randint(lo, hi - w) if rng.random() < 0.7 else rng.choice([lo, max(lo, -10), max(lo, -1), 0])
        b_ = min(hi, a_ + w)
        if a_ >= b_ or b_ - a_ >= 2 ** 32:
            continue
        p = rng.choice([0.0, 1.0, 1e-12, 1 - 1e-12, 0.5, rng.random(), rng.random()])
        x = rng.randint(a_, b_)
        dl.append(f'hand.DiscreteUniform.invcdf {kind} {a_} {b_} {enc(p)}')
        dmeta.append(('invcdf', kind, a_, b_, p))
        dl.append(f'hand.DiscreteUniform.cdf {kind} {a_} {b_} {x}')
        dmeta.append(('cdf', kind, a_, b_, x))
    di, dm = run_pair(dl)
    bad = []
    for line, (what, kind, a_, b_, arg), ai, am in zip(dl, dmeta, di, dm):
        if am == 'NOOP' or ai == 'NOOP' or am.startswith('BAD'):
            continue
        okc, _ = cmp_tokens(ai, am, 1e-12, 1e-15)
        if not okc:
            bad.append({'line': line, 'impl': ai, 'model': am})
        if ai in ('PANIC', 'HANG'):
            failures.append({'site': 'DiscreteUniform.invcdf_real' if what == 'invcdf' else 'DiscreteUniform.cdf_real', 'case': line, 'impl': ai,
                             'expected': 'a value for valid parameters (a < b) and an argument inside the support', 'observed': ai.lower(), 'detail': what})
        if what == 'cdf' and ai not in ('PANIC', 'HANG', 'NOOP'):
            cv = tok_to_float(ai)
            want = (arg - a_ + 1) / (b_ - a_ + 1) if arg < b_ else 1.0
            if not (abs(cv - want) <= 1e-12):
                failures.append({'site': 'DiscreteUniform.cdf_real', 'case': line, 'impl': repr(cv), 'expected': f'(x - a + 1) / (b - a + 1) = {want!r}',
                                 'observed': 'value' if cv == cv else 'nan', 'detail': 'closed form of the discrete uniform cdf'})
        if what == 'invcdf' and ai not in ('PANIC', 'HANG'):
            v = int(ai)
            if not (a_ <= v <= b_):
                failures.append({'site': 'DiscreteUniform.invcdf_real', 'case': line, 'impl': ai, 'expected': f'a quantile inside the support [{a_}, {b_}]',
                                 'observed': 'value', 'detail': 'quantile outside the support'})
            elif arg <= 1e-12 and v != a_:
                failures.append({'site': 'DiscreteUniform.invcdf_real', 'case': line, 'impl': ai, 'expected': f'invcdf(p -> 0) = a = {a_}',
                                 'observed': 'value', 'detail': 'lower tail'})
    # KsTwoAsymptotic (cdf / invcdf are stub ops: Newton + bisection solver, not translated): round trips on the implementation
    if 'KsTwoAsymptotic.invcdf_real' in man['defs'] and 'KsTwoAsymptotic.cdf_real' in man['defs']:
        import math
        kx = [0.05, 0.08, 0.12, 0.17, 0.25, 0.5, 0.82, 0.83, 1.0, 1.5, 2.0] + [math.exp(rng.uniform(math.log(0.05), math.log(2.5))) for _ in range(n // 2)]
        k1 = [f'KsTwoAsymptotic.cdf_real f64 {enc(x)}' for x in kx]
        c1, _ = run_pair(k1, want_model=False)
        ok_idx = [i for i, c in enumerate(c1) if c.startswith('x') and 0.0 < tok_to_float(c) < 1.0]
        k2 = [f'KsTwoAsymptotic.invcdf_real f64 {c1[i]}' for i in ok_idx]
        c2, _ = run_pair(k2, want_model=False)
        for i, line, a in zip(ok_idx, k2, c2):
            if a in ('NOOP',):
                break
            back = tok_to_float(a) if a.startswith('x') else float('nan')
            # where the cdf is flat to binary64 (p within a few ulps of 1) the inverse is not determined: judge through the cdf
            if not (abs(back - kx[i]) <= 1e-9 * kx[i]) and tok_to_float(c1[i]) < 1.0 - 1e-9:
                failures.append({'site': 'KsTwoAsymptotic.invcdf_real', 'case': line, 'impl': a, 'expected': f'invcdf(cdf(x)) = x = {kx[i]!r} within 1e-9 relative',
                                 'observed': 'panic' if a in ('PANIC', 'HANG') else 'value', 'detail': f'x = {kx[i]!r}, cdf = {c1[i]}'})
    obligations = [{'name': 'corr:DiscreteUniform.invcdf/cdf(integer kinds, hand model)', 'kind': 'corr', 'ok': not bad, 'site': 'DiscreteUniform.invcdf_real',
                    'detail': (bad[0]['line'] + ' impl=' + bad[0]['impl'] + ' model=' + bad[0]['model']) if bad else '', 'cases': bad[:3]}]
    return {'obligations': obligations, 'failures': failures,
            'stats': {'evaluations': 2 * len(l1) + len(dl), 'distinct_nontrivial': len(set(l1)) + len(set(dl))},
            'samples': l1[:2] + dl[:1]}
