"""C12 — quantile function is the inverse of the CDF."""
from props import _generic
import random
from checklib.core import enc, run_pair, tok_to_float
from checklib import gen

LEAN_DEPS = ['RvModel.Spec.C12', 'RvModel.Lemmas.C12', 'RvModel.Hand.C12', 'RvModel.Hand.DispatchAll']
TRUSTED = ['Spec/C12.lean textbook quantile functions; erf bijectivity is proved (Lemmas/C12.lean), not assumed']
ASSUMPTIONS = ['p in the open interval (0,1); special::inv_error computes the inverse error function (far-tail accuracy only sampled)']
N_GEN = {'quick': 12, 'thorough': 150}
_generic.install(globals(), 'C12', methods=('invcdf', 'quantile', 'interval'), n_spec=(60, 800))

ROUND = ['Exponential', 'Uniform', 'Cauchy', 'Kumaraswamy', 'UnitPowerLaw', 'Gaussian', 'LogNormal']


def extra_run(man, tier, seed):
    """round trip cdf(invcdf(p)) = p on the implementation itself (moderate parameters: representable quantiles)"""
    rng = random.Random(seed * 13 + 5)
    n = 60 if tier == 'quick' else 1500
    structs = man['structs']
    l1, meta = [], []
    for d in ROUND:
        if f'{d}.invcdf_real' not in man['defs'] or f'{d}.cdf_real' not in man['defs']:
            continue
        for _ in range(n):
            sv = tuple(min(max(v, -8.0), 8.0) if isinstance(v, float) else v for v in gen.struct_value(d, structs, rng))
            sv = tuple((abs(v) + 0.2 if isinstance(v, float) and abs(v) < 0.2 else v) for v in sv)
            if d == 'Uniform':
                sv = (sv[0], sv[0] + abs(sv[1]) + 0.5)
            elif d in ('Exponential', 'Kumaraswamy', 'UnitPowerLaw'):
                sv = tuple(abs(v) for v in sv)
            elif d in ('Gaussian', 'LogNormal', 'Cauchy'):
                sv = (sv[0], abs(sv[1]))
            p = rng.choice([1e-9, 1 - 1e-9, 0.5, rng.random(), rng.random(), rng.random()])
            l1.append(f'{d}.invcdf_real f64 {enc(sv)} {enc(p)}')
            meta.append((d, sv, p))
    a1, _ = run_pair(l1, want_model=False)
    l2 = [f'{d}.cdf_real f64 {enc(sv)} {a}' for (d, sv, p), a in zip(meta, a1)]
    a2, _ = run_pair(l2, want_model=False)
    failures = []
    for (d, sv, p), x, c, line in zip(meta, a1, a2, l1):
        if x in ('PANIC', 'HANG') or c in ('PANIC', 'HANG', 'NOOP'):
            failures.append({'site': f'{d}.invcdf_real', 'case': line, 'impl': x, 'expected': 'no panic', 'observed': x.lower(), 'detail': ''})
            continue
        cv = tok_to_float(c)
        if not (abs(cv - p) <= 1e-8):
            failures.append({'site': f'{d}.invcdf_real', 'case': line, 'impl': f'invcdf={tok_to_float(x)!r} cdf(invcdf)={cv!r}',
                             'expected': f'cdf(invcdf(p)) = {p!r} within 1e-8', 'observed': 'value', 'detail': ''})
    return {'obligations': [], 'failures': failures, 'stats': {'evaluations': 2 * len(l1), 'distinct_nontrivial': len(set(l1))},
            'samples': l1[:2]}
