"""C11 — a mixture behaves as the weighted sum of its components."""
import os, re, subprocess, sys
from checklib import core

ID = 'C11'
LEAN_DEPS = ['RvModel.Hand.Mixture', 'RvModel.Lemmas.C11', 'RvModel.Hand.DispatchAll']
TRUSTED = ['hand model Hand/Mixture.lean over an abstract component family (tied by the correspondence run of props/cases_c11.py; '
           'lnF calls the generated Gen.logsumexp, drawIndex the generated cumsum/catflip)',
           'consistency f_k = exp(ln f_k) of the components is a hypothesis of the mixture theorems (proved per distribution in C02)']
ASSUMPTIONS = ['components in the correspondence run: Gaussian, Poisson, Bernoulli, and (parameter-dependent supports) Pareto, Uniform, '
               'Categorical of different sizes; f32 moments with Laplace / Uniform / Exponential components',
               'Entropy for Mixture<Gaussian>: hand model of the quadrature (break points, 16-point rule) compared with the implementation at the '
               "implementation's own quad_bounds(); accuracy against -∫ f ln f judged only for modes in [-3,3] and widths within a factor 10 "
               '(bound 6e-2; the unchanged rule is off by up to 0.7 for widely separated narrow components: recorded, not judged)',
               'entropies of Mixture<Poisson> (count_entropy_range sweep), Mixture<Bernoulli> (sign as coded), Mixture<Categorical>: hand models compared '
               'with the implementation; Poisson and Categorical also against -Σ f ln f by enumeration (5e-9 relative)',
               'existence of mean / variance: StudentsT, InvGamma, InvChiSquared, ScaledInvChiSquared, Pareto components with parameters straddling '
               'the thresholds, compared with the model at the implementation\'s own component moments']
N_GEN = {'quick': 0, 'thorough': 0}
KNOWN = {'accepted_NaN_weight': ('Mixture.validate_weights', 'nan_weight'), 'draw_zero_weight': ('Mixture.draw', 'variate_zero')}


# class of a failing case (first column of a FAIL line of cases_c11.py) -> Rust site
SITE = {'cache': 'Mixture.set_weights', 'hist': 'Mixture.set_weights', 'pareto': 'Mixture.pdf', 'unif': 'Mixture.pdf', 'cat': 'Mixture.pmf',
        'f32': 'Mixture.variance', 'f64': 'Mixture.variance', 'pois.entropy': 'Mixture.entropy', 'pois.entropy.reference': 'Mixture.entropy',
        'bern.entropy': 'Mixture.entropy', 'cat.entropy': 'Mixture.entropy', 'cat.entropy.reference': 'Mixture.entropy', 'gauss.entropy': 'Mixture.entropy', 'gauss.entropy.reference': 'Mixture.entropy',
        'gauss.quad_bounds': 'Mixture.quad_bounds', 'set_weights': 'Mixture.set_weights', 'new': 'Mixture.new', 'combine': 'Mixture.combine'}


def gen_ops(man):
    return []


def extra_run(man, tier, seed):
    n = 60 if tier == 'quick' else 2500
    script = os.path.join(os.path.dirname(__file__), 'cases_c11.py')
    p = subprocess.run([sys.executable, script, core.harness_path(), core.driver_path(), str(seed + 10), str(n)],
                       capture_output=True, text=True, timeout=3000)
    out = p.stdout
    m = re.search(r'cases: (\d+)', out)
    ncases = int(m.group(1)) if m else 0
    m = re.search(r'mismatches beyond tolerance: (\d+)', out)
    nmis = int(m.group(1)) if m else -1
    fail_lines = [l.split('\t') for l in out.split('\n') if l.startswith('FAIL\t')]
    fail_lines = [f for f in fail_lines if len(f) >= 5]
    obligations = [{'name': 'corr:Mixture(hand model)', 'kind': 'corr', 'ok': nmis == 0 and ncases > 0, 'site': 'Mixture',
                    'detail': '\n'.join(f'{f[1]}: {f[2][:300]} -> impl {f[3][:120]} expected {f[4][:160]}' for f in fail_lines[:4])[:1500]
                              or p.stderr[-300:],
                    'cases': [{'line': f[2][:2000], 'impl': f[3][:400], 'model': f[4][:400]} for f in fail_lines[:5]]}]
    failures = []
    for f in fail_lines[:40]:
        failures.append({'site': SITE.get(f[1]) or SITE.get(f[1].split('.')[0]) or 'Mixture.' + f[1],
                         'case': f[2][:3000], 'impl': f[3][:600], 'expected': f[4][:600], 'observed': 'panic' if f[3] == 'PANIC' else 'value',
                         'detail': f'{f[1]}: implementation answer differs from the model / definition', 'cls': f[1]})
    cur = None
    for l in out.split('\n'):
        mm = re.match(r'finding (\w+) (\d+)', l)
        if mm:
            cur = mm.group(1)
            continue
        if cur and l.startswith('    ') and l.strip():
            site, cls = KNOWN.get(cur, ('Mixture.' + cur, cur))
            failures.append({'site': site, 'case': l.strip()[:600], 'impl': '', 'expected': f'no `{cur}`', 'observed': cur, 'detail': cur, 'cls': cls})
    # variance of Gaussian mixtures against the shifted (cancellation-free) form  Σ w_k ((mu_k - m)^2 + s_k^2),  m = Σ w_k mu_k:
    # the code evaluates Σ w (s^2 + mu^2) - m^2, which is the same real number (theorem C11.variance_eq) but cancels for
    # |mean| >> spread — "a one-component mixture is its component" then fails in binary64
    import random as _random, math as _math
    from checklib.core import enc as _enc, run_pair as _run_pair, tok_to_float as _t2f
    rng = _random.Random(seed * 71 + 3)
    vl, vw = [], []
    for _ in range(30 if tier == 'quick' else 600):
        k = rng.choice([1, 1, 2, 3])
        w = [rng.random() + 0.05 for _ in range(k)]
        tot = sum(w)
        w = [x / tot for x in w]
        base = rng.choice([0.0, 1.0, 1e3, 1e6, 1e9]) * rng.choice([-1, 1])
        mus = [base + rng.uniform(-2, 2) for _ in range(k)]
        sig = [_math.exp(rng.uniform(-1.5, 1.5)) for _ in range(k)]
        m = _math.fsum(a * b for a, b in zip(w, mus))
        want = _math.fsum(a * ((b - m) ** 2 + c * c) for a, b, c in zip(w, mus, sig))
        flat = [v for pair in zip(mus, sig) for v in pair]
        vl.append(f'mix.gauss.variance - {_enc(w)} L{k} ' + ' '.join(_enc(v) for v in flat))
        vw.append((want, abs(base)))
    vi, _ = _run_pair(vl, want_model=False)
    for l, a, (want, base) in zip(vl, vi, vw):
        toks = a.split()
        got = _t2f(toks[1]) if len(toks) == 2 and toks[0] == 'S' else float('nan')
        if not (abs(got - want) <= 1e-6 * want):
            failures.append({'site': 'Mixture.variance', 'case': l[:3000], 'impl': a, 'expected': repr(want), 'observed': 'value',
                             'detail': f'variance {got!r} vs shifted form {want!r} (|mean| ~ {base:g})', 'cls': 'large_mean_cancellation', 'base': base})
    return {'obligations': obligations, 'failures': failures, 'stats': {'evaluations': ncases + len(vl), 'distinct_nontrivial': ncases + len(vl)},
            'samples': [l.strip()[:200] for l in out.split('\n')[1:4]]}


INPUT_CLASSES = {'large_mean_cancellation': lambda f: f.get('cls') == 'large_mean_cancellation' and f.get('base', 0) >= 1e3,
                 'nan_weight': lambda f: f.get('cls') == 'nan_weight', 'variate_zero': lambda f: f.get('cls') == 'variate_zero'}
