"""C11 — a mixture behaves as the weighted sum of its components."""
import os, re, subprocess, sys
from checklib import core

ID = 'C11'
LEAN_DEPS = ['RvModel.Hand.Mixture', 'RvModel.Lemmas.C11', 'RvModel.Hand.DispatchAll']
TRUSTED = ['hand model Hand/Mixture.lean over an abstract component family (tied by the correspondence run of props/cases_c11.py; '
           'lnF calls the generated Gen.logsumexp, drawIndex the generated cumsum/catflip)',
           'consistency f_k = exp(ln f_k) of the components is a hypothesis of the mixture theorems (proved per distribution in C02)']
ASSUMPTIONS = ['components in the correspondence run: Gaussian, Poisson, Bernoulli, and (parameter-dependent supports) Pareto, Uniform, '
               'Categorical of different sizes; f32 moments with Laplace / Uniform / Exponential components',
               'Entropy for Mixture<Gaussian>: hand model of the quadrature (break points, 16-point rule) compared with the implementation at the '
               "implementation's own quad_bounds(); accuracy against -∫ f ln f judged only for modes in [-3,3] and widths within a factor 10 "
               '(bound 6e-2; the unchanged rule is off by up to 0.7 for widely separated narrow components: recorded, not judged)',
               'entropies of Mixture<Poisson> (count_entropy_range sweep), Mixture<Bernoulli> (sign as coded), Mixture<Categorical>: hand models compared '
               'with the implementation; Poisson and Categorical also against -Σ f ln f by enumeration (5e-9 relative)',
               'existence of mean / variance: StudentsT, InvGamma, InvChiSquared, ScaledInvChiSquared, Pareto components with parameters straddling '
               'the thresholds, compared with the model at the implementation\'s own component moments']
N_GEN = {'quick': 0, 'thorough': 0}
KNOWN = {'accepted_NaN_weight': ('Mixture.validate_weights', 'nan_weight'), 'draw_zero_weight': ('Mixture.draw', 'variate_zero')}


# class of a failing case (first column of a FAIL line of cases_c11.py) -> Rust site
SITE = {'cache': 'Mixture.set_weights', 'hist': 'Mixture.set_weights', 'pareto': 'Mixture.pdf', 'unif': 'Mixture.pdf', 'cat': 'Mixture.pmf',
        'f32': 'Mixture.variance', 'f64': 'Mixture.variance', 'pois.entropy': 'Mixture.entropy', 'pois.entropy.reference': 'Mixture.entropy',
        'bern.entropy': 'Mixture.entropy', 'cat.entropy': 'Mixture.entropy', 'cat.entropy.reference': 'Mixture.entropy', 'gauss.entropy': 'Mixture.entropy', 'gauss.entropy.reference': 'Mixture.entropy',
        'gauss.quad_bounds': 'Mixture.quad_bounds', 'set_weights': 'Mixture.set_weights', 'new': 'Mixture.new', 'combine': 'Mixture.combine'}


def gen_ops(man):
    return []


def extra_run(man, tier, seed):
    n = 60 if tier == 'quick' else 2500
    script = os.path.join(os.path.dirname(__file__), 'cases_c11.py')
    p = subprocess.run([sys.executable, script, core.harness_path(), core.driver_path(), str(seed + 10), str(n)],
                       capture_output=True, text=True, timeout=3000)
    out = p.stdout
    m = re.search(r'cases: (\d+)', out)
    ncases = int(m.group(1)) if m else 0
    m = re.search(r'mismatches beyond tolerance: (\d+)', out)
    nmis = int(m.group(1)) if m else -1
    fail_lines = [l.split('\t') for l in out.split('\n') if l.startswith('FAIL\t')]
    fail_lines = [f for f in fail_lines if len(f) >= 5]
    obligations = [{'name': 'corr:Mixture(hand model)', 'kind': 'corr', 'ok': nmis == 0 and ncases > 0, 'site': 'Mixture',
                    'detail': '\n'.join(f'{f[1]}: {f[2][:300]} -> impl {f[3][:120]} expected {f[4][:160]}' for f in fail_lines[:4])[:1500]
                              or p.stderr[-300:],
                    'cases': [{'line': f[2][:2000], 'impl': f[3][:400], 'model': f[4][:400]} for f in fail_lines[:5]]}]
    failures = []
    for f in fail_lines[:40]:
        failures.append({'site': SITE.get(f[1]) or SITE.get(f[1].split('.')[0]) or 'Mixture.' + f[1],
                         'case': f[2][:3000], 'impl': f[3][:600], 'expected': f[4][:600], 'observed': 'panic' if f[3] == 'PANIC' else 'value',
                         'detail': f'{f[1]}: implementation answer differs from the model / definition', 'cls': f[1]})
    cur = None
    for l in out.split('\n'):
        mm = re.match(r'finding (\w+) (\d+)', l)
        if mm:
            cur = mm.group(1)
            continue
        if cur and l.startswith('    ') and l.strip():
            site, cls = KNOWN.get(cur, ('Mixture.' + cur, cur))
            failures.append({'site': site, 'case': l.strip()[:600], 'impl': '', 'expected': f'no `{cur}`', 'observed': cur, 'detail': cur, 'cls': cls})
    return {'obligations': obligations, 'failures': failures, 'stats': {'evaluations': ncases, 'distinct_nontrivial': ncases},
            'samples': [l.strip()[:200] for l in out.split('\n')[1:4]]}


INPUT_CLASSES = {'nan_weight': lambda f: f.get('cls') == 'nan_weight', 'variate_zero': lambda f: f.get('cls') == 'variate_zero'}
