"""C11 — a mixture behaves as the weighted sum of its components."""
import os, re, subprocess, sys
from checklib import core

ID = 'C11'
LEAN_DEPS = ['RvModel.Hand.Mixture', 'RvModel.Lemmas.C11', 'RvModel.Hand.DispatchAll']
TRUSTED = ['hand model Hand/Mixture.lean over an abstract component family (tied by the correspondence run of props/cases_c11.py; '
           'lnF calls the generated Gen.logsumexp, drawIndex the generated cumsum/catflip)',
           'consistency f_k = exp(ln f_k) of the components is a hypothesis of the mixture theorems (proved per distribution in C02)']
ASSUMPTIONS = ['components: Gaussian, Poisson, Bernoulli in the correspondence run; entropy macros and Categorical components not covered']
N_GEN = {'quick': 0, 'thorough': 0}
KNOWN = {'accepted_NaN_weight': ('Mixture.validate_weights', 'nan_weight'), 'draw_zero_weight': ('Mixture.draw', 'variate_zero')}


def gen_ops(man):
    return []


def extra_run(man, tier, seed):
    n = 60 if tier == 'quick' else 2500
    script = os.path.join(os.path.dirname(__file__), 'cases_c11.py')
    p = subprocess.run([sys.executable, script, core.harness_path(), core.driver_path(), str(seed + 10), str(n)],
                       capture_output=True, text=True, timeout=3000)
    out = p.stdout
    m = re.search(r'cases: (\d+)', out)
    ncases = int(m.group(1)) if m else 0
    m = re.search(r'mismatches beyond tolerance: (\d+)', out)
    nmis = int(m.group(1)) if m else -1
    obligations = [{'name': 'corr:Mixture(hand model)', 'kind': 'corr', 'ok': nmis == 0 and ncases > 0, 'site': 'Mixture',
                    'detail': '\n'.join(l for l in out.split('\n') if 'MISMATCH' in l or l.startswith('      '))[:900] or p.stderr[-300:],
                    'cases': [{'line': l.strip()[:400], 'impl': '', 'model': ''} for l in out.split('\n') if l.startswith('      ') and 'mix.' in l][:3]}]
    failures = []
    cur = None
    for l in out.split('\n'):
        mm = re.match(r'finding (\w+) (\d+)', l)
        if mm:
            cur = mm.group(1)
            continue
        if cur and l.startswith('    ') and l.strip():
            site, cls = KNOWN.get(cur, ('Mixture.' + cur, cur))
            failures.append({'site': site, 'case': l.strip()[:600], 'impl': '', 'expected': f'no `{cur}`', 'observed': cur, 'detail': cur, 'cls': cls})
    return {'obligations': obligations, 'failures': failures, 'stats': {'evaluations': ncases, 'distinct_nontrivial': ncases},
            'samples': [l.strip()[:200] for l in out.split('\n')[1:4]]}


INPUT_CLASSES = {'nan_weight': lambda f: f.get('cls') == 'nan_weight', 'variate_zero': lambda f: f.get('cls') == 'variate_zero'}
