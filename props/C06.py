"""C06 — marginal likelihood and posterior predictive obey the probability chain rule."""
import random, math
from checklib import gen
from checklib.core import enc, run_pair, tok_to_float
from props._conj import PAIRS, op, data_tok, datasets

ID = 'C06'
LEAN_DEPS = ['RvModel.Lemmas.C06', 'RvModel.Hand.StickConj', 'RvModel.Lemmas.C05S', 'RvModel.Hand.DispatchAll']
TRUSTED = ['the identities are stated among generated functions only (no Spec): chain rule, ln_m([]) = 0, permutation, cached = uncached']
ASSUMPTIONS = ['Gen.ln_fact is opaque in the Gamma-Poisson chain rule (exact up to ln_fact(y) - lnGamma(y+1), see C14)',
               'Student-t and Dirichlet normalisation integrals are not in Mathlib: predictive normalisation of the Gaussian pairs is partial']
EXTRA_PROPS = ['RvModel/Props/C05S.lean']     # the StickBreaking theorems live in one file shared with C05
N_GEN = {'quick': 6, 'thorough': 80}
METHODS = ('ln_m', 'ln_m_cache', 'ln_m_with_cache', 'ln_pp', 'ln_pp_cache', 'ln_pp_with_cache', 'm', 'pp', 'pp_with_cache')


def gen_ops(man):
    return [n for n, d in man['defs'].items() if d['name'] in METHODS and d['file'].startswith('dist/')]


def extra_run(man, tier, seed):
    out = extra_run_pairs(man, tier, seed)
    from props import _stick
    st = _stick.stick_extra('C06', tier, seed)
    out['obligations'] = out.get('obligations', []) + st['obligations']
    out['failures'] += st['failures']
    for k_, v_ in st['stats'].items():
        out['stats'][k_] = out['stats'].get(k_, 0) + v_
    out['samples'] = out.get('samples', []) + st['samples'][:2]
    return out


def extra_run_pairs(man, tier, seed):
    rng = random.Random(seed * 23 + 11)
    nsets = 12 if tier == 'quick' else 300
    structs = man['structs']
    lines, meta = [], []
    pvs = {}
    for prior, lik, kind, suf, obs, stat in PAIRS:
        lnm, lnpp = op(prior, 'ln_m', suf, lik), op(prior, 'ln_pp', suf, lik)
        if lnm not in man['defs'] or lnpp not in man['defs']:
            continue
        for _ in range(nsets):
            pv = gen.struct_value(prior, structs, rng)
            for xs in datasets(rng, obs, pv, 1):
                y = obs(rng, pv)
                ys = rng.sample(xs, len(xs))
                base = len(lines)
                lines += [f'{lnm} {kind} {enc(pv)} {data_tok(xs)}', f'{lnm} {kind} {enc(pv)} {data_tok(xs + [y])}',
                          f'{lnpp} {kind} {enc(pv)} {enc(y)} {data_tok(xs)}', f'{lnm} {kind} {enc(pv)} {data_tok(ys)}',
                          f'{lnm} {kind} {enc(pv)} {data_tok([])}']
                meta.append((prior, base, xs, y))
                pvs[base] = pv
    impl, _ = run_pair(lines, want_model=False)
    failures = []
    for prior, b, xs, y in meta:
        try:
            m_x, m_xy, pp, m_perm, m_empty = [tok_to_float(impl[b + i]) for i in range(5)]
        except Exception:
            failures.append({'site': f'{prior}.ln_m', 'case': lines[b], 'impl': ' '.join(impl[b:b + 5]), 'expected': 'numbers',
                             'observed': 'panic', 'detail': ''})
            continue
        scale = max(1.0, abs(m_x), abs(m_xy))
        big = prior == 'Gamma' and isinstance(y, int) and (y >= 254 or any(v >= 254 for v in xs))
        if not (abs(pp - (m_xy - m_x)) <= 1e-9 * scale):
            failures.append({'site': f'{prior}.ln_pp', 'case': lines[b + 2], 'impl': repr(pp), 'expected': f'ln_m(x,y)-ln_m(x) = {m_xy - m_x!r}',
                             'observed': 'value', 'detail': 'chain rule', 'ln_fact_stirling': big})
        if not (abs(m_perm - m_x) <= 1e-9 * scale):
            failures.append({'site': f'{prior}.ln_m', 'case': lines[b + 3], 'impl': repr(m_perm), 'expected': repr(m_x), 'observed': 'value',
                             'detail': 'permutation invariance'})
        # "zero" up to the rounding of the normaliser's own terms: ln_m(no data) is ln_z(posterior) - ln_z(prior) with the
        # general update evaluated at n = 0 (cancelling terms like m^2/v) and multiplied by the shape, so the slack scales
        # with products of the hyper-parameters (same rule as C05's "posterior of no data = prior")
        mag = sum(abs(float(v)) for v in (pvs[b] if isinstance(pvs[b], (list, tuple)) else [pvs[b]])
                  if isinstance(v, (int, float)) and not isinstance(v, bool)) + 1.0
        # a tiny hyper-parameter amplifies the cancellation error relative to itself (ln s with s = 1e-3): include reciprocals
        mag += sum(1.0 / abs(float(v)) for v in (pvs[b] if isinstance(pvs[b], (list, tuple)) else [pvs[b]])
                   if isinstance(v, (int, float)) and not isinstance(v, bool) and v != 0)
        if not (abs(m_empty) <= 1e-9 + 1e-15 * mag ** 3):
            failures.append({'site': f'{prior}.ln_m', 'case': lines[b + 4], 'impl': repr(m_empty), 'expected': '0', 'observed': 'value',
                             'detail': 'ln_m of no data'})
    return {'obligations': [], 'failures': failures, 'stats': {'evaluations': len(lines), 'distinct_nontrivial': len(set(lines))},
            'samples': lines[:3]}


INPUT_CLASSES = {'sb_both_arm_underflow': (lambda f: f.get('cls') == 'sb_both_arm_underflow'), 'ln_fact_stirling': lambda f: bool(f.get('ln_fact_stirling'))}
