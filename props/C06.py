"""C06 — marginal likelihood and posterior predictive obey the probability chain rule."""
import random, math
from checklib import gen
from checklib.core import enc, run_pair, tok_to_float
from props._conj import PAIRS, op, data_tok, datasets

ID = 'C06'
LEAN_DEPS = ['RvModel.Lemmas.C06']
TRUSTED = ['the identities are stated among generated functions only (no Spec): chain rule, ln_m([]) = 0, permutation, cached = uncached']
ASSUMPTIONS = ['Gen.ln_fact is opaque in the Gamma-Poisson chain rule (exact up to ln_fact(y) - lnGamma(y+1), see C14)',
               'Student-t and Dirichlet normalisation integrals are not in Mathlib: predictive normalisation of the Gaussian pairs is partial']
N_GEN = {'quick': 6, 'thorough': 80}
METHODS = ('ln_m', 'ln_m_cache', 'ln_m_with_cache', 'ln_pp', 'ln_pp_cache', 'ln_pp_with_cache', 'm', 'pp', 'pp_with_cache')


def gen_ops(man):
    return [n for n, d in man['defs'].items() if d['name'] in METHODS and d['file'].startswith('dist/')]


def extra_run(man, tier, seed):
    rng = random.Random(seed * 23 + 11)
    nsets = 12 if tier == 'quick' else 300
    structs = man['structs']
    lines, meta = [], []
    for prior, lik, kind, suf, obs, stat in PAIRS:
        lnm, lnpp = op(prior, 'ln_m', suf, lik), op(prior, 'ln_pp', suf, lik)
        if lnm not in man['defs'] or lnpp not in man['defs']:
            continue
        for _ in range(nsets):
            pv = gen.struct_value(prior, structs, rng)
            for xs in datasets(rng, obs, pv, 1):
                y = obs(rng, pv)
                ys = rng.sample(xs, len(xs))
                base = len(lines)
                lines += [f'{lnm} {kind} {enc(pv)} {data_tok(xs)}', f'{lnm} {kind} {enc(pv)} {data_tok(xs + [y])}',
                          f'{lnpp} {kind} {enc(pv)} {enc(y)} {data_tok(xs)}', f'{lnm} {kind} {enc(pv)} {data_tok(ys)}',
                          f'{lnm} {kind} {enc(pv)} {data_tok([])}']
                meta.append((prior, base, xs, y))
    impl, _ = run_pair(lines, want_model=False)
    failures = []
    for prior, b, xs, y in meta:
        try:
            m_x, m_xy, pp, m_perm, m_empty = [tok_to_float(impl[b + i]) for i in range(5)]
        except Exception:
            failures.append({'site': f'{prior}.ln_m', 'case': lines[b], 'impl': ' '.join(impl[b:b + 5]), 'expected': 'numbers',
                             'observed': 'panic', 'detail': ''})
            continue
        scale = max(1.0, abs(m_x), abs(m_xy))
        big = prior == 'Gamma' and isinstance(y, int) and (y >= 254 or any(v >= 254 for v in xs))
        if not (abs(pp - (m_xy - m_x)) <= 1e-9 * scale):
            failures.append({'site': f'{prior}.ln_pp', 'case': lines[b + 2], 'impl': repr(pp), 'expected': f'ln_m(x,y)-ln_m(x) = {m_xy - m_x!r}',
                             'observed': 'value', 'detail': 'chain rule', 'ln_fact_stirling': big})
        if not (abs(m_perm - m_x) <= 1e-9 * scale):
            failures.append({'site': f'{prior}.ln_m', 'case': lines[b + 3], 'impl': repr(m_perm), 'expected': repr(m_x), 'observed': 'value',
                             'detail': 'permutation invariance'})
        if not (abs(m_empty) <= 1e-9):
            failures.append({'site': f'{prior}.ln_m', 'case': lines[b + 4], 'impl': repr(m_empty), 'expected': '0', 'observed': 'value',
                             'detail': 'ln_m of no data'})
    return {'obligations': [], 'failures': failures, 'stats': {'evaluations': len(lines), 'distinct_nontrivial': len(set(lines))},
            'samples': lines[:3]}


INPUT_CLASSES = {'ln_fact_stirling': lambda f: bool(f.get('ln_fact_stirling'))}
