"""C16 — covariance kernels are valid, self-consistent and correctly differentiated."""
import os, re, subprocess, sys, json, ast, tempfile
from checklib import core

ID = 'C16'
LEAN_DEPS = ['RvModel.Hand.Kernel', 'RvModel.Lemmas.C16', 'RvModel.Hand.DispatchAll']
TRUSTED = ['hand model Hand/Kernel.lean of the seven leaf kernels and the Add/Product combinators (tied by exact correspondence on random '
           'kernel trees of any depth, tools/c16_validate.py)', 'positive semi-definiteness of the rbf/seard/rq/matern leaf families is a hypothesis (LeafPSD)']
ASSUMPTIONS = ['theorems are by structural induction over kernel trees whose leaves satisfy the leaf lemma; defective leaves have counterexample theorems']
N_GEN = {'quick': 0, 'thorough': 0}


def gen_ops(man):
    return []


def extra_run(man, tier, seed):
    n = 120 if tier == 'quick' else 2500
    script = os.path.join(core.ROOT, 'tools', 'c16_validate.py')
    with tempfile.NamedTemporaryFile(suffix='.json', dir=os.path.join(core.ROOT, 'evidence'), delete=False) as tf:
        jpath = tf.name
    p = subprocess.run([sys.executable, script, '--harness', core.harness_path(), '--driver', core.driver_path(), '--n', str(n),
                        '--seed', str(seed + 2), '--json', jpath], capture_output=True, text=True, timeout=3000)
    try:
        d = json.load(open(jpath))
    except Exception:
        d = {'cases': 0, 'mismatches': [{'line': p.stderr[-300:]}], 'defects': {}, 'stats': {}}
    finally:
        try:
            os.remove(jpath)
        except OSError:
            pass
    mism = d['mismatches']
    obligations = [{'name': 'corr:Kernel(hand model)', 'kind': 'corr', 'ok': not mism and d['cases'] > 0, 'site': 'Kernel',
                    'detail': (json.dumps(mism[0])[:500] if mism else ''), 'cases': [{'line': m.get('line', '')[:300], 'impl': m.get('impl', '')[:100], 'model': m.get('model', '')[:100]} for m in mism[:3]]}]
    failures = []
    for key, wit in sorted(d['defects'].items()):
        check, kind, level = [x.strip() for x in key.split('|')]
        if level != 'leaf':
            continue
        failures.append({'site': f'{kind}', 'case': (wit[0] if wit else '')[:700], 'impl': '', 'expected': f'no `{check}`', 'observed': check,
                         'detail': check})
    m = re.search(r'^  counts: (\{.*\})\s*$', p.stdout, re.M)
    if m:
        try:
            cnt = ast.literal_eval(m.group(1))
        except Exception:
            cnt = {'unparsed': 1}
        for check, c in cnt.items():
            w = re.search(rf'^  {re.escape(check)}: (.*)$', p.stdout, re.M)
            failures.append({'site': 'combinator', 'case': (w.group(1) if w else '')[:700], 'impl': '', 'expected': f'no `{check}` on trees of good leaves',
                             'observed': check, 'detail': f'{c} trees'})
    lines = int(d.get('stats', {}).get('lines', 0))
    return {'obligations': obligations, 'failures': failures, 'stats': {'evaluations': lines, 'distinct_nontrivial': lines, 'trees': d['cases']},
            'samples': [l for l in p.stdout.split('\n')[:2]]}


INPUT_CLASSES = {}
