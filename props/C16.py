"""C16 — covariance kernels are valid, self-consistent and correctly differentiated."""
import os, subprocess, sys, json, tempfile
from checklib import core

ID = 'C16'
LEAN_DEPS = ['RvModel.Hand.Kernel', 'RvModel.Lemmas.C16', 'RvModel.Hand.DispatchAll']
TRUSTED = ['hand model Hand/Kernel.lean of the seven leaf kernels and the Add/Product combinators (tied by exact correspondence on random '
           'kernel trees of any depth, tools/c16_validate.py)', 'positive semi-definiteness of the rbf/seard/rq/matern leaf families is a hypothesis (LeafPSD)',
           'textbook closed forms of the Matérn covariance for ν = 1/2, 3/2, 5/2 (Hand.Kernel.maternClosed, GPML eq. 4.17) as oracle of the Matérn leaf']
ASSUMPTIONS = ['theorems are by structural induction over kernel trees whose leaves satisfy the leaf lemma; defective leaves have counterexample theorems']
N_GEN = {'quick': 0, 'thorough': 0}
# cases of tools/c16_validate.py: a rotation leaf / op(leaf, leaf) (all 98 combinations, unequal parameter counts first) /
# depth-2 shapes / random trees, 16 op lines each (+ 4 difference-quotient lines per parameter)
N_CASES = {'quick': 320, 'thorough': 2500}


def gen_ops(man):
    return []


def extra_run(man, tier, seed):
    n = N_CASES['quick' if tier == 'quick' else 'thorough']
    script = os.path.join(core.ROOT, 'tools', 'c16_validate.py')
    with tempfile.NamedTemporaryFile(suffix='.json', dir=os.path.join(core.ROOT, 'evidence'), delete=False) as tf:
        jpath = tf.name
    p = subprocess.run([sys.executable, script, '--harness', core.harness_path(), '--driver', core.driver_path(), '--n', str(n),
                        '--seed', str(seed + 2), '--json', jpath], capture_output=True, text=True, timeout=3000)
    try:
        d = json.load(open(jpath))
    except Exception:
        d = {'cases': 0, 'mismatches': [{'line': '', 'impl': '', 'model': '', 'tag': 'script', 'diff': p.stderr[-300:]}], 'findings': [],
             'combinator': [], 'stats': {}}
    finally:
        try:
            os.remove(jpath)
        except OSError:
            pass
    mism = d['mismatches']
    obligations = [{'name': 'corr:Kernel(hand model)', 'kind': 'corr', 'ok': not mism and d['cases'] > 0, 'site': 'Kernel',
                    'detail': (json.dumps({k: str(v)[:160] for k, v in mism[0].items()})[:700] if mism else ''),
                    'cases': [{'line': m.get('line', ''), 'impl': m.get('impl', '')[:200], 'model': m.get('model', '')[:200]} for m in mism[:3]]}]
    failures = []
    # a disagreement model / implementation IS a concrete failing input (one op line both programs understand): report the
    # shortest one per operation as a failure of site `Kernel.<op tag>` (so the broken correspondence obligation above is
    # reported with its replay and not as "no failing input")
    seen = set()
    prio = {'roundtrip': 0, 'cov': 1, 'covXX': 1, 'cwg': 2, 'diag': 3, 'rep_eq': 4}
    for m in sorted(mism, key=lambda m: prio.get(m.get('tag'), 9)):          # within a tag: shortest line first
        tag = m.get('tag', '?')
        if tag in seen or len(seen) >= 4:
            continue
        seen.add(tag)
        failures.append({'site': f'Kernel.{tag}', 'case': m.get('line', ''), 'impl': m.get('impl', '')[:400],
                         'expected': ('hand model: ' + m.get('model', '')[:400]), 'observed': 'model ≠ implementation',
                         'detail': f"{m.get('diff', '')[:200]} (leaf kinds {m.get('kinds')})"})
    # self-consistency of the implementation, leaf kinds alone: site = leaf kind, observed = the check
    for f in d.get('findings', []):
        failures.append({'site': f['kind'], 'case': f['line'], 'impl': f.get('note', '')[:300], 'expected': f"no `{f['check']}`",
                         'observed': f['check'], 'detail': f"{f['check']} ({f.get('count', 1)} cases): {f.get('note', '')[:300]}"})
    # ... and on trees none of whose leaves is documented to fail a related check alone: site `combinator`
    for f in d.get('combinator', []):
        failures.append({'site': 'combinator', 'case': f['line'], 'impl': f.get('note', '')[:300],
                         'expected': f"no `{f['check']}` on trees of good leaves", 'observed': f['check'],
                         'detail': f"{f.get('count', 1)} trees: {f.get('note', '')[:300]}"})
    lines = int(d.get('stats', {}).get('lines', 0))
    return {'obligations': obligations, 'failures': failures, 'stats': {'evaluations': lines, 'distinct_nontrivial': lines, 'trees': d['cases']},
            'samples': [l for l in p.stdout.split('\n')[:2]]}


INPUT_CLASSES = {}
