#!/usr/bin/env python3
"""C04 case generators and runners (used by props/C04.py; details in props/C04_notes.md).

`run(tier, seed, harness, driver)` performs, on the REAL code (rvharness, ops of harness/src/manual_c04.rs) and on the Lean hand
models of Hand/Draw.lean (rvdrv, Hand/DispatchC04.lean):

  corr      bitwise correspondence of `draw.<Dist>` / `sample.<Dist>` on scripted generator words (24 extreme words + N random
            word sets per op, random parameters); the answers of the two programs must be EQUAL STRINGS;
  regress   the witness lines of the six repaired findings: they must now give supported, finite, terminating answers;
  witness   the witness lines of the REMAINING findings (float-only rounding, rand's Uniform scale loop, ln_pflips top variate);
  drawchk   seeded (`Xoshiro256Plus::seed_from_u64`) checks of all sampleable distributions: non-finite / unsupported / panics /
            determinism / `sample(n)` length; standard parameters must give `0 0 0 T T`; the small-shape lines are the known class;
  joint     ConjugateModel (src/model.rs) over Beta/Bernoulli, Gamma/Poisson, NormalGamma/Gaussian: `sample(n)` from a seed is
            bit-identical to n successive `draw`s from the same generator state (true of the code: both run `posterior().draw;
            fx.draw` per element — hand model `Hand.conjugateSample`), plus a fixed-seed TEST of the joint law of `sample(2)` /
            `sample(50)` for Beta–Bernoulli (agreement rate p̄²+(1−p̄)², Binomial variance of the count; 6σ);
  scaling   same-seed scaling of the prior draws: NormalGamma / NormalInvChiSquared / NormalInvGamma / NormalInvWishart drawn with
            the same seed and precision multiplier k resp. 1 satisfy (μ_k − m)·√k = μ_1 − m (√v for NIG) and have the same Σ / σ;
  stat      a fixed-seed Kolmogorov–Smirnov TEST (not a theorem) of `sample(n)` of the delegating samplers against the object's
            own `cdf` (gen_dispatch ops `<Dist>.cdf_real` / `.cdf_nat`), rejected only below p = 1e-6.

HANG discipline: a line on which the implementation hangs leaves a spinning thread behind in rvharness until the process exits.
Therefore (1) every batch is first run on the MODEL (which has fuel and answers `HANG`), and lines on which the model says `HANG`
are never sent to the implementation in a batch; (2) expected-hang witnesses are run one per process with a small RVH_HANG_MS and
a timeout; (3) scripts are built so that rejection loops end (long scripts, accepting last word).
"""
import collections, math, os, random, struct, subprocess, sys

H = os.environ.get('RVH', '/verif/harness/target/release/rvharness')
D = os.environ.get('RVD', '/verif/lean/.lake/build/bin/rvdrv')
MAX = (1 << 64) - 1
N_CORR = {'quick': 200, 'thorough': 2000}
N_CHK = {'quick': 400, 'thorough': 2000}
N_STAT = 2000
EXTREME = [0, MAX, 1 << 11, (1 << 11) - 1, 1 << 12, (1 << 12) - 1, ((1 << 53) - 1) << 11, 1 << 63, (1 << 63) - 1,
           MAX - (1 << 11), MAX - (1 << 11) + 1, MAX - (1 << 12), MAX - (1 << 12) + 1, 1 << 32, (1 << 32) - 1, 1, 2047, 2048,
           4095, 4096, (1 << 63) + (1 << 11), (1 << 63) - (1 << 11), (1 << 63) + (1 << 12), (1 << 63) - (1 << 12)]


def fx(v):
    return 'x%016x' % struct.unpack('<Q', struct.pack('<d', float(v)))[0]


def unfx(t):
    if t == 'xNaN':
        return float('nan')
    return struct.unpack('<d', struct.pack('<Q', int(t[1:], 16)))[0]


def L(ws):
    return 'L%d %s' % (len(ws), ' '.join(str(w) for w in ws)) if ws else 'L0'


def LF(xs):
    return 'L%d %s' % (len(xs), ' '.join(fx(x) for x in xs))


def pipe(binary, lines, hang_ms=3000, timeout=3000):
    if not lines:
        return []
    p = subprocess.run([binary], env=dict(os.environ, RVH_HANG_MS=str(hang_ms)), input='\n'.join(lines) + '\n',
                       capture_output=True, text=True, timeout=timeout)
    out = p.stdout.split('\n')[:len(lines)]
    return out + ['DIED'] * (len(lines) - len(out))


def single(binary, line, hang_ms=1500, timeout=8):
    """one line in its own process (expected-hang witnesses)"""
    try:
        p = subprocess.run([binary], env=dict(os.environ, RVH_HANG_MS=str(hang_ms)), input=line + '\n', capture_output=True,
                           text=True, timeout=timeout)
        return (p.stdout.split('\n') + [''])[0]
    except subprocess.TimeoutExpired:
        return 'HANG'


def pair(lines):
    """model first; lines on which the model answers HANG are not sent to the implementation in the batch"""
    m = pipe(D, lines)
    send = [l for l, x in zip(lines, m) if x != 'HANG']
    a = iter(pipe(H, send))
    return [('SKIPPED(model HANG)' if x == 'HANG' else next(a)) for x in m], m


# ---------------------------------------------------------------------------------------------------------------- corr
class Gen:
    def __init__(self, seed):
        self.r = random.Random(seed)
        self.rbig = random.Random(seed * 7919 + 17)      # separate stream: the large-n cases do not shift the others

    def rw(self):
        c = self.r.random()
        if c < 0.8:
            return self.r.getrandbits(64)
        if c < 0.9:
            return self.r.getrandbits(64) >> self.r.randrange(0, 64)
        return MAX - (self.r.getrandbits(64) >> self.r.randrange(0, 64))

    def words1(self, n):
        return [[w] for w in EXTREME] + [[self.rw()] for _ in range(n)]

    def pos(self):
        r = self.r
        return r.choice([0.01, 0.1, 0.5, 1.0, 1.5, 2.0, 3.0, 7.5, 25.0, 1e-3, 1e3]) if r.random() < 0.3 else math.exp(r.uniform(-4, 4))

    def real(self):
        r = self.r
        return r.choice([0.0, 1.0, -1.0, 2.5, -3.75, 100.0]) if r.random() < 0.3 else r.uniform(-10, 10)

    def cases(self, N):
        r, rw, pos, real = self.r, self.rw, self.pos, self.real
        out = []

        def add(tag, line):
            out.append((tag, line))
        for ws in self.words1(N):
            add('Bernoulli.draw', 'draw.Bernoulli %s %s %s' % (r.choice(['bool', 'u8']), fx(r.choice([0.0, 1.0, 0.5, r.random()])), L(ws)))
            add('Laplace.draw', 'draw.Laplace f64 %s %s %s' % (fx(real()), fx(pos()), L(ws)))
            sh = r.choice([0.0, 0.0, 0.5, -0.5, 1.0, -1.0, r.uniform(-3, 3)])
            add('Gev.draw', 'draw.Gev f64 %s %s %s %s' % (fx(real()), fx(pos()), fx(sh), L(ws)))
            add('Kumaraswamy.draw', 'draw.Kumaraswamy f64 %s %s %s' % (fx(pos()), fx(pos()), L(ws)))
            add('UnitPowerLaw.draw', 'draw.UnitPowerLaw f64 %s %s' % (fx(pos()), L(ws)))
            p = r.choice([0.2, 0.25, 1 / 3, 0.3333333333333333, 0.34, 0.5, 0.75, 0.9, 1.0, 0.01, 1e-5, 0.8793773873752875,
                          0.5513325188822233, r.random(), r.random(), r.random() / 3])
            add('Geometric.draw', 'draw.Geometric %s %s %s' % (r.choice(['u8', 'u16', 'u32', 'u64', 'usize']), fx(p), L(ws)))
            a, b = sorted([r.uniform(-5, 5), r.uniform(-5, 5)])
            if b - a < 1e-3:
                b = a + 1
            add('Uniform.draw', 'draw.Uniform f64 %s %s %s' % (fx(a), fx(b), L(ws)))
            k = r.choice([1, 2, 3, 9, 10, 11, 30])
            wts = [r.random() for _ in range(k)]
            if r.random() < 0.3:
                wts[r.randrange(k)] = 0.0
            if sum(wts) == 0:
                wts[0] = 1.0
            s = sum(wts)
            lnw = [math.log(w / s) if w > 0 else float('-inf') for w in wts]
            add('Categorical.draw', 'draw.Categorical %s %s %s' % (r.choice(['usize', 'u8']), LF(lnw), L(ws)))
            xs = [r.uniform(-3, 3) for _ in range(r.choice([1, 2, 3, 5, 7, 100]))]
            add('Empirical.draw', 'draw.Empirical f64 %s %s' % (LF(xs), L(ws + [rw(), rw(), rw(), rw(), 12345])))
        for ws1 in self.words1(N):
            ws = ws1 + [rw() for _ in range(r.randrange(0, 4))]
            kind = r.choice(['u8', 'i8', 'u16', 'i16', 'u32', 'i32', 'u64', 'i64'])
            bits = int(kind[1:])
            lo_t, hi_t = (-(1 << (bits - 1)), (1 << (bits - 1)) - 1) if kind[0] == 'i' else (0, (1 << bits) - 1)
            c = r.random()
            if c < 0.1:
                a, b = lo_t, hi_t
            elif c < 0.5:
                a = r.randint(max(lo_t, -20), min(hi_t, 20) - 1)
                b = r.randint(a, min(hi_t, a + r.choice([0, 1, 2, 5, 9, 100])))
            else:
                a = r.randint(lo_t, hi_t)
                b = r.randint(a, hi_t)
            add('DiscreteUniform.draw', 'draw.DiscreteUniform %s %d %d %s' % (kind, a, b, L(ws + [rw() for _ in range(6)] + [0])))
            n = r.randrange(0, 5)
            add('DiscreteUniform.sample', 'sample.DiscreteUniform %s %d %d %d %s' % (kind, a, b, n, L(ws + [rw() for _ in range(10)] + [0])))
            k = r.choice([1, 2, 3, 9, 10, 12])
            wts = [r.random() for _ in range(k)]
            if r.random() < 0.3:
                wts[0] = 0.0
                wts[-1] = 0.5
            mus = [real() for _ in range(k)]
            bs = [pos() for _ in range(k)]
            if r.random() < 0.5:
                # weights that pass `Mixture::new` (|Σ−1| ≤ 1e-12) but whose left-to-right binary64 sum may be below 1
                k = r.choice([3, 6, 7, 10, 11, 49])
                wts = [1.0 / k] * k
                mus = [real() for _ in range(k)]
                bs = [pos() for _ in range(k)]
            add('Mixture.draw', 'draw.MixtureLaplace f64 %s %s %s %s' % (LF(wts), LF(mus), LF(bs), L(ws1 + [rw()])))
            n = r.randrange(0, 4)
            add('Mixture.sample', 'sample.MixtureLaplace f64 %s %s %s %d %s' % (LF(wts), LF(mus), LF(bs), n, L(ws1 + [rw() for _ in range(2 * n)])))
            if self.rbig.random() < 0.06:
                # large n: `sample(n)` must stay "n index flips, then the n component draws IN THAT ORDER" (seeded change C11-7:
                # a batched fast path for n >= 256 grouped the draws by component)
                nb = self.rbig.choice([255, 256, 300, 700])
                add('Mixture.sample', 'sample.MixtureLaplace f64 %s %s %s %d %s' % (LF(wts), LF(mus), LF(bs), nb, L(ws1 + [self.rbig.getrandbits(64) for _ in range(2 * nb)])))
            kk = r.choice([0.01, 0.1, 0.5, 1.0, 2.0, 5.0, 30.0, 1000.0, pos()])
            vm = ws1 + [rw() for _ in range(200)]
            add('VonMises.draw', 'draw.VonMises f64 %s %s %s' % (fx(r.uniform(0, 6.28)), fx(kk), L(vm)))
            n = r.randrange(0, 4)
            add('VonMises.sample', 'sample.VonMises f64 %s %s %d %s' % (fx(r.uniform(0, 6.28)), fx(kk), n, L(vm + [rw() for _ in range(400)])))
            n = r.randrange(0, 5)
            sw = ws1 + [rw() for _ in range(n)]
            add('Bernoulli.sample', 'sample.Bernoulli %s %s %d %s' % (r.choice(['bool', 'u8']), fx(r.random()), n, L(sw)))
            add('UnitPowerLaw.sample', 'sample.UnitPowerLaw f64 %s %d %s' % (fx(pos()), n, L(sw)))
            add('Laplace.sample', 'sample.Laplace f64 %s %s %d %s' % (fx(real()), fx(pos()), n, L(sw)))
            add('Gev.sample', 'sample.Gev f64 %s %s %s %d %s' % (fx(real()), fx(pos()), fx(r.choice([0.0, 0.5, -0.7])), n, L(sw)))
            add('Kumaraswamy.sample', 'sample.Kumaraswamy f64 %s %s %d %s' % (fx(pos()), fx(pos()), n, L(sw)))
            add('Geometric.sample', 'sample.Geometric %s %s %d %s' % (r.choice(['u8', 'u32', 'u64']), fx(r.choice([0.2, 0.5, 0.9, r.random()])), n, L(sw)))
            k = r.choice([1, 2, 3, 9, 10, 11])
            wts = [r.random() for _ in range(k)]
            s = sum(wts)
            add('Categorical.sample', 'sample.Categorical usize %s %d %s' % (LF([math.log(w / s) for w in wts]), n, L(sw)))
            a1, a2 = pos(), pos()
            add('UnitPowerLaw.set_alpha', 'drawhist.UnitPowerLaw f64 %s %s %s' % (fx(a1), fx(a2), L([ws1[0], rw()])))
            add('fma', 'fma - %s %s %s' % (fx(real() * 10 ** r.randint(-300, 300)), fx(real() * 10 ** r.randint(-10, 10)), fx(real() * 10 ** r.randint(-300, 300))))
            x, y = r.uniform(-2, 2), r.uniform(-2, 2)
            add('fma', 'fma - %s %s %s' % (fx(x), fx(y), fx(-x * y)))
        return out

    def invgauss_cases(self, N):
        """two-pass: the internal normal variate (rand_distr ziggurat, opaque) is asked from the implementation first"""
        pre = [ws1 + [self.rw() for _ in range(12)] + [(1 << 63) | 100] for ws1 in self.words1(N)]
        ans = pipe(H, ['normal01 - ' + L(ws) for ws in pre])
        out = []
        for ws, a in zip(pre, ans):
            t = a.split()
            if len(t) == 2:
                out.append(('InvGaussian.draw', 'draw.InvGaussian f64 %s %s %s %s %s' % (fx(self.pos()), fx(self.pos()), t[0], t[1], L(ws))))
        return out


def run_corr(N, seed):
    g = Gen(seed)
    cs = g.cases(N) + g.invgauss_cases(N)
    lines = [c[1] for c in cs]
    a, b = pair(lines)
    res = collections.OrderedDict()
    notes = collections.Counter()
    for (tag, line), x, y in zip(cs, a, b):
        e = res.setdefault(tag, {'cases': 0, 'mismatches': []})
        e['cases'] += 1
        if x != y:
            e['mismatches'].append((line, x, y))
        if x in ('PANIC', 'HANG') or x.startswith('SKIPPED'):
            notes[(tag, x)] += 1
        elif line.startswith('draw.') and len(x.split()) == 3 and x.split()[1] == 'F':
            notes[(tag, 'unsupported')] += 1
    return res, notes, len(lines)


# ---------------------------------------------------------------------------------------------------------------- witnesses
F = fx
# (site, line, predicate on the implementation answer, description) — repaired findings: must hold now
REGRESS = [
    ('Laplace.draw', 'draw.Laplace f64 %s %s L1 %d' % (F(0.0), F(1.0), MAX), lambda t: t[1] == 'T', 'top variate gives a finite draw (was +inf)'),
    ('Laplace.draw', 'draw.Laplace f64 %s %s L1 0' % (F(0.0), F(1.0)), lambda t: t[1] == 'T', 'bottom variate gives a finite draw'),
    ('Kumaraswamy.draw', 'draw.Kumaraswamy f64 %s %s L1 0' % (F(0.5), F(0.5)), lambda t: t[1] == 'T', 'bottom variate is supported (was 0.0)'),
    ('UnitPowerLaw.draw', 'draw.UnitPowerLaw f64 %s L1 0' % F(2.0), lambda t: t[1] == 'T', 'bottom variate is supported (was 0.0)'),
    ('UnitPowerLaw.sample', 'sample.UnitPowerLaw f64 %s 2 L2 0 2047' % F(2.0), lambda t: all(unfx(v) > 0 for v in t[1:3]), 'sample: bottom variates positive'),
    ('Geometric.draw', 'draw.Geometric u64 %s L1 0' % F(0.2), lambda t: t[0] == '0', 'inversion: bottom variate gives 0 (was u64::MAX)'),
    ('Geometric.draw', 'draw.Geometric u8 %s L1 4095' % F(0.2), lambda t: t[0] == '0', 'inversion: word 4095 gives 0 (was 255)'),
    ('Geometric.draw', 'draw.Geometric u8 x3fec23dc0bf3cd12 L1 %d' % MAX, lambda t: len(t) == 3, 'search: stagnating sums terminate (was an endless loop)'),
    ('Geometric.draw', 'draw.Geometric u16 x3fe1a484183a4124 L1 18446744073709551496', lambda t: len(t) == 3, 'search: stagnating sums terminate'),
    ('KsTwoAsymptotic.draw', 'draw.KsTwoAsymptotic f64 L1 %d' % MAX, lambda t: t[1] == 'T', 'draw above 1 is supported (supports was [0,1])'),
    ('VonMises.draw', 'drawchk.VonMises - %s %s 1 50' % (F(1.0), F(30.0)), lambda t: t[:5] == ['0', '0', '0', 'T', 'T'], 'k = 30 terminates (was an endless loop)'),
    ('VonMises.draw', 'drawchk.VonMises - %s %s 1 50' % (F(1.0), F(1e4)), lambda t: t[:5] == ['0', '0', '0', 'T', 'T'], 'k = 1e4 terminates'),
]
# remaining findings: (site, cls, observed, line, predicate "still reproduces", own process?)
WITNESS = [
    ('Uniform.draw', 'narrow_interval_scale_loop', 'HANG', 'draw.Uniform f64 %s %s L1 12345678901234567' % (F(1.0), F(1.0 + 2.0 ** -40)),
     lambda x: x == 'HANG', True),
    ('Kumaraswamy.draw', 'float_rounding_boundary', 'unsupported', 'draw.Kumaraswamy f64 x402c904edd8ddaa3 x3f9f6ea6366c846f L1 18446744073709547519',
     lambda x: x.split()[1:2] == ['F'], False),
    ('Kumaraswamy.draw', 'float_rounding_boundary', 'unsupported', 'draw.Kumaraswamy f64 %s %s L1 0' % (F(2.0), F(3.0)),
     lambda x: x.split()[1:2] == ['F'], False),
    ('UnitPowerLaw.draw', 'float_rounding_boundary', 'unsupported', 'draw.UnitPowerLaw f64 %s L1 %d' % (F(2.0), MAX),
     lambda x: x.split()[1:2] == ['F'], False),
    ('Categorical.draw', 'top_variate_sum_rounding', 'PANIC',
     'draw.Categorical u8 L11 xc0022510cf92efe4 xc000b432f7c9bf90 xc007bc9ecf4f302a xc005cefaf6a7abb1 xc00089815aefea7a xbffcbfe3485b12f2 '
     'xc00c80b62c3f798f xc001ab59230ada98 xc00746d4e7000391 xc0021451b2256646 xc005b8967b7d8ffd L1 %d' % MAX, lambda x: x == 'PANIC', False),
]


def run_witness():
    reg, wit = [], []
    ri, rm = pair([l for _, l, _, _ in REGRESS])
    for (site, line, pred, what), x, y in zip(REGRESS, ri, rm):
        try:
            ok = bool(pred(x.split()))
        except Exception:
            ok = False
        reg.append({'site': site, 'line': line, 'impl': x, 'model': y, 'ok': ok, 'what': what})
    batch = [w for w in WITNESS if not w[5]]
    bi = pipe(H, [w[3] for w in batch])
    bm = pipe(D, [w[3] for w in batch])
    for w, x, y in zip(batch, bi, bm):
        wit.append({'site': w[0], 'cls': w[1], 'observed': w[2], 'line': w[3], 'impl': x, 'model': y, 'reproduced': bool(w[4](x))})
    for w in WITNESS:
        if w[5]:
            x = single(H, w[3])
            y = pipe(D, [w[3]])[0]
            wit.append({'site': w[0], 'cls': w[1], 'observed': w[2], 'line': w[3], 'impl': x, 'model': y, 'reproduced': bool(w[4](x))})
    return reg, wit


# ---------------------------------------------------------------------------------------------------------------- drawchk
def chk_lines(n, seed):
    f = fx
    s = '%d %d' % (seed, n)
    sm = '%d %d' % (seed, min(n, 300))
    std = [
        ('Bernoulli', 'drawchk.Bernoulli - %s ' % f(0.3) + s), ('Beta', 'drawchk.Beta - %s %s ' % (f(2.0), f(3.0)) + s),
        ('BetaBinomial', 'drawchk.BetaBinomial - 20 %s %s ' % (f(2.0), f(3.0)) + sm), ('Binomial', 'drawchk.Binomial - 20 %s ' % f(0.3) + s),
        ('Categorical', 'drawchk.Categorical - %s ' % LF([0.1, 0.2, 0.3, 0.4]) + s), ('Cauchy', 'drawchk.Cauchy - %s %s ' % (f(0.0), f(1.0)) + s),
        ('ChiSquared', 'drawchk.ChiSquared - %s ' % f(3.0) + s), ('Crp', 'drawchk.Crp - %s 12 ' % f(1.5) + sm),
        ('Dirichlet', 'drawchk.Dirichlet - %s ' % LF([1.0, 2.0, 3.0]) + s), ('SymmetricDirichlet', 'drawchk.SymmetricDirichlet - %s 4 ' % f(0.5) + s),
        ('DiscreteUniform', 'drawchk.DiscreteUniform - -3 12 ' + s), ('Empirical', 'drawchk.Empirical - %s ' % LF([1.0, 2.0, 2.5, 7.0, -1.0]) + s),
        ('Exponential', 'drawchk.Exponential - %s ' % f(2.0) + s), ('Gamma', 'drawchk.Gamma - %s %s ' % (f(2.0), f(3.0)) + s),
        ('Gaussian', 'drawchk.Gaussian - %s %s ' % (f(1.0), f(2.0)) + s), ('Geometric', 'drawchk.Geometric - %s ' % f(0.2) + s),
        ('Geometric', 'drawchk.Geometric - %s ' % f(0.7) + s), ('Gev', 'drawchk.Gev - %s %s %s ' % (f(0.0), f(1.0), f(0.0)) + s),
        ('Gev', 'drawchk.Gev - %s %s %s ' % (f(0.0), f(1.0), f(0.5)) + s), ('Gev', 'drawchk.Gev - %s %s %s ' % (f(0.0), f(1.0), f(-0.5)) + s),
        ('InvChiSquared', 'drawchk.InvChiSquared - %s ' % f(3.0) + s), ('InvGamma', 'drawchk.InvGamma - %s %s ' % (f(2.0), f(3.0)) + s),
        ('InvGaussian', 'drawchk.InvGaussian - %s %s ' % (f(1.0), f(2.0)) + s), ('KsTwoAsymptotic', 'drawchk.KsTwoAsymptotic - ' + s),
        ('Kumaraswamy', 'drawchk.Kumaraswamy - %s %s ' % (f(2.0), f(3.0)) + s), ('Laplace', 'drawchk.Laplace - %s %s ' % (f(0.0), f(1.0)) + s),
        ('LogNormal', 'drawchk.LogNormal - %s %s ' % (f(0.0), f(1.0)) + s),
        ('Mixture', 'drawchk.MixtureGaussian - %s %s %s ' % (LF([0.3, 0.7]), LF([0.0, 5.0]), LF([1.0, 2.0])) + s),
        ('MvGaussian', 'drawchk.MvGaussian - %s %s ' % (LF([0.0, 1.0]), LF([2.0, 0.5, 0.5, 1.0])) + sm),
        ('NegBinomial', 'drawchk.NegBinomial - %s %s ' % (f(3.0), f(0.4)) + s),
        ('NormalGamma', 'drawchk.NormalGamma - %s %s %s %s ' % (f(0.0), f(1.0), f(1.0), f(1.0)) + s),
        ('NormalInvChiSquared', 'drawchk.NormalInvChiSquared - %s %s %s %s ' % (f(0.0), f(1.0), f(1.0), f(1.0)) + s),
        ('NormalInvGamma', 'drawchk.NormalInvGamma - %s %s %s %s ' % (f(0.0), f(1.0), f(1.0), f(1.0)) + s),
        ('NormalInvWishart', 'drawchk.NormalInvWishart - %s %s 3 %s ' % (LF([0.0, 0.0]), f(1.0), LF([1.0, 0.0, 0.0, 1.0])) + sm),
        ('InvWishart', 'drawchk.InvWishart - 3 %s ' % LF([1.0, 0.0, 0.0, 1.0]) + sm), ('Pareto', 'drawchk.Pareto - %s %s ' % (f(3.0), f(2.0)) + s),
        ('Poisson', 'drawchk.Poisson - %s ' % f(4.5) + s), ('ScaledInvChiSquared', 'drawchk.ScaledInvChiSquared - %s %s ' % (f(3.0), f(2.0)) + s),
        ('Skellam', 'drawchk.Skellam - %s %s ' % (f(2.0), f(3.0)) + s), ('StudentsT', 'drawchk.StudentsT - %s ' % f(3.0) + s),
        ('Uniform', 'drawchk.Uniform - %s %s ' % (f(-1.0), f(3.0)) + s), ('UnitPowerLaw', 'drawchk.UnitPowerLaw - %s ' % f(2.0) + s),
        ('VonMises', 'drawchk.VonMises - %s %s ' % (f(1.0), f(2.0)) + s), ('VonMises', 'drawchk.VonMises - %s %s ' % (f(1.0), f(30.0)) + sm),
    ]
    known = [  # (dist, class, line)
        ('Beta', 'small_shape_underflow', 'drawchk.Beta - %s %s ' % (f(0.001), f(0.001)) + s),
        ('ChiSquared', 'small_shape_underflow', 'drawchk.ChiSquared - %s ' % f(0.001) + s),
        ('Dirichlet', 'small_shape_underflow', 'drawchk.Dirichlet - %s ' % LF([0.001, 0.001, 0.001]) + s),
        ('SymmetricDirichlet', 'small_shape_underflow', 'drawchk.SymmetricDirichlet - %s 4 ' % f(0.0001) + s),
        ('Gamma', 'small_shape_underflow', 'drawchk.Gamma - %s %s ' % (f(0.001), f(1.0)) + s),
        ('InvChiSquared', 'small_shape_underflow', 'drawchk.InvChiSquared - %s ' % f(0.001) + s),
        ('InvGamma', 'small_shape_underflow', 'drawchk.InvGamma - %s %s ' % (f(0.001), f(1.0)) + s),
        ('NormalGamma', 'small_shape_underflow', 'drawchk.NormalGamma - %s %s %s %s ' % (f(0.0), f(1.0), f(1.0), f(0.002)) + s),
        ('NormalInvChiSquared', 'small_shape_underflow', 'drawchk.NormalInvChiSquared - %s %s %s %s ' % (f(0.0), f(1.0), f(0.002), f(1.0)) + s),
        ('NormalInvGamma', 'small_shape_underflow', 'drawchk.NormalInvGamma - %s %s %s %s ' % (f(0.0), f(1.0), f(0.001), f(1.0)) + s),
        ('Kumaraswamy', 'float_rounding_boundary', 'drawchk.Kumaraswamy - %s %s ' % (f(14.28), f(0.0307)) + s),
    ]
    return std, known


def observed_of(ans):
    t = ans.split()
    if len(t) != 6:
        return ans.split()[0] if ans else 'DIED'       # HANG / PANIC / DIED
    nf, un, pa, det, ln = int(t[0]), int(t[1]), int(t[2]), t[3], t[4]
    if pa:
        return 'panic'
    if nf:
        return 'nonfinite'
    if un:
        return 'unsupported'
    if det != 'T':
        return 'nondeterministic'
    if ln != 'T':
        return 'length'
    return ''


def run_drawchk(n, seed):
    std, known = chk_lines(n, seed)
    a = pipe(H, [l for _, l in std] + [l for _, _, l in known], hang_ms=20000)
    out = []
    for (dist, line), x in zip(std, a):
        out.append({'site': dist + '.draw', 'cls': 'seeded_draw_check', 'line': line, 'impl': x, 'observed': observed_of(x), 'known': False})
    for (dist, cls, line), x in zip(known, a[len(std):]):
        out.append({'site': dist + '.draw', 'cls': cls, 'line': line, 'impl': x, 'observed': observed_of(x), 'known': True})
    return out


# ---------------------------------------------------------------------------------------------------------------- Mixture<Gaussian>
def run_mixture_gaussian():
    """implementation only (the component draw is rand_distr's ziggurat): valid weights [1/k; k] and the extreme first words must
    never panic; the script ends with a word the ziggurat accepts at once"""
    lines = []
    for k in (2, 3, 6, 7, 10, 11, 49):
        for w in EXTREME:
            lines.append('draw.MixtureGaussian f64 %s %s %s %s' % (LF([1.0 / k] * k), LF([float(i) for i in range(k)]), LF([1.0] * k),
                                                                 L([w, (1 << 63) | 100])))
    a = pipe(H, lines)
    return [{'site': 'Mixture.draw', 'line': l, 'impl': x, 'ok': len(x.split()) == 3 and x.split()[1] == 'T'} for l, x in zip(lines, a)]


# ---------------------------------------------------------------------------------------------------------------- ConjugateModel
def run_joint(tier, seed):
    r = random.Random(1000 + seed)
    res = []
    B = lambda bs: 'L%d %s' % (len(bs), ' '.join('T' if b else 'F' for b in bs)) if bs else 'L0'
    lines, meta = [], []
    for n in (0, 1, 2, 5, 50):
        for _ in range(2 if tier == 'quick' else 6):
            sd = r.randrange(1 << 40)
            a, b = r.choice([(1.0, 1.0), (0.5, 0.5), (2.0, 3.0), (10.0, 1.0)])
            data = [r.random() < 0.4 for _ in range(r.choice([0, 0, 3, 20]))]
            lines.append('cmseq.BetaBernoulli - %s %s %s %d %d' % (fx(a), fx(b), B(data), sd, n))
            ds = [r.randrange(0, 9) for _ in range(r.choice([0, 2, 10]))]
            lines.append('cmseq.GammaPoisson - %s %s %s %d %d' % (fx(r.choice([1.0, 2.0, 0.5])), fx(r.choice([1.0, 1.5])), L(ds), sd, n))
            xs = [r.gauss(1.0, 2.0) for _ in range(r.choice([0, 3, 12]))]
            lines.append('cmseq.NormalGammaGaussian - %s %s %s %s %s %d %d' % (fx(0.0), fx(1.0), fx(1.0), fx(1.0), LF(xs), sd, n))
            meta += [(n, 'ConjugateModel.sample')] * 3
    for l, (n, site), x in zip(lines, meta, pipe(H, lines, hang_ms=20000)):
        t = x.split()
        ok = t[:2] == ['T', 'T'] and len(t) == 3 + n
        obs = '' if ok else ('length' if t[:1] == ['T'] else ('sequence' if t[:1] == ['F'] else (t[0] if t else 'DIED')))
        res.append({'site': site, 'cls': 'conjugate_sample_vs_draws', 'line': l, 'impl': x[:300], 'ok': ok, 'observed': obs,
                    'expected': 'T T: sample(n) bit-identical to n successive draws (same seed), n values'})
    # joint law TEST for Beta–Bernoulli: a fresh θ per element gives P(x0 = x1) = p̄² + (1−p̄)², a shared θ gives E[θ²] + E[(1−θ)²]
    reps = 20000 if tier == 'quick' else 100000
    for (a, b, data) in [(1.0, 1.0, []), (2.0, 3.0, []), (0.5, 0.5, [True, False, False])]:
        sd = 3076 + seed
        kk, nn = sum(data), len(data)
        pbar = (a + kk) / (a + b + nn)
        x = pipe(H, ['cmpair.BetaBernoulli - %s %s %s %d %d' % (fx(a), fx(b), B(data), sd, reps)], hang_ms=20000)[0]
        line = 'cmpair.BetaBernoulli - %s %s %s %d %d' % (fx(a), fx(b), B(data), sd, reps)
        t = x.split()
        pa = pbar * pbar + (1 - pbar) * (1 - pbar)
        if len(t) == 2:
            fa, ft = int(t[0]) / reps, int(t[1]) / (2.0 * reps)
            za = (fa - pa) / math.sqrt(pa * (1 - pa) / reps)
            zt = (ft - pbar) / math.sqrt(pbar * (1 - pbar) / (2 * reps))
            ok = abs(za) <= 6 and abs(zt) <= 6
            det = 'P(x0=x1) = %.4f (independent draws: %.4f, z = %.1f); P(true) = %.4f (%.4f, z = %.1f)' % (fa, pa, za, ft, pbar, zt)
        else:
            ok, det = False, x
        res.append({'site': 'ConjugateModel.sample', 'cls': 'conjugate_sample_joint_law', 'line': line, 'impl': det, 'ok': ok,
                    'observed': '' if ok else 'dependent', 'expected': 'agreement rate of sample(2) within 6σ of p̄²+(1−p̄)²'})
    n, reps2 = 50, (2000 if tier == 'quick' else 10000)
    line = 'cmcount.BetaBernoulli - %s %s L0 %d %d %d' % (fx(1.0), fx(1.0), 17 + seed, n, reps2)
    t = pipe(H, [line], hang_ms=20000)[0].split()
    if len(t) == reps2 + 1:
        cs = [int(v) for v in t[1:]]
        m = sum(cs) / reps2
        var = sum((c - m) ** 2 for c in cs) / (reps2 - 1)
        ok = abs(var / 12.5 - 1) <= 6 * math.sqrt(2.0 / (reps2 - 1)) + 0.02
        det = 'variance of #true in sample(50) = %.2f (Binomial(50, 1/2): 12.5; one shared θ: 216.7)' % var
    else:
        ok, det = False, ' '.join(t)[:200]
    res.append({'site': 'ConjugateModel.sample', 'cls': 'conjugate_sample_joint_law', 'line': line, 'impl': det, 'ok': ok,
                'observed': '' if ok else 'dependent', 'expected': 'variance of the count within 6σ of n p̄ (1−p̄)'})
    return res


# ---------------------------------------------------------------------------------------------------------------- prior scaling
def run_scaling(tier, seed):
    """same seed, precision multiplier k vs 1: the mean deviation scales by 1/√k (√v for NIG), the scale part is unchanged"""
    res, lines, meta = [], [], []
    seeds = [seed * 101 + i for i in range(3 if tier == 'quick' else 12)]
    ks = [4.0, 0.25, 9.0]
    for sd in seeds:
        for k in ks:
            for name, mk, power in (
                    ('NormalGamma', lambda kk: '%s %s %s %s' % (fx(1.5), fx(kk), fx(2.0), fx(3.0)), -0.5),
                    ('NormalInvChiSquared', lambda kk: '%s %s %s %s' % (fx(1.5), fx(kk), fx(3.0), fx(2.0)), -0.5),
                    ('NormalInvGamma', lambda kk: '%s %s %s %s' % (fx(1.5), fx(kk), fx(3.0), fx(2.0)), 0.5)):
                lines += ['seeddraw.%s - %s %d' % (name, mk(1.0), sd), 'seeddraw.%s - %s %d' % (name, mk(k), sd)]
                meta.append((name, k, power, [1.5]))
            mk = lambda kk: '%s %s 4 %s' % (LF([1.0, -1.0, 0.5]), fx(kk), LF([2.0, 0.5, 0.0, 0.5, 1.0, 0.2, 0.0, 0.2, 1.5]))
            lines += ['seeddraw.NormalInvWishart - %s %d' % (mk(1.0), sd), 'seeddraw.NormalInvWishart - %s %d' % (mk(k), sd)]
            meta.append(('NormalInvWishart', k, -0.5, [1.0, -1.0, 0.5]))
    a = pipe(H, lines, hang_ms=20000)
    for i, (name, k, power, m0) in enumerate(meta):
        x1, xk = a[2 * i].split(), a[2 * i + 1].split()
        d = len(m0)
        try:
            if name == 'NormalInvWishart':
                mu1, muk = [unfx(v) for v in x1[1:1 + d]], [unfx(v) for v in xk[1:1 + d]]
                rest_same = x1[1 + d:] == xk[1 + d:]
            else:
                mu1, muk = [unfx(x1[0])], [unfx(xk[0])]
                rest_same = x1[1:] == xk[1:]
            dev = max(abs((mk_ - m) - (m1 - m) * k ** power) / max(1e-300, abs(m1 - m) * k ** power) for m, m1, mk_ in zip(m0, mu1, muk))
            ok = rest_same and dev <= 1e-9
            det = 'max relative deviation of (μ_k − m) from (μ_1 − m)·k^%g: %.3g; scale part identical: %s' % (power, dev, rest_same)
        except Exception as e:
            ok, det = False, 'unreadable answers %s | %s' % (a[2 * i][:80], a[2 * i + 1][:80])
        res.append({'site': name + '.draw', 'cls': 'prior_draw_scaling', 'line': lines[2 * i + 1] + '   (vs k = 1: ' + lines[2 * i] + ')',
                    'impl': a[2 * i + 1][:200] + ' | k=1: ' + a[2 * i][:200], 'ok': ok, 'observed': '' if ok else 'scale',
                    'expected': '(mu_k - m) = (mu_1 - m) * k^%g with the same seed; ' % power + det})
    return res


# ---------------------------------------------------------------------------------------------------------------- stat
def ks_p(d, n):
    lam = (math.sqrt(n) + 0.12 + 0.11 / math.sqrt(n)) * d
    if lam < 0.2:
        return 1.0
    s = sum((-1) ** (k - 1) * math.exp(-2 * k * k * lam * lam) for k in range(1, 101))
    return max(0.0, min(1.0, 2 * s))


STAT_REAL = [('Beta', [2.0, 3.0]), ('Beta', [0.5, 0.5]), ('Cauchy', [1.0, 2.0]), ('ChiSquared', [3.0]), ('ChiSquared', [0.7]), ('Exponential', [2.0]),
             ('Gamma', [2.0, 3.0]), ('Gamma', [0.5, 0.25]), ('Gaussian', [1.0, 2.0]), ('Gev', [0.0, 1.0, 0.0]), ('Gev', [1.0, 2.0, 0.5]),
             ('Gev', [1.0, 2.0, -0.5]), ('InvChiSquared', [3.0]), ('InvGamma', [2.0, 3.0]), ('Kumaraswamy', [2.0, 3.0]), ('Laplace', [1.0, 2.0]),
             ('LogNormal', [0.5, 0.75]), ('Pareto', [3.0, 2.0]), ('ScaledInvChiSquared', [3.0, 2.0]), ('Uniform', [-1.0, 3.0]), ('UnitPowerLaw', [2.5])]
STAT_NAT = [('Poisson', [4.5], ''), ('Poisson', [40.0], ''), ('Binomial', [0.3], '20'), ('NegBinomial', [3.0, 0.4], ''), ('Geometric', [0.2], ''),
            ('Geometric', [0.7], ''), ('BetaBinomial', [2.0, 3.0], '20')]


def run_stat(seed, n=N_STAT):
    res = []
    req = ['seedsample.%s - %s %d %d' % (d, ' '.join(fx(p) for p in ps), seed, n) for d, ps in STAT_REAL]
    req += ['seedsample.%s - %s %s %d %d' % (d, pre, ' '.join(fx(p) for p in ps), seed, n) for d, ps, pre in STAT_NAT]
    ans = pipe(H, req, hang_ms=20000)
    q, meta = [], []
    for (d, ps), a in zip(STAT_REAL, ans):
        t = a.split()
        xs = sorted(unfx(v) for v in t[1:]) if t and t[0] == 'L%d' % n else None
        meta.append((d, ps, '', xs, 'real'))
        if xs:
            q += ['%s.cdf_real f64 %s %s' % (d, ' '.join(fx(p) for p in ps), fx(x)) for x in xs]
    for (d, ps, pre), a in zip(STAT_NAT, ans[len(STAT_REAL):]):
        t = a.split()
        xs = sorted(int(v) for v in t[1:]) if t and t[0] == 'L%d' % n else None
        ks = sorted(set(xs)) if xs else None
        meta.append((d, ps, pre, (xs, ks), 'nat'))
        if xs:
            q += ['%s.cdf_nat u32 %s %s %d' % (d, pre, ' '.join(fx(p) for p in ps), k) for k in ks]
    c = iter(pipe(H, q, hang_ms=20000))
    for d, ps, pre, data, kind in meta:
        name = '%s(%s)' % (d, ', '.join(([pre] if pre else []) + ['%g' % p for p in ps]))
        if not data or (kind == 'nat' and not data[0]):
            res.append({'site': d + '.draw', 'name': name, 'n': 0, 'D': float('nan'), 'p': 0.0, 'ok': False, 'detail': 'no sample'})
            continue
        if kind == 'real':
            xs = data
            Fs = [unfx(next(c).split()[0]) for _ in xs]
            dm = max(max(abs((i + 1) / n - Fx), abs(i / n - Fx)) for i, Fx in enumerate(Fs))
        else:
            xs, ks = data
            Fs = [unfx(next(c).split()[0]) for _ in ks]
            cnt = collections.Counter(xs)
            acc, dm = 0, 0.0
            for k, Fk in zip(ks, Fs):
                acc += cnt[k]
                dm = max(dm, abs(acc / n - Fk))
        p = ks_p(dm, n) if dm == dm else 0.0
        res.append({'site': d + '.draw', 'name': name, 'n': n, 'D': dm, 'p': p, 'ok': p >= 1e-6, 'detail': 'D=%.4f p=%.3g' % (dm, p)})
    return res


# ---------------------------------------------------------------------------------------------------------------- run
def run(tier='quick', seed=4, harness=None, driver=None):
    """returns {'corr': {site: {'cases', 'mismatches': [(line, impl, model)]}}, 'notes': Counter, 'evaluations': int,
                'regress': [...], 'witness': [...], 'drawchk': [...], 'stat': [...]}"""
    global H, D
    if harness:
        H = harness
    if driver:
        D = driver
    corr, notes, nlines = run_corr(N_CORR.get(tier, 200), seed)
    reg, wit = run_witness()
    chk = run_drawchk(N_CHK.get(tier, 400), 7 + seed)
    st = run_stat(11 + seed)
    mg = run_mixture_gaussian()
    jt = run_joint(tier, seed)
    sc = run_scaling(tier, seed)
    return {'corr': corr, 'notes': notes, 'evaluations': nlines + len(reg) + len(wit) + len(chk) + len(st) + len(mg) + len(jt) + len(sc),
            'regress': reg, 'witness': wit, 'drawchk': chk, 'stat': st, 'mixture_gaussian': mg, 'joint': jt, 'scaling': sc}


if __name__ == '__main__':
    tier = sys.argv[1] if len(sys.argv) > 1 else 'quick'
    r = run(tier, int(sys.argv[2]) if len(sys.argv) > 2 else 4)
    print('%-26s %8s %8s' % ('site', 'cases', 'mismatch'))
    for k, v in r['corr'].items():
        print('%-26s %8d %8d' % (k, v['cases'], len(v['mismatches'])))
        for m in v['mismatches'][:3]:
            print('   MISMATCH', m[0][:300], '\n      impl :', m[1][:200], '\n      model:', m[2][:200])
    print('notes:', dict(r['notes']))
    for x in r['regress']:
        print('regress', 'ok ' if x['ok'] else 'BAD', x['site'], x['what'], '|', x['impl'][:60], '|', x['model'][:60])
    for x in r['witness']:
        print('witness', 'reproduced' if x['reproduced'] else 'GONE', (x['site'], x['cls'], x['observed']), '|', x['impl'][:60], '|', x['model'][:60])
    for x in r['drawchk']:
        print('drawchk', 'known' if x['known'] else 'std  ', (x['site'], x['cls'], x['observed']), x['impl'])
    for x in r['stat']:
        print('stat', 'ok ' if x['ok'] else 'BAD', x['name'], x['detail'])
    for key in ('mixture_gaussian', 'joint', 'scaling'):
        bad = [x for x in r[key] if not x['ok']]
        print(key, len(r[key]), 'lines,', len(bad), 'bad')
        for x in bad[:4]:
            print('   BAD', x['site'], x['line'][:200], '|', x['impl'][:200])
    for x in r['joint']:
        if x['cls'] == 'conjugate_sample_joint_law':
            print('   joint', x['impl'])
