"""C08 — moments, location summaries, entropy and KL agree with the density."""
from props import _generic
LEAN_DEPS = ['RvModel.Spec.C08', 'RvModel.Lemmas.C08', 'RvModel.Hand.C08Extra', 'RvModel.Hand.DispatchAll']
TRUSTED = ['Spec/C08.lean: textbook closed forms of every summary (excess kurtosis, entropy in nats), cross-checked by '
           'independent quadrature of the object\'s own pdf during construction']
ASSUMPTIONS = ['closed form = functional of the pdf is textbook knowledge except where Props/C08C proves it (cdf(median)=1/2, KL)']
N_GEN = {'quick': 8, 'thorough': 100}
_generic.install(globals(), 'C08', methods=('mean', 'variance', 'skewness', 'kurtosis', 'median', 'mode', 'entropy', 'kl', 'kl_sym'),
                 n_spec=(25, 400))


def extra_run(man, tier, seed):
    """Poisson::entropy (hand model Hand/C08Extra.lean: enumeration below rate 200, asymptotic series above) against the model,
    and against the statement itself: entropy = -sum f ln f over the object's own pmf (enumerated with the generated ln_f)."""
    import random, math
    from checklib.core import enc, run_pair, tok_to_float, cmp_tokens
    rng = random.Random(seed * 53 + 8)
    n = 10 if tier == 'quick' else 200
    rates = [0.1, 1.0, 3.4, 50.0, 131.4, 199.5, 199.999, 200.0, 200.5, 250.0, 1000.0, 5000.0, 1e5]
    rates += [math.exp(rng.uniform(math.log(0.05), math.log(3000.0))) for _ in range(n)]
    lines = [f'hand.Poisson.entropy - {enc(r)}' for r in rates]
    impl, model = run_pair(lines)
    obligations, failures = [], []
    bad = []
    for l, a, b in zip(lines, impl, model):
        if b == 'NOOP' or a == 'NOOP':
            continue
        ok, detail = cmp_tokens(a, b, 1e-10, 1e-12)
        if not ok:
            bad.append({'line': l, 'impl': a, 'model': b})
    obligations.append({'name': 'corr:Poisson.entropy(hand model)', 'kind': 'corr', 'ok': not bad, 'site': 'Poisson.entropy',
                        'detail': (bad[0]['line'] + ' impl=' + bad[0]['impl'] + ' model=' + bad[0]['model']) if bad else '', 'cases': bad[:3]})
    # the statement: entropy = -E[ln f] with the object's own pmf
    qs, spans = [], []
    for r in rates:
        if r > 2e4:
            spans.append(None)
            continue
        sd = math.sqrt(r)
        lo, hi = max(0, int(r - 12 * sd - 40)), int(r + 12 * sd + 60)
        spans.append((len(qs), lo, hi))
        qs += [f'Poisson.ln_f_nat u32 {enc(r)} {k}' for k in range(lo, hi + 1)]
    vals, _ = run_pair(qs, want_model=False)
    for r, l, a, sp in zip(rates, lines, impl, spans):
        if sp is None or a in ('NOOP',):
            continue
        b0, lo, hi = sp
        lf = [tok_to_float(t) for t in vals[b0:b0 + hi - lo + 1]]
        h = -math.fsum(math.exp(v) * v for v in lf if v > -745.0)
        got = tok_to_float(a) if a.startswith('x') else float('nan')
        # the series drops terms of order 1/rate^4 (3e-10 at rate 200); enumeration stops at f < 1e-16
        if not (abs(got - h) <= 1e-8 * max(1.0, abs(h))):
            failures.append({'site': 'Poisson.entropy', 'case': l, 'impl': repr(got), 'expected': f'-sum f ln f = {h!r}',
                             'observed': 'value' if got == got else 'nan', 'detail': 'entropy vs enumeration of the own pmf'})
    # summaries at TINY valid parameters (1e-5 … 1e-9 in one positive field): closed forms that subtract nearly equal
    # quantities (exp(s^2) - 1, 1 - p, …) lose their digits there; compared with the Spec in RELATIVE terms
    from checklib import spec as S, gen as G
    ents = []
    for e in SPEC:
        d = man['defs'].get(e['op'])
        if d is None or not d['has_self'] or d.get('stub') or d['ptys']:
            continue
        dom = G.DOM.get(d['owner'])
        if not isinstance(dom, dict):
            continue
        fields = [f for f, t in man['structs'][d['owner']]]
        for f in [f for f in fields if dom.get(f) == 'pos']:
            def mk(r_, owner=d['owner'], f=f, fields=fields):
                v = list(G.struct_value(owner, man['structs'], r_))
                v[fields.index(f)] = 10.0 ** r_.choice([-6, -7, -8, -9]) * r_.uniform(1, 9)
                return tuple(v)
            ents.append(dict(e, params=mk, rel=1e-6, abs_=1e-300))
    tiny = S.spec_compare(man, ents, 3 if tier == 'quick' else 12, seed + 77)
    failures += tiny['failures']
    return {'obligations': obligations, 'failures': failures,
            'stats': {'evaluations': len(lines) + len(qs) + tiny['stats']['evaluations'],
                      'distinct_nontrivial': len(set(lines)) + len(set(qs)) + tiny['stats']['distinct_nontrivial']}, 'samples': lines[:2]}


def _toks(f):
    return f.get('case', '').split()


def _fl(f):
    from checklib.core import tok_to_float
    return [tok_to_float(t) for t in _toks(f)[2:] if t.startswith('x') and len(t) in (4, 17)]


INPUT_CLASSES = {
    'p_boundary': lambda f: any(x in (0.0, 1.0) for x in _fl(f)),
    'gev_unbounded': lambda f: len(_fl(f)) >= 3 and _fl(f)[2] <= -1.0,
    'pareto_tiny_shape': lambda f: f.get('site', '').startswith('Pareto') and len(_fl(f)) >= 1 and 0 < _fl(f)[0] < 1.0 / 700.0,
    'invgaussian_tiny_lambda': lambda f: f.get('site', '').startswith('InvGaussian') and len(_fl(f)) >= 2 and _fl(f)[0] > 0 and _fl(f)[1] / _fl(f)[0] < 1e-3,     # relative error ~ eps (mu/lambda)^2
    'gev_tiny_shape': lambda f: len(_fl(f)) >= 3 and abs(_fl(f)[2]) < 1e-6 and _fl(f)[2] != 0.0,
}
