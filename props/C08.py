"""C08 — moments, location summaries, entropy and KL agree with the density."""
from props import _generic
LEAN_DEPS = ['RvModel.Spec.C08', 'RvModel.Lemmas.C08', 'RvModel.Hand.DispatchAll']
TRUSTED = ['Spec/C08.lean: textbook closed forms of every summary (excess kurtosis, entropy in nats), cross-checked by '
           'independent quadrature of the object\'s own pdf during construction']
ASSUMPTIONS = ['closed form = functional of the pdf is textbook knowledge except where Props/C08C proves it (cdf(median)=1/2, KL)']
N_GEN = {'quick': 8, 'thorough': 100}
_generic.install(globals(), 'C08', methods=('mean', 'variance', 'skewness', 'kurtosis', 'median', 'mode', 'entropy', 'kl', 'kl_sym'),
                 n_spec=(25, 400))


def _toks(f):
    return f.get('case', '').split()


def _fl(f):
    from checklib.core import tok_to_float
    return [tok_to_float(t) for t in _toks(f)[2:] if t.startswith('x') and len(t) in (4, 17)]


INPUT_CLASSES = {
    'p_boundary': lambda f: any(x in (0.0, 1.0) for x in _fl(f)),
    'gev_unbounded': lambda f: len(_fl(f)) >= 3 and _fl(f)[2] <= -1.0,
    'gev_tiny_shape': lambda f: len(_fl(f)) >= 3 and abs(_fl(f)[2]) < 1e-6 and _fl(f)[2] != 0.0,
}
