#!/usr/bin/env python3
"""C11 correspondence run: real rv::dist::Mixture (harness ops `mix.*`, harness/src/manual_c11.rs) vs the hand model
Hand.Mixture on Float (driver entries `mix.*`, lean/RvModel/Hand/DispatchC11.lean) on random cases, plus direct checks
of the implementation's answers against the statement of the property (see props/C11_notes.md).
Stand-alone helper (not imported by ./check):
    python3 props/cases_c11.py [<rvharness> <rvdrv> [seed] [n]]      # 39 lines per unit of n; n = 1000 -> 39000 cases"""
import math, random, struct, subprocess, sys, collections

import os
_ROOT = os.path.dirname(os.path.dirname(os.path.abspath(__file__)))
H = sys.argv[1] if len(sys.argv) > 2 else os.path.join(_ROOT, 'harness', 'target', 'release', 'rvharness')
D = sys.argv[2] if len(sys.argv) > 2 else os.path.join(_ROOT, 'lean', '.lake', 'build', 'bin', 'rvdrv')
SEED = int(sys.argv[3]) if len(sys.argv) > 3 else 11
N = int(sys.argv[4]) if len(sys.argv) > 4 else 600
rng = random.Random(SEED)
NAN, INF = float('nan'), float('inf')


def fb(x):
    return 'x%016x' % struct.unpack('<Q', struct.pack('<d', float(x)))[0]


def tf(t):
    if t == 'xNaN':
        return NAN
    return struct.unpack('<d', struct.pack('<Q', int(t[1:], 16)))[0]


def L(xs, f=fb):
    return ' '.join(['L%d' % len(xs)] + [f(x) for x in xs])


def nextafter(x, d):
    return math.nextafter(x, d)


# ------------------------------------------------------------------------------------------- generators
def gen_weights(k, zeros=True):
    mode = rng.random()
    if mode < 0.25:
        raw = [1.0] * k
    elif mode < 0.6:
        raw = [rng.random() for _ in range(k)]
    else:
        raw = [math.exp(rng.uniform(-40, 0)) for _ in range(k)]       # widely separated weights
    if zeros and k > 1:
        for i in range(k):
            if rng.random() < 0.2:
                raw[i] = 0.0
        if sum(raw) == 0.0:
            raw[rng.randrange(k)] = 1.0
    s = math.fsum(raw)
    return [w / s for w in raw]


def perturb_sum(ws):
    """move the sum to 1 ± 1e-12 ± few ulp (both sides of the acceptance threshold)"""
    ws = list(ws)
    i = max(range(len(ws)), key=lambda j: ws[j])
    delta = rng.choice([1e-12, -1e-12]) * rng.choice([1.0, 0.999, 1.001, 0.5, 2.0, 1.0000001, 0.9999999])
    ws[i] = ws[i] + delta
    for _ in range(rng.randrange(0, 4)):
        ws[i] = nextafter(ws[i], rng.choice([-INF, INF]))
    return ws


def bad_weights(k):
    ws = gen_weights(k)
    r = rng.random()
    i = rng.randrange(k)
    if r < 0.2:
        ws[i] = -ws[i] if ws[i] != 0 else -1e-300
    elif r < 0.3:
        ws[i] = -0.0
    elif r < 0.45:
        ws[i] = NAN
    elif r < 0.55:
        ws[i] = INF
    elif r < 0.6:
        ws[i] = -INF
    elif r < 0.8:
        ws = perturb_sum(ws)
    elif r < 0.9:
        ws = [w * rng.choice([0.5, 2.0, 1.1]) for w in ws]
    return ws


def gen_gauss(k):
    style = rng.random()
    out = []
    for i in range(k):
        if style < 0.3:
            mu, sg = rng.uniform(-5, 5), rng.uniform(0.1, 3)
        elif style < 0.7:
            mu = rng.choice([-1, 1]) * 10 ** rng.uniform(-6, 6)
            sg = 10 ** rng.uniform(-6, 6)
        else:
            mu, sg = 1000.0 * i, 10 ** rng.uniform(-3, 0)                # disjoint bulk
        out.append((mu, sg))
    return out


def gen_x(gs):
    mu, sg = rng.choice(gs)
    r = rng.random()
    if r < 0.4:
        return mu + sg * rng.gauss(0, 1)
    if r < 0.7:
        return mu + sg * rng.choice([-1, 1]) * 10 ** rng.uniform(1, 8)   # far tails: f underflows, ln_f must not
    if r < 0.8:
        return rng.choice([-1, 1]) * 10 ** rng.uniform(-6, 12)
    if r < 0.85:
        return rng.choice([INF, -INF, NAN, 0.0, -0.0])
    return rng.uniform(-10, 10)


def G(gs):
    return ' '.join(['L%d' % len(gs)] + [fb(m) + ' ' + fb(s) for m, s in gs])


def lnnorm(x, mu, sg):
    k = (x - mu) / sg
    return -0.5 * k * k - math.log(sg) - 0.5 * math.log(2 * math.pi)


def ref_lse(ts):
    ts = [t for t in ts if t != -INF]
    if not ts:
        return -INF
    m = max(ts)
    return m + math.log(math.fsum(math.exp(t - m) for t in ts))


cases = []   # (line, class, meta)


def add(line, cls, meta=None):
    cases.append((line, cls, meta))


def gen_k():
    return rng.choice([1, 1, 2, 2, 3, 5, 8, 9, 10, 11, 17, 40, rng.randrange(1, 41)])


for _ in range(N):
    # ---- queries on Gaussian mixtures
    k = gen_k()
    ws, gs = gen_weights(k), gen_gauss(k)
    x = gen_x(gs)
    for q in ['ln_f', 'f', 'cdf', 'pdf', 'ln_pdf', 'supports']:
        add(f'mix.gauss.{q} - {L(ws)} {G(gs)} {fb(x)}', 'gauss.' + q, (ws, gs, x))
    add(f'mix.gauss.mean - {L(ws)} {G(gs)}', 'gauss.mean', (ws, gs))
    add(f'mix.gauss.variance - {L(ws)} {G(gs)}', 'gauss.variance', (ws, gs))
    # one component, weight 1
    g1 = gen_gauss(1)
    x1 = gen_x(g1)
    for q in ['ln_f', 'f', 'cdf', 'pdf']:
        add(f'mix.gauss.{q} - {L([1.0])} {G(g1)} {fb(x1)}', 'single.' + q, (g1, x1))
    # ---- Poisson / Bernoulli (discrete path)
    k = gen_k()
    ws = gen_weights(k)
    rates = [10 ** rng.uniform(-3, 3) for _ in range(k)]
    xn = rng.choice([0, 1, 2, 5, 50, 253, 254, 255, 1000, 100000, int(rng.choice(rates)), rng.randrange(0, 2000)])
    for q in ['ln_f', 'f', 'cdf', 'pmf', 'ln_pmf', 'supports']:
        add(f'mix.pois.{q} - {L(ws)} {L(rates)} {xn}', 'pois.' + q, (ws, rates, xn))
    add(f'mix.pois.mean - {L(ws)} {L(rates)}', 'pois.mean', None)
    add(f'mix.pois.variance - {L(ws)} {L(rates)}', 'pois.variance', (ws, rates))
    ps = [rng.choice([0.0, 1.0, rng.random(), rng.random(), 10 ** rng.uniform(-300, -1)]) for _ in range(k)]
    xb = rng.choice(['T', 'F'])
    for q in ['ln_f', 'f', 'cdf', 'pmf', 'ln_pmf', 'supports']:
        add(f'mix.bern.{q} - {L(ws)} {L(ps)} {xb}', 'bern.' + q, (ws, ps, xb))
    add(f'mix.bern.mean - {L(ws)} {L(ps)}', 'bern.mean', None)
    add(f'mix.bern.variance - {L(ws)} {L(ps)}', 'bern.variance', (ws, ps))
    # ---- construction
    k = gen_k()
    r = rng.random()
    if r < 0.35:
        w = gen_weights(k)
    elif r < 0.6:
        w = perturb_sum(gen_weights(k))
    else:
        w = bad_weights(k)
    kk = k if rng.random() < 0.8 else rng.choice([0, k + 1, max(0, k - 1)])
    if rng.random() < 0.05:
        w = []
    add(f'mix.new - {L(w)} {kk}', 'new', (w, kk))
    add(f'mix.uniform - {rng.choice([0, 1, 2, 3, 7, 10, 40, rng.randrange(0, 41), rng.randrange(0, 2000)])}', 'uniform', None)
    w0 = gen_weights(k)
    add(f'mix.set_weights - {L(w0)} {k} {L(w)}', 'set_weights', (w0, k, w))
    k2 = k if rng.random() < 0.6 else rng.choice([0, k + 1, max(0, k - 1), 1])
    add(f'mix.set_components - {L(w0)} {k} {G(gen_gauss(k2))}', 'set_components', (w0, k, k2))
    # ---- combine: lists of valid / boundary-valid / empty mixtures
    ms = []
    for _j in range(rng.choice([0, 1, 2, 3, 5, 8])):
        if rng.random() < 0.3:
            ms.append(([], []))
        else:
            kj = rng.choice([1, 2, 3, 9, 10, 40])
            wj = gen_weights(kj)
            if rng.random() < 0.3:
                wj = perturb_sum(wj)
            ms.append((wj, gen_gauss(kj)))
    add('mix.combine - L%d %s' % (len(ms), ' '.join(L(wj) + ' ' + G(gj) for wj, gj in ms)), 'combine', ms)
    # ---- pairs
    k = gen_k()
    w = gen_weights(k) if rng.random() < 0.7 else bad_weights(k)
    gs = gen_gauss(k)
    add('mix.pairs_roundtrip - L%d %s' % (k, ' '.join(f'{fb(a)} {fb(m)} {fb(s)}' for a, (m, s) in zip(w, gs))),
        'pairs_roundtrip', (w, gs))
    k3 = rng.choice([k, k, max(0, k - 1), k + 2])
    add(f'mix.to_pairs - {L(w)} {G(gen_gauss(k3))}', 'to_pairs', None)
    # ---- draws
    k = gen_k()
    w = gen_weights(k)
    word = rng.choice([0, 1, 4095, 4096, 2 ** 64 - 1, 2 ** 63, rng.getrandbits(64), rng.getrandbits(64)])
    add(f'mix.draw_index - {L(w)} {word}', 'draw_index', (w, word))
    # a word that lands exactly on / next to a cumulative boundary
    cw, acc = [], 0.0
    for a in w:
        acc += a
        cw.append(acc)
    b = rng.choice(cw) / cw[-1]
    wb = min(2 ** 64 - 1, max(0, (int(b * 2 ** 52) + rng.choice([-1, 0, 1])) << 12))
    add(f'mix.draw_index - {L(w)} {wb}', 'draw_index', (w, wb))
    gsd = [(float(1000 * (i + 1)), 10 ** rng.uniform(-3, 0)) for i in range(k)]
    add(f'mix.gauss.draw - {L(w)} {G(gsd)} {word}', 'gauss.draw', (w, gsd, word))
    w1 = gen_weights(k) if rng.random() < 0.7 else bad_weights(k)
    add(f'mix.gauss.ln_f_after_set_weights - {L(w)} {G(gsd)} {L(w1)} {fb(gen_x(gsd))}', 'cache', None)

lines = [c[0] for c in cases]
data = '\n'.join(lines) + '\n'
impl = subprocess.run([H], input=data, capture_output=True, text=True).stdout.split('\n')[:-1]
model = subprocess.run([D], input=data, capture_output=True, text=True).stdout.split('\n')[:-1]
assert len(impl) == len(lines) and len(model) == len(lines), (len(impl), len(model), len(lines))


def close(a, b, rel, abs_):
    if math.isnan(a) or math.isnan(b):
        return math.isnan(a) and math.isnan(b)
    if math.isinf(a) or math.isinf(b):
        return a == b
    return abs(a - b) <= abs_ + rel * max(abs(a), abs(b))


def cmp(a, b, rel, abs_):
    ta, tb = a.split(), b.split()
    if len(ta) != len(tb):
        return False
    for x, y in zip(ta, tb):
        if x.startswith('x') and y.startswith('x') and len(x) in (4, 17) and len(y) in (4, 17):
            if not close(tf(x), tf(y), rel, abs_):
                return False
        elif x != y:
            return False
    return True


EXACT = {'new', 'uniform', 'set_weights', 'set_components', 'combine', 'pairs_roundtrip', 'to_pairs', 'draw_index',
         'gauss.draw', 'gauss.supports', 'pois.supports', 'bern.supports'}
stats = collections.Counter()
bitdiff = collections.Counter()
fails = []
findings = collections.defaultdict(list)
for (line, cls, meta), a, b in zip(cases, impl, model):
    stats[cls] += 1
    if a != b:
        bitdiff[cls] += 1
    if cls in EXACT:
        ok = a == b
    elif cls.endswith('variance'):
        # p3*(-p3) + (p1+p2): fused (Rust) vs unfused (Float model) differ by rounding of p3*p3 relative to p1+p2
        ok = cmp(a, b, 1e-12, 0.0)
        if not ok and meta is not None and a.startswith('S') and b.startswith('S'):
            ws = meta[0]
            if cls.startswith('gauss'):
                scale = sum(w * (s * s + m * m) for w, (m, s) in zip(ws, meta[1]))
            elif cls.startswith('bern'):
                scale = sum(w * r for w, r in zip(ws, meta[1]))
            else:
                scale = sum(w * (r + r * r) for w, r in zip(ws, meta[1]))
            ok = abs(tf(a.split()[1]) - tf(b.split()[1])) <= 1e-14 * scale
    else:
        # the Float model evaluates mul_add unfused: component log-densities differ by a few ulp of their largest
        # term (Poisson at x = 1e5: ~1e-10 absolute), which exp() turns into a relative error of the density
        if cls.split('.')[-1] in ('f', 'pdf', 'pmf', 'cdf'):
            ok = cmp(a, b, 1e-9, 1e-300)
        else:
            ok = cmp(a, b, 1e-12, 1e-300) or cmp(a, b, 1e-12, 2e-15)
    if not ok:
        fails.append((cls, line, a, b))
    # ---------------- direct checks of the implementation against the statement of the property
    if cls == 'gauss.ln_f':
        ws, gs, x = meta
        if math.isfinite(x):
            ref = ref_lse([(math.log(w) if w > 0 else -INF) + lnnorm(x, m, s) for w, (m, s) in zip(ws, gs)])
            v = tf(a)
            stats['gauss.ln_f.ref'] += 1
            if not close(v, ref, 1e-11, 1e-11):
                findings['ln_f_vs_reference'].append((line, v, ref))
            if math.isnan(v) or (v == -INF and math.isfinite(ref)):
                findings['ln_f_underflow_or_nan'].append((line, v, ref))
            if ref < -745.2 and math.isfinite(v):
                stats['gauss.ln_f.finite_where_f_underflows'] += 1
    if cls.startswith('single.'):
        g1, x1 = meta
        q = cls.split('.')[1]
        stats['single.vs_component'] += 1
    if cls in ('new', 'set_weights') and not a.startswith('E:'):
        w = meta[0] if cls == 'new' else (meta[2] if a.startswith('U') else None)
        if w is not None:
            s = 0.0
            for t in w:
                s += t
            valid = all(t >= 0.0 for t in w) and abs(s - 1.0) <= 1e-12 and len(w) > 0
            if not valid:
                if any(t != t for t in w):
                    findings['accepted_NaN_weight'].append((line, a))
                else:
                    findings['accepted_invalid_weights_other'].append((line, a))
    if cls == 'uniform' and not a.startswith('E:'):
        w = [tf(t) for t in a.split()[1:-1]]
        s = 0.0
        for t in w:
            s += t
        if not (abs(s - 1.0) <= 1e-12):
            findings['uniform_sum'].append((line, s))
    if cls == 'combine':
        toks = a.split()
        n = int(toks[0][1:])
        w = [tf(t) for t in toks[1:1 + n]]
        nonempty = [m for m in meta if len(m[1]) > 0]

        def okW(wj):
            sj = 0.0
            for t in wj:
                sj += t
            return all(t >= 0 for t in wj) and abs(sj - 1.0) <= 1e-12
        if not all(okW(m[0]) for m in nonempty):
            stats['combine.input_not_W'] += 1
        elif nonempty:
            stats['combine.checked_W'] += 1
            s = 0.0
            for t in w:
                s += t
            if not (all(t >= 0 for t in w) and abs(s - 1.0) <= 1e-12 + 4e-16 and n == sum(len(m[1]) for m in meta)):
                findings['combine_W'].append((line, s))
        elif n != 0:
            findings['combine_empty'].append((line, a))
    if cls == 'draw_index' and a not in ('PANIC',):
        w, word = meta
        i = int(a)
        if i >= len(w):
            findings['draw_index_range'].append((line, a))
        elif w[i] == 0.0:
            findings['draw_zero_weight'].append((line, a))
    if a in ('PANIC', 'HANG', 'NOOP', 'BAD') or b.startswith('BAD') or b == 'NOOP':
        findings['abnormal'].append((line, a, b))

print('cases:', len(cases))
for c in sorted(stats):
    print(f'  {c:40s} {stats[c]:6d}   bit-different: {bitdiff.get(c, 0)}')
print('model/implementation mismatches beyond tolerance:', len(fails))
for f in fails[:15]:
    print('  MISMATCH', f[0], '\n     ', f[1][:300], '\n      impl ', f[2][:200], '\n      model', f[3][:200])
for k, v in findings.items():
    print('finding', k, len(v))
    for it in v[:4]:
        print('   ', str(it)[:400])
