#!/usr/bin/env python3
"""C11 correspondence run: real rv::dist::Mixture (harness ops `mix.*`, harness/src/manual_c11.rs) vs the hand model
Hand.Mixture on Float (driver entries `mix.*`, lean/RvModel/Hand/DispatchC11.lean) on random cases, plus direct checks
of the implementation's answers against the statement of the property (see props/C11_notes.md).
Run by props/C11.py (and stand-alone):
    python3 props/cases_c11.py [<rvharness> <rvdrv> [seed] [n]]      # part 1: 39 lines per unit of n
Part 2 (regression-oriented, `n2 = max(40, n // 2)` units): components with parameter-dependent supports (Pareto, Uniform,
Categorical of different sizes), the quadrature entropy of Mixture<Gaussian> (model with the implementation's bounds,
and an independent accurate quadrature of -∫ f ln f), f32 moments (Laplace / Uniform / Exponential components), setter histories (cache / state machine), entropies of discrete mixtures (Poisson by `count_entropy_range`, Bernoulli,
Categorical; model + enumeration of -Σ f ln f) and f64 moments of families whose moments may not exist.  Every failure is printed as
    FAIL<TAB>class<TAB>input line<TAB>implementation answer<TAB>expected"""
import math, random, struct, subprocess, sys, collections

import os
_ROOT = os.path.dirname(os.path.dirname(os.path.abspath(__file__)))
H = sys.argv[1] if len(sys.argv) > 2 else os.path.join(_ROOT, 'harness', 'target', 'release', 'rvharness')
D = sys.argv[2] if len(sys.argv) > 2 else os.path.join(_ROOT, 'lean', '.lake', 'build', 'bin', 'rvdrv')
SEED = int(sys.argv[3]) if len(sys.argv) > 3 else 11
N = int(sys.argv[4]) if len(sys.argv) > 4 else 600
rng = random.Random(SEED)
NAN, INF = float('nan'), float('inf')
# |Mixture<Gaussian>::entropy() - (-∫ f ln f)|: bound chosen from the baseline distribution of the unchanged code (see props/C11_notes.md)
ENTROPY_TOL = 6e-2


def fb(x):
    return 'x%016x' % struct.unpack('<Q', struct.pack('<d', float(x)))[0]


def tf(t):
    if t == 'xNaN':
        return NAN
    return struct.unpack('<d', struct.pack('<Q', int(t[1:], 16)))[0]


def L(xs, f=fb):
    return ' '.join(['L%d' % len(xs)] + [f(x) for x in xs])


def nextafter(x, d):
    return math.nextafter(x, d)


# ------------------------------------------------------------------------------------------- generators
def gen_weights(k, zeros=True):
    mode = rng.random()
    if mode < 0.25:
        raw = [1.0] * k
    elif mode < 0.6:
        raw = [rng.random() for _ in range(k)]
    else:
        raw = [math.exp(rng.uniform(-40, 0)) for _ in range(k)]       # widely separated weights
    if zeros and k > 1:
        for i in range(k):
            if rng.random() < 0.2:
                raw[i] = 0.0
        if sum(raw) == 0.0:
            raw[rng.randrange(k)] = 1.0
    s = math.fsum(raw)
    return [w / s for w in raw]


def perturb_sum(ws):
    """move the sum to 1 ± 1e-12 ± few ulp (both sides of the acceptance threshold)"""
    ws = list(ws)
    i = max(range(len(ws)), key=lambda j: ws[j])
    delta = rng.choice([1e-12, -1e-12]) * rng.choice([1.0, 0.999, 1.001, 0.5, 2.0, 1.0000001, 0.9999999])
    ws[i] = ws[i] + delta
    for _ in range(rng.randrange(0, 4)):
        ws[i] = nextafter(ws[i], rng.choice([-INF, INF]))
    return ws


def bad_weights(k):
    ws = gen_weights(k)
    r = rng.random()
    i = rng.randrange(k)
    if r < 0.2:
        ws[i] = -ws[i] if ws[i] != 0 else -1e-300
    elif r < 0.3:
        ws[i] = -0.0
    elif r < 0.45:
        ws[i] = NAN
    elif r < 0.55:
        ws[i] = INF
    elif r < 0.6:
        ws[i] = -INF
    elif r < 0.8:
        ws = perturb_sum(ws)
    elif r < 0.9:
        ws = [w * rng.choice([0.5, 2.0, 1.1]) for w in ws]
    return ws


def gen_gauss(k):
    style = rng.random()
    out = []
    for i in range(k):
        if style < 0.3:
            mu, sg = rng.uniform(-5, 5), rng.uniform(0.1, 3)
        elif style < 0.7:
            mu = rng.choice([-1, 1]) * 10 ** rng.uniform(-6, 6)
            sg = 10 ** rng.uniform(-6, 6)
        else:
            mu, sg = 1000.0 * i, 10 ** rng.uniform(-3, 0)                # disjoint bulk
        out.append((mu, sg))
    return out


def gen_x(gs):
    mu, sg = rng.choice(gs)
    r = rng.random()
    if r < 0.4:
        return mu + sg * rng.gauss(0, 1)
    if r < 0.7:
        return mu + sg * rng.choice([-1, 1]) * 10 ** rng.uniform(1, 8)   # far tails: f underflows, ln_f must not
    if r < 0.8:
        return rng.choice([-1, 1]) * 10 ** rng.uniform(-6, 12)
    if r < 0.85:
        return rng.choice([INF, -INF, NAN, 0.0, -0.0])
    return rng.uniform(-10, 10)


def G(gs):
    return ' '.join(['L%d' % len(gs)] + [fb(m) + ' ' + fb(s) for m, s in gs])


def lnnorm(x, mu, sg):
    k = (x - mu) / sg
    return -0.5 * k * k - math.log(sg) - 0.5 * math.log(2 * math.pi)


def ref_lse(ts):
    ts = [t for t in ts if t != -INF]
    if not ts:
        return -INF
    m = max(ts)
    return m + math.log(math.fsum(math.exp(t - m) for t in ts))


cases = []   # (line, class, meta)


def add(line, cls, meta=None):
    cases.append((line, cls, meta))


def gen_k():
    return rng.choice([1, 1, 2, 2, 3, 5, 8, 9, 10, 11, 17, 40, rng.randrange(1, 41)])


for _ in range(N):
    # ---- queries on Gaussian mixtures
    k = gen_k()
    ws, gs = gen_weights(k), gen_gauss(k)
    x = gen_x(gs)
    for q in ['ln_f', 'f', 'cdf', 'pdf', 'ln_pdf', 'supports']:
        add(f'mix.gauss.{q} - {L(ws)} {G(gs)} {fb(x)}', 'gauss.' + q, (ws, gs, x))
    add(f'mix.gauss.mean - {L(ws)} {G(gs)}', 'gauss.mean', (ws, gs))
    add(f'mix.gauss.variance - {L(ws)} {G(gs)}', 'gauss.variance', (ws, gs))
    # one component, weight 1
    g1 = gen_gauss(1)
    x1 = gen_x(g1)
    for q in ['ln_f', 'f', 'cdf', 'pdf']:
        add(f'mix.gauss.{q} - {L([1.0])} {G(g1)} {fb(x1)}', 'single.' + q, (g1, x1))
    # ---- Poisson / Bernoulli (discrete path)
    k = gen_k()
    ws = gen_weights(k)
    rates = [10 ** rng.uniform(-3, 3) for _ in range(k)]
    xn = rng.choice([0, 1, 2, 5, 50, 253, 254, 255, 1000, 100000, int(rng.choice(rates)), rng.randrange(0, 2000)])
    for q in ['ln_f', 'f', 'cdf', 'pmf', 'ln_pmf', 'supports']:
        add(f'mix.pois.{q} - {L(ws)} {L(rates)} {xn}', 'pois.' + q, (ws, rates, xn))
    add(f'mix.pois.mean - {L(ws)} {L(rates)}', 'pois.mean', None)
    add(f'mix.pois.variance - {L(ws)} {L(rates)}', 'pois.variance', (ws, rates))
    ps = [rng.choice([0.0, 1.0, rng.random(), rng.random(), 10 ** rng.uniform(-300, -1)]) for _ in range(k)]
    xb = rng.choice(['T', 'F'])
    for q in ['ln_f', 'f', 'cdf', 'pmf', 'ln_pmf', 'supports']:
        add(f'mix.bern.{q} - {L(ws)} {L(ps)} {xb}', 'bern.' + q, (ws, ps, xb))
    add(f'mix.bern.mean - {L(ws)} {L(ps)}', 'bern.mean', None)
    add(f'mix.bern.variance - {L(ws)} {L(ps)}', 'bern.variance', (ws, ps))
    # ---- construction
    k = gen_k()
    r = rng.random()
    if r < 0.35:
        w = gen_weights(k)
    elif r < 0.6:
        w = perturb_sum(gen_weights(k))
    else:
        w = bad_weights(k)
    kk = k if rng.random() < 0.8 else rng.choice([0, k + 1, max(0, k - 1)])
    if rng.random() < 0.05:
        w = []
    add(f'mix.new - {L(w)} {kk}', 'new', (w, kk))
    add(f'mix.uniform - {rng.choice([0, 1, 2, 3, 7, 10, 40, rng.randrange(0, 41), rng.randrange(0, 2000)])}', 'uniform', None)
    w0 = gen_weights(k)
    add(f'mix.set_weights - {L(w0)} {k} {L(w)}', 'set_weights', (w0, k, w))
    k2 = k if rng.random() < 0.6 else rng.choice([0, k + 1, max(0, k - 1), 1])
    add(f'mix.set_components - {L(w0)} {k} {G(gen_gauss(k2))}', 'set_components', (w0, k, k2))
    # ---- combine: lists of valid / boundary-valid / empty mixtures
    ms = []
    for _j in range(rng.choice([0, 1, 2, 3, 5, 8])):
        if rng.random() < 0.3:
            ms.append(([], []))
        else:
            kj = rng.choice([1, 2, 3, 9, 10, 40])
            wj = gen_weights(kj)
            if rng.random() < 0.3:
                wj = perturb_sum(wj)
            ms.append((wj, gen_gauss(kj)))
    add('mix.combine - L%d %s' % (len(ms), ' '.join(L(wj) + ' ' + G(gj) for wj, gj in ms)), 'combine', ms)
    # ---- pairs
    k = gen_k()
    w = gen_weights(k) if rng.random() < 0.7 else bad_weights(k)
    gs = gen_gauss(k)
    add('mix.pairs_roundtrip - L%d %s' % (k, ' '.join(f'{fb(a)} {fb(m)} {fb(s)}' for a, (m, s) in zip(w, gs))),
        'pairs_roundtrip', (w, gs))
    k3 = rng.choice([k, k, max(0, k - 1), k + 2])
    add(f'mix.to_pairs - {L(w)} {G(gen_gauss(k3))}', 'to_pairs', None)
    # ---- draws
    k = gen_k()
    w = gen_weights(k)
    word = rng.choice([0, 1, 4095, 4096, 2 ** 64 - 1, 2 ** 63, rng.getrandbits(64), rng.getrandbits(64)])
    add(f'mix.draw_index - {L(w)} {word}', 'draw_index', (w, word))
    # a word that lands exactly on / next to a cumulative boundary
    cw, acc = [], 0.0
    for a in w:
        acc += a
        cw.append(acc)
    b = rng.choice(cw) / cw[-1]
    wb = min(2 ** 64 - 1, max(0, (int(b * 2 ** 52) + rng.choice([-1, 0, 1])) << 12))
    add(f'mix.draw_index - {L(w)} {wb}', 'draw_index', (w, wb))
    gsd = [(float(1000 * (i + 1)), 10 ** rng.uniform(-3, 0)) for i in range(k)]
    add(f'mix.gauss.draw - {L(w)} {G(gsd)} {word}', 'gauss.draw', (w, gsd, word))
    w1 = gen_weights(k) if rng.random() < 0.7 else bad_weights(k)
    add(f'mix.gauss.ln_f_after_set_weights - {L(w)} {G(gsd)} {L(w1)} {fb(gen_x(gsd))}', 'cache', None)

lines = [c[0] for c in cases]
data = '\n'.join(lines) + '\n'
impl = subprocess.run([H], input=data, capture_output=True, text=True).stdout.split('\n')[:-1]
model = subprocess.run([D], input=data, capture_output=True, text=True).stdout.split('\n')[:-1]
assert len(impl) == len(lines) and len(model) == len(lines), (len(impl), len(model), len(lines))


def close(a, b, rel, abs_):
    if math.isnan(a) or math.isnan(b):
        return math.isnan(a) and math.isnan(b)
    if math.isinf(a) or math.isinf(b):
        return a == b
    return abs(a - b) <= abs_ + rel * max(abs(a), abs(b))


def cmp(a, b, rel, abs_):
    ta, tb = a.split(), b.split()
    if len(ta) != len(tb):
        return False
    for x, y in zip(ta, tb):
        if x.startswith('x') and y.startswith('x') and len(x) in (4, 17) and len(y) in (4, 17):
            if not close(tf(x), tf(y), rel, abs_):
                return False
        elif x != y:
            return False
    return True


EXACT = {'new', 'uniform', 'set_weights', 'set_components', 'combine', 'pairs_roundtrip', 'to_pairs', 'draw_index',
         'gauss.draw', 'gauss.supports', 'pois.supports', 'bern.supports'}
stats = collections.Counter()
bitdiff = collections.Counter()
fails = []
findings = collections.defaultdict(list)
for (line, cls, meta), a, b in zip(cases, impl, model):
    stats[cls] += 1
    if a != b:
        bitdiff[cls] += 1
    if cls in EXACT:
        ok = a == b
    elif cls.endswith('variance'):
        # p3*(-p3) + (p1+p2): fused (Rust) vs unfused (Float model) differ by rounding of p3*p3 relative to p1+p2
        ok = cmp(a, b, 1e-12, 0.0)
        if not ok and meta is not None and a.startswith('S') and b.startswith('S'):
            ws = meta[0]
            if cls.startswith('gauss'):
                scale = sum(w * (s * s + m * m) for w, (m, s) in zip(ws, meta[1]))
            elif cls.startswith('bern'):
                scale = sum(w * r for w, r in zip(ws, meta[1]))
            else:
                scale = sum(w * (r + r * r) for w, r in zip(ws, meta[1]))
            ok = abs(tf(a.split()[1]) - tf(b.split()[1])) <= 1e-14 * scale
    else:
        # the Float model evaluates mul_add unfused: component log-densities differ by a few ulp of their largest
        # term (Poisson at x = 1e5: ~1e-10 absolute), which exp() turns into a relative error of the density
        if cls.split('.')[-1] in ('f', 'pdf', 'pmf', 'cdf'):
            ok = cmp(a, b, 1e-9, 1e-300)
        else:
            ok = cmp(a, b, 1e-12, 1e-300) or cmp(a, b, 1e-12, 2e-15)
    if not ok:
        fails.append((cls, line, a, b))
    # ---------------- direct checks of the implementation against the statement of the property
    if cls == 'gauss.ln_f':
        ws, gs, x = meta
        if math.isfinite(x):
            ref = ref_lse([(math.log(w) if w > 0 else -INF) + lnnorm(x, m, s) for w, (m, s) in zip(ws, gs)])
            v = tf(a)
            stats['gauss.ln_f.ref'] += 1
            if not close(v, ref, 1e-11, 1e-11):
                findings['ln_f_vs_reference'].append((line, v, ref))
            if math.isnan(v) or (v == -INF and math.isfinite(ref)):
                findings['ln_f_underflow_or_nan'].append((line, v, ref))
            if ref < -745.2 and math.isfinite(v):
                stats['gauss.ln_f.finite_where_f_underflows'] += 1
    if cls.startswith('single.'):
        g1, x1 = meta
        q = cls.split('.')[1]
        stats['single.vs_component'] += 1
    if cls in ('new', 'set_weights') and not a.startswith('E:'):
        w = meta[0] if cls == 'new' else (meta[2] if a.startswith('U') else None)
        if w is not None:
            s = 0.0
            for t in w:
                s += t
            valid = all(t >= 0.0 for t in w) and abs(s - 1.0) <= 1e-12 and len(w) > 0
            if not valid:
                if any(t != t for t in w):
                    findings['accepted_NaN_weight'].append((line, a))
                else:
                    findings['accepted_invalid_weights_other'].append((line, a))
    if cls == 'uniform' and not a.startswith('E:'):
        w = [tf(t) for t in a.split()[1:-1]]
        s = 0.0
        for t in w:
            s += t
        if not (abs(s - 1.0) <= 1e-12):
            findings['uniform_sum'].append((line, s))
    if cls == 'combine':
        toks = a.split()
        n = int(toks[0][1:])
        w = [tf(t) for t in toks[1:1 + n]]
        nonempty = [m for m in meta if len(m[1]) > 0]

        def okW(wj):
            sj = 0.0
            for t in wj:
                sj += t
            return all(t >= 0 for t in wj) and abs(sj - 1.0) <= 1e-12
        if not all(okW(m[0]) for m in nonempty):
            stats['combine.input_not_W'] += 1
        elif nonempty:
            stats['combine.checked_W'] += 1
            s = 0.0
            for t in w:
                s += t
            if not (all(t >= 0 for t in w) and abs(s - 1.0) <= 1e-12 + 4e-16 and n == sum(len(m[1]) for m in meta)):
                findings['combine_W'].append((line, s))
        elif n != 0:
            findings['combine_empty'].append((line, a))
    if cls == 'draw_index' and a not in ('PANIC',):
        w, word = meta
        i = int(a)
        if i >= len(w):
            findings['draw_index_range'].append((line, a))
        elif w[i] == 0.0:
            findings['draw_zero_weight'].append((line, a))
    if a in ('PANIC', 'HANG', 'NOOP', 'BAD') or b.startswith('BAD') or b == 'NOOP':
        findings['abnormal'].append((line, a, b))


# =========================================================================================== part 2
N2 = max(40, N // 2)
fails2 = []          # (class, input line, impl answer, expected)
base_err = []        # |entropy() - accurate quadrature| on this run, configurations inside the domain of the bound
base_err_out = []    # … outside (recorded, not judged: the unchanged 16-point rule is off by up to 0.7 there)


def run(binary, lines_):
    if not lines_:
        return []
    out = subprocess.run([binary], input='\n'.join(lines_) + '\n', capture_output=True, text=True).stdout.split('\n')[:-1]
    return out + ['DIED'] * (len(lines_) - len(out))


def f32(x):
    """round a binary64 to binary32 (ties to even), as Rust `as f32`"""
    if math.isnan(x) or math.isinf(x):
        return x
    try:
        return struct.unpack('<f', struct.pack('<f', x))[0]
    except OverflowError:
        return math.copysign(INF, x)


def opt_tokens(toks, i):
    """parse `N` | `S x…` at position i -> (value or None, next index)"""
    if toks[i] == 'N':
        return None, i + 1
    return tf(toks[i + 1]), i + 2


def opt_list(toks, i):
    n = int(toks[i][1:])
    i += 1
    out = []
    for _ in range(n):
        v, i = opt_tokens(toks, i)
        out.append(v)
    return out, i


def enc_opt(v):
    return 'N' if v is None else 'S ' + fb(v)


# ---- Gauss-Legendre nodes for the independent reference quadrature
def _gl(n):
    xs, ws = [], []
    for i in range(n):
        x = math.cos(math.pi * (i + 0.75) / (n + 0.5))
        for _ in range(100):
            p0, p1 = 1.0, x
            for k in range(2, n + 1):
                p0, p1 = p1, ((2 * k - 1) * x * p1 - (k - 1) * p0) / k
            dp = n * (x * p1 - p0) / (x * x - 1)
            dx = p1 / dp
            x -= dx
            if abs(dx) < 1e-16:
                break
        xs.append(x)
        ws.append(2 / ((1 - x * x) * dp * dp))
    return xs, ws


_GLX, _GLW = _gl(20)


def mix_lnf(ws, gs, x):
    return ref_lse([(math.log(w) if w > 0 else -INF) + lnnorm(x, m, s) for w, (m, s) in zip(ws, gs)])


def ref_entropy(ws, gs, refine=1):
    """-∫ f ln f of a Gaussian mixture: 20-point Gauss-Legendre on a partition adapted to every component"""
    ts = [-40, -25, -16, -12, -9, -7, -5.5, -4.5, -3.5, -2.75, -2, -1.5, -1, -0.5, 0, 0.5, 1, 1.5, 2, 2.75, 3.5, 4.5, 5.5, 7, 9,
          12, 16, 25, 40]
    cuts = sorted({m + s * t for (m, s) in gs for t in ts})
    tot = 0.0
    for a, b in zip(cuts, cuts[1:]):
        for j in range(refine):
            lo = a + (b - a) * j / refine
            hi = a + (b - a) * (j + 1) / refine
            h, c = (hi - lo) / 2, (hi + lo) / 2
            acc = 0.0
            for x, w in zip(_GLX, _GLW):
                l = mix_lnf(ws, gs, c + h * x)
                if l > -745:
                    acc += w * math.exp(l) * l
            tot += h * acc
    return -tot


def pos_weights(k, allow_zero=True):
    raw = [rng.random() + 0.02 for _ in range(k)]
    if allow_zero and k > 1 and rng.random() < 0.2:
        raw[rng.randrange(k)] = 0.0
    t = math.fsum(raw)
    return [r / t for r in raw]


# ------------------------------------------------------------------------------ (A) parameter-dependent supports
def pareto_pdf(sh, sc, x):
    return sh * sc ** sh / x ** (sh + 1) if (math.isfinite(x) and x >= sc) else 0.0


sup_cases = []     # (line, class, expected-from-the-definition or None)
for _ in range(N2):
    k = rng.choice([1, 2, 2, 3, 5])
    ws = pos_weights(k)
    # Pareto: distinct scales; x between two scales is supported by some components only
    scs = sorted(10 ** rng.uniform(-1, 1) for _ in range(k))
    shs = [10 ** rng.uniform(-0.5, 1) for _ in range(k)]
    P = ' '.join(['L%d' % k] + [fb(a) + ' ' + fb(b) for a, b in zip(shs, scs)])
    xs = [scs[0] * rng.uniform(0.1, 0.99), scs[-1] * rng.uniform(1.01, 30), rng.choice(scs), nextafter(rng.choice(scs), -INF)]
    xs += [(a + b) / 2 for a, b in zip(scs, scs[1:])]
    if rng.random() < 0.1:
        xs.append(rng.choice([0.0, -1.0, INF, NAN]))
    for x in xs:
        exp = sum(w * pareto_pdf(sh, sc, x) for w, sh, sc in zip(ws, shs, scs)) if x == x else 0.0
        for q in ['pdf', 'ln_pdf', 'f', 'ln_f', 'cdf', 'supports']:
            sup_cases.append((f'mix.pareto.{q} - {L(ws)} {P} {fb(x)}', 'pareto.' + q, exp if q == 'pdf' else None))
    sup_cases.append((f'mix.pareto.mean - {L(ws)} {P}', 'pareto.mean', None))
    sup_cases.append((f'mix.pareto.variance - {L(ws)} {P}', 'pareto.variance', None))
    # Uniform: disjoint, nested or overlapping intervals
    ivs = []
    for i in range(k):
        a = rng.uniform(-5, 5) if rng.random() < 0.5 else float(3 * i)
        ivs.append((a, a + 10 ** rng.uniform(-2, 1)))
    U = ' '.join(['L%d' % k] + [fb(a) + ' ' + fb(b) for a, b in ivs])
    a0, b0 = rng.choice(ivs)
    xs = [rng.uniform(a0, b0), a0, b0, nextafter(a0, -INF), nextafter(b0, INF), rng.uniform(-8, 20)]
    for x in xs:
        exp = sum(w / (b - a) for w, (a, b) in zip(ws, ivs) if a <= x <= b)
        for q in ['pdf', 'ln_pdf', 'f', 'ln_f', 'cdf', 'supports']:
            sup_cases.append((f'mix.unif.{q} - {L(ws)} {U} {fb(x)}', 'unif.' + q, exp if q == 'pdf' else None))
    sup_cases.append((f'mix.unif.mean - {L(ws)} {U}', 'unif.mean', None))
    sup_cases.append((f'mix.unif.variance - {L(ws)} {U}', 'unif.variance', None))
    # Categorical components with different numbers of categories
    ns = [rng.choice([1, 2, 3, 4, 6]) for _ in range(k)]
    lnws = []
    for n_ in ns:
        raw = [rng.random() if rng.random() < 0.85 else 0.0 for _ in range(n_)]
        if sum(raw) == 0:
            raw[0] = 1.0
        t = sum(raw)
        lnws.append([math.log(r / t) if r > 0 else -INF for r in raw])
    C = ' '.join(['L%d' % k] + [L(lw) for lw in lnws])
    for x in range(0, max(ns) + 2):
        exp = sum(w * math.exp(lw[x]) for w, lw in zip(ws, lnws) if x < len(lw))
        for q in ['pmf', 'ln_pmf', 'supports']:
            sup_cases.append((f'mix.cat.{q} - {L(ws)} {C} {x}', 'cat.' + q, exp if q == 'pmf' else None))
        if x < min(ns):       # ln_f / f / cdf index every component: only inside every support
            for q in ['ln_f', 'f', 'cdf']:
                sup_cases.append((f'mix.cat.{q} - {L(ws)} {C} {x}', 'cat.' + q, None))

sl = [c[0] for c in sup_cases]
si, sm = run(H, sl), run(D, sl)
for (line, cls, exp), a, b in zip(sup_cases, si, sm):
    stats[cls] += 1
    q = cls.split('.')[1]
    if q == 'supports':
        ok = a == b
    elif q in ('mean', 'variance'):
        ok = cmp(a, b, 1e-9, 1e-300)
    elif q in ('f', 'pdf', 'pmf', 'cdf'):
        ok = cmp(a, b, 1e-9, 1e-300)
    else:
        ok = cmp(a, b, 1e-11, 1e-300) or cmp(a, b, 1e-11, 1e-14)
    if not ok:
        fails2.append((cls, line, a, b))
    elif exp is not None:
        # the definition itself: pdf/pmf(x) = Σ_{k : component k supports x} w_k f_k(x), computed from the parameters
        stats[cls + '.definition'] += 1
        if not (a.startswith('x') and close(tf(a), exp, 1e-9, 1e-300)):
            fails2.append((cls + '.definition', line, a, fb(exp)))

# ------------------------------------------------------------------------------ (B) quadrature entropy of Mixture<Gaussian>
ent_cfg = []          # (weights, components, in_domain)
for _ in range(N2):
    k = rng.choice([1, 2, 2, 2, 3, 3, 4, 6])
    style = rng.random()
    gs = []
    for i in range(k):
        if style < 0.5:      # the domain of the accuracy bound: modes in [-3, 3], widths within a factor 10
            gs.append((rng.uniform(-3, 3), 10 ** rng.uniform(-0.5, 0.5)))
        elif style < 0.7:    # unequal widths up to a factor 50
            gs.append((rng.uniform(-3, 3), 10 ** rng.uniform(-1, 0.7)))
        elif style < 0.85:
            gs.append((rng.uniform(-20, 20), 10 ** rng.uniform(-0.5, 0.5)))
        else:                # widely separated narrow components
            gs.append((rng.uniform(-1, 1) * 10 ** rng.uniform(0, 3), 10 ** rng.uniform(-1, 1)))
    ent_cfg.append((pos_weights(k, allow_zero=False), gs, style < 0.5))
ent_cfg += [([0.5, 0.5], [(0.0, 1.0), (0.8, 0.2)], False), ([0.5, 0.5], [(0.0, 3.0), (2.0, 0.5)], True),
            ([0.5, 0.5], [(-2.0, 1.0), (2.0, 1.0)], True), ([1.0], [(3.0, 2.0)], True)]
cfg_tok = [f'{L(ws)} {G(gs)}' for ws, gs, _d in ent_cfg]
qb_i = run(H, ['mix.gauss.quad_bounds - ' + c for c in cfg_tok])
qb_m = run(D, ['mix.gauss.quad_bounds - ' + c for c in cfg_tok])
en_i = run(H, ['mix.gauss.entropy - ' + c for c in cfg_tok])
en_m = run(D, [f'mix.gauss.entropy_b - {c} {q}' if len(q.split()) == 2 else 'mix.gauss.entropy - ' + c
               for c, q in zip(cfg_tok, qb_i)])
for (ws, gs, dom), c, qi, qm, ei, em in zip(ent_cfg, cfg_tok, qb_i, qb_m, en_i, en_m):
    stats['gauss.quad_bounds'] += 1
    stats['gauss.entropy'] += 1
    smax = max(s for _, s in gs)
    # the bounds go through erf_inv at ±(1 - 1e-12): rv's and the model's differ by ~6e-4 standard deviations
    if not (len(qi.split()) == 2 and len(qm.split()) == 2 and
            all(abs(tf(x) - tf(y)) <= 3e-3 * smax + 1e-9 * abs(tf(y)) for x, y in zip(qi.split(), qm.split()))):
        fails2.append(('gauss.quad_bounds', 'mix.gauss.quad_bounds - ' + c, qi, qm))
    # model of the whole quadrature (break points, 16-point rule) fed with the implementation's bounds
    if not cmp(ei, em, 1e-10, 1e-12):
        fails2.append(('gauss.entropy', f'mix.gauss.entropy - {c}', ei, em + '   (model mix.gauss.entropy_b with bounds ' + qi + ')'))
    # accuracy: entropy() vs an independent accurate quadrature of -∫ f ln f
    if ei.startswith('x') and len(ei) == 17:
        ref = ref_entropy(ws, gs)
        err = abs(tf(ei) - ref)
        (base_err if dom else base_err_out).append(err)
        stats['gauss.entropy.reference' if dom else 'gauss.entropy.reference(recorded only)'] += 1
        if dom and not err <= ENTROPY_TOL:
            fails2.append(('gauss.entropy.reference', f'mix.gauss.entropy - {c}', ei, fb(ref) + f'   (-∫ f ln f = {ref!r}, |error| = {err:.3e} > {ENTROPY_TOL})'))

# ------------------------------------------------------------------------------ (C) f32 moments
mom_cases = []
for _ in range(N2):
    k = rng.choice([1, 1, 2, 3, 8])
    ws = pos_weights(k)
    fam = rng.choice(['laplace', 'laplace', 'unif', 'expon'])
    big = rng.choice([-1, 1]) * 10 ** rng.uniform(0, 5)
    if fam == 'laplace':
        pars = [(big + rng.uniform(-3, 3), 10 ** rng.uniform(-1, 1)) for _ in range(k)]
        P = ' '.join(['L%d' % k] + [fb(a) + ' ' + fb(b) for a, b in pars])
    elif fam == 'unif':
        pars = [(big + rng.uniform(-3, 3), 10 ** rng.uniform(-1, 1)) for _ in range(k)]
        P = ' '.join(['L%d' % k] + [fb(a) + ' ' + fb(a + d) for a, d in pars])
    else:
        pars = [10 ** rng.uniform(-4, 2) for _ in range(k)]
        P = L(pars)
    mom_cases.append(f'mix.f32.moments - {fam} {L(ws)} {P}')
mom_cases.append(f'mix.f32.moments - laplace {L([1.0])} L1 {fb(1000.1)} {fb(math.sqrt(0.5))}')
mi = run(H, mom_cases)
stage2, parsed = [], []
for line, a in zip(mom_cases, mi):
    t = a.split()
    try:
        m32, i = opt_tokens(t, 0)
        v32, i = opt_tokens(t, i)
        cm, i = opt_list(t, i)
        cv, i = opt_list(t, i)
    except Exception:
        fails2.append(('f32.moments', line, a, 'parsable answer'))
        parsed.append(None)
        stage2.append('mix.moments - L0 L0 L0')
        continue
    ws = [tf(x) for x in line.split()[4:4 + int(line.split()[3][1:])]]
    parsed.append((m32, v32, cm, cv, ws))
    stage2.append(f'mix.moments - {L(ws)} ' + ' '.join(['L%d' % len(cm)] + [enc_opt(x) for x in cm]) + ' ' +
                  ' '.join(['L%d' % len(cv)] + [enc_opt(x) for x in cv]))
mm = run(D, stage2)
for line, a, pr, b in zip(mom_cases, mi, parsed, mm):
    if pr is None:
        continue
    stats['f32.moments'] += 1
    m32, v32, cm, cv, ws = pr
    t = b.split()
    em, i = opt_tokens(t, 0)
    ev, i = opt_tokens(t, i)
    # the f64 model at the exactly widened f32 component moments, rounded to f32
    scale = sum(w * ((m or 0.0) ** 2 + abs(v or 0.0)) for w, m, v in zip(ws, cm, cv))

    def agree(got, want, sc):
        if (got is None) != (want is None):
            return False
        if got is None:
            return True
        w32 = f32(want)
        if got == w32 or (math.isnan(got) and math.isnan(w32)):
            return True
        if math.isinf(got) or math.isinf(w32):
            return False
        return abs(got - want) <= 1e-6 * abs(want) + 1e-14 * sc
    if not agree(m32, em, max(abs(x or 0.0) for x in cm)):
        fails2.append(('f32.mean', line, a, 'mean ' + (enc_opt(f32(em)) if em is not None else 'N') + '  (model mix.moments: ' + b + ')'))
    if not agree(v32, ev, scale):
        fails2.append(('f32.variance', line, a, 'variance ' + (enc_opt(f32(ev)) if ev is not None else 'N') + '  (model mix.moments: ' + b + ')'))

# ------------------------------------------------------------------------------ (D) setter histories
hist_cases = []
for _ in range(N2):
    k = rng.choice([1, 2, 3, 5, 10])
    w, gs = gen_weights(k), gen_gauss(k)
    gs0 = gs
    steps = ['q ' + fb(gen_x(gs))]
    kk = k
    for _s in range(rng.randrange(3, 12)):
        r = rng.random()
        if r < 0.25:
            w1 = gen_weights(kk) if rng.random() < 0.75 else bad_weights(rng.choice([kk, kk, kk + 1]))
            steps.append('ws ' + L(w1))
        elif r < 0.35:
            steps.append('wu ' + L(gen_weights(kk)))
        elif r < 0.45:
            k2 = kk if rng.random() < 0.7 else rng.choice([kk + 1, max(1, kk - 1)])
            gs = gen_gauss(k2) if k2 != kk else gen_gauss(kk)
            steps.append('cs ' + G(gs))
        elif r < 0.5:
            kk = rng.choice([kk, kk, kk + 1, max(1, kk - 1)])
            gs = gen_gauss(kk)
            steps.append('cu ' + G(gs))
            steps.append('wu ' + L(gen_weights(kk)))
        elif r < 0.58:
            steps.append('clone')
        elif r < 0.66:
            steps.append('eq')
        elif r < 0.76:
            steps.append('lw')
        elif r < 0.84:
            steps.append('f ' + fb(gen_x(gs)))
        else:
            steps.append('q ' + fb(gen_x(gs)))
    steps += ['q ' + fb(gen_x(gs)), 'lw', 'eq']
    nsteps = sum(1 for s_ in steps)
    hist_cases.append(f'mix.hist - {L(w)} {G(gs0)} {nsteps} ' + ' '.join(steps))
hi = run(H, hist_cases)
for line, a in zip(hist_cases, hi):
    stats['hist'] += 1
    bad = None
    if a in ('PANIC', 'HANG', 'DIED', 'NOOP') or a.startswith('BAD'):
        bad = a
    else:
        for item in a.split(' | '):
            t = item.split()
            if len(t) == 1:
                continue                      # status of a checked setter
            half = len(t) // 2
            if len(t) % 2 or t[:half] != t[half:]:
                bad = item
                break
    if bad is not None:
        fails2.append(('hist', line, a, 'every query of the live mixture equal to a fresh mixture with the same parameters; first difference: ' + bad))

# ------------------------------------------------------------------------------ (E) entropies of discrete mixtures
def pois_mix_entropy_ref(ws, rates):
    """-Σ f ln f of a Poisson mixture by enumeration of its own pmf (log domain)"""
    top = max(rates)
    hi = int(top + 14 * math.sqrt(top) + 80)
    h = 0.0
    for x in range(hi + 1):
        lg = math.lgamma(x + 1)
        l = ref_lse([(math.log(w) if w > 0 else -INF) + x * math.log(r) - r - lg for w, r in zip(ws, rates)])
        if l > -745:
            h -= math.exp(l) * l
    return h


dent = []       # (line, class, reference or None)
for _ in range(N2):
    k = rng.choice([1, 2, 2, 3, 4])
    ws = pos_weights(k)
    rates = [math.exp(rng.uniform(math.log(0.05), math.log(2000))) for _ in range(k)]
    if rng.random() < 0.3 and k >= 2:      # far-apart rates: the pmf at the midpoint of the extreme means is negligible
        rates[0], rates[1] = rng.uniform(0.5, 10), rng.uniform(300, 1500)
        rng.shuffle(rates)
    dent.append((f'mix.pois.entropy - {L(ws)} {L(rates)}', 'pois.entropy', pois_mix_entropy_ref(ws, rates)))
    kb = rng.choice([1, 2, 3, 5])
    wb = pos_weights(kb)
    ps = [rng.choice([rng.random(), rng.random(), 10 ** rng.uniform(-12, -1), 0.0, 1.0]) for _ in range(kb)]
    dent.append((f'mix.bern.entropy - {L(wb)} {L(ps)}', 'bern.entropy', None))
    kc, nc = rng.choice([1, 2, 3]), rng.choice([1, 2, 3, 5, 8])
    wc = pos_weights(kc)
    lnws = []
    for _c in range(kc):
        raw = [rng.random() if rng.random() < 0.85 else 0.0 for _ in range(nc)]
        if sum(raw) == 0:
            raw[0] = 1.0
        t = sum(raw)
        lnws.append([math.log(r / t) if r > 0 else -INF for r in raw])
    fx = [sum(w * math.exp(lw[x]) for w, lw in zip(wc, lnws)) for x in range(nc)]
    dent.append(('mix.cat.entropy - %s %s' % (L(wc), ' '.join(['L%d' % kc] + [L(lw) for lw in lnws])), 'cat.entropy',
                 -sum(f * math.log(f) for f in fx if f > 0)))
dent += [(f'mix.pois.entropy - {L([0.5, 0.5])} {L([5.0, 500.0])}', 'pois.entropy', pois_mix_entropy_ref([0.5, 0.5], [5.0, 500.0])),
         (f'mix.pois.entropy - {L([0.3, 0.7])} {L([2.5, 800.0])}', 'pois.entropy', pois_mix_entropy_ref([0.3, 0.7], [2.5, 800.0]))]
dl = [c[0] for c in dent]
di, dm = run(H, dl), run(D, dl)
pois_err = []
for (line, cls, ref), a, b in zip(dent, di, dm):
    stats[cls] += 1
    if not (cmp(a, b, 1e-10, 1e-13)):
        fails2.append((cls, line, a, b))
    elif ref is not None and a.startswith('x') and len(a) == 17:
        # the definition: entropy() = -Σ f ln f of the mixture's own pmf
        err = abs(tf(a) - ref)
        stats[cls + '.reference'] += 1
        if cls == 'pois.entropy':
            pois_err.append(err)
        if not err <= 5e-9 * max(1.0, abs(ref)):
            fails2.append((cls + '.reference', line, a, fb(ref) + f'   (-Σ f ln f = {ref!r}, |error| = {err:.3e})'))

# ------------------------------------------------------------------------------ (F) f64 moments that may not exist
def thr(v0):
    """a degrees-of-freedom / shape parameter straddling the existence thresholds 1, 2, 4"""
    return rng.choice([0.5, 1.0, nextafter(1.0, 2.0), 1.5, 2.0, nextafter(2.0, 3.0), 2.5, 3.0, 4.0, nextafter(4.0, 5.0), 5.0, 30.0,
                       rng.uniform(0.2, 6.0)])


xm_cases = []
for _ in range(N2):
    k = rng.choice([1, 2, 2, 3, 5])
    ws = pos_weights(k)            # zero weights included: existence does not depend on the weight
    fam = rng.choice(['studentst', 'invgamma', 'invchi2', 'sinvchi2', 'pareto'])
    if fam in ('studentst', 'invchi2'):
        P = L([thr(0) for _ in range(k)])
    else:
        P = ' '.join(['L%d' % k] + [fb(thr(0)) + ' ' + fb(10 ** rng.uniform(-1, 1)) for _ in range(k)])
    xm_cases.append(f'mix.f64.moments - {fam} {L(ws)} {P}')
xm_cases += [f'mix.f64.moments - studentst {L([0.5, 0.5])} {L([1.5, 5.0])}',
             f'mix.f64.moments - invgamma {L([0.0, 1.0])} L2 {fb(1.5)} {fb(1.0)} {fb(3.0)} {fb(2.0)}']
xi = run(H, xm_cases)
xs2, xparsed = [], []
for line, a in zip(xm_cases, xi):
    t = a.split()
    try:
        m_, i = opt_tokens(t, 0)
        v_, i = opt_tokens(t, i)
        cm, i = opt_list(t, i)
        cv, i = opt_list(t, i)
    except Exception:
        fails2.append(('f64.moments', line, a, 'parsable answer'))
        xparsed.append(None)
        xs2.append('mix.moments - L0 L0 L0')
        continue
    ws = [tf(x) for x in line.split()[4:4 + int(line.split()[3][1:])]]
    xparsed.append((m_, v_, cm, cv, ws))
    xs2.append(f'mix.moments - {L(ws)} ' + ' '.join(['L%d' % len(cm)] + [enc_opt(x) for x in cm]) + ' ' +
               ' '.join(['L%d' % len(cv)] + [enc_opt(x) for x in cv]))
xm = run(D, xs2)
for line, a, pr, b in zip(xm_cases, xi, xparsed, xm):
    if pr is None:
        continue
    stats['f64.moments'] += 1
    m_, v_, cm, cv, ws = pr
    # existence clause (C11.mean_isNone_iff / variance_isNone_iff): None iff some component — whatever its weight —
    # lacks a mean (for the mean), a mean or a variance (for the variance)
    want_m_none = any(x is None for x in cm)
    want_v_none = any(x is None for x in cm) or any(x is None for x in cv)
    if (m_ is None) != want_m_none:
        fails2.append(('f64.mean.existence', line, a, 'mean ' + ('N' if want_m_none else 'S …') + '  (some component mean is None: %s)' % want_m_none))
    if (v_ is None) != want_v_none:
        fails2.append(('f64.variance.existence', line, a, 'variance ' + ('N' if want_v_none else 'S …') +
                       '  (some component lacks a mean or a variance: %s)' % want_v_none))
    t = b.split()
    try:
        em, i = opt_tokens(t, 0)
        ev, i = opt_tokens(t, i)
    except Exception:
        fails2.append(('f64.moments', line, a, 'model answer ' + b))
        continue
    ok = (m_ is None) == (em is None) and (v_ is None) == (ev is None)
    if ok and m_ is not None:
        ok = close(m_, em, 1e-12, 1e-300)
    if ok and v_ is not None:
        scale = sum(w * ((m or 0.0) ** 2 + abs(v or 0.0)) for w, m, v in zip(ws, cm, cv))
        ok = close(v_, ev, 1e-12, 0.0) or (math.isfinite(scale) and abs(v_ - ev) <= 1e-14 * scale)
    if not ok:
        fails2.append(('f64.moments', line, a, 'model mix.moments: ' + b))

print('cases:', len(cases) + len(sl) + 4 * len(ent_cfg) + 2 * len(mom_cases) + len(hist_cases) + len(dl) + 2 * len(xm_cases))
for c in sorted(stats):
    print(f'  {c:40s} {stats[c]:6d}   bit-different: {bitdiff.get(c, 0)}')
print('model/implementation mismatches beyond tolerance:', len(fails) + len(fails2))
for f in fails[:15]:
    print('  MISMATCH', f[0], '\n     ', f[1][:300], '\n      impl ', f[2][:200], '\n      model', f[3][:200])
for k, v in findings.items():
    print('finding', k, len(v))
    for it in v[:4]:
        print('   ', str(it)[:400])
for f in fails:
    print('FAIL\t%s\t%s\t%s\t%s' % (f[0], f[1], f[2], f[3]))
for f in fails2:
    print('FAIL\t%s\t%s\t%s\t%s' % f)
for name, be in (('inside the domain of the bound', sorted(base_err)), ('outside (recorded only)', sorted(base_err_out))):
    if be:
        q = lambda p: be[min(len(be) - 1, int(p * len(be)))]
        print('entropy baseline |entropy() - ref| %s: n=%d median=%.2e p90=%.2e p99=%.2e max=%.2e (tolerance %.1e)'
              % (name, len(be), q(0.5), q(0.9), q(0.99), be[-1], ENTROPY_TOL))
if pois_err:
    pe = sorted(pois_err)
    print('Mixture<Poisson> entropy baseline |entropy() - (-Σ f ln f)|: n=%d median=%.2e max=%.2e (tolerance 5e-9·max(1,|H|))'
          % (len(pe), pe[len(pe) // 2], pe[-1]))
