"""C03 — CDF is a genuine distribution function consistent with the density."""
import random, math, collections
from props import _generic
from checklib import gen
from checklib.core import enc, run_pair, tok_to_float
from checklib.gen import parse_ty
from checklib.sweep import kinds_of, OBS
from checklib.spec import support_value

LEAN_DEPS = ['RvModel.Lemmas.C03', 'RvModel.Spec.C03', 'RvModel.Hand.KsDist', 'RvModel.Hand.DispatchAll']
TRUSTED = ['Spec/C03.lean textbook CDFs (closed forms; incGamma/incBeta/erf argument mappings)',
           'R.incGammaR / incBetaR / erfR are the integral definitions; their derivative lemmas are proved (FTC)']
ASSUMPTIONS = ['accuracy of special::inc_gamma / inc_beta / error in the far tails is only sampled (1e-8 absolute)',
               'VonMises (fixed 16-point quadrature), InvGaussian, KsTwoAsymptotic, Empirical, Mixture CDFs are not translated: correspondence only where a harness op exists']
N_GEN = {'quick': 8, 'thorough': 100}
_generic.install(globals(), 'C03', methods=('cdf', 'sf'), n_spec=(30, 500))

SUP = {e['op'].split('.')[0]: e.get('support') for e in SPEC}


EXT = {'real': 'real', 'pos': 'real', 'unit': 'real', 'ge_scale': 'real', 'uniform_ab': 'real', 'circle': 'real', 'gev': 'real'}


def search_site(man, site, seed):
    """A theorem / correspondence at `site` is broken: look for a concrete failing input.  First on the support, then on
    an EXTENDED domain (points outside the support of continuous laws): C03 itself leaves the CDF partial there, but
    `Mixture::cdf` evaluates every component's cdf at x, so a component CDF leaving [0,1] or decreasing off its support
    breaks the property for mixtures whose components have different supports."""
    base = site.split('.')[0]
    out = extra_run(man, 'thorough', seed, only=base)['failures']
    if out:
        return out
    out = extra_run(man, 'thorough', seed + 1, only=base, extended=True)['failures']
    for f in out:
        f['detail'] = f.get('detail', '') + ' (extended domain: off-support point, reached through Mixture::cdf of components with different supports)'
        f['extended'] = True
    return out


def extra_run(man, tier, seed, only=None, extended=False):
    """oracle-free checks on the implementation: range [0,1], monotonicity over ordered pairs, sf = 1 - cdf"""
    rng = random.Random(seed * 41 + 4)
    n = 20 if tier == 'quick' else 400
    structs = man['structs']
    skipped = man.get('rust_dispatch_skipped', {})
    lines, meta = [], []
    for e in SPEC:
        op = e['op']
        d = man['defs'].get(op)
        if d is None or op in skipped or d['name'] != 'cdf' or not e.get('support'):
            continue
        if only is not None and d['owner'] != only:
            continue
        sup = e['support']
        if extended:
            if sup not in EXT:
                continue
            sup = EXT[sup]
        fields = [f for f, t in structs[d['owner']]]
        sfop = op.replace('.cdf_', '.sf_')
        for kind in (e.get('kinds') or kinds_of(d))[:2]:
            for _ in range(n):
                pv = gen.struct_value(d['owner'], structs, rng)
                xs = sorted(support_value(sup, pv, fields, kind, rng) for _ in range(4))
                base = len(lines)
                for x in xs:
                    extra = ' 0'.replace('0', '') if not d.get('kbits') else ''
                    lines.append(f'{op} {kind} {enc(pv)} {enc(x)}')
                has_sf = sfop in man['defs'] and sfop not in skipped
                if has_sf:
                    lines.append(f'{sfop} {kind} {enc(pv)} {enc(xs[-1])}')
                meta.append((op, kind, base, xs, has_sf, pv))
    impl, _ = run_pair(lines, want_model=False)
    failures = []
    for op, kind, b, xs, has_sf, pv in meta:
        vals = impl[b:b + 4]
        if any(v in ('PANIC', 'HANG') for v in vals):
            failures.append({'site': op, 'case': lines[b], 'impl': ' '.join(vals), 'expected': 'numbers', 'observed': 'panic', 'detail': '',
                             'kind': kind, 'params': list(pv)})
            continue
        if any(v in ('NOOP', 'DIED') for v in vals):
            continue
        fv = [tok_to_float(v) for v in vals]
        for x, v, l in zip(xs, fv, lines[b:b + 4]):
            if extended and v != v:
                continue      # NaN off the support: "partial function", out of scope
            if not (-1e-8 <= v <= 1.0 + 1e-8):
                failures.append({'site': op, 'case': l, 'impl': repr(v), 'expected': 'cdf in [0,1]', 'observed': 'value' if v == v else 'nan',
                                 'detail': 'range', 'kind': kind, 'params': list(pv), 'x': x})
        for i in range(3):
            if fv[i] == fv[i] and fv[i + 1] == fv[i + 1] and fv[i] > fv[i + 1] + 1e-9:
                failures.append({'site': op, 'case': lines[b + i] + ' || ' + lines[b + i + 1], 'impl': f'{fv[i]!r} > {fv[i + 1]!r}',
                                 'expected': 'non-decreasing', 'observed': 'value', 'detail': 'monotone', 'kind': kind, 'params': list(pv)})
        if has_sf and impl[b + 4] not in ('PANIC', 'HANG', 'NOOP'):
            s = tok_to_float(impl[b + 4])
            if not (abs(s - (1.0 - fv[3])) <= 1e-9):
                failures.append({'site': op.replace('.cdf_', '.sf_'), 'case': lines[b + 4], 'impl': repr(s), 'expected': f'1 - cdf = {1 - fv[3]!r}',
                                 'observed': 'value', 'detail': 'complement', 'kind': kind, 'params': list(pv)})
    # KsTwoAsymptotic (hand model Hand/KsDist.lean, theorems ks_*_series): correspondence, and the cdf against a 40-term
    # evaluation of BOTH classical series (they agree with each other far beyond 1e-8 on (0.2, 3)), continuity at the cut-over
    obligations = []
    if only in (None, 'KsTwoAsymptotic') and not extended:
        import math
        xs = [0.82, 0.8200000001, 0.8199999999, 0.3, 0.5, 1.0, 1.5, 2.5, 0.05, 0.15] + [rng.uniform(0.05, 3.0) for _ in range(n * 2)] \
            + [0.82 + rng.uniform(-1e-3, 1e-3) for _ in range(n)]
        kl = [f'hand.KsTwoAsymptotic.cdf_pdf - {enc(x)}' for x in xs]
        ki, km = run_pair(kl)
        bad = []
        for x, l, a, b in zip(xs, kl, ki, km):
            if a == 'NOOP' or b == 'NOOP':
                continue
            from checklib.core import cmp_tokens
            okc, _ = cmp_tokens(a, b, 1e-12, 1e-300)
            if not okc:
                bad.append({'line': l, 'impl': a, 'model': b})
            if a in ('PANIC', 'HANG'):
                failures.append({'site': 'KsTwoAsymptotic.cdf', 'case': l, 'impl': a, 'expected': 'a number', 'observed': 'panic', 'detail': ''})
                continue
            c = tok_to_float(a.split()[0])
            big = 1.0 - 2.0 * math.fsum((-1) ** (k - 1) * math.exp(-2.0 * k * k * x * x) for k in range(1, 41))
            small = math.sqrt(2 * math.pi) / x * math.fsum(math.exp(-(2 * k - 1) ** 2 * math.pi ** 2 / (8 * x * x)) for k in range(1, 41))
            ref = small if x < 1.0 else big
            if not (abs(c - ref) <= 1e-8):
                failures.append({'site': 'KsTwoAsymptotic.cdf', 'case': l, 'impl': repr(c), 'expected': f'Kolmogorov cdf {ref!r} within 1e-8',
                                 'observed': 'value', 'detail': 'series', 'x': x})
        obligations.append({'name': 'corr:KsTwoAsymptotic.cdf_pdf(hand model)', 'kind': 'corr', 'ok': not bad, 'site': 'KsTwoAsymptotic.cdf',
                            'detail': (bad[0]['line'] + ' impl=' + bad[0]['impl'] + ' model=' + bad[0]['model']) if bad else '', 'cases': bad[:3]})
        lines = lines + kl
    # InvGaussian (cdf not translated: stub op): F(x) = Phi(a) + exp(2 lambda / mu) Phi(b), a = sqrt(lambda/x)(x/mu - 1),
    # b = -sqrt(lambda/x)(x/mu + 1), with Phi through erfc (python); lambda / mu up to e^5
    if only in (None, 'InvGaussian') and not extended and 'InvGaussian.cdf_real' in man['defs']:
        import math

        def Phi(z):
            return 0.5 * math.erfc(-z / math.sqrt(2.0))
        il, im = [], []
        for _ in range(n * 3):
            mu = math.exp(rng.uniform(-2, 2))
            lam = mu * math.exp(rng.uniform(-3, 5))
            x = mu * math.exp(rng.uniform(-2, 2))
            il.append(f'InvGaussian.cdf_real f64 {enc((mu, lam))} {enc(x)}')
            im.append((mu, lam, x))
        ii, _ = run_pair(il, want_model=False)
        for l, a, (mu, lam, x) in zip(il, ii, im):
            if a == 'NOOP':
                break
            pb = Phi(-math.sqrt(lam / x) * (x / mu + 1))
            ref = Phi(math.sqrt(lam / x) * (x / mu - 1)) + (math.exp(2 * lam / mu + math.log(pb)) if pb > 0 else 0.0)
            c = tok_to_float(a) if a.startswith('x') else float('nan')
            if not (abs(c - ref) <= 1e-8):
                failures.append({'site': 'InvGaussian.cdf_real', 'case': l, 'impl': a, 'expected': f'{ref!r} within 1e-8', 'observed': 'value' if c == c else 'nan',
                                 'detail': f'lambda/mu = {lam / mu:.3g}', 'kind': 'f64', 'params': [mu, lam], 'x': x})
        lines = lines + il
    return {'obligations': obligations, 'failures': failures, 'stats': {'evaluations': len(lines), 'distinct_nontrivial': len(set(lines))},
            'samples': lines[:2]}


def _n_wraps(f):
    """Binomial / BetaBinomial with n beyond the width of the observation type"""
    try:
        toks = f.get('case', '').split()
        kind = toks[1]
        n = int(toks[2])
        return (kind == 'u8' and n > 255) or (kind == 'i8' and n > 127) or (kind == 'u16' and n > 65535)
    except Exception:
        return False


def _x_is_max(f):
    try:
        toks = f.get('case', '').split()
        return (toks[1], toks[-1]) in (('u8', '255'), ('u16', '65535'))
    except Exception:
        return False


INPUT_CLASSES = {'n_exceeds_kind': _n_wraps, 'x_is_kind_max': _x_is_max}
