#!/usr/bin/env python3
"""C04 correspondence (DRAFT of the `extra_run` of props/C04.py — see props/C04_notes.md).

Feeds the same lines to rvharness (real rv code, scripted RNG `Script`) and rvdrv (Lean hand models of Hand/Draw.lean on
Float) and compares the answers BIT FOR BIT.  usage: C04_corr_draft.py [N]   (N random word sets per sampler, default 2000;
binaries from $RVH / $RVD).  Needs manual_c04.rs registered in the harness and tableC04 in Hand/DispatchAll.lean.

IMPORTANT: never put a line that makes the implementation HANG into a long batch: the harness reports HANG after
$RVH_HANG_MS but the hung thread keeps spinning until the process exits.  All scripts below are built so that every
rejection loop terminates (long scripts, accepting last word); known-hang witnesses must be run one per process with
`timeout`.
"""
import random, struct, subprocess, sys, collections, math

import os
H = os.environ.get('RVH', '/verif/harness/target/release/rvharness')
D = os.environ.get('RVD', '/verif/lean/.lake/build/bin/rvdrv')
MAX = (1 << 64) - 1
EXTREME = [0, MAX, 1 << 11, (1 << 11) - 1, 1 << 12, (1 << 12) - 1, ((1 << 53) - 1) << 11, 1 << 63, (1 << 63) - 1,
           MAX - (1 << 11), MAX - (1 << 11) + 1, MAX - (1 << 12), MAX - (1 << 12) + 1, 1 << 32, (1 << 32) - 1, 1, 2047, 2048,
           4095, 4096, (1 << 63) + (1 << 11), (1 << 63) - (1 << 11), (1 << 63) + (1 << 12), (1 << 63) - (1 << 12)]

def fx(v):
    return 'x%016x' % struct.unpack('<Q', struct.pack('<d', float(v)))[0]

def unfx(t):
    if t == 'xNaN':
        return float('nan')
    return struct.unpack('<d', struct.pack('<Q', int(t[1:], 16)))[0]

def L(ws):
    return 'L%d %s' % (len(ws), ' '.join(str(w) for w in ws)) if ws else 'L0'

def LF(xs):
    return 'L%d %s' % (len(xs), ' '.join(fx(x) for x in xs))

def run(binary, lines):
    p = subprocess.run([binary], env=dict(__import__('os').environ, RVH_HANG_MS='400'), input='\n'.join(lines) + '\n', capture_output=True, text=True)
    return p.stdout.split('\n')[:len(lines)]

rnd = random.Random(20260930)

def rw():
    c = rnd.random()
    if c < 0.8:
        return rnd.getrandbits(64)
    if c < 0.9:
        return rnd.getrandbits(64) >> rnd.randrange(0, 64)
    return MAX - (rnd.getrandbits(64) >> rnd.randrange(0, 64))

def words1(n):
    return [[w] for w in EXTREME] + [[rw()] for _ in range(n)]

def pos():
    return rnd.choice([0.01, 0.1, 0.5, 1.0, 1.5, 2.0, 3.0, 7.5, 25.0, 1e-3, 1e3]) if rnd.random() < 0.3 else math.exp(rnd.uniform(-4, 4))

def real():
    return rnd.choice([0.0, 1.0, -1.0, 2.5, -3.75, 100.0]) if rnd.random() < 0.3 else rnd.uniform(-10, 10)

def cases(N):
    out = []
    def add(tag, line):
        out.append((tag, line))
    for ws in words1(N):
        add('draw.Bernoulli', 'draw.Bernoulli %s %s %s' % (rnd.choice(['bool', 'u8']), fx(rnd.choice([0.0, 1.0, 0.5, rnd.random()])), L(ws)))
        add('draw.Laplace', 'draw.Laplace f64 %s %s %s' % (fx(real()), fx(pos()), L(ws)))
        sh = rnd.choice([0.0, 0.0, 0.5, -0.5, 1.0, -1.0, rnd.uniform(-3, 3)])
        add('draw.Gev', 'draw.Gev f64 %s %s %s %s' % (fx(real()), fx(pos()), fx(sh), L(ws)))
        add('draw.Kumaraswamy', 'draw.Kumaraswamy f64 %s %s %s' % (fx(pos()), fx(pos()), L(ws)))
        add('draw.UnitPowerLaw', 'draw.UnitPowerLaw f64 %s %s' % (fx(pos()), L(ws)))
        p = rnd.choice([0.2, 0.25, 1 / 3, 0.3333333333333333, 0.34, 0.5, 0.75, 0.9, 1.0, 0.01, 1e-5, rnd.random(), rnd.random() / 3])
        add('draw.Geometric', 'draw.Geometric %s %s %s' % (rnd.choice(['u8', 'u16', 'u32', 'u64', 'usize']), fx(p), L(ws)))
        a, b = sorted([rnd.uniform(-5, 5), rnd.uniform(-5, 5)])
        if a == b:
            b = a + 1
        add('draw.Uniform', 'draw.Uniform f64 %s %s %s' % (fx(a), fx(b), L(ws)))
        k = rnd.choice([1, 2, 3, 9, 10, 11, 30])
        wts = [rnd.random() for _ in range(k)]
        if rnd.random() < 0.3:
            wts[rnd.randrange(k)] = 0.0
        if sum(wts) == 0:
            wts[0] = 1.0
        s = sum(wts)
        lnw = [math.log(w / s) if w > 0 else float('-inf') for w in wts]
        add('draw.Categorical', 'draw.Categorical %s %s %s' % (rnd.choice(['usize', 'u8']), LF(lnw), L(ws)))
        xs = [rnd.uniform(-3, 3) for _ in range(rnd.choice([1, 2, 3, 5, 7, 100]))]
        add('draw.Empirical', 'draw.Empirical f64 %s %s' % (LF(xs), L(ws + [rw(), rw(), rw(), rw(), 12345])))
    # multi-word samplers
    for ws1 in words1(N):
        ws = ws1 + [rw() for _ in range(rnd.randrange(0, 4))]
        kind = rnd.choice(['u8', 'i8', 'u16', 'i16', 'u32', 'i32', 'u64', 'i64'])
        bits = int(kind[1:])
        lo_t, hi_t = (-(1 << (bits - 1)), (1 << (bits - 1)) - 1) if kind[0] == 'i' else (0, (1 << bits) - 1)
        c = rnd.random()
        if c < 0.1:
            a, b = lo_t, hi_t
        elif c < 0.5:
            a = rnd.randint(max(lo_t, -20), min(hi_t, 20) - 1)
            b = rnd.randint(a, min(hi_t, a + rnd.choice([0, 1, 2, 5, 9, 100])))
        else:
            a = rnd.randint(lo_t, hi_t)
            b = rnd.randint(a, hi_t)
        # make the script long enough for the rejection loop to terminate in almost all cases (Script repeats the last word)
        add('draw.DiscreteUniform', 'draw.DiscreteUniform %s %d %d %s' % (kind, a, b, L(ws + [rw() for _ in range(6)] + [0])))
        n = rnd.randrange(0, 5)
        add('sample.DiscreteUniform', 'sample.DiscreteUniform %s %d %d %d %s' % (kind, a, b, n, L(ws + [rw() for _ in range(10)] + [0])))
        k = rnd.choice([1, 2, 3, 9, 10, 12])
        wts = [rnd.random() for _ in range(k)]
        if rnd.random() < 0.3:
            wts[0] = 0.0
            wts[-1] = 0.5
        mus = [real() for _ in range(k)]
        bs = [pos() for _ in range(k)]
        w2 = ws1 + [rw()]
        add('draw.MixtureLaplace', 'draw.MixtureLaplace f64 %s %s %s %s' % (LF(wts), LF(mus), LF(bs), L(w2)))
        n = rnd.randrange(0, 4)
        add('sample.MixtureLaplace', 'sample.MixtureLaplace f64 %s %s %s %d %s' % (LF(wts), LF(mus), LF(bs), n, L(ws1 + [rw() for _ in range(2 * n)])))
        kk = rnd.choice([0.01, 0.1, 0.5, 1.0, 2.0, 3.0, 4.0, min(pos(), 4.0)])
        vm = ws1 + [rw() for _ in range(600)]
        add('draw.VonMises', 'draw.VonMises f64 %s %s %s' % (fx(rnd.uniform(0, 6.28)), fx(kk), L(vm)))
        n = rnd.randrange(0, 4)
        add('sample.VonMises', 'sample.VonMises f64 %s %s %d %s' % (fx(rnd.uniform(0, 6.28)), fx(kk), n, L(vm + [rw() for _ in range(1200)])))
        n = rnd.randrange(0, 5)
        sw = ws1 + [rw() for _ in range(n)]
        add('sample.Bernoulli', 'sample.Bernoulli %s %s %d %s' % (rnd.choice(['bool', 'u8']), fx(rnd.random()), n, L(sw)))
        add('sample.UnitPowerLaw', 'sample.UnitPowerLaw f64 %s %d %s' % (fx(pos()), n, L(sw)))
        add('sample.Laplace', 'sample.Laplace f64 %s %s %d %s' % (fx(real()), fx(pos()), n, L(sw)))
        add('sample.Gev', 'sample.Gev f64 %s %s %s %d %s' % (fx(real()), fx(pos()), fx(rnd.choice([0.0, 0.5, -0.7])), n, L(sw)))
        add('sample.Kumaraswamy', 'sample.Kumaraswamy f64 %s %s %d %s' % (fx(pos()), fx(pos()), n, L(sw)))
        add('sample.Geometric', 'sample.Geometric %s %s %d %s' % (rnd.choice(['u8', 'u32', 'u64']), fx(rnd.choice([0.2, 0.5, 0.9, rnd.random()])), n, L(sw)))
        k = rnd.choice([1, 2, 3, 9, 10, 11])
        wts = [rnd.random() for _ in range(k)]
        s = sum(wts)
        add('sample.Categorical', 'sample.Categorical usize %s %d %s' % (LF([math.log(w / s) for w in wts]), n, L(sw)))
        add('fma', 'fma - %s %s %s' % (fx(real() * 10 ** rnd.randint(-300, 300)), fx(real() * 10 ** rnd.randint(-10, 10)), fx(real() * 10 ** rnd.randint(-300, 300))))
        x, y = rnd.uniform(-2, 2), rnd.uniform(-2, 2)
        add('fma', 'fma - %s %s %s' % (fx(x), fx(y), fx(-x * y)))
    return out

def invgauss_cases(N):
    """two-pass: ask the harness for the internal normal variate first"""
    pre = []
    for ws1 in words1(N):
        pre.append(ws1 + [rw() for _ in range(12)] + [(1 << 63) | 100])
    ans = run(H, ['normal01 - ' + L(ws) for ws in pre])
    out = []
    for ws, a in zip(pre, ans):
        t = a.split()
        if len(t) != 2:
            continue                      # HANG of the ziggurat on a repeating word
        out.append(('draw.InvGaussian', 'draw.InvGaussian f64 %s %s %s %s %s' % (fx(pos()), fx(pos()), t[0], t[1], L(ws))))
    return out

def main():
    N = int(sys.argv[1]) if len(sys.argv) > 1 else 2000
    cs = cases(N) + invgauss_cases(N)
    lines = [c[1] for c in cs]
    a = run(H, lines)
    b = run(D, lines)
    tot = collections.Counter()
    bad = collections.Counter()
    shown = collections.Counter()
    special = collections.Counter()
    for (tag, line), x, y in zip(cs, a, b):
        tot[tag] += 1
        if x in ('PANIC', 'HANG') or (tag.startswith('draw.') and ' F ' in x):
            special[(tag, x if x in ('PANIC', 'HANG') else 'unsupported')] += 1
        if x != y:
            bad[tag] += 1
            if shown[tag] < 4:
                shown[tag] += 1
                print('MISMATCH', line, '\n   impl :', x, '\n   model:', y)
    print('%-24s %8s %8s' % ('op', 'cases', 'mismatch'))
    for t in sorted(tot):
        print('%-24s %8d %8d' % (t, tot[t], bad[t]))
    print('implementation answers of note:')
    for k in sorted(special):
        print('   ', k, special[k])

main()
