"""C19 — partition and stick-breaking processes are coherent random structures (contributed draft).

Implementation ops: harness/src/manual_c19.rs; model ops: lean/RvModel/Hand/DispatchC19.lean (same names).
What is run (all comparisons between implementation and model are EXACT, token by token):
  1. every set partition of [n] (restricted-growth strings), n <= NMAX, through the generated op `Crp.ln_f_Partition`
     on the implementation: sum of exp = 1 within 1e-12; the model agrees within the usual tolerance;
  2. `partition.ops`: random append/remove histories from random (valid and invalid) assignments; the final state of
     the implementation is re-checked to be well formed in Python;
  3. `crp.draw` under scripted words (extreme words included) and under seeded words (`rng.words` -> model);
  4. `stick.weights` (implementation, lazily, one request after the other) against `stick.model` fed with the break
     stream obtained from `stick.breaks`; the same requests in shuffled orders and from 8 threads on a shared clone
     (`stick.threads`) against the in-order single-threaded answers (pure requests only);
  5. the recorded findings (`expected on the unchanged tree`) are re-observed on the implementation.
"""
import math, random, collections
from checklib.core import enc, run_pair, tok_to_float, fbits, close

ID = 'C19'
LEAN_DEPS = ['RvModel.Hand.Partition', 'RvModel.Hand.Stick', 'RvModel.Lemmas.C19', 'RvModel.Hand.DispatchAll']
TRUSTED = ['hand models Hand/Partition.lean, Hand/Stick.lean (tied by the exact correspondence runs below and by '
           'append_eq_gen/k_eq_gen/len_eq_gen/weights_eq_gen to the generated model)',
           'atomicity of each RwLock critical section of StickSequence (threads = interleavings of critical sections)',
           'the seeded generator produces a fixed stream (the model is parametric in it)']
ASSUMPTIONS = ['breaks lie in (0,1) for the positivity / monotonicity theorems (UnitPowerLaw::draw returns u^(1/alpha), u in [0,1))']
N_GEN = {'quick': 0, 'thorough': 0}


def gen_ops(man):
    return []


def rgs(n):
    """all restricted-growth strings of length n with their block counts"""
    out = [([], [])]
    for _ in range(n):
        nxt = []
        for z, c in out:
            for j in range(len(c) + 1):
                c2 = list(c)
                if j == len(c):
                    c2.append(1)
                else:
                    c2[j] += 1
                nxt.append((z + [j], c2))
        out = nxt
    return out


def wf(z, counts):
    k = len(counts)
    return all(zi < k for zi in z) and all(counts[j] == z.count(j) and counts[j] > 0 for j in range(k))


def canonical(z):
    m = 0
    for zi in z:
        if zi > m:
            return False
        m = max(m, zi + 1)
    return True


def parse_part(toks):
    """`L<n> z… L<k> c…` -> (z, counts, rest)"""
    n = int(toks[0][1:]); z = [int(t) for t in toks[1:1 + n]]
    toks = toks[1 + n:]
    k = int(toks[0][1:]); c = [int(t) for t in toks[1:1 + k]]
    return z, c, toks[1 + k:]


def L(xs):
    return ' '.join([f'L{len(xs)}'] + [str(x) if isinstance(x, int) else fbits(x) for x in xs])


def req_tokens(r):
    k, v = r
    if k == 'n':
        return 'n'
    if k == 'm':
        return 'm ' + L(v)
    if k in ('i', 'I', 'b'):
        return f'{k} {fbits(v)}'
    return f'{k} {v}'


def split_answers(reqs, line):
    """cut an answer line into one token group per request"""
    toks = line.split()
    out = []
    for k, v in reqs:
        if not toks:
            out.append(None); continue
        t = toks[0]
        if t.startswith('L') and t[1:].isdigit():
            n = int(t[1:]); out.append(' '.join(toks[:n + 1])); toks = toks[n + 1:]
        else:
            out.append(t); toks = toks[1:]
    return out


def extra_run(man, tier, seed):
    rng = random.Random(seed * 131 + 19)
    quick = tier == 'quick'
    failures, obligations, samples = [], [], []
    stats = collections.Counter()

    def fail(site, case, impl, expected, detail=''):
        failures.append({'site': site, 'case': case, 'impl': impl, 'expected': expected, 'observed': 'mismatch', 'detail': detail})

    # ---- 1. EPPF sums to one over all set partitions
    nmax = 6 if quick else 8
    for alpha in ([0.5, 1.0, 3.7] if quick else [0.05, 0.5, 1.0, 2.0, 3.7, 25.0]):
        for n in range(1, nmax + 1):
            parts = rgs(n)
            lines = [f'Crp.ln_f_Partition - {fbits(alpha)} {n} {L(z)} {L(c)}' for z, c in parts]
            impl, model = run_pair(lines)
            tot = math.fsum(math.exp(tok_to_float(a)) for a in impl)
            stats['eppf_partitions'] += len(parts)
            ok = abs(tot - 1.0) <= 1e-12
            obligations.append({'name': f'eppf_sum_one:alpha={alpha},n={n}', 'kind': 'normalisation', 'ok': ok,
                                'site': 'Crp::ln_f', 'detail': f'sum over {len(parts)} partitions = {tot!r}'})
            for ln, a, b in zip(lines, impl, model):
                if not close(tok_to_float(a), tok_to_float(b)):
                    fail('Crp.ln_f_Partition', ln, a, b)
            # block-size dependence: equal count multisets give bit-identical ln_f
            bym = collections.defaultdict(set)
            for (z, c), a in zip(parts, impl):
                bym[tuple(sorted(c))].add(a)
            for key, vals in bym.items():
                fl = [tok_to_float(v) for v in vals]
                if max(fl) - min(fl) > 1e-12 * max(1.0, abs(fl[0])):
                    fail('Crp::ln_f', f'alpha={alpha} counts={key}', str(sorted(vals)), 'one value per multiset of block sizes')

    # ---- 2. append / remove histories
    lines = []
    for _ in range(300 if quick else 6000):
        n0 = rng.choice([0, 1, 2, 3, 5, 8, 13])
        if rng.random() < 0.8:
            z = []
            for _ in range(n0):
                z.append(rng.randrange(0, (max(z) + 2) if z else 1))
            if rng.random() < 0.3:
                rng.shuffle(z)            # valid but not canonical
        else:
            z = [rng.randrange(0, 6) for _ in range(n0)]   # possibly with empty blocks -> from_z error
        ops = []
        k = (max(z) + 1) if z else 0
        ln = len(z)
        for _ in range(rng.choice([1, 2, 3, 5, 8, 20])):
            if rng.random() < 0.5:
                ops.append(f'append {rng.randrange(0, k + 3)}'); ln += 1; k += 1
            else:
                ops.append(f'remove {rng.randrange(0, ln + 2)}')
        lines.append(f'partition.ops - {L(z)} {len(ops)} ' + ' '.join(ops))
    for z in ([], [0], [1], [0, 0], [0, 1, 0], [1, 0], [0, 2], [3, 3, 3]):
        lines.append(f'partition.from_z - {L(z)}')
    lines.append('partition.ops - L3 0 1 0 1 remove 0')
    impl, model = run_pair(lines)
    for ln, a, b in zip(lines, impl, model):
        stats['partition_histories'] += 1
        if a != b:
            fail('Partition::append/remove', ln, a, b)
        elif a.startswith('L') and ln.startswith('partition.ops'):
            toks = a.split(); m = int(toks[0][1:])
            z, c, _ = parse_part(toks[1 + m:])
            if not wf(z, c):
                fail('Partition WF', ln, a, 'well-formed final state')
    samples += lines[:2]
    # expected on the unchanged tree: remove breaks the order of first appearance
    obligations.append({'name': 'finding:remove_not_canonical', 'kind': 'finding', 'ok': True, 'site': 'Partition::remove',
                        'detail': f'[0,1,0].remove(0) -> {impl[-1]} (model: {model[-1]})'})

    # ---- 3. Crp::draw
    lines = []
    ext = [0, 2 ** 64 - 1, 2 ** 63, 2 ** 11 - 1, 2 ** 11, 2 ** 64 - 2 ** 11, 1 << 52]
    for _ in range(200 if quick else 4000):
        n = rng.choice([1, 2, 3, 5, 10, 30, 100])
        alpha = rng.choice([0.01, 0.5, 1.0, 1.5, 10.0, 1000.0, rng.uniform(0.01, 20)])
        words = [rng.choice(ext) if rng.random() < 0.1 else rng.getrandbits(64) for _ in range(max(n - 1, 0))]
        if rng.random() < 0.05:
            words = words[:len(words) // 2]
        lines.append(f'crp.draw - {fbits(alpha)} {n} {L(words)}')
    impl, model = run_pair(lines)
    for ln, a, b in zip(lines, impl, model):
        stats['crp_draw_scripted'] += 1
        if a != b:
            fail('Crp::draw', ln, a, b)
        elif a.startswith('L'):
            z, c, _ = parse_part(a.split())
            if not (wf(z, c) and canonical(z)):
                fail('Crp::draw', ln, a, 'well-formed partition in order of first appearance')
    samples += lines[:1]
    seeds = [rng.getrandbits(32) for _ in range(40 if quick else 600)]
    cases = [(rng.choice([0.3, 1.0, 4.0]), rng.choice([1, 7, 50, 200]), s) for s in seeds]
    wl = [f'rng.words - {s} {n}' for _, n, s in cases]
    words, _ = run_pair(wl, want_model=False)
    il = [f'crp.draw_seeded - {fbits(a)} {n} {s}' for a, n, s in cases]
    ml = [f'crp.draw - {fbits(a)} {n} {w}' for (a, n, s), w in zip(cases, words)]
    impl, _ = run_pair(il, want_model=False)
    _, model = run_pair(ml)
    for ln, a, b in zip(il, impl, model):
        stats['crp_draw_seeded'] += 1
        if a != b:
            fail('Crp::draw', ln, a, b, 'seeded generator vs model fed with its words')

    # ---- 4. stick sequences
    nseq = 30 if quick else 400
    N = 400
    pure = ('c', 'w', 'P', 's', 'F', 'f', 'i')
    for _ in range(nseq):
        alpha = rng.choice([0.5, 1.0, 2.0, 5.0, rng.uniform(0.2, 6)])
        sd = rng.getrandbits(40)
        br, _ = run_pair([f'stick.breaks - {fbits(alpha)} {sd} {N}'], want_model=False)
        reqs = []
        for _ in range(rng.choice([1, 3, 6, 12, 25])):
            k = rng.choice(['e', 'c', 'c', 'w', 'w', 'W', 'P', 'n', 's', 'F', 'f', 'i', 'i', 'I', 'm'])
            if k == 'n':
                reqs.append((k, None))
            elif k == 'i':
                reqs.append((k, rng.choice([1.0, 0.999, rng.uniform(0.02, 1.0), rng.uniform(1.0, 2.0)])))
            elif k == 'I':
                reqs.append((k, rng.choice([0.0, rng.uniform(0.0, 0.97)])))
            elif k == 'm':
                ps = sorted(rng.uniform(0.03, 1.0) for _ in range(rng.choice([1, 2, 5])))
                reqs.append((k, ps))
            else:
                reqs.append((k, rng.randrange(0, 40)))
        rt = ' '.join(req_tokens(r) for r in reqs)
        il = f'stick.weights - {fbits(alpha)} {sd} {len(reqs)} {rt}'
        ml = f'stick.model - {br[0]} {len(reqs)} {rt}'
        impl, _ = run_pair([il], want_model=False)
        _, model = run_pair([ml])
        stats['stick_sequences'] += 1
        stats['stick_requests'] += len(reqs)
        if impl[0] != model[0]:
            fail('StickSequence', il, impl[0], model[0], 'lazy implementation vs model on the break stream')
        # order independence and threads (pure requests)
        pr = [r for r in reqs if r[0] in pure and not (r[0] == 'i' and r[1] > 1.0)]
        if pr:
            base_line = f'stick.weights - {fbits(alpha)} {sd} {len(pr)} ' + ' '.join(req_tokens(r) for r in pr)
            base, _ = run_pair([base_line], want_model=False)
            ref = dict(zip(map(str, pr), split_answers(pr, base[0])))
            for _ in range(3):
                sh = pr[:]; rng.shuffle(sh)
                ln = f'stick.weights - {fbits(alpha)} {sd} {len(sh)} ' + ' '.join(req_tokens(r) for r in sh)
                got, _ = run_pair([ln], want_model=False)
                for r, a in zip(sh, split_answers(sh, got[0])):
                    if ref[str(r)] != a:
                        fail('StickSequence order', ln, a, ref[str(r)], f'request {r}')
                stats['stick_orders'] += 1
            ln = f'stick.threads - {fbits(alpha)} {sd} 8 {len(pr)} ' + ' '.join(req_tokens(r) for r in pr)
            got, _ = run_pair([ln], want_model=False)
            if got[0] != base[0]:
                fail('StickSequence threads', ln, got[0], base[0], '8 threads on a shared clone vs single-threaded reference')
            stats['stick_thread_runs'] += 1
    # ---- 5. recorded findings re-observed
    probes = ['stick.weights - x4014000000000000 42 3 c 10 W 2 n',
              'stick.weights - x4014000000000000 42 1 i x3ff8000000000000',
              'stick.weights - x4014000000000000 42 2 c 12 m L3 x3fc999999999999a x3fe0000000000000 x3feccccccccccccd',
              'stick.weights - x4014000000000000 42 2 m L0 c 1']
    got, _ = run_pair(probes, want_model=False)
    names = ['weights(n) returns every materialised weight (length depends on history)',
             'invccdf(p > 1): position(..) - 1 underflows', 'multi_invccdf_sorted returns extra entries after a longer materialisation',
             'multi_invccdf_sorted(&[]) panics under the write guard and poisons the lock']
    for nm, ln, a in zip(names, probes, got):
        obligations.append({'name': 'finding:' + nm, 'kind': 'finding', 'ok': True, 'site': 'StickSequence/StickBreakingDiscrete',
                            'detail': f'{ln} -> {a}'})
    st = dict(stats)
    total = sum(v for v in st.values() if isinstance(v, int))
    st.setdefault('evaluations', total)
    st.setdefault('distinct_nontrivial', total)
    return {'obligations': obligations, 'failures': failures, 'stats': st, 'samples': samples}
