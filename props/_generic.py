"""Shared construction of a property module: theorem files by glob, model-vs-implementation sweep over the generated
definitions with the given method names, implementation-vs-Spec comparison from props/spec/<ID>*.json fragments."""
import glob, json, os
from checklib import spec as S

HERE = os.path.dirname(__file__)


def load_spec(pid):
    out = []
    for f in sorted(glob.glob(os.path.join(HERE, 'spec', f'{pid}*.json'))):
        out += json.load(open(f))
    return out


def install(ns, pid, methods=(), owners=None, files_prefix=('dist/',), n_spec=(40, 600), extra_ops=()):
    spec = load_spec(pid)
    ns['ID'] = pid
    ns['SPEC'] = spec
    ns.setdefault('REQUIRED', sorted({e['op'] for e in spec}))

    def gen_ops(man):
        ops = [n for n, d in man['defs'].items() if d['name'] in methods and d['file'].startswith(tuple(files_prefix))
               and (owners is None or d['owner'] in owners)]
        return ops + [o for o in extra_ops if o in man['defs']]

    def spec_run(man, tier, seed, sites=None):
        n = n_spec[0] if tier == 'quick' else n_spec[1]
        return S.spec_compare(man, spec, n, seed, sites)
    ns.setdefault('gen_ops', gen_ops)
    ns.setdefault('spec_run', spec_run)
