"""C05 — conjugate posteriors are exactly Bayes' rule."""
import random, math
from checklib import gen
from checklib.core import enc, run_pair, tok_to_float, cmp_tokens
from props._conj import PAIRS, op, data_tok, datasets

ID = 'C05'
LEAN_DEPS = ['RvModel.Lemmas.C05', 'RvModel.Hand.StickConj', 'RvModel.Lemmas.C05S', 'RvModel.Hand.DispatchAll']
TRUSTED = ['Bayes rule is stated among generated functions only: ln_f(posterior) = ln_f(prior) + sum ln_f(lik) - ln_m',
           'textbook conjugate updates (Murphy 2007) for the Gaussian pairs are proved equal to the generated updates']
ASSUMPTIONS = ['Gen.ln_fact, lgamma and lnBeta are opaque in the Bayes identities', 'exact reals; float cancellation in the updates only sampled']
N_GEN = {'quick': 6, 'thorough': 80}
METHODS = ('posterior', 'posterior_from_suffstat')


def gen_ops(man):
    return [n for n, d in man['defs'].items() if d['name'] in METHODS and d['file'].startswith('dist/')]


def extra_run(man, tier, seed):
    out = extra_run_pairs(man, tier, seed)
    from props import _stick
    st = _stick.stick_extra('C05', tier, seed)
    out['obligations'] = out.get('obligations', []) + st['obligations']
    out['failures'] += st['failures']
    for k_, v_ in st['stats'].items():
        out['stats'][k_] = out['stats'].get(k_, 0) + v_
    out['samples'] = out.get('samples', []) + st['samples'][:2]
    return out


def stat_tok(stat, xs, pv):
    """`Q <fields>` token of the sufficient statistic of xs, or None where no closed form is coded here"""
    from props import C07
    try:
        if stat == 'CategoricalSuffStat':
            k = len(pv[0]) if isinstance(pv[0], (list, tuple)) else int(pv[1])
            counts = [float(sum(1 for x in xs if x == j)) for j in range(k)]
            return 'Q ' + enc((len(xs), counts))
        if stat in ('PoissonSuffStat', 'BernoulliSuffStat', 'GaussianSuffStat'):
            return 'Q ' + enc(tuple(C07.closed_form(stat, xs)))
    except Exception:
        return None
    return None


def extra_run_pairs(man, tier, seed):
    """implementation-level relations: posterior(no data) = prior; sequential = batch; data arm = statistic arm"""
    rng = random.Random(seed * 29 + 3)
    nsets = 12 if tier == 'quick' else 300
    structs = man['structs']
    lines, meta = [], []
    for prior, lik, kind, suf, obs, stat in PAIRS:
        post = op(prior, 'posterior', suf, lik)
        if post not in man['defs']:
            continue
        for _ in range(nsets):
            pv = gen.struct_value(prior, structs, rng)
            xs = datasets(rng, obs, pv, 1)[0]
            ys = datasets(rng, obs, pv, 1, sizes=(0, 1, 3, 10))[0]
            if lik == 'Poisson' and rng.random() < 0.3:
                # several counts near the top of the observation type: their total exceeds 2^32
                xs = [rng.randint(2 ** 31, 2 ** 32 - 1) for _ in range(rng.choice([2, 3, 5]))]
            base = len(lines)
            lines += [f'{post} {kind} {enc(pv)} {data_tok([])}', f'{post} {kind} {enc(pv)} {data_tok(xs + ys)}',
                      f'{post} {kind} {enc(pv)} {data_tok(xs)}']
            # statistic arm: the same data as a sufficient statistic (closed forms of props/C07.py, exact where possible)
            st = stat_tok(stat, xs + ys, pv)
            lines.append(f'{post} {kind} {enc(pv)} {st}' if st else 'noop - ')
            meta.append((prior, lik, kind, suf, base, pv, xs, ys, post, stat))
    impl, _ = run_pair(lines, want_model=False)
    # second stage: posterior of the posterior on ys (only where the posterior type is the prior type), statistic arm
    l2, m2 = [], []
    for prior, lik, kind, suf, b, pv, xs, ys, post, stat in meta:
        if prior in ('UnitPowerLaw', 'SymmetricDirichlet'):
            continue
        if impl[b + 2] in ('PANIC', 'HANG', 'NOOP'):
            continue
        l2.append(f'{post} {kind} {impl[b + 2]} {data_tok(ys)}')
        m2.append((prior, b, xs, ys))
    i2, _ = run_pair(l2, want_model=False) if l2 else ([], [])
    failures = []
    for prior, lik, kind, suf, b, pv, xs, ys, post, stat in meta:
        a0 = impl[b]
        if prior not in ('UnitPowerLaw', 'SymmetricDirichlet'):
            # "equals the prior" up to the rounding of the update's own terms: the general formulas are evaluated with
            # n = 0 (e.g. NormalGamma: s + r m^2 - r' m'^2 cancels terms of size r m^2), so the slack scales with products
            # of the hyper-parameters, not with the field itself
            mag = sum(abs(float(v)) for v in (pv if isinstance(pv, (list, tuple)) else [pv]) if isinstance(v, (int, float)) and not isinstance(v, bool)) + 1.0
            # a tiny hyper-parameter amplifies the cancellation error relative to itself (ln s with s = 1e-3): include reciprocals
            mag += sum(1.0 / abs(float(v)) for v in (pv if isinstance(pv, (list, tuple)) else [pv])
                       if isinstance(v, (int, float)) and not isinstance(v, bool) and v != 0)
            ok, detail = cmp_tokens(a0, enc(pv), 1e-12, 1e-15 * mag ** 3)
            if not ok:
                failures.append({'site': post, 'case': lines[b], 'impl': a0, 'expected': enc(pv) + ' (the prior)', 'observed': 'value', 'detail': detail})
        a_stat = impl[b + 3]
        if a_stat not in ('NOOP', 'PANIC', 'HANG', 'DIED') and not a_stat.startswith('BAD') and impl[b + 1] not in ('PANIC', 'HANG'):
            scale = sum(abs(float(v)) for v in xs + ys if not isinstance(v, bool)) + 1.0
            # sums of squares only enter the Gaussian-likelihood updates; everything else is linear in the data
            ok, detail = cmp_tokens(a_stat, impl[b + 1], 1e-9, 1e-9 * (scale * scale if lik == 'Gaussian' else 1.0) + 1e-12 * scale)
            if not ok:
                failures.append({'site': post, 'case': lines[b + 1], 'impl': impl[b + 1], 'expected': a_stat + ' (posterior from the sufficient statistic of the same data)',
                                 'observed': 'value', 'detail': 'data arm differs from statistic arm: ' + detail, 'stat_case': lines[b + 3]})
        if any(a in ('PANIC', 'HANG') for a in impl[b:b + 3]):
            failures.append({'site': post, 'case': lines[b + 1], 'impl': ' | '.join(impl[b:b + 3]), 'expected': 'a valid posterior',
                             'observed': 'panic', 'detail': 'posterior panicked on valid prior and data'})
    gauss_priors = {p_[0] for p_ in PAIRS if p_[1] == 'Gaussian'}
    for (prior, b, xs, ys), a in zip(m2, i2):
        scale = sum(abs(float(v)) for v in xs + ys if not isinstance(v, bool)) + 1.0
        ok, detail = cmp_tokens(a, impl[b + 1], 1e-9, 1e-9 * (scale * scale if prior in gauss_priors else 1.0) + 1e-12 * scale)
        if not ok:
            failures.append({'site': f'{prior}.posterior', 'case': l2[0] if False else f'sequential: {lines[b + 2]} then {data_tok(ys)}',
                             'impl': a, 'expected': impl[b + 1] + ' (batch posterior)', 'observed': 'value', 'detail': detail})
    return {'obligations': [], 'failures': failures,
            'stats': {'evaluations': len(lines) + len(l2), 'distinct_nontrivial': len(set(lines)) + len(set(l2))}, 'samples': lines[:2]}


INPUT_CLASSES = {'empty_weights': (lambda f: f.get('cls') == 'empty_weights')}
