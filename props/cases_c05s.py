#!/usr/bin/env python3
"""C05S — correspondence and relation checks for the conjugate pair StickBreaking / StickBreakingDiscrete
(src/experimental/stick_breaking_process/stick_breaking.rs, sbd_stat.rs): properties C05 and C06 on this pair.

Every line is fed unchanged to BOTH programs: the harness (ops of harness/src/manual_c05s.rs, the REAL code) and the Lean
driver (entries of lean/RvModel/Hand/DispatchC05S.lean, the hand model Hand/StickConj.lean on Float).

    run(tier, seed, harness=None, driver=None)
        -> dict(cases, mismatches=[(line, impl, model)], findings={name: [case strings]}, samples, stats)

* mismatches : implementation != model (structure / integers / posterior parameters bit-exact; ln_m, ln_pp, ln_f … within
               1e-9 relative / 1e-10 absolute: `lnBeta` of the model is a Lean re-implementation of special::ln_beta)
* findings   : implementation-only relations that must hold (a non-empty list under a `rel:` name is VIOLATION material)
      rel:empty_is_prior        posterior(no data) = the prior, token for token            (C05)
      rel:closed_form           posterior = Beta(a_i + #{>i}, b_i + #{=i}) computed here     (C05, exact in binary64)
      rel:stat_eq_data          SuffStat arm = Data arm (posterior, ln_m, ln_pp), exactly    (C05/C06)
      rel:seq_eq_batch          posterior(posterior(x), z) = posterior(x ++ z) within 1e-12  (C05)
      rel:posterior_valid       every parameter of the posterior finite and > 0              (C05)
      rel:bayes                 post.ln_f(w) = prior.ln_f(w) + ln_f_stat(w; x) - ln_m(x)     (C05, 1e-9 scaled)
      rel:ln_m_empty            ln_m(no data) = 0                                            (C06)
      rel:chain_rule            ln_pp(y | x) = ln_m(x ++ [y]) - ln_m(x) within 1e-9 scaled   (C06)
      rel:perm                  ln_m of a shuffled data set is the same value (1e-12)        (C06)
      rel:cached                ln_m_with_cache = ln_m, ln_pp_with_cache(one cache, many y) = ln_pp, pp = exp ln_pp = pp_with_cache,
                                m = exp ln_m                                                 (C06, exact / 1e-12)
      rel:normalised            sum_{y<Y} pp(y|x) + prod_{i<Y} E[p_i | x] = 1 within 1e-9    (C06)
      rel:stat_counts_add       statistic of x ++ z = element-wise sum of the statistics     (C07-style, exact)
      rel:ln_f_stat_eq_sum      StickBreakingDiscrete::ln_f_stat(statistic of x), evaluated FIRST on a fresh seeded StickSequence,
                                = sum of ln_f(x) on ANOTHER fresh sequence of the same seed (1e-10 scaled); also for a statistic with
                                holes / trailing zeros after forget against its remaining data       (C07)
      rel:ln_f_stat_state_independent   ln_f_stat fresh = again = after ln_f(&ext) extended the sequence, bit for bit   (C07)
  and accepted observations (names without `rel:`; information only):
      obs:ln_f_empty_weights_panics, obs:ln_m_both_arm_underflow, obs:trailing_zero_counts_lengthen_prefix,
      obs:ln_f_stat_nan_on_empty_slot_of_zero_weight

stand-alone:  python3 props/cases_c05s.py [tier] [seed] [<rvharness> <rvdrv>]
"""
import math, os, random, struct, subprocess, sys, threading, time

_ROOT = os.path.dirname(os.path.dirname(os.path.abspath(__file__)))
H = os.environ.get('RVH', os.path.join(_ROOT, 'harness', 'target', 'release', 'rvharness'))
D = os.environ.get('RVD', os.path.join(_ROOT, 'lean', '.lake', 'build', 'bin', 'rvdrv'))
UNITS = {'quick': 300, 'thorough': 5000}


# ------------------------------------------------------------------------------------------------------------- wire
def fb(x):
    return 'x%016x' % struct.unpack('<Q', struct.pack('<d', float(x)))[0]


def tf(t):
    if t == 'xNaN':
        return float('nan')
    return struct.unpack('<d', struct.pack('<Q', int(t[1:], 16)))[0]


def isf(t):
    return t.startswith('x') and len(t) in (4, 17)


def L(xs, f=str):
    return ' '.join(['L%d' % len(xs)] + [f(x) for x in xs])


def sbtok(alpha, pre):
    return ' '.join([fb(alpha), 'L%d' % len(pre)] + [fb(v) for ab in pre for v in ab])


def parse_sb(ans):
    t = ans.split()
    if not t or not isf(t[0]) or len(t) < 2 or not t[1].startswith('L'):
        return None
    k = int(t[1][1:])
    v = [tf(x) for x in t[2:2 + 2 * k]]
    return tf(t[0]), [(v[2 * i], v[2 * i + 1]) for i in range(k)]


def floats(ans):
    return [tf(t) for t in ans.split() if isf(t)]


def dec(line):
    return ' '.join((repr(tf(t)) if isf(t) else t) for t in line.split())


def run_pair(lines):
    res = {}

    def one(k, prog):
        env = dict(os.environ, RVH_HANG_MS='20000')
        out = subprocess.run([prog], input='\n'.join(lines) + '\n', capture_output=True, text=True, env=env).stdout.split('\n')
        out = out[:-1] if out and out[-1] == '' else out
        res[k] = out + ['DIED'] * (len(lines) - len(out))
    ts = [threading.Thread(target=one, args=('i', H)), threading.Thread(target=one, args=('m', D))]
    [t.start() for t in ts]
    [t.join() for t in ts]
    return res['i'], res['m']


def run_impl(lines):
    env = dict(os.environ, RVH_HANG_MS='20000')
    out = subprocess.run([H], input='\n'.join(lines) + '\n', capture_output=True, text=True, env=env).stdout.split('\n')
    out = out[:-1] if out and out[-1] == '' else out
    return out + ['DIED'] * (len(lines) - len(out))


# ------------------------------------------------------------------------------------------------------- comparison
def close(a, b, rel, abs_):
    if a != a or b != b:
        return a != a and b != b
    if math.isinf(a) or math.isinf(b):
        return a == b
    return abs(a - b) <= abs_ + rel * max(abs(a), abs(b))


def cmp_ans(a, b, rel=1e-9, abs_=1e-10):
    ta, tb = a.split(), b.split()
    if len(ta) != len(tb):
        return False
    for x, y in zip(ta, tb):
        if isf(x) and isf(y):
            if not close(tf(x), tf(y), rel, abs_):
                return False
        elif x != y:
            return False
    return True


# ------------------------------------------------------------------------------------------------------- generators
def counts_of(xs):
    c = [0] * (max(xs) + 1 if xs else 0)
    for x in xs:
        c[x] += 1
    return c


def pairs_of(counts):
    s = sum(counts)
    out = []
    for x in counts:
        s -= x
        out.append((s, x))
    return out


def post_closed(alpha, pre, counts):
    """the statement's closed form, evaluated in binary64 exactly as one addition per parameter"""
    prs = pairs_of(counts)
    out = []
    for i in range(max(len(pre), len(prs))):
        if i < len(pre) and i < len(prs):
            out.append((pre[i][0] + float(prs[i][0]), pre[i][1] + float(prs[i][1])))
        elif i < len(pre):
            out.append(pre[i])
        else:
            out.append((alpha + float(prs[i][0]), 1.0 + float(prs[i][1])))
    return out


def lg(rng, lo, hi):
    return math.exp(rng.uniform(math.log(lo), math.log(hi)))


def rdata(rng, nmax=200):
    n = rng.choice([0, 0, 1, 1, 2, 3, 5, 10, 40, 200, rng.randint(0, nmax)])
    n = min(n, nmax)
    mode = rng.choice(['uniform', 'small', 'repeat', 'sparse', 'geom', 'large'])
    if mode == 'uniform':
        return [rng.randint(0, 30) for _ in range(n)]
    if mode == 'small':
        return [rng.randint(0, 3) for _ in range(n)]
    if mode == 'repeat':
        v = rng.randint(0, 30)
        return [v] * n
    if mode == 'sparse':
        vals = rng.sample(range(0, 31), rng.randint(1, 3))
        return [rng.choice(vals) for _ in range(n)]
    if mode == 'geom':
        p = rng.uniform(0.1, 0.9)
        return [min(int(math.log(1.0 - rng.random()) / math.log(1.0 - p)), 30) for _ in range(n)]
    return [rng.choice([0, 1, 29, 30, rng.randint(31, 120)]) for _ in range(min(n, 12))]


def rprior(rng):
    """fresh `from_alpha` priors, posteriors used as priors (closed form of a fresh prior on random data) and arbitrary prefixes"""
    alpha = rng.choice([lg(rng, 1e-3, 1e3), lg(rng, 0.1, 10.0), float(rng.randint(1, 9)), 0.5, 1.0])
    r = rng.random()
    if r < 0.35:
        return alpha, []
    if r < 0.75:
        return alpha, post_closed(alpha, [], counts_of(rdata(rng)))
    k = rng.randint(1, 12)
    return alpha, [(lg(rng, 1e-2, 1e3), lg(rng, 1e-2, 1e3)) for _ in range(k)]


def rbreaks(rng, k):
    return [rng.uniform(0.05, 0.95) for _ in range(k)]


def weights_of(bs):
    rem, out = 1.0, []
    for b in bs:
        w = (1.0 - b) * rem
        rem -= w
        out.append(w)
    return out


# ------------------------------------------------------------------------------------------------------------- run
def run(tier='quick', seed=5, harness=None, driver=None, units=None):
    global H, D
    if harness:
        H = harness
    if driver:
        D = driver
    rng = random.Random(seed * 7919 + 55)
    nunits = units if units is not None else UNITS.get(tier, 300)
    lines, meta = [], []
    # fresh seeded stick sequences: breaker alpha kept where 120 breaks do not underflow the remaining mass (see obs: probe)
    fresh = [(rng.choice([lg(rng, 2.0, 30.0), lg(rng, 0.5, 30.0), 3.0]), rng.randrange(0, 2 ** 32)) for _ in range(nunits)]
    brk = run_impl([f'stick.breaks - {fb(a)} {sd} 130' for a, sd in fresh])
    for _u in range(nunits):
        alpha, pre = rprior(rng)
        xs, zs = rdata(rng), rdata(rng, 40)
        y = rng.choice([0, 1, 2, rng.randint(0, 30), (max(xs) + 1 if xs else 0), rng.randint(0, 60)])
        cx = counts_of(xs)
        pad = cx + [0] * rng.choice([0, 0, 1, 3])                       # a statistic after forget(): trailing zeros stay
        Y = rng.choice([1, 4, 10, 25])
        k = max(len(pad), 1) + rng.randint(0, 4)
        bs = rbreaks(rng, k)
        ws = weights_of(bs)
        sh = xs[:]
        rng.shuffle(sh)
        P = sbtok(alpha, pre)
        ops = []
        cur = cx[:]
        for _j in range(rng.randint(0, 6)):                            # observe / forget history (forget only what is there)
            nz = [i for i, c in enumerate(cur) if c > 0]
            if nz and rng.random() < 0.45:
                i = rng.choice(nz)
                cur[i] -= 1
                ops.append('f %d' % i)
            else:
                i = rng.randint(0, 35)
                cur += [0] * (i + 1 - len(cur))
                cur[i] += 1
                ops.append('o %d' % i)
        blk = [
            f'sb.posterior - {P} D {L(xs)}',                             # 0
            f'sb.posterior - {P} Q {L(cx)}',                             # 1
            f'sb.posterior_stat - {P} {L(pad)}',                         # 2
            f'sb.posterior - {P} D {L([])}',                             # 3
            f'sb.posterior - {P} D {L(xs + zs)}',                        # 4
            f'sb.ln_m - {P} D {L(xs)}',                                  # 5
            f'sb.ln_m - {P} Q {L(cx)}',                                  # 6
            f'sb.ln_m_cache - {P} D {L(xs)}',                            # 7
            f'sb.m - {P} D {L(xs)}',                                     # 8
            f'sb.ln_m - {P} D {L([])}',                                  # 9
            f'sb.ln_m - {P} D {L(xs + [y])}',                            # 10
            f'sb.ln_m - {P} D {L(sh)}',                                  # 11
            f'sb.ln_pp - {P} {y} D {L(xs)}',                             # 12
            f'sb.ln_pp - {P} {y} Q {L(cx)}',                             # 13
            f'sb.pp - {P} {y} D {L(xs)}',                                # 14
            f'sb.ln_pp_cache - {P} D {L(xs)} {L([y] + list(range(Y)))}', # 15
            f'sb.pp_cache - {P} Q {L(cx)} {L([y] + list(range(Y)))}',    # 16
            f'sb.ln_f - {P} {L(ws, fb)}',                                # 17
            f'sbd.ln_f_stat - {L(bs, fb)} {L(pad)}',                     # 18
            f'sb.ln_m - {P} Q {L(pad)}',                                 # 19
            f'sb.breaks - {L(ws, fb)}',                                  # 20
            f'sb.weights - {L(bs, fb)}',                                 # 21
            f'sbstat.from_data - {L(xs)}',                               # 22
            f'sbstat.from_data - {L(xs + zs)}',                          # 23
            f'sbstat.from_data - {L(zs)}',                               # 24
            f'sbstat.observe_forget - {L(cx)} {len(ops)} {" ".join(ops)}'.rstrip(),   # 25
            f'sb.f - {P} {L(ws, fb)}',                                   # 26
        ]
        fa, fsd = fresh[_u]
        rest = [i for i, c in enumerate(cur) for _ in range(c)]         # the data the statistic `cur` still holds
        rng.shuffle(rest)
        ext = rng.choice([0, len(cx), len(cx) + 1, rng.randint(0, 125)])
        FS = f'{fb(fa)} {fsd} {brk[_u]}'
        blk += [
            f'sbd.ln_f_stat_fresh - {FS} {L(cx)}',                       # 27  the statistic FIRST, on a fresh sequence
            f'sbd.sum_ln_f_fresh - {FS} {L(xs)}',                        # 28  pointwise, on another fresh sequence
            f'sbd.ln_f_stat_fresh - {FS} {L(cur)}',                      # 29  holes / trailing zeros after forget
            f'sbd.sum_ln_f_fresh - {FS} {L(rest)}',                      # 30
            f'sbd.ln_f_stat_states - {FS} {L(rng.choice([cx, cur, pad]))} {ext}',   # 31
        ]
        meta.append(dict(base=len(lines), alpha=alpha, pre=pre, xs=xs, zs=zs, y=y, cx=cx, pad=pad, Y=Y, ws=ws, bs=bs, cur=cur))
        lines += blk
    per = 32
    impl, model = run_pair(lines)
    # second stage: the implementation's posterior used as a prior
    l2, m2 = [], []
    for u in meta:
        b = u['base']
        if parse_sb(impl[b]) is None or parse_sb(impl[b + 2]) is None:
            continue
        u['b2'] = len(l2)
        l2 += [f'sb.posterior - {impl[b]} D {L(u["zs"])}',               # 0 sequential
               f'sb.ln_f - {impl[b + 2]} {L(u["ws"], fb)}',               # 1 density of the posterior (of the padded statistic)
               f'sb.ln_m - {impl[b]} D {L(u["zs"])}',                     # 2 ln_m(z | x)  (general chain rule)
               f'sb.ln_m - {sbtok(u["alpha"], u["pre"])} D {L(u["xs"] + u["zs"])}']   # 3
    i2, mo2 = run_pair(l2) if l2 else ([], [])

    mismatches = []
    for ln, a, b in list(zip(lines, impl, model)) + list(zip(l2, i2, mo2)):
        op = ln.split()[0]
        exact = op in ('sb.posterior', 'sb.posterior_stat', 'sbstat.from_data', 'sbstat.observe_forget')
        ok = (a == b) if exact else cmp_ans(a, b)
        if not ok:
            mismatches.append((ln, a, b))

    F = {k: [] for k in ('rel:empty_is_prior', 'rel:closed_form', 'rel:stat_eq_data', 'rel:seq_eq_batch', 'rel:posterior_valid',
                         'rel:bayes', 'rel:ln_m_empty', 'rel:chain_rule', 'rel:perm', 'rel:cached', 'rel:normalised',
                         'rel:stat_counts_add', 'rel:panic_on_valid_input', 'rel:ln_f_stat_eq_sum',
                         'rel:ln_f_stat_state_independent')}
    worst = {'chain': 0.0, 'bayes': 0.0, 'seq': 0.0, 'norm': 0.0, 'lnfstat': 0.0}
    degenerate = 0

    def note(name, u, what, *vals):
        F[name].append(f'{what}: {dec(lines[u["base"]])[:400]} :: ' + ' | '.join(str(v)[:200] for v in vals))

    for u in meta:
        b = u['base']
        I = impl[b:b + per]
        prior_tok = sbtok(u['alpha'], u['pre'])
        if any(x in ('PANIC', 'HANG', 'DIED', 'NOOP') or x.startswith('BAD') for x in I):
            note('rel:panic_on_valid_input', u, 'answers', [x for x in I if not x or x[0] not in 'xL0123456789'][:3])
            continue
        # C05
        if I[3] != prior_tok:
            note('rel:empty_is_prior', u, 'posterior(no data)', dec(I[3]), 'prior', dec(prior_tok))
        want = sbtok(u['alpha'], post_closed(u['alpha'], u['pre'], u['cx']))
        if I[0] != want:
            note('rel:closed_form', u, 'posterior(Data)', dec(I[0]), 'closed form', dec(want))
        wantp = sbtok(u['alpha'], post_closed(u['alpha'], u['pre'], u['pad']))
        if I[2] != wantp:
            note('rel:closed_form', u, 'posterior_from_suffstat(padded)', dec(I[2]), 'closed form', dec(wantp))
        if not (I[0] == I[1] and I[5] == I[6] and I[12] == I[13]):
            note('rel:stat_eq_data', u, 'Data vs SuffStat', dec(I[0]), dec(I[1]), dec(I[5]), dec(I[6]), dec(I[12]), dec(I[13]))
        for j in (0, 2, 4):
            ps = parse_sb(I[j])
            if ps is None or not all(math.isfinite(v) and v > 0 for ab in ps[1] for v in ab) or not ps[0] > 0:
                note('rel:posterior_valid', u, 'posterior', dec(I[j]))
        if 'b2' in u:
            J = i2[u['b2']:u['b2'] + 4]
            if not cmp_ans(J[0], I[4], 1e-12, 0.0):
                note('rel:seq_eq_batch', u, 'sequential', dec(J[0]), 'batch', dec(I[4]))
            fs, fbt = floats(J[0]), floats(I[4])
            if len(fs) == len(fbt) and fs:
                worst['seq'] = max(worst['seq'], max(abs(p - q) / max(abs(q), 1e-300) for p, q in zip(fs, fbt)))
            # Bayes' rule on the log density of the padded statistic: post.ln_f(w) = prior.ln_f(w) + ln_f_stat(w) - ln_m
            try:
                lpost, lprior, lik, lnm = floats(J[1])[0], floats(I[17])[0], floats(I[18])[0], floats(I[19])[0]
                sc = max(1.0, abs(lpost), abs(lprior), abs(lik), abs(lnm))
                e = abs(lpost - (lprior + lik - lnm)) / sc
                worst['bayes'] = max(worst['bayes'], e)
                if not e <= 1e-9:
                    note('rel:bayes', u, 'post.ln_f', lpost, 'prior.ln_f + lik - ln_m', lprior + lik - lnm, (lprior, lik, lnm))
            except IndexError:
                note('rel:bayes', u, 'outcome', J[1], I[17], I[18], I[19])
            # general chain rule ln_m_post(z) = ln_m(x ++ z) - ln_m(x)
            try:
                a1, a2, a3 = floats(J[2])[0], floats(J[3])[0], floats(I[5])[0]
                sc = max(1.0, abs(a2), abs(a3))
                e = abs(a1 - (a2 - a3)) / sc
                worst['chain'] = max(worst['chain'], e)
                if not e <= 1e-9:
                    note('rel:chain_rule', u, 'posterior.ln_m(z)', a1, 'ln_m(x++z) - ln_m(x)', a2 - a3)
            except IndexError:
                note('rel:chain_rule', u, 'outcome', J[2], J[3])
        # C06
        z = floats(I[9])
        if not (len(z) == 1 and z[0] == 0.0):
            note('rel:ln_m_empty', u, 'ln_m(no data)', dec(I[9]))
        lnm, lnm1, lnpp = floats(I[5])[0], floats(I[10])[0], floats(I[12])[0]
        sc = max(1.0, abs(lnm), abs(lnm1))
        e = abs(lnpp - (lnm1 - lnm)) / sc
        worst['chain'] = max(worst['chain'], e)
        if not e <= 1e-9:
            note('rel:chain_rule', u, f'ln_pp({u["y"]}|x)', lnpp, 'ln_m(x++[y]) - ln_m(x)', lnm1 - lnm)
        if not cmp_ans(I[11], I[5], 1e-12, 1e-12):
            note('rel:perm', u, 'shuffled', dec(I[11]), 'original', dec(I[5]))
        c15, c16 = floats(I[15]), floats(I[16])
        m_ = floats(I[8])[0]
        pp = floats(I[14])[0]
        okc = (I[7] == I[5] and len(c15) == u['Y'] + 1 and len(c16) == u['Y'] + 1 and c15[0] == lnpp
               and close(pp, math.exp(lnpp), 1e-12, 0.0) and close(c16[0], math.exp(lnpp), 1e-12, 0.0)
               and close(m_, math.exp(lnm), 1e-12, 0.0)
               and all(close(q, math.exp(p), 1e-12, 0.0) for p, q in zip(c15, c16)))
        if not okc:
            note('rel:cached', u, 'cached vs uncached', dec(I[7]), dec(I[5]), c15[:2], c16[:2], lnpp, pp, m_)
        # normalisation of the predictive: sum_{y<Y} pp(y|x) + prod_{i<Y} a_i/(a_i+b_i) = 1 (posterior parameters)
        ps = parse_sb(I[0])
        if ps is not None and len(c16) == u['Y'] + 1:
            tail = 1.0
            for i in range(u['Y']):
                a_, b_ = ps[1][i] if i < len(ps[1]) else (ps[0], 1.0)
                tail *= a_ / (a_ + b_)
            tot = math.fsum(c16[1:]) + tail
            worst['norm'] = max(worst['norm'], abs(tot - 1.0))
            if not abs(tot - 1.0) <= 1e-9:
                note('rel:normalised', u, f'sum_(y<{u["Y"]}) pp + tail', tot)
        # statistic
        cz = counts_of(u['zs'])
        add = [(u['cx'][i] if i < len(u['cx']) else 0) + (cz[i] if i < len(cz) else 0) for i in range(max(len(u['cx']), len(cz)))]

        def stat_tok(c):
            pr = pairs_of(c)
            return ' '.join([L(c), 'L%d' % len(pr)] + [f'{s} {x}' for s, x in pr] + [str(sum(c))])
        if not (I[22] == stat_tok(u['cx']) and I[23] == stat_tok(add) and I[24] == stat_tok(cz) and I[25] == stat_tok(u['cur'])):
            note('rel:stat_counts_add', u, 'statistic', I[22][:120], I[23][:120], I[25][:120], 'expected', stat_tok(u['cur'])[:120])

        # C07: likelihood from the statistic (fresh sequence) = sum of the pointwise log-densities (another fresh sequence)
        for j, k2 in ((27, 28), (29, 30)):
            a1, a2 = floats(I[j]), floats(I[k2])
            if len(a1) != 1 or len(a2) != 1:
                note('rel:ln_f_stat_eq_sum', u, 'outcome', lines[b + j][:300], I[j], I[k2])
            elif not (math.isfinite(a1[0]) and math.isfinite(a2[0])):
                degenerate += 1                                          # a realised weight rounded to 0 (see the obs: probe)
            else:
                e = abs(a1[0] - a2[0]) / max(1.0, abs(a2[0]))
                worst['lnfstat'] = max(worst['lnfstat'], e)
                if not e <= 1e-10:
                    note('rel:ln_f_stat_eq_sum', u, 'ln_f_stat on a fresh sequence', a1[0], 'sum ln_f on a fresh sequence', a2[0],
                         dec(lines[b + j])[:60] + ' … ' + ' '.join(lines[b + j].split()[-(len(u['cx' if j == 27 else 'cur']) + 1):]))
        t3 = I[31].split()
        if len(t3) != 3 or not (t3[0] == t3[1] == t3[2]):
            note('rel:ln_f_stat_state_independent', u, 'fresh | again | after ln_f(ext)', dec(I[31]),
                 ' '.join(lines[b + 31].split()[:4]) + ' … ' + lines[b + 31][-120:])

    # ---- accepted observations (targeted probes, information only) ----
    obs = {}
    up = [(1001.0, 1.0), (1000.0, 2.0)]                                  # = from_alpha(1000).posterior(Data [1])
    w = [f'sb.ln_f - {sbtok(2.0, [])} {L([], fb)}',
         f'sb.ln_m - {sbtok(1000.0, up)} D {L([0] * 350)}',
         f'sb.ln_m - {sbtok(1000.0, [])} D {L([1] + [0] * 350)}',
         f'sb.ln_m - {sbtok(1000.0, [])} D {L([1])}',
         f'sb.posterior_stat - {sbtok(3.0, [])} {L([1, 0, 0])}',
         f'sb.posterior_stat - {sbtok(3.0, [])} {L([1])}',
         f'sb.posterior - {sbtok(1000.0, [])} D {L([1])}',
         f'sb.ln_pp - {sbtok(1000.0, up)} 0 D {L([0] * 350)}',
         f'sb.ln_m - {sbtok(1000.0, up)} D {L([0] * 351)}']
    wi, wm = run_pair(w)
    for ln, a, b in zip(w, wi, wm):
        if not (a == b or cmp_ans(a, b)):
            mismatches.append((ln, a, b))
    if wi[0] == 'PANIC':
        obs['obs:ln_f_empty_weights_panics'] = [f'{dec(w[0])} -> PANIC (`bs.last().unwrap()` on an empty PartialWeights, stick_breaking.rs:146)']
    try:
        cond, joint, marg, lnpp, cond1 = floats(wi[1])[0], floats(wi[2])[0], floats(wi[3])[0], floats(wi[7])[0], floats(wi[8])[0]
        if math.isinf(cond) and math.isfinite(joint - marg) and wi[6] == sbtok(1000.0, up):
            obs['obs:ln_m_both_arm_underflow'] = [
                f'prior = from_alpha(1000).posterior(Data [1]) = [Beta(1001,1), Beta(1000,2)]; ln_m(Data [0; 350]) = {cond} '
                f'(rising_beta_prod underflows to 0 before .ln(), stick_breaking.rs:205-220,334) while ln_m([1] ++ [0; 350]) - ln_m([1]) '
                f'on the fresh prior = {joint - marg}; chain rule: ln_m(x ++ [0]) - ln_m(x) = {cond1 - cond} but ln_pp(0 | x) = {lnpp}'
                f' :: {w[1][:200]} …']
    except IndexError:
        pass
    zb = run_impl([f'stick.breaks - {fb(0.01)} 3 70'])[0]
    wz = [f'sbd.ln_f_stat_fresh - {fb(0.01)} 3 {zb} {L([1] + [0] * 59)}', f'sbd.sum_ln_f_fresh - {fb(0.01)} 3 {zb} {L([0])}']
    zi, zm = run_pair(wz)
    for ln, a, b2 in zip(wz, zi, zm):
        if not (a == b2 or cmp_ans(a, b2)):
            mismatches.append((ln, a, b2))
    if zi[0] == 'xNaN' and floats(zi[1]) and math.isfinite(floats(zi[1])[0]):
        obs['obs:ln_f_stat_nan_on_empty_slot_of_zero_weight'] = [
            f'UnitPowerLaw(0.01) seed 3, statistic counts [1, 0 x 59] (observe(59), forget(59), observe(0)): ln_f_stat = NaN but sum ln_f = '
            f'{floats(zi[1])[0]} — an EMPTY slot whose realised weight rounded to 0 contributes 0 * ln 0 = NaN (sbd_stat.rs:119) :: '
            f'sbd.ln_f_stat_fresh - {fb(0.01)} 3 L70 <stick.breaks 0.01 3 70> {L([1] + [0] * 59)}']
    if wi[4] != wi[5]:
        obs['obs:trailing_zero_counts_lengthen_prefix'] = [
            f'{dec(w[4])} -> {dec(wi[4])}  but counts [1] -> {dec(wi[5])} (same distribution: Beta(alpha,1) = UnitPowerLaw(alpha); PartialEq differs)']
    findings = dict(F)
    findings.update(obs)
    ncases = len(lines) + len(l2) + len(w) + len(wz) + len(fresh) + 1
    samples = [f'{dec(lines[i])[:200]} -> impl {dec(impl[i])[:120]} model {dec(model[i])[:120]}' for i in (5, 12)] if lines else []
    return {'cases': ncases, 'units': nunits, 'mismatches': mismatches, 'findings': findings, 'samples': samples,
            'stats': {'worst_chain_rule': worst['chain'], 'worst_bayes': worst['bayes'], 'worst_seq_vs_batch': worst['seq'],
                      'worst_normalisation': worst['norm'], 'worst_ln_f_stat_vs_sum': worst['lnfstat'],
                      'ln_f_stat_degenerate_skipped': degenerate, 'second_stage': len(l2)}}


if __name__ == '__main__':
    tier = sys.argv[1] if len(sys.argv) > 1 else 'quick'
    seed = int(sys.argv[2]) if len(sys.argv) > 2 else 5
    hh = sys.argv[3] if len(sys.argv) > 4 else None
    dd = sys.argv[4] if len(sys.argv) > 4 else None
    t0 = time.time()
    r = run(tier, seed, harness=hh, driver=dd)
    print('cases: %d (units %d)  mismatches beyond tolerance: %d   wall %.1fs' % (r['cases'], r['units'], len(r['mismatches']), time.time() - t0))
    for ln, a, b in r['mismatches'][:8]:
        print('  MISMATCH\n    %s\n    impl : %s\n    model: %s' % (dec(ln)[:600], dec(a)[:300], dec(b)[:300]))
    for k, v in r['findings'].items():
        print('finding %s %d' % (k, len(v)))
        for c in v[:3]:
            print('    ' + c[:700])
    print(r['stats'])
    for s in r['samples']:
        print('sample', s)
