#!/bin/bash
# Build the verification framework from files on disk only (offline).  Run once after a fresh restore.
set -e
cd "$(dirname "$0")"
export CARGO_NET_OFFLINE=true
[ -f harness/Cargo.lock ] || cp /repo/Cargo.lock harness/Cargo.lock
python3 rs2lean/rs2lean.py --src /repo/src
(cd harness && cargo build --release --offline -q)
(cd lean && lake build RvModel rvdrv)
# elaborate every property file once so that later runs are warm
for f in lean/RvModel/Props/*.lean; do
  m=$(echo "$f" | sed 's#^lean/##; s#\.lean$##; s#/#.#g')
  (cd lean && lake build "$m") || true
done
echo "setup done"
