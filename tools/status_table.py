#!/usr/bin/env python3
"""tools/status_table.py — fill the status table (A.3) and the known-finding count of DESIGN.md from evidence/*.json."""
import json, os, re
ROOT = os.path.dirname(os.path.dirname(os.path.abspath(__file__)))
MODEL = {
 'C01': ('generated', 'Spec (textbook ln pdf) vs implementation'),
 'C02': ('generated, carrier X', 'implementation: f = exp ln_f, off-support, totality incl. special values, every 8-bit observation'),
 'C03': ('generated', 'Spec CDFs 1e-8; range / monotone / complement on the implementation; extended-domain search'),
 'C04': ('hand (functions of generator words)', 'bitwise under scripted words incl. extreme words; seeded determinism / support; KS law test; ConjugateModel'),
 'C05': ('generated + hand (stick-breaking, C05S)', 'posterior relations on the implementation'),
 'C06': ('generated + hand (stick-breaking, C05S)', 'chain rule / permutation / empty on the implementation'),
 'C07': ('generated', 'histories (f64 and f32, two batches) vs exact rational closed forms; MvGaussianSuffStat relations'),
 'C08': ('generated + hand (Poisson entropy)', 'Spec closed forms; entropy vs enumeration of the own pmf'),
 'C09': ('facts + state machine', 'implementation histories vs fresh objects (29 types + Mixture)'),
 'C10': ('generated, carrier X', 'special-value cross product; documented-valid extremes accepted'),
 'C11': ('hand (calls generated logsumexp / catflip)', 'mixture ops on 6 component families, entropy quadrature, f32 moments, histories'),
 'C12': ('generated + hand (DiscreteUniform)', 'Spec quantiles; round trips; integer kinds'),
 'C13': ('generated + hand samplers', 'Spec; scripted words; log_product vs exactly rounded sum'),
 'C14': ('tables (exact rationals) + hand', 'Float oracles'),
 'C15': ('hand (lists bridged to Matrix (Fin d))', 'd = 1..8, cond 1..1e8, malformed stream, histories, replayed draws'),
 'C16': ('hand kernel trees', 'random trees, finite differences, closed forms'),
 'C17': ('hand (GP over kernel trees)', 'random training sets, central differences, refits vs fresh training'),
 'C18': ('serde facts + record model', 'JSON / YAML / sequence round trips of 29 + 28 types'),
 'C19': ('hand (= generated where it exists)', 'all partitions n <= 8, histories, threads'),
 'C20': ('hand + generated pieces', 'true KS distance, ECDF, exact lattice p-values'),
}
rows = ['| id | theorems | obligations (discharged) | model | extra tie / oracle | evaluations (quick) |', '|---|---|---|---|---|---|']
for i in range(1, 21):
    pid = f'C{i:02d}'
    ev = json.load(open(os.path.join(ROOT, 'evidence', pid + '.json')))
    c = ev['coverage']
    rows.append(f"| {pid} | {c.get('theorems_ok')}/{c.get('theorems')} | {c.get('discharged')}/{c.get('obligations')} | {MODEL[pid][0]} | {MODEL[pid][1]} | {c.get('evaluations')} |")
table = '\n'.join(rows)
p = os.path.join(ROOT, 'DESIGN.md')
s = open(p).read()
k = json.load(open(os.path.join(ROOT, 'known_findings.json')))
if 'STATUS_TABLE' in s:
    s = s.replace('STATUS_TABLE', '<!-- status:begin -->\n' + table + '\n<!-- status:end -->')
else:
    s = re.sub(r'<!-- status:begin -->.*?<!-- status:end -->', lambda m: '<!-- status:begin -->\n' + table + '\n<!-- status:end -->', s, flags=re.S)
s = re.sub(r'`findings`, (KNOWN_COUNT|\d+) entries', f"`findings`, {len(k['findings'])} entries", s)
open(p, 'w').write(s)
print(table)
