#!/usr/bin/env python3
"""tools/seed_table.py — render seeded/README.md: one row per seeded change (what it is, which checks are designated to
catch it, what the last run of tools/seed_matrix.sh reported)."""
import json, os, glob, re, collections
ROOT = os.path.dirname(os.path.dirname(os.path.abspath(__file__)))
catch = json.load(open(os.path.join(ROOT, 'seeded', 'CATCH.json')))
res = collections.defaultdict(dict)
unchanged = []
p = os.path.join(ROOT, 'seeded', 'RESULTS.txt')
if os.path.exists(p):
    for l in open(p):
        m = re.match(r'(C\d\d-\d) (C\d\d) rc=(\d+) (\d+) violations \((\d+) with', l)
        if m:
            res[m.group(1)][m.group(2)] = (int(m.group(3)), int(m.group(4)), int(m.group(5)))
        elif l.startswith('UNCHANGED'):
            unchanged.append(l.strip())
NOTES = json.load(open(os.path.join(ROOT, 'seeded', 'NOTES.json'))) if os.path.exists(os.path.join(ROOT, 'seeded', 'NOTES.json')) else {}
rows = []
for s in sorted(catch):
    meta = json.load(open(os.path.join(ROOT, 'seeded', s, 'meta.json')))
    what = re.sub(r'\s+', ' ', meta.get('what', ''))[:230]
    files = ', '.join(os.path.basename(f) for f in meta.get('files_changed', []))
    cells = []
    for pid in catch[s]:
        r = res.get(s, {}).get(pid)
        cells.append(f'{pid}: ' + ('not run' if r is None else ('MISSED' if r[1] == 0 else f'caught ({r[2]}/{r[1]} with failing input)')))
    rows.append(f'| {s} | {files} | {what} | {"; ".join(cells)} | {NOTES.get(s, "")} |')
out = ['# Seeded breaking changes', '',
       'Each directory holds `patch.diff` (applies to /repo HEAD with `git -C /repo apply`), `demo.rs` (an integration test that',
       'fails with the patch and passes without it) and `meta.json` (written by the sub-agent that produced the change; it was',
       'given only the text of the property and a scratch worktree).  Every change was re-verified by `tools/verify_seed.sh`',
       '(builds with all features, the unit suite passes unedited, the demo fails with / passes without the patch).',
       '`tools/seed_matrix.sh` applies each patch to /repo, runs the designated checks (quick tier), and undoes it;',
       'its last output is `RESULTS.txt`.  A seed filed under property P is often a defect of a mechanism owned by another',
       'property (a forgotten cache reset is a C09 matter whatever it corrupts): the designated check is the one whose',
       'statement the change falsifies most directly.', '',
       '| seed | file | change | designated check(s): result | strengthening it triggered |', '|---|---|---|---|---|'] + rows
if unchanged:
    bad = [u for u in unchanged if not u.endswith(' 0 violations') or 'rc=0' not in u]
    out += ['', f'Unchanged tree, seeds 1–3, all 20 quick checks: {len(unchanged)} runs, {len(bad)} with a violation or non-zero exit.'] + bad
open(os.path.join(ROOT, 'seeded', 'README.md'), 'w').write('\n'.join(out) + '\n')
print(len(rows), 'seeds;', sum(1 for s in catch for pid in catch[s] if res.get(s, {}).get(pid, (0, 0, 0))[1] == 0), 'designated runs without a violation')
