#!/usr/bin/env python3
"""Regenerate /verif/MANIFEST.json from the table below (one entry per claimed property)."""
import json, os
ROOT = os.path.dirname(os.path.dirname(os.path.abspath(__file__)))
COMMON_NOTE = ("Trusted: Lean 4.33 kernel; axioms propext/Classical.choice/Quot.sound only (audited per theorem on every run); "
               "the rs2lean translator (re-run on every check; its output is validated by the model-vs-implementation correspondence); "
               "external crates (special, rand, rand_distr, nalgebra, serde) are parameters of the model; binary64 rounding is not modelled "
               "in theorems (exact reals R, or IEEE special values over exact reals X) and only sampled by the correspondence. ")
P = {
 'C01': ("Theorems over exact reals: every generated ln_f (30 distributions, regenerated from /repo/src each run) equals the textbook log-density/mass on the support for all valid parameters; bridges to Mathlib densities where they exist; constants of consts.rs within 1e-15. Tie: regeneration + correspondence of every (distribution, observation type) op + implementation-vs-Spec at sampled support points.",
         "Spec/C01*.lean textbook formulas. Cauchy only on the exact branch of log1pexp (partial). DiscreteUniform::ln_f is proved WRONG (counterexample theorem; pinned by the suite, recorded).", "§4 C01"),
 'C02': ("Theorems: f = exp(ln_f), pdf/pmf wrappers (all carriers, 222 theorems); off-support => ln_pdf = -inf, pdf = 0 for every x incl. NaN/inf (carrier X); totality on the support for 22 laws over X incl. closed parameter boundaries, with counterexample theorems where the code is NaN; normalisation (Mathlib measure theory) for 14 laws. Tie: regeneration + correspondence; implementation-side check of the same clauses over special values and every 8-bit observation.",
         "Normalisation not proved for 15 laws (listed in Props/C02C.lean with the missing fact). Known findings: 0*ln 0 NaNs at p in {0,1}, InvGaussian/Gev support end points.", "§4 C02"),
 'C03': ("Theorems (166) with Mathlib calculus: HasDerivAt cdf (exp ln_f) for 16 continuous laws (closed forms; incomplete gamma/beta and erf forms via FTC lemmas proved from the integral definitions), monotonicity, range [0,1], limits 0 and 1 at the ends of the support, sf = 1 - cdf; discrete: cdf = running sum of the object's own pmf (Bernoulli, Geometric, Binomial, BetaBinomial, Categorical, Poisson partial), closed forms. Tie: regeneration + correspondence + implementation-vs-Spec at 1e-8 + oracle-free range/monotone/complement checks on the implementation.",
         "Cauchy derivative only on the exact branch of log1pexp; Beta upper bound partial; InvGaussian/VonMises/KsTwoAsymptotic/Empirical/Mixture CDFs not translated. Known findings: Binomial/BetaBinomial mass loss when n exceeds the observation type; NegBinomial cdf at the type's MAX.", "§4 C03"),
 'C10': ("Theorems (605) over the IEEE-special-value carrier X: for 33 constructors `new θ = ok ↔ Valid θ` for ALL θ incl. NaN/±inf, fields carried exactly, errors name an offending argument (first offending one for 20; counterexample theorems for the 11 whose order differs), setters succeed iff in domain, change only their field, failure leaves the object unchanged, any accepted setter sequence = new, from_params∘emit_params = id. Tie: regeneration of the validation ladders + correspondence over the cross product of the special-value alphabet.",
         "Categorical::new accepts zero weights (all-zero gives NaN log-weights): counterexample theorem. Mixture / kernel / NIW validators not covered here.", "§4 C10"),
 'C05': ("Theorems (66, no partial): for all 8 conjugate pairs posterior validity, closed-form hyper-parameter update (= Murphy 2007 for the Gaussian pairs), posterior(no data) = prior, data arm = statistic arm, sequential = batch, and Bayes' rule ln_f(post) = ln_f(prior) + sum ln_f(lik) - ln_m for every theta, all among generated functions. Tie: regeneration + correspondence + implementation-level relation checks.",
         "lgamma/lnBeta/ln_fact opaque in the identities.", "§4 C05"),
 'C06': ("Theorems (122): ln_m([]) = 0, permutation invariance, chain rule ln_pp = ln_m(x,y) - ln_m(x) for all 8 pairs, cached = uncached entry points, predictive normalisation (Bernoulli, Categorical, Gamma-Poisson series), integral form for Beta/UnitPowerLaw-Bernoulli and Gamma-Poisson. Tie: regeneration + correspondence + implementation-level chain-rule / permutation / empty checks.",
         "Gaussian-pair predictive normalisation and Dirichlet integral are partial (Student-t / Dirichlet integrals not in Mathlib). Gamma-Poisson chain rule exact up to ln_fact(y) - lnGamma(y+1). ConjugateModel wrapper not modelled.", "§4 C06"),
 'C07': ("Theorems (146, no partial): refinement of all 8 statistics to the multiset of data held, by induction over every legal history of observe/forget/observe_many/forget_many; order independence, mix of entry points, forget-all = new, Welford update/downdate, ln_f_stat = sum of pointwise ln_f. Tie: regeneration + correspondence incl. histories vs exact rational closed forms.",
         "Float drift only sampled. MvGaussian / stick-breaking statistics not covered here (C15/C19).", "§4 C07"),
 'C08': ("Theorems (204): generated mean/variance/skewness/kurtosis/median/mode/entropy/kl equal textbook closed forms incl. existence (None iff the moment does not exist), KL >= 0 and = 0 iff equal for Gaussian/Poisson/Exponential/Bernoulli, cdf(median) = 1/2 for 8 laws; counterexample theorems for the defects that remain. Tie: regeneration + correspondence + implementation-vs-Spec on parameter grids dense at the thresholds.",
         "Closed form = functional of the pdf is textbook (cross-checked by quadrature when the Spec was written) except median/KL. Seven defects were repaired (fix: commits), six are recorded as known findings.", "§4 C08"),
 'C09': ("Generic theorem by induction over arbitrary operation histories of a cache state machine (every query returns what a fresh object returns; queries commute; hence any thread interleaving of atomic operations), instantiated by facts extracted from /repo/src on every run (read sets of cache initialisers, write/reset sets of setters, PartialEq field lists) checked by `decide`; tie: fact extraction + implementation histories compared query-by-query with fresh objects (29 types).",
         "Atomicity of OnceLock / &mut self is trusted. Three defects found and repaired (Skellam stale cache, ScaledInvChiSquared eq, Mixture eq).", "§4 C09"),
 'C12': ("Theorems (58, no partial): cdf(invcdf p) = p, invcdf(cdf x) = x, strict monotonicity, lands in support, interval(p) has mass p for 7 continuous laws (erf bijectivity proved, not assumed); DiscreteUniform invcdf proved NOT the generalised inverse (counterexample). Tie: regeneration + correspondence + implementation-vs-Spec + implementation round trips.",
         "KsTwoAsymptotic and stick-breaking quantiles not covered. Far-tail accuracy of special::inv_error only sampled.", "§4 C12"),
 'C13': ("Theorems over the IEEE-special-value carrier X: logsumexp exact spec for every list over {finite, -inf} (never NaN), logaddexp spec + counterexample at (-inf,-inf), log1pexp branch error bounds and |rel err| <= 2^-52 across switch points, cumsum = prefix sums, ln_binom, lnmv_gamma. Tie: regeneration of the func.rs definitions + correspondence + implementation-vs-Spec incl. exhaustive -inf patterns.",
         "Index samplers (pflip...) and argmax/log_product: hand models in progress (C13B). Known findings: logaddexp(-inf,-inf) NaN; logsumexp relative accuracy near 0.", "§4 C13"),
 'C14': ("Theorems by kernel evaluation over exact rationals of today's table digits: every Gauss-Legendre rule n=2..30 integrates every monomial of degree < 2n within 1e-13 (lifted to polynomials and intervals), weights positive, nodes symmetric; ln n! table within 5e-13 of log n! via certified log enclosures, continuity at the 254 switch; bessel_iv dispatcher decision table; I0/I1 switch continuity. Tie: table extraction each run + correspondence of hand models + comparison with Float oracles.",
         "Accuracy of Chebyshev/Temme/continued-fraction kernels and of special::ln_gamma is exploration against uncertified oracles. Two table defects repaired (n=11, n=12).", "§4 C14"),
}
def main():
    checks = []
    for pid in sorted(P):
        text, note, ref = P[pid]
        checks.append({
            "property_id": pid, "quick_cmd": f"./check {pid} --tier quick", "thorough_cmd": f"./check {pid} --tier thorough",
            "evidence_file": f"evidence/{pid}.json", "replay_cmd_template": f"./check {pid} --replay {{path}}", "engine": "lean4-rs2lean",
            "level_claimed": {"category": "proof", "text": text, "design_ref": "DESIGN.md " + ref},
            "level_note": COMMON_NOTE + note,
            "technique": "Lean 4 proof over a model regenerated from source + differential correspondence"})
    na = []
    reasons = {}
    for i in range(1, 21):
        pid = f'C{i:02d}'
        if pid not in P:
            na.append({"property_id": pid, "reason": reasons.get(pid, "not yet claimed in this commit: Lean model and proofs for this property are still being built (no technique switch intended)")})
    man = {"version": 1, "setup_cmd": "./setup.sh",
           "hooks": {"guard": "rv_verif", "enable": "none needed: every observation point is reachable through the public API with all cargo features on; generator values are controlled with a scripted RngCore",
                     "baseline_off_cmd": "cd /repo && cargo test --workspace --no-fail-fast --offline", "source_commits": [], "add_only": True},
           "engines": [{"name": "lean4-rs2lean", "path": "lean/ rs2lean/ harness/ checklib/ check props/", "serves_properties": sorted(P),
                        "kind_free_text": "Rust-to-Lean translator (regenerates the model each run) + Lean 4/Mathlib proofs + in-process differential harness"}],
           "checks": checks, "notes": "See DESIGN.md. Repairs of genuine defects are `fix:` commits in /repo, listed in known_findings.json under `fixed`.",
           "not_applicable": na}
    json.dump(man, open(os.path.join(ROOT, 'MANIFEST.json'), 'w'), indent=1)
    print('claimed', sorted(P))
main()
