#!/bin/bash
# run every claimed quick check; print one summary line each
cd "$(dirname "$0")/.."
for p in $(python3 -c "import json;print(' '.join(c['property_id'] for c in json.load(open('MANIFEST.json'))['checks']))"); do
  s=$(date +%s); out=$(./check $p --tier ${1:-quick} 2>&1); rc=$?; e=$(( $(date +%s) - s ))
  echo "$p rc=$rc ${e}s $(echo "$out" | grep -c '^VIOLATION') violations, $(echo "$out" | grep -c '^KNOWN-FINDING') known"
done
