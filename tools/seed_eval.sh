#!/bin/bash
# tools/seed_eval.sh <seed-id> [<property>...]   apply a seeded change to /repo, run the checks, undo it.
# Prints one line per property: "<seed> <prop> rc=<rc> <VIOLATION lines>"; full logs in /tmp/seedeval/<seed>.<prop>.log
id=$1; shift
props="$@"; [ -z "$props" ] && props=$(echo $id | cut -d- -f1)
mkdir -p /tmp/seedeval
[ -n "$(git -C /repo status --porcelain)" ] && { echo "/repo not clean"; exit 2; }
git -C /repo apply /verif/seeded/$id/patch.diff || { echo "$id does not apply"; exit 2; }
trap 'git -C /repo checkout -- . ; git -C /repo clean -fdq' EXIT
for p in $props; do
  cd /verif && ./check $p --tier ${TIER:-quick} > /tmp/seedeval/$id.$p.log 2>&1; rc=$?
  echo "$id $p rc=$rc $(grep -c '^VIOLATION' /tmp/seedeval/$id.$p.log) violations; $(grep '^VIOLATION' /tmp/seedeval/$id.$p.log | head -2 | tr '\n' ' ')"
  mkdir -p /tmp/seedeval/$id.$p.replays; cp /verif/replays/$p-*.json /tmp/seedeval/$id.$p.replays/ 2>/dev/null
done
