#!/bin/bash
# tools/verify_seed.sh <seed-id>...   confirm a seeded change in a scratch worktree of /repo:
#   builds with all features, unit suite passes, demo fails with the patch and passes without it.
W=/tmp/seedverify
for id in "$@"; do
  d=/verif/seeded/$id
  rm -rf $W; git -C /repo worktree prune; git -C /repo worktree add -q --detach $W HEAD || exit 2
  export CARGO_TARGET_DIR=/tmp/seedverify-target CARGO_NET_OFFLINE=true
  cd $W
  res="id=$id"
  if git apply --check $d/patch.diff 2>/dev/null; then git apply $d/patch.diff; res="$res applies=yes"; else res="$res applies=NO"; echo "$res"; cd /; git -C /repo worktree remove --force $W; continue; fi
  cargo build --offline --all-features -q 2>/dev/null && res="$res build=ok" || res="$res build=FAIL"
  t=$(cargo test --lib --offline 2>&1 | grep "^test result" | head -1); res="$res suite=[$t]"
  mkdir -p tests; cp $d/demo.rs tests/seed_demo.rs
  cargo test --offline --all-features --test seed_demo > /tmp/seedverify-demo1.log 2>&1 && res="$res demo_with_patch=PASS(unexpected)" || res="$res demo_with_patch=fails"
  git checkout -q -- . ; 
  cargo test --offline --all-features --test seed_demo > /tmp/seedverify-demo2.log 2>&1 && res="$res demo_without=passes" || res="$res demo_without=FAILS(unexpected)"
  echo "$res"
  cd /; git -C /repo worktree remove --force $W
done
rm -rf /tmp/seedverify-target
