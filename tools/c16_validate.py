#!/usr/bin/env python3
"""C16 validation: hand model (Lean, Float carrier) vs implementation (Rust harness) on random kernel trees, and
self-consistency of the implementation (gradient vs central differences of its own covariance, diag vs diagonal of
covariance(X, X), covariance returned with the gradient vs covariance(X, X), symmetry, smallest eigenvalue).

usage: c16_validate.py [--harness PATH] [--driver PATH] [--n 1500] [--seed 1] [--json OUT]
"""
import argparse, json, math, os, random, struct, subprocess, sys, collections

LEAVES = ['const', 'rbf', 'seard', 'ess', 'rq', 'matern', 'white']
NPAR = {'const': 1, 'rbf': 1, 'ess': 2, 'rq': 2, 'matern': 2, 'white': 1}


def enc(x):
    return 'x%016x' % struct.unpack('<Q', struct.pack('<d', x))[0]


def dec(t):
    if t == 'xNaN':
        return float('nan')
    return struct.unpack('<d', struct.pack('<Q', int(t[1:], 16)))[0]


# ---------------------------------------------------------------------------------------------- trees
# tree = ('const', [c]) | ('seard', [l...]) | ('add', a, b) | ('mul', a, b)

def rparam(rng, lo=1e-3, hi=1e3):
    return math.exp(rng.uniform(math.log(lo), math.log(hi)))


def rleaf(rng, d, kinds=LEAVES, matern_nu=(1e-3, 1e3)):
    k = rng.choice(kinds)
    if k == 'seard':
        r = rng.random()
        m = d if r < 0.85 else (d + rng.randint(1, 2))
        return (k, [rparam(rng) for _ in range(m)])
    if k == 'matern':
        return (k, [rparam(rng, *matern_nu), rparam(rng)])
    return (k, [rparam(rng) for _ in range(NPAR[k])])


def rtree(rng, d, depth, kinds=LEAVES):
    if depth == 0 or rng.random() < 0.15:
        return rleaf(rng, d, kinds)
    op = rng.choice(['add', 'mul'])
    return (op, rtree(rng, d, depth - 1, kinds), rtree(rng, d, depth - 1, kinds))


def ser(t):
    if t[0] in ('add', 'mul'):
        return f'{t[0]} {ser(t[1])} {ser(t[2])}'
    if t[0] == 'seard':
        return f'seard L{len(t[1])} ' + ' '.join(enc(x) for x in t[1])
    return t[0] + ' ' + ' '.join(enc(x) for x in t[1])


def leaves(t):
    if t[0] in ('add', 'mul'):
        return leaves(t[1]) + leaves(t[2])
    return [t]


def kinds_of(t):
    return sorted(set(l[0] for l in leaves(t)))


def nparams(t):
    return sum(len(l[1]) for l in leaves(t))


def with_param(t, i, f):
    """copy of t with the i-th parameter (in parameters() order) replaced by f(old)"""
    def go(t, i):
        if t[0] in ('add', 'mul'):
            a, i = go(t[1], i)
            b, i = go(t[2], i)
            return (t[0], a, b), i
        ps = list(t[1])
        if 0 <= i < len(ps):
            ps[i] = f(ps[i])
        return (t[0], ps), i - len(t[1])
    return go(t, i)[0]


def param_owner(t, i):
    for l in leaves(t):
        if i < len(l[1]):
            return l[0], i
        i -= len(l[1])
    return None, None


def rpoints(rng, n, d, dup=True):
    scale = rng.choice([0.01, 0.1, 1.0, 1.0, 3.0, 10.0])
    X = [[rng.uniform(-1, 1) * scale for _ in range(d)] for _ in range(n)]
    if dup and n >= 2 and rng.random() < 0.5:
        for _ in range(rng.randint(1, max(1, n // 3))):
            i, j = rng.randrange(n), rng.randrange(n)
            X[i] = list(X[j])
    return X


def serX(X, d):
    return f'{len(X)} {d} ' + ' '.join(enc(v) for r in X for v in r) if X else f'0 {d}'


# ---------------------------------------------------------------------------------------------- running

def run(binpath, lines, env=None):
    p = subprocess.run([binpath], input='\n'.join(lines) + '\n', capture_output=True, text=True, env=env)
    out = p.stdout.split('\n')
    if len(out) < len(lines):
        out += ['DIED'] * (len(lines) - len(out))
    return out[:len(lines)]


def parse(ans):
    """answer -> nested python lists / scalars, or the raw string for PANIC / E:…"""
    if ans.startswith(('PANIC', 'E:', 'HANG', 'DIED', 'BAD', 'NOOP')):
        return ans
    toks = ans.split()
    pos = 0

    def item():
        nonlocal pos
        t = toks[pos]
        pos += 1
        if t[0] == 'L':
            return [item() for _ in range(int(t[1:]))]
        if t[0] == 'x':
            return dec(t)
        return int(t)
    out = []
    while pos < len(toks):
        out.append(item())
    return out


def close(a, b, rel, ab):
    if a != a or b != b:
        return (a != a) and (b != b)
    if a == b:
        return True
    if math.isinf(a) or math.isinf(b):
        return False
    return abs(a - b) <= ab + rel * max(abs(a), abs(b))


def cmp_struct(a, b, rel, ab, nonfinite_equal=False):
    """first difference between two parsed answers or None; `nonfinite_equal`: any two non-finite values agree"""
    if isinstance(a, str) or isinstance(b, str):
        return None if a == b else f'{a!r} vs {b!r}'
    if isinstance(a, list) != isinstance(b, list):
        return 'shape'
    if isinstance(a, list):
        if len(a) != len(b):
            return f'len {len(a)} vs {len(b)}'
        for i, (x, y) in enumerate(zip(a, b)):
            r = cmp_struct(x, y, rel, ab, nonfinite_equal)
            if r:
                return f'[{i}] {r}'
        return None
    if isinstance(a, int) and isinstance(b, int):
        return None if a == b else f'{a} vs {b}'
    if nonfinite_equal and not math.isfinite(float(a)) and not math.isfinite(float(b)):
        return None
    return None if close(float(a), float(b), rel, ab) else f'{a!r} vs {b!r}'


def min_eig(M):
    """smallest eigenvalue of the symmetrised matrix (cyclic Jacobi, pure python; n ≤ 20)"""
    n = len(M)
    if n == 0 or any(v != v or math.isinf(v) for r in M for v in r):
        return None
    A = [[(M[i][j] + M[j][i]) / 2 for j in range(n)] for i in range(n)]
    for _ in range(60):
        off = sum(A[i][j] ** 2 for i in range(n) for j in range(n) if i != j)
        tot = sum(A[i][i] ** 2 for i in range(n)) + off
        if off <= 1e-30 * max(tot, 1e-300):
            break
        for p in range(n - 1):
            for q in range(p + 1, n):
                if A[p][q] == 0.0:
                    continue
                th = (A[q][q] - A[p][p]) / (2 * A[p][q])
                t = (1.0 if th >= 0 else -1.0) / (abs(th) + math.sqrt(th * th + 1))
                c = 1 / math.sqrt(t * t + 1)
                sn = t * c
                for k in range(n):
                    akp, akq = A[k][p], A[k][q]
                    A[k][p], A[k][q] = c * akp - sn * akq, sn * akp + c * akq
                for k in range(n):
                    apk, aqk = A[p][k], A[q][k]
                    A[p][k], A[q][k] = c * apk - sn * aqk, sn * apk + c * aqk
    return min(A[i][i] for i in range(n))


def mat(flat, n, m):
    return [flat[i * m:(i + 1) * m] for i in range(n)]


def main():
    ap = argparse.ArgumentParser()
    ap.add_argument('--harness', default='/verif/harness/target/release/rvharness')
    ap.add_argument('--driver', default='/verif/lean/.lake/build/bin/rvdrv')
    ap.add_argument('--n', type=int, default=1500)
    ap.add_argument('--seed', type=int, default=1)
    ap.add_argument('--json')
    ap.add_argument('--matern-nu-max', type=float, default=1e3)
    a = ap.parse_args()
    rng = random.Random(a.seed)

    cases = []
    for c in range(a.n):
        d = rng.randint(1, 4)
        n = rng.randint(1, 20)
        m = rng.randint(1, 20)
        r = rng.random()
        if c < 7 * 40:                      # every leaf kind alone, 40 times
            t = rleaf(rng, d, [LEAVES[c % 7]], (1e-3, a.matern_nu_max))
        else:
            depth = 1 if r < 0.3 else (2 if r < 0.85 else 3)
            t = rtree(rng, d, depth)
        X = rpoints(rng, n, d)
        Y = rpoints(rng, m, d)
        if rng.random() < 0.3 and n >= 1:   # share points between X and X'
            for _ in range(rng.randint(1, 3)):
                Y[rng.randrange(m)] = list(X[rng.randrange(n)])
        cases.append((t, d, X, Y))

    lines = []       # (case index, tag, line, rel, abs)
    for ci, (t, d, X, Y) in enumerate(cases):
        T = ser(t)
        p = nparams(t)
        theta = [rng.uniform(math.log(1e-3), math.log(1e3)) for _ in range(p + 3)]
        has_matern = 'matern' in kinds_of(t)
        lines.append((ci, 'cov', f'kernel.cov - {T} {serX(X, d)} {serX(Y, d)}'))
        lines.append((ci, 'covXX', f'kernel.cov - {T} {serX(X, d)} {serX(X, d)}'))
        lines.append((ci, 'diag', f'kernel.diag - {T} {serX(X, d)}'))
        lines.append((ci, 'cwg', f'kernel.cov_with_grad - {T} {serX(X, d)}'))
        lines.append((ci, 'params', f'kernel.parameters - {T}'))
        lines.append((ci, 'npar', f'kernel.n_parameters - {T}'))
        for tag, k in (('rep_eq', p), ('rep_less', max(p - 1, 0)), ('rep_less2', max(p - 2, 0)), ('rep_more', p + 1),
                       ('rep_more2', p + 3), ('rep_zero', 0)):
            lines.append((ci, tag, f'kernel.reparameterize - {T} L{k} ' + ' '.join(enc(v) for v in theta[:k])))
        for tag, k in (('con_eq', p), ('con_less', max(p - 1, 0)), ('con_more', p + 2)):
            lines.append((ci, tag, f'kernel.consume_parameters - {T} L{k} ' + ' '.join(enc(v) for v in theta[:k])))
    raw = [l[2] for l in lines]
    impl = run(a.harness, raw)
    model = run(a.driver, raw)

    # ---------------------------------------------------------------------------------- model vs implementation
    mism = []
    stats = collections.Counter()
    per_case = collections.defaultdict(dict)
    for (ci, tag, line), ia, ma in zip(lines, impl, model):
        t = cases[ci][0]
        pi, pm = parse(ia), parse(ma)
        per_case[ci][tag] = pi
        stats['lines'] += 1
        if isinstance(pi, str):
            stats['impl:' + pi.split()[0]] += 1
        if tag == 'cwg' and not isinstance(pi, str) and not isinstance(pm, str):
            flat = [abs(v) for v in pi[0] if v == v and not math.isinf(v)] + [abs(v) for sl in pi[1] for v in sl if v == v and not math.isinf(v)]
            scale = max(flat + [1.0])
            r = cmp_struct(pi[0], pm[0], 1e-10, 1e-300)
            if not r:
                if 'matern' in kinds_of(t):
                    # the Matérn gradient is a forward difference with step 1e-10 of values of size ≤ 1: one ulp of the
                    # covariance (fused multiply-add in Rust vs separate operations in Lean) moves it by ~2e-6
                    # (a noise entry of either sign times an overflowed factor gives ±inf / NaN: any two non-finite agree)
                    r = cmp_struct(pi[1], pm[1], 1e-10, 1e-4 * scale, nonfinite_equal=True)
                elif 'rq' in kinds_of(t):
                    # rational_quadratic.rs:129-132 `base.ln().mul_add(-mixture, d2/(2 s² base))` cancels; the fused
                    # rounding differs from the model's `a*b+c` by ≤ ulp(mixture·ln base)
                    amax = max(l[1][1] for l in leaves(t) if l[0] == 'rq')
                    r = cmp_struct(pi[1], pm[1], 1e-10, 1e-14 * max(amax, 1.0) * scale)
                else:
                    r = cmp_struct(pi[1], pm[1], 1e-10, 1e-300)
        else:
            r = cmp_struct(pi, pm, 1e-10, 1e-300)
        if r:
            mism.append({'tag': tag, 'kinds': kinds_of(t), 'line': line, 'impl': ia[:300], 'model': ma[:300], 'diff': r})
    print(f'# lines {stats["lines"]}  cases {len(cases)}  model≠impl {len(mism)}')
    print('# implementation outcomes:', {k: v for k, v in stats.items() if k.startswith('impl:')})
    bykind = collections.Counter((m['tag'], tuple(m['kinds'])) for m in mism)
    for k, v in sorted(bykind.items(), key=lambda kv: -kv[1])[:30]:
        print('  mismatch', k, v)
    for m in mism[:8]:
        print('  e.g.', m['tag'], m['diff'], '\n     ', m['line'][:240], '\n      impl ', m['impl'][:160], '\n      model', m['model'][:160])

    # ---------------------------------------------------------------------------------- implementation self-consistency
    # central differences of covariance(X, X) in every log-parameter
    H = 1e-5
    H2 = 2e-6
    fd_lines = []
    for ci, (t, d, X, Y) in enumerate(cases):
        for i in range(nparams(t)):
            for sgn, h in ((+1, H), (-1, H), (+2, H2), (-2, H2)):
                t2 = with_param(t, i, lambda v: math.exp(math.log(v) + (1 if sgn > 0 else -1) * h))
                fd_lines.append((ci, i, sgn, f'kernel.cov - {ser(t2)} {serX(X, d)} {serX(X, d)}'))
    fd_out = run(a.harness, [l[3] for l in fd_lines])
    fd = collections.defaultdict(dict)
    for (ci, i, sgn, _), o in zip(fd_lines, fd_out):
        fd[ci][(i, sgn)] = parse(o)

    defects = collections.defaultdict(list)     # (check, leaf kind) -> witnesses

    def note(check, kinds, single, wit):
        for k in kinds:
            defects[(check, k, 'leaf' if single else 'tree')].append(wit)

    for ci, (t, d, X, Y) in enumerate(cases):
        n = len(X)
        pc = per_case[ci]
        ks = kinds_of(t)
        single = t[0] not in ('add', 'mul')
        T = ser(t)
        cxx, dg, cwg = pc['covXX'], pc['diag'], pc['cwg']
        if isinstance(cxx, str):
            note('covariance(X,X) ' + cxx, ks, single, f'kernel.cov - {T} {serX(X, d)} {serX(X, d)}')
            continue
        C = mat(cxx[0], n, n)
        if any(not math.isfinite(v) for v in cxx[0]):
            q = next(q for q in range(n * n) if not math.isfinite(cxx[0][q]))
            note('covariance(X,X) not finite', ks, single,
                 f'entry ({q // n},{q % n}) = {cxx[0][q]!r}: kernel.cov - {T} {serX(X, d)} {serX(X, d)}')
        # symmetry
        if any(not close(C[i][j], C[j][i], 1e-12, 0) for i in range(n) for j in range(n)):
            note('covariance(X,X) not symmetric', ks, single, f'kernel.cov - {T} {serX(X, d)} {serX(X, d)}')
        # smallest eigenvalue
        me = min_eig(C)
        if me is not None:
            scale = max(1.0, max(abs(v) for v in cxx[0]))
            if me < -1e-8 * scale * n:
                note('covariance(X,X) not PSD', ks, single, f'min eig {me:.3e}: kernel.cov - {T} {serX(X, d)} {serX(X, d)}')
        # diag
        if isinstance(dg, str):
            note('diag ' + dg, ks, single, f'kernel.diag - {T} {serX(X, d)}')
        else:
            dv = dg[0]
            if len(dv) != n:
                note('diag length ≠ nrows', ks, single, f'len {len(dv)} for {n}x{d}: kernel.diag - {T} {serX(X, d)}')
            if any(not close(dv[i], C[i][i], 1e-9, 1e-300) for i in range(min(n, len(dv)))):
                i = next(i for i in range(min(n, len(dv))) if not close(dv[i], C[i][i], 1e-9, 1e-300))
                note('diag value ≠ covariance(X,X)[i][i]', ks, single,
                     f'diag[{i}]={dv[i]!r} cov[{i}][{i}]={C[i][i]!r}: kernel.diag - {T} {serX(X, d)}')
        # covariance_with_gradient
        if isinstance(cwg, str):
            note('covariance_with_gradient ' + cwg, ks, single, f'kernel.cov_with_grad - {T} {serX(X, d)}')
            continue
        G0, slices = cwg[0], cwg[1]
        bad = [q for q in range(n * n) if not close(G0[q], cxx[0][q], 1e-9, 1e-300)]
        if bad:
            q = bad[0]
            note('cov of covariance_with_gradient ≠ covariance(X,X)', ks, single,
                 f'entry ({q // n},{q % n}): {G0[q]!r} vs {cxx[0][q]!r}: kernel.cov_with_grad - {T} {serX(X, d)}')
        GM = mat(G0, n, n)
        if any(not close(GM[i][j], GM[j][i], 1e-12, 0) for i in range(n) for j in range(n)):
            i, j = next((i, j) for i in range(n) for j in range(n) if not close(GM[i][j], GM[j][i], 1e-12, 0))
            note('cov of covariance_with_gradient not symmetric', ks, single,
                 f'entry ({i},{j})={GM[i][j]!r} ({j},{i})={GM[j][i]!r}: kernel.cov_with_grad - {T} {serX(X, d)}')
        if len(slices) != nparams(t):
            note('number of gradient slices ≠ n_parameters', ks, single, f'kernel.cov_with_grad - {T} {serX(X, d)}')
        for i, sl in enumerate(slices):
            owner, oi = param_owner(t, i)
            up, dn = fd[ci].get((i, +1)), fd[ci].get((i, -1))
            up2, dn2 = fd[ci].get((i, +2)), fd[ci].get((i, -2))
            if any(v is None or isinstance(v, str) for v in (up, dn, up2, dn2)):
                continue
            num = [(u - v) / (2 * H) for u, v in zip(up[0], dn[0])]
            num2 = [(u - v) / (2 * H2) for u, v in zip(up2[0], dn2[0])]
            cs = max([abs(v) for v in cxx[0] if v == v] + [1e-300])
            # pow / Bessel amplify the rounding error of the covariance by the size of the exponent / order
            amp = max([1.0] + [max(l[1]) / 10 for l in leaves(t) if l[0] in ('rq', 'matern')])
            badq = []
            for q in range(n * n):
                g, f1, f2 = sl[q], num[q], num2[q]
                if g != g or f1 != f1 or f2 != f2:
                    if (g != g) != (f2 != f2):
                        badq.append(q)
                    continue
                err = abs(g - f2)
                # rounding noise of the difference quotient ~ 1e-16·|cov|/H2; truncation error estimated by |f1 - f2|
                if err > 1e-4 * max(abs(g), abs(f2)) + 2e-9 * cs * amp and abs(f1 - f2) < 0.05 * err:
                    badq.append(q)
            if badq:
                q = max(badq, key=lambda q: abs(sl[q] - num2[q]) if sl[q] == sl[q] and num2[q] == num2[q] else float('inf'))
                wit = (f'param {i} ({owner}[{oi}]) entry ({q // n},{q % n}): gradient {sl[q]!r} vs central difference {num2[q]!r}: '
                       f'kernel.cov_with_grad - {T} {serX(X, d)}')
                defects[('gradient ≠ d covariance / d log-parameter', owner, 'leaf' if single else 'tree')].append(wit)

    # reparameterize: round trip and reported counts
    for ci, (t, d, X, Y) in enumerate(cases):
        pc = per_case[ci]
        ks = kinds_of(t)
        single = t[0] not in ('add', 'mul')
        p = nparams(t)
        T = ser(t)
        last = leaves(t)[-1][0]
        exp = {'rep_more': f'E:ExtraneousParameters 1', 'rep_more2': 'E:ExtraneousParameters 3'}
        if p >= 1:
            exp['rep_less'] = 'E:MissingParameters 1'
            exp['rep_zero'] = f'E:MissingParameters {p}'
        if p >= 2:
            exp['rep_less2'] = 'E:MissingParameters 2'
        for tag, want in exp.items():
            got = pc[tag]
            if got != want:
                line = next(l[2] for l in lines if l[0] == ci and l[1] == tag)
                who = [last] if tag.startswith('rep_more') else ks
                note(f'reparameterize {tag}: wrong report', who, single, f'got {got!r} expected {want!r}: {line}')

    print('\n# implementation self-consistency (check, leaf kind, leaf-alone/in-tree): count, first witness')
    for k in sorted(defects):
        print(f'  {k}: {len(defects[k])}')
    print()
    badkinds = collections.defaultdict(set)
    for k in sorted(defects):
        if k[2] == 'leaf':
            badkinds[k[0]].add(k[1])
            print(f'  {k[0]} [{k[1]}] x{len(defects[k])}\n     {min(defects[k], key=len)[:900]}')
    print('\n# failures on trees none of whose leaves fails a related check alone (combinator suspects):')
    groups = [('diag PANIC', 'diag length ≠ nrows', 'diag value ≠ covariance(X,X)[i][i]'),
              ('cov of covariance_with_gradient not symmetric', 'cov of covariance_with_gradient ≠ covariance(X,X)',
               'gradient ≠ d covariance / d log-parameter', 'covariance_with_gradient PANIC'),
              ('reparameterize rep_more: wrong report', 'reparameterize rep_more2: wrong report'),
              ('covariance(X,X) PANIC', 'covariance_with_gradient PANIC'),
              ('covariance(X,X) not finite',),
              ('covariance(X,X) not PSD', 'covariance(X,X) not symmetric')]
    related = collections.defaultdict(set)
    for g in groups:
        u = set()
        for c in g:
            u |= badkinds[c]
        for c in g:
            related[c] |= u
    seen = collections.Counter()
    for k in sorted(defects):
        if k[2] == 'tree':
            for w in sorted(set(defects[k]), key=len):
                line = w[w.index('kernel.'):] if 'kernel.' in w else w
                toks = set(line.split())
                if not (toks & related[k[0]]):
                    seen[k[0]] += 1
                    if seen[k[0]] <= 3:
                        print(f'  {k[0]}: {w[:700]}')
    print('  counts:', dict(seen))
    if a.json:
        json.dump({'mismatches': mism[:200], 'defects': {' | '.join(k): v[:5] for k, v in defects.items()},
                   'stats': dict(stats), 'cases': len(cases)}, open(a.json, 'w'), indent=1)
    return 0


if __name__ == '__main__':
    sys.exit(main())
