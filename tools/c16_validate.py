#!/usr/bin/env python3
"""C16 validation: hand model (Lean, Float carrier) vs implementation (Rust harness) on random kernel trees, and
self-consistency of the implementation (gradient vs central differences of its own covariance, diag vs diagonal of
covariance(X, X), covariance returned with the gradient vs covariance(X, X), symmetry, smallest eigenvalue).

usage: c16_validate.py [--harness PATH] [--driver PATH] [--n 1500] [--seed 1] [--json OUT]
"""
import argparse, json, math, os, random, struct, subprocess, sys, collections

LEAVES = ['const', 'rbf', 'seard', 'ess', 'rq', 'matern', 'white']
HALF_INT_NU = (0.5, 1.5, 2.5)
NPAR = {'const': 1, 'rbf': 1, 'ess': 2, 'rq': 2, 'matern': 2, 'white': 1}


def enc(x):
    return 'x%016x' % struct.unpack('<Q', struct.pack('<d', x))[0]


def dec(t):
    if t == 'xNaN':
        return float('nan')
    return struct.unpack('<d', struct.pack('<Q', int(t[1:], 16)))[0]


# ---------------------------------------------------------------------------------------------- trees
# tree = ('const', [c]) | ('seard', [l...]) | ('add', a, b) | ('mul', a, b)

def rparam(rng, lo=1e-3, hi=1e3):
    return math.exp(rng.uniform(math.log(lo), math.log(hi)))


def rleaf(rng, d, kinds=LEAVES, matern_nu=(1e-3, 1e3)):
    k = rng.choice(kinds)
    if k == 'seard':
        r = rng.random()
        m = d if r < 0.85 else (d + rng.randint(1, 2))
        return (k, [rparam(rng) for _ in range(m)])
    if k == 'matern':
        # the half-integer orders (closed forms exist; the ones everybody uses) EXACTLY, with high probability
        nu = rng.choice(HALF_INT_NU) if rng.random() < 0.6 else rparam(rng, *matern_nu)
        return (k, [nu, rparam(rng)])
    return (k, [rparam(rng) for _ in range(NPAR[k])])


def rtree(rng, d, depth, kinds=LEAVES):
    if depth == 0 or rng.random() < 0.15:
        return rleaf(rng, d, kinds)
    op = rng.choice(['add', 'mul'])
    return (op, rtree(rng, d, depth - 1, kinds), rtree(rng, d, depth - 1, kinds))


def ser(t):
    if t[0] in ('add', 'mul'):
        return f'{t[0]} {ser(t[1])} {ser(t[2])}'
    if t[0] == 'seard':
        return f'seard L{len(t[1])} ' + ' '.join(enc(x) for x in t[1])
    return t[0] + ' ' + ' '.join(enc(x) for x in t[1])


def leaves(t):
    if t[0] in ('add', 'mul'):
        return leaves(t[1]) + leaves(t[2])
    return [t]


def kinds_of(t):
    return sorted(set(l[0] for l in leaves(t)))


def nparams(t):
    return sum(len(l[1]) for l in leaves(t))


def with_param(t, i, f):
    """copy of t with the i-th parameter (in parameters() order) replaced by f(old)"""
    def go(t, i):
        if t[0] in ('add', 'mul'):
            a, i = go(t[1], i)
            b, i = go(t[2], i)
            return (t[0], a, b), i
        ps = list(t[1])
        if 0 <= i < len(ps):
            ps[i] = f(ps[i])
        return (t[0], ps), i - len(t[1])
    return go(t, i)[0]


def param_owner(t, i):
    for l in leaves(t):
        if i < len(l[1]):
            return l[0], i
        i -= len(l[1])
    return None, None


def rpoints(rng, n, d, dup=True):
    scale = rng.choice([0.01, 0.1, 1.0, 1.0, 3.0, 10.0])
    X = [[rng.uniform(-1, 1) * scale for _ in range(d)] for _ in range(n)]
    if dup and n >= 2 and rng.random() < 0.7:
        # duplicated rows: distance EXACTLY 0 between two different rows (at least one pair i != j)
        for _ in range(rng.randint(1, max(1, n // 3))):
            i = rng.randrange(n)
            j = (i + 1 + rng.randrange(n - 1)) % n
            X[i] = list(X[j])
    return X


def shape_tree(rng, d, shape, kinds):
    """tree of a fixed shape: 'L' leaf, ('add'|'mul', s1, s2); the leaf kinds are consumed from `kinds` in order"""
    it = iter(kinds)

    def go(sh):
        if sh == 'L':
            return rleaf(rng, d, [next(it)])
        return (sh[0], go(sh[1]), go(sh[2]))
    return go(shape)


def binary_schedule(rng):
    """all (op, kindA, kindB): pairs with DIFFERENT parameter counts first (seard counts as 'different')"""
    cnt = {'const': 1, 'rbf': 1, 'white': 1, 'ess': 2, 'rq': 2, 'matern': 2, 'seard': 0}
    combos = [(op, a, b) for op in ('mul', 'add') for a in LEAVES for b in LEAVES]
    rng.shuffle(combos)
    combos.sort(key=lambda c: (cnt[c[1]] == cnt[c[2]], c[0] != 'mul'))
    return combos


def serX(X, d):
    return f'{len(X)} {d} ' + ' '.join(enc(v) for r in X for v in r) if X else f'0 {d}'


# ---------------------------------------------------------------------------------------------- running

def run(binpath, lines, env=None):
    p = subprocess.run([binpath], input='\n'.join(lines) + '\n', capture_output=True, text=True, env=env)
    out = p.stdout.split('\n')
    if len(out) < len(lines):
        out += ['DIED'] * (len(lines) - len(out))
    return out[:len(lines)]


def parse(ans):
    """answer -> nested python lists / scalars, or the raw string for PANIC / E:…"""
    if ans.startswith(('PANIC', 'E:', 'HANG', 'DIED', 'BAD', 'NOOP')):
        return ans
    toks = ans.split()
    pos = 0

    def item():
        nonlocal pos
        t = toks[pos]
        pos += 1
        if t[0] == 'L':
            return [item() for _ in range(int(t[1:]))]
        if t[0] == 'x':
            return dec(t)
        return int(t)
    out = []
    while pos < len(toks):
        out.append(item())
    return out


def close(a, b, rel, ab):
    if a != a or b != b:
        return (a != a) and (b != b)
    if a == b:
        return True
    if math.isinf(a) or math.isinf(b):
        return False
    return abs(a - b) <= ab + rel * max(abs(a), abs(b))


def cmp_struct(a, b, rel, ab, nonfinite_equal=False):
    """first difference between two parsed answers or None; `nonfinite_equal`: any two non-finite values agree"""
    if isinstance(a, str) or isinstance(b, str):
        return None if a == b else f'{a!r} vs {b!r}'
    if isinstance(a, list) != isinstance(b, list):
        return 'shape'
    if isinstance(a, list):
        if len(a) != len(b):
            return f'len {len(a)} vs {len(b)}'
        for i, (x, y) in enumerate(zip(a, b)):
            r = cmp_struct(x, y, rel, ab, nonfinite_equal)
            if r:
                return f'[{i}] {r}'
        return None
    if isinstance(a, int) and isinstance(b, int):
        return None if a == b else f'{a} vs {b}'
    if nonfinite_equal and not math.isfinite(float(a)) and not math.isfinite(float(b)):
        return None
    return None if close(float(a), float(b), rel, ab) else f'{a!r} vs {b!r}'


def min_eig(M):
    """smallest eigenvalue of the symmetrised matrix (cyclic Jacobi, pure python; n ≤ 20)"""
    n = len(M)
    if n == 0 or any(v != v or math.isinf(v) for r in M for v in r):
        return None
    A = [[(M[i][j] + M[j][i]) / 2 for j in range(n)] for i in range(n)]
    for _ in range(60):
        off = sum(A[i][j] ** 2 for i in range(n) for j in range(n) if i != j)
        tot = sum(A[i][i] ** 2 for i in range(n)) + off
        if off <= 1e-30 * max(tot, 1e-300):
            break
        for p in range(n - 1):
            for q in range(p + 1, n):
                if A[p][q] == 0.0:
                    continue
                th = (A[q][q] - A[p][p]) / (2 * A[p][q])
                t = (1.0 if th >= 0 else -1.0) / (abs(th) + math.sqrt(th * th + 1))
                c = 1 / math.sqrt(t * t + 1)
                sn = t * c
                for k in range(n):
                    akp, akq = A[k][p], A[k][q]
                    A[k][p], A[k][q] = c * akp - sn * akq, sn * akp + c * akq
                for k in range(n):
                    apk, aqk = A[p][k], A[q][k]
                    A[p][k], A[q][k] = c * apk - sn * aqk, sn * apk + c * aqk
    return min(A[i][i] for i in range(n))


def mat(flat, n, m):
    return [flat[i * m:(i + 1) * m] for i in range(n)]


def main():
    ap = argparse.ArgumentParser()
    ap.add_argument('--harness', default='/verif/harness/target/release/rvharness')
    ap.add_argument('--driver', default='/verif/lean/.lake/build/bin/rvdrv')
    ap.add_argument('--n', type=int, default=1500)
    ap.add_argument('--seed', type=int, default=1)
    ap.add_argument('--json')
    ap.add_argument('--matern-nu-max', type=float, default=1e3)
    a = ap.parse_args()
    rng = random.Random(a.seed)

    # ---------------------------------------------------------------------------------- cases
    # a fixed rotation, so that ANY n ≥ 8 contains every kind of case:
    #   0: one leaf alone (kinds in rotation)            1: op(leaf, leaf), all (op, kind, kind) combinations in rotation,
    #   2: depth-2 shapes (A∘B)∘C, A∘(B∘C), (A∘B)∘(C∘D)     unequal parameter counts first
    #   3: random tree of depth ≤ 3
    combos = binary_schedule(rng)
    shapes2 = [lambda o1, o2, o3: (o1, (o2, 'L', 'L'), 'L'), lambda o1, o2, o3: (o1, 'L', (o2, 'L', 'L')),
               lambda o1, o2, o3: (o1, (o2, 'L', 'L'), (o3, 'L', 'L'))]
    cases = []
    for c in range(a.n):
        d = rng.randint(1, 4)
        n = rng.randint(1, 20)
        if n == 1 and rng.random() < 0.7:
            n = rng.randint(2, 6)
        m = rng.randint(1, 20)
        mode, q = c % 4, c // 4
        if mode == 0:
            t = rleaf(rng, d, [LEAVES[q % 7]], (1e-3, a.matern_nu_max))
        elif mode == 1:
            op, ka, kb = combos[q % len(combos)]
            t = (op, rleaf(rng, d, [ka]), rleaf(rng, d, [kb]))
        elif mode == 2:
            sh = shapes2[q % 3](rng.choice(['add', 'mul']), rng.choice(['add', 'mul']), rng.choice(['add', 'mul']))
            # products first: the outer operator of every other case is a product
            if q % 2 == 0:
                sh = ('mul',) + sh[1:]
            t = shape_tree(rng, d, sh, [rng.choice(LEAVES) for _ in range(4)])
        else:
            r = rng.random()
            t = rtree(rng, d, 1 if r < 0.3 else (2 if r < 0.85 else 3))
        X = rpoints(rng, n, d)
        Y = rpoints(rng, m, d)
        if rng.random() < 0.3 and n >= 1:   # share points between X and X'
            for _ in range(rng.randint(1, 3)):
                Y[rng.randrange(m)] = list(X[rng.randrange(n)])
        cases.append((t, d, X, Y))

    lines = []       # (case index, tag, line)
    for ci, (t, d, X, Y) in enumerate(cases):
        T = ser(t)
        p = nparams(t)
        theta = [rng.uniform(math.log(1e-3), math.log(1e3)) for _ in range(p + 3)]
        lines.append((ci, 'cov', f'kernel.cov - {T} {serX(X, d)} {serX(Y, d)}'))
        lines.append((ci, 'covXX', f'kernel.cov - {T} {serX(X, d)} {serX(X, d)}'))
        lines.append((ci, 'diag', f'kernel.diag - {T} {serX(X, d)}'))
        lines.append((ci, 'cwg', f'kernel.cov_with_grad - {T} {serX(X, d)}'))
        lines.append((ci, 'params', f'kernel.parameters - {T}'))
        lines.append((ci, 'npar', f'kernel.n_parameters - {T}'))
        lines.append((ci, 'roundtrip', f'kernel.roundtrip - {T} {serX(X, d)}'))
        for tag, k in (('rep_eq', p), ('rep_less', max(p - 1, 0)), ('rep_less2', max(p - 2, 0)), ('rep_more', p + 1),
                       ('rep_more2', p + 3), ('rep_zero', 0)):
            lines.append((ci, tag, f'kernel.reparameterize - {T} L{k} ' + ' '.join(enc(v) for v in theta[:k])))
        for tag, k in (('con_eq', p), ('con_less', max(p - 1, 0)), ('con_more', p + 2)):
            lines.append((ci, tag, f'kernel.consume_parameters - {T} L{k} ' + ' '.join(enc(v) for v in theta[:k])))
    raw = [l[2] for l in lines]
    line_of = {(ci, tag): line for ci, tag, line in lines}
    impl = run(a.harness, raw)
    model = run(a.driver, raw)

    # ---------------------------------------------------------------------------------- model vs implementation
    mism = []
    stats = collections.Counter()
    per_case = collections.defaultdict(dict)
    for (ci, tag, line), ia, ma in zip(lines, impl, model):
        t = cases[ci][0]
        pi, pm = parse(ia), parse(ma)
        per_case[ci][tag] = pi
        stats['lines'] += 1
        if isinstance(pi, str):
            stats['impl:' + pi.split()[0]] += 1
        if tag == 'cwg' and not isinstance(pi, str) and not isinstance(pm, str):
            flat = [abs(v) for v in pi[0] if v == v and not math.isinf(v)] + [abs(v) for sl in pi[1] for v in sl if v == v and not math.isinf(v)]
            scale = max(flat + [1.0])
            r = cmp_struct(pi[0], pm[0], 1e-10, 1e-300)
            if not r:
                if 'matern' in kinds_of(t):
                    # the Matérn gradient is a forward difference with step 1e-10 of values of size ≤ 1: one ulp of the
                    # covariance (fused multiply-add in Rust vs separate operations in Lean) moves it by ~2e-6; the Temme
                    # series near integer orders differs by up to ~50 ulp between the two (observed), i.e. ~1e-4
                    # (a noise entry of either sign times an overflowed factor gives ±inf / NaN: any two non-finite agree)
                    r = cmp_struct(pi[1], pm[1], 1e-10, 5e-3 * scale, nonfinite_equal=True)
                elif 'rq' in kinds_of(t):
                    # rational_quadratic.rs:129-132 `base.ln().mul_add(-mixture, d2/(2 s² base))` cancels; the fused
                    # rounding differs from the model's `a*b+c` by ≤ ulp(mixture·ln base)
                    amax = max(l[1][1] for l in leaves(t) if l[0] == 'rq')
                    r = cmp_struct(pi[1], pm[1], 1e-10, 1e-14 * max(amax, 1.0) * scale)
                else:
                    r = cmp_struct(pi[1], pm[1], 1e-10, 1e-300)
        else:
            r = cmp_struct(pi, pm, 1e-10, 1e-300)
        if r:
            mism.append({'tag': tag, 'kinds': kinds_of(t), 'line': line, 'impl': ia, 'model': ma, 'diff': r})
    print(f'# lines {stats["lines"]}  cases {len(cases)}  model≠impl {len(mism)}')
    print('# implementation outcomes:', {k: v for k, v in stats.items() if k.startswith('impl:')})
    bykind = collections.Counter((m['tag'], tuple(m['kinds'])) for m in mism)
    for k, v in sorted(bykind.items(), key=lambda kv: -kv[1])[:30]:
        print('  mismatch', k, v)
    for m in sorted(mism, key=lambda m: len(m['line']))[:8]:
        print('  e.g.', m['tag'], m['diff'], '\n     ', m['line'][:240], '\n      impl ', m['impl'][:160], '\n      model', m['model'][:160])

    # ---------------------------------------------------------------------------------- implementation self-consistency
    # central differences of covariance(X, X) in every log-parameter
    H = 1e-5
    H2 = 2e-6
    fd_lines = []
    for ci, (t, d, X, Y) in enumerate(cases):
        for i in range(nparams(t)):
            for sgn, h in ((+1, H), (-1, H), (+2, H2), (-2, H2)):
                t2 = with_param(t, i, lambda v: math.exp(math.log(v) + (1 if sgn > 0 else -1) * h))
                fd_lines.append((ci, i, sgn, f'kernel.cov - {ser(t2)} {serX(X, d)} {serX(X, d)}'))
    fd_out = run(a.harness, [l[3] for l in fd_lines])
    fd = collections.defaultdict(dict)
    for (ci, i, sgn, _), o in zip(fd_lines, fd_out):
        fd[ci][(i, sgn)] = parse(o)

    # textbook closed forms of the Matérn covariance (Spec, evaluated by the driver) for leaves with ν ∈ {1/2, 3/2, 5/2}
    cf_lines = []
    for ci, (t, d, X, Y) in enumerate(cases):
        if t[0] == 'matern' and t[1][0] in HALF_INT_NU:
            cf_lines.append((ci, f'spec.kernel.matern_closed - {HALF_INT_NU.index(t[1][0])} {enc(t[1][1])} {serX(X, d)} {serX(Y, d)}'))
    cf_out = run(a.driver, [l[1] for l in cf_lines]) if cf_lines else []
    closed = {ci: (l, parse(o)) for (ci, l), o in zip(cf_lines, cf_out)}

    defects = collections.defaultdict(list)     # (check, leaf kind, level) -> [(op line, note)]

    def note(check, kinds, single, line, why=''):
        for k in kinds:
            defects[(check, k, 'leaf' if single else 'tree')].append((line, why))

    for ci, (t, d, X, Y) in enumerate(cases):
        n = len(X)
        pc = per_case[ci]
        ks = kinds_of(t)
        single = t[0] not in ('add', 'mul')
        cxx, dg, cwg = pc['covXX'], pc['diag'], pc['cwg']
        L = lambda tag: line_of[(ci, tag)]
        # Matérn, half-integer order: covariance(X, X') against the textbook closed form
        if ci in closed and not isinstance(pc['cov'], str) and not isinstance(closed[ci][1], str):
            got, want = pc['cov'][0], closed[ci][1][0]
            badq = [q for q in range(len(want)) if not close(got[q], want[q], 1e-8, 1e-290)]
            if badq:
                q = badq[0]
                note('covariance ≠ Matérn closed form (ν = 1/2, 3/2, 5/2)', ks, single, L('cov'),
                     f'ν = {t[1][0]}: entry ({q // len(Y)},{q % len(Y)}) = {got[q]!r}, closed form {want[q]!r}')
        # reparameterize(parameters()) must rebuild the same kernel: same parameters, same covariance
        rt = pc['roundtrip']
        if isinstance(rt, str):
            if not (isinstance(cxx, str) and cxx == rt == 'PANIC'):
                note('reparameterize(parameters()) does not round-trip', ks, single, L('roundtrip'), f'answer {rt}')
        elif not isinstance(pc['params'], str):
            ps = pc['params'][0]
            if len(rt[0]) != len(ps) or any(not close(u, v, 1e-12, 1e-12) for u, v in zip(rt[0], ps)):
                note('reparameterize(parameters()) does not round-trip', ks, single, L('roundtrip'),
                     f'parameters {ps!r} became {rt[0]!r}')
            elif not isinstance(cxx, str):
                amp = max([1.0] + [max(l[1]) for l in leaves(t) if l[0] in ('rq', 'matern')])
                badq = [q for q in range(n * n) if not close(rt[1][q], cxx[0][q], 1e-9 * amp, 1e-290)
                        and (math.isfinite(rt[1][q]) or math.isfinite(cxx[0][q]))]
                if badq:
                    q = badq[0]
                    note('reparameterize(parameters()) does not round-trip', ks, single, L('roundtrip'),
                         f'covariance entry ({q // n},{q % n}) {cxx[0][q]!r} became {rt[1][q]!r}')
        if isinstance(cxx, str):
            note('covariance(X,X) ' + cxx, ks, single, L('covXX'))
            continue
        C = mat(cxx[0], n, n)
        if any(not math.isfinite(v) for v in cxx[0]):
            q = next(q for q in range(n * n) if not math.isfinite(cxx[0][q]))
            note('covariance(X,X) not finite', ks, single, L('covXX'), f'entry ({q // n},{q % n}) = {cxx[0][q]!r}')
        # symmetry
        if any(not close(C[i][j], C[j][i], 1e-12, 0) for i in range(n) for j in range(n)):
            note('covariance(X,X) not symmetric', ks, single, L('covXX'))
        # smallest eigenvalue
        me = min_eig(C)
        if me is not None:
            scale = max(1.0, max(abs(v) for v in cxx[0]))
            if me < -1e-8 * scale * n:
                note('covariance(X,X) not PSD', ks, single, L('covXX'), f'min eig {me:.3e}')
        # diag
        if isinstance(dg, str):
            note('diag ' + dg, ks, single, L('diag'))
        else:
            dv = dg[0]
            if len(dv) != n:
                note('diag length ≠ nrows', ks, single, L('diag'), f'len {len(dv)} for {n}x{d}')
            if any(not close(dv[i], C[i][i], 1e-9, 1e-300) for i in range(min(n, len(dv)))):
                i = next(i for i in range(min(n, len(dv))) if not close(dv[i], C[i][i], 1e-9, 1e-300))
                note('diag value ≠ covariance(X,X)[i][i]', ks, single, L('diag'), f'diag[{i}]={dv[i]!r} cov[{i}][{i}]={C[i][i]!r}')
        # covariance_with_gradient
        if isinstance(cwg, str):
            note('covariance_with_gradient ' + cwg, ks, single, L('cwg'))
            continue
        G0, slices = cwg[0], cwg[1]
        bad = [q for q in range(n * n) if not close(G0[q], cxx[0][q], 1e-9, 1e-300)]
        if bad:
            q = bad[0]
            note('cov of covariance_with_gradient ≠ covariance(X,X)', ks, single, L('cwg'),
                 f'entry ({q // n},{q % n}): {G0[q]!r} vs {cxx[0][q]!r}')
        # Matérn: the recorded autocov defect only concerns the UPPER triangle of coincident points; on and below the
        # diagonal the two code paths are the same formula and must agree
        if single and t[0] == 'matern':
            badl = [q for q in bad if q % n <= q // n and (math.isfinite(G0[q]) or math.isfinite(cxx[0][q]))]
            if badl:
                q = badl[0]
                note('cov of covariance_with_gradient ≠ covariance(X,X) on/below the diagonal', ks, single, L('cwg'),
                     f'entry ({q // n},{q % n}): {G0[q]!r} vs covariance {cxx[0][q]!r}')
        GM = mat(G0, n, n)
        if any(not close(GM[i][j], GM[j][i], 1e-12, 0) for i in range(n) for j in range(n)):
            i, j = next((i, j) for i in range(n) for j in range(n) if not close(GM[i][j], GM[j][i], 1e-12, 0))
            note('cov of covariance_with_gradient not symmetric', ks, single, L('cwg'),
                 f'entry ({i},{j})={GM[i][j]!r} ({j},{i})={GM[j][i]!r}')
        if len(slices) != nparams(t):
            note('number of gradient slices ≠ n_parameters', ks, single, L('cwg'))
        cov_finite = all(math.isfinite(v) for v in G0)
        for i, sl in enumerate(slices):
            owner, oi = param_owner(t, i)
            # a non-finite gradient entry next to a finite covariance (e.g. 0/0 at coincident points)
            if cov_finite and owner != 'matern' and 'matern' not in ks:
                nf = [q for q in range(n * n) if not math.isfinite(sl[q])]
                if nf:
                    q = nf[0]
                    defects[('gradient entry not finite', owner, 'leaf' if single else 'tree')].append(
                        (L('cwg'), f'param {i} ({owner}[{oi}]) entry ({q // n},{q % n}) = {sl[q]!r}, rows {q // n} and {q % n} '
                                   f'{"coincide" if X[q // n] == X[q % n] else "differ"}'))
            up, dn = fd[ci].get((i, +1)), fd[ci].get((i, -1))
            up2, dn2 = fd[ci].get((i, +2)), fd[ci].get((i, -2))
            if any(v is None or isinstance(v, str) for v in (up, dn, up2, dn2)):
                continue
            num = [(u - v) / (2 * H) for u, v in zip(up[0], dn[0])]
            num2 = [(u - v) / (2 * H2) for u, v in zip(up2[0], dn2[0])]
            cs = max([abs(v) for v in cxx[0] if v == v] + [1e-300])
            # pow / Bessel amplify the rounding error of the covariance by the size of the exponent / order
            amp = max([1.0] + [max(l[1]) / 10 for l in leaves(t) if l[0] in ('rq', 'matern')])
            badq = []
            for q in range(n * n):
                g, f1, f2 = sl[q], num[q], num2[q]
                if g != g or f1 != f1 or f2 != f2:
                    if (g != g) != (f2 != f2):
                        badq.append(q)
                    continue
                err = abs(g - f2)
                # rounding noise of the difference quotient ~ 1e-16·|cov|/H2; truncation error estimated by |f1 - f2|
                # ... and the quotient is meaningful only where the covariance is locally linear over the step (second
                # difference small against the first): ESS with ℓ ≪ 1 oscillates faster than any usable step
                lin = abs(up2[0][q] + dn2[0][q] - 2 * cxx[0][q]) <= 0.25 * abs(up2[0][q] - dn2[0][q]) + 1e-12 * cs
                if err > 1e-4 * max(abs(g), abs(f2)) + 2e-9 * cs * amp and abs(f1 - f2) < 0.05 * err and lin:
                    badq.append(q)
            if badq:
                q = max(badq, key=lambda q: abs(sl[q] - num2[q]) if sl[q] == sl[q] and num2[q] == num2[q] else float('inf'))
                defects[('gradient ≠ d covariance / d log-parameter', owner, 'leaf' if single else 'tree')].append(
                    (L('cwg'), f'param {i} ({owner}[{oi}]) entry ({q // n},{q % n}): gradient {sl[q]!r} vs central difference {num2[q]!r}'))

    # reparameterize: reported counts
    for ci, (t, d, X, Y) in enumerate(cases):
        pc = per_case[ci]
        ks = kinds_of(t)
        single = t[0] not in ('add', 'mul')
        p = nparams(t)
        last = leaves(t)[-1][0]
        exp = {'rep_more': f'E:ExtraneousParameters 1', 'rep_more2': 'E:ExtraneousParameters 3'}
        if p >= 1:
            exp['rep_less'] = 'E:MissingParameters 1'
            exp['rep_zero'] = f'E:MissingParameters {p}'
        if p >= 2:
            exp['rep_less2'] = 'E:MissingParameters 2'
        for tag, want in exp.items():
            got = pc[tag]
            if got != want:
                who = [last] if tag.startswith('rep_more') else ks
                note(f'reparameterize {tag}: wrong report', who, single, line_of[(ci, tag)], f'got {got!r} expected {want!r}')

    print('\n# implementation self-consistency (check, leaf kind, leaf-alone/in-tree): count')
    for k in sorted(defects):
        print(f'  {k}: {len(defects[k])}')
    print()
    findings = []
    for k in sorted(defects):
        if k[2] == 'leaf':
            ws = sorted(defects[k], key=lambda w: len(w[0]))
            print(f'  {k[0]} [{k[1]}] x{len(ws)}\n     {ws[0][1]}: {ws[0][0][:900]}')
            findings.append({'check': k[0], 'kind': k[1], 'level': 'leaf', 'count': len(ws), 'line': ws[0][0], 'note': ws[0][1]})
    # trees: the model-vs-implementation correspondence is what covers them; the self-consistency failures of a tree
    # are reported only when none of its leaves belongs to a family DOCUMENTED (props/C16_notes.md D1-D11) to fail a
    # related check alone — what remains points at the combinators
    doc_bad = {
        'diag': {'ess', 'rq', 'white'}, 'cwg': {'seard', 'white', 'matern'}, 'extra': {'ess', 'rq'},
        'panic': {'matern', 'seard'}, 'finite': {'matern'}, 'psd': {'ess', 'matern'}, 'round': {'matern', 'seard'}, 'none': set()}
    group_of = {'diag PANIC': 'diag', 'diag length ≠ nrows': 'diag', 'diag value ≠ covariance(X,X)[i][i]': 'diag',
                'cov of covariance_with_gradient not symmetric': 'cwg', 'cov of covariance_with_gradient ≠ covariance(X,X)': 'cwg',
                'gradient ≠ d covariance / d log-parameter': 'cwg', 'covariance_with_gradient PANIC': 'cwg+panic',
                'reparameterize rep_more: wrong report': 'extra', 'reparameterize rep_more2: wrong report': 'extra',
                'covariance(X,X) PANIC': 'panic', 'covariance(X,X) not finite': 'finite',
                'covariance(X,X) not PSD': 'psd+finite', 'covariance(X,X) not symmetric': 'psd',
                'gradient entry not finite': 'finite',
                'reparameterize(parameters()) does not round-trip': 'round'}
    print('\n# failures on trees none of whose leaves is documented to fail a related check alone (combinator suspects):')
    comb = collections.defaultdict(list)
    for k in sorted(defects):
        if k[2] == 'tree':
            bad = set()
            for g in group_of.get(k[0], 'none').split('+'):
                bad |= doc_bad[g]
            for w in sorted(set(defects[k]), key=lambda w: len(w[0])):
                if not (set(w[0].split()) & bad) and w not in comb[k[0]]:
                    comb[k[0]].append(w)
    combinator = []
    for check, ws in sorted(comb.items()):
        for w in ws[:3]:
            print(f'  {check}: {w[1]}: {w[0][:700]}')
        combinator.append({'check': check, 'count': len(ws), 'line': ws[0][0], 'note': ws[0][1]})
    print('  counts:', {c['check']: c['count'] for c in combinator})
    if a.json:
        json.dump({'version': 2, 'mismatches': sorted(mism, key=lambda m: len(m['line']))[:50], 'findings': findings,
                   'combinator': combinator, 'stats': dict(stats), 'cases': len(cases),
                   # version-1 key, kept for older readers
                   'defects': {' | '.join(k): [f'{w[1]}: {w[0]}' for w in v[:3]] for k, v in defects.items()}},
                  open(a.json, 'w'), indent=1)
    return 0


if __name__ == '__main__':
    sys.exit(main())
