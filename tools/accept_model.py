#!/usr/bin/env python3
"""tools/accept_model.py — record the model regenerated from the CURRENT /repo tree as the accepted baseline
(lean/RvModel/Gen/baseline.json).  Run by hand after a deliberate change of /repo (a `fix:` commit), never by a check.
  * per-definition hashes of the generated Lean text, hashes of the extracted facts / tables (rs2lean.py --accept);
  * f32_exact: the definitions with an f32 observation kind whose real implementation agrees with the binary64 model
    evaluated at the exactly widened argument to 1e-11 (they widen first and compute in f64).  The correspondence
    sweep holds these to 1e-9 instead of f32 accuracy, so arithmetic moved into f32 shows up."""
import sys, json, os, collections
ROOT = os.path.dirname(os.path.dirname(os.path.abspath(__file__)))
sys.path.insert(0, ROOT)
from checklib import core, sweep as sw

p = core.sh([sys.executable, os.path.join(ROOT, 'rs2lean', 'rs2lean.py'), '--accept'])
print(p.stdout[-200:], p.stderr[-500:])
okh, herr, _ = core.build_harness()
okd, derr = core.build_driver()
assert okh and okd, (herr[-500:], derr[-500:])
man = json.load(open(os.path.join(core.GEN, 'manifest.json')))
names = [n for n, d in man['defs'].items() if 'f32' in (d.get('kinds_all') or [])]
orig = sw.kinds_of
sw.kinds_of = lambda d: [k for k in orig(d) if k == 'f32']
sw.tolerance = lambda lean, d, kind: (1e-11, 1e-300)
sw.f32_overflow = lambda a, b: False
sw.F32_EXACT = set()
tot, bad = collections.Counter(), collections.Counter()
for seed in (123, 7, 2026):
    r = sw.sweep(man, names, 60, seed)
    for d in r['disagreements']:
        bad[d['op']] += 1
    for k, v in r['per_op'].items():
        tot[k.split('[')[0]] += v[0] - v[2]
exact = sorted(n for n in tot if tot[n] >= 30 and bad[n] == 0)
path = os.path.join(core.GEN, 'baseline.json')
b = json.load(open(path))
b['f32_exact'] = exact
json.dump(b, open(path, 'w'), indent=0, sort_keys=True)
print('f32-exact definitions:', len(exact), 'of', len(tot))
