#!/bin/bash
# tools/seed_matrix.sh   run every seeded change against the checks designated in seeded/CATCH.json (quick tier);
# writes seeded/RESULTS.txt: "<seed> <prop> rc=<rc> <n> violations (<m> with a concrete failing input)"
cd /verif
out=seeded/RESULTS.txt; : > $out
python3 - <<'PY' > /tmp/seedmatrix.list
import json
for s, ps in sorted(json.load(open('/verif/seeded/CATCH.json')).items()):
    print(s, ' '.join(ps))
PY
while read -r s ps; do
  [ -n "$(git -C /repo status --porcelain)" ] && { echo "/repo not clean" >> $out; exit 2; }
  git -C /repo apply /verif/seeded/$s/patch.diff || { echo "$s does-not-apply" >> $out; continue; }
  for p in $ps; do
    ./check $p --tier quick > /tmp/seedmatrix.log 2>&1; rc=$?
    n=$(grep -c '^VIOLATION' /tmp/seedmatrix.log); m=$(grep '^VIOLATION' /tmp/seedmatrix.log | grep -vc 'no-failing-input-found')
    echo "$s $p rc=$rc $n violations ($m with a concrete failing input)" >> $out
  done
  git -C /repo checkout -- . ; git -C /repo clean -fdq
done < /tmp/seedmatrix.list
# unchanged tree, three seeds, every property
for sd in 1 2 3; do for i in $(seq -w 1 20); do
  VERIF_SEED=$sd ./check C$i --tier quick > /tmp/seedmatrix.log 2>&1; rc=$?
  echo "UNCHANGED seed=$sd C$i rc=$rc $(grep -c '^VIOLATION' /tmp/seedmatrix.log) violations" >> $out
done; done
echo DONE >> $out
