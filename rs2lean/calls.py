#!/usr/bin/env python3
"""Calls, method calls and iterator chains — mixed into FnTr."""
from rsparse import Unsupported
from registry import kind_class, BITS, NAT_KINDS, INT_KINDS, REAL_KINDS
from emit import UNARY, PRED, BINARY, CONSTS, PRIM_FREE, BESSEL, lname, ty_str
from translate import FnTr, NUMERIC, is_list, is_opt, is_struct, is_tup, pat_names

ITER_ID = {'iter', 'into_iter', 'cloned', 'copied', 'iter_mut', 'to_vec', 'clone', 'to_owned', 'as_slice', 'borrow',
           'by_ref', 'peekable', 'as_ref'}


def _seq_patch(orig):
    def seq(self, stmts, final, want, is_fn_body):
        if not stmts and final is not None and final[0] == '__state__':
            return self.state_tuple(final[1]), 'state'
        return orig(self, stmts, final, want, is_fn_body)
    return seq


FnTr.seq = _seq_patch(FnTr.seq)


def call_args(self, args, ptys):
    out = []
    if len(args) != len(ptys):
        raise Unsupported(f'arity {len(args)} vs {len(ptys)}')
    for a, pt in zip(args, ptys):
        if a[0] == 'closure':
            raise Unsupported('closure argument to translated fn')
        s, t = self.expr_top(a, pt)
        if t in NUMERIC and pt in NUMERIC and t != pt:
            s, t = self.convert(s, t, pt)
        out.append(s)
    return out


def closure(self, clos, argtys):
    """translate a closure to a Lean lambda; returns (term, result type)"""
    c = self.c
    if clos[0] == 'path':
        # function name used as closure, e.g. .map(f64::ln)
        p = clos[1]
        if p[-1] in UNARY and p[0] in ('f64', 'f32'):
            return f'(fun x => {UNARY[p[-1]]} x)', 'real'
        if len(p) == 1 and p[0] in c.env:
            raise Unsupported('closure variable')
        raise Unsupported(f'function path as closure {p}')
    if clos[0] != 'closure':
        raise Unsupported('expected closure')
    params = clos[1]
    if len(params) != len(argtys):
        if len(params) == 1 and len(argtys) > 1:
            argtys = [('tup', tuple(argtys))]
        else:
            raise Unsupported(f'closure arity {len(params)} vs {len(argtys)}')
    saved = dict(c.env)
    # a closure that assigns to a captured variable (FnMut state, e.g. `.map(|&x| { s -= x; (s, x) })`) is not a function
    # of its argument: a lambda would silently drop the state, so refuse it
    assigned, local = set(), set()

    def _root(t):
        while isinstance(t, tuple) and t and t[0] in ('field', 'index', 'deref', 'paren', 'ref'):
            t = t[1]
        return t[1][0] if isinstance(t, tuple) and t and t[0] == 'path' and len(t[1]) == 1 else None

    def _pvars(pt):
        if isinstance(pt, tuple):
            if pt and pt[0] == 'pvar':
                local.add(pt[1])
            for x in pt:
                _pvars(x)
        elif isinstance(pt, list):
            for x in pt:
                _pvars(x)

    def _scan(n):
        if isinstance(n, list):
            for x in n:
                _scan(x)
        elif isinstance(n, tuple) and n:
            if n[0] == 'assign':
                r_ = _root(n[2])
                if r_:
                    assigned.add(r_)
            if n[0] in ('let', 'closure', 'for', 'iflet', 'match'):
                _pvars(n[1])
            for x in n[1:]:
                _scan(x)
    for p_ in params:
        _pvars(p_)
    _scan(clos[2])
    captured = sorted(a for a in assigned if a not in local)
    if captured:
        raise Unsupported(f'closure mutates captured variable {captured[0]}')
    try:
        binders = [self.bind_pattern(p, t) for p, t in zip(params, argtys)]
        body, bt = self.block_value(clos[2]) if clos[2][0] == 'block' else self.expr_top(clos[2])
    finally:
        c.env = saved
    return f'(fun {" ".join(binders)} => {body})', bt


def iter_expr(self, e):
    """translate an iterator-valued / collection-valued expression to a Lean List; returns (term, ('list', elem))"""
    c = self.c
    if e[0] in ('paren', 'ref', 'deref'):
        return self.iter_expr(e[1])
    if e[0] == 'range':
        return self.expr(e)
    if e[0] == 'mcall':
        recv, name, args = e[1], e[2], e[3]
        if name in ITER_ID and not args:
            return self.iter_expr(recv)
        if name == 'map' and len(args) == 1:
            lst, tl = self.iter_expr(recv)
            f, rt = self.closure(args[0], [tl[1]])
            return f'(List.map {f} {lst})', ('list', rt)
        if name == 'zip' and len(args) == 1:
            a, ta = self.iter_expr(recv)
            b, tb = self.iter_expr(args[0])
            return f'(List.zip {a} {b})', ('list', ('tup', (ta[1], tb[1])))
        if name == 'enumerate':
            a, ta = self.iter_expr(recv)
            return f'(enumL {a})', ('list', ('tup', ('nat', ta[1])))
        if name == 'rev':
            a, ta = self.iter_expr(recv)
            return f'(List.reverse {a})', ta
        if name == 'skip':
            a, ta = self.iter_expr(recv)
            n, _ = self.expr(args[0])
            return f'(List.drop {n} {a})', ta
        if name == 'take':
            a, ta = self.iter_expr(recv)
            n, _ = self.expr(args[0])
            return f'(List.take {n} {a})', ta
        if name == 'filter':
            a, ta = self.iter_expr(recv)
            f, rt = self.closure(args[0], [ta[1]])
            return f'(List.filter {f} {a})', ta
        if name == 'chain':
            a, ta = self.iter_expr(recv)
            b, tb = self.iter_expr(args[0])
            return f'({a} ++ {b})', ta
        if name == 'collect':
            return self.iter_expr(recv)
        if name == 'scan' and len(args) == 2:
            # .scan(init, |acc, x| { *acc += f(x); Some(*acc) })  — running fold
            a, ta = self.iter_expr(recv)
            init, ti = self.expr(args[0], 'real')
            clos = args[1]
            if clos[0] != 'closure' or len(clos[1]) != 2:
                raise Unsupported('scan closure shape')
            accn = pat_names(clos[1][0])[0]
            saved = dict(c.env)
            try:
                c.env[accn] = ti
                xb = self.bind_pattern(clos[1][1], ta[1])
                body = clos[2]
                if body[0] != 'block' or body[2] is None:
                    raise Unsupported('scan body shape')
                fin = body[2]
                if not (fin[0] == 'call' and fin[1] == ('path', ['Some'])):
                    raise Unsupported('scan body must end in Some(..)')
                stm = list(body[1])
                st, _ = self.seq(stm, fin[2][0], None, False)
            finally:
                c.env = saved
            # st computes the emitted value with acc rebound; emitted value is assumed to be the new acc
            return f'(scanL (fun {lname(accn)} {xb} => {st}) {init} {a})', ('list', ti)
    s, t = self.expr_top(e)
    if is_list(t):
        return s, t
    raise Unsupported(f'not iterable: {e[0]} : {t}')


def call(self, e, want=None):
    c = self.c
    f = e[1]
    args = e[2]
    if f[0] != 'path':
        raise Unsupported('call of non-path')
    p = f[1]
    name = p[-1]
    if name == 'from' and p[0] in ('f64', 'f32'):
        s, t = self.expr_top(args[0])
        return self.convert(s, t, 'real')
    if name == 'from' and p[0] in BITS:
        s, t = self.expr_top(args[0])
        return self.convert(s, t, 'nat' if p[0] in NAT_KINDS else 'int')
    if name == 'from' and p[0] == 'OnceLock':
        raise Unsupported('OnceLock::from in value position')
    if len(p) == 1 and name in PRIM_FREE:
        ln, argtys, ret = PRIM_FREE[name]
        xs = self.call_args(args, argtys)
        return f'({ln} {" ".join(xs)})', ret
    if p[0] in ('f64', 'f32') and name in UNARY and len(args) == 1:
        s, t = self.expr_top(args[0], 'real')
        s, t = self.convert(s, t, 'real')
        return f'({UNARY[name]} {s})', 'real'
    if p[0] in ('f64', 'f32') and name in BINARY and len(args) == 2:
        a, ta = self.expr_top(args[0], 'real')
        b, tb = self.expr_top(args[1], 'real')
        return f'({BINARY[name]} {a} {b})', 'real'
    if len(p) >= 2 and p[-2] == 'bessel' and name in BESSEL:
        s, t = self.expr_top(args[0], 'real')
        return f'({BESSEL[name][0]} {s})', 'real'
    if name == 'bessel_iv':
        v, _ = self.expr_top(args[0], 'real')
        z, _ = self.expr_top(args[1], 'real')
        self.tr.cur_notes.append('bessel_iv Result modelled as value')
        return f'(Except.ok (RealLike.bessIv {v} {z}) : Except (Err α) α)', ('except', 'real')
    if len(p) == 2 and p[0] == 'DataOrSuffStat' and name in ('SuffStat', 'Data'):
        s, t = self.expr_top(args[0])
        if name == 'SuffStat':
            xt = want[1] if isinstance(want, tuple) and want[0] == 'dos' else c.generic_map.get('X', 'unknown')
            return f'(DataOrSuffStat.suffStat {s})', ('dos', xt, t, None)
        return f'(DataOrSuffStat.data {s})', ('dos', t[1], (want[2] if isinstance(want, tuple) and want[0] == 'dos' else 'unknown'), None)
    if name == 'Some' and len(p) == 1:
        s, t = self.expr_top(args[0], want[1] if is_opt(want) else None)
        if is_opt(want) and want[1] in NUMERIC and t in NUMERIC:
            s, t = self.convert(s, t, want[1])
        return f'(some {s})', ('opt', t)
    if name == 'Ok' and len(p) == 1:
        a = args[0]
        if a == ('tuple', []) and c.mutself:
            return f'(Except.ok self)', ('except', ('struct', c.owner))
        s, t = self.expr_top(a, want[1] if isinstance(want, tuple) and want[0] == 'except' else None)
        return f'(Except.ok {s})', ('except', t)
    if name == 'Err' and len(p) == 1:
        return self.err_value(args[0]), ('except', 'unknown')
    if name == 'new' and p[0] in ('OnceLock', 'Vec') and not args:
        if p[0] == 'Vec':
            return '[]', ('list', want[1] if is_list(want) else 'unknown')
        raise Unsupported('OnceLock::new in value position')
    if name == 'with_capacity' and p[0] == 'Vec':
        return '[]', ('list', want[1] if is_list(want) else 'unknown')
    if len(p) == 3 and p[0] == 'Self':
        at = self.tr.assoc_type(c.owner, p[1], c)
        if is_struct(at):
            p = [at[1], p[2]]
    if len(p) == 2 and p[0] in c.generic_map and c.generic_map[p[0]] in NUMERIC and p[1] in ('zero', 'one', 'default') and not args:
        g = c.generic_map[p[0]]
        v = '1' if p[1] == 'one' else '0'
        return {'real': f'({v}.0 : α)', 'nat': f'({v} : Nat)', 'int': f'({v} : Int)'}[g], g
    if len(p) == 2 and p[0] in c.generic_map and c.generic_map[p[0]] in NUMERIC and p[1] == 'from' and len(args) == 1:
        s, t = self.expr_top(args[0])
        return self.convert(s, t, c.generic_map[p[0]])
    if len(p) == 2 and p[0] in c.generic_map and c.generic_map[p[0]] in NUMERIC and p[1] == 'from_f64' and len(args) == 1:
        s, t = self.expr_top(args[0], 'real')
        s2, t2 = self.convert(s, t, c.generic_map[p[0]])
        return f'(some {s2})', ('opt', t2)
    if len(p) == 2 and p[0] in c.generic_map and p[1] == 'from_bool':
        s, t = self.expr_top(args[0])
        g = c.generic_map[p[0]]
        return self.convert(s, t, g) if g != 'bool' else (s, 'bool')
    # Struct::method(args) / Self::method(args)
    if len(p) == 2:
        owner = c.owner if p[0] == 'Self' else p[0]
        if owner in self.tr.reg.structs:
            lean, ptys, rty = self.tr.request(owner, name, c.kind)
            fi = self.tr.resolve_method(owner, name, c.kind)
            has_self = bool(fi.fn[2]) and fi.fn[2][0][0] == 'self'
            if has_self:
                recv, tr_ = self.expr_top(args[0])
                xs = self.call_args(args[1:], ptys)
                if self.tr.defs[lean].get('kbits'):
                    xs = [self.kbits_arg(self.tr.defs[lean])] + xs
                return f'({lean} {recv} {" ".join(xs)})'.replace(' )', ')'), rty
            xs = self.call_args(args, ptys)
            return (f'({lean} {" ".join(xs)})' if xs else f'({lean} (α := α))'), rty
    # call of a closure-valued variable (only inside an inlined generic callee)
    if len(p) == 1 and name in c.env and isinstance(c.env[name], tuple) and c.env[name][0] == 'closurev':
        return self.apply_closurev(c.env[name], args)
    # free function (same crate)
    fname = name
    if fname in self.tr.reg.free and (len(p) == 1 or p[0] in ('crate', 'misc', 'super', 'func') or p[-2] in ('misc', 'func', 'entropy', 'bessel', 'data')):
        fi = self.tr.resolve_method('', fname, c.kind, ('file', c.fi.file) if c.fi else None)
        if any(a[0] == 'closure' or (a[0] == 'path' and len(a[1]) == 2 and a[1][0] in self.tr.reg.structs)
               or (a[0] == 'path' and len(a[1]) == 1 and isinstance(c.env.get(a[1][0]), tuple) and c.env[a[1][0]][0] == 'closurev') for a in args):
            return self.inline_call(fi, args)
        lean, ptys, rty = self.tr.request('', fname, c.kind, ('file', c.fi.file) if c.fi else None)
        xs = self.call_args(args, ptys)
        return (f'({lean} {" ".join(xs)})' if xs else f'({lean} (α := α))'), rty
    if len(p) == 1 and name in c.env:
        raise Unsupported(f'call of closure variable {name}')
    raise Unsupported(f'call {"::".join(p)}')


def err_value(self, a):
    """Err(SomeError::Variant { f } ) -> Except.error ⟨"Variant", [f..]⟩"""
    variant = None
    payload = []
    if a[0] == 'structlit':
        variant = a[1][-1]
        for f in a[2]:
            if f[0] == '..':
                continue
            try:
                s, t = self.expr_top(f[1])
                if t in NUMERIC:
                    s, t = self.convert(s, t, 'real')
                    payload.append(s)
            except Unsupported:
                pass
    elif a[0] == 'path':
        variant = a[1][-1]
    elif a[0] == 'call' and a[1][0] == 'path':
        variant = a[1][1][-1]
        for x in a[2]:
            try:
                s, t = self.expr_top(x)
                if t in NUMERIC:
                    s, t = self.convert(s, t, 'real')
                    payload.append(s)
            except Unsupported:
                pass
    else:
        raise Unsupported('Err payload shape')
    return f'(Except.error (Err.mk "{variant}" [{", ".join(payload)}]))'


def self_method(self, owner, recv_s, name, args, want):
    c = self.c
    hint = None
    if args and args[0][0] != 'closure':
        try:
            saved = list(self.tr.cur_notes)
            _, t0 = self.expr_top(args[0])
            self.tr.cur_notes[:] = saved
            if t0 in NUMERIC or t0 == 'bool' or is_struct(t0) or is_list(t0):
                hint = t0
            if hint in NUMERIC or hint == 'bool':
                fi0 = self.tr.resolve_method(owner, name, c.kind, None)
                ok = False
                if fi0 is not None:
                    ps = [p for p in fi0.fn[2] if p[0] != 'self']
                    if ps and ps[0][1]:
                        pt = ps[0][1].replace('&', '').replace('mut ', '').strip()
                        from core import generic_names
                        ok = pt in ('X', '$kind', '$ kind') or pt in generic_names(fi0)
                if not ok:
                    hint = None
        except Unsupported:
            pass
    lean, ptys, rty = self.tr.request(owner, name, c.kind, hint)
    xs = self.call_args(args, ptys)
    if self.tr.defs[lean].get('kbits'):
        xs = [self.kbits_arg(self.tr.defs[lean])] + xs
    return f'({lean} {recv_s}{"".join(" " + x for x in xs)})', rty


def mcall(self, e, want=None):
    c = self.c
    recv, name, args = e[1], e[2], e[3]
    if name == 'contains' and len(args) == 1:
        rr = recv
        while rr[0] == 'paren':
            rr = rr[1]
        if rr[0] == 'range' and rr[1] is not None and rr[2] is not None:
            x, tx = self.expr_top(args[0])
            lo, tl = self.expr_top(rr[1], tx)
            hi, th = self.expr_top(rr[2], tx)
            if tx == 'real':
                lo, _ = self.convert(lo, tl, 'real'); hi, _ = self.convert(hi, th, 'real')
                up = f'(RealLike.le {x} {hi})' if rr[3] else f'(RealLike.lt {x} {hi})'
                return f'((RealLike.le {lo} {x}) && {up})', 'bool'
            if tx in ('nat', 'int'):
                lo, _ = self.convert(lo, tl, tx); hi, _ = self.convert(hi, th, tx)
                up = f'decide ({x} ≤ {hi})' if rr[3] else f'decide ({x} < {hi})'
                return f'(decide ({lo} ≤ {x}) && {up})', 'bool'
    # cache getter used without deref
    if name == 'get_or_init':
        return self.expr_top(e, want)
    # iterator consumers
    if name in ('sum', 'product', 'fold', 'count', 'logsumexp', 'all', 'any', 'position', 'last', 'max_by',
                'min_by', 'collect', 'for_each', 'unzip', 'try_for_each'):
        recv_is_struct = False
        try:
            saved_notes = list(self.tr.cur_notes)
            _rs, _rt = self.expr_top(recv)
            self.tr.cur_notes[:] = saved_notes
            recv_is_struct = is_struct(_rt)
        except Unsupported:
            pass
        if not recv_is_struct:
            r = self.iter_consumer(e, want)
            if r is not None:
                return r
    if name in ('map', 'zip', 'enumerate', 'rev', 'skip', 'take', 'filter', 'chain', 'scan'):
        try:
            rs, rt = self.expr_top(recv)
        except Unsupported:
            rs, rt = None, None
        if rt is None or is_list(rt):
            return self.iter_expr(e)
        if is_opt(rt) and name == 'map':
            f, ft = self.closure(args[0], [rt[1]])
            return f'(Option.map {f} {rs})', ('opt', ft)
    r, tr_ = self.expr_top(recv)
    if tr_ == 'real':
        if name in UNARY and not args:
            return f'({UNARY[name]} {r})', 'real'
        if name in PRED and not args:
            return f'({PRED[name]} {r})', 'bool'
        if name in BINARY and len(args) == 1:
            a, ta = self.expr_top(args[0], 'real')
            a, ta = self.convert(a, ta, 'real')
            return f'({BINARY[name]} {r} {a})', 'real'
        if name == 'mul_add' and len(args) == 2:
            a, ta = self.expr_top(args[0], 'real')
            b, tb = self.expr_top(args[1], 'real')
            a, _ = self.convert(a, ta, 'real')
            b, _ = self.convert(b, tb, 'real')
            return f'(mulAdd {r} {a} {b})', 'real'
        if name == 'powi' and len(args) == 1:
            a, ta = self.expr_top(args[0], 'int')
            a, _ = self.convert(a, ta, 'int')
            return f'(RealLike.powi {r} {a})', 'real'
        if name == 'inc_beta' and len(args) == 3:
            xs = [self.expr_top(a, 'real')[0] for a in args]
            return f'(RealLike.incBeta {r} {xs[0]} {xs[1]} {xs[2]})', 'real'
        if name == 'clamp' and len(args) == 2:
            xs = [self.expr_top(a, 'real')[0] for a in args]
            return f'(RealLike.max {xs[0]} (RealLike.min {xs[1]} {r}))', 'real'
        if name in ('clone', 'into', 'borrow', 'to_owned') and not args:
            return r, 'real'
        if name == 'to_f64' and not args:
            return f'(some {r})', ('opt', 'real')
        if name == 'ln_gamma' and not args:
            return f'(RealLike.lgamma {r}, (1.0 : α))', ('tup', ('real', 'real'))
        if name in ('partial_cmp', 'total_cmp'):
            raise Unsupported('partial_cmp')
        raise Unsupported(f'method .{name} on real')
    if tr_ in ('nat', 'int'):
        if name == 'into' and not args and want == 'real':
            return self.convert(r, tr_, 'real')
        if name in ('clone', 'into') and not args:
            return r, tr_
        if name == 'pow' and len(args) == 1:
            a, ta = self.expr_top(args[0])
            a, _ = self.convert(a, ta, 'nat')
            return f'({r} ^ {a})', tr_
        if name in ('min', 'max') and len(args) == 1:
            a, ta = self.expr_top(args[0], tr_)
            a, _ = self.convert(a, ta, tr_)
            return f'({"Nat" if tr_ == "nat" else "Int"}.{name} {r} {a})', tr_
        if name == 'saturating_sub':
            a, ta = self.expr_top(args[0], tr_)
            return f'({r} - {a})', tr_
        if name == 'abs' and tr_ == 'int':
            return f'(Int.ofNat (Int.natAbs {r}))', 'int'
        if name == 'unsigned_abs':
            return f'(Int.natAbs {r})', 'nat'
        if name in ('into_usize', 'into_f64', 'to_usize', 'as_usize'):
            return self.convert(r, tr_, 'real' if name == 'into_f64' else 'nat')
        if name == 'into_bool':
            self.tr.cur_notes.append('into_bool on integer: panics unless 0/1 (modelled as x = 1)')
            return f'({r} == 1)', 'bool'
        if name == 'try_into_bool':
            return f'(if {r} == 1 then some true else if {r} == 0 then some false else none)', ('opt', 'bool')
        if name == 'is_finite' and not args:
            return 'true', 'bool'
        if name == 'to_f64' and not args:
            s_, _ = self.convert(r, tr_, 'real')
            return f'(some {s_})', ('opt', 'real')
        if name == 'to_usize' and not args:
            s_, _ = self.convert(r, tr_, 'nat')
            return f'(some {s_})', ('opt', 'nat')
        raise Unsupported(f'method .{name} on {tr_}')
    if tr_ == 'bool':
        if name in ('into_bool', 'clone', 'into'):
            return r, 'bool'
        if name == 'try_into_bool':
            return f'(some {r})', ('opt', 'bool')
        if name == 'into_usize':
            return f'(if {r} then 1 else 0)', 'nat'
        raise Unsupported(f'method .{name} on bool')
    if is_list(tr_):
        if name == 'len' and not args:
            return f'(List.length {r})', 'nat'
        if name == 'is_empty' and not args:
            return f'(List.isEmpty {r})', 'bool'
        if name in ITER_ID and not args:
            return r, tr_
        if name == 'last' and not args:
            return f'(List.getLast? {r})', ('opt', tr_[1])
        if name == 'first' and not args:
            return f'(List.head? {r})', ('opt', tr_[1])
        if name == 'contains' and len(args) == 1:
            a, ta = self.expr_top(args[0])
            if tr_[1] in ('nat', 'int', 'bool'):
                return f'(List.elem {a} {r})', 'bool'
        if name == 'get' and len(args) == 1:
            a, ta = self.expr_top(args[0])
            return f'({r}[{a}]?)', ('opt', tr_[1])
        raise Unsupported(f'method .{name} on list')
    if is_opt(tr_):
        if name in ('unwrap', 'expect'):
            self.tr.cur_notes.append('unwrap modelled with default')
            return self.opt_unwrap(r, tr_), tr_[1]
        if name == 'unwrap_or' and len(args) == 1:
            a, ta = self.expr_top(args[0], tr_[1])
            return f'(Option.getD {r} {a})', tr_[1]
        if name == 'unwrap_or_else' and len(args) == 1:
            f, ft = self.closure(args[0], [])
            raise Unsupported('unwrap_or_else')
        if name == 'is_some':
            return f'(Option.isSome {r})', 'bool'
        if name == 'is_none':
            return f'(Option.isNone {r})', 'bool'
        if name in ('copied', 'cloned', 'clone'):
            return r, tr_
        raise Unsupported(f'method .{name} on option')
    if isinstance(tr_, tuple) and tr_[0] == 'except':
        if name in ('unwrap', 'expect'):
            self.tr.cur_notes.append('Result::unwrap modelled with default on error')
            if tr_[1] == 'real':
                return f'(match {r} with | .ok v => v | .error _ => (RealLike.nan : α))', 'real'
            if is_struct(tr_[1]):
                self.tr.cur_notes.append('expect/unwrap on Err modelled as the all-NaN default object (Rust panics)')
                return f'(match {r} with | .ok v => v | .error _ => default)', tr_[1]
        if name == 'is_ok':
            return f'(match {r} with | .ok _ => true | .error _ => false)', 'bool'
        if name == 'is_err':
            return f'(match {r} with | .ok _ => false | .error _ => true)', 'bool'
        raise Unsupported(f'method .{name} on result')
    if is_struct(tr_):
        if name in ('clone', 'borrow', 'to_owned', 'as_ref') and not args:
            return r, tr_
        owner = tr_[1]
        return self.self_method(owner, r, name, args, want)
    if isinstance(tr_, tuple) and tr_[0] == 'dos':
        if name == 'n' and not args:
            return f'(match {r} with | .data xs => List.length xs | .suffStat s => {self.tr.request(tr_[2][1], "n", c.kind)[0]} s)', 'nat'
        raise Unsupported(f'method .{name} on DataOrSuffStat')
    if is_tup(tr_) and name == 'clone':
        return r, tr_
    raise Unsupported(f'method .{name} on {tr_}')


def opt_unwrap(self, r, t):
    et = t[1]
    if et == 'real':
        return f'(Option.getD {r} (RealLike.nan : α))'
    if et == 'nat':
        return f'(Option.getD {r} 0)'
    if et == 'int':
        return f'(Option.getD {r} (0:Int))'
    if et == 'bool':
        return f'(Option.getD {r} false)'
    raise Unsupported(f'unwrap of option of {et}')


def iter_consumer(self, e, want):
    c = self.c
    recv, name, args = e[1], e[2], e[3]
    try:
        lst, tl = self.iter_expr(recv)
    except Unsupported as ex:
        if name in ('fold', 'sum', 'product', 'logsumexp', 'count', 'all', 'any', 'position', 'collect', 'last'):
            raise
        return None
    et = tl[1]
    if name == 'sum':
        if et == 'real':
            return f'(sumL {lst})', 'real'
        if et == 'nat':
            return f'(List.sum {lst})', 'nat'
        if et == 'int':
            return f'(List.sum {lst})', 'int'
        raise Unsupported(f'sum of {et}')
    if name == 'product':
        if et == 'real':
            return f'(prodL {lst})', 'real'
        raise Unsupported(f'product of {et}')
    if name == 'count':
        return f'(List.length {lst})', 'nat'
    if name == 'collect':
        return lst, tl
    if name == 'logsumexp':
        lean, ptys, rty = self.tr.request('', 'logsumexp', c.kind)
        return f'({lean} {lst})', 'real'
    if name == 'fold' and len(args) == 2:
        init, ti = self.expr_top(args[0], want)
        f, ft = self.closure(args[1], [ti, et])
        return f'(List.foldl {f} {init} {lst})', ti
    if name == 'try_for_each':
        f, ft = self.closure(args[0], [et])
        return f'(tryForEach {f} {lst})', ('except', 'unit')
    if name in ('all', 'any'):
        f, ft = self.closure(args[0], [et])
        return f'(List.{name} {lst} {f})', 'bool'
    if name == 'position':
        f, ft = self.closure(args[0], [et])
        return f'(List.findIdx? {f} {lst})', ('opt', 'nat')
    if name == 'last':
        return f'(List.getLast? {lst})', ('opt', et)
    return None


for _f in (call_args, closure, iter_expr, call, err_value, self_method, mcall, opt_unwrap, iter_consumer):
    setattr(FnTr, _f.__name__, _f)


def inline_call(self, fi, args):
    """generic free fn with closure parameters: inline its (translated) body at the call site"""
    from emit import Ctx
    from translate import FnTr as _FnTr
    c = self.c
    fn = fi.fn
    if fn[4] is None:
        raise Unsupported('parse: ' + str(fn[5]))
    params = [p for p in fn[2] if p[0] != 'self']
    if len(params) != len(args):
        raise Unsupported('inline arity')
    ictx = Ctx('', c.kind, fi)
    ictx.mutself = False
    binds = []
    for (pat, ty), a in zip(params, args):
        if pat[0] != 'pvar':
            raise Unsupported('inline param pattern')
        if a[0] == 'path' and len(a[1]) == 1 and isinstance(c.env.get(a[1][0]), tuple) and c.env[a[1][0]][0] == 'closurev':
            ictx.env[pat[1]] = c.env[a[1][0]]
        elif a[0] == 'closure' or (a[0] == 'path' and len(a[1]) == 2 and a[1][0] in self.tr.reg.structs):
            ictx.env[pat[1]] = ('closurev', a, self)
        else:
            s, t = self.expr_top(a)
            ictx.env[pat[1]] = t
            binds.append((lname(pat[1]), s))
            if isinstance(t, tuple) and t[0] == 'dos':
                ictx.generic_map['X'] = t[1]
                ictx.generic_map['Fx'] = ('struct', t[3]) if len(t) > 3 else None
    sub = _FnTr(self.tr, ictx)
    body = fn[4]
    ictx.ret = None
    term, t = sub.seq(list(body[1]), body[2], None, False)
    for n, v in reversed(binds):
        if n != v:
            term = f'(let {n} := {v}; {term})'
    return term, t


def apply_closurev(self, cv, args):
    _, clos, outer = cv
    argstrs = [self.expr_top(a) for a in args]
    if clos[0] == 'path':
        # fn item such as GaussianSuffStat::new
        if args:
            raise Unsupported('fn-item closure with args')
        return outer.expr(('call', clos, []))
    params = clos[1]
    if len(params) != len(argstrs):
        raise Unsupported('closure arity')
    saved = dict(outer.c.env)
    try:
        binders = [outer.bind_pattern(p, t) for p, (s, t) in zip(params, argstrs)]
        body, bt = outer.block_value(clos[2]) if clos[2][0] == 'block' else outer.expr_top(clos[2])
    finally:
        outer.c.env = saved
    for b, (s, t) in reversed(list(zip(binders, argstrs))):
        body = f'(let {b} := {s}; {body})'
    return body, bt


FnTr.inline_call = inline_call
FnTr.apply_closurev = apply_closurev


def kbits_arg(self, callee):
    """the width argument for a kind-dependent callee"""
    from registry import BITS as _B
    c = self.c
    ck = callee.get('kind')
    if c.kind and ck and kind_class(c.kind) == kind_class(ck) and c.fi is not None and c.fi.trait is not None:
        from core import is_kind_dependent
        if is_kind_dependent(c.fi):
            c.uses_kbits = True
            return 'kbits'
    return str(_B.get(ck, 64))


FnTr.kbits_arg = kbits_arg
