#!/usr/bin/env python3
"""Registry: parse every file under /repo/src once and index structs, impls (with macro kind
instantiation), inherent methods, trait default methods and free functions."""
import glob, os, re
from rsparse import parse_file, Unsupported

REAL_KINDS = {'f32', 'f64'}
NAT_KINDS = {'u8', 'u16', 'u32', 'u64', 'usize'}
INT_KINDS = {'i8', 'i16', 'i32', 'i64', 'isize'}
BITS = {'u8': 8, 'u16': 16, 'u32': 32, 'u64': 64, 'usize': 64, 'i8': 8, 'i16': 16, 'i32': 32, 'i64': 64,
        'isize': 64}


def kind_class(kd):
    kd = kd.strip()
    if kd in REAL_KINDS:
        return 'real'
    if kd in NAT_KINDS:
        return 'nat'
    if kd in INT_KINDS:
        return 'int'
    if kd == 'bool':
        return 'bool'
    return None


class FnInfo:
    ALL = []   # every function item the parser saw (source fingerprints, see rs2lean.py `src_fns`)
    def __init__(self, file, owner, trait, trait_arg, kinds, fn, macro=None):
        self.file = file
        self.owner = owner          # struct name or '' for free fn
        self.trait = trait          # trait name without generics, or None
        self.trait_arg = trait_arg  # generic argument string of the trait ('$ kind', 'f64', 'X', ...)
        self.kinds = kinds          # list of concrete kinds the enclosing macro is invoked with ([] if not in macro)
        self.fn = fn                # ('fn', name, params, ret, body, err)
        self.macro = macro
        self.generics = None
        FnInfo.ALL.append(self)

    @property
    def name(self):
        return self.fn[1]


class Registry:
    def __init__(self, root):
        self.root = root
        self.structs = {}       # name -> (file, fields[(name, ty, attrs)])
        self.inherent = {}      # struct -> {method: FnInfo}
        self.traitfns = {}      # struct -> {method: [FnInfo]}
        self.traits_of = {}     # struct -> set of (trait, arg, tuple(kinds))
        self.free = {}          # fn name -> FnInfo  (per file key also)
        self.free_by_file = {}
        self.trait_defaults = {}  # trait -> {method: fn}
        self.consts = {}        # name -> (file, ty, expr)
        self.enums = {}
        self.parse_errors = []
        self.assoc = {}        # struct -> [(trait, arg, {name: type}, macro)]
        self.struct_generics = {}
        self.struct_attrs = {}
        self.trait_generics = {}
        files = sorted(glob.glob(os.path.join(root, '**', '*.rs'), recursive=True))
        for f in files:
            rel = os.path.relpath(f, root)
            if rel in ('test.rs',):
                continue
            try:
                items = parse_file(f)
            except Unsupported as e:
                self.parse_errors.append((rel, str(e)))
                continue
            self._scan(rel, items)
        self._scan_trait_defaults()

    def _scan(self, rel, items):
        macros = {}
        invokes = []
        pending = []   # (macro_name, body items)

        def scan(items, in_macro=None):
            for it in items:
                if it[0] == 'struct':
                    self.structs[it[1]] = (rel, it[2])
                    self.struct_generics[it[1]] = it[3] if len(it) > 3 else []
                    self.struct_attrs[it[1]] = it[4] if len(it) > 4 else []
                elif it[0] == 'impl':
                    trait, ty, fns = it[1], it[2], it[3]
                    ty0 = ty.split('<')[0].strip()
                    if ty0.startswith('$'):
                        continue
                    if ty0 == 'I' and trait and trait.startswith('LogSumExp'):
                        # blanket impl on iterators of f64: modelled as a free function of a list
                        for f in fns:
                            f2 = ('fn', f[1], [(('pvar', 'self'), 'Vec < f64 >')], f[3], f[4], f[5], [], True)
                            fi = FnInfo(rel, '', None, None, [], f2, in_macro)
                            self.free[f[1]] = fi
                            self.free_by_file.setdefault(rel, {})[f[1]] = fi
                        continue
                    if trait is None:
                        for f in fns:
                            fi0 = FnInfo(rel, ty0, None, None, [], f, in_macro)
                            fi0.generics = it[4] if len(it) > 4 else []
                            self.inherent.setdefault(ty0, {})[f[1]] = fi0
                    else:
                        tname = trait.split('<')[0].strip()
                        targ = None
                        m = re.match(r'^[A-Za-z_:]+\s*<(.*)>\s*$', trait)
                        if m:
                            targ = m.group(1).strip()
                        info_list = []
                        for f in fns:
                            fi = FnInfo(rel, ty0, tname, targ, [], f, in_macro)
                            fi.generics = it[4] if len(it) > 4 else []
                            fi.assoc = it[5] if len(it) > 5 else {}
                            self.traitfns.setdefault(ty0, {}).setdefault(f[1], []).append(fi)
                            info_list.append(fi)
                        pending.append((in_macro, ty0, tname, targ, info_list))
                        if len(it) > 5 and it[5]:
                            self.assoc.setdefault(ty0, []).append((tname, targ, it[5], in_macro))
                elif it[0] == 'macro':
                    macros[it[1]] = it[2]
                    for pat, body in it[2]:
                        scan(body, in_macro=it[1])
                elif it[0] == 'invoke':
                    invokes.append((it[1], it[2]))
                elif it[0] == 'fn':
                    fi = FnInfo(rel, '', None, None, [], it, in_macro)
                    self.free.setdefault(it[1], fi)
                    self.free_by_file.setdefault(rel, {})[it[1]] = fi
                elif it[0] == 'const':
                    self.consts[it[1]] = (rel, it[2], it[3])
        scan(items)
        kinds_by_macro = {}
        for name, args in invokes:
            if name in macros:
                kinds_by_macro.setdefault(name, []).append(' '.join(args))
        for (in_macro, ty0, tname, targ, info_list) in pending:
            kinds = kinds_by_macro.get(in_macro, []) if in_macro else []
            for fi in info_list:
                fi.kinds = kinds
            self.traits_of.setdefault(ty0, set()).add((tname, targ, tuple(kinds)))

    def _scan_trait_defaults(self):
        """trait default method bodies from traits.rs (parsed separately: `trait` items are skipped by parse_items)"""
        import rsparse
        path = os.path.join(self.root, 'traits.rs')
        src = open(path).read()
        toks = rsparse.tokenize(src)
        p = rsparse.Parser(toks)
        i = 0
        while i < len(toks):
            if toks[i][1] == 'trait' and toks[i + 1][0] == 'id':
                tname = toks[i + 1][1]
                j = i + 2
                gn = []
                if toks[j][1] == '<':
                    j2 = j + 1
                    while toks[j2][1] != '>':
                        if toks[j2][0] == 'id' and toks[j2 - 1][1] in ('<', ','):
                            gn.append(toks[j2][1])
                        j2 += 1
                self.trait_generics[tname] = gn
                while toks[j][1] != '{':
                    j += 1
                p.i = j + 1
                fns = {}
                depth = 1
                while True:
                    v = p.peek()[1]
                    if v == '}':
                        p.next()
                        break
                    if v == '#':
                        p.skip_attr()
                    elif v == 'fn':
                        f = p.parse_fn()
                        if f[4] is not None:
                            fns[f[1]] = f
                    elif v == 'type':
                        p.skip_item()
                    else:
                        p.next()
                self.trait_defaults[tname] = fns
                i = p.i
            else:
                i += 1

    # ---- lookup helpers
    def struct_fields(self, name):
        return self.structs[name][1]

    def has_trait(self, struct, trait):
        return any(t == trait for (t, a, k) in self.traits_of.get(struct, ()))


if __name__ == '__main__':
    import sys
    r = Registry(sys.argv[1] if len(sys.argv) > 1 else '/repo/src')
    print('structs', len(r.structs), 'parse errors', r.parse_errors)
    print('trait defaults', {k: list(v) for k, v in r.trait_defaults.items()})
    print('free fns', len(r.free))
