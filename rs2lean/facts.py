#!/usr/bin/env python3
"""Fact extraction for C09 / C18 (no expression translation needed): per struct
   params / caches / derived fields, cache read sets, setter write & reset sets, PartialEq field list,
   serde field facts.  Emitted as lean/RvModel/Gen/Facts.lean (fields as indices, names in a side table)."""
import re
from emit import Ctx

CACHE_RE = re.compile(r'OnceLock|RefCell|LruCache|RwLock|Arc\s*<')


def walk(e, fn):
    """pre-order walk over an AST (tuples / lists)"""
    if isinstance(e, tuple):
        fn(e)
        for x in e:
            walk(x, fn)
    elif isinstance(e, list):
        for x in e:
            walk(x, fn)


def self_fields(e):
    out = []

    def f(n):
        if n and n[0] == 'field' and n[1] == ('path', ['self']):
            out.append(n[2])
    walk(e, f)
    return out


def self_calls(e):
    out = []

    def f(n):
        if n and n[0] == 'mcall' and n[1] == ('path', ['self']):
            out.append(n[2])
    walk(e, f)
    return out


def assigned_self_fields(body):
    """[(field, rhs)] for `self.f = rhs` / `self.f op= rhs` in body"""
    out = []

    def f(n):
        if n and n[0] == 'assign' and n[2][0] == 'field' and n[2][1] == ('path', ['self']):
            out.append((n[2][2], n[3]))
        if n and n[0] == 'assign' and n[2][0] == 'deref' and n[2][1] == ('path', ['self']):
            out.append(('*', n[3]))
    walk(body, f)
    return out


def is_cache_reset(rhs):
    s = repr(rhs)
    # `OnceLock::from(v)` re-fills the cache eagerly (MvGaussian::set_cov_unchecked): that the value is the fresh one is
    # the business of the history correspondence, here it counts as a re-initialisation
    return 'OnceLock' in s and ("'new'" in s or "'from'" in s) or 'cache_default' in s or "'default'" in s and 'OnceLock' in s


class TypeFacts:
    pass


def extract(reg):
    out = []
    for name in sorted(reg.structs):
        file, fields = reg.structs[name]
        if not file.startswith(('dist/', 'data/stat', 'process/', 'experimental/', 'data/partition')):
            continue
        if name.endswith(('Parameters', 'Error')):
            continue
        inh = reg.inherent.get(name, {})
        fnames = [f for f, t, a in fields]
        caches = [f for f, t, a in fields if CACHE_RE.search(t)]
        params = [f for f in fnames if f not in caches]
        # getters: method -> (fields read directly, methods called)
        reads_direct, calls = {}, {}
        for m, fi in inh.items():
            body = fi.fn[4]
            if body is None:
                continue
            reads_direct[m] = set(self_fields(body))
            calls[m] = set(self_calls(body))

        def closure_reads(m, seen=None):
            seen = seen or set()
            if m in seen or m not in reads_direct:
                return set()
            seen.add(m)
            r = set(reads_direct[m])
            for c in calls[m]:
                r |= closure_reads(c, seen)
            return r
        cache_reads = {}
        for c in caches:
            rs = set()
            for m, fi in inh.items():
                body = fi.fn[4]
                if body is None or c not in reads_direct.get(m, ()):
                    continue
                # initialiser closures of `self.c.get_or_init(|| E)` inside this method
                def f(n, acc=rs, cname=c):
                    if n and n[0] == 'mcall' and n[2] in ('get_or_init', 'get_or_insert_with') and n[1][0] == 'field' and n[1][2] == cname:
                        for a in n[3]:
                            acc.update(x for x in self_fields(a))
                            for cm in self_calls(a):
                                acc.update(closure_reads(cm))
                walk(body, f)
                # LRU style: cache keyed lookups inside a method reading params (Skellam): all params read by the method
                if 'borrow_mut' in repr(body) and c in reads_direct[m]:
                    rs |= (closure_reads(m) & set(params))
            # trait impl methods that touch the cache directly
            for m, lst in reg.traitfns.get(name, {}).items():
                for fi in lst:
                    body = fi.fn[4]
                    if body is not None and c in self_fields(body) and 'borrow_mut' in repr(body):
                        rs |= (set(self_fields(body)) & set(params))
                        for cm in self_calls(body):
                            rs |= (closure_reads(cm) & set(params))
            cache_reads[c] = sorted((rs & set(params)) | {x for x in rs if x in params})
        # derived (eager) fields: assigned in new_unchecked / new from something other than the same-named parameter
        derived = {}
        for ctor in ('new_unchecked', 'new', 'train'):
            fi = inh.get(ctor)
            if fi is None or fi.fn[4] is None:
                continue
            pnames = [p[0][1] for p in fi.fn[2] if p[0] != 'self' and p[0][0] == 'pvar']

            locals_ = {}
            for st_ in (fi.fn[4][1] if fi.fn[4][0] == 'block' else []):
                if st_[0] == 'let' and st_[1][0] == 'pvar' and st_[3] is not None:
                    u = set()
                    walk(st_[3], lambda k, u=u: u.add(k[1][0]) if k and k[0] == 'path' and len(k[1]) == 1 else None)
                    locals_[st_[1][1]] = u

            def f(n):
                if n and n[0] == 'structlit' and n[1][-1] in (name, 'Self'):
                    for fld in n[2]:
                        if fld[0] in params and fld[0] not in pnames and fld[0] != '..':
                            used = set()
                            walk(fld[1], lambda k: used.add(k[1][0]) if k and k[0] == 'path' and len(k[1]) == 1 else None)
                            for u in list(used):
                                used |= locals_.get(u, set())
                            deps = sorted(u for u in used if u in pnames and u in params)
                            if deps:
                                derived.setdefault(fld[0], deps)
            walk(fi.fn[4], f)
            if derived:
                break
        # setters: &mut self methods
        setters = []
        for m, fi in sorted(inh.items()):
            ps = fi.fn[2]
            if not ps or ps[0] != ('self', '&mut Self'):
                continue
            if fi.fn[4] is None:
                if fi.fn[5]:
                    # the body could not be parsed: unknown effects = may write every parameter, resets nothing
                    setters.append((m, sorted(params), []))
                continue

            def effects(mm, seen=None):
                """(writes, resets) as sets of (field, path); path = tuple of the conditional branches enclosing the
                statement.  A reset only counts when it is an actual re-initialisation of the cache field."""
                seen = seen or set()
                if mm in inh and inh[mm].fn[4] is None and inh[mm].fn[5] and inh[mm].fn[2] and inh[mm].fn[2][0] == ('self', '&mut Self'):
                    return {(p_, ()) for p_ in params}, set()       # unparsed callee: unknown effects
                if mm in seen or mm not in inh or inh[mm].fn[4] is None:
                    return set(), set()
                seen = seen | {mm}
                w, r = set(), set()

                def visit(n, path):
                    if isinstance(n, list):
                        for x in n:
                            visit(x, path)
                        return
                    if not isinstance(n, tuple) or not n:
                        return
                    tag = n[0]
                    if tag == 'assign' and isinstance(n[2], tuple) and n[2] and n[2][0] == 'field' and n[2][1] == ('path', ['self']):
                        fld = n[2][2]
                        if fld in caches:
                            if is_cache_reset(n[3]):
                                r.add((fld, path))
                        else:
                            w.add((fld, path))
                    elif tag == 'assign' and isinstance(n[2], tuple) and n[2] and n[2][0] == 'deref' and n[2][1] == ('path', ['self']):
                        for p_ in params:
                            w.add((p_, path))
                        for c_ in caches:
                            r.add((c_, path))
                    elif tag == 'mcall' and n[1] == ('path', ['self']):
                        w2, r2 = effects(n[2], seen)
                        for (f_, p2) in w2:
                            w.add((f_, path + p2))
                        for (f_, p2) in r2:
                            r.add((f_, path + p2))
                    elif tag == 'mcall' and n[2] in ('clear', 'take', 'resize') and 'self' in repr(n[1]):
                        # cache cleared through a method call on the field (e.g. self.cache.borrow_mut().clear())
                        for c_ in caches:
                            if c_ in repr(n[1]):
                                r.add((c_, path))
                    if tag in ('if', 'iflet', 'match', 'while', 'whilelet', 'for', 'closure', 'loop'):
                        # every syntactic child of a conditional / loop / closure is a separate conditional region
                        for i, x in enumerate(n[1:]):
                            visit(x, path + ((id(n), i),))
                    else:
                        for x in n[1:]:
                            visit(x, path)
                visit(inh[mm].fn[4], ())
                return w, r
            w_, r_ = effects(m)
            w = {f_ for (f_, _) in w_}
            # a cache counts as reset by this method only if every write is dominated by a reset of it: the reset sits in
            # the same or an enclosing region (a reset guarded by its own condition does not cover an unconditional write)
            r = set()
            for c_ in caches:
                rp = [p_ for (f_, p_) in r_ if f_ == c_]
                if not rp:
                    continue
                if all(any(p_[:len(q)] == q for q in rp) for (_, p_) in w_) if w_ else True:
                    r.add(c_)
            if not w and not r:
                continue
            setters.append((m, sorted(w), sorted(r)))
        # PartialEq
        eq_fields = None
        derived_eq = any('PartialEq' in a and 'derive' in a for a in reg.struct_attrs.get(name, []))
        for fi in reg.traitfns.get(name, {}).get('eq', []):
            if fi.trait == 'PartialEq' and fi.fn[4] is not None:
                eq_fields = sorted(set(self_fields(fi.fn[4])) | set(self_calls(fi.fn[4])))
        # serde
        sattrs = reg.struct_attrs.get(name, [])
        serde_struct = ' '.join(a for a in sattrs if 'serde' in a)
        skipped = [f for f, t, a in fields if any('skip' in x and 'serde' in x for x in a)]
        serialized = [f for f in fnames if f not in skipped]
        tf = TypeFacts()
        tf.name, tf.file, tf.fields, tf.params, tf.caches = name, file, fnames, params, caches
        tf.cache_reads, tf.derived, tf.setters = cache_reads, derived, setters
        tf.eq_fields, tf.derived_eq = eq_fields, derived_eq
        tf.serde_derive = 'Serialize' in serde_struct
        tf.rename_all = 'snake_case' if 'rename_all = "snake_case"' in serde_struct else None
        tf.serde_proxy = ('from =' in serde_struct or 'into =' in serde_struct or 'try_from' in serde_struct)
        tf.skipped, tf.serialized = skipped, serialized
        tf.skip_defaults = {f: (re.search(r'default = "(\w+)"', ' '.join(a)).group(1) if re.search(r'default = "(\w+)"', ' '.join(a)) else None)
                            for f, t, a in fields if f in skipped}
        out.append(tf)
    return out


def extract_enums(root):
    """text-level scan: every `pub enum` with its attributes and variant names (the parser has no enum support)"""
    import glob, os
    out = {}
    for f in sorted(glob.glob(os.path.join(root, '**', '*.rs'), recursive=True)):
        rel = os.path.relpath(f, root)
        src = open(f).read()
        for m in re.finditer(r'((?:[ \t]*#\[[^\n]*\]\s*\n|[ \t]*///[^\n]*\n)*)[ \t]*pub enum (\w+)[^{;]*\{', src):
            attrs, name = m.group(1), m.group(2)
            i = m.end()
            depth, j = 1, i
            while j < len(src) and depth:
                depth += {'{': 1, '}': -1}.get(src[j], 0)
                j += 1
            body = src[i:j - 1]
            # strip nested braces / parens (payloads) and comments, then split on top-level commas
            body = re.sub(r'//[^\n]*', '', body)
            flat, d = [], 0
            for ch in body:
                if ch in '({[':
                    d += 1
                elif ch in ')}]':
                    d -= 1
                elif d == 0:
                    flat.append(ch)
            variants = []
            for part in ''.join(flat).split(','):
                part = re.sub(r'#\s*', '', part).strip()
                mm = re.match(r'^([A-Z]\w*)', part)
                if mm:
                    variants.append(mm.group(1))
            ra = re.search(r'rename_all\s*=\s*"(\w+)"', attrs)
            out[name] = {'file': rel, 'variants': variants, 'serde_derive': 'Serialize' in attrs, 'rename_all': ra.group(1) if ra else None}
    return out


def lean_list(xs):
    return '[' + ', '.join(str(x) for x in xs) + ']'


def foreign_cache_writes(reg, file, caches):
    """textual scan of the type's source file (comments and the test module removed) for writes to a cache field THROUGH
    ANOTHER OBJECT: `x.cache = …`, `x.cache.take()/set()/swap()/replace()/get_mut()` with x != self.  The cache state
    machine of C09 has the alphabet {setter, query on self}; such a write is an operation outside it (seeded change C09-7:
    `Mixture::combine` moved the inputs' memoised ln_weights into the result).  Textual on purpose: it also sees bodies the
    parser refuses (combine's closure is one)."""
    import os
    try:
        text = open(os.path.join(reg.root, file)).read()
    except Exception:
        return []
    cut = re.search(r'^#\[cfg\(test\)\]\s*\nmod ', text, re.M)
    if cut:
        text = text[:cut.start()]
    text = re.sub(r'//[^\n]*', '', text)
    hits = set()
    for c in caches:
        for m in re.finditer(r'\b([A-Za-z_][A-Za-z_0-9]*)\s*\.\s*%s\s*(=(?!=)|\.\s*(?:take|set|swap|replace|get_mut)\s*\()' % re.escape(c), text):
            if m.group(1) != 'self':
                hits.add(re.sub(r'\s+', ' ', m.group(0)).replace('"', "'"))
    return sorted(hits)


def gen_facts(reg):
    facts = extract(reg)
    out = ['/- GENERATED by rs2lean (facts) from /repo/src — cache / setter / equality / serde facts per type.',
           '   Fields are numbered by their position in the Rust struct declaration. -/', 'namespace GenFacts', '',
           'structure TypeFacts where',
           '  name : String', '  fieldNames : List String',
           '  params : List Nat          -- non-cache fields',
           '  caches : List Nat          -- OnceLock / RefCell<LruCache> fields',
           '  cacheReads : List (Nat × List Nat)   -- cache ↦ parameter fields its initialiser reads (transitively)',
           '  derived : List (Nat × List Nat)      -- eagerly derived field ↦ parameter fields it is computed from',
           '  setters : List (String × List Nat × List Nat)  -- &mut self method ↦ (fields written, caches reset)',
           '  eqFields : Option (List Nat)  -- fields compared by a hand-written PartialEq (none: derived or absent)',
           '  derivedEq : Bool',
           '  serdeDerive : Bool', '  serdeProxy : Bool', '  snakeCase : Bool',
           '  serialized : List Nat', '  skipped : List Nat',
           '  foreignCacheWrites : List String   -- source snippets writing a cache field through an object other than `self`', '']
    names = []
    js = {}
    for tf in facts:
        ix = {f: i for i, f in enumerate(tf.fields)}
        cr = ', '.join(f'({ix[c]}, {lean_list(ix[r] for r in rs)})' for c, rs in tf.cache_reads.items())
        dv = ', '.join(f'({ix[c]}, {lean_list(ix[r] for r in rs if r in ix)})' for c, rs in tf.derived.items())
        st = ', '.join(f'("{m}", {lean_list(ix[w] for w in ws)}, {lean_list(ix[r] for r in rs)})' for m, ws, rs in tf.setters)
        eqf = 'none' if tf.eq_fields is None else 'some ' + lean_list(ix[f] for f in tf.eq_fields if f in ix)
        fn = ', '.join(f'"{f}"' for f in tf.fields)
        out.append(f'/-- {tf.file} -/')
        out.append(f'def {tf.name} : TypeFacts where')
        out.append(f'  name := "{tf.name}"')
        out.append(f'  fieldNames := [{fn}]')
        out.append(f'  params := {lean_list(ix[p] for p in tf.params)}')
        out.append(f'  caches := {lean_list(ix[c] for c in tf.caches)}')
        out.append(f'  cacheReads := [{cr}]')
        out.append(f'  derived := [{dv}]')
        out.append(f'  setters := [{st}]')
        out.append(f'  eqFields := {eqf}')
        out.append(f'  derivedEq := {"true" if tf.derived_eq else "false"}')
        out.append(f'  serdeDerive := {"true" if tf.serde_derive else "false"}')
        out.append(f'  serdeProxy := {"true" if tf.serde_proxy else "false"}')
        out.append(f'  snakeCase := {"true" if tf.rename_all else "false"}')
        out.append(f'  serialized := {lean_list(ix[f] for f in tf.serialized)}')
        out.append(f'  skipped := {lean_list(ix[f] for f in tf.skipped)}')
        fcw = foreign_cache_writes(reg, tf.file, tf.caches) if tf.caches else []
        out.append('  foreignCacheWrites := [' + ', '.join('"' + h + '"' for h in fcw) + ']')
        out.append('')
        names.append(tf.name)
        js[tf.name] = {'file': tf.file, 'fields': tf.fields, 'params': tf.params, 'caches': tf.caches,
                       'cache_reads': tf.cache_reads, 'derived': tf.derived, 'setters': tf.setters,
                       'eq_fields': tf.eq_fields, 'derived_eq': tf.derived_eq, 'serde_derive': tf.serde_derive,
                       'serde_proxy': tf.serde_proxy, 'snake_case': bool(tf.rename_all), 'serialized': tf.serialized,
                       'skipped': tf.skipped, 'skip_defaults': tf.skip_defaults, 'foreign_cache_writes': fcw}
    out.append('def all : List TypeFacts := [' + ', '.join(names) + ']')
    out.append('')
    out.append('/-- serialisable enums: (name, derives Serialize, variants renamed to snake_case) -/')
    enums = extract_enums(reg.root) if hasattr(reg, 'root') else {}
    out.append('def enums : List (String × Bool × Bool) := [' + ', '.join(
        f'("{n}", {"true" if e["serde_derive"] else "false"}, {"true" if e["rename_all"] == "snake_case" else "false"})' for n, e in sorted(enums.items())) + ']')
    out.append('end GenFacts')
    js['__enums__'] = enums
    return '\n'.join(out) + '\n', js
