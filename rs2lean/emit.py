#!/usr/bin/env python3
"""rs2lean emitter: Rust-subset AST -> Lean 4 definitions generic over `[RealLike α]`.

Design notes
  * every definition is translated on demand (`Tr.request`) and memoised; callees are emitted first;
  * `&mut self` methods become state-passing functions returning the new `self`;
  * `OnceLock` caches are dropped from the model structure, a getter `*self.c.get_or_init(|| E)` becomes `E`;
  * anything outside the subset raises `Unsupported(reason)`; the reason is recorded in the manifest.
"""
import re
from collections import OrderedDict
from rsparse import Unsupported
from registry import Registry, kind_class, REAL_KINDS, NAT_KINDS, INT_KINDS, BITS

UNARY = {
    'ln': 'RealLike.ln', 'exp': 'RealLike.exp', 'sqrt': 'RealLike.sqrt', 'abs': 'RealLike.abs',
    'recip': 'RealLike.recip', 'ln_1p': 'RealLike.ln1p', 'exp_m1': 'RealLike.expm1',
    'floor': 'RealLike.floor', 'ceil': 'RealLike.ceil', 'sin': 'RealLike.sin', 'cos': 'RealLike.cos',
    'tan': 'RealLike.tan', 'atan': 'RealLike.atan', 'acos': 'RealLike.acos', 'asin': 'RealLike.asin',
    'signum': 'RealLike.signum', 'trunc': 'RealLike.trunc',
    'log2': 'RealLike.log2', 'log10': 'RealLike.log10', 'exp2': 'RealLike.exp2',
    'digamma': 'RealLike.digamma', 'error': 'RealLike.erf', 'compl_error': 'RealLike.erfc',
    'inv_error': 'RealLike.erfInv', 'gamma': 'RealLike.gamma',
    'sinh': 'RealLike.sinh', 'cosh': 'RealLike.cosh', 'tanh': 'RealLike.tanh', 'round': 'RealLike.round',
}
PRED = {'is_finite': 'RealLike.isFinite', 'is_nan': 'RealLike.isNaN', 'is_infinite': 'RealLike.isInfinite',
        'is_normal': 'RealLike.isNormal'}
BINARY = {'powf': 'RealLike.powf', 'max': 'RealLike.max', 'min': 'RealLike.min', 'ln_beta': 'RealLike.lnBeta',
          'log': 'RealLike.logb', 'inc_gamma': 'RealLike.incGamma', 'rem_euclid': 'RealLike.remEuclid'}
CONSTS = {
    'HALF_LN_2PI': 'RealLike.halfLn2Pi', 'HALF_LN_2PI_E': 'RealLike.halfLn2PiE', 'HALF_LN_PI': 'RealLike.halfLnPi',
    'LN_PI': 'RealLike.lnPi', 'LN_2PI': 'RealLike.ln2Pi', 'LN_2PI_E': 'RealLike.ln2PiE',
    'EULER_MASCERONI': 'RealLike.eulerGamma', 'LN_LN_2': 'RealLike.lnLn2', 'SQRT_PI': 'RealLike.sqrtPi',
    'LN_2': 'RealLike.ln2', 'LN_10': 'RealLike.ln10', 'PI': 'RealLike.pi', 'SQRT_2': 'RealLike.sqrt2',
    'E': 'RealLike.e', 'FRAC_PI_2': 'RealLike.fracPi2',
    'FRAC_1_PI': 'RealLike.frac1Pi', 'FRAC_1_SQRT_2': 'RealLike.frac1Sqrt2',
    'NEG_INFINITY': 'RealLike.negInf', 'INFINITY': 'RealLike.posInf', 'NAN': 'RealLike.nan',
    'EPSILON': 'RealLike.epsilon', 'MAX': 'RealLike.maxFinite', 'MIN_POSITIVE': 'RealLike.minPositive',
}
# free functions that are primitives of the carrier (external crates) rather than translated
PRIM_FREE = {
    'ln_gammafn': ('RealLike.lgamma', ['real'], 'real'),
    'gammafn': ('RealLike.gamma', ['real'], 'real'),
}
BESSEL = {'i0': ('RealLike.bessI0', 1), 'i1': ('RealLike.bessI1', 1)}

LEAN_KEYWORDS = {'at', 'from', 'end', 'fun', 'do', 'then', 'have', 'show', 'by', 'open', 'in', 'Type', 'μ',
                 'λ', 'lambda', 'let', 'if', 'else', 'match', 'with', 'where', 'def', 'theorem', 'instance',
                 'class', 'structure', 'inductive', 'namespace', 'section', 'variable', 'local', 'prefix',
                 'infix', 'notation', 'macro', 'syntax', 'import', 'export', 'deriving', 'extends', 'for',
                 'return', 'mut', 'this', 'suffices', 'calc', 'obtain', 'exact', 'using', 'nat', 'max', 'min'}


def lname(n):
    if n in LEAN_KEYWORDS:
        return n + "'"
    return n


def lit(v):
    s = v
    for suf in ('_f64', '_f32', 'f64', 'f32', '_usize', '_u64', '_u32', '_u16', '_u8', '_isize', '_i64', '_i32',
                '_i16', '_i8', 'usize', 'u64', 'u32', 'u16', 'u8', 'isize', 'i64', 'i32', 'i16', 'i8'):
        if s.endswith(suf) and not s.startswith('0x'):
            s = s[:-len(suf)]
            break
    return s.replace('_', '')


def is_real_lit(v):
    if v.startswith('0x'):
        return False
    return ('.' in v) or ('e' in v.lower().replace('usize', '').replace('isize', '')) or ('f64' in v) or ('f32' in v)


def ty_str(t):
    if t == 'real':
        return 'α'
    if t == 'nat':
        return 'Nat'
    if t == 'int':
        return 'Int'
    if t == 'bool':
        return 'Bool'
    if t == 'unit':
        return 'Unit'
    if isinstance(t, tuple):
        if t[0] == 'opt':
            return f'(Option {ty_str(t[1])})'
        if t[0] == 'list':
            return f'(List {ty_str(t[1])})'
        if t[0] == 'tup':
            return '(' + ' × '.join(ty_str(x) for x in t[1]) + ')'
        if t[0] == 'struct':
            return f'({t[1]} α)'
        if t[0] == 'except':
            return f'(Except (Err α) {ty_str(t[1])})'
        if t[0] == 'dos':
            return f'(DataOrSuffStat {ty_str(t[1])} {ty_str(t[2])})'
    raise Unsupported(f'type {t} has no Lean rendering')


STRUCT_GENERIC_DEFAULT = {'DiscreteUniform': {'T': 'int'}}


class Ctx:
    def __init__(self, owner, kind, fi):
        self.owner = owner      # struct name or ''
        self.kind = kind        # concrete kind string ('f64', 'u32', 'bool', ...) or None
        self.fi = fi
        self.env = {}           # var -> type
        self.mutself = False
        self.ret = None         # declared return type
        self.generic_map = {}   # generic type param name -> type
        self.uses_kbits = False


class Tr:
    def __init__(self, reg: Registry):
        self.reg = reg
        self.defs = OrderedDict()      # lean name -> dict
        self.failed = {}               # key -> reason
        self.inprogress = set()
        self.struct_models = {}        # struct -> [(field, type)]
        self.struct_order = []
        self.notes = {}                # lean name -> list of notes (unmodelled aspects)
        self.cur_notes = []
        self.const_defs = OrderedDict()

    # ------------------------------------------------------------------ types
    def rust_ty(self, ty, ctx):
        if ty is None:
            return 'unit'
        t = ty.strip()
        t = re.sub(r"^&\s*('\w+\s*)?(mut\s+)?", '', t).strip()
        t = re.sub(r'^impl\s+', '', t)
        if t in ('()', '( )'):
            return 'unit'
        if t in REAL_KINDS:
            return 'real'
        if t in NAT_KINDS:
            return 'nat'
        if t in INT_KINDS:
            return 'int'
        if t == 'bool':
            return 'bool'
        if t in ('$ kind', '$kind'):
            if ctx and ctx.kind and kind_class(ctx.kind):
                return kind_class(ctx.kind)
            return 'unknown'
        if ctx and t in ctx.generic_map:
            return ctx.generic_map[t]
        if t == 'Self':
            return ('struct', ctx.owner)
        m0 = re.match(r'^(\w+) :: (\w+)$', t)
        if m0 and ctx and m0.group(1) in ctx.generic_map and isinstance(ctx.generic_map[m0.group(1)], tuple):
            g = ctx.generic_map[m0.group(1)]
            if g[0] == 'struct':
                r = self.assoc_type(g[1], m0.group(2), Ctx(g[1], ctx.kind, None)) if m0.group(2) != 'Stat' else self.stat_of(g[1], ctx)
                if r is not None:
                    return r
        if t.startswith('Self ::'):
            assoc = t[len('Self ::'):].strip()
            r = self.assoc_type(ctx.owner, assoc, ctx)
            if r is not None:
                return r
            return ('other', t)
        m = re.match(r'^(Vec|Option|OnceLock|Box)\s*<\s*(.*)\s*>$', t)
        if m:
            inner = self.rust_ty(m.group(2), ctx)
            if m.group(1) == 'Vec':
                return ('list', inner)
            if m.group(1) == 'Option':
                return ('opt', inner)
            if m.group(1) == 'OnceLock':
                return ('cache', inner)
            return inner
        if t.startswith('[') and t.endswith(']'):
            inner = t[1:-1]
            depth = 0
            cut = len(inner)
            for i, ch in enumerate(inner):
                if ch in '[(<':
                    depth += 1
                elif ch in '])>':
                    depth -= 1
                elif ch == ';' and depth == 0:
                    cut = i
                    break
            return ('list', self.rust_ty(inner[:cut].strip(), ctx))
        m = re.match(r'^Result\s*<\s*(.*)\s*,\s*([^,<>]*)\s*>$', t)
        if m:
            return ('except', self.rust_ty(m.group(1), ctx))
        m = re.match(r'^(Categorical|Gaussian|Bernoulli|Poisson|Beta|InvGamma|InvGaussian|UnitPowerLaw|MvGaussian)Data\s*<\s*(?:\'\w+\s*,\s*)?(.*)\s*>$', t)
        if m:
            return self.rust_ty(f'DataOrSuffStat < {m.group(2)} , {m.group(1)} >', ctx)
        m = re.match(r'^DataOrSuffStat\s*<\s*(.*)\s*,\s*([^,]*)\s*>$', t)
        if m:
            x = self.rust_ty(m.group(1), ctx)
            fx = m.group(2).strip()
            st = self.stat_of(fx, ctx)
            return ('dos', x, st, fx if fx in self.reg.structs else (ctx.generic_map.get(fx, (None, fx))[1] if ctx else fx))
        if t.startswith('(') and t.endswith(')'):
            parts = split_top(t[1:-1])
            return ('tup', tuple(self.rust_ty(p, ctx) for p in parts))
        if t.startswith('RefCell') or t.startswith('LruCache') or t.startswith('Arc <') or t.startswith('RwLock'):
            return ('cache', 'unknown')
        base = t.split('<')[0].strip()
        if base in self.reg.structs:
            return ('struct', base)
        return ('other', t)

    def assoc_type(self, owner, assoc, ctx):
        """Self::Stat, Self::Posterior, Self::MCache, Self::PpCache, Self::Parameters from the `type X = ...;` items"""
        cands = self.reg.assoc.get(owner, [])
        fi = ctx.fi if ctx else None
        best = None
        for (tname, targ, d, macro) in cands:
            if assoc in d:
                if fi is not None and fi.trait == tname and (fi.trait_arg == targ):
                    best = d[assoc]
                    break
                if best is None:
                    best = d[assoc]
        if best is None:
            return None
        return self.rust_ty(best, ctx)

    def stat_of(self, fx, ctx):
        fx = fx.strip()
        if ctx and fx in ctx.generic_map:
            t = ctx.generic_map[fx]
            if isinstance(t, tuple) and t[0] == 'struct':
                fx = t[1]
        for (tname, targ, d, macro) in self.reg.assoc.get(fx, []):
            if tname == 'HasSuffStat' and 'Stat' in d:
                return self.rust_ty(d['Stat'], Ctx(fx, ctx.kind if ctx else None, None))
        return ('other', 'Stat of ' + fx)

    # ------------------------------------------------------------------ struct models
    def struct_model(self, name):
        if name in self.struct_models:
            return self.struct_models[name]
        if name not in self.reg.structs:
            raise Unsupported(f'unknown struct {name}')
        file, fields = self.reg.structs[name]
        ctx = Ctx(name, None, None)
        out = []
        self.struct_models[name] = out   # allow recursion
        for g, gt in STRUCT_GENERIC_DEFAULT.get(name, {}).items():
            ctx.generic_map[g] = gt
        for (fname, fty, attrs) in fields:
            t = self.rust_ty(fty, ctx)
            if isinstance(t, tuple) and t[0] == 'cache':
                continue
            if isinstance(t, tuple) and t[0] == 'other':
                del self.struct_models[name]
                raise Unsupported(f'struct {name}: field {fname} of type {fty}')
            if isinstance(t, tuple) and t[0] == 'struct':
                self.struct_model(t[1])
            if isinstance(t, tuple) and t[0] in ('list', 'opt') and isinstance(t[1], tuple) and t[1][0] == 'other':
                del self.struct_models[name]
                raise Unsupported(f'struct {name}: field {fname} of type {fty}')
            out.append((fname, t))
        self.struct_order.append(name)
        return out

    def cache_fields(self, name):
        file, fields = self.reg.structs[name]
        ctx = Ctx(name, None, None)
        return [f for (f, ty, a) in fields if isinstance(self.rust_ty(ty, ctx), tuple) and self.rust_ty(ty, ctx)[0] == 'cache']


def split_top(s):
    parts, depth, cur = [], 0, ''
    for ch in s:
        if ch in '<([':
            depth += 1
        elif ch in '>)]':
            depth -= 1
        if ch == ',' and depth == 0:
            parts.append(cur.strip())
            cur = ''
        else:
            cur += ch
    if cur.strip():
        parts.append(cur.strip())
    return parts
