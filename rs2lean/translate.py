#!/usr/bin/env python3
"""Function-level translation (expressions, statements, method resolution)."""
import re
from rsparse import Unsupported
from registry import kind_class, REAL_KINDS, NAT_KINDS, INT_KINDS, BITS
from emit import (Tr, Ctx, UNARY, PRED, BINARY, CONSTS, PRIM_FREE, BESSEL, lname, lit, is_real_lit, ty_str)

NUMERIC = ('real', 'nat', 'int')


def is_list(t):
    return isinstance(t, tuple) and t[0] == 'list'


def is_opt(t):
    return isinstance(t, tuple) and t[0] == 'opt'


def is_struct(t):
    return isinstance(t, tuple) and t[0] == 'struct'


def is_tup(t):
    return isinstance(t, tuple) and t[0] == 'tup'


class FnTr:
    """translates one function body in a context"""

    def __init__(self, tr: Tr, ctx: Ctx):
        self.tr = tr
        self.c = ctx
        self.fresh = 0

    def gensym(self, base='t'):
        self.fresh += 1
        return f'{base}_{self.fresh}'

    # ------------------------------------------------------------ conversions
    def convert(self, s, t, target):
        if t == target or target in ('unknown', None):
            return s, t
        if target == 'real' and t == 'nat':
            return f'(RealLike.ofNatR {s})', 'real'
        if target == 'real' and t == 'int':
            return f'(RealLike.ofIntR {s})', 'real'
        if target == 'real' and t == 'bool':
            return f'(if {s} then (1.0 : α) else (0.0 : α))', 'real'
        if target == 'nat' and t == 'real':
            return f'(RealLike.toNat {s})', 'nat'
        if target == 'int' and t == 'real':
            return f'(RealLike.toInt {s})', 'int'
        if target == 'nat' and t == 'int':
            return f'(Int.toNat {s})', 'nat'
        if target == 'int' and t == 'nat':
            return f'(Int.ofNat {s})', 'int'
        if target == 'nat' and t == 'bool':
            return f'(if {s} then 1 else 0)', 'nat'
        if t == 'unknown':
            return s, target
        raise Unsupported(f'convert {t} -> {target}')

    def cast(self, s, t, tystr):
        """`e as T`"""
        c = self.c
        ts = tystr.strip()
        kdep = ts in ('$kind', '$ kind', '$') or ts in c.generic_map
        if ts in ('$kind', '$ kind', '$'):
            ts = c.kind or 'f64'
        target = self.tr.rust_ty(ts, c)
        if kdep and target in ('nat', 'int'):
            # the width of the observation type is a parameter of the model (`kbits`)
            c.uses_kbits = True
            if t == 'real':
                self.tr.cur_notes.append('float -> $kind cast: truncating, saturating at the width of the kind')
                return (f'(satNat kbits (RealLike.toNat {s}))', 'nat') if target == 'nat' else (f'(satInt kbits (RealLike.toInt {s}))', 'int')
            if t in ('nat', 'int'):
                self.tr.cur_notes.append('integer -> $kind cast: wrapping at the width of the kind')
                if target == 'nat':
                    src = s if t == 'nat' else f'(Int.toNat (({s}) % ((2:Int)^kbits)))'
                    return f'(wrapNat kbits {src})', 'nat'
                src = s if t == 'int' else f'(Int.ofNat {s})'
                return f'(wrapInt kbits {src})', 'int'
        if target == t:
            # same class: width change. nat -> narrower nat wraps; model it when the target kind is narrower than 64
            if t in ('nat', 'int') and ts in BITS and BITS[ts] < 64:
                fn = 'wrapNat' if t == 'nat' else 'wrapInt'
                self.tr.cur_notes.append(f'wrapping cast to {ts}')
                return f'({fn} {BITS[ts]} {s})', t
            return s, t
        if t in ('nat', 'int') and target in ('nat', 'int'):
            # sign change: i -> u wraps negative values; u -> i wraps large values
            if target == 'nat':
                bits = BITS.get(ts, 64)
                return f'(Int.toNat (({s}) % ((2:Int)^{bits})))', 'nat'
            else:
                bits = BITS.get(ts, 64)
                if bits < 64:
                    return f'(wrapInt {bits} (Int.ofNat {s}))', 'int'
                return f'(Int.ofNat {s})', 'int'
        return self.convert(s, t, target)

    # ------------------------------------------------------------ expressions
    def expr(self, e, want=None):
        """returns (lean_str, type). `want` is a type hint for literals."""
        k = e[0]
        c = self.c
        if k == 'num':
            v = e[1]
            if is_real_lit(v):
                s = lit(v)
                if '.' not in s and 'e' not in s.lower():
                    s += '.0'
                if s.endswith('.'):
                    s += '0'
                return f'({s} : α)', 'real'
            n = lit(v)
            if v.endswith(('i8', 'i16', 'i32', 'i64', 'isize')) or want == 'int':
                return f'({n} : Int)', 'int'
            if want == 'real':
                return f'({n}.0 : α)', 'real'
            return f'({n} : Nat)', 'nat'
        if k == 'paren':
            s, t = self.expr(e[1], want)
            return s, t
        if k == 'neg':
            inner = e[1]
            s, t = self.expr(inner, want)
            if t == 'nat':
                return f'(-(Int.ofNat {s}))', 'int'
            return f'(-{s})', t
        if k == 'not':
            s, t = self.expr(e[1])
            if t != 'bool':
                raise Unsupported(f'! on {t}')
            return f'(!{s})', 'bool'
        if k in ('deref', 'ref'):
            return self.expr_top(e) if k == 'deref' else self.expr(e[1], want)
        if k == 'path':
            return self.path(e[1])
        if k == 'field':
            return self.field(e)
        if k == 'tupidx':
            s, t = self.expr(e[1])
            if is_tup(t):
                n = len(t[1])
                i = e[2]
                # right-nested pairs
                acc = s
                for _ in range(i):
                    acc = f'{acc}.2'
                if i < n - 1:
                    acc = f'{acc}.1'
                return f'({acc})', t[1][i]
            raise Unsupported(f'tuple index on {t}')
        if k == 'bin':
            return self.binop(e, want)
        if k == 'cast':
            s, t = self.expr(e[1])
            return self.cast(s, t, e[2])
        if k == 'call':
            return self.call(e, want)
        if k == 'mcall':
            return self.mcall(e, want)
        if k == 'if':
            return self.if_expr(e, want)
        if k == 'block':
            return self.block_value(e, want)
        if k == 'tuple':
            parts = [self.expr(x) for x in e[1]]
            if not parts:
                return '()', 'unit'
            return '(' + ', '.join(p[0] for p in parts) + ')', ('tup', tuple(p[1] for p in parts))
        if k == 'index':
            s, t = self.expr(e[1])
            if e[2][0] == 'range':
                lo = self.expr(e[2][1])[0] if e[2][1] is not None else '0'
                if e[2][2] is None:
                    return f'(List.drop {lo} {s})', t
                hi = self.expr(e[2][2])[0]
                if e[2][3]:
                    hi = f'({hi} + 1)'
                return f'(List.take ({hi} - {lo}) (List.drop {lo} {s}))', t
            i, ti = self.expr(e[2])
            if ti == 'int':
                i = f'(Int.toNat {i})'
            if is_list(t):
                return self.index(s, t, i)
            raise Unsupported(f'index on {t}')
        if k == 'array':
            parts = [self.expr(x, want[1] if is_list(want) else None) for x in e[1]]
            et = parts[0][1] if parts else (want[1] if is_list(want) else 'real')
            return '[' + ', '.join(p[0] for p in parts) + ']', ('list', et)
        if k == 'arrayrep':
            v, tv = self.expr(e[1])
            n, tn = self.expr(e[2])
            return f'(List.replicate {n} {v})', ('list', tv)
        if k == 'macro':
            return self.macro(e, want)
        if k == 'match':
            return self.match_expr(e, want)
        if k == 'structlit':
            return self.structlit(e)
        if k == 'closure':
            raise Unsupported('closure in value position')
        if k == 'range':
            lo, tl = self.expr(e[1]) if e[1] is not None else ('0', 'nat')
            if e[2] is None:
                raise Unsupported('open range')
            hi, th = self.expr(e[2], tl if tl in ('nat', 'int') else None)
            if tl == 'nat' and th == 'nat':
                cnt = f'({hi} + 1 - {lo})' if e[3] else f'({hi} - {lo})'
                return f'(List.range\' {lo} {cnt})', ('list', 'nat')
            if tl == 'int' or th == 'int':
                lo, _ = self.convert(lo, tl, 'int')
                hi, _ = self.convert(hi, th, 'int')
                return f'(intRange {lo} {hi} {"true" if e[3] else "false"})', ('list', 'int')
            raise Unsupported(f'range over {tl}')
        if k == 'try':
            raise Unsupported('? operator in value position')
        if k == 'return':
            raise Unsupported('return in value position')
        raise Unsupported(f'expr kind {k}')

    def index(self, s, t, i):
        et = t[1]
        if et == 'real':
            return f'(idxR {s} {i})', et
        if et == 'nat':
            return f'(List.getD {s} {i} 0)', et
        if et == 'int':
            return f'(List.getD {s} {i} (0:Int))', et
        if et == 'bool':
            return f'(List.getD {s} {i} false)', et
        if is_list(et):
            return f'(List.getD {s} {i} [])', et
        raise Unsupported(f'index of list of {et}')

    def path(self, p):
        c = self.c
        name = p[-1]
        if len(p) == 1 and name in c.env:
            return lname(name), c.env[name]
        if p == ['self']:
            return 'self', ('struct', c.owner)
        if name in CONSTS and (len(p) == 1 or p[0] in ('f64', 'std', 'consts', 'crate', 'core', 'f32')):
            if len(p) == 1 and name in ('MAX', 'EPSILON', 'NAN', 'INFINITY', 'NEG_INFINITY', 'MIN_POSITIVE'):
                raise Unsupported(f'bare const {name}')
            return f'({CONSTS[name]} : α)', 'real'
        if name == 'MAX' and len(p) == 2 and p[0] in BITS:
            bits = BITS[p[0]]
            if p[0] in NAT_KINDS:
                return f'(2^{bits} - 1 : Nat)', 'nat'
            return f'(2^{bits - 1} - 1 : Int)', 'int'
        if name == 'true' or name == 'false':
            return name, 'bool'
        if name == 'None' and len(p) == 1:
            return 'none', ('opt', 'unknown')
        if len(p) == 1 and name in self.tr.reg.consts:
            return self.const_ref(name)
        raise Unsupported(f'path {"::".join(p)}')

    def const_ref(self, name):
        file, ty, ex = self.tr.reg.consts[name]
        t = self.tr.rust_ty(ty, self.c)
        if t in ('real', 'nat', 'int'):
            sub = FnTr(self.tr, Ctx('', None, None))
            s, t2 = sub.expr(ex, t)
            s, t2 = sub.convert(s, t2, t)
            return s, t
        if is_list(t):
            if name not in self.tr.const_defs:
                sub = FnTr(self.tr, Ctx('', None, None))
                s, t2 = sub.expr(ex, t)
                self.tr.const_defs[name] = (f'def {name} {{α : Type}} [RealLike α] : {ty_str(t)} :=\n  {s}', file)
            return f'({name} (α := α))', t
        raise Unsupported(f'const {name} of type {ty}')

    def field(self, e):
        c = self.c
        base, bt = self.expr(e[1])
        if is_struct(bt):
            fields = dict(self.tr.struct_model(bt[1]))
            if e[2] in fields:
                return f'{base}.{lname(e[2])}', fields[e[2]]
            if e[2] in self.tr.cache_fields(bt[1]):
                raise Unsupported(f'direct cache field access {bt[1]}.{e[2]}')
            raise Unsupported(f'unknown field {bt[1]}.{e[2]}')
        raise Unsupported(f'field .{e[2]} of {bt}')

    def binop(self, e, want=None):
        op = e[1]
        if op in ('&&', '||'):
            a, ta = self.expr(e[2])
            b, tb = self.expr(e[3])
            if ta != 'bool' or tb != 'bool':
                raise Unsupported(f'logic on {ta},{tb}')
            return f'({a} {op} {b})', 'bool'
        hint = want if want in NUMERIC else None
        # literal typing: translate the non-literal side first
        lhs, rhs = e[2], e[3]
        def is_litlike(x):
            return x[0] == 'num' or (x[0] == 'neg' and x[1][0] == 'num') or (x[0] == 'paren' and is_litlike(x[1]))
        if is_litlike(lhs) and not is_litlike(rhs):
            b, tb = self.expr(rhs, hint)
            a, ta = self.expr(lhs, tb if tb in NUMERIC else hint)
        else:
            a, ta = self.expr(lhs, hint)
            b, tb = self.expr(rhs, ta if ta in NUMERIC else hint)
        if op in ('+', '-', '*', '/', '%'):
            if ta == tb == 'real':
                if op == '%':
                    raise Unsupported('float %')
                return f'({a} {op} {b})', 'real'
            if ta == tb and ta in ('nat', 'int') and op in ('+', '*') and (self.is_kind_var(lhs) or self.is_kind_var(rhs)):
                # arithmetic in the observation's own integer type wraps at its width (release build; debug panics)
                self.c.uses_kbits = True
                self.tr.cur_notes.append('arithmetic in $kind wraps at the width of the kind (release build)')
                fn = 'wrapNat' if ta == 'nat' else 'wrapInt'
                return f'({fn} kbits ({a} {op} {b}))', ta
            if ta == tb and ta in ('nat', 'int'):
                if op == '-' and ta == 'nat':
                    self.tr.cur_notes.append('unsigned subtraction modelled as truncated')
                if op == '/' and ta == 'int':
                    return f'(Int.tdiv {a} {b})', 'int'
                if op == '%' and ta == 'int':
                    return f'(Int.tmod {a} {b})', 'int'
                return f'({a} {op} {b})', ta
            if {ta, tb} == {'nat', 'int'}:
                a, _ = self.convert(a, ta, 'int')
                b, _ = self.convert(b, tb, 'int')
                return f'({a} {op} {b})', 'int'
            raise Unsupported(f'arith {op} on {ta},{tb}')
        if op in ('<', '<=', '>', '>=', '==', '!='):
            if ta == tb == 'real':
                fn = {'<': 'RealLike.lt', '<=': 'RealLike.le', '>': 'RealLike.gt', '>=': 'RealLike.ge',
                      '==': 'RealLike.feq', '!=': 'RealLike.fne'}[op]
                return f'({fn} {a} {b})', 'bool'
            if {ta, tb} == {'nat', 'int'}:
                a, _ = self.convert(a, ta, 'int')
                b, _ = self.convert(b, tb, 'int')
                ta = tb = 'int'
            if ta == tb and ta in ('nat', 'int', 'bool'):
                if op in ('==', '!='):
                    return f'({a} {op} {b})', 'bool'
                return f'(decide ({a} {op} {b}))', 'bool'
            if ta == tb and is_list(ta) and ta[1] in ('nat', 'int', 'bool') and op in ('==', '!='):
                return f'({a} {op} {b})', 'bool'
            raise Unsupported(f'cmp {op} on {ta},{tb}')
        raise Unsupported(f'binop {op}')

    def is_kind_var(self, e):
        while e[0] in ('paren', 'deref', 'ref'):
            e = e[1]
        return e[0] == 'path' and len(e[1]) == 1 and e[1][0] in getattr(self.c, 'kind_vars', ())

    def if_expr(self, e, want=None):
        cond, tc = self.expr(e[1])
        if tc != 'bool':
            raise Unsupported(f'if on {tc}')
        th, tt = self.block_value(e[2], want)
        if e[3] is None:
            raise Unsupported('if without else in value position')
        el, te = (self.if_expr(e[3], want or tt) if e[3][0] == 'if' else self.block_value(e[3], want or tt))
        t = self.unify(tt, te)
        return f'(if {cond} then {th} else {el})', t

    def unify(self, a, b):
        if a == b:
            return a
        if a == 'unknown' or a == 'never':
            return b
        if b == 'unknown' or b == 'never':
            return a
        if is_opt(a) and is_opt(b):
            return ('opt', self.unify(a[1], b[1]))
        if isinstance(a, tuple) and isinstance(b, tuple) and a[0] == b[0] == 'except':
            return ('except', self.unify(a[1], b[1]))
        if is_list(a) and is_list(b):
            return ('list', self.unify(a[1], b[1]))
        raise Unsupported(f'branch types differ: {a} vs {b}')

    def structlit(self, e):
        path, fields = e[1], e[2]
        name = path[-1]
        c = self.c
        if name == 'Self' or (len(path) == 2 and path[0] == 'Self' and path[1] == 'Parameters'):
            name = c.owner if name == 'Self' else c.owner + 'Parameters'
        if name == 'Parameters' and path[0] == 'Self':
            name = c.owner + 'Parameters'
        model = self.tr.struct_model(name)
        given = {}
        base = None
        for f in fields:
            if f[0] == '..':
                base = self.expr(f[1])[0]
            else:
                given[f[0]] = f[1]
        parts = []
        for (fname, ft) in model:
            if fname in given:
                s, t = self.expr(given[fname], ft)
                s, t = self.convert(s, t, ft) if t in NUMERIC and ft in NUMERIC else (s, t)
                parts.append(f'{lname(fname)} := {s}')
            elif base is None:
                raise Unsupported(f'struct literal {name} missing field {fname}')
        if base is not None:
            return f'({{ {base} with {", ".join(parts)} }} : {name} α)', ('struct', name)
        return f'({{ {", ".join(parts)} }} : {name} α)', ('struct', name)

    def macro(self, e, want):
        name = e[1]
        if name == 'vec':
            toks = e[2]
            import rsparse
            p = rsparse.Parser(list(toks))
            if not toks:
                return '[]', ('list', want[1] if is_list(want) else 'unknown')
            first = p.parse_expr()
            if p.accept(';'):
                n = p.parse_expr()
                v, tv = self.expr(first, want[1] if is_list(want) else None)
                ns, tn = self.expr(n)
                return f'(List.replicate {ns} {v})', ('list', tv)
            elems = [first]
            while p.accept(','):
                if p.peek()[0] == 'eof':
                    break
                elems.append(p.parse_expr())
            parts = [self.expr(x, want[1] if is_list(want) else None) for x in elems]
            return '[' + ', '.join(x[0] for x in parts) + ']', ('list', parts[0][1])
        if name in ('panic', 'unreachable', 'unimplemented', 'todo'):
            self.tr.cur_notes.append(f'{name}! modelled as the carrier NaN / default')
            return self.panic_value(want), (want or 'never')
        raise Unsupported(f'macro {name}!')

    def panic_value(self, want):
        if want == 'real' or want is None:
            return '(RealLike.nan : α)'
        if want == 'nat':
            return '(0 : Nat)'
        if want == 'int':
            return '(0 : Int)'
        if want == 'bool':
            return 'false'
        raise Unsupported(f'panic in position of type {want}')

    # ------------------------------------------------------------ blocks
    def expr_top(self, e, want=None):
        # cache getter pattern: *self.c.get_or_init(|| E)
        if e[0] == 'deref' and e[1][0] == 'mcall' and e[1][2] == 'get_or_init':
            clos = e[1][3][0]
            if clos[0] == 'closure' and not clos[1]:
                return self.expr(clos[2], want) if clos[2][0] != 'block' else self.block_value(clos[2], want)
        if e[0] == 'mcall' and e[2] == 'get_or_init':
            clos = e[3][0]
            if clos[0] == 'closure' and not clos[1]:
                return self.expr(clos[2], want) if clos[2][0] != 'block' else self.block_value(clos[2], want)
        if e[0] == 'deref':
            return self.expr(e[1], want)
        return self.expr(e, want)

    def block_value(self, b, want=None):
        """block used as a value (no outer mutation escapes except through `seq`)"""
        if b[0] != 'block':
            return self.expr(b, want)
        saved = dict(self.c.env)
        try:
            return self.seq(list(b[1]), b[2], want, is_fn_body=False)
        finally:
            self.c.env = saved

    # statement sequence -> (term, type).  `final` may be None (unit).
    def seq(self, stmts, final, want, is_fn_body):
        c = self.c
        if not stmts:
            if final is None:
                return self.unit_value(is_fn_body)
            if final[0] == 'return':
                return self.ret_value(final[1], want)
            if final[0] in ('if', 'match', 'for', 'while') and self.is_stmt_like(final):
                return self.seq([('expr', final)], None, want, is_fn_body)
            if final[0] == 'assign' or (final[0] == 'mcall' and final[2] == 'for_each'):
                return self.seq([('expr', final)], None, want, is_fn_body)
            s, t = self.expr_top(final, want)
            return self.wrap_result(s, t, is_fn_body)
        st = stmts[0]
        rest = stmts[1:]
        if st[0] == 'let':
            pat, ty, init = st[1], st[2], st[3]
            if init is None:
                raise Unsupported('let without initialiser')
            wt = self.tr.rust_ty(ty, c) if ty is not None else None
            if wt is not None and isinstance(wt, tuple) and wt[0] == 'other':
                wt = None
            if init[0] == 'try':
                s, t = self.expr_top(init[1], ('except', wt) if wt else None)
                if not (isinstance(t, tuple) and t[0] == 'except'):
                    raise Unsupported(f'? on {t}')
                binder = self.bind_pattern(pat, t[1], init)
                body, bt = self.seq(rest, final, want, is_fn_body)
                return f'(match {s} with | Except.error err_ => Except.error err_ | Except.ok {binder} => {body})', bt
            s, t = self.expr_top(init, wt)
            if wt in NUMERIC and t in NUMERIC:
                s, t = self.convert(s, t, wt)
            if wt is not None and t in ('unknown',):
                t = wt
            if wt is not None and is_list(wt) and is_list(t) and t[1] == 'unknown':
                t = wt
            binder = self.bind_pattern(pat, t, init)
            body, bt = self.seq(rest, final, want, is_fn_body)
            return f'(let {binder} := {s}; {body})', bt
        if st[0] == 'expr':
            ex = st[1]
            return self.stmt(ex, rest, final, want, is_fn_body)
        raise Unsupported(f'statement {st[0]}')

    def is_stmt_like(self, e):
        if e[0] in ('for', 'while'):
            return True
        if e[0] == 'if':
            return e[3] is None or self.assigned_in(e[2]) or self.returns(e[2])
        return False

    def unit_value(self, is_fn_body):
        c = self.c
        if is_fn_body and c.mutself:
            return 'self', ('struct', c.owner)
        return '()', 'unit'

    def wrap_result(self, s, t, is_fn_body):
        """at the end of a `&mut self` function body, pair the result with the final `self`"""
        c = self.c
        if is_fn_body and c.mutself:
            if t == 'unit':
                return 'self', ('struct', c.owner)
            if isinstance(t, tuple) and t[0] == 'except':
                return s, t   # Ok(()) was already mapped to `.ok self`
            return f'(self, {s})', ('tup', (('struct', c.owner), t))
        return s, t

    def ret_value(self, e, want):
        if e is None:
            return self.unit_value(True)
        s, t = self.expr_top(e, self.c.ret)
        return self.wrap_result(s, t, True)

    def bind_pattern(self, pat, t, init=None):
        c = self.c
        if pat[0] == 'pvar':
            c.env[pat[1]] = t
            return lname(pat[1])
        if pat[0] == 'pwild':
            return '_'
        if pat[0] == 'ptuple':
            if not is_tup(t) or len(t[1]) != len(pat[1]):
                raise Unsupported(f'tuple pattern against {t}')
            return '(' + ', '.join(self.bind_pattern(p, ti) for p, ti in zip(pat[1], t[1])) + ')'
        if pat[0] == 'pstruct':
            # let Params { a, b } = expr  -> ⟨a, b⟩ in model field order
            if not is_struct(t):
                raise Unsupported(f'struct pattern against {t}')
            model = self.tr.struct_model(t[1])
            given = {fname: fp for fname, fp in pat[2]}
            parts = []
            for (fname, ft) in model:
                if fname in given:
                    parts.append(self.bind_pattern(given[fname], ft))
                else:
                    parts.append('_')
            return '⟨' + ', '.join(parts) + '⟩'
        raise Unsupported(f'let pattern {pat[0]}')

    # ---- mutation analysis
    def assigned_in(self, b):
        """names of outer variables (incl. 'self') assigned inside block/expr b"""
        out = []
        declared = set()

        def target_root(e):
            while e[0] in ('field', 'index', 'deref', 'paren', 'tupidx'):
                e = e[1]
            if e[0] == 'path' and len(e[1]) == 1:
                return e[1][0]
            return None

        def visit(e, declared):
            if e is None or not isinstance(e, tuple):
                return
            k = e[0]
            if k == 'block':
                d2 = set(declared)
                for st in e[1]:
                    if st[0] == 'let':
                        visit(st[3], d2)
                        for n in pat_names(st[1]):
                            d2.add(n)
                    else:
                        visit(st[1], d2)
                visit(e[2], d2)
            elif k == 'assign':
                r = target_root(e[2])
                if r and r not in declared and r not in out:
                    out.append(r)
                visit(e[3], declared)
            elif k == 'mcall':
                r = target_root(e[1])
                if r and r not in declared and self.is_mutating_call(e, r):
                    if r not in out:
                        out.append(r)
                visit(e[1], declared)
                for a in e[3]:
                    visit(a, declared)
            elif k in ('if',):
                visit(e[1], declared); visit(e[2], declared); visit(e[3], declared)
            elif k == 'iflet':
                visit(e[2], declared); visit(e[3], declared); visit(e[4], declared)
            elif k == 'for':
                visit(e[2], declared)
                d2 = set(declared) | set(pat_names(e[1]))
                visit(e[3], d2)
            elif k == 'while':
                visit(e[1], declared); visit(e[2], declared)
            elif k == 'loop':
                visit(e[1], declared)
            elif k == 'match':
                visit(e[1], declared)
                for pats, guard, body in e[2]:
                    d2 = set(declared)
                    for p in pats:
                        d2 |= set(pat_names(p))
                    visit(body, d2)
            elif k == 'closure':
                d2 = set(declared)
                for p in e[1]:
                    d2 |= set(pat_names(p))
                visit(e[2], d2)
            elif k in ('paren', 'neg', 'not', 'deref', 'ref', 'try', 'return'):
                visit(e[1], declared)
            elif k == 'bin':
                visit(e[2], declared); visit(e[3], declared)
            elif k == 'call':
                for a in e[2]:
                    visit(a, declared)
            elif k in ('tuple', 'array'):
                for a in e[1]:
                    visit(a, declared)
        visit(b, declared)
        return out

    MUT_LIST_METHODS = {'push', 'clear', 'truncate', 'extend', 'insert', 'remove', 'swap', 'sort', 'pop',
                        'sort_by', 'sort_unstable_by', 'reverse', 'resize', 'iter_mut', 'extend_from_slice'}

    def is_mutating_call(self, e, root):
        name = e[2]
        c = self.c
        if root == 'self' and e[1] == ('path', ['self']):
            fi = self.tr.resolve_method(c.owner, name, c.kind)
            if fi is not None:
                ps = fi.fn[2]
                return bool(ps) and ps[0] == ('self', '&mut Self')
            return False
        if name in self.MUT_LIST_METHODS:
            return True
        # method on a struct-typed local / field with &mut self
        try:
            saved = list(self.tr.cur_notes)
            s, t = self.expr(e[1])
            self.tr.cur_notes[:] = saved
        except Unsupported:
            return False
        if is_struct(t):
            fi = self.tr.resolve_method(t[1], name, c.kind)
            if fi is not None:
                ps = fi.fn[2]
                return bool(ps) and ps[0] == ('self', '&mut Self')
        return False

    def returns(self, b):
        """does block b always end in `return`?"""
        if b is None:
            return False
        if b[0] == 'block':
            if b[2] is not None:
                return self.returns(b[2])
            if b[1]:
                last = b[1][-1]
                return last[0] == 'expr' and self.returns(last[1])
            return False
        if b[0] == 'return':
            return True
        if b[0] == 'if':
            return b[3] is not None and self.returns(b[2]) and self.returns(b[3])
        if b[0] == 'macro' and b[1] in ('panic', 'unreachable'):
            return True
        return False

    def contains_return(self, b):
        found = [False]

        def visit(e):
            if not isinstance(e, tuple) or found[0]:
                return
            if e and e[0] == 'return':
                found[0] = True
                return
            if e and e[0] == 'closure':
                return
            for x in e:
                if isinstance(x, tuple):
                    visit(x)
                elif isinstance(x, list):
                    for y in x:
                        if isinstance(y, tuple):
                            visit(y)
                        elif isinstance(y, list):
                            for z in y:
                                visit(z) if isinstance(z, tuple) else None
        visit(b)
        return found[0]

    def state_tuple(self, names):
        if len(names) == 1:
            return lname(names[0])
        return '(' + ', '.join(lname(n) for n in names) + ')'

    def branch_state(self, b, names, want, is_fn_body):
        """translate block b executed for its effects on `names`; value = state tuple"""
        saved = dict(self.c.env)
        try:
            stmts = list(b[1]) if b[0] == 'block' else [('expr', b)]
            final = b[2] if b[0] == 'block' else None
            if final is not None:
                stmts = stmts + [('expr', final)]
            marker = ('__state__', names)
            return self.seq_state(stmts, names)
        finally:
            self.c.env = saved

    def seq_state(self, stmts, names):
        """like seq but the final value is the state tuple of `names`"""
        return self.seq(stmts, ('__state__', names), None, False)

    # ---- statements
    def stmt(self, ex, rest, final, want, is_fn_body):
        c = self.c
        k = ex[0]
        if k == 'macro' and ex[1] in ('debug_assert', 'assert', 'assert_eq', 'debug_assert_eq', 'println', 'eprintln',
                                      'dbg', 'assert_ne', 'debug_assert_ne'):
            if ex[1].startswith('assert') or ex[1].startswith('debug_assert'):
                self.tr.cur_notes.append(f'{ex[1]}! dropped (precondition)')
            return self.seq(rest, final, want, is_fn_body)
        if k == 'return':
            return self.ret_value(ex[1], want)
        if k == 'try':
            s, t = self.expr_top(ex[1])
            if not (isinstance(t, tuple) and t[0] == 'except'):
                raise Unsupported(f'? on {t}')
            body, bt = self.seq(rest, final, want, is_fn_body)
            return f'(match {s} with | Except.error err_ => Except.error err_ | Except.ok _ => {body})', bt
        if k == 'assign':
            return self.assign(ex, rest, final, want, is_fn_body)
        if k == 'if':
            return self.if_stmt(ex, rest, final, want, is_fn_body)
        if k == 'for':
            return self.for_stmt(ex, rest, final, want, is_fn_body)
        if k == 'mcall':
            return self.mcall_stmt(ex, rest, final, want, is_fn_body)
        if k == 'match':
            return self.match_stmt(ex, rest, final, want, is_fn_body)
        if k == 'while':
            return self.while_stmt(ex, rest, final, want, is_fn_body)
        if k == 'block':
            names = self.assigned_in(ex)
            if not names:
                return self.seq(rest, final, want, is_fn_body)
            s, t = self.branch_state(ex, names, want, is_fn_body)
            body, bt = self.seq(rest, final, want, is_fn_body)
            return f'(let {self.state_tuple(names)} := {s}; {body})', bt
        if k == 'macro' and ex[1] in ('panic', 'unreachable'):
            self.tr.cur_notes.append('panic! modelled as default value')
            rt = c.ret
            return self.panic_value(rt if rt in NUMERIC or rt == 'bool' else None), rt or 'never'
        # pure expression statement: ignore
        if k in ('call', 'path', 'num'):
            return self.seq(rest, final, want, is_fn_body)
        raise Unsupported(f'statement kind {k}')

    def assign(self, ex, rest, final, want, is_fn_body):
        c = self.c
        op, lhs, rhs = ex[1], ex[2], ex[3]
        # cache reset: self.cache = OnceLock::new()  (dropped, recorded as fact elsewhere)
        if lhs[0] == 'field' and lhs[1] == ('path', ['self']) and lhs[2] in self.tr.cache_fields(c.owner):
            return self.seq(rest, final, want, is_fn_body)
        if lhs[0] == 'deref':
            lhs = lhs[1]
        cur, tcur = self.expr(lhs)
        r, tr_ = self.expr_top(rhs, tcur)
        if tcur in NUMERIC and tr_ in NUMERIC and tcur != tr_:
            r, tr_ = self.convert(r, tr_, tcur)
        if op != '=':
            o = op[0]
            if tcur == 'nat' and o == '-':
                self.tr.cur_notes.append('unsigned subtraction modelled as truncated')
            newv = f'({cur} {o} {r})'
        else:
            newv = r
        binder, newroot = self.update_place(lhs, newv)
        body, bt = self.seq(rest, final, want, is_fn_body)
        return f'(let {binder} := {newroot}; {body})', bt

    def update_place(self, place, newv):
        """returns (root variable binder, expression for the new root value)"""
        if place[0] == 'path' and len(place[1]) == 1:
            n = place[1][0]
            if n not in self.c.env and n != 'self':
                raise Unsupported(f'assignment to unknown {n}')
            return lname(n), newv
        if place[0] == 'field':
            base, bt = self.expr(place[1])
            upd = f'({{ {base} with {lname(place[2])} := {newv} }} : {ty_str(bt)})'
            return self.update_place(place[1], upd)
        if place[0] == 'index':
            base, bt = self.expr(place[1])
            i, ti = self.expr(place[2])
            upd = f'(List.set {base} {i} {newv})'
            return self.update_place(place[1], upd)
        if place[0] in ('deref', 'paren'):
            return self.update_place(place[1], newv)
        raise Unsupported(f'assignment target {place[0]}')

    def if_stmt(self, ex, rest, final, want, is_fn_body):
        c = self.c
        cond, tc = self.expr(ex[1])
        if tc != 'bool':
            raise Unsupported(f'if on {tc}')
        then_b, else_b = ex[2], ex[3]
        # early return in a branch: push the continuation into the other branch
        if self.returns(then_b):
            saved = dict(c.env)
            th, tt = self.seq(list(then_b[1]), then_b[2], want, True) if then_b[0] == 'block' else self.stmt(then_b, [], None, want, True)
            c.env = saved
            if else_b is None:
                el, te = self.seq(rest, final, want, is_fn_body)
            else:
                stm = (list(else_b[1]) + ([('expr', else_b[2])] if else_b[2] is not None else [])) if else_b[0] == 'block' else [('expr', else_b)]
                el, te = self.seq(stm + rest, final, want, is_fn_body)
            c.env = saved
            return f'(if {cond} then {th} else {el})', self.unify_safe(tt, te)
        if else_b is not None and self.returns(else_b):
            saved = dict(c.env)
            stm = (list(then_b[1]) + ([('expr', then_b[2])] if then_b[2] is not None else []))
            th, tt = self.seq(stm + rest, final, want, is_fn_body)
            c.env = saved
            el, te = (self.seq(list(else_b[1]), else_b[2], want, True) if else_b[0] == 'block'
                      else self.stmt(else_b, [], None, want, True))
            c.env = saved
            return f'(if {cond} then {th} else {el})', self.unify_safe(tt, te)
        if self.contains_return(then_b) or (else_b is not None and self.contains_return(else_b)):
            # nested early return: duplicate the continuation into both branches
            saved = dict(c.env)
            stm = (list(then_b[1]) + ([('expr', then_b[2])] if then_b[2] is not None else []))
            th, tt = self.seq(stm + rest, final, want, is_fn_body)
            c.env = dict(saved)
            if else_b is None:
                el, te = self.seq(rest, final, want, is_fn_body)
            else:
                stm = (list(else_b[1]) + ([('expr', else_b[2])] if else_b[2] is not None else [])) if else_b[0] == 'block' else [('expr', else_b)]
                el, te = self.seq(stm + rest, final, want, is_fn_body)
            c.env = saved
            return f'(if {cond} then {th} else {el})', self.unify_safe(tt, te)
        names = self.assigned_in(then_b)
        if else_b is not None:
            for n in self.assigned_in(else_b):
                if n not in names:
                    names.append(n)
        if not names:
            # value-less if without effects: if it is the last thing, its value matters
            if not rest and final is None and else_b is not None:
                s, t = self.if_expr(ex, want)
                return self.wrap_result(s, t, is_fn_body)
            return self.seq(rest, final, want, is_fn_body)
        if not rest and final is None and else_b is not None and (self.block_has_value(then_b)):
            # if/else whose branches mutate and yield the function result (e.g. setter: {..; Ok(())})
            saved = dict(c.env)
            th, tt = self.seq(list(then_b[1]), then_b[2], want, is_fn_body)
            c.env = dict(saved)
            if else_b[0] == 'if':
                el, te = self.if_stmt(else_b, [], None, want, is_fn_body)
            else:
                el, te = self.seq(list(else_b[1]), else_b[2], want, is_fn_body)
            c.env = saved
            return f'(if {cond} then {th} else {el})', self.unify_safe(tt, te)
        th, _ = self.branch_state(then_b, names, want, is_fn_body)
        if else_b is None:
            el = self.state_tuple(names)
        elif else_b[0] == 'if':
            el, _ = self.seq([('expr', else_b)], ('__state__', names), None, False)
        else:
            el, _ = self.branch_state(else_b, names, want, is_fn_body)
        body, bt = self.seq(rest, final, want, is_fn_body)
        return f'(let {self.state_tuple(names)} := (if {cond} then {th} else {el}); {body})', bt

    def block_has_value(self, b):
        return b[0] == 'block' and b[2] is not None

    def unify_safe(self, a, b):
        try:
            return self.unify(a, b)
        except Unsupported:
            return a

    def for_stmt(self, ex, rest, final, want, is_fn_body):
        c = self.c
        pat, it, body = ex[1], ex[2], ex[3]
        if self.contains_return(body):
            raise Unsupported('return inside for')
        lst, tl = self.iter_expr(it)
        names = self.assigned_in(body)
        names = [n for n in names if n not in pat_names(pat)]
        if not names:
            return self.seq(rest, final, want, is_fn_body)
        saved = dict(c.env)
        binder = self.bind_pattern(pat, tl[1])
        st, _ = self.branch_state(body, names, want, False)
        c.env = saved
        acc = self.state_tuple(names)
        fold = f'(List.foldl (fun {acc} {binder} => {st}) {acc} {lst})'
        cont, bt = self.seq(rest, final, want, is_fn_body)
        return f'(let {acc} := {fold}; {cont})', bt

    def while_stmt(self, ex, rest, final, want, is_fn_body):
        c = self.c
        cond_e, body = ex[1], ex[2]
        if self.contains_return(body):
            raise Unsupported('return inside while')
        names = self.assigned_in(body)
        if not names:
            raise Unsupported('while without state')
        acc = self.state_tuple(names)
        saved = dict(c.env)
        cond, tc = self.expr(cond_e)
        st, _ = self.branch_state(body, names, want, False)
        c.env = saved
        self.tr.cur_notes.append('while loop modelled with fuel 10000')
        loop = f'(whileFuel 10000 (fun {acc} => {cond}) (fun {acc} => {st}) {acc})'
        cont, bt = self.seq(rest, final, want, is_fn_body)
        return f'(let {acc} := {loop}; {cont})', bt

    def mcall_stmt(self, ex, rest, final, want, is_fn_body):
        c = self.c
        recv, name, args = ex[1], ex[2], ex[3]
        # iterator for_each with mutation
        if name == 'for_each' and len(args) == 1 and args[0][0] == 'closure':
            clos = args[0]
            names = self.assigned_in(clos[2])
            names = [n for n in names if all(n not in pat_names(p) for p in clos[1])]
            if not names:
                return self.seq(rest, final, want, is_fn_body)
            lst, tl = self.iter_expr(recv)
            saved = dict(c.env)
            binder = self.bind_pattern(clos[1][0], tl[1])
            st, _ = self.branch_state(clos[2], names, want, False)
            c.env = saved
            acc = self.state_tuple(names)
            fold = f'(List.foldl (fun {acc} {binder} => {st}) {acc} {lst})'
            cont, bt = self.seq(rest, final, want, is_fn_body)
            return f'(let {acc} := {fold}; {cont})', bt
        # mutating method call on a place
        root = None
        r = recv
        while r[0] in ('field', 'index', 'deref', 'paren'):
            r = r[1]
        if r[0] == 'path' and len(r[1]) == 1:
            root = r[1][0]
        if root is not None and (root in c.env or root == 'self'):
            if name in self.MUT_LIST_METHODS:
                cur, tcur = self.expr(recv)
                if is_list(tcur):
                    newv = self.list_mutation(cur, tcur, name, args)
                    binder, newroot = self.update_place(recv, newv)
                    cont, bt = self.seq(rest, final, want, is_fn_body)
                    return f'(let {binder} := {newroot}; {cont})', bt
            if self.is_mutating_call(ex, root):
                cur, tcur = self.expr(recv)
                if not is_struct(tcur):
                    raise Unsupported(f'mutating call on {tcur}')
                lean, ptys, rty = self.tr.request(tcur[1], name, c.kind)
                argstrs = self.call_args(args, ptys)
                if self.tr.defs[lean].get('kbits'):
                    argstrs = [self.kbits_arg(self.tr.defs[lean])] + argstrs
                call = f'({lean} {cur} {" ".join(argstrs)})' if argstrs else f'({lean} {cur})'
                # result is the new state (unit fns) / Except state / (state × value)
                if is_struct(rty):
                    binder, newroot = self.update_place(recv, call)
                    cont, bt = self.seq(rest, final, want, is_fn_body)
                    return f'(let {binder} := {newroot}; {cont})', bt
                if is_tup(rty):
                    tmp = self.gensym('r')
                    binder, newroot = self.update_place(recv, f'{tmp}.1')
                    cont, bt = self.seq(rest, final, want, is_fn_body)
                    return f'(let {tmp} := {call}; let {binder} := {newroot}; {cont})', bt
                raise Unsupported(f'mutating call returning {rty} used as statement')
        # otherwise: pure call used as statement -> ignore
        return self.seq(rest, final, want, is_fn_body)

    def list_mutation(self, cur, tcur, name, args):
        if name == 'push':
            v, tv = self.expr(args[0], tcur[1])
            if tcur[1] in NUMERIC and tv in NUMERIC:
                v, tv = self.convert(v, tv, tcur[1])
            return f'({cur} ++ [{v}])'
        if name == 'clear':
            return '[]'
        if name == 'truncate':
            n, _ = self.expr(args[0])
            return f'(List.take {n} {cur})'
        if name == 'pop':
            return f'(List.dropLast {cur})'
        if name == 'reverse':
            return f'(List.reverse {cur})'
        if name in ('extend', 'extend_from_slice'):
            v, tv = self.iter_expr(args[0])
            return f'({cur} ++ {v})'
        if name == 'remove':
            n, _ = self.expr(args[0])
            return f'(List.eraseIdx {cur} {n})'
        if name == 'insert':
            n, _ = self.expr(args[0])
            v, _ = self.expr(args[1], tcur[1])
            return f'(List.insertIdx {cur} {n} {v})'
        raise Unsupported(f'list mutation {name}')

    def match_stmt(self, ex, rest, final, want, is_fn_body):
        names = self.assigned_in(ex)
        if not rest and final is None:
            s, t = self.match_expr(ex, want, is_fn_body=is_fn_body, tail=True)
            return s, t
        if not names:
            return self.seq(rest, final, want, is_fn_body)
        raise Unsupported('match statement with effects')

    def match_expr(self, e, want, is_fn_body=False, tail=False):
        c = self.c
        scrut, ts = self.expr_top(e[1])
        arms = []
        rt = 'unknown'
        for pats, guard, body in e[2]:
            if guard is not None:
                raise Unsupported('match guard')
            saved = dict(c.env)
            lp = ' | '.join(self.match_pattern(p, ts) for p in pats)
            if tail and body[0] == 'block':
                s, t = self.seq(list(body[1]), body[2], want, is_fn_body)
            elif tail:
                s, t = self.seq([], body, want, is_fn_body)
            else:
                s, t = self.block_value(body, want) if body[0] == 'block' else self.expr_top(body, want)
            c.env = saved
            rt = self.unify_safe(rt, t)
            arms.append(f'| {lp} => {s}')
        return f'(match {scrut} with {" ".join(arms)})', rt

    def match_pattern(self, p, ts):
        c = self.c
        if p[0] == 'pwild':
            return '_'
        if p[0] == 'pvar':
            c.env[p[1]] = ts
            return lname(p[1])
        if p[0] == 'plit':
            s, t = self.expr(p[1], ts if ts in NUMERIC else None)
            if t == 'real':
                raise Unsupported('float literal pattern')
            return s.strip('()').split(':')[0].strip()
        if p[0] == 'pctor':
            name = p[1][-1]
            if name == 'Some' and is_opt(ts):
                return f'(some {self.match_pattern(p[2][0], ts[1])})'
            if name == 'None':
                return 'none'
            if name in ('Data', 'SuffStat') and isinstance(ts, tuple) and ts[0] == 'dos':
                if name == 'Data':
                    return f'(DataOrSuffStat.data {self.match_pattern(p[2][0], ("list", ts[1]))})'
                return f'(DataOrSuffStat.suffStat {self.match_pattern(p[2][0], ts[2])})'
            if name in ('Ok', 'Err') and isinstance(ts, tuple) and ts[0] == 'except':
                if name == 'Ok':
                    return f'(Except.ok {self.match_pattern(p[2][0], ts[1])})'
                return '(Except.error _)'
            raise Unsupported(f'constructor pattern {name}')
        if p[0] == 'ptuple' and is_tup(ts):
            return '(' + ', '.join(self.match_pattern(q, t) for q, t in zip(p[1], ts[1])) + ')'
        raise Unsupported(f'match pattern {p[0]} against {ts}')


def pat_names(pat):
    if pat is None:
        return []
    if pat[0] == 'pvar':
        return [pat[1]]
    if pat[0] in ('ptuple', 'pslice'):
        out = []
        for p in pat[1]:
            out += pat_names(p)
        return out
    if pat[0] == 'pstruct':
        out = []
        for f, p in pat[2]:
            out += pat_names(p)
        return out
    if pat[0] == 'pctor':
        out = []
        for p in pat[2]:
            out += pat_names(p)
        return out
    return []
