#!/usr/bin/env python3
"""Prototype: tokenizer + parser for the Rust subset used by rv's formula code.

AST nodes are tuples: (kind, ...).  Anything outside the subset raises Unsupported.
"""
import re, sys

class Unsupported(Exception):
    pass

TOKEN_RE = re.compile(r'''
  (?P<ws>\s+)
 |(?P<lc>//[^\n]*)
 |(?P<bc>/\*.*?\*/)
 |(?P<str>b?"(?:\\.|[^"\\])*")
 |(?P<chr>'(?:\\.|[^'\\])')
 |(?P<life>'[A-Za-z_][A-Za-z0-9_]*)
 |(?P<num>(?:0x[0-9a-fA-F_]+|[0-9][0-9_]*(?:\.[0-9][0-9_]*)?(?:[eE][+-]?[0-9_]+)?)(?:_?(?:f32|f64|u8|u16|u32|u64|usize|i8|i16|i32|i64|isize))?)
 |(?P<id>\$?[A-Za-z_][A-Za-z0-9_]*)
 |(?P<op>::|->|=>|==|!=|<=|>=|&&|\|\||\+=|-=|\*=|/=|%=|\.\.=|\.\.|<<|>>|[-+*/%^!&|=<>@.,;:#$?~(){}\[\]])
''', re.X | re.S)

def tokenize(src):
    toks = []
    pos = 0
    n = len(src)
    while pos < n:
        m = TOKEN_RE.match(src, pos)
        if not m:
            raise Unsupported(f"lex error at {pos}: {src[pos:pos+30]!r}")
        pos = m.end()
        k = m.lastgroup
        if k in ('ws', 'lc', 'bc'):
            continue
        toks.append((k, m.group(k)))
    return toks

# ---------------------------------------------------------------------------
# Item scanner: find impl blocks / fns / macro_rules bodies / structs
# ---------------------------------------------------------------------------
class Parser:
    def __init__(self, toks):
        self.t = toks
        self.i = 0

    def peek(self, k=0):
        j = self.i + k
        return self.t[j] if j < len(self.t) else ('eof', '')

    def at(self, v, k=0):
        return self.peek(k)[1] == v

    def next(self):
        tok = self.peek()
        self.i += 1
        return tok

    def expect(self, v):
        tok = self.next()
        if tok[1] != v:
            raise Unsupported(f"expected {v!r} got {tok[1]!r} at tok {self.i}: ctx {' '.join(x[1] for x in self.t[max(0,self.i-8):self.i+4])}")
        return tok

    def accept(self, v):
        if self.at(v):
            self.i += 1
            return True
        return False

    # ---- skipping helpers
    def skip_balanced(self, open_, close):
        depth = 0
        while True:
            tok = self.next()
            if tok[0] == 'eof':
                raise Unsupported('eof in balanced')
            if tok[1] == open_:
                depth += 1
            elif tok[1] == close:
                depth -= 1
                if depth == 0:
                    return

    def skip_attr(self):
        # at '#'
        self.expect('#')
        self.accept('!')
        self.skip_balanced('[', ']')

    def skip_generics(self):
        # at '<' ; handles nested <> and ->
        depth = 0
        while True:
            tok = self.next()
            if tok[1] == '<':
                depth += 1
            elif tok[1] == '>':
                depth -= 1
                if depth == 0:
                    return
            elif tok[1] == '>>':
                depth -= 2
                if depth <= 0:
                    return
            elif tok[0] == 'eof':
                raise Unsupported('eof in generics')

    # ---- types (kept as strings)
    def parse_type(self):
        """returns a type string; stops before , ) { ; = > where"""
        out = []
        depth = 0
        while True:
            tok = self.peek()
            v = tok[1]
            if tok[0] == 'eof':
                break
            if depth == 0 and v in (',', ')', '{', ';', '=', 'where', '|'):
                break
            if depth == 0 and v in ('>', '>>'):
                break
            if v in ('<', '(', '['):
                depth += 1
            elif v in ('>', ')', ']'):
                depth -= 1
            elif v == '>>':
                depth -= 2
            out.append(v)
            self.i += 1
        return ' '.join(out)

    # ---- items
    def parse_items(self, end=None):
        """returns list of items: ('impl', header_str, trait, type, [fns]) / ('fn', ...) / ('macro', name, [items], invocations)
        unknown items are skipped."""
        items = []
        item_pub = False
        first = True
        pending_attrs = []
        while True:
            if not first:
                pass
            tok = self.peek()
            if tok[0] == 'eof':
                break
            if end is not None and tok[1] == end:
                break
            v = tok[1]
            if v != 'pub' and self.t[self.i - 1][1] != 'pub' if self.i > 0 else True:
                item_pub = False
            if v == '#':
                a0 = self.i
                self.skip_attr()
                pending_attrs.append(' '.join(x[1] for x in self.t[a0:self.i]))
            elif v == 'pub':
                self.next()
                item_pub = True
                if self.at('('):
                    self.skip_balanced('(', ')')
                    item_pub = False
                continue
            elif v == 'impl':
                pending_attrs = []
                items.append(self.parse_impl())
            elif v == 'fn':
                items.append(self.parse_fn() + (item_pub,))
            elif v == 'macro_rules':
                items.append(self.parse_macro_rules())
            elif v == 'struct':
                items.append(self.parse_struct() + (list(pending_attrs),))
                pending_attrs = []
            elif v == 'const' and self.peek(1)[0] == 'id' and self.peek(2)[1] == ':':
                items.append(self.parse_const())
            elif tok[0] == 'id' and self.peek(1)[1] == '!' and self.peek(2)[1] == '(':
                # macro invocation at item level: name!(args);
                name = self.next()[1]
                self.next()
                start = self.i
                self.skip_balanced('(', ')')
                args = [x[1] for x in self.t[start + 1:self.i - 1]]
                self.accept(';')
                items.append(('invoke', name, args))
            else:
                # skip to next ; or balanced { }
                self.skip_item()
        return items

    def skip_item(self):
        while True:
            tok = self.peek()
            if tok[0] == 'eof':
                return
            if tok[1] == ';':
                self.next()
                return
            if tok[1] == '{':
                self.skip_balanced('{', '}')
                return
            if tok[1] in ('(',):
                self.skip_balanced('(', ')')
                continue
            if tok[1] == '[':
                self.skip_balanced('[', ']')
                continue
            self.next()

    def parse_const(self):
        self.expect('const')
        name = self.next()[1]
        self.expect(':')
        ty = self.parse_type()
        self.expect('=')
        e = self.parse_expr()
        self.expect(';')
        return ('const', name, ty, e)

    def parse_struct(self):
        self.expect('struct')
        name = self.next()[1]
        sgen = []
        if self.at('<'):
            gs = self.i
            self.skip_generics()
            sgen = [x[1] for x in self.t[gs + 1:self.i - 1]]
        fields = []
        if self.at('where'):
            while not self.at('{') and not self.at(';'):
                self.next()
        if self.accept(';'):
            return ('struct', name, fields, sgen)
        if self.at('('):
            self.skip_balanced('(', ')')
            self.accept(';')
            return ('struct', name, fields, sgen)
        self.expect('{')
        while not self.at('}'):
            attrs = []
            while self.at('#'):
                s = self.i
                self.skip_attr()
                attrs.append(' '.join(x[1] for x in self.t[s:self.i]))
            if self.at('}'):
                break
            if self.accept('pub'):
                if self.at('('):
                    self.skip_balanced('(', ')')
            fname = self.next()[1]
            self.expect(':')
            fty = self.parse_type()
            fields.append((fname, fty, attrs))
            if not self.accept(','):
                break
        self.expect('}')
        return ('struct', name, fields, sgen)

    def parse_macro_rules(self):
        self.expect('macro_rules')
        self.expect('!')
        name = self.next()[1]
        self.expect('{')
        arms = []
        while not self.at('}'):
            # pattern
            ps = self.i
            self.skip_balanced('(', ')')
            pat = [x[1] for x in self.t[ps + 1:self.i - 1]]
            self.expect('=>')
            self.expect('{')
            body_items = self.parse_items(end='}')
            self.expect('}')
            self.accept(';')
            arms.append((pat, body_items))
        self.expect('}')
        return ('macro', name, arms)

    def parse_impl(self):
        self.expect('impl')
        gen = []
        if self.at('<'):
            gs = self.i
            self.skip_generics()
            gen = [x[1] for x in self.t[gs + 1:self.i - 1]]
        hdr = []
        while not self.at('{') and not self.at('where'):
            hdr.append(self.next()[1])
        if self.at('where'):
            while not self.at('{'):
                self.next()
        header = ' '.join(hdr)
        trait, ty = None, header
        if ' for ' in ' ' + header + ' ':
            parts = header.split(' for ')
            trait, ty = parts[0].strip(), parts[1].strip()
        self.expect('{')
        fns = []
        assoc = {}
        is_pub = False
        while not self.at('}'):
            v = self.peek()[1]
            if v == '#':
                self.skip_attr()
            elif v == 'pub':
                self.next()
                is_pub = True
                if self.at('('):
                    self.skip_balanced('(', ')')
                    is_pub = False
            elif v == 'fn':
                f = self.parse_fn()
                fns.append(f + (is_pub,))
                is_pub = False
            elif v == 'type' and self.peek(1)[0] == 'id' and self.peek(2)[1] == '=':
                self.next()
                an = self.next()[1]
                self.next()
                aty = self.parse_type()
                self.accept(';')
                assoc[an] = aty
            elif v in ('type', 'const'):
                self.skip_item()
            else:
                self.skip_item()
        self.expect('}')
        return ('impl', trait, ty, fns, gen, assoc)

    def parse_fn(self):
        self.expect('fn')
        name = self.next()[1]
        fgen = []
        if self.at('<'):
            gs = self.i
            self.skip_generics()
            fgen = [x[1] for x in self.t[gs + 1:self.i - 1]]
        self.expect('(')
        params = []
        while not self.at(')'):
            # self forms
            if self.at('&') and self.peek(1)[0] == 'life' and (self.at('self', 2) or (self.at('mut', 2) and self.at('self', 3))):
                self.next(); self.next()
                mut = self.accept('mut')
                self.next()
                params.append(('self', '&mut Self' if mut else '&Self'))
            elif self.at('&') and (self.at('self', 1) or (self.at('mut', 1) and self.at('self', 2))):
                self.next()
                mut = self.accept('mut')
                self.next()
                params.append(('self', '&mut Self' if mut else '&Self'))
            elif self.at('self') or (self.at('mut') and self.at('self', 1)):
                self.accept('mut')
                self.next()
                params.append(('self', 'Self'))
            else:
                self.accept('mut')
                pat = self.parse_pattern()
                self.expect(':')
                ty = self.parse_type()
                params.append((pat, ty))
            if not self.accept(','):
                break
        self.expect(')')
        ret = None
        if self.accept('->'):
            ret = self.parse_type()
        if self.at('where'):
            while not self.at('{') and not self.at(';'):
                self.next()
        if self.accept(';'):
            return ('fn', name, params, ret, None, None, fgen)
        start = self.i
        try:
            body = self.parse_block()
            err = None
        except Unsupported as e:
            # recover: skip the body
            self.i = start
            self.skip_balanced('{', '}')
            body = None
            err = str(e)
        return ('fn', name, params, ret, body, err, fgen)

    # ---- patterns
    def parse_pattern(self):
        tok = self.peek()
        if tok[1] == '(':
            self.next()
            elems = []
            while not self.at(')'):
                elems.append(self.parse_pattern())
                if not self.accept(','):
                    break
            self.expect(')')
            return ('ptuple', elems)
        if tok[1] == '&':
            self.next()
            self.accept('mut')
            return self.parse_pattern()
        if tok[1] in ('ref', 'mut'):
            self.next()
            return self.parse_pattern()
        if tok[1] == '_':
            self.next()
            return ('pwild',)
        if tok[0] == 'num' or tok[1] == '-':
            e = self.parse_unary()
            return ('plit', e)
        if tok[1] == '[':
            self.next()
            elems = []
            while not self.at(']'):
                elems.append(self.parse_pattern())
                if not self.accept(','):
                    break
            self.expect(']')
            return ('pslice', elems)
        if tok[0] == 'id':
            path = self.parse_path()
            if self.at('{'):
                self.next()
                fields = []
                while not self.at('}'):
                    if self.accept('..'):
                        break
                    fname = self.next()[1]
                    if self.accept(':'):
                        fp = self.parse_pattern()
                    else:
                        fp = ('pvar', fname)
                    fields.append((fname, fp))
                    if not self.accept(','):
                        break
                self.expect('}')
                return ('pstruct', path, fields)
            if self.at('('):
                self.next()
                elems = []
                while not self.at(')'):
                    elems.append(self.parse_pattern())
                    if not self.accept(','):
                        break
                self.expect(')')
                return ('pctor', path, elems)
            if len(path) == 1 and (path[0][0].islower() or path[0][0] == '_'):
                return ('pvar', path[0])
            return ('pctor', path, [])
        raise Unsupported(f"pattern at {tok}")

    def parse_path(self):
        segs = [self.next()[1]]
        while self.at('::'):
            if self.at('<', 1):
                self.next()
                self.skip_generics()
                continue
            self.next()
            segs.append(self.next()[1])
        return segs

    # ---- blocks & statements
    def parse_block(self):
        self.expect('{')
        stmts = []
        final = None
        while not self.at('}'):
            v = self.peek()[1]
            if v == '#':
                self.skip_attr()
                continue
            if v == 'let':
                self.next()
                self.accept('mut')
                pat = self.parse_pattern()
                ty = None
                if self.accept(':'):
                    ty = self.parse_type()
                init = None
                if self.accept('='):
                    init = self.parse_expr()
                self.expect(';')
                stmts.append(('let', pat, ty, init))
                continue
            if v == 'use':
                self.skip_item()
                continue
            if v == 'const':
                c = self.parse_const()
                stmts.append(('let', ('pvar', c[1]), c[2], c[3]))
                continue
            if v == 'fn':
                raise Unsupported('nested fn')
            e = self.parse_expr(stmt=True)
            if self.accept(';'):
                stmts.append(('expr', e))
            elif self.at('}'):
                final = e
            else:
                # block-like expression statements need no semicolon
                if e[0] in ('if', 'match', 'for', 'while', 'loop', 'block'):
                    stmts.append(('expr', e))
                else:
                    raise Unsupported(f"statement end near {self.peek()}")
        self.expect('}')
        return ('block', stmts, final)

    # ---- expressions (precedence climbing)
    BINOPS = [
        (['||'], 1), (['&&'], 2),
        (['==', '!=', '<', '>', '<=', '>='], 3),
        (['|'], 4), (['^'], 5), (['&'], 6), (['<<', '>>'], 7),
        (['+', '-'], 8), (['*', '/', '%'], 9),
    ]
    PREC = {}
    for ops, p in BINOPS:
        for o in ops:
            PREC[o] = p

    def parse_expr(self, stmt=False, nostruct=False):
        lhs = self.parse_range(nostruct)
        v = self.peek()[1]
        if v in ('=', '+=', '-=', '*=', '/=', '%='):
            self.next()
            rhs = self.parse_expr(nostruct=nostruct)
            return ('assign', v, lhs, rhs)
        return lhs

    def parse_range(self, nostruct):
        if self.at('..') or self.at('..='):
            op = self.next()[1]
            hi = self.parse_bin(0, nostruct)
            return ('range', None, hi, op == '..=')
        lo = self.parse_bin(0, nostruct)
        if self.at('..') or self.at('..='):
            op = self.next()[1]
            nxt = self.peek()[1]
            if nxt in (')', ']', ';', ',', '{', '}'):
                return ('range', lo, None, False)
            hi = self.parse_bin(0, nostruct)
            return ('range', lo, hi, op == '..=')
        return lo

    def parse_bin(self, minp, nostruct):
        lhs = self.parse_cast(nostruct)
        while True:
            v = self.peek()[1]
            p = self.PREC.get(v)
            if p is None or p < minp or self.peek()[0] != 'op':
                break
            # closure bar ambiguity is not an issue in binary position
            self.next()
            rhs = self.parse_bin(p + 1, nostruct)
            lhs = ('bin', v, lhs, rhs)
        return lhs

    def parse_cast(self, nostruct):
        e = self.parse_unary(nostruct)
        while self.at('as'):
            self.next()
            ty = self.parse_cast_type()
            e = ('cast', e, ty)
        return e

    def parse_cast_type(self):
        # simple types only: ident or $kind or path
        tok = self.next()
        ty = tok[1]
        while self.at('::'):
            self.next()
            ty += '::' + self.next()[1]
        return ty

    def parse_unary(self, nostruct=False):
        v = self.peek()[1]
        if v == '-':
            self.next()
            return ('neg', self.parse_unary(nostruct))
        if v == '!':
            self.next()
            return ('not', self.parse_unary(nostruct))
        if v == '*':
            self.next()
            return ('deref', self.parse_unary(nostruct))
        if v == '&':
            self.next()
            self.accept('mut')
            return ('ref', self.parse_unary(nostruct))
        if v == '&&':
            self.next()
            return ('ref', ('ref', self.parse_unary(nostruct)))
        return self.parse_postfix(nostruct)

    def parse_args(self):
        self.expect('(')
        args = []
        while not self.at(')'):
            args.append(self.parse_expr())
            if not self.accept(','):
                break
        self.expect(')')
        return args

    def parse_postfix(self, nostruct):
        e = self.parse_primary(nostruct)
        while True:
            v = self.peek()[1]
            if v == '.':
                nxt = self.peek(1)
                if nxt[0] == 'num':
                    self.next(); self.next()
                    # tuple index possibly like 0.1 (nested) -> split
                    for part in nxt[1].split('.'):
                        e = ('tupidx', e, int(part))
                    continue
                if nxt[0] == 'id':
                    self.next()
                    name = self.next()[1]
                    if self.at('::'):
                        self.next()
                        self.skip_generics()
                    if self.at('('):
                        args = self.parse_args()
                        e = ('mcall', e, name, args)
                    else:
                        e = ('field', e, name)
                    continue
                break
            if v == '(':
                args = self.parse_args()
                e = ('call', e, args)
                continue
            if v == '[':
                self.next()
                idx = self.parse_expr()
                self.expect(']')
                e = ('index', e, idx)
                continue
            if v == '?':
                self.next()
                e = ('try', e)
                continue
            break
        return e

    def parse_primary(self, nostruct):
        tok = self.peek()
        k, v = tok
        if k == 'num':
            self.next()
            return ('num', v)
        if k == 'str':
            self.next()
            return ('str', v)
        if k == 'chr':
            self.next()
            return ('chr', v)
        if v == '(':
            self.next()
            if self.accept(')'):
                return ('tuple', [])
            first = self.parse_expr()
            if self.accept(')'):
                return ('paren', first)
            elems = [first]
            while self.accept(','):
                if self.at(')'):
                    break
                elems.append(self.parse_expr())
            self.expect(')')
            return ('tuple', elems)
        if v == '[':
            self.next()
            elems = []
            if self.at(']'):
                self.next()
                return ('array', elems)
            first = self.parse_expr()
            if self.accept(';'):
                n = self.parse_expr()
                self.expect(']')
                return ('arrayrep', first, n)
            elems.append(first)
            while self.accept(','):
                if self.at(']'):
                    break
                elems.append(self.parse_expr())
            self.expect(']')
            return ('array', elems)
        if v == '{':
            return self.parse_block()
        if v == 'unsafe':
            self.next()
            return self.parse_block()
        if v == 'if':
            return self.parse_if()
        if v == 'match':
            return self.parse_match()
        if v == 'for':
            self.next()
            pat = self.parse_pattern()
            self.expect('in')
            it = self.parse_expr(nostruct=True)
            body = self.parse_block()
            return ('for', pat, it, body)
        if v == 'while':
            self.next()
            cond = self.parse_expr(nostruct=True)
            body = self.parse_block()
            return ('while', cond, body)
        if v == 'loop':
            self.next()
            body = self.parse_block()
            return ('loop', body)
        if v == 'return':
            self.next()
            if self.peek()[1] in (';', '}'):
                return ('return', None)
            return ('return', self.parse_expr())
        if v == 'break':
            self.next()
            return ('break',)
        if v == 'continue':
            self.next()
            return ('continue',)
        if v == 'move':
            self.next()
            return self.parse_primary(nostruct)
        if v == '|' or v == '||':
            return self.parse_closure()
        if k == 'id':
            # macro call?
            if self.peek(1)[1] == '!' and self.peek(2)[1] in ('(', '[', '{'):
                name = self.next()[1]
                self.next()
                open_ = self.peek()[1]
                close = {'(': ')', '[': ']', '{': '}'}[open_]
                start = self.i
                self.skip_balanced(open_, close)
                inner = self.t[start + 1:self.i - 1]
                return ('macro', name, inner)
            path = self.parse_path()
            if self.at('{') and not nostruct and (path[-1][0].isupper() or path[-1] == 'Self'):
                # struct literal
                self.next()
                fields = []
                while not self.at('}'):
                    if self.accept('..'):
                        base = self.parse_expr()
                        fields.append(('..', base))
                        break
                    fname = self.next()[1]
                    if self.accept(':'):
                        fe = self.parse_expr()
                    else:
                        fe = ('path', [fname])
                    fields.append((fname, fe))
                    if not self.accept(','):
                        break
                self.expect('}')
                return ('structlit', path, fields)
            return ('path', path)
        raise Unsupported(f"primary at {tok} ctx {' '.join(x[1] for x in self.t[max(0,self.i-6):self.i+6])}")

    def parse_if(self):
        self.expect('if')
        if self.at('let'):
            self.next()
            pat = self.parse_pattern()
            self.expect('=')
            scrut = self.parse_expr(nostruct=True)
            then = self.parse_block()
            els = None
            if self.accept('else'):
                els = self.parse_if() if self.at('if') else self.parse_block()
            return ('iflet', pat, scrut, then, els)
        cond = self.parse_expr(nostruct=True)
        then = self.parse_block()
        els = None
        if self.accept('else'):
            els = self.parse_if() if self.at('if') else self.parse_block()
        return ('if', cond, then, els)

    def parse_match(self):
        self.expect('match')
        scrut = self.parse_expr(nostruct=True)
        self.expect('{')
        arms = []
        while not self.at('}'):
            pats = [self.parse_pattern()]
            while self.accept('|'):
                pats.append(self.parse_pattern())
            guard = None
            if self.accept('if'):
                guard = self.parse_expr(nostruct=True)
            self.expect('=>')
            body = self.parse_expr()
            arms.append((pats, guard, body))
            if not self.accept(','):
                if self.at('}'):
                    break
                # block-bodied arm without comma
                continue
        self.expect('}')
        return ('match', scrut, arms)

    def parse_closure(self):
        params = []
        if self.accept('||'):
            pass
        else:
            self.expect('|')
            while not self.at('|'):
                pat = self.parse_pattern()
                if self.accept(':'):
                    self.parse_type()
                params.append(pat)
                if not self.accept(','):
                    break
            self.expect('|')
        if self.accept('->'):
            self.parse_type()
        body = self.parse_expr()
        return ('closure', params, body)


def parse_file(path):
    src = open(path).read()
    # drop test module
    i = src.find('#[cfg(test)]\nmod test')
    if i >= 0:
        src = src[:i]
    toks = tokenize(src)
    p = Parser(toks)
    return p.parse_items()


def walk_fns(items, ctx=None):
    """yield (context, fn) for every fn in items (impl / macro arms / free)"""
    for it in items:
        if it[0] == 'fn':
            yield (ctx, it)
        elif it[0] == 'impl':
            for f in it[3]:
                yield ((ctx, it[1], it[2]), f)
        elif it[0] == 'macro':
            for pat, body in it[2]:
                yield from walk_fns(body, ('macro', it[1], pat))


if __name__ == '__main__':
    import glob
    tot = ok = 0
    fails = []
    for f in sorted(glob.glob('/repo/src/**/*.rs', recursive=True)):
        try:
            items = parse_file(f)
        except Unsupported as e:
            print('FILE FAIL', f, e)
            continue
        for ctx, fn in walk_fns(items):
            tot += 1
            if fn[4] is not None or fn[5] is None:
                ok += 1
            else:
                fails.append((f, fn[1], fn[5]))
    print(tot, ok)
    for x in fails[:60]:
        print(x)
