#!/usr/bin/env python3
"""Tr.request / resolve_method / definition emission."""
import re
from rsparse import Unsupported
from registry import FnInfo, kind_class, REAL_KINDS, NAT_KINDS, INT_KINDS
from emit import Tr, Ctx, lname, ty_str
from translate import FnTr, is_struct, is_tup, NUMERIC
import calls  # noqa: F401  (mixes methods into FnTr)

GENERIC_BOUND_KINDS = {
    'Booleable': ['bool', 'u8'],
    'CategoricalDatum': ['usize', 'bool'],
    'DuParam': ['u32', 'i32'],
    'Unsigned': ['u32'],
    'Integer': ['u32'],
}


GENERIC_OWNER_KINDS = {'Geometric': ['u32']}


def generic_kinds(fi):
    """for an impl<X: Bound> block: which concrete kinds to instantiate"""
    gen = fi.generics or []
    if not gen:
        return None
    if fi.owner in GENERIC_OWNER_KINDS and 'X' in gen:
        return GENERIC_OWNER_KINDS[fi.owner]
    s = ' '.join(gen)
    for b, ks in GENERIC_BOUND_KINDS.items():
        if b in s:
            return ks
    return None


def generic_names(fi):
    gen = fi.generics or []
    names = []
    depth = 0
    expect_name = True
    for tok in gen:
        if tok in ('<', '('):
            depth += 1
        elif tok in ('>', ')'):
            depth -= 1
        elif tok == ',' and depth == 0:
            expect_name = True
        elif expect_name and depth == 0 and re.match(r'^[A-Z][A-Za-z0-9]*$', tok):
            names.append(tok)
            expect_name = False
    return names


def generic_names_tokens(gen):
    class _F:
        generics = gen
    return generic_names(_F)


def resolve_method(self, owner, name, kind, hint=None):
    reg = self.reg
    if owner == '':
        if isinstance(hint, tuple) and hint[0] == 'file':
            f = reg.free_by_file.get(hint[1], {}).get(name)
            if f is not None:
                return f
        return reg.free.get(name)
    fi = reg.inherent.get(owner, {}).get(name)
    if fi is not None:
        return fi
    cands = reg.traitfns.get(owner, {}).get(name, [])
    if cands:
        kc = kind_class(kind) if kind else None
        if isinstance(hint, tuple) and hint[0] == 'struct':
            for f in cands:
                if f.trait_arg and f.trait_arg.split('<')[0].strip() == hint[1]:
                    return f
        if isinstance(hint, tuple) and hint[0] == 'list':
            for f in cands:
                if f.trait_arg and f.trait_arg.startswith('Vec'):
                    return f
        for f in cands:
            if kind and kind in [k.strip() for k in f.kinds]:
                return f
        for f in cands:
            if kc and any(kind_class(k) == kc for k in f.kinds):
                return f
        for f in cands:
            if kc and f.trait_arg and kind_class(f.trait_arg) == kc:
                return f
        for f in cands:
            gk = generic_kinds(f)
            if gk and kc and any(kind_class(k) == kc for k in gk):
                return f
        return cands[0]
    # trait default
    for (t, arg, kinds) in sorted(reg.traits_of.get(owner, ()), key=lambda x: (x[0], str(x[1]), x[2])):
        d = reg.trait_defaults.get(t, {})
        if name in d:
            kc = kind_class(kind) if kind else None
            ok = (not kinds and (arg is None or kc is None or kind_class(arg) in (kc, None))) or \
                 (kind in kinds) or (kc and any(kind_class(k) == kc for k in kinds))
            if isinstance(hint, tuple) and hint[0] == 'struct':
                ok = bool(arg) and arg.split('<')[0].strip() == hint[1]
            elif isinstance(hint, tuple) and hint[0] == 'list':
                ok = bool(arg) and arg.startswith('Vec')
            elif hint in ('real', 'nat', 'int', 'bool') and arg and not kinds and kind_class(arg) is None and arg.split(',')[0].strip() not in ('X', 'T') \
                    and kind_class(arg.split(',')[0].strip()) != hint:
                ok = False
            if not ok:
                continue
            fi = FnInfo(reg.structs[owner][0] if owner in reg.structs else 'traits.rs', owner, t, arg, list(kinds), d[name])
            fi.is_default = True
            # inherit the generics of the impl block that opts into the trait
            for lst in reg.traitfns.get(owner, {}).values():
                for f in lst:
                    if f.generics and f.trait_arg == arg:
                        fi.generics = f.generics
            return fi
    return None


def targ_parts(fi):
    from emit import split_top
    return split_top(fi.trait_arg) if fi.trait_arg else []


def is_kind_dependent(fi):
    gn = generic_names(fi)
    for part in targ_parts(fi):
        if kind_class(part):
            continue
        if '$' in part or part in gn:
            return True
    return False


def fn_suffix(self, fi, kind):
    """lean name suffix for trait fns: one component per trait type argument"""
    if fi.trait is None or not fi.trait_arg:
        return ''
    gn = generic_names(fi)
    comps = []
    for part in targ_parts(fi):
        kc = kind_class(part)
        if kc is None and ('$' in part or part in gn):
            kc = kind_class(kind) if kind else 'k'
            if part.startswith('('):
                kc = kc + '_tup'
        if kc is None:
            kc = re.sub(r'[^A-Za-z0-9]', '', part)
        comps.append(kc)
    return '_' + '_'.join(comps)


def request(self, owner, name, kind, hint=None):
    if hint is not None:
        if hint in ('real', 'nat', 'int', 'bool'):
            if not (kind and kind_class(kind) == hint):
                kind = {'real': 'f64', 'nat': 'usize', 'int': 'i64', 'bool': 'bool'}[hint]
    fi = self.resolve_method(owner, name, kind, hint)
    if fi is None:
        raise Unsupported(f'unknown method {owner}::{name}')
    # kind only matters for kind-dependent fns
    kdep = fi.trait is not None and is_kind_dependent(fi)
    parts = targ_parts(fi)
    use_kind = kind if kdep else (parts[0] if (parts and kind_class(parts[0])) else None)
    if kdep:
        ks = [k.strip() for k in (fi.kinds or generic_kinds(fi) or [])]
        if kind is None:
            use_kind = (ks or ['f64'])[0]
        elif ks and kind_class(kind) not in {kind_class(k) for k in ks}:
            use_kind = 'f64' if 'f64' in ks else ks[0]
    suffix = self.fn_suffix(fi, use_kind)
    lean = (f'{owner}.{name}{suffix}' if owner else f'{lname(name)}')
    if not owner and sum(1 for d in self.reg.free_by_file.values() if name in d) > 1:
        stem = fi.file.replace('.rs', '').split('/')
        stem = [s for s in stem if s not in ('dist', 'mod')]
        lean = f'{name}_{"_".join(stem[:1])}'
    if owner and not suffix:
        try:
            if name in dict(self.struct_model(owner)):
                lean = f"{owner}.get_{name}"
        except Unsupported:
            pass
    if lean in self.defs:
        d = self.defs[lean]
        return lean, d['ptys'], d['rty']
    if lean in self.failed:
        raise Unsupported(f'callee {lean}: {self.failed[lean]}')
    if lean in self.inprogress:
        raise Unsupported(f'recursive call {lean}')
    self.inprogress.add(lean)
    saved_notes = self.cur_notes
    self.cur_notes = []
    try:
        d = self.translate_fn(fi, lean, use_kind)
        d['notes'] = sorted(set(self.cur_notes))
        self.defs[lean] = d
        return lean, d['ptys'], d['rty']
    except Unsupported as e:
        self.failed[lean] = str(e)
        raise Unsupported(f'{lean}: {e}')
    except RecursionError:
        self.failed[lean] = 'recursion limit'
        raise Unsupported(f'{lean}: recursion limit')
    finally:
        self.inprogress.discard(lean)
        self.cur_notes = saved_notes


def translate_fn(self, fi, lean, kind):
    fn = fi.fn
    owner = fi.owner
    ctx = Ctx(owner, kind, fi)
    # generic parameters of the impl block map to the kind; trait generics map to the impl's trait arguments
    from emit import STRUCT_GENERIC_DEFAULT, split_top
    for g, gt in STRUCT_GENERIC_DEFAULT.get(owner, {}).items():
        ctx.generic_map[g] = gt
    kt = kind_class(kind) if kind else None
    for g in generic_names(fi):
        if kt and g not in ctx.generic_map:
            ctx.generic_map[g] = kt
    if fi.trait and fi.trait_arg:
        targs = split_top(fi.trait_arg)
        tgen = self.reg.trait_generics.get(fi.trait, [])
        for gname, targ in zip(tgen, targs):
            if gname in ctx.generic_map and not getattr(fi, 'is_default', False):
                continue
            rt = self.rust_ty(targ, ctx)
            if rt == 'unknown' and kt:
                rt = kt
            if not (isinstance(rt, tuple) and rt[0] == 'other'):
                ctx.generic_map[gname] = rt
    if not owner:
        for g in generic_names_tokens(fn[6] if len(fn) > 6 else []):
            ctx.generic_map.setdefault(g, 'real')
    params = fn[2]
    has_self = bool(params) and params[0][0] == 'self'
    ctx.mutself = has_self and params[0][1] == '&mut Self'
    if fn[4] is None:
        raise Unsupported('parse: ' + str(fn[5]))
    if owner:
        self.struct_model(owner)
    binders = []
    ptys = []
    for (pat, ty) in params:
        if pat == 'self':
            continue
        if ty and ('Rng' in ty or ty.strip().endswith(' R')):
            raise Unsupported('rng parameter')
        t = self.rust_ty(ty, ctx)
        if isinstance(t, tuple) and t[0] == 'other':
            raise Unsupported(f'param type {ty}')
        if t == 'unknown':
            raise Unsupported(f'param type {ty} (kind unknown)')
        if pat[0] != 'pvar':
            raise Unsupported('param pattern')
        ctx.env[pat[1]] = t
        tyc = (ty or '').replace('&', '').replace('mut ', '').strip()
        if t in ('nat', 'int') and (tyc in ('$kind', '$ kind') or tyc in generic_names(fi)):
            ctx.kind_vars = getattr(ctx, 'kind_vars', set()) | {pat[1]}
        binders.append(f'({lname(pat[1])} : {ty_str(t)})')
        ptys.append(t)
    rty_decl = self.rust_ty(fn[3], ctx) if fn[3] else 'unit'
    if isinstance(rty_decl, tuple) and rty_decl[0] == 'other':
        raise Unsupported(f'return type {fn[3]}')
    ctx.ret = rty_decl
    ft = FnTr(self, ctx)
    body = fn[4]
    try:
        term, t = ft.seq(list(body[1]), body[2], rty_decl, True)
    except (Unsupported, RecursionError) as e_body:
        # the signature resolved but the body is outside the translated subset: keep a STUB (signature only), so that the
        # implementation-side harness op of this function survives (no Lean definition, the model answers NOOP)
        rty_s = rty_decl
        if ctx.mutself:
            rty_s = ('struct', owner) if rty_decl == 'unit' else (('except', ('struct', owner)) if (isinstance(rty_decl, tuple) and rty_decl[0] == 'except' and rty_decl[1] == 'unit') else ('tup', (('struct', owner), rty_decl)))
        if not hasattr(self, 'stubs'):
            self.stubs = {}
        self.stubs[lean] = {'lean': lean, 'sig': '', 'body': '', 'ptys': ptys, 'rty': rty_s,
            'src': f'{fi.file}: {owner or "fn"}::{fn[1]}' + (f' [{kind}]' if kind else ''), 'owner': owner,
            'name': fn[1], 'kind': kind, 'has_self': has_self, 'mutself': ctx.mutself, 'file': fi.file,
            'default': getattr(fi, 'is_default', False), 'trait': fi.trait,
            'rparams': [(p[0][1] if p[0] != 'self' else 'self', p[1]) for p in params],
            'rret': fn[3], 'pub': bool(fn[7]) if len(fn) > 7 else (fi.trait is not None or not owner),
            'trait_arg': fi.trait_arg, 'kinds_all': [k.strip() for k in (fi.kinds or generic_kinds(fi) or [])],
            'generics': generic_names(fi), 'kbits': ctx.uses_kbits, 'notes': [], 'stub': True, 'reason': str(e_body)[:200]}
        raise
    # result type
    if ctx.mutself:
        if rty_decl == 'unit':
            rty = ('struct', owner)
        elif isinstance(rty_decl, tuple) and rty_decl[0] == 'except' and rty_decl[1] == 'unit':
            rty = ('except', ('struct', owner))
        else:
            rty = ('tup', (('struct', owner), rty_decl))
    else:
        rty = rty_decl
        if t in NUMERIC and rty in NUMERIC and t != rty:
            term, t = ft.convert(term, t, rty)
    if ctx.uses_kbits:
        binders.insert(0, '(kbits : Nat)')
    selfb = f'(self : {owner} α) ' if has_self else ''
    sig = f'def {lean} {{α : Type}} [RealLike α] {selfb}{" ".join(binders)} : {ty_str(rty)} :='
    src = f'{fi.file}: {"impl " + fi.trait + ("<" + fi.trait_arg + ">" if fi.trait_arg else "") + " for " if fi.trait else ""}{owner or "fn"}::{fn[1]}' + (f' [{kind}]' if kind else '')
    return {'lean': lean, 'sig': sig, 'body': term, 'ptys': ptys, 'rty': rty, 'src': src, 'owner': owner,
            'name': fn[1], 'kind': kind, 'has_self': has_self, 'mutself': ctx.mutself, 'file': fi.file,
            'default': getattr(fi, 'is_default', False), 'trait': fi.trait,
            'rparams': [(p[0][1] if p[0] != 'self' else 'self', p[1]) for p in params],
            'rret': fn[3], 'pub': bool(fn[7]) if len(fn) > 7 else (fi.trait is not None or not owner),
            'trait_arg': fi.trait_arg, 'kinds_all': [k.strip() for k in (fi.kinds or generic_kinds(fi) or [])],
            'generics': generic_names(fi), 'kbits': ctx.uses_kbits}


for _f in (resolve_method, fn_suffix, request, translate_fn):
    setattr(Tr, _f.__name__, _f)
