#!/opt/veriftools/pyvenv/bin/python
"""Reference check for RvModel/FloatInst.lean.

usage:
    lake env lean --run tests/FloatInstTest.lean > /tmp/floatinst_out.txt
    /opt/veriftools/pyvenv/bin/python tests/floatinst_ref.py /tmp/floatinst_out.txt [-v]

Every line `name arg ... value` printed by the Lean driver (17 significant digits = exact binary64) is
recomputed with mpmath at 50 digits.  Reports, per function, the max relative error, the max absolute
error and the max of the *mixed* error  min(rel/rel_tol, abs/abs_tol)  (<= 1 means target met).
"""
import sys, math
from collections import defaultdict
from mpmath import mp, mpf

mp.dps = 50

DBL_MAX = mpf(1.7976931348623157e308)
DBL_MIN = mpf(2.2250738585072014e-308)


def ln_abs_gamma(x):
    x = mpf(x)
    if x > 0:
        return mp.loggamma(x)
    return mp.log(abs(mp.gamma(x)))


def betainc_ref(x, a, b, lb=None):
    x = mpf(x); a = mpf(a); b = mpf(b)
    try:
        return mp.betainc(a, b, 0, x, regularized=True)
    except ValueError:
        pass
    try:
        return 1 - mp.betainc(b, a, 0, 1 - x, regularized=True)
    except ValueError:
        pass
    # last resort: direct quadrature of the density, split around the mode
    lnB = mp.loggamma(a) + mp.loggamma(b) - mp.loggamma(a + b)
    f = lambda t: mp.exp((a - 1) * mp.log(t) + (b - 1) * mp.log1p(-t) - lnB)
    mean = a / (a + b)
    sd = mp.sqrt(a * b / ((a + b) ** 2 * (a + b + 1)))
    pts = sorted(set([mpf(0), x] + [p for p in (mean + k * sd for k in (-32, -16, -8, -4, -2, -1, 0, 1, 2, 4, 8, 16, 32))
                                     if 0 < p < x]))
    return mp.quad(f, pts)


def besseli_ref(v, x):
    v = mpf(v); x = mpf(x)
    try:
        return mp.besseli(v, x)
    except ValueError:
        # tiny results (|x| tiny, large order): plain ascending series in mp arithmetic
        if v < 0 and v == mp.floor(v):
            v = -v
        h = x / 2
        return mp.nsum(lambda k: h ** (2 * k + v) / (mp.factorial(k) * mp.gamma(k + v + 1)), [0, mp.inf])


REF = {
    "ln1p": lambda x: mp.log1p(mpf(x)),
    "expm1": lambda x: mp.expm1(mpf(x)),
    "lgamma": ln_abs_gamma,
    "lgammaNeg": ln_abs_gamma,
    "gamma": lambda x: mp.gamma(mpf(x)),
    "gammaNeg": lambda x: mp.gamma(mpf(x)),
    "digamma": lambda x: mp.digamma(mpf(x)),
    "digammaNeg": lambda x: mp.digamma(mpf(x)),
    "lnBeta": lambda a, b: mp.loggamma(mpf(a)) + mp.loggamma(mpf(b)) - mp.loggamma(mpf(a) + mpf(b)),
    "incGamma": lambda x, a: mp.gammainc(mpf(a), 0, mpf(x), regularized=True),
    "incBeta": betainc_ref,
    "incBetaAcc": betainc_ref,
    "incBetaAcc1e4": betainc_ref,
    "lnBetaAcc": lambda a, b: mp.loggamma(mpf(a)) + mp.loggamma(mpf(b)) - mp.loggamma(mpf(a) + mpf(b)),
    "erf": lambda x: mp.erf(mpf(x)),
    "erfc": lambda x: mp.erfc(mpf(x)),
    "erfInv": lambda p: mp.erfinv(mpf(p)),
    "bessI0": lambda x: mp.besseli(0, mpf(x)),
    "bessI1": lambda x: mp.besseli(1, mpf(x)),
    "bessIv": besseli_ref,
}

# (relative tolerance, absolute tolerance): target met iff rel <= rtol or abs <= atol
TOL = {
    "ln1p": (1e-13, 0.0), "expm1": (1e-13, 0.0),
    "lgamma": (1e-13, 1e-14), "lgammaNeg": (1e-12, 1e-13),
    "gamma": (1e-13, 0.0), "gammaNeg": (1e-12, 0.0),
    "digamma": (1e-13, 1e-14), "digammaNeg": (1e-12, 1e-13),
    # lnBeta mirrors Rust's three-lgamma formula: the achievable absolute accuracy is a few ulps of the
    # largest of the three terms (see lnbeta_atol); lnBetaAcc is the cancellation-free helper
    "lnBeta": (1e-14, None), "lnBetaAcc": (1e-13, 1e-14),
    "incBetaAcc": (0.0, 1e-12), "incBetaAcc1e4": (0.0, 5e-12),
    "incGamma": (0.0, 1e-12), "incBeta": (0.0, 1e-12),
    "erf": (1e-13, 0.0), "erfc": (1e-13, 0.0), "erfInv": (1e-13, 0.0),
    "bessI0": (1e-12, 0.0), "bessI1": (1e-12, 0.0), "bessIv": (1e-12, 0.0),
}


def lnbeta_atol(a, b):
    m = max(abs(mp.loggamma(mpf(a))), abs(mp.loggamma(mpf(b))), abs(mp.loggamma(mpf(a) + mpf(b))))
    return float(4 * 2.220446049250313e-16 * m) + 1e-300


def pf(s):
    return float(s)


def same(a, b):
    """identical doubles incl. sign of zero / nan"""
    if math.isnan(a) or math.isnan(b):
        return math.isnan(a) and math.isnan(b)
    return a == b and math.copysign(1.0, a) == math.copysign(1.0, b)


# ---- Rust semantics re-implemented in Python for the non-special fields
def rust_round(x):
    if math.isnan(x) or math.isinf(x):
        return x
    a = abs(x)
    r = math.floor(a)
    if a - r >= 0.5:
        r += 1
    return math.copysign(float(r), x)


def rust_trunc(x):
    if math.isnan(x) or math.isinf(x):
        return x
    return math.copysign(float(math.trunc(x)), x)


def rust_signum(x):
    if math.isnan(x):
        return x
    return math.copysign(1.0, x)


def rust_as_usize(x):
    if math.isnan(x):
        return 0
    if math.isinf(x):
        return 2 ** 64 - 1 if x > 0 else 0
    return min(max(math.trunc(x), 0), 2 ** 64 - 1)


def rust_as_i64(x):
    if math.isnan(x):
        return 0
    if math.isinf(x):
        return 2 ** 63 - 1 if x > 0 else -2 ** 63
    return min(max(math.trunc(x), -2 ** 63), 2 ** 63 - 1)


def rust_rem(x, y):
    try:
        return math.fmod(x, y)
    except ValueError:
        return float("nan")


def rust_rem_euclid(x, y):
    r = rust_rem(x, y)
    return r + abs(y) if r < 0.0 else r


def rust_max(a, b):
    if math.isnan(a):
        return b
    if math.isnan(b):
        return a
    return b if a < b else a


def rust_min(a, b):
    if math.isnan(a):
        return b
    if math.isnan(b):
        return a
    return b if b < a else a


def is_normal(x):
    return (not math.isnan(x)) and (not math.isinf(x)) and x != 0.0 and abs(x) >= 2.2250738585072014e-308


EXACT = {
    "round": rust_round, "trunc": rust_trunc, "signum": rust_signum,
    "remEuclid": rust_rem_euclid, "max": rust_max, "min": rust_min,
    "powi": lambda x, n: x ** int(n),
}

SPECIAL_EXPECT = {
    # name -> {arg tuple repr -> expected}
}


def main():
    path = sys.argv[1]
    verbose = "-v" in sys.argv
    stats = defaultdict(lambda: dict(n=0, rel=0.0, abs=0.0, mixed=0.0, worst=None, skipped=0, bad=[]))
    exact_fail = []
    exact_n = 0
    specials = []
    for raw in open(path):
        t = raw.split()
        if not t:
            continue
        if t[0] == "special":
            specials.append(" ".join(t[1:]))
            continue
        name = t[0]
        if name in ("toNat", "toInt", "isNormal"):
            x = pf(t[1])
            exact_n += 1
            if name == "toNat":
                ok = int(t[2]) == rust_as_usize(x)
            elif name == "toInt":
                ok = int(t[2]) == rust_as_i64(x)
            else:
                ok = (t[2] == "true") == is_normal(x)
            if not ok:
                exact_fail.append(raw.strip())
            continue
        args = [pf(s) for s in t[1:-1]]
        got = pf(t[-1])
        if name in EXACT:
            exact_n += 1
            want = EXACT[name](*args)
            if not same(got, want):
                # sign of zero of max/min is unspecified in Rust; accept
                if name in ("max", "min") and got == want:
                    continue
                exact_fail.append(f"{raw.strip()}   (expected {want!r})")
            continue
        st = stats[name]
        ref = REF[name](*args)
        if isinstance(ref, mp.mpc):
            ref = ref.real
        st["n"] += 1
        if not mp.isfinite(ref):
            if not (math.isinf(got) or math.isnan(got)):
                st["bad"].append(f"{raw.strip()}  ref={ref}")
            continue
        if abs(ref) > DBL_MAX:
            if not math.isinf(got):
                st["bad"].append(f"{raw.strip()}  ref overflows: {mp.nstr(ref, 20)}")
            continue
        if math.isnan(got) or math.isinf(got):
            st["bad"].append(f"{raw.strip()}  ref={mp.nstr(ref, 20)}")
            continue
        aerr = abs(mpf(got) - ref)
        if abs(ref) < DBL_MIN:
            # subnormal / underflow range: only absolute comparison is meaningful
            st["skipped"] += 1
            if aerr > mpf(2) ** -1070:
                st["bad"].append(f"{raw.strip()}  subnormal ref={mp.nstr(ref, 20)}")
            continue
        rerr = aerr / abs(ref) if ref != 0 else (mpf(0) if got == 0 else mpf("inf"))
        rtol, atol = TOL[name]
        if name == "lnBeta":
            atol = lnbeta_atol(*args)
        cands = []
        if rtol > 0:
            cands.append(rerr / rtol)
        if atol > 0:
            cands.append(aerr / atol)
        mixed = min(cands)
        st["rel"] = max(st["rel"], float(rerr))
        st["abs"] = max(st["abs"], float(aerr))
        if float(mixed) >= st["mixed"]:
            st["mixed"] = float(mixed)
            st["worst"] = (args, got, mp.nstr(ref, 20), float(rerr), float(aerr))
        if verbose and mixed > 1:
            print(f"  MISS {name} {args} got={got!r} ref={mp.nstr(ref, 20)} rel={float(rerr):.3e} abs={float(aerr):.3e}")

    print(f"{'function':<12}{'n':>6}{'max rel err':>14}{'max abs err':>14}{'mixed/target':>14}  target(rel|abs)   worst point")
    allok = True
    for name, st in stats.items():
        rtol, atol = TOL[name]
        ok = st["mixed"] <= 1.0 and not st["bad"]
        allok &= ok
        w = st["worst"]
        wtxt = f"args={w[0]} rel={w[3]:.2e} abs={w[4]:.2e}" if w else ""
        print(f"{name:<12}{st['n']:>6}{st['rel']:>14.3e}{st['abs']:>14.3e}{st['mixed']:>14.3e}  "
              f"{rtol:g}|{atol if atol is not None else 'cancel-bound'}  {'OK  ' if ok else 'FAIL'} {wtxt}")
        for b in st["bad"]:
            print("    BAD:", b)
    print(f"exact-semantics checks: {exact_n} run, {len(exact_fail)} failed")
    for f in exact_fail:
        print("    FAIL:", f)
    print("special values (inspect by eye):")
    for s in specials:
        print("   ", s)
    print("ALL TARGETS MET" if allok and not exact_fail else "SOME TARGETS MISSED")


if __name__ == "__main__":
    main()
