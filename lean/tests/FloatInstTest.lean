import RvModel.FloatInst

/-
  Test driver for RvModel.FloatInst: prints `name arg ... value` lines, every number as a decimal with
  17 significant digits (exact round trip of binary64).  Compare with `floatinst_ref.py` (mpmath, 50 digits):

    lake build RvModel.FloatInst
    lake env lean --run tests/FloatInstTest.lean > /tmp/floatinst_out.txt          (~30 s, interpreted)
    /opt/veriftools/pyvenv/bin/python tests/floatinst_ref.py /tmp/floatinst_out.txt   (~1 min; -v lists misses)
-/

open FloatImpl

def pow10K : Nat := 10 ^ 1100

/-- 17-significant-digit scientific rendering, exact integer arithmetic -/
def fmt17 (x : Float) : String :=
  if x.isNaN then "nan"
  else if x.isInf then (if x > 0.0 then "inf" else "-inf")
  else if x == 0.0 then (if signBit x then "-0.0" else "0.0")
  else
    let (m, e) := decompose x
    let n := m * pow10K
    let q : Nat := if e ≥ 0 then n <<< e.toNat else n >>> (-e).toNat
    let len := (toString q).length
    let drop := len - 17
    let q17 := (q + 5 * 10 ^ (drop - 1)) / 10 ^ drop
    let (q17, len) := if q17 ≥ 10 ^ 17 then (q17 / 10, len + 1) else (q17, len)
    let ds := toString q17
    let ex : Int := (len : Int) - 1 - 1100
    let sgn := if signBit x then "-" else ""
    sgn ++ (ds.take 1).toString ++ "." ++ (ds.drop 1).toString ++ "e" ++ toString ex

def line (name : String) (args : List Float) (v : Float) : String :=
  name ++ " " ++ " ".intercalate (args.map fmt17) ++ " " ++ fmt17 v

def emit1 (name : String) (f : Float → Float) (xs : List Float) : IO Unit :=
  for x in xs do IO.println (line name [x] (f x))

def emit2 (name : String) (f : Float → Float → Float) (ps : List (Float × Float)) : IO Unit :=
  for (a, b) in ps do IO.println (line name [a, b] (f a b))

/-- geometric grid lo·r^i -/
def geom (lo r : Float) (n : Nat) : List Float :=
  (List.range n).map fun i => lo * Float.pow r (Float.ofNat i)

def lin (lo step : Float) (n : Nat) : List Float :=
  (List.range n).map fun i => lo + step * Float.ofNat i

def pm (xs : List Float) : List Float := xs ++ xs.map (fun x => -x)

def prod {α β} (xs : List α) (ys : List β) : List (α × β) :=
  xs.flatMap fun x => ys.map fun y => (x, y)

def main : IO Unit := do
  -- ln1p / expm1
  let small : List Float := [1e-300, 1e-100, 1e-20, 1e-17, 1e-16, 3e-16, 1e-15, 1e-12, 1e-10, 1e-8, 1e-7, 1e-5,
    1e-4, 1e-3, 0.01, 0.03, 0.1, 0.2, 0.3, 0.4, 0.5, 0.6, 0.7, 0.9, 0.99, 0.999999]
  emit1 "ln1p" ln1p (pm small ++ [1.0, 1.5, 2.0, 10.0, 1e5, 1e10, 1e16, 1e17, 1e100, 1e300, -0.9999999999])
  emit1 "expm1" expm1 (pm small ++ pm [1.0, 1.5, 2.0, 5.0, 10.0, 20.0, 36.0, 37.0, 38.0, 50.0, 100.0, 700.0, 709.0])
  -- lgamma
  let lgx : List Float := geom 1e-300 10.0 601 ++ lin 0.01 0.01 400 ++ lin 4.0 0.137 200 ++ lin 9.5 0.1 20
    ++ [1.0 - 1e-3, 1.0 - 1e-6, 1.0 - 1e-9, 1.0 - 1e-12, 1.0 - 1e-15, 1.0 + 1e-3, 1.0 + 1e-6, 1.0 + 1e-9, 1.0 + 1e-12,
        1.0 + 1e-15, 2.0 - 1e-3, 2.0 - 1e-6, 2.0 - 1e-9, 2.0 - 1e-12, 2.0 - 1e-15, 2.0 + 1e-3, 2.0 + 1e-6, 2.0 + 1e-9,
        2.0 + 1e-12, 2.0 + 1e-15, 1.0, 2.0, 3.0, 171.0, 172.0, 1e15 + 1.0, 4503599627370496.5, 2.5, 1.5, 0.5, 10.0,
        2.5000000000000004, 1.5000000000000002, 0.49999999999999994, 9.999999999999998]
  emit1 "lgamma" lgamma lgx
  emit1 "lgammaNeg" lgamma [-1e-300, -1e-10, -0.1, -0.5, -0.9, -1.5, -2.2, -3.7, -10.3, -100.5, -1000.25, -1e5 - 0.5, -0.3, -1.1, -4.9]
  -- gamma
  emit1 "gamma" gamma (geom 1e-300 10.0 300 ++ lin 0.01 0.01 400 ++ lin 1.0 1.0 175 ++ lin 4.0 0.5371 312
    ++ [171.6, 171.62, 171.624, 171.7, 0.5, 1.5, 1.5000000000000002, 0.49999999999999994])
  emit1 "gammaNeg" gamma [-1e-300, -1e-10, -0.1, -0.5, -0.9, -1.5, -2.2, -3.7, -10.3, -100.5, -150.25, -170.5, -0.3, -1.1, -4.9, -20.75]
  -- digamma
  emit1 "digamma" digamma (geom 1e-300 10.0 601 ++ lin 0.01 0.01 400 ++ lin 4.0 0.137 200
    ++ [1.4616321449683622, 1.4616321449683624, 1.461632144968362, 1.4616, 1.4617, 1.46, 1.47, 1.25, 1.2499999999999998,
        1.7, 1.7000000000000002, 1.0, 2.0, 10.0, 9.999999999999998, 100.0])
  emit1 "digammaNeg" digamma [-1e-300, -1e-10, -0.1, -0.5, -0.9, -1.5, -2.2, -3.7, -10.3, -100.5, -1000.25, -0.3, -1.1, -4.9]
  -- lnBeta
  let ab : List Float := [1e-3, 0.01, 0.1, 0.5, 1.0, 2.0, 3.3, 10.0, 30.0, 100.0, 1000.0, 1e4, 1e6]
  emit2 "lnBeta" lnBeta (prod ab ab)
  -- incGamma  (x, a)
  let as : List Float := [1e-3, 0.01, 0.1, 0.5, 1.0, 1.5, 2.5, 5.0, 9.99, 10.0, 10.5, 30.0, 100.0, 300.0, 1000.0, 3000.0, 1e4]
  let mults : List Float := [1e-3, 0.01, 0.1, 0.3, 0.5, 0.7, 0.9, 0.95, 0.99, 0.999, 1.0, 1.001, 1.01, 1.05, 1.1, 1.3, 1.5, 2.0, 3.0,
    5.0, 10.0, 30.0, 100.0]
  for a in as do
    for m in mults do
      let x := a * m
      IO.println (line "incGamma" [x, a] (incGamma x a))
    for k in lin (-8.0) 0.5 33 do
      let x := a + k * Float.sqrt a
      if x > 0.0 then IO.println (line "incGamma" [x, a] (incGamma x a))
    for x in [1e-300, 1e-10, 1e-3, 0.5, 1.0, 1.1, 2.0, 5.0, 20.0, 50.0, 200.0, 700.0] do
      IO.println (line "incGamma" [x, a] (incGamma x a))
  -- incBeta (x, a, b, lnBeta a b);  `incBetaAcc` = same function fed with the cancellation-free lnBetaAcc
  let bs : List Float := [0.01, 0.1, 0.5, 1.0, 2.0, 5.0, 17.3, 30.0, 100.0, 300.0, 1000.0]
  let xs : List Float := [1e-300, 1e-10, 1e-3, 0.01, 0.1, 0.25, 0.4, 0.5, 0.6, 0.75, 0.9, 0.99, 0.999, 0.999999, 0.9999999999]
  for (tag, big) in [("incBeta", false), ("incBetaAcc", true)] do
    let grid := if big then bs ++ [3000.0] else bs
    for a in grid do
      for b in grid do
        let lb := if big then lnBetaAcc a b else lnBeta a b
        let mean := a / (a + b)
        let sd := Float.sqrt (a * b / ((a + b) * (a + b) * (a + b + 1.0)))
        let extra := (lin (-5.0) 1.0 11).map fun k => mean + k * sd
        for x in xs ++ extra ++ [(a + 1.0) / (a + b + 2.0)] do
          if x > 0.0 && x < 1.0 then
            IO.println (line tag [x, a, b, lb] (incBeta x a b lb))
  -- informational: a, b up to 1e4 (the exponent a ln x + b ln(1-x) - lnB is ~1e4 there, so ~1e-12 is the floor)
  for (a, b) in [(1e4, 1e4), (1e4, 3000.0), (1000.0, 1e4), (1e4, 0.5), (2.0, 1e4)] do
    let lb := lnBetaAcc a b
    let mean := a / (a + b)
    let sd := Float.sqrt (a * b / ((a + b) * (a + b) * (a + b + 1.0)))
    for k in lin (-5.0) 0.5 21 do
      let x := mean + k * sd
      if x > 0.0 && x < 1.0 then IO.println (line "incBetaAcc1e4" [x, a, b, lb] (incBeta x a b lb))
  emit2 "lnBetaAcc" lnBetaAcc (prod ab ab)
  -- erf / erfc / erfInv
  let ex : List Float := [1e-300, 1e-100, 1e-20, 1e-10, 1e-5, 1e-3] ++ lin 0.01 0.01 100 ++ lin 1.0 0.03125 170
    ++ lin 6.5 0.5 45 ++ [0.9999999999999999, 1.0000000000000002, 26.5, 26.6, 27.0, 27.2]
  emit1 "erf" erf (pm ex)
  emit1 "erfc" erfc (pm ex)
  let ps : List Float := [1e-300, 1e-100, 1e-20, 1e-10, 1e-5, 1e-3] ++ lin 0.01 0.01 99 ++ [0.0999, 0.1, 0.1001, 0.5, 0.5000000000000001]
    ++ [0.999, 0.9999, 0.99999, 0.999999, 1.0 - 1e-7, 1.0 - 1e-8, 1.0 - 1e-9, 1.0 - 1e-10, 1.0 - 1e-12, 1.0 - 1e-14, 1.0 - 1e-15,
        1.0 - 3e-16, 0.9999999999999999]
  emit1 "erfInv" erfInv (pm ps)
  -- Bessel
  let bx : List Float := [1e-300, 1e-10, 0.1, 1.0, 2.0, 5.0, 8.0, 10.0, 30.0, 100.0, 300.0, 700.0]
  let bv : List Float := [0.0, 1.0, 2.0, 0.5, -0.5, 3.7, -3.7, 10.0, -10.0, 49.5, 50.0, 60.0, 100.0]
  let bx2 : List Float := [1e-5, 0.5, 3.0, 15.0, 20.0, 29.0, 30.5, 31.0, 40.0, 50.0, 75.0, 150.0, 500.0, 705.0, 713.0]
  let bv2 : List Float := [0.25, 1.5, 5.0, 5.5, 7.3, -1.5, -7.3, 20.0, 30.0]
  emit1 "bessI0" bessI0 (pm (bx ++ bx2))
  emit1 "bessI1" bessI1 (pm (bx ++ bx2))
  emit2 "bessIv" bessIv (prod bv bx)
  emit2 "bessIv" bessIv (prod (bv ++ bv2) bx2)
  emit2 "bessIv" bessIv (prod bv2 bx)
  emit2 "bessIv" bessIv (prod [165.5, 200.0, 300.0] [50.0, 100.0, 300.0, 700.0])
  emit2 "bessIv" bessIv (prod [0.0, 1.0, 2.0, 3.0, -3.0, 10.0] [-0.1, -1.0, -10.0, -100.0])
  -- exact-semantics checks (compared against Python re-implementations of the Rust semantics)
  let misc : List Float := [0.0, -0.0, 0.3, -0.3, 0.5, -0.5, 1.5, -1.5, 2.5, -2.5, 0.49999999999999994, 1e10 + 0.5, -7.9, 7.9,
    4503599627370495.5, 1e19, 1.8446744073709552e19, 1e20, -1e19, 9.223372036854775e18, 9.223372036854776e18, -9.223372036854776e18,
    -1e300, 1e300, 5e-324, 2.2250738585072014e-308, 2.225073858507201e-308, nan, inf, negInf]
  emit1 "round" (RealLike.round (α := Float)) misc
  emit1 "trunc" (RealLike.trunc (α := Float)) misc
  emit1 "signum" (RealLike.signum (α := Float)) misc
  for x in misc do
    IO.println s!"toNat {fmt17 x} {RealLike.toNat x}"
    IO.println s!"toInt {fmt17 x} {RealLike.toInt x}"
    IO.println s!"isNormal {fmt17 x} {RealLike.isNormal x}"
  let rs : List Float := [7.5, -7.5, 0.3, -0.3, 1e300, -1e300, 5e-324, 1e-310, 123456789.123, -1e17 - 3.0, 0.0, -0.0, nan, inf]
  let ds : List Float := [2.0, -2.0, 0.1, 3.0, 1e-300, 6.283185307179586, 5e-324, 1e300, inf, 0.0, nan]
  emit2 "remEuclid" (RealLike.remEuclid (α := Float)) (prod rs ds)
  emit2 "max" (RealLike.max (α := Float)) (prod [1.0, -2.0, nan, inf] [0.5, nan, negInf, 3.0])
  emit2 "min" (RealLike.min (α := Float)) (prod [1.0, -2.0, nan, inf] [0.5, nan, negInf, 3.0])
  IO.println (line "powi" [2.0, 10.0] (RealLike.powi (2.0 : Float) 10))
  IO.println (line "powi" [2.0, -3.0] (RealLike.powi (2.0 : Float) (-3)))
  -- special values
  for (n, f) in [("ln1p", ln1p), ("expm1", expm1), ("lgamma", lgamma), ("gamma", gamma), ("digamma", digamma),
                 ("erf", erf), ("erfc", erfc), ("erfInv", erfInv), ("bessI0", bessI0), ("bessI1", bessI1)] do
    for x in [nan, inf, negInf, 0.0, -0.0, -1.0, -2.0, 1.0, 2.0] do
      IO.println ("special " ++ line n [x] (f x))
  for (x, a) in [(0.0, 1.0), (0.0, 0.0), (0.0, nan), (inf, 1.0), (1.0, 0.0), (-1.0, 1.0), (nan, 1.0), (1.0, nan), (1e9, 3.0)] do
    IO.println ("special " ++ line "incGamma" [x, a] (incGamma x a))
  for x in [0.0, 1.0, -0.1, 1.1, nan] do
    IO.println ("special " ++ line "incBeta" [x, 2.0, 3.0] (incBeta x 2.0 3.0 (lnBeta 2.0 3.0)))
  for (v, x) in [(0.0, 0.0), (1.0, 0.0), (-1.0, 0.0), (-0.5, 0.0), (-1.5, 0.0), (0.5, -1.0), (0.5, inf), (nan, 1.0), (1.0, nan), (-2.0, 3.0)] do
    IO.println ("special " ++ line "bessIv" [v, x] (bessIv v x))
