import RvModel.Num
