import RvModel.Num
import RvModel.Prelude
import RvModel.FloatInst
import RvModel.Wire
import RvModel.RealInst
import RvModel.Gen.Defs
import RvModel.Gen.Dispatch
import RvModel.Hand.Dispatch
