import RvModel.Gen.Dispatch
import RvModel.Fb.DispatchFb
import Std.Data.HashMap
/-
  rvdrv_fb — fallback driver (only the hand tables that still compile; written by checklib.core.build_driver) — evaluates one model operation per input line on the `Float` carrier.
  line:  <op> <kind> <tokens…>      answer:  <tokens…> | NOOP (unknown op) | BAD:<why>
-/
open Std

def mkTable : HashMap String (Rd String) :=
  (GenDispatch.table ++ HandDispatchFb.table).foldl (fun m (k, v) => m.insert k v) {}

def step (tbl : HashMap String (Rd String)) (line : String) : String :=
  match (line.trimAscii.toString.splitOn " ").filter (· ≠ "") with
  | op :: kind :: toks =>
    match tbl[op]? with
    | none => "NOOP"
    | some r =>
      match (r.run (kind :: toks)) with
      | .ok (s, _) => s
      | .error e => "BAD:" ++ e
  | _ => "BAD"

partial def loop (tbl : HashMap String (Rd String)) (h : IO.FS.Stream) (out : IO.FS.Stream) : IO Unit := do
  let line ← h.getLine
  if line.isEmpty then return ()
  out.putStrLn (step tbl line)
  loop tbl h out

def main : IO Unit := do
  let tbl := mkTable
  loop tbl (← IO.getStdin) (← IO.getStdout)
