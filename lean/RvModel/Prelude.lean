import RvModel.Num
/-
  RvModel.Prelude — small total helpers that generated code refers to (Mathlib-free).
-/

/-- error value of checked constructors / setters: the Rust enum variant name and its numeric payload -/
structure Err (α : Type) where
  variant : String
  args : List α

/-- `rv::data::DataOrSuffStat` -/
inductive DataOrSuffStat (X S : Type) where
  | data (xs : List X)
  | suffStat (s : S)

/-- Rust `iter().enumerate()` : (index, element) -/
def enumL {β : Type} (xs : List β) : List (Nat × β) :=
  (List.range xs.length).zip xs

/-- running fold: Rust `.scan(init, |acc, x| { *acc = f acc x; Some(*acc) })` -/
def scanL {β γ : Type} (f : γ → β → γ) (init : γ) : List β → List γ
  | [] => []
  | x :: xs => let a := f init x; a :: scanL f a xs

/-- Rust slice indexing on a list of reals; out of bounds (a panic in Rust) is NaN in the model -/
def idxR {α : Type} [RealLike α] (xs : List α) (i : Nat) : α := xs.getD i RealLike.nan

/-- integer range `lo..hi` / `lo..=hi` -/
def intRange (lo hi : Int) (inclusive : Bool) : List Int :=
  let n := (if inclusive then hi + 1 - lo else hi - lo).toNat
  (List.range n).map (fun i => lo + Int.ofNat i)

/-- `while cond { body }` with fuel -/
def whileFuel {σ : Type} : Nat → (σ → Bool) → (σ → σ) → σ → σ
  | 0, _, _, s => s
  | n + 1, c, f, s => if c s then whileFuel n c f (f s) else s

/-- saturating float→unsigned cast at `bits` bits (`x as u8` …) applied after truncation -/
def satNat (bits : Nat) (n : Nat) : Nat := Nat.min n (2 ^ bits - 1)

/-- saturating float→signed cast at `bits` bits -/
def satInt (bits : Nat) (n : Int) : Int :=
  let hi : Int := (2 : Int) ^ (bits - 1) - 1
  let lo : Int := -((2 : Int) ^ (bits - 1))
  if n > hi then hi else if n < lo then lo else n

/-- Rust `iter.try_for_each(f)`: stop at the first error -/
def tryForEach {β ε : Type} (f : β → Except ε Unit) : List β → Except ε Unit
  | [] => .ok ()
  | x :: xs => match f x with
    | .error e => .error e
    | .ok _ => tryForEach f xs
