import RvModel.Num
import RvModel.RealInst
import Mathlib.Analysis.SpecialFunctions.Log.Basic
import Mathlib.Analysis.SpecialFunctions.Exp
import Mathlib.Analysis.SpecialFunctions.Pow.Real
import Mathlib.Analysis.SpecialFunctions.Gamma.Basic
import Mathlib.Tactic.NormNum.OfScientific

/-!
  RvModel.ExtInst — the carrier `X`: IEEE-754 *special values* over exact reals.

  `X = nan | ninf | pinf | fin (r : ℝ)`.  Finite values are exact real numbers: there is **no rounding,
  no overflow / underflow of finite values, no subnormals and no signed zero** (one zero, `fin 0`).
  What is modelled is the algebra of the special values, which is what totality / NaN-freedom /
  `-inf`-handling / validation-ladder theorems need (C02, C04, C10, C13).

  ## Conventions that differ from binary64 because there is one zero only
  * `fin a / fin 0` for `a ≠ 0` is `pinf` if `0 < a` and `ninf` if `a < 0`
    (`1/0 = pinf`, `-1/0 = ninf`, `0/0 = nan`); binary64 would give the opposite sign for `x / -0.0`.
  * `pinf / fin 0 = pinf`, `ninf / fin 0 = ninf` (sign of `+0.0`).
  * `signum (fin 0) = fin 1` (Rust: `signum(+0.0) = 1.0`; `signum(-0.0) = -1.0` is not representable).
  * `toNat pinf = 2^64-1`, `toInt pinf = 2^63-1`, `toInt ninf = -2^63`, `toNat/toInt nan = 0` (Rust saturating
    casts at the widest width; narrower widths are applied by `satNat/satInt` in generated code);
    **finite values are not saturated** (`toNat (fin a) = ⌊a⌋₊` as on `R`).
  * `isNormal (fin a) = (a ≠ 0)`: no subnormal range.

  ## Primitives that follow IEEE-754 / Rust `f64` on every argument incl. `nan`, `±inf`
  `+ - * / neg`, `ln exp sqrt abs ln1p expm1 floor ceil round trunc`, `sin cos tan` (`nan` at `±inf`),
  `atan` (`±π/2` at `±inf`), `acos asin` (`nan` outside `[-1,1]`), `sinh cosh tanh signum log2 log10 exp2`,
  `powi`, `max min` (Rust: a NaN argument is ignored), `erf erfc` (`erf ±inf = ±1`), `lt le feq`
  (false as soon as one argument is `nan`; `ninf < fin _ < pinf`), `isFinite isNaN isInfinite`,
  `lgamma pinf = gamma pinf = digamma pinf = pinf`, `lgamma` at a pole (`0, -1, -2, …`) `= pinf`,
  `erfInv (fin 1) = pinf`, `erfInv (fin (-1)) = ninf`, `erfInv` outside `[-1,1]` `= nan`.

  ## NOT MODELLED — do not prove theorems through these on the listed arguments
  The following return `nan` in the model *as a placeholder*, which need not be what binary64 / the
  `special` crate return:
  * `powf`        with any non-finite argument (IEEE has `powf(x, 0) = 1`, `powf(1, y) = 1`, `powf(inf, y)` …);
  * `remEuclid`   with an infinite argument (a `nan` argument or a zero divisor ↦ `nan` is correct);
  * `lgamma ninf`, `digamma ninf`, `gamma`/`digamma` **at the poles** `0, -1, -2, …` (finite argument!);
  * `lnBeta`, `incGamma`, `incBeta`, `erfInv`, `bessI0`, `bessI1`, `bessIv` with any infinite argument;
  * on *finite* arguments `lnBeta incGamma incBeta bessI*` are the plain lift of the real function of
    `RealInst.lean` (`R.incGammaR`, …) also outside the domain where that function is meaningful
    (e.g. negative shape) — exactly as on `R`.
-/

open Real

/-- IEEE-754 special values over exact reals: no rounding, no overflow, one zero. -/
inductive X where
  | nan | ninf | pinf
  | fin (r : ℝ)

namespace X
noncomputable section

/-- the real number carried by a finite value (junk `0` on `nan`, `±inf`) -/
def toReal : X → ℝ
  | fin a => a
  | _ => 0

/-- finite or `-inf`: the values a log-weight may take -/
def IsFinOrNinf : X → Prop
  | fin _ => True
  | ninf => True
  | _ => False

/-- the finite entries of a list, in order -/
def fins : List X → List ℝ
  | [] => []
  | fin a :: t => a :: fins t
  | _ :: t => fins t

def add : X → X → X
  | nan, _ | _, nan => nan
  | pinf, ninf | ninf, pinf => nan
  | pinf, _ | _, pinf => pinf
  | ninf, _ | _, ninf => ninf
  | fin a, fin b => fin (a + b)

def neg : X → X
  | nan => nan
  | pinf => ninf
  | ninf => pinf
  | fin a => fin (-a)

def sub : X → X → X
  | nan, _ | _, nan => nan
  | pinf, pinf | ninf, ninf => nan
  | pinf, _ | _, ninf => pinf
  | ninf, _ | _, pinf => ninf
  | fin a, fin b => fin (a - b)

def mul : X → X → X
  | nan, _ | _, nan => nan
  | fin a, fin b => fin (a * b)
  | fin a, pinf | pinf, fin a => if a = 0 then nan else if 0 < a then pinf else ninf
  | fin a, ninf | ninf, fin a => if a = 0 then nan else if 0 < a then ninf else pinf
  | pinf, pinf | ninf, ninf => pinf
  | pinf, ninf | ninf, pinf => ninf

def div : X → X → X
  | nan, _ | _, nan => nan
  | fin a, fin b => if b = 0 then (if a = 0 then nan else if 0 < a then pinf else ninf) else fin (a / b)
  | fin _, pinf | fin _, ninf => fin 0
  | pinf, fin b => if 0 ≤ b then pinf else ninf
  | ninf, fin b => if 0 ≤ b then ninf else pinf
  | _, _ => nan

def xexp : X → X
  | nan => nan
  | pinf => pinf
  | ninf => fin 0
  | fin a => fin (Real.exp a)

def xln : X → X
  | nan => nan
  | pinf => pinf
  | ninf => nan
  | fin a => if a = 0 then ninf else if 0 < a then fin (Real.log a) else nan

def xlogb (base : ℝ) : X → X
  | nan => nan
  | pinf => pinf
  | ninf => nan
  | fin a => if a = 0 then ninf else if 0 < a then fin (Real.logb base a) else nan

def xsqrt : X → X
  | nan => nan
  | pinf => pinf
  | ninf => nan
  | fin a => if a < 0 then nan else fin (Real.sqrt a)

def xabs : X → X
  | nan => nan
  | pinf => pinf
  | ninf => pinf
  | fin a => fin |a|

def xln1p : X → X
  | nan => nan
  | pinf => pinf
  | ninf => nan
  | fin a => if a = -1 then ninf else if -1 < a then fin (Real.log (1 + a)) else nan

def xexpm1 : X → X
  | nan => nan
  | pinf => pinf
  | ninf => fin (-1)
  | fin a => fin (Real.exp a - 1)

/-- lift of a total real function that is the identity on the special values (`floor`, `ceil`, …) -/
def liftId (f : ℝ → ℝ) : X → X
  | fin a => fin (f a)
  | x => x

/-- lift of a real function; `nan` on every special value -/
def lift1 (f : ℝ → ℝ) : X → X
  | fin a => fin (f a)
  | _ => nan

/-- lift of a binary real function; `nan` as soon as one argument is a special value -/
def lift2 (f : ℝ → ℝ → ℝ) : X → X → X
  | fin a, fin b => fin (f a b)
  | _, _ => nan

def lift3 (f : ℝ → ℝ → ℝ → ℝ) : X → X → X → X
  | fin a, fin b, fin c => fin (f a b c)
  | _, _, _ => nan

def xatan : X → X
  | nan => nan
  | pinf => fin (π / 2)
  | ninf => fin (-(π / 2))
  | fin a => fin (Real.arctan a)

def xacos : X → X
  | fin a => if -1 ≤ a ∧ a ≤ 1 then fin (Real.arccos a) else nan
  | _ => nan

def xasin : X → X
  | fin a => if -1 ≤ a ∧ a ≤ 1 then fin (Real.arcsin a) else nan
  | _ => nan

def xsinh : X → X
  | fin a => fin (Real.sinh a)
  | x => x

def xcosh : X → X
  | nan => nan
  | pinf => pinf
  | ninf => pinf
  | fin a => fin (Real.cosh a)

def xtanh : X → X
  | nan => nan
  | pinf => fin 1
  | ninf => fin (-1)
  | fin a => fin (Real.tanh a)

def xsignum : X → X
  | nan => nan
  | pinf => fin 1
  | ninf => fin (-1)
  | fin a => fin (if 0 ≤ a then 1 else -1)

def xexp2 : X → X
  | nan => nan
  | pinf => pinf
  | ninf => fin 0
  | fin a => fin ((2 : ℝ) ^ a)

/-- `powf`: finite arguments only (see the header: NOT modelled on non-finite arguments).
    `0^b`: `0` / `1` / `pinf` for `b` positive / zero / negative; negative base: real power for an
    integral exponent, `nan` otherwise. -/
def xpowf : X → X → X
  | fin a, fin b =>
    if 0 < a then fin (a ^ b)
    else if a = 0 then (if 0 < b then fin 0 else if b = 0 then fin 1 else pinf)
    else if (⌊b⌋ : ℝ) = b then fin (a ^ b) else nan
  | _, _ => nan

def xpowi : X → ℤ → X
  | nan, _ => nan
  | pinf, n => if 0 < n then pinf else if n = 0 then fin 1 else fin 0
  | ninf, n => if 0 < n then (if n % 2 = 0 then pinf else ninf) else if n = 0 then fin 1 else fin 0
  | fin a, n => if a = 0 ∧ n < 0 then pinf else fin (a ^ n)

/-- Rust `f64::max`: a NaN argument is ignored -/
def xmax : X → X → X
  | nan, b => b
  | a, nan => a
  | pinf, _ | _, pinf => pinf
  | ninf, b => b
  | a, ninf => a
  | fin a, fin b => fin (Max.max a b)

/-- Rust `f64::min`: a NaN argument is ignored -/
def xmin : X → X → X
  | nan, b => b
  | a, nan => a
  | ninf, _ | _, ninf => ninf
  | pinf, b => b
  | a, pinf => a
  | fin a, fin b => fin (Min.min a b)

def xremEuclid : X → X → X
  | fin a, fin b => if b = 0 then nan else fin (a - |b| * (⌊a / |b|⌋ : ℝ))
  | _, _ => nan

def xlgamma : X → X
  | nan => nan
  | pinf => pinf
  | ninf => nan
  | fin a => if Real.Gamma a = 0 then pinf else fin (Real.log (Real.Gamma a))

def xgamma : X → X
  | nan => nan
  | pinf => pinf
  | ninf => nan
  | fin a => if Real.Gamma a = 0 then nan else fin (Real.Gamma a)

def xdigamma : X → X
  | nan => nan
  | pinf => pinf
  | ninf => nan
  | fin a => if Real.Gamma a = 0 then nan else fin (R.digammaR a)

def xerf : X → X
  | nan => nan
  | pinf => fin 1
  | ninf => fin (-1)
  | fin a => fin (R.erfR a)

def xerfc : X → X
  | nan => nan
  | pinf => fin 0
  | ninf => fin 2
  | fin a => fin (1 - R.erfR a)

def xerfInv : X → X
  | fin a =>
    if a = 1 then pinf else if a = -1 then ninf
    else if -1 < a ∧ a < 1 then fin (Function.invFun R.erfR a) else nan
  | _ => nan

def xlt : X → X → Bool
  | nan, _ | _, nan => false
  | pinf, _ => false
  | _, ninf => false
  | ninf, _ => true
  | _, pinf => true
  | fin a, fin b => decide (a < b)

def xle : X → X → Bool
  | nan, _ | _, nan => false
  | ninf, _ => true
  | _, pinf => true
  | pinf, _ => false
  | _, ninf => false
  | fin a, fin b => decide (a ≤ b)

def xfeq : X → X → Bool
  | ninf, ninf => true
  | pinf, pinf => true
  | fin a, fin b => decide (a = b)
  | _, _ => false

def xisFinite : X → Bool
  | fin _ => true
  | _ => false

def xisNaN : X → Bool
  | nan => true
  | _ => false

def xisInfinite : X → Bool
  | pinf => true
  | ninf => true
  | _ => false

def xisNormal : X → Bool
  | fin a => decide (a ≠ 0)
  | _ => false

def xtoNat : X → Nat
  | fin a => ⌊a⌋₊
  | pinf => 2 ^ 64 - 1
  | _ => 0

def xtoInt : X → Int
  | fin a => if 0 ≤ a then ⌊a⌋ else ⌈a⌉
  | pinf => 2 ^ 63 - 1
  | ninf => -(2 ^ 63)
  | nan => 0

end
end X

noncomputable instance : RealLike X where
  add := X.add
  sub := X.sub
  mul := X.mul
  div := X.div
  neg := X.neg
  ofScientific m s e := X.fin (OfScientific.ofScientific m s e : ℝ)
  ofNatR n := X.fin (n : ℝ)
  ofIntR n := X.fin (n : ℝ)
  toNat := X.xtoNat
  toInt := X.xtoInt
  ln := X.xln
  exp := X.xexp
  sqrt := X.xsqrt
  abs := X.xabs
  ln1p := X.xln1p
  expm1 := X.xexpm1
  floor := X.liftId (fun a => (⌊a⌋ : ℝ))
  ceil := X.liftId (fun a => (⌈a⌉ : ℝ))
  round := X.liftId (fun a => if 0 ≤ a then (⌊a + 1 / 2⌋ : ℝ) else (⌈a - 1 / 2⌉ : ℝ))
  trunc := X.liftId (fun a => if 0 ≤ a then (⌊a⌋ : ℝ) else (⌈a⌉ : ℝ))
  sin := X.lift1 Real.sin
  cos := X.lift1 Real.cos
  tan := X.lift1 Real.tan
  atan := X.xatan
  acos := X.xacos
  asin := X.xasin
  sinh := X.xsinh
  cosh := X.xcosh
  tanh := X.xtanh
  signum := X.xsignum
  log2 := X.xlogb 2
  log10 := X.xlogb 10
  exp2 := X.xexp2
  powf := X.xpowf
  powi := X.xpowi
  max := X.xmax
  min := X.xmin
  remEuclid := X.xremEuclid
  lgamma := X.xlgamma
  gamma := X.xgamma
  digamma := X.xdigamma
  lnBeta := X.lift2 (fun a b => Real.log (Real.Gamma a * Real.Gamma b / Real.Gamma (a + b)))
  incGamma := X.lift2 R.incGammaR
  incBeta x a b _ := X.lift3 R.incBetaR x a b
  erf := X.xerf
  erfc := X.xerfc
  erfInv := X.xerfInv
  bessI0 := X.lift1 (R.bessIR 0)
  bessI1 := X.lift1 (R.bessIR 1)
  bessIv := X.lift2 R.bessIR
  lt := X.xlt
  le := X.xle
  feq := X.xfeq
  isFinite := X.xisFinite
  isNaN := X.xisNaN
  isInfinite := X.xisInfinite
  isNormal := X.xisNormal
  -- named constants: the same exact reals as on `R`
  halfLn2Pi := X.fin (RealLike.halfLn2Pi : R).val
  halfLn2PiE := X.fin (RealLike.halfLn2PiE : R).val
  halfLnPi := X.fin (RealLike.halfLnPi : R).val
  lnPi := X.fin (RealLike.lnPi : R).val
  ln2Pi := X.fin (RealLike.ln2Pi : R).val
  ln2PiE := X.fin (RealLike.ln2PiE : R).val
  eulerGamma := X.fin (RealLike.eulerGamma : R).val
  lnLn2 := X.fin (RealLike.lnLn2 : R).val
  sqrtPi := X.fin (RealLike.sqrtPi : R).val
  ln2 := X.fin (RealLike.ln2 : R).val
  ln10 := X.fin (RealLike.ln10 : R).val
  pi := X.fin (RealLike.pi : R).val
  sqrt2 := X.fin (RealLike.sqrt2 : R).val
  e := X.fin (RealLike.e : R).val
  frac1Pi := X.fin (RealLike.frac1Pi : R).val
  frac1Sqrt2 := X.fin (RealLike.frac1Sqrt2 : R).val
  fracPi2 := X.fin (RealLike.fracPi2 : R).val
  negInf := X.ninf
  posInf := X.pinf
  nan := X.nan
  epsilon := X.fin (RealLike.epsilon : R).val
  maxFinite := X.fin (RealLike.maxFinite : R).val
  minPositive := X.fin (RealLike.minPositive : R).val

namespace X

/-- embedding of the exact-real carrier -/
def ofR (r : R) : X := fin r.val

/-! ### constants and literals -/
@[simp] theorem negInf_eq : (RealLike.negInf : X) = ninf := rfl
@[simp] theorem posInf_eq : (RealLike.posInf : X) = pinf := rfl
@[simp] theorem nan_eq : (RealLike.nan : X) = nan := rfl
@[simp] theorem sci_eq (m : Nat) (s : Bool) (e : Nat) :
    (OfScientific.ofScientific m s e : X) = fin (OfScientific.ofScientific m s e : ℝ) := rfl
@[simp] theorem ofNatR_eq (n : Nat) : (RealLike.ofNatR n : X) = fin (n : ℝ) := rfl
@[simp] theorem ofIntR_eq (n : Int) : (RealLike.ofIntR n : X) = fin (n : ℝ) := rfl
@[simp] theorem halfLn2Pi_eq : (RealLike.halfLn2Pi : X) = fin (Real.log (2 * π) / 2) := rfl
@[simp] theorem halfLn2PiE_eq : (RealLike.halfLn2PiE : X) = fin (Real.log (2 * π * Real.exp 1) / 2) := rfl
@[simp] theorem halfLnPi_eq : (RealLike.halfLnPi : X) = fin (Real.log π / 2) := rfl
@[simp] theorem lnPi_eq : (RealLike.lnPi : X) = fin (Real.log π) := rfl
@[simp] theorem ln2Pi_eq : (RealLike.ln2Pi : X) = fin (Real.log (2 * π)) := rfl
@[simp] theorem ln2PiE_eq : (RealLike.ln2PiE : X) = fin (Real.log (2 * π * Real.exp 1)) := rfl
@[simp] theorem eulerGamma_eq : (RealLike.eulerGamma : X) = fin Real.eulerMascheroniConstant := rfl
@[simp] theorem lnLn2_eq : (RealLike.lnLn2 : X) = fin (Real.log (Real.log 2)) := rfl
@[simp] theorem sqrtPi_eq : (RealLike.sqrtPi : X) = fin (Real.sqrt π) := rfl
@[simp] theorem ln2_eq : (RealLike.ln2 : X) = fin (Real.log 2) := rfl
@[simp] theorem ln10_eq : (RealLike.ln10 : X) = fin (Real.log 10) := rfl
@[simp] theorem pi_eq : (RealLike.pi : X) = fin π := rfl
@[simp] theorem sqrt2_eq : (RealLike.sqrt2 : X) = fin (Real.sqrt 2) := rfl
@[simp] theorem e_eq : (RealLike.e : X) = fin (Real.exp 1) := rfl
@[simp] theorem frac1Pi_eq : (RealLike.frac1Pi : X) = fin (1 / π) := rfl
@[simp] theorem frac1Sqrt2_eq : (RealLike.frac1Sqrt2 : X) = fin (1 / Real.sqrt 2) := rfl
@[simp] theorem fracPi2_eq : (RealLike.fracPi2 : X) = fin (π / 2) := rfl
@[simp] theorem epsilon_eq : (RealLike.epsilon : X) = fin ((2 : ℝ) ^ (-52 : ℤ)) := rfl
@[simp] theorem maxFinite_eq :
    (RealLike.maxFinite : X) = fin ((2 - (2 : ℝ) ^ (-52 : ℤ)) * (2 : ℝ) ^ (1023 : ℤ)) := rfl
@[simp] theorem minPositive_eq : (RealLike.minPositive : X) = fin ((2 : ℝ) ^ (-1022 : ℤ)) := rfl

@[simp] theorem toReal_fin (a : ℝ) : (fin a).toReal = a := rfl
@[simp] theorem ofR_eq (r : R) : ofR r = fin r.val := rfl
@[simp] theorem fin_inj_iff (a b : ℝ) : (fin a = fin b) ↔ a = b := by
  constructor
  · intro h; injection h
  · intro h; rw [h]

@[simp] theorem isFinOrNinf_fin (a : ℝ) : IsFinOrNinf (fin a) := trivial
@[simp] theorem isFinOrNinf_ninf : IsFinOrNinf ninf := trivial
@[simp] theorem not_isFinOrNinf_nan : ¬ IsFinOrNinf nan := id
@[simp] theorem not_isFinOrNinf_pinf : ¬ IsFinOrNinf pinf := id
theorem isFinOrNinf_iff (x : X) : IsFinOrNinf x ↔ x = ninf ∨ ∃ a, x = fin a := by
  cases x <;> simp [IsFinOrNinf]

@[simp] theorem fins_nil : fins [] = [] := rfl
@[simp] theorem fins_cons_fin (a : ℝ) (t : List X) : fins (fin a :: t) = a :: fins t := rfl
@[simp] theorem fins_cons_ninf (t : List X) : fins (ninf :: t) = fins t := rfl
@[simp] theorem fins_cons_pinf (t : List X) : fins (pinf :: t) = fins t := rfl
@[simp] theorem fins_cons_nan (t : List X) : fins (nan :: t) = fins t := rfl
theorem fins_append (xs ys : List X) : fins (xs ++ ys) = fins xs ++ fins ys := by
  induction xs with
  | nil => rfl
  | cons x t ih => cases x <;> simp [ih]

/-! ### addition -/
@[simp] theorem fin_add_fin (a b : ℝ) : (fin a + fin b : X) = fin (a + b) := rfl
@[simp] theorem nan_add (x : X) : (nan + x : X) = nan := by cases x <;> rfl
@[simp] theorem add_nan (x : X) : (x + nan : X) = nan := by cases x <;> rfl
@[simp] theorem ninf_add_fin (a : ℝ) : (ninf + fin a : X) = ninf := rfl
@[simp] theorem fin_add_ninf (a : ℝ) : (fin a + ninf : X) = ninf := rfl
@[simp] theorem pinf_add_fin (a : ℝ) : (pinf + fin a : X) = pinf := rfl
@[simp] theorem fin_add_pinf (a : ℝ) : (fin a + pinf : X) = pinf := rfl
@[simp] theorem ninf_add_ninf : (ninf + ninf : X) = ninf := rfl
@[simp] theorem pinf_add_pinf : (pinf + pinf : X) = pinf := rfl
@[simp] theorem pinf_add_ninf : (pinf + ninf : X) = nan := rfl
@[simp] theorem ninf_add_pinf : (ninf + pinf : X) = nan := rfl

/-! ### negation -/
@[simp] theorem neg_fin (a : ℝ) : (-(fin a) : X) = fin (-a) := rfl
@[simp] theorem neg_nan : (-(nan) : X) = nan := rfl
@[simp] theorem neg_ninf : (-(ninf) : X) = pinf := rfl
@[simp] theorem neg_pinf : (-(pinf) : X) = ninf := rfl

/-! ### subtraction -/
@[simp] theorem fin_sub_fin (a b : ℝ) : (fin a - fin b : X) = fin (a - b) := rfl
@[simp] theorem nan_sub (x : X) : (nan - x : X) = nan := by cases x <;> rfl
@[simp] theorem sub_nan (x : X) : (x - nan : X) = nan := by cases x <;> rfl
@[simp] theorem ninf_sub_fin (a : ℝ) : (ninf - fin a : X) = ninf := rfl
@[simp] theorem fin_sub_ninf (a : ℝ) : (fin a - ninf : X) = pinf := rfl
@[simp] theorem pinf_sub_fin (a : ℝ) : (pinf - fin a : X) = pinf := rfl
@[simp] theorem fin_sub_pinf (a : ℝ) : (fin a - pinf : X) = ninf := rfl
@[simp] theorem ninf_sub_ninf : (ninf - ninf : X) = nan := rfl
@[simp] theorem pinf_sub_pinf : (pinf - pinf : X) = nan := rfl
@[simp] theorem pinf_sub_ninf : (pinf - ninf : X) = pinf := rfl
@[simp] theorem ninf_sub_pinf : (ninf - pinf : X) = ninf := rfl
theorem sub_eq_add_neg' (x y : X) : x - y = x + -y := by
  cases x <;> cases y <;> rfl

/-! ### multiplication -/
@[simp] theorem fin_mul_fin (a b : ℝ) : (fin a * fin b : X) = fin (a * b) := rfl
@[simp] theorem nan_mul (x : X) : (nan * x : X) = nan := by cases x <;> rfl
@[simp] theorem mul_nan (x : X) : (x * nan : X) = nan := by cases x <;> rfl
@[simp] theorem fin_mul_pinf (a : ℝ) :
    (fin a * pinf : X) = if a = 0 then nan else if 0 < a then pinf else ninf := rfl
@[simp] theorem pinf_mul_fin (a : ℝ) :
    (pinf * fin a : X) = if a = 0 then nan else if 0 < a then pinf else ninf := rfl
@[simp] theorem fin_mul_ninf (a : ℝ) :
    (fin a * ninf : X) = if a = 0 then nan else if 0 < a then ninf else pinf := rfl
@[simp] theorem ninf_mul_fin (a : ℝ) :
    (ninf * fin a : X) = if a = 0 then nan else if 0 < a then ninf else pinf := rfl
@[simp] theorem pinf_mul_pinf : (pinf * pinf : X) = pinf := rfl
@[simp] theorem ninf_mul_ninf : (ninf * ninf : X) = pinf := rfl
@[simp] theorem pinf_mul_ninf : (pinf * ninf : X) = ninf := rfl
@[simp] theorem ninf_mul_pinf : (ninf * pinf : X) = ninf := rfl
theorem zero_mul_pinf : (fin 0 * pinf : X) = nan := by simp
theorem zero_mul_ninf : (fin 0 * ninf : X) = nan := by simp

/-! ### division (one zero: `1/0 = pinf`, `-1/0 = ninf`, `0/0 = nan`) -/
@[simp] theorem fin_div_fin (a b : ℝ) :
    (fin a / fin b : X) =
      if b = 0 then (if a = 0 then nan else if 0 < a then pinf else ninf) else fin (a / b) := rfl
theorem fin_div_fin_of_ne (a : ℝ) {b : ℝ} (h : b ≠ 0) : (fin a / fin b : X) = fin (a / b) := by simp [h]
@[simp] theorem nan_div (x : X) : (nan / x : X) = nan := by cases x <;> rfl
@[simp] theorem div_nan (x : X) : (x / nan : X) = nan := by cases x <;> rfl
@[simp] theorem fin_div_pinf (a : ℝ) : (fin a / pinf : X) = fin 0 := rfl
@[simp] theorem fin_div_ninf (a : ℝ) : (fin a / ninf : X) = fin 0 := rfl
@[simp] theorem pinf_div_fin (b : ℝ) : (pinf / fin b : X) = if 0 ≤ b then pinf else ninf := rfl
@[simp] theorem ninf_div_fin (b : ℝ) : (ninf / fin b : X) = if 0 ≤ b then ninf else pinf := rfl
@[simp] theorem pinf_div_pinf : (pinf / pinf : X) = nan := rfl
@[simp] theorem pinf_div_ninf : (pinf / ninf : X) = nan := rfl
@[simp] theorem ninf_div_pinf : (ninf / pinf : X) = nan := rfl
@[simp] theorem ninf_div_ninf : (ninf / ninf : X) = nan := rfl
theorem one_div_zero : (fin 1 / fin 0 : X) = pinf := by simp
theorem neg_one_div_zero : (fin (-1) / fin 0 : X) = ninf := by simp
theorem zero_div_zero : (fin 0 / fin 0 : X) = nan := by simp

/-! ### exp, ln and friends -/
@[simp] theorem exp_fin (a : ℝ) : RealLike.exp (fin a) = fin (Real.exp a) := rfl
@[simp] theorem exp_ninf : RealLike.exp ninf = fin 0 := rfl
@[simp] theorem exp_pinf : RealLike.exp pinf = pinf := rfl
@[simp] theorem exp_nan : RealLike.exp nan = nan := rfl
@[simp] theorem ln_fin (a : ℝ) :
    RealLike.ln (fin a) = if a = 0 then ninf else if 0 < a then fin (Real.log a) else nan := rfl
theorem ln_fin_pos {a : ℝ} (h : 0 < a) : RealLike.ln (fin a) = fin (Real.log a) := by
  simp [h, h.ne']
theorem ln_zero : RealLike.ln (fin 0) = ninf := by simp
theorem ln_fin_neg {a : ℝ} (h : a < 0) : RealLike.ln (fin a) = nan := by
  simp [h.ne, not_lt.mpr h.le]
@[simp] theorem ln_ninf : RealLike.ln ninf = nan := rfl
@[simp] theorem ln_pinf : RealLike.ln pinf = pinf := rfl
@[simp] theorem ln_nan : RealLike.ln nan = nan := rfl
@[simp] theorem log2_fin (a : ℝ) :
    RealLike.log2 (fin a) = if a = 0 then ninf else if 0 < a then fin (Real.logb 2 a) else nan := rfl
@[simp] theorem log10_fin (a : ℝ) :
    RealLike.log10 (fin a) = if a = 0 then ninf else if 0 < a then fin (Real.logb 10 a) else nan := rfl
@[simp] theorem log2_nan : RealLike.log2 nan = nan := rfl
@[simp] theorem log2_pinf : RealLike.log2 pinf = pinf := rfl
@[simp] theorem log2_ninf : RealLike.log2 ninf = nan := rfl
@[simp] theorem log10_nan : RealLike.log10 nan = nan := rfl
@[simp] theorem log10_pinf : RealLike.log10 pinf = pinf := rfl
@[simp] theorem log10_ninf : RealLike.log10 ninf = nan := rfl
@[simp] theorem exp2_fin (a : ℝ) : RealLike.exp2 (fin a) = fin ((2 : ℝ) ^ a) := rfl
@[simp] theorem exp2_ninf : RealLike.exp2 ninf = fin 0 := rfl
@[simp] theorem exp2_pinf : RealLike.exp2 pinf = pinf := rfl
@[simp] theorem exp2_nan : RealLike.exp2 nan = nan := rfl
@[simp] theorem ln1p_fin (a : ℝ) :
    RealLike.ln1p (fin a) = if a = -1 then ninf else if -1 < a then fin (Real.log (1 + a)) else nan := rfl
theorem ln1p_fin_of_gt {a : ℝ} (h : -1 < a) : RealLike.ln1p (fin a) = fin (Real.log (1 + a)) := by
  simp [h, h.ne']
@[simp] theorem ln1p_pinf : RealLike.ln1p pinf = pinf := rfl
@[simp] theorem ln1p_ninf : RealLike.ln1p ninf = nan := rfl
@[simp] theorem ln1p_nan : RealLike.ln1p nan = nan := rfl
@[simp] theorem expm1_fin (a : ℝ) : RealLike.expm1 (fin a) = fin (Real.exp a - 1) := rfl
@[simp] theorem expm1_ninf : RealLike.expm1 ninf = fin (-1) := rfl
@[simp] theorem expm1_pinf : RealLike.expm1 pinf = pinf := rfl
@[simp] theorem expm1_nan : RealLike.expm1 nan = nan := rfl
@[simp] theorem sqrt_fin (a : ℝ) : RealLike.sqrt (fin a) = if a < 0 then nan else fin (Real.sqrt a) := rfl
theorem sqrt_fin_nonneg {a : ℝ} (h : 0 ≤ a) : RealLike.sqrt (fin a) = fin (Real.sqrt a) := by
  simp [not_lt.mpr h]
@[simp] theorem sqrt_pinf : RealLike.sqrt pinf = pinf := rfl
@[simp] theorem sqrt_ninf : RealLike.sqrt ninf = nan := rfl
@[simp] theorem sqrt_nan : RealLike.sqrt nan = nan := rfl
@[simp] theorem abs_fin (a : ℝ) : RealLike.abs (fin a) = fin |a| := rfl
@[simp] theorem abs_ninf : RealLike.abs ninf = pinf := rfl
@[simp] theorem abs_pinf : RealLike.abs pinf = pinf := rfl
@[simp] theorem abs_nan : RealLike.abs nan = nan := rfl

/-! ### rounding -/
@[simp] theorem floor_fin (a : ℝ) : RealLike.floor (fin a) = fin (⌊a⌋ : ℝ) := rfl
@[simp] theorem ceil_fin (a : ℝ) : RealLike.ceil (fin a) = fin (⌈a⌉ : ℝ) := rfl
@[simp] theorem round_fin (a : ℝ) :
    RealLike.round (fin a) = fin (if 0 ≤ a then (⌊a + 1 / 2⌋ : ℝ) else (⌈a - 1 / 2⌉ : ℝ)) := rfl
@[simp] theorem trunc_fin (a : ℝ) :
    RealLike.trunc (fin a) = fin (if 0 ≤ a then (⌊a⌋ : ℝ) else (⌈a⌉ : ℝ)) := rfl
@[simp] theorem floor_ninf : RealLike.floor ninf = ninf := rfl
@[simp] theorem floor_pinf : RealLike.floor pinf = pinf := rfl
@[simp] theorem floor_nan : RealLike.floor nan = nan := rfl
@[simp] theorem ceil_ninf : RealLike.ceil ninf = ninf := rfl
@[simp] theorem ceil_pinf : RealLike.ceil pinf = pinf := rfl
@[simp] theorem ceil_nan : RealLike.ceil nan = nan := rfl
@[simp] theorem round_ninf : RealLike.round ninf = ninf := rfl
@[simp] theorem round_pinf : RealLike.round pinf = pinf := rfl
@[simp] theorem round_nan : RealLike.round nan = nan := rfl
@[simp] theorem trunc_ninf : RealLike.trunc ninf = ninf := rfl
@[simp] theorem trunc_pinf : RealLike.trunc pinf = pinf := rfl
@[simp] theorem trunc_nan : RealLike.trunc nan = nan := rfl

/-! ### trigonometric / hyperbolic -/
@[simp] theorem sin_fin (a : ℝ) : RealLike.sin (fin a) = fin (Real.sin a) := rfl
@[simp] theorem cos_fin (a : ℝ) : RealLike.cos (fin a) = fin (Real.cos a) := rfl
@[simp] theorem tan_fin (a : ℝ) : RealLike.tan (fin a) = fin (Real.tan a) := rfl
@[simp] theorem sin_ninf : RealLike.sin ninf = nan := rfl
@[simp] theorem sin_pinf : RealLike.sin pinf = nan := rfl
@[simp] theorem sin_nan : RealLike.sin nan = nan := rfl
@[simp] theorem cos_ninf : RealLike.cos ninf = nan := rfl
@[simp] theorem cos_pinf : RealLike.cos pinf = nan := rfl
@[simp] theorem cos_nan : RealLike.cos nan = nan := rfl
@[simp] theorem tan_ninf : RealLike.tan ninf = nan := rfl
@[simp] theorem tan_pinf : RealLike.tan pinf = nan := rfl
@[simp] theorem tan_nan : RealLike.tan nan = nan := rfl
@[simp] theorem atan_fin (a : ℝ) : RealLike.atan (fin a) = fin (Real.arctan a) := rfl
@[simp] theorem atan_pinf : RealLike.atan pinf = fin (π / 2) := rfl
@[simp] theorem atan_ninf : RealLike.atan ninf = fin (-(π / 2)) := rfl
@[simp] theorem atan_nan : RealLike.atan nan = nan := rfl
@[simp] theorem acos_fin (a : ℝ) :
    RealLike.acos (fin a) = if -1 ≤ a ∧ a ≤ 1 then fin (Real.arccos a) else nan := rfl
@[simp] theorem asin_fin (a : ℝ) :
    RealLike.asin (fin a) = if -1 ≤ a ∧ a ≤ 1 then fin (Real.arcsin a) else nan := rfl
@[simp] theorem acos_ninf : RealLike.acos ninf = nan := rfl
@[simp] theorem acos_pinf : RealLike.acos pinf = nan := rfl
@[simp] theorem acos_nan : RealLike.acos nan = nan := rfl
@[simp] theorem asin_ninf : RealLike.asin ninf = nan := rfl
@[simp] theorem asin_pinf : RealLike.asin pinf = nan := rfl
@[simp] theorem asin_nan : RealLike.asin nan = nan := rfl
@[simp] theorem sinh_fin (a : ℝ) : RealLike.sinh (fin a) = fin (Real.sinh a) := rfl
@[simp] theorem sinh_ninf : RealLike.sinh ninf = ninf := rfl
@[simp] theorem sinh_pinf : RealLike.sinh pinf = pinf := rfl
@[simp] theorem sinh_nan : RealLike.sinh nan = nan := rfl
@[simp] theorem cosh_fin (a : ℝ) : RealLike.cosh (fin a) = fin (Real.cosh a) := rfl
@[simp] theorem cosh_ninf : RealLike.cosh ninf = pinf := rfl
@[simp] theorem cosh_pinf : RealLike.cosh pinf = pinf := rfl
@[simp] theorem cosh_nan : RealLike.cosh nan = nan := rfl
@[simp] theorem tanh_fin (a : ℝ) : RealLike.tanh (fin a) = fin (Real.tanh a) := rfl
@[simp] theorem tanh_ninf : RealLike.tanh ninf = fin (-1) := rfl
@[simp] theorem tanh_pinf : RealLike.tanh pinf = fin 1 := rfl
@[simp] theorem tanh_nan : RealLike.tanh nan = nan := rfl
@[simp] theorem signum_fin (a : ℝ) : RealLike.signum (fin a) = fin (if 0 ≤ a then 1 else -1) := rfl
@[simp] theorem signum_ninf : RealLike.signum ninf = fin (-1) := rfl
@[simp] theorem signum_pinf : RealLike.signum pinf = fin 1 := rfl
@[simp] theorem signum_nan : RealLike.signum nan = nan := rfl

/-! ### powers -/
@[simp] theorem powf_fin (a b : ℝ) :
    RealLike.powf (fin a) (fin b) =
      if 0 < a then fin (a ^ b)
      else if a = 0 then (if 0 < b then fin 0 else if b = 0 then fin 1 else pinf)
      else if (⌊b⌋ : ℝ) = b then fin (a ^ b) else nan := rfl
theorem powf_fin_pos {a : ℝ} (h : 0 < a) (b : ℝ) : RealLike.powf (fin a) (fin b) = fin (a ^ b) := by
  simp [h]
@[simp] theorem powi_fin (a : ℝ) (n : ℤ) :
    RealLike.powi (fin a) n = if a = 0 ∧ n < 0 then pinf else fin (a ^ n) := rfl
@[simp] theorem powi_nan (n : ℤ) : RealLike.powi nan n = nan := rfl
@[simp] theorem powi_pinf (n : ℤ) :
    RealLike.powi pinf n = if 0 < n then pinf else if n = 0 then fin 1 else fin 0 := rfl
@[simp] theorem powi_ninf (n : ℤ) :
    RealLike.powi ninf n =
      if 0 < n then (if n % 2 = 0 then pinf else ninf) else if n = 0 then fin 1 else fin 0 := rfl

/-! ### max / min (Rust: NaN ignored) -/
@[simp] theorem max_fin (a b : ℝ) : RealLike.max (fin a) (fin b) = fin (max a b) := rfl
@[simp] theorem min_fin (a b : ℝ) : RealLike.min (fin a) (fin b) = fin (min a b) := rfl
@[simp] theorem max_nan_left (x : X) : RealLike.max nan x = x := by cases x <;> rfl
@[simp] theorem max_nan_right (x : X) : RealLike.max x nan = x := by cases x <;> rfl
@[simp] theorem min_nan_left (x : X) : RealLike.min nan x = x := by cases x <;> rfl
@[simp] theorem min_nan_right (x : X) : RealLike.min x nan = x := by cases x <;> rfl
@[simp] theorem max_ninf_fin (a : ℝ) : RealLike.max ninf (fin a) = fin a := rfl
@[simp] theorem max_fin_ninf (a : ℝ) : RealLike.max (fin a) ninf = fin a := rfl
@[simp] theorem max_pinf_fin (a : ℝ) : RealLike.max pinf (fin a) = pinf := rfl
@[simp] theorem max_fin_pinf (a : ℝ) : RealLike.max (fin a) pinf = pinf := rfl
@[simp] theorem min_ninf_fin (a : ℝ) : RealLike.min ninf (fin a) = ninf := rfl
@[simp] theorem min_fin_ninf (a : ℝ) : RealLike.min (fin a) ninf = ninf := rfl
@[simp] theorem min_pinf_fin (a : ℝ) : RealLike.min pinf (fin a) = fin a := rfl
@[simp] theorem min_fin_pinf (a : ℝ) : RealLike.min (fin a) pinf = fin a := rfl
@[simp] theorem max_ninf_ninf : RealLike.max ninf ninf = ninf := rfl
@[simp] theorem max_pinf_pinf : RealLike.max pinf pinf = pinf := rfl
@[simp] theorem max_ninf_pinf : RealLike.max ninf pinf = pinf := rfl
@[simp] theorem max_pinf_ninf : RealLike.max pinf ninf = pinf := rfl
@[simp] theorem min_ninf_ninf : RealLike.min ninf ninf = ninf := rfl
@[simp] theorem min_pinf_pinf : RealLike.min pinf pinf = pinf := rfl
@[simp] theorem min_ninf_pinf : RealLike.min ninf pinf = ninf := rfl
@[simp] theorem min_pinf_ninf : RealLike.min pinf ninf = ninf := rfl

/-! ### special functions -/
@[simp] theorem lgamma_fin (a : ℝ) :
    RealLike.lgamma (fin a) = if Real.Gamma a = 0 then pinf else fin (Real.log (Real.Gamma a)) := rfl
theorem lgamma_fin_pos {a : ℝ} (h : 0 < a) : RealLike.lgamma (fin a) = fin (Real.log (Real.Gamma a)) := by
  simp [(Real.Gamma_pos_of_pos h).ne']
@[simp] theorem lgamma_pinf : RealLike.lgamma pinf = pinf := rfl
@[simp] theorem lgamma_nan : RealLike.lgamma nan = nan := rfl
@[simp] theorem gamma_fin (a : ℝ) :
    RealLike.gamma (fin a) = if Real.Gamma a = 0 then nan else fin (Real.Gamma a) := rfl
theorem gamma_fin_pos {a : ℝ} (h : 0 < a) : RealLike.gamma (fin a) = fin (Real.Gamma a) := by
  simp [(Real.Gamma_pos_of_pos h).ne']
@[simp] theorem gamma_pinf : RealLike.gamma pinf = pinf := rfl
@[simp] theorem gamma_nan : RealLike.gamma nan = nan := rfl
@[simp] theorem digamma_fin (a : ℝ) :
    RealLike.digamma (fin a) = if Real.Gamma a = 0 then nan else fin (R.digammaR a) := rfl
theorem digamma_fin_pos {a : ℝ} (h : 0 < a) : RealLike.digamma (fin a) = fin (R.digammaR a) := by
  simp [(Real.Gamma_pos_of_pos h).ne']
@[simp] theorem digamma_pinf : RealLike.digamma pinf = pinf := rfl
@[simp] theorem digamma_nan : RealLike.digamma nan = nan := rfl
@[simp] theorem lnBeta_fin (a b : ℝ) :
    RealLike.lnBeta (fin a) (fin b) = fin (Real.log (Real.Gamma a * Real.Gamma b / Real.Gamma (a + b))) := rfl
@[simp] theorem incGamma_fin (x a : ℝ) : RealLike.incGamma (fin x) (fin a) = fin (R.incGammaR x a) := rfl
@[simp] theorem incBeta_fin (x a b : ℝ) (c : X) :
    RealLike.incBeta (fin x) (fin a) (fin b) c = fin (R.incBetaR x a b) := rfl
@[simp] theorem erf_fin (a : ℝ) : RealLike.erf (fin a) = fin (R.erfR a) := rfl
@[simp] theorem erf_ninf : RealLike.erf ninf = fin (-1) := rfl
@[simp] theorem erf_pinf : RealLike.erf pinf = fin 1 := rfl
@[simp] theorem erf_nan : RealLike.erf nan = nan := rfl
@[simp] theorem erfc_fin (a : ℝ) : RealLike.erfc (fin a) = fin (1 - R.erfR a) := rfl
@[simp] theorem erfc_ninf : RealLike.erfc ninf = fin 2 := rfl
@[simp] theorem erfc_pinf : RealLike.erfc pinf = fin 0 := rfl
@[simp] theorem erfc_nan : RealLike.erfc nan = nan := rfl
@[simp] theorem erfInv_fin (a : ℝ) :
    RealLike.erfInv (fin a) =
      if a = 1 then pinf else if a = -1 then ninf
      else if -1 < a ∧ a < 1 then fin (Function.invFun R.erfR a) else nan := rfl
@[simp] theorem erfInv_nan : RealLike.erfInv nan = nan := rfl
@[simp] theorem bessI0_fin (a : ℝ) : RealLike.bessI0 (fin a) = fin (R.bessIR 0 a) := rfl
@[simp] theorem bessI1_fin (a : ℝ) : RealLike.bessI1 (fin a) = fin (R.bessIR 1 a) := rfl
@[simp] theorem bessIv_fin (v a : ℝ) : RealLike.bessIv (fin v) (fin a) = fin (R.bessIR v a) := rfl
@[simp] theorem remEuclid_fin (a b : ℝ) :
    RealLike.remEuclid (fin a) (fin b) = if b = 0 then nan else fin (a - |b| * (⌊a / |b|⌋ : ℝ)) := rfl

/-! ### comparisons: false as soon as one side is `nan`; `ninf < fin _ < pinf` -/
@[simp] theorem lt_fin (a b : ℝ) : RealLike.lt (fin a) (fin b) = decide (a < b) := rfl
@[simp] theorem le_fin (a b : ℝ) : RealLike.le (fin a) (fin b) = decide (a ≤ b) := rfl
@[simp] theorem feq_fin (a b : ℝ) : RealLike.feq (fin a) (fin b) = decide (a = b) := rfl
@[simp] theorem lt_nan_left (x : X) : RealLike.lt nan x = false := by cases x <;> rfl
@[simp] theorem lt_nan_right (x : X) : RealLike.lt x nan = false := by cases x <;> rfl
@[simp] theorem le_nan_left (x : X) : RealLike.le nan x = false := by cases x <;> rfl
@[simp] theorem le_nan_right (x : X) : RealLike.le x nan = false := by cases x <;> rfl
@[simp] theorem feq_nan_left (x : X) : RealLike.feq nan x = false := by cases x <;> rfl
@[simp] theorem feq_nan_right (x : X) : RealLike.feq x nan = false := by cases x <;> rfl
@[simp] theorem lt_ninf_fin (a : ℝ) : RealLike.lt ninf (fin a) = true := rfl
@[simp] theorem lt_fin_ninf (a : ℝ) : RealLike.lt (fin a) ninf = false := rfl
@[simp] theorem lt_fin_pinf (a : ℝ) : RealLike.lt (fin a) pinf = true := rfl
@[simp] theorem lt_pinf_fin (a : ℝ) : RealLike.lt pinf (fin a) = false := rfl
@[simp] theorem lt_ninf_pinf : RealLike.lt ninf pinf = true := rfl
@[simp] theorem lt_pinf_ninf : RealLike.lt pinf ninf = false := rfl
@[simp] theorem lt_ninf_ninf : RealLike.lt ninf ninf = false := rfl
@[simp] theorem lt_pinf_pinf : RealLike.lt pinf pinf = false := rfl
@[simp] theorem le_ninf_fin (a : ℝ) : RealLike.le ninf (fin a) = true := rfl
@[simp] theorem le_fin_ninf (a : ℝ) : RealLike.le (fin a) ninf = false := rfl
@[simp] theorem le_fin_pinf (a : ℝ) : RealLike.le (fin a) pinf = true := rfl
@[simp] theorem le_pinf_fin (a : ℝ) : RealLike.le pinf (fin a) = false := rfl
@[simp] theorem le_ninf_pinf : RealLike.le ninf pinf = true := rfl
@[simp] theorem le_pinf_ninf : RealLike.le pinf ninf = false := rfl
@[simp] theorem le_ninf_ninf : RealLike.le ninf ninf = true := rfl
@[simp] theorem le_pinf_pinf : RealLike.le pinf pinf = true := rfl
@[simp] theorem feq_ninf_ninf : RealLike.feq ninf ninf = true := rfl
@[simp] theorem feq_pinf_pinf : RealLike.feq pinf pinf = true := rfl
@[simp] theorem feq_fin_ninf (a : ℝ) : RealLike.feq (fin a) ninf = false := rfl
@[simp] theorem feq_ninf_fin (a : ℝ) : RealLike.feq ninf (fin a) = false := rfl
@[simp] theorem feq_fin_pinf (a : ℝ) : RealLike.feq (fin a) pinf = false := rfl
@[simp] theorem feq_pinf_fin (a : ℝ) : RealLike.feq pinf (fin a) = false := rfl
@[simp] theorem feq_ninf_pinf : RealLike.feq ninf pinf = false := rfl
@[simp] theorem feq_pinf_ninf : RealLike.feq pinf ninf = false := rfl
/-- `x == NEG_INFINITY` -/
theorem feq_ninf_iff (x : X) : RealLike.feq x ninf = true ↔ x = ninf := by cases x <;> simp
/-- `x == INFINITY` -/
theorem feq_pinf_iff (x : X) : RealLike.feq x pinf = true ↔ x = pinf := by cases x <;> simp
theorem feq_self_iff (x : X) : RealLike.feq x x = true ↔ x ≠ nan := by cases x <;> simp

/-! ### classification -/
@[simp] theorem isFinite_fin (a : ℝ) : RealLike.isFinite (fin a) = true := rfl
@[simp] theorem isFinite_nan : RealLike.isFinite nan = false := rfl
@[simp] theorem isFinite_ninf : RealLike.isFinite ninf = false := rfl
@[simp] theorem isFinite_pinf : RealLike.isFinite pinf = false := rfl
@[simp] theorem isNaN_fin (a : ℝ) : RealLike.isNaN (fin a) = false := rfl
@[simp] theorem isNaN_nan : RealLike.isNaN nan = true := rfl
@[simp] theorem isNaN_ninf : RealLike.isNaN ninf = false := rfl
@[simp] theorem isNaN_pinf : RealLike.isNaN pinf = false := rfl
@[simp] theorem isInfinite_fin (a : ℝ) : RealLike.isInfinite (fin a) = false := rfl
@[simp] theorem isInfinite_nan : RealLike.isInfinite nan = false := rfl
@[simp] theorem isInfinite_ninf : RealLike.isInfinite ninf = true := rfl
@[simp] theorem isInfinite_pinf : RealLike.isInfinite pinf = true := rfl
@[simp] theorem isNormal_fin (a : ℝ) : RealLike.isNormal (fin a) = decide (a ≠ 0) := rfl
@[simp] theorem isNormal_nan : RealLike.isNormal nan = false := rfl
@[simp] theorem isNormal_ninf : RealLike.isNormal ninf = false := rfl
@[simp] theorem isNormal_pinf : RealLike.isNormal pinf = false := rfl
theorem isFinite_iff (x : X) : RealLike.isFinite x = true ↔ ∃ a, x = fin a := by cases x <;> simp
theorem isNaN_iff (x : X) : RealLike.isNaN x = true ↔ x = nan := by cases x <;> simp

/-! ### casts -/
@[simp] theorem toNat_fin (a : ℝ) : RealLike.toNat (fin a) = ⌊a⌋₊ := rfl
@[simp] theorem toNat_nan : RealLike.toNat nan = 0 := rfl
@[simp] theorem toNat_ninf : RealLike.toNat ninf = 0 := rfl
@[simp] theorem toNat_pinf : RealLike.toNat pinf = 2 ^ 64 - 1 := rfl
@[simp] theorem toInt_fin (a : ℝ) : RealLike.toInt (fin a) = if 0 ≤ a then ⌊a⌋ else ⌈a⌉ := rfl
@[simp] theorem toInt_nan : RealLike.toInt nan = 0 := rfl
@[simp] theorem toInt_ninf : RealLike.toInt ninf = -(2 ^ 63) := rfl
@[simp] theorem toInt_pinf : RealLike.toInt pinf = 2 ^ 63 - 1 := rfl

/-! ### usage: case analysis + `simp` / `norm_num` (literals are `OfScientific`, evaluated by `norm_num`) -/
example : ((1.0 : X) / (0.0 : X)) = pinf := by norm_num
example : (-(1.0 : X) / (0.0 : X)) = ninf := by norm_num
example : ((0.0 : X) / (0.0 : X)) = nan := by norm_num
example : ((0.0 : X) * RealLike.posInf) = nan := by norm_num
example : (RealLike.posInf - RealLike.posInf : X) = nan := by simp
example : RealLike.ln (0.0 : X) = ninf := by norm_num
example (x : X) (h : RealLike.isFinite x = true) : RealLike.lt x pinf = true := by
  cases x <;> simp_all
example (x : X) : RealLike.isNaN x = true → RealLike.le x x = false := by
  cases x <;> simp
/-- a validation ladder `!(s <= 0.0) && s.is_finite()` accepts exactly the positive reals -/
example (s : X) (h1 : RealLike.le s (0.0 : X) = false) (h2 : RealLike.isFinite s = true) :
    ∃ a, s = fin a ∧ 0 < a := by
  cases s <;> simp_all
  norm_num at h1; exact h1

end X
