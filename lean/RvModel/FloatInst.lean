import RvModel.Num

/-
  RvModel.FloatInst — the executable IEEE binary64 (`Float`) instance of `RealLike`.

  Elementary functions are Lean's `Float` builtins (libm).  Everything `Float` lacks (trunc, fmod, ln1p, expm1,
  Γ / lnΓ / ψ, incomplete gamma / beta, erf / erfc / erf⁻¹, modified Bessel I_v) is implemented here,
  independently of the Rust `special` crate, in `namespace FloatImpl`.  All loops are fuel-bounded `for`
  loops (structural termination); no `partial`, no `unsafe`.  Core Lean only (links into a `lean_exe`).

  Methods
    * lnΓ: Taylor series about 1 and 2 with ζ(k)-1 coefficients (full relative accuracy at both zeros),
      downward recurrence into (1.5,2.5] for x < 10, Stirling series for x ≥ 10, reflection for x < 0.
    * Γ: exp(lnΓ(1+z)) · ascending product (exact factorials for small integers), reflection for x < 0.
    * ψ: Taylor series about its positive root on [1.25,1.7], else recurrence to x ≥ 10 + asymptotic series.
    * P(a,x): series (x < a+1) / continued fraction (Lentz term count, backward evaluation); the prefactor
      x^a e^{-x}/Γ(a+1) is computed cancellation-free for a ≥ 10 via log1pmx and the Stirling correction.
    * I_x(a,b): Numerical-Recipes continued fraction (modified Lentz) with the caller-supplied ln B(a,b).
    * erf: positive-term series (|x| < 1.5); erfc: 1 - erf (|x| < 0.85), continued fraction of Q(1/2,x²) above,
      with exp(-x²) evaluated by hi/lo splitting of x; erf⁻¹: Winitzki start + Halley iterations.
    * I_v: ascending series with term ratios; large-argument expansion for x > 30, x > v².

  Measured max errors (tests/FloatInstTest.lean vs mpmath at 50 digits, tests/floatinst_ref.py):
    ln1p 1.8e-16, expm1 2.3e-16, lgamma 4.5e-16 (x ∈ [1e-300,1e300]), gamma 1.3e-15, digamma 3.0e-15,
    erf 5.8e-16, erfc 1.6e-15 (x ≤ 26.5), erfInv 8.2e-16 (all relative);
    incGamma 2.3e-15 absolute (a ∈ [1e-3,1e4]); incBeta 8.6e-13 absolute for a,b ≤ 1e3 when fed with `lnBeta`
    (dominated by the cancellation inside Rust-style `lnBeta`; 2.3e-13 for a,b ≤ 3e3 when fed `lnBetaAcc`);
    bessI0/bessI1 5e-16, bessIv 1.7e-15 on the specified grid, 3.5e-15 for |v| ≤ 100, 3e-13 for v up to 300.
  Known limitation: I_v for negative non-integer v sums an alternating series (K_v part); it is accurate for
  small |v| (tested -0.5, -1.5, -3.7, -7.3) but loses digits when both |v| and x are large (e.g. v=-165.5, x=100: 3e-5).
-/

namespace FloatImpl

def nan : Float := 0.0 / 0.0
def inf : Float := 1.0 / 0.0
def negInf : Float := -1.0 / 0.0
def pi : Float := 3.141592653589793
def sqrtPi : Float := 1.7724538509055159
def twoOverSqrtPi : Float := 1.1283791670955126
def halfLn2Pi : Float := 0.9189385332046727
def eulerGamma : Float := 0.5772156649015329
def oneMinusEuler : Float := 0.42278433509846713
def epsF : Float := 2.220446049250313e-16
def tiny : Float := 1.0e-300

/-- sign bit of the IEEE encoding (true for -0.0 and negatives) -/
def signBit (x : Float) : Bool := (x.toBits >>> 63) == 1

/-- `|x| = m * 2^e` for finite `x` (exact) -/
def decompose (x : Float) : Nat × Int :=
  let b := x.toBits
  let ex := ((b >>> 52) &&& 0x7FF).toNat
  let fr := (b &&& 0xFFFFFFFFFFFFF).toNat
  if ex == 0 then (fr, -1074) else (fr + 2 ^ 52, (ex : Int) - 1075)

/-- Rust `f64::trunc` -/
def trunc (x : Float) : Float := if x < 0.0 then Float.ceil x else Float.floor x

/-- Rust `x as usize` (64-bit): NaN ↦ 0, negative ↦ 0, truncating, saturating -/
def toNat (x : Float) : Nat := (Float.toUInt64 x).toNat

/-- Rust `x as i64`: NaN ↦ 0, truncating, saturating -/
def toInt (x : Float) : Int := (Float.toInt64 x).toInt

/-- Rust `f64::signum` -/
def signum (x : Float) : Float :=
  if x.isNaN then nan else if signBit x then -1.0 else 1.0

/-- Rust `f64::max` (a NaN argument is ignored) -/
def fmax (a b : Float) : Float :=
  if a.isNaN then b else if b.isNaN then a else if a < b then b else a

/-- Rust `f64::min` (a NaN argument is ignored) -/
def fmin (a b : Float) : Float :=
  if a.isNaN then b else if b.isNaN then a else if b < a then b else a

/-- C `fmod` / Rust `%` on f64, exact (integer long division on the decoded mantissas) -/
def fmod (x y : Float) : Float :=
  if x.isNaN || y.isNaN || x.isInf || y == 0.0 then nan
  else if y.isInf then x
  else if x.abs < y.abs then x
  else
    let (mx, ex) := decompose x
    let (my, ey) := decompose y
    let r : Nat × Int :=
      if ex ≥ ey then ((mx <<< (ex - ey).toNat) % my, ey)
      else (mx % (my <<< (ey - ex).toNat), ex)
    let rf := Float.scaleB (Float.ofNat r.1) r.2
    if signBit x then -rf else rf

/-- Rust `f64::rem_euclid` -/
def remEuclid (x y : Float) : Float :=
  let r := fmod x y
  if r < 0.0 then r + y.abs else r

def isNormal (x : Float) : Bool :=
  x.isFinite && x != 0.0 && x.abs ≥ 2.2250738585072014e-308

/-- Horner evaluation of `Σ cs[i] x^i` -/
def horner (cs : Array Float) (x : Float) : Float :=
  cs.foldr (fun c acc => acc * x + c) 0.0

/-! ### ln1p / expm1 (Kahan) -/

def ln1p (x : Float) : Float :=
  let u := 1.0 + x
  if u == 1.0 then x
  else if u.isInf then u
  else Float.log u * (x / (u - 1.0))

def expm1 (x : Float) : Float :=
  let u := Float.exp x
  if u == 1.0 then x
  else if u.isInf then u
  else
    let um1 := u - 1.0
    if um1 == -1.0 then -1.0
    else um1 * (x / Float.log u)

/-! ### sin(πx), cos(πx) with exact argument reduction -/

/-- is the (finite) float an odd integer -/
def isOddInt (n : Float) : Bool :=
  let h := n / 2.0
  Float.floor n == n && Float.floor h != h

def sinpi (x : Float) : Float :=
  if !x.isFinite then nan else
  let ax := x.abs
  let n := Float.floor ax
  let f := ax - n
  let s := if f ≤ 0.5 then Float.sin (pi * f) else Float.sin (pi * (1.0 - f))
  let s := if isOddInt n then -s else s
  if signBit x then -s else s

def cospi (x : Float) : Float :=
  if !x.isFinite then nan else
  let ax := x.abs
  let n := Float.floor ax
  let f := ax - n
  let c :=
    if f ≤ 0.25 then Float.cos (pi * f)
    else if f < 0.75 then Float.sin (pi * (0.5 - f))
    else -(Float.cos (pi * (1.0 - f)))
  if isOddInt n then -c else c

/-! ### ln Γ, Γ, ψ -/

/-- `(-1)^k (ζ(k) - 1) / k`, k = 2 .. 41 -/
def lgammaCoef : Array Float := #[
    0.3224670334241132, -0.0673523010531981, 0.020580808427784546, -0.007385551028673986,
    0.0028905103307415234, -0.001192753911703261, 0.0005096695247430425, -0.00022315475845357939,
    9.945751278180853e-05, -4.492623673813314e-05, 2.050721277567069e-05, -9.439488275268397e-06,
    4.374866789907488e-06, -2.039215753801366e-06, 9.55141213040742e-07, -4.492469198764566e-07,
    2.1207184805554665e-07, -1.0043224823968099e-07, 4.7698101693639804e-08, -2.2711094608943164e-08,
    1.0838659214896955e-08, -5.183475041970047e-09, 2.4836745438024785e-09, -1.1921401405860912e-09,
    5.731367241678862e-10, -2.7595228851242334e-10, 1.330476437424449e-10, -6.4229645638381e-11,
    3.1044247747322276e-11, -1.5021384080754142e-11, 7.275974480239079e-12, -3.527742476575915e-12,
    1.711991790559618e-12, -8.315385841420285e-13, 4.04220052528944e-13, -1.9664756310966165e-13,
    9.573630387838556e-14, -4.6640760264283744e-14, 2.2737369600659724e-14, -1.1091399470834522e-14]

/-- `Σ_{k≥2} (-1)^k (ζ(k)-1) z^k / k`, for |z| ≤ 1/2 -/
def lgammaS (z : Float) : Float := z * z * horner lgammaCoef z

/-- `ln Γ(2 + z)`, |z| ≤ 1/2 : `z(1-γ) + S(z)` (no logarithm: full relative accuracy at the zero x = 2) -/
def lgamma2p (z : Float) : Float := z * oneMinusEuler + lgammaS z

/-- `ln Γ(1 + z)`, |z| ≤ 1/2 -/
def lgamma1p (z : Float) : Float := lgamma2p z - ln1p z

/-- Stirling coefficients `B_{2k} / (2k (2k-1))`, k = 1 .. 10 -/
def stirCoef : Array Float := #[
    0.08333333333333333, -0.002777777777777778, 0.0007936507936507937, -0.0005952380952380953,
    0.0008417508417508417, -0.0019175269175269176, 0.00641025641025641, -0.029550653594771242,
    0.17964437236883057, -1.3924322169059011]

/-- `ln Γ(x) - [(x - 1/2) ln x - x + ln(2π)/2]` for x ≥ 10 -/
def stirCorr (x : Float) : Float :=
  let r := 1.0 / x
  r * horner stirCoef (r * r)

/-- ln Γ(x) for finite x > 0 -/
def lgammaPos (x : Float) : Float :=
  if x < 0.5 then lgamma1p x - Float.log x
  else if x ≤ 1.5 then lgamma1p (x - 1.0)
  else if x ≤ 2.5 then lgamma2p (x - 2.0)
  else if x < 10.0 then Id.run do
    -- downward recurrence into (1.5, 2.5]
    let m := (Float.ceil (x - 2.5)).toUInt64.toNat
    let mut p : Float := 1.0
    for j in [1:m+1] do
      p := p * (x - Float.ofNat j)
    return Float.log p + lgamma2p (x - Float.ofNat m - 2.0)
  else if x > 1.0e305 then x * (Float.log x - 1.0)
  else (x - 0.5) * Float.log x - x + halfLn2Pi + stirCorr x

/-- ln |Γ(x)| -/
def lgamma (x : Float) : Float :=
  if x.isNaN then nan
  else if x.isInf then inf
  else if x == 0.0 then inf
  else if x > 0.0 then lgammaPos x
  else if Float.floor x == x then inf
  else Float.log (pi / (sinpi x).abs) - lgammaPos (1.0 - x)

/-- Γ(x) for finite x > 0 -/
def gammaPos (x : Float) : Float :=
  if x > 180.0 then inf
  else if x < 0.5 then Float.exp (lgamma1p x) / x
  else Id.run do
    let t := Float.ceil (x - 1.5)
    let m := if t < 0.0 then 0 else t.toUInt64.toNat
    let z := x - Float.ofNat m - 1.0
    let mut acc := Float.exp (lgamma1p z)
    for i in [0:m] do
      acc := acc * (x - Float.ofNat (m - i))
    return acc

def gamma (x : Float) : Float :=
  if x.isNaN then nan
  else if x == 0.0 then 1.0 / x
  else if x > 0.0 then (if x.isInf then inf else gammaPos x)
  else if x.isInf then nan
  else if Float.floor x == x then nan
  else pi / (sinpi x * gammaPos (1.0 - x))

/-- `B_{2k} / (2k)`, k = 1 .. 10 -/
def digammaCoef : Array Float := #[
    0.08333333333333333, -0.008333333333333333, 0.003968253968253968, -0.004166666666666667,
    0.007575757575757576, -0.021092796092796094, 0.08333333333333333, -0.4432598039215686,
    3.0539543302701198, -26.456212121212122]

/-- positive root of ψ, split hi + lo -/
def digammaRootHi : Float := 1.4616321449683622
def digammaRootLo : Float := 9.549995429965697e-17

/-- `ψ^{(k)}(x₀) / k!`, k = 1 .. 32 -/
def digammaRootCoef : Array Float := #[
    0.9676722454476212, -0.4427631689835921, 0.258499760955651, -0.16394270544240652,
    0.10782405069126237, -0.07219956125645471, 0.04880428816414311, -0.03316112647484736,
    0.022597648232218104, -0.01542476590494896, 0.010538791616612175, -0.007204534386356869,
    0.004926781395729853, -0.003369801655439328, 0.002305126326734928, -0.0015769367714301972,
    0.0010788252019162967, -0.0007380709389960052, 0.000504953265834602, -0.0003454680251063077,
    0.00023635601564027053, -0.00016170622091974803, 0.0001106337276874741, -7.569179582195066e-05,
    5.178575795222081e-05, -3.5430070947659604e-05, 2.424006611860132e-05, -1.6584242271854135e-05,
    1.134638458466385e-05, -7.762817668462094e-06, 5.3110609208898636e-06, -3.6336507898010456e-06]

/-- ψ(x) for finite x > 0 -/
def digammaPos (x : Float) : Float :=
  if 1.25 ≤ x && x ≤ 1.7 then
    -- Taylor expansion about the root: full relative accuracy near the zero
    let d := (x - digammaRootHi) - digammaRootLo
    d * horner digammaRootCoef d
  else Id.run do
    let mut s : Float := 0.0
    let mut y := x
    for _ in [0:10] do
      if y < 10.0 then
        s := s + 1.0 / y
        y := y + 1.0
    let r := 1.0 / y
    let r2 := r * r
    return (Float.log y - 0.5 * r - r2 * horner digammaCoef r2) - s

def digamma (x : Float) : Float :=
  if x.isNaN then nan
  else if x.isInf then (if x > 0.0 then inf else nan)
  else if x > 0.0 then digammaPos x
  else if Float.floor x == x then negInf  -- poles (Rust's recurrence yields -inf there)
  else digammaPos (1.0 - x) - pi * cospi x / sinpi x

/-- `ln B(a,b)` exactly as the Rust `special` crate computes it (three `ln_gamma` calls; cancels for
    large arguments — kept because the instance mirrors the Rust semantics) -/
def lnBeta (a b : Float) : Float := lgamma a + lgamma b - lgamma (a + b)

/-! ### regularised incomplete gamma -/

/-- `ln(1+μ) - μ`, accurate for small μ -/
def log1pmx (mu : Float) : Float :=
  if mu.abs ≤ 0.5 then Id.run do
    -- ln(1+μ) = 2 atanh s, s = μ/(2+μ);  2s - μ = -sμ
    let s := mu / (2.0 + mu)
    let s2 := s * s
    let mut term := s2
    let mut acc : Float := 0.0
    for k in [1:40] do
      let c := term / Float.ofNat (2 * k + 1)
      acc := acc + c
      term := term * s2
      if c ≤ 1.0e-18 * acc then break
    return s * (2.0 * acc - mu)
  else Float.log (1.0 + mu) - mu

/-- cancellation-free `ln B(a,b)` (Stirling differences for large arguments); not used by the instance,
    used by the tests to separate the error of `incBeta` from the error of its `lnBeta` argument -/
def lnBetaAcc (a0 b0 : Float) : Float :=
  let a := fmin a0 b0
  let b := fmax a0 b0
  if !(a > 0.0) || !b.isFinite || b < 10.0 then lnBeta a0 b0
  else if a < 10.0 then
    lgammaPos a + ((stirCorr b - stirCorr (a + b)) - a * (a - 0.5) / b - (a + b - 0.5) * log1pmx (a / b)
      - a * Float.log b)
  else
    (stirCorr a + stirCorr b - stirCorr (a + b)) + halfLn2Pi - 0.5 * Float.log b
      + ((a - 0.5) * Float.log (a / (a + b)) - b * ln1p (a / b))

/-- `x^a e^{-x} / Γ(a+1)` for finite x > 0, a > 0 -/
def gammaPrefactor (a x : Float) : Float :=
  if a < 10.0 then Float.exp (a * Float.log x - x - lgammaPos (a + 1.0))
  else
    let mu := (x - a) / a
    let l := if mu.abs ≤ 0.5 then log1pmx mu else Float.log (x / a) - mu
    Float.exp (a * l - stirCorr a) / Float.sqrt (2.0 * pi * a)

/-- `Σ_{n≥0} x^n / ((a+1)…(a+n))` -/
def incGammaSeries (a x : Float) : Float := Id.run do
  let mut ap := a
  let mut term : Float := 1.0
  let mut sum : Float := 1.0
  for _ in [0:1000000] do
    ap := ap + 1.0
    term := term * (x / ap)
    sum := sum + term
    if term ≤ sum * 1.0e-17 then break
  return sum

/-- number of terms after which the modified-Lentz evaluation of the continued fraction
    `Γ(a,x) e^x x^{-a} = 1/(x+1-a- 1(1-a)/(x+3-a- 2(2-a)/(x+5-a- …)))` has converged -/
def incGammaCFTerms (a x : Float) : Nat := Id.run do
  let mut b := x + 1.0 - a
  let mut c := 1.0 / tiny
  let mut d := 1.0 / b
  let mut n : Nat := 1000000
  for i in [1:1000000] do
    let fi := Float.ofNat i
    let an := -fi * (fi - a)
    b := b + 2.0
    d := an * d + b
    if d.abs < tiny then d := tiny
    c := b + an / c
    if c.abs < tiny then c := tiny
    d := 1.0 / d
    let del := d * c
    if (del - 1.0).abs ≤ epsF then
      n := i
      break
  return n

/-- the continued fraction for `Γ(a,x) e^x x^{-a}` (x ≥ a + 1 or so): term count from a Lentz pass, value
    by the (numerically more benign) backward recurrence -/
def incGammaCF (a x : Float) : Float := Id.run do
  let n := incGammaCFTerms a x + 2
  let b0 := x + 1.0 - a
  let mut t := b0 + 2.0 * Float.ofNat n
  for j in [0:n] do
    let i := n - j
    let fi := Float.ofNat i
    t := (b0 + 2.0 * Float.ofNat (i - 1)) - fi * (fi - a) / t
  return 1.0 / t

/-- regularised lower incomplete gamma `P(a, x)`; argument order `(x, a)` as in Rust `x.inc_gamma(a)` -/
def incGamma (x a : Float) : Float :=
  -- Rust `special`: `if x == 0.0 { return 0.0 }` comes first, whatever the shape (even 0 / NaN)
  if x == 0.0 then 0.0
  else if x.isNaN || a.isNaN then nan
  else if !(a > 0.0) || x < 0.0 || a.isInf then nan
  else if x.isInf then 1.0
  else if x < a + 1.0 then
    let p := gammaPrefactor a x * incGammaSeries a x
    if p > 1.0 then 1.0 else p
  else
    let q := gammaPrefactor a x * a * incGammaCF a x
    if q > 1.0 then 0.0 else 1.0 - q

/-- regularised upper incomplete gamma `Q(a, x)` (used by tests / erfc) -/
def incGammaQ (x a : Float) : Float :=
  if x.isNaN || a.isNaN then nan
  else if !(a > 0.0) || x < 0.0 || a.isInf then nan
  else if x == 0.0 then 1.0
  else if x.isInf then 0.0
  else if x < a + 1.0 then 1.0 - gammaPrefactor a x * incGammaSeries a x
  else gammaPrefactor a x * a * incGammaCF a x

/-! ### regularised incomplete beta -/

/-- Numerical-Recipes `betacf` (modified Lentz) -/
def betaCF (a b x : Float) : Float := Id.run do
  let qab := a + b
  let qap := a + 1.0
  let qam := a - 1.0
  let mut c : Float := 1.0
  let mut d := 1.0 - qab * x / qap
  if d.abs < tiny then d := tiny
  d := 1.0 / d
  let mut h := d
  for m in [1:1000000] do
    let fm := Float.ofNat m
    let m2 := 2.0 * fm
    let aa := fm * (b - fm) * x / ((qam + m2) * (a + m2))
    d := 1.0 + aa * d
    if d.abs < tiny then d := tiny
    c := 1.0 + aa / c
    if c.abs < tiny then c := tiny
    d := 1.0 / d
    h := h * d * c
    let aa := -(a + fm) * (qab + fm) * x / ((a + m2) * (qap + m2))
    d := 1.0 + aa * d
    if d.abs < tiny then d := tiny
    c := 1.0 + aa / c
    if c.abs < tiny then c := tiny
    d := 1.0 / d
    let del := d * c
    h := h * del
    if (del - 1.0).abs ≤ epsF then break
  return h

/-- regularised incomplete beta `I_x(a, b)`; `lnB = ln B(a,b)` supplied by the caller (Rust `x.inc_beta(a, b, ln_beta)`) -/
def incBeta (x a b lnB : Float) : Float :=
  if x.isNaN || a.isNaN || b.isNaN || lnB.isNaN then nan
  else if x < 0.0 || x > 1.0 || !(a > 0.0) || !(b > 0.0) then nan
  else if x == 0.0 then 0.0
  else if x == 1.0 then 1.0
  else
    let bt := Float.exp (a * Float.log x + b * ln1p (-x) - lnB)
    if x < (a + 1.0) / (a + b + 2.0) then
      let r := bt * betaCF a b x / a
      if r > 1.0 then 1.0 else r
    else
      let r := bt * betaCF b a (1.0 - x) / b
      if r > 1.0 then 0.0 else 1.0 - r

/-! ### erf, erfc, erf⁻¹ -/

/-- `exp(-x²)` without the rounding error of `x²` being amplified: x = xh + xl with xh² exact -/
def expNegSq (x : Float) : Float :=
  if !x.isFinite then Float.exp (-(x * x)) else
  let xh := Float.ofBits (x.toBits &&& 0xFFFFFFFFF8000000)
  Float.exp (-(xh * xh)) * Float.exp (-((x - xh) * (x + xh)))

/-- erf by the all-positive series `2/√π · x e^{-x²} Σ (2x²)^n / (2n+1)!!`, for |x| ≲ 3 -/
def erfSeries (x : Float) : Float := Id.run do
  let q := 2.0 * x * x
  let mut term : Float := 1.0
  let mut sum : Float := 1.0
  for n in [1:200] do
    term := term * (q / Float.ofNat (2 * n + 1))
    sum := sum + term
    if term ≤ sum * 1.0e-17 then break
  return twoOverSqrtPi * x * expNegSq x * sum

/-- erfc for x ≥ 1 via the continued fraction of Q(1/2, x²) -/
def erfcCF (x : Float) : Float :=
  expNegSq x * x / sqrtPi * incGammaCF 0.5 (x * x)

def erfSplit : Float := 1.5
def erfcSplit : Float := 0.85

def erf (x : Float) : Float :=
  if x.isNaN then nan
  else
    let ax := x.abs
    if ax < erfSplit then erfSeries x
    else
      let r := if ax > 6.5 then 1.0 else 1.0 - erfcCF ax
      if x < 0.0 then -r else r

def erfc (x : Float) : Float :=
  if x.isNaN then nan
  else if x < 0.0 then
    (if x > -erfcSplit then 1.0 + erfSeries (-x) else if x < -6.5 then 2.0 else 2.0 - erfcCF (-x))
  else if x < erfcSplit then 1.0 - erfSeries x
  else if x > 28.0 then 0.0
  else erfcCF x

def erfInv (p : Float) : Float :=
  if p.isNaN || p < -1.0 || p > 1.0 then nan
  else if p == 1.0 then inf
  else if p == -1.0 then negInf
  else if p == 0.0 then p
  else Id.run do
    let a := p.abs
    let q := 1.0 - a
    let useTail := a > 0.5
    -- initial approximation
    let mut x : Float := 0.0
    if a < 0.1 then
      x := a * (sqrtPi / 2.0) * (1.0 + pi * a * a / 12.0)
    else
      -- Winitzki
      let l := if useTail then Float.log (q * (1.0 + a)) else ln1p (-(a * a))
      let c : Float := 0.147
      let t := 2.0 / (pi * c) + l / 2.0
      x := Float.sqrt (Float.sqrt (t * t - l / c) - t)
      if q < 1.0e-4 then
        for _ in [0:3] do
          x := Float.sqrt (-(Float.log (q * sqrtPi * x)))
    -- Halley iterations on erf(x) - a  (tail: q - erfc(x))
    for _ in [0:30] do
      let f := if useTail then q - erfc x else erf x - a
      let fp := twoOverSqrtPi * expNegSq x
      let u := f / fp
      let dx := u / (1.0 + x * u)
      x := x - dx
      if dx.abs ≤ 0.5e-16 * x.abs then break
    return if p < 0.0 then -x else x

/-! ### modified Bessel functions of the first kind -/

/-- sign of Γ(y) for non-integer y (+1 for y > 0) -/
def gammaSign (y : Float) : Float :=
  if y > 0.0 then 1.0 else if isOddInt (Float.floor y) then -1.0 else 1.0

/-- `(x/2)^v / Γ(v+1)` for x > 0, v not a negative integer -/
def besselPrefactor (v x : Float) : Float :=
  let h := x / 2.0
  let direct := Float.pow h v / gamma (v + 1.0)
  if v.abs < 160.0 && direct.isFinite && direct != 0.0 then direct
  else gammaSign (v + 1.0) * Float.exp (v * Float.log h - lgamma (v + 1.0))

/-- ascending series, x > 0 finite -/
def besselSeries (v x : Float) : Float := Id.run do
  let h := x / 2.0
  let q := h * h
  let mut term : Float := 1.0
  let mut sum : Float := 1.0
  for k in [1:5000] do
    let fk := Float.ofNat k
    term := term * (q / (fk * (fk + v)))
    sum := sum + term
    if fk + v > 0.0 && term.abs ≤ sum.abs * 1.0e-17 then break
  return besselPrefactor v x * sum

/-- large-argument expansion `e^x/√(2πx) Σ (-1)^k a_k(v) / x^k` -/
def besselAsymp (v x : Float) : Float := Id.run do
  let mu := 4.0 * v * v
  let mut term : Float := 1.0
  let mut sum : Float := 1.0
  for k in [1:500] do
    let fk := Float.ofNat k
    let o := 2.0 * fk - 1.0
    let t := term * (-(mu - o * o) / (8.0 * fk * x))
    if t.abs > term.abs && o * o > mu then break
    term := t
    sum := sum + term
    if term.abs ≤ sum.abs * 1.0e-17 then break
  let s := sum / Float.sqrt (2.0 * pi * x)
  if x < 709.0 then return Float.exp x * s
  else
    let e := Float.exp (x / 2.0)
    return (e * s) * e

def bessIv (v x : Float) : Float :=
  if v.isNaN || x.isNaN || v.isInf then nan
  else
    let vInt := Float.floor v == v
    if x < 0.0 && !vInt then nan
    else
      let v := if vInt && v < 0.0 then -v else v
      let sgn : Float := if x < 0.0 && isOddInt v then -1.0 else 1.0
      let x := x.abs
      if x == 0.0 then
        (if v == 0.0 then 1.0 else if v > 0.0 then 0.0 else gammaSign (v + 1.0) * inf)
      else if x.isInf then sgn * inf
      else if x > 30.0 && x > v * v then sgn * besselAsymp v x
      else if v < 0.0 && x ≥ 50.0 && x ≥ v.abs then
        -- I_{-ν}(x) = I_ν(x) + (2/π) sin(νπ) K_ν(x), and K_ν/I_ν ≲ e^{-2x + ν²/x} ≤ e^{-50} here: the ascending series of a
        -- negative non-integer order overflows in its partial sums (prefactor ~ 1/Γ(v+1) tiny) although I_v is finite
        sgn * besselSeries (-v) x
      else sgn * besselSeries v x

def bessI0 (x : Float) : Float := bessIv 0.0 x
def bessI1 (x : Float) : Float := bessIv 1.0 x

end FloatImpl

instance : RealLike Float where
  add := Float.add
  sub := Float.sub
  mul := Float.mul
  div := Float.div
  neg := Float.neg
  ofScientific := Float.ofScientific
  ofNatR := Float.ofNat
  ofIntR := Float.ofInt
  toNat := FloatImpl.toNat
  toInt := FloatImpl.toInt
  ln := Float.log
  exp := Float.exp
  sqrt := Float.sqrt
  abs := Float.abs
  ln1p := FloatImpl.ln1p
  expm1 := FloatImpl.expm1
  floor := Float.floor
  ceil := Float.ceil
  round := Float.round
  trunc := FloatImpl.trunc
  sin := Float.sin
  cos := Float.cos
  tan := Float.tan
  atan := Float.atan
  acos := Float.acos
  asin := Float.asin
  sinh := Float.sinh
  cosh := Float.cosh
  tanh := Float.tanh
  signum := FloatImpl.signum
  log2 := Float.log2
  log10 := Float.log10
  exp2 := Float.exp2
  powf := Float.pow
  powi := fun x n => Float.pow x (Float.ofInt n)
  max := FloatImpl.fmax
  min := FloatImpl.fmin
  remEuclid := FloatImpl.remEuclid
  lgamma := FloatImpl.lgamma
  gamma := FloatImpl.gamma
  digamma := FloatImpl.digamma
  lnBeta := FloatImpl.lnBeta
  incGamma := FloatImpl.incGamma
  incBeta := FloatImpl.incBeta
  erf := FloatImpl.erf
  erfc := FloatImpl.erfc
  erfInv := FloatImpl.erfInv
  bessI0 := FloatImpl.bessI0
  bessI1 := FloatImpl.bessI1
  bessIv := FloatImpl.bessIv
  lt := fun a b => decide (a < b)
  le := fun a b => decide (a ≤ b)
  feq := fun a b => a == b
  isFinite := Float.isFinite
  isNaN := Float.isNaN
  isInfinite := Float.isInf
  isNormal := FloatImpl.isNormal
  halfLn2Pi := 0.9189385332046727
  halfLn2PiE := 1.4189385332046727
  halfLnPi := 0.5723649429247001
  lnPi := 1.1447298858494002
  ln2Pi := 1.8378770664093453
  ln2PiE := 2.8378770664093453
  eulerGamma := 0.5772156649015329
  lnLn2 := -0.3665129205816643
  sqrtPi := 1.7724538509055159
  ln2 := 0.6931471805599453
  ln10 := 2.302585092994046
  pi := 3.141592653589793
  sqrt2 := 1.4142135623730951
  e := 2.718281828459045
  frac1Pi := 0.3183098861837907
  frac1Sqrt2 := 0.7071067811865476
  fracPi2 := 1.5707963267948966
  negInf := FloatImpl.negInf
  posInf := FloatImpl.inf
  nan := FloatImpl.nan
  epsilon := 2.220446049250313e-16
  maxFinite := 1.7976931348623157e308
  minPositive := 2.2250738585072014e-308
