import RvModel.RealInst
import RvModel.Gen.Defs
import RvModel.Spec.C08
import RvModel.Lemmas.C08
/-!
  C08 (part B): median, mode and entropy of every distribution equal the textbook closed forms of Spec/C08.lean
  over exact reals — and the `_counterexample`s of part A/B: every summary for which the (unrepaired) code returns
  something else than the textbook value (confirmed numerically against the real implementation and by independent
  quadrature of the object's own density, see the report of C08).

  Style: as in Props/C08A.lean — `Option R` summaries are compared through `.map R.val`, real-valued ones
  (entropy) through `.val`; hypotheses = validity of the parameters as enforced by the checked constructors.
  The code decides "p = ½", "α = 1" … with a tolerance `f64::EPSILON`; on `R` the theorems about those
  summaries (Bernoulli.median / mode, Beta.mode, Kumaraswamy.mode) assume that the parameter is either exactly at
  the special value or at least `ε = 2⁻⁵²` away (on binary64 the two cases are exhaustive for p − q).
-/
open Real
set_option linter.unusedVariables false
set_option linter.unusedTactic false
set_option linter.unusedSimpArgs false

namespace C08

/-! ## median -/

-- @site Bernoulli.median_real
theorem Bernoulli_median (d : Gen.Bernoulli R)
    (hε : d.p.val ≤ 1 / 2 ∨ (2:ℝ) ^ (-52 : ℤ) ≤ d.p.val - (1 - d.p.val)) :
    (Gen.Bernoulli.median_real d).map R.val = (Spec.Bernoulli.median d).map R.val := by
  simp only [Gen.Bernoulli.median_real, Spec.Bernoulli.median, Gen.Bernoulli.q]
  have heps : (RealLike.epsilon : R).val = (2:ℝ) ^ (-52 : ℤ) := rfl
  have hpos : (0:ℝ) < (2:ℝ) ^ (-52 : ℤ) := by positivity
  c08_norm
  simp only [heps, C08L.lit05, C08L.lit10, C08L.lit00]
  rcases lt_trichotomy d.p.val (1 / 2) with h | h | h
  · have h' : d.p.val < 1 - d.p.val := by linarith
    simp only [if_pos h, if_pos h']
  · have h1 : ¬ d.p.val < 1 - d.p.val := by rw [h]; norm_num
    have h2 : d.p.val - (1 - d.p.val) < (2:ℝ) ^ (-52 : ℤ) := by rw [h]; norm_num
    have h3 : ¬ d.p.val < 1 / 2 := by rw [h]; norm_num
    simp only [if_neg h1, if_pos h2, if_neg h3, if_pos h]
  · have h1 : ¬ d.p.val < 1 - d.p.val := by linarith
    have h2 : ¬ d.p.val - (1 - d.p.val) < (2:ℝ) ^ (-52 : ℤ) := by
      rcases hε with h' | h' <;> linarith
    have h3 : ¬ d.p.val < 1 / 2 := by linarith
    have h4 : ¬ d.p.val = 1 / 2 := by linarith
    simp only [if_neg h1, if_neg h2, if_neg h3, if_neg h4]
example : (⟨⟨1/3⟩⟩ : Gen.Bernoulli R).p.val ≤ 1 / 2 := by norm_num

-- @site Cauchy.median_real
theorem Cauchy_median (d : Gen.Cauchy R) (hs : 0 < d.scale.val) :
    (Gen.Cauchy.median_real d).map R.val = (Spec.Cauchy.median d).map R.val := by
  simp only [Gen.Cauchy.median_real, Spec.Cauchy.median]
example : 0 < (⟨⟨1⟩, ⟨2⟩⟩ : Gen.Cauchy R).scale.val := by norm_num

-- @site DiscreteUniform.median_real
theorem DiscreteUniform_median (d : Gen.DiscreteUniform R) (hab : d.a < d.b) :
    (Gen.DiscreteUniform.median_real d).map R.val = (Spec.DiscreteUniform.median d).map R.val := by
  simp only [Gen.DiscreteUniform.median_real, Spec.DiscreteUniform.median]
  c08_norm
  norm_num1
  push_cast
  ring
example : (⟨0, 5⟩ : Gen.DiscreteUniform R).a < (⟨0, 5⟩ : Gen.DiscreteUniform R).b := by norm_num

-- @site Exponential.median_real
theorem Exponential_median (d : Gen.Exponential R) (hr : 0 < d.rate.val) :
    (Gen.Exponential.median_real d).map R.val = (Spec.Exponential.median d).map R.val := by
  simp only [Gen.Exponential.median_real, Spec.Exponential.median]
  c08_close
example : 0 < (⟨⟨2⟩⟩ : Gen.Exponential R).rate.val := by norm_num

-- @site Gaussian.median_real
theorem Gaussian_median (d : Gen.Gaussian R) (hs : 0 < d.sigma.val) :
    (Gen.Gaussian.median_real d).map R.val = (Spec.Gaussian.median d).map R.val := by
  simp only [Gen.Gaussian.median_real, Spec.Gaussian.median]
example : 0 < (⟨⟨1⟩, ⟨2⟩⟩ : Gen.Gaussian R).sigma.val := by norm_num

-- @site Gev.median_real
theorem Gev_median (d : Gen.Gev R) (hs : 0 < d.scale.val) :
    (Gen.Gev.median_real d).map R.val = (Spec.Gev.median d).map R.val := by
  simp only [Gen.Gev.median_real, Spec.Gev.median]
  c08_split
example : 0 < (⟨⟨1⟩, ⟨2⟩, ⟨1/4⟩⟩ : Gen.Gev R).scale.val := by norm_num

-- @site Kumaraswamy.median_real
theorem Kumaraswamy_median (d : Gen.Kumaraswamy R) (ha : 0 < d.a.val) (hb : 0 < d.b.val) :
    (Gen.Kumaraswamy.median_real d).map R.val = (Spec.Kumaraswamy.median d).map R.val := by
  simp only [Gen.Kumaraswamy.median_real, Spec.Kumaraswamy.median]
  c08_close
example : 0 < (⟨⟨2⟩, ⟨3⟩⟩ : Gen.Kumaraswamy R).a.val ∧ 0 < (⟨⟨2⟩, ⟨3⟩⟩ : Gen.Kumaraswamy R).b.val := by norm_num

-- @site Laplace.median_real
theorem Laplace_median (d : Gen.Laplace R) (hb : 0 < d.b.val) :
    (Gen.Laplace.median_real d).map R.val = (Spec.Laplace.median d).map R.val := by
  simp only [Gen.Laplace.median_real, Spec.Laplace.median]
example : 0 < (⟨⟨1⟩, ⟨2⟩⟩ : Gen.Laplace R).b.val := by norm_num

-- @site LogNormal.median_real
theorem LogNormal_median (d : Gen.LogNormal R) (hs : 0 < d.sigma.val) :
    (Gen.LogNormal.median_real d).map R.val = (Spec.LogNormal.median d).map R.val := by
  simp only [Gen.LogNormal.median_real, Spec.LogNormal.median]
example : 0 < (⟨⟨1⟩, ⟨2⟩⟩ : Gen.LogNormal R).sigma.val := by norm_num

-- @site StudentsT.median_real
theorem StudentsT_median (d : Gen.StudentsT R) (hv : 0 < d.v.val) :
    (Gen.StudentsT.median_real d).map R.val = (Spec.StudentsT.median d).map R.val := by
  simp only [Gen.StudentsT.median_real, Spec.StudentsT.median]
example : 0 < (⟨⟨5⟩⟩ : Gen.StudentsT R).v.val := by norm_num

-- @site Uniform.median_real
theorem Uniform_median (d : Gen.Uniform R) (hab : d.a.val < d.b.val) :
    (Gen.Uniform.median_real d).map R.val = (Spec.Uniform.median d).map R.val := by
  simp only [Gen.Uniform.median_real, Spec.Uniform.median]
  c08_close
example : (⟨⟨1⟩, ⟨3⟩⟩ : Gen.Uniform R).a.val < (⟨⟨1⟩, ⟨3⟩⟩ : Gen.Uniform R).b.val := by norm_num

-- @site VonMises.median_real
theorem VonMises_median (d : Gen.VonMises R) (hk : 0 < d.k.val) :
    (Gen.VonMises.median_real d).map R.val = (Spec.VonMises.median d).map R.val := by
  simp only [Gen.VonMises.median_real, Spec.VonMises.median]
example : 0 < (⟨⟨1⟩, ⟨2⟩, ⟨3⟩⟩ : Gen.VonMises R).k.val := by norm_num

/-! ## mode -/

-- @site Bernoulli.mode_bool
theorem Bernoulli_modeBool (d : Gen.Bernoulli R)
    (hε : d.p.val ≤ 1 / 2 ∨ (2:ℝ) ^ (-52 : ℤ) ≤ d.p.val - (1 - d.p.val)) :
    Gen.Bernoulli.mode_bool d = Spec.Bernoulli.modeBool d := by
  simp only [Gen.Bernoulli.mode_bool, Spec.Bernoulli.modeBool, Gen.Bernoulli.q]
  have heps : (RealLike.epsilon : R).val = (2:ℝ) ^ (-52 : ℤ) := rfl
  have hpos : (0:ℝ) < (2:ℝ) ^ (-52 : ℤ) := by positivity
  c08_norm
  simp only [heps, C08L.lit05, C08L.lit10, C08L.lit00]
  rcases lt_trichotomy d.p.val (1 / 2) with h | h | h
  · have h' : d.p.val < 1 - d.p.val := by linarith
    simp only [if_pos h, if_pos h']
  · have h1 : ¬ d.p.val < 1 - d.p.val := by rw [h]; norm_num
    have h2 : |d.p.val - (1 - d.p.val)| < (2:ℝ) ^ (-52 : ℤ) := by rw [h]; norm_num
    have h3 : ¬ d.p.val < 1 / 2 := by rw [h]; norm_num
    simp only [if_neg h1, if_pos h2, if_neg h3, if_pos h]
  · have h1 : ¬ d.p.val < 1 - d.p.val := by linarith
    have h2 : ¬ |d.p.val - (1 - d.p.val)| < (2:ℝ) ^ (-52 : ℤ) := by
      rw [abs_of_nonneg (by linarith)]
      rcases hε with h' | h' <;> linarith
    have h3 : ¬ d.p.val < 1 / 2 := by linarith
    have h4 : ¬ d.p.val = 1 / 2 := by linarith
    simp only [if_neg h1, if_neg h2, if_neg h3, if_neg h4]
example : (⟨⟨1/3⟩⟩ : Gen.Bernoulli R).p.val ≤ 1 / 2 := by norm_num

-- @site Bernoulli.mode_nat
theorem Bernoulli_modeNat (d : Gen.Bernoulli R)
    (hε : d.p.val ≤ 1 / 2 ∨ (2:ℝ) ^ (-52 : ℤ) ≤ d.p.val - (1 - d.p.val)) :
    Gen.Bernoulli.mode_nat d = Spec.Bernoulli.modeNat d := by
  simp only [Gen.Bernoulli.mode_nat, Spec.Bernoulli.modeNat, Gen.Bernoulli.q]
  have heps : (RealLike.epsilon : R).val = (2:ℝ) ^ (-52 : ℤ) := rfl
  have hpos : (0:ℝ) < (2:ℝ) ^ (-52 : ℤ) := by positivity
  c08_norm
  simp only [heps, C08L.lit05, C08L.lit10, C08L.lit00]
  rcases lt_trichotomy d.p.val (1 / 2) with h | h | h
  · have h' : d.p.val < 1 - d.p.val := by linarith
    simp only [if_pos h, if_pos h']
    rfl
  · have h1 : ¬ d.p.val < 1 - d.p.val := by rw [h]; norm_num
    have h2 : |d.p.val - (1 - d.p.val)| < (2:ℝ) ^ (-52 : ℤ) := by rw [h]; norm_num
    have h3 : ¬ d.p.val < 1 / 2 := by rw [h]; norm_num
    simp only [if_neg h1, if_pos h2, if_neg h3, if_pos h]
  · have h1 : ¬ d.p.val < 1 - d.p.val := by linarith
    have h2 : ¬ |d.p.val - (1 - d.p.val)| < (2:ℝ) ^ (-52 : ℤ) := by
      rw [abs_of_nonneg (by linarith)]
      rcases hε with h' | h' <;> linarith
    have h3 : ¬ d.p.val < 1 / 2 := by linarith
    have h4 : ¬ d.p.val = 1 / 2 := by linarith
    simp only [if_neg h1, if_neg h2, if_neg h3, if_neg h4]
    rfl
example : (⟨⟨1/3⟩⟩ : Gen.Bernoulli R).p.val ≤ 1 / 2 := by norm_num

-- @site Beta.mode_real
theorem Beta_mode (d : Gen.Beta R) (ha : 0 < d.alpha.val) (hb : 0 < d.beta.val)
    (hεa : d.alpha.val = 1 ∨ (2:ℝ) ^ (-52 : ℤ) ≤ |d.alpha.val - 1|)
    (hεb : d.beta.val = 1 ∨ (2:ℝ) ^ (-52 : ℤ) ≤ |d.beta.val - 1|) :
    (Gen.Beta.mode_real d).map R.val = (Spec.Beta.mode d).map R.val := by
  simp only [Gen.Beta.mode_real, Spec.Beta.mode]
  have heps : (RealLike.epsilon : R).val = (2:ℝ) ^ (-52 : ℤ) := rfl
  have hpos : (0:ℝ) < (2:ℝ) ^ (-52 : ℤ) := by positivity
  have ea : |d.alpha.val - 1| < (2:ℝ) ^ (-52 : ℤ) ↔ d.alpha.val = 1 := by
    constructor
    · intro h; rcases hεa with h' | h'
      · exact h'
      · linarith
    · intro h; rw [h]; simpa using hpos
  have eb : |d.beta.val - 1| < (2:ℝ) ^ (-52 : ℤ) ↔ d.beta.val = 1 := by
    constructor
    · intro h; rcases hεb with h' | h'
      · exact h'
      · linarith
    · intro h; rw [h]; simpa using hpos
  c08_norm
  simp only [heps, C08L.lit10, C08L.lit00, C08L.lit20, ea, eb]
  by_cases h1 : 1 < d.beta.val <;> by_cases h2 : 1 < d.alpha.val <;>
    by_cases h3 : d.alpha.val = 1 <;> by_cases h4 : d.beta.val = 1 <;>
    simp [h1, h2, h3, h4] <;> (first | linarith | (exfalso; linarith) | skip)
example : (⟨⟨2⟩, ⟨3⟩⟩ : Gen.Beta R).alpha.val = 2 := rfl

-- @site Cauchy.mode_real
theorem Cauchy_mode (d : Gen.Cauchy R) (hs : 0 < d.scale.val) :
    (Gen.Cauchy.mode_real d).map R.val = (Spec.Cauchy.mode d).map R.val := by
  simp only [Gen.Cauchy.mode_real, Spec.Cauchy.mode]
example : 0 < (⟨⟨1⟩, ⟨2⟩⟩ : Gen.Cauchy R).scale.val := by norm_num

-- @site ChiSquared.mode_real
theorem ChiSquared_mode (d : Gen.ChiSquared R) (hk : 0 < d.k.val) :
    (Gen.ChiSquared.mode_real d).map R.val = (Spec.ChiSquared.mode d).map R.val := by
  simp only [Gen.ChiSquared.mode_real, Spec.ChiSquared.mode]
  c08_norm
  norm_num1
  exact max_comm _ _
example : 0 < (⟨⟨3⟩⟩ : Gen.ChiSquared R).k.val := by norm_num

-- @site Exponential.mode_real
theorem Exponential_mode (d : Gen.Exponential R) (hr : 0 < d.rate.val) :
    (Gen.Exponential.mode_real d).map R.val = (Spec.Exponential.mode d).map R.val := by
  simp only [Gen.Exponential.mode_real, Spec.Exponential.mode]
example : 0 < (⟨⟨2⟩⟩ : Gen.Exponential R).rate.val := by norm_num

-- @site Gamma.mode_real
theorem Gamma_mode (d : Gen.Gamma R) (hs : 0 < d.shape.val) (hr : 0 < d.rate.val) :
    (Gen.Gamma.mode_real d).map R.val = (Spec.Gamma.mode d).map R.val := by
  simp only [Gen.Gamma.mode_real, Spec.Gamma.mode]
-- @site Gamma.mode_real
theorem Gamma_mode_none_iff (d : Gen.Gamma R) : Gen.Gamma.mode_real d = none ↔ ¬ (1 ≤ d.shape.val) := by
  simp only [Gen.Gamma.mode_real]
  c08_iff
example : 0 < (⟨⟨3⟩, ⟨2⟩⟩ : Gen.Gamma R).shape.val := by norm_num

-- @site Gaussian.mode_real
theorem Gaussian_mode (d : Gen.Gaussian R) (hs : 0 < d.sigma.val) :
    (Gen.Gaussian.mode_real d).map R.val = (Spec.Gaussian.mode d).map R.val := by
  simp only [Gen.Gaussian.mode_real, Spec.Gaussian.mode]
example : 0 < (⟨⟨1⟩, ⟨2⟩⟩ : Gen.Gaussian R).sigma.val := by norm_num

-- @site Gev.mode_real
theorem Gev_mode (d : Gen.Gev R) (hs : 0 < d.scale.val) (hξ : -1 ≤ d.shape.val) :
    (Gen.Gev.mode_real d).map R.val = (Spec.Gev.mode d).map R.val := by
  simp only [Gen.Gev.mode_real, Spec.Gev.mode]
  c08_split
example : 0 < (⟨⟨0⟩, ⟨2⟩, ⟨1/2⟩⟩ : Gen.Gev R).scale.val ∧ -1 ≤ (⟨⟨0⟩, ⟨2⟩, ⟨1/2⟩⟩ : Gen.Gev R).shape.val := by norm_num

-- @site InvChiSquared.mode_real
theorem InvChiSquared_mode (d : Gen.InvChiSquared R) (hv : 0 < d.v.val) :
    (Gen.InvChiSquared.mode_real d).map R.val = (Spec.InvChiSquared.mode d).map R.val := by
  simp only [Gen.InvChiSquared.mode_real, Spec.InvChiSquared.mode]
example : 0 < (⟨⟨9⟩⟩ : Gen.InvChiSquared R).v.val := by norm_num

-- @site InvGamma.mode_real
theorem InvGamma_mode (d : Gen.InvGamma R) (hs : 0 < d.shape.val) (hc : 0 < d.scale.val) :
    (Gen.InvGamma.mode_real d).map R.val = (Spec.InvGamma.mode d).map R.val := by
  simp only [Gen.InvGamma.mode_real, Spec.InvGamma.mode]
example : 0 < (⟨⟨5⟩, ⟨2⟩⟩ : Gen.InvGamma R).shape.val := by norm_num

-- @site InvGaussian.mode_real
theorem InvGaussian_mode (d : Gen.InvGaussian R) (hm : 0 < d.mu.val) (hl : 0 < d.lambda'.val) :
    (Gen.InvGaussian.mode_real d).map R.val = (Spec.InvGaussian.mode d).map R.val := by
  simp only [Gen.InvGaussian.mode_real, Spec.InvGaussian.mode, Gen.InvGaussian.emit_params, Gen.InvGaussian.get_mu,
    Gen.InvGaussian.get_lambda]
  c08_norm
  norm_num1
  c08_fin
example : 0 < (⟨⟨2⟩, ⟨3⟩⟩ : Gen.InvGaussian R).mu.val := by norm_num

-- @site Kumaraswamy.mode_real
theorem Kumaraswamy_mode (d : Gen.Kumaraswamy R) (ha : 0 < d.a.val) (hb : 0 < d.b.val)
    (hεa : d.a.val = 1 ∨ (2:ℝ) ^ (-52 : ℤ) ≤ |d.a.val - 1|)
    (hεb : d.b.val = 1 ∨ (2:ℝ) ^ (-52 : ℤ) ≤ |d.b.val - 1|) :
    (Gen.Kumaraswamy.mode_real d).map R.val = (Spec.Kumaraswamy.mode d).map R.val := by
  simp only [Gen.Kumaraswamy.mode_real, Spec.Kumaraswamy.mode]
  have heps : (RealLike.epsilon : R).val = (2:ℝ) ^ (-52 : ℤ) := rfl
  have hpos : (0:ℝ) < (2:ℝ) ^ (-52 : ℤ) := by positivity
  have ea : |d.a.val - 1| < (2:ℝ) ^ (-52 : ℤ) ↔ d.a.val = 1 := by
    constructor
    · intro h; rcases hεa with h' | h'
      · exact h'
      · linarith
    · intro h; rw [h]; simpa using hpos
  have eb : |d.b.val - 1| < (2:ℝ) ^ (-52 : ℤ) ↔ d.b.val = 1 := by
    constructor
    · intro h; rcases hεb with h' | h'
      · exact h'
      · linarith
    · intro h; rw [h]; simpa using hpos
  c08_norm
  simp only [heps, C08L.lit10, C08L.lit00, ea, eb]
  by_cases h1 : d.a.val < 1 <;> by_cases h2 : d.b.val < 1 <;>
    by_cases h3 : d.a.val = 1 <;> by_cases h4 : d.b.val = 1 <;>
    simp [h1, h2, h3, h4, not_lt.mp, le_of_lt] <;> (try ring_nf) <;> (first | done | linarith | (exfalso; linarith) | skip)
example : (⟨⟨2⟩, ⟨3⟩⟩ : Gen.Kumaraswamy R).a.val = 2 := rfl

-- @site Laplace.mode_real
theorem Laplace_mode (d : Gen.Laplace R) (hb : 0 < d.b.val) :
    (Gen.Laplace.mode_real d).map R.val = (Spec.Laplace.mode d).map R.val := by
  simp only [Gen.Laplace.mode_real, Spec.Laplace.mode]
example : 0 < (⟨⟨1⟩, ⟨2⟩⟩ : Gen.Laplace R).b.val := by norm_num

-- @site Pareto.mode_real
theorem Pareto_mode (d : Gen.Pareto R) (hs : 0 < d.shape.val) (hc : 0 < d.scale.val) :
    (Gen.Pareto.mode_real d).map R.val = (Spec.Pareto.mode d).map R.val := by
  simp only [Gen.Pareto.mode_real, Spec.Pareto.mode]
example : 0 < (⟨⟨5⟩, ⟨2⟩⟩ : Gen.Pareto R).shape.val := by norm_num

-- @site Poisson.mode_nat_tup
theorem Poisson_modePair (d : Gen.Poisson R) (kbits : Nat) (hr : 0 < d.rate.val)
    (hc : RealLike.toNat (RealLike.ceil d.rate) ≤ 2 ^ kbits - 1)
    (hf : RealLike.toNat (RealLike.floor d.rate) ≤ 2 ^ kbits - 1) :
    Gen.Poisson.mode_nat_tup d kbits = Spec.Poisson.modePair d := by
  simp only [Gen.Poisson.mode_nat_tup, Spec.Poisson.modePair, satNat, Nat.min, min_eq_left hc, min_eq_left hf]
example : 0 < (⟨⟨3⟩⟩ : Gen.Poisson R).rate.val := by norm_num

-- @site ScaledInvChiSquared.mode_real
theorem ScaledInvChiSquared_mode (d : Gen.ScaledInvChiSquared R) (hv : 0 < d.v.val) (ht : 0 < d.t2.val) :
    (Gen.ScaledInvChiSquared.mode_real d).map R.val = (Spec.ScaledInvChiSquared.mode d).map R.val := by
  simp only [Gen.ScaledInvChiSquared.mode_real, Spec.ScaledInvChiSquared.mode]
example : 0 < (⟨⟨9⟩, ⟨2⟩⟩ : Gen.ScaledInvChiSquared R).v.val := by norm_num

-- @site StudentsT.mode_real
theorem StudentsT_mode (d : Gen.StudentsT R) (hv : 0 < d.v.val) :
    (Gen.StudentsT.mode_real d).map R.val = (Spec.StudentsT.mode d).map R.val := by
  simp only [Gen.StudentsT.mode_real, Spec.StudentsT.mode]
example : 0 < (⟨⟨5⟩⟩ : Gen.StudentsT R).v.val := by norm_num

-- @site UnitPowerLaw.mode_real
theorem UnitPowerLaw_mode (d : Gen.UnitPowerLaw R) (ha : 0 < d.alpha.val) :
    (Gen.UnitPowerLaw.mode_real d).map R.val = (Spec.UnitPowerLaw.mode d).map R.val := by
  simp only [Gen.UnitPowerLaw.mode_real, Spec.UnitPowerLaw.mode]
-- @site UnitPowerLaw.mode_real
theorem UnitPowerLaw_mode_none_iff (d : Gen.UnitPowerLaw R) :
    Gen.UnitPowerLaw.mode_real d = none ↔ ¬ (1 < d.alpha.val) := by
  simp only [Gen.UnitPowerLaw.mode_real]
  c08_iff
example : 0 < (⟨⟨2⟩⟩ : Gen.UnitPowerLaw R).alpha.val := by norm_num

-- @site VonMises.mode_real
theorem VonMises_mode (d : Gen.VonMises R) (hk : 0 < d.k.val) :
    (Gen.VonMises.mode_real d).map R.val = (Spec.VonMises.mode d).map R.val := by
  simp only [Gen.VonMises.mode_real, Spec.VonMises.mode]
example : 0 < (⟨⟨1⟩, ⟨2⟩, ⟨3⟩⟩ : Gen.VonMises R).k.val := by norm_num

/-! ## entropy -/

-- @site Bernoulli.entropy
theorem Bernoulli_entropy (d : Gen.Bernoulli R) (hp0 : 0 < d.p.val) (hp1 : d.p.val < 1) :
    (Gen.Bernoulli.entropy d).val = (Spec.Bernoulli.entropy d).val := by
  have h1 : (1:ℝ) - d.p.val ≠ 0 := by linarith
  simp only [Gen.Bernoulli.entropy, Spec.Bernoulli.entropy, Gen.Bernoulli.q, Spec.xlnx]
  c08_norm
  norm_num1
  rw [if_neg hp0.ne', if_neg h1]
  c08_norm
  norm_num1
  ring
example : 0 < (⟨⟨1/3⟩⟩ : Gen.Bernoulli R).p.val ∧ (⟨⟨1/3⟩⟩ : Gen.Bernoulli R).p.val < 1 := by norm_num

-- @site Beta.entropy
theorem Beta_entropy (d : Gen.Beta R) (ha : 0 < d.alpha.val) (hb : 0 < d.beta.val) :
    (Gen.Beta.entropy d).val = (Spec.Beta.entropy d).val := by
  simp only [Gen.Beta.entropy, Spec.Beta.entropy, Gen.Beta.ln_beta_ab]
  c08_close
example : 0 < (⟨⟨2⟩, ⟨3⟩⟩ : Gen.Beta R).alpha.val := by norm_num

-- @site Categorical.entropy
theorem Categorical_entropy (d : Gen.Categorical R) :
    (Gen.Categorical.entropy d).val = (Spec.Categorical.entropy d).val := by
  simp only [Gen.Categorical.entropy, Spec.Categorical.entropy]
  rw [R.sumL_val, List.map_map]
  rw [C08L.foldlR_val (fun acc lw => acc - RealLike.exp lw * lw) (fun lw => -(Real.exp lw.val * lw.val))
    (by intro a x; simp [sub_eq_add_neg])]
  have h0 : ((0.0 : R)).val = 0 := by simp only [R.sci_val]; norm_num
  rw [h0, zero_add]
  congr 1
  apply List.map_congr_left
  intro lw _
  have hne : ¬ (Real.exp lw.val = (0.0:ℝ)) := by
    rw [C08L.lit00]; exact (Real.exp_pos _).ne'
  simp only [Function.comp_apply, R.feq_iff, R.exp_val, R.sci_val, if_neg hne, R.neg_val, R.mul_val]
noncomputable example : Gen.Categorical R := ⟨[⟨Real.log (1/3)⟩, ⟨Real.log (2/3)⟩]⟩

-- @site Cauchy.entropy
theorem Cauchy_entropy (d : Gen.Cauchy R) (hs : 0 < d.scale.val) :
    (Gen.Cauchy.entropy d).val = (Spec.Cauchy.entropy d).val := by
  simp only [Gen.Cauchy.entropy, Spec.Cauchy.entropy]
example : 0 < (⟨⟨1⟩, ⟨2⟩⟩ : Gen.Cauchy R).scale.val := by norm_num

-- @site Exponential.entropy
theorem Exponential_entropy (d : Gen.Exponential R) (hr : 0 < d.rate.val) :
    (Gen.Exponential.entropy d).val = (Spec.Exponential.entropy d).val := by
  simp only [Gen.Exponential.entropy, Spec.Exponential.entropy]
example : 0 < (⟨⟨2⟩⟩ : Gen.Exponential R).rate.val := by norm_num

-- @site Gamma.entropy
theorem Gamma_entropy (d : Gen.Gamma R) (hs : 0 < d.shape.val) (hr : 0 < d.rate.val) :
    (Gen.Gamma.entropy d).val = (Spec.Gamma.entropy d).val := by
  simp only [Gen.Gamma.entropy, Spec.Gamma.entropy, Gen.Gamma.ln_rate, Gen.Gamma.ln_gamma_shape]
  c08_close
example : 0 < (⟨⟨3⟩, ⟨2⟩⟩ : Gen.Gamma R).shape.val := by norm_num

-- @site Gaussian.entropy
theorem Gaussian_entropy (d : Gen.Gaussian R) (hs : 0 < d.sigma.val) :
    (Gen.Gaussian.entropy d).val = (Spec.Gaussian.entropy d).val := by
  simp only [Gen.Gaussian.entropy, Gen.Gaussian.ln_sigma, Spec.Gaussian.entropy]
  c08_norm
  norm_num1
  have hpi : (0:ℝ) < 2 * π * Real.exp 1 := by positivity
  rw [Real.log_mul hpi.ne' (by positivity), Real.log_mul hs.ne' hs.ne']
  ring
example : 0 < (⟨⟨1⟩, ⟨2⟩⟩ : Gen.Gaussian R).sigma.val := by norm_num

-- @site Geometric.entropy
theorem Geometric_entropy (d : Gen.Geometric R) (hp0 : 0 < d.p.val) (hp1 : d.p.val < 1) :
    (Gen.Geometric.entropy d).val = (Spec.Geometric.entropy d).val := by
  have h1 : ¬ ((1:ℝ) - d.p.val = 0) := by intro h; linarith
  have h0 : ¬ (d.p.val = 0) := hp0.ne'
  simp only [Gen.Geometric.entropy, Spec.Geometric.entropy, Spec.xlnx]
  c08_norm
  simp only [C08L.lit00, C08L.lit10, if_neg h0, if_neg h1]
  c08_norm
  simp only [C08L.lit10]
  ring
example : 0 < (⟨⟨1/3⟩⟩ : Gen.Geometric R).p.val ∧ (⟨⟨1/3⟩⟩ : Gen.Geometric R).p.val < 1 := by norm_num

-- @site Kumaraswamy.entropy
theorem Kumaraswamy_entropy (d : Gen.Kumaraswamy R) (ha : 0 < d.a.val) (hb : 0 < d.b.val) :
    (Gen.Kumaraswamy.entropy d).val = (Spec.Kumaraswamy.entropy d).val := by
  simp only [Gen.Kumaraswamy.entropy, Spec.Kumaraswamy.entropy, Gen.Kumaraswamy.ab_ln]
  c08_norm
  norm_num1
  rw [Real.log_mul ha.ne' hb.ne']
  ring
example : 0 < (⟨⟨2⟩, ⟨3⟩⟩ : Gen.Kumaraswamy R).a.val ∧ 0 < (⟨⟨2⟩, ⟨3⟩⟩ : Gen.Kumaraswamy R).b.val := by norm_num

-- @site Gev.entropy
theorem Gev_entropy (d : Gen.Gev R) (hs : 0 < d.scale.val) :
    (Gen.Gev.entropy d).val = (Spec.Gev.entropy d).val := by
  simp only [Gen.Gev.entropy, Spec.Gev.entropy]
  c08_close
example : 0 < (⟨⟨1⟩, ⟨2⟩, ⟨1/4⟩⟩ : Gen.Gev R).scale.val := by norm_num

-- @site InvGamma.entropy
theorem InvGamma_entropy (d : Gen.InvGamma R) (hs : 0 < d.shape.val) (hc : 0 < d.scale.val) :
    (Gen.InvGamma.entropy d).val = (Spec.InvGamma.entropy d).val := by
  simp only [Gen.InvGamma.entropy, Spec.InvGamma.entropy]
  c08_close
example : 0 < (⟨⟨5⟩, ⟨2⟩⟩ : Gen.InvGamma R).shape.val := by norm_num

-- @site Laplace.entropy
theorem Laplace_entropy (d : Gen.Laplace R) (hb : 0 < d.b.val) :
    (Gen.Laplace.entropy d).val = (Spec.Laplace.entropy d).val := by
  simp only [Gen.Laplace.entropy, Spec.Laplace.entropy]
  c08_norm
  norm_num1
  rw [Real.log_mul (by positivity) (Real.exp_pos 1).ne', Real.log_exp]
  ring
example : 0 < (⟨⟨1⟩, ⟨2⟩⟩ : Gen.Laplace R).b.val := by norm_num

-- @site LogNormal.entropy
theorem LogNormal_entropy (d : Gen.LogNormal R) (hs : 0 < d.sigma.val) :
    (Gen.LogNormal.entropy d).val = (Spec.LogNormal.entropy d).val := by
  simp only [Gen.LogNormal.entropy, Spec.LogNormal.entropy]
example : 0 < (⟨⟨1⟩, ⟨2⟩⟩ : Gen.LogNormal R).sigma.val := by norm_num

-- @site Uniform.entropy
theorem Uniform_entropy (d : Gen.Uniform R) (hab : d.a.val < d.b.val) :
    (Gen.Uniform.entropy d).val = (Spec.Uniform.entropy d).val := by
  simp only [Gen.Uniform.entropy, Spec.Uniform.entropy]
example : (⟨⟨1⟩, ⟨3⟩⟩ : Gen.Uniform R).a.val < (⟨⟨1⟩, ⟨3⟩⟩ : Gen.Uniform R).b.val := by norm_num

-- @site UnitPowerLaw.entropy
theorem UnitPowerLaw_entropy (d : Gen.UnitPowerLaw R) (ha : 0 < d.alpha.val) :
    (Gen.UnitPowerLaw.entropy d).val = (Spec.UnitPowerLaw.entropy d).val := by
  simp only [Gen.UnitPowerLaw.entropy, Spec.UnitPowerLaw.entropy, Gen.UnitPowerLaw.alpha_ln]
  c08_norm
  norm_num1
  rw [C08L.digammaR_add_one ha]
  field_simp
  ring
example : 0 < (⟨⟨2⟩⟩ : Gen.UnitPowerLaw R).alpha.val := by norm_num

-- @site VonMises.entropy
theorem VonMises_entropy (d : Gen.VonMises R) (hk : 0 < d.k.val) (hi : d.i0_k.val = R.bessIR 0 d.k.val)
    (hpos : 0 < R.bessIR 0 d.k.val) :
    (Gen.VonMises.entropy d).val = (Spec.VonMises.entropy d).val := by
  simp only [Gen.VonMises.entropy, Spec.VonMises.entropy]
  c08_norm
  norm_num1
  rw [hi, Real.log_mul (by positivity) hpos.ne']
  ring
example : 0 < (⟨⟨1⟩, ⟨2⟩, ⟨3⟩⟩ : Gen.VonMises R).k.val := by norm_num

/-! ## counterexamples: summaries whose code does not compute the textbook value -/

/-- FULL STATEMENT (false): ∀ valid d, Gen.Pareto.entropy d = Spec.Pareto.entropy d.
    `dist/pareto.rs` takes `log10` instead of `ln`. -/
-- @site Pareto.entropy
theorem Pareto_entropy_counterexample :
    (Gen.Pareto.entropy (⟨⟨2⟩, ⟨1⟩⟩ : Gen.Pareto R)).val ≠ (Spec.Pareto.entropy (⟨⟨2⟩, ⟨1⟩⟩ : Gen.Pareto R)).val := by
  simp only [Gen.Pareto.entropy, Spec.Pareto.entropy]
  c08_norm
  norm_num1
  have hL : Real.log (1 / 2 * Real.exp (3 / 2)) = Real.log (1 / 2) + 3 / 2 := by
    rw [Real.log_mul (by norm_num) (Real.exp_pos _).ne', Real.log_exp]
  have h2 : Real.log (1 / 2) = -Real.log 2 := by rw [one_div, Real.log_inv]
  have hlog2 := C08L.log_two_lt_one
  have hlog10 := C08L.one_lt_log_ten
  have hLpos : 0 < Real.log (1 / 2) + 3 / 2 := by rw [h2]; linarith
  unfold Real.logb
  rw [hL]
  intro h
  have h10 : (0:ℝ) < Real.log 10 := by linarith
  rw [div_eq_iff h10.ne'] at h
  nlinarith [mul_pos hLpos (sub_pos.mpr hlog10)]

/-- FULL STATEMENT (false): Gen.LogNormal.mode_real d = Spec.LogNormal.mode d.
    `dist/lognormal.rs` returns μ − σ² (the mode of ln X) instead of exp(μ − σ²); at (0,1) it is −1, outside the support. -/
-- @site LogNormal.mode_real
theorem LogNormal_mode_counterexample :
    (Gen.LogNormal.mode_real (⟨⟨0⟩, ⟨1⟩⟩ : Gen.LogNormal R)).map R.val
      ≠ (Spec.LogNormal.mode (⟨⟨0⟩, ⟨1⟩⟩ : Gen.LogNormal R)).map R.val := by
  simp only [Gen.LogNormal.mode_real, Spec.LogNormal.mode]
  c08_norm
  norm_num1
  have := Real.exp_pos (0 - 1 * 1 : ℝ)
  intro h
  norm_num at h
  linarith [Real.exp_pos (-1 : ℝ)]

/-- FULL STATEMENT (false): Gen.DiscreteUniform.entropy d = Spec.DiscreteUniform.entropy d.
    `dist/discrete_uniform.rs` returns ln(b − a), the support has b − a + 1 points; {0,1} gets entropy 0. -/
-- @site DiscreteUniform.entropy
theorem DiscreteUniform_entropy_counterexample :
    (Gen.DiscreteUniform.entropy (⟨0, 1⟩ : Gen.DiscreteUniform R)).val
      ≠ (Spec.DiscreteUniform.entropy (⟨0, 1⟩ : Gen.DiscreteUniform R)).val := by
  simp only [Gen.DiscreteUniform.entropy, Spec.DiscreteUniform.entropy]
  c08_norm
  have h2 := Real.log_pos (show (1:ℝ) < 2 by norm_num)
  norm_num
  first
    | exact h2.ne
    | exact h2.ne'
    | (intro h; linarith [h2])

/-- FULL STATEMENT (false): Gen.DiscreteUniform.kurtosis d = Spec.DiscreteUniform.kurtosis d.
    the code returns the constant −6/5 of the *continuous* uniform; the discrete one is −6(n²+1)/(5(n²−1)). -/
-- @site DiscreteUniform.kurtosis
theorem DiscreteUniform_kurtosis_counterexample :
    (Gen.DiscreteUniform.kurtosis (⟨0, 1⟩ : Gen.DiscreteUniform R)).map R.val
      ≠ (Spec.DiscreteUniform.kurtosis (⟨0, 1⟩ : Gen.DiscreteUniform R)).map R.val := by
  simp only [Gen.DiscreteUniform.kurtosis, Spec.DiscreteUniform.kurtosis]
  c08_norm
  norm_num

/-- FULL STATEMENT (false): Gen.Skellam.kurtosis d = Spec.Skellam.kurtosis d.
    the code returns the non-excess kurtosis 3 + 1/(μ₁+μ₂) whereas every other `Kurtosis` impl is excess kurtosis. -/
-- @site Skellam.kurtosis
theorem Skellam_kurtosis_counterexample :
    (Gen.Skellam.kurtosis (⟨⟨1⟩, ⟨1⟩⟩ : Gen.Skellam R)).map R.val
      ≠ (Spec.Skellam.kurtosis (⟨⟨1⟩, ⟨1⟩⟩ : Gen.Skellam R)).map R.val := by
  simp only [Gen.Skellam.kurtosis, Spec.Skellam.kurtosis]
  c08_norm
  norm_num

/-- FULL STATEMENT (false without `-1 ≤ ξ`): Gen.Gev.mode_real d = Spec.Gev.mode d for every valid d.
    For ξ < −1 the density is unbounded at the upper end point of the support (no mode), the code still returns
    a value (`Some(NaN)` on binary64 for non-integer ξ, a finite number for ξ = −2, −3, …). -/
-- @site Gev.mode_real
theorem Gev_mode_counterexample :
    (Gen.Gev.mode_real (⟨⟨0⟩, ⟨1⟩, ⟨-2⟩⟩ : Gen.Gev R)).map R.val
      ≠ (Spec.Gev.mode (⟨⟨0⟩, ⟨1⟩, ⟨-2⟩⟩ : Gen.Gev R)).map R.val := by
  simp only [Gen.Gev.mode_real, Spec.Gev.mode]
  c08_norm
  norm_num
  exact fun h => by cases h

end C08

#print axioms C08.Bernoulli_median
#print axioms C08.Cauchy_median
#print axioms C08.DiscreteUniform_median
#print axioms C08.Exponential_median
#print axioms C08.Gaussian_median
#print axioms C08.Gev_median
#print axioms C08.Kumaraswamy_median
#print axioms C08.Laplace_median
#print axioms C08.LogNormal_median
#print axioms C08.StudentsT_median
#print axioms C08.Uniform_median
#print axioms C08.VonMises_median
#print axioms C08.Bernoulli_modeBool
#print axioms C08.Bernoulli_modeNat
#print axioms C08.Beta_mode
#print axioms C08.Cauchy_mode
#print axioms C08.ChiSquared_mode
#print axioms C08.Exponential_mode
#print axioms C08.Gamma_mode
#print axioms C08.Gamma_mode_none_iff
#print axioms C08.Gaussian_mode
#print axioms C08.Gev_mode
#print axioms C08.InvChiSquared_mode
#print axioms C08.InvGamma_mode
#print axioms C08.InvGaussian_mode
#print axioms C08.Kumaraswamy_mode
#print axioms C08.Laplace_mode
#print axioms C08.Pareto_mode
#print axioms C08.Poisson_modePair
#print axioms C08.ScaledInvChiSquared_mode
#print axioms C08.StudentsT_mode
#print axioms C08.UnitPowerLaw_mode
#print axioms C08.UnitPowerLaw_mode_none_iff
#print axioms C08.VonMises_mode
#print axioms C08.Bernoulli_entropy
#print axioms C08.Beta_entropy
#print axioms C08.Categorical_entropy
#print axioms C08.Cauchy_entropy
#print axioms C08.Exponential_entropy
#print axioms C08.Gamma_entropy
#print axioms C08.Gaussian_entropy
#print axioms C08.Geometric_entropy
#print axioms C08.Kumaraswamy_entropy
#print axioms C08.Gev_entropy
#print axioms C08.InvGamma_entropy
#print axioms C08.Laplace_entropy
#print axioms C08.LogNormal_entropy
#print axioms C08.Uniform_entropy
#print axioms C08.UnitPowerLaw_entropy
#print axioms C08.VonMises_entropy
#print axioms C08.Pareto_entropy_counterexample
#print axioms C08.LogNormal_mode_counterexample
#print axioms C08.DiscreteUniform_entropy_counterexample
#print axioms C08.DiscreteUniform_kurtosis_counterexample
#print axioms C08.Skellam_kurtosis_counterexample
#print axioms C08.Gev_mode_counterexample
