import RvModel.RealInst
import RvModel.Gen.Defs
import RvModel.Spec.C01C
import RvModel.Lemmas.C01C
import Mathlib.Analysis.SpecialFunctions.Gamma.Basic
import Mathlib.Analysis.SpecialFunctions.Log.Basic
/-!
  C01 (group C): discrete distributions, Dirichlet / SymmetricDirichlet, CRP.
  Every generated `ln_f` equals the textbook log-mass (log-density) of `Spec/C01C.lean` on the support, for
  all valid parameters, over exact reals — or a `_counterexample` shows where it does not.

  Conventions: hypotheses = what the checked constructor `new` enforces + the observation in the support.
  Where the constructor admits a boundary value of a probability (p = 0 or p = 1) the main theorem is stated on
  the interior 0 < p < 1 (at the boundary the textbook log-mass is −∞ or the code evaluates 0·ln 0; neither
  can be expressed on `R`), see the notes at `Binomial_ln_f_boundary_partial`.
-/
set_option linter.unusedVariables false
open Real C01CLemmas

namespace C01

/-! ### Bernoulli -/

-- @site Bernoulli.ln_f_bool
theorem Bernoulli_ln_f_bool (d : Gen.Bernoulli R) (x : Bool) (hp0 : 0 < d.p.val) (hp1 : d.p.val < 1) :
    (Gen.Bernoulli.ln_f_bool d x).val = (Spec.Bernoulli.lnPmf d x).val := by
  cases x <;>
    simp [Gen.Bernoulli.ln_f_bool, Gen.Bernoulli.f_bool, Spec.Bernoulli.lnPmf]

-- @site Bernoulli.ln_f_nat
theorem Bernoulli_ln_f_nat (d : Gen.Bernoulli R) (k : Nat) (hp0 : 0 < d.p.val) (hp1 : d.p.val < 1)
    (hk : k ≤ 1) :
    (Gen.Bernoulli.ln_f_nat d k).val = (Spec.Bernoulli.lnPmfNat d k).val := by
  interval_cases k <;>
    simp [Gen.Bernoulli.ln_f_nat, Gen.Bernoulli.f_nat, Spec.Bernoulli.lnPmfNat]

/-- type independence: observing `1 : u8` is observing `true`, for every carrier -/
-- @site Bernoulli.ln_f_nat
theorem Bernoulli_ln_f_nat_one_eq_bool_true {α : Type} [RealLike α] (d : Gen.Bernoulli α) :
    Gen.Bernoulli.ln_f_nat d 1 = Gen.Bernoulli.ln_f_bool d true := by
  simp [Gen.Bernoulli.ln_f_nat, Gen.Bernoulli.f_nat, Gen.Bernoulli.ln_f_bool, Gen.Bernoulli.f_bool]

/-- type independence: observing `0 : u8` is observing `false`, for every carrier -/
-- @site Bernoulli.ln_f_nat
theorem Bernoulli_ln_f_nat_zero_eq_bool_false {α : Type} [RealLike α] (d : Gen.Bernoulli α) :
    Gen.Bernoulli.ln_f_nat d 0 = Gen.Bernoulli.ln_f_bool d false := by
  simp [Gen.Bernoulli.ln_f_nat, Gen.Bernoulli.f_nat, Gen.Bernoulli.ln_f_bool, Gen.Bernoulli.f_bool]

example : (0:ℝ) < (⟨⟨0.3⟩⟩ : Gen.Bernoulli R).p.val ∧ (⟨⟨0.3⟩⟩ : Gen.Bernoulli R).p.val < 1 := by
  norm_num

/-! ### Binomial -/

-- @site Binomial.ln_f_nat
theorem Binomial_ln_f_nat (d : Gen.Binomial R) (k : Nat) (hn : 0 < d.n) (hp0 : 0 < d.p.val)
    (hp1 : d.p.val < 1) (hk : k ≤ d.n) :
    (Gen.Binomial.ln_f_nat d k).val = (Spec.Binomial.lnPmf d k).val := by
  simp only [Gen.Binomial.ln_f_nat, Gen.Binomial.q, Gen.ln_binom, Spec.Binomial.lnPmf, Spec.lnChoose,
    Spec.lnFactorial, if_pos hk, mulAdd, R.add_val, R.sub_val, R.mul_val, R.ln_val, R.lgamma_val,
    R.ofNatR_val, R.sci_val]
  push_cast [Nat.cast_sub hk]
  norm_num
  ring_nf

-- @site Binomial.ln_f_int
theorem Binomial_ln_f_int (d : Gen.Binomial R) (k : Int) (hn : 0 < d.n) (hp0 : 0 < d.p.val)
    (hp1 : d.p.val < 1) (hk0 : 0 ≤ k) (hk : k ≤ d.n) :
    (Gen.Binomial.ln_f_int d k).val = (Spec.Binomial.lnPmfInt d k).val := by
  obtain ⟨m, rfl⟩ := Int.eq_ofNat_of_zero_le hk0
  have hm : m ≤ d.n := by exact_mod_cast hk
  have hneg : ¬ ((m : Int) < 0) := by omega
  simp only [Gen.Binomial.ln_f_int, Gen.Binomial.q, Gen.ln_binom, Spec.Binomial.lnPmfInt,
    Spec.Binomial.lnPmf, Spec.lnChoose, Spec.lnFactorial, if_neg hneg, Int.toNat_natCast, if_pos hm, mulAdd,
    R.add_val, R.sub_val, R.mul_val, R.ln_val, R.lgamma_val, R.ofNatR_val, R.ofIntR_val, R.sci_val]
  push_cast [Nat.cast_sub hm]
  norm_num
  ring_nf

/-- integer-type independence: a signed observation `k ≥ 0` gives the value of the unsigned observation -/
-- @site Binomial.ln_f_int
theorem Binomial_ln_f_int_eq_nat (d : Gen.Binomial R) (k : Nat) :
    (Gen.Binomial.ln_f_int d (k : Int)).val = (Gen.Binomial.ln_f_nat d k).val := by
  simp [Gen.Binomial.ln_f_int, Gen.Binomial.ln_f_nat, Gen.ln_binom]

example : ∃ d : Gen.Binomial R, 0 < d.n ∧ 0 < d.p.val ∧ d.p.val < 1 ∧ (3 : Nat) ≤ d.n :=
  ⟨⟨10, ⟨0.25⟩⟩, by norm_num, by norm_num, by norm_num, by norm_num⟩

/-- Boundary p ∈ {0, 1} (accepted by `Binomial::new`).  Full statement that cannot be expressed on `R`:
    `Binomial(n, 0).ln_f(0) = 0`, `Binomial(n, 1).ln_f(n) = 0` and `−∞` at the other points.
    What the generated definition computes at k = 0, on every carrier, is the expression below; with p = 0 it
    contains `ln 0 * 0`, which is `−∞ · 0 = NaN` in binary64 (observed on the real code:
    `Binomial::new(5, 0.0).ln_f(&0u8)` is NaN, `Binomial::new(5, 1.0).ln_f(&5u8)` is NaN). -/
-- @site Binomial.ln_f_nat
theorem Binomial_ln_f_boundary_partial {α : Type} [RealLike α] (n : Nat) (p : α) :
    Gen.Binomial.ln_f_nat (⟨n, p⟩ : Gen.Binomial α) 0 =
      RealLike.ln ((1.0 : α) - p) * (RealLike.ofNatR n - RealLike.ofNatR 0)
        + (RealLike.ln p * RealLike.ofNatR 0 + Gen.ln_binom (RealLike.ofNatR n) (RealLike.ofNatR 0)) := rfl

/-- `supports` of the unsigned kinds compares with `self.n as $kind` (wrapping): correct when n fits -/
-- @site Binomial.supports_nat
theorem Binomial_supports_nat (d : Gen.Binomial R) (kbits k : Nat) (h : d.n < 2 ^ kbits) :
    Gen.Binomial.supports_nat d kbits k = true ↔ k ≤ d.n := by
  simp [Gen.Binomial.supports_nat, wrapNat, Nat.mod_eq_of_lt h]

example : (⟨10, ⟨0.5⟩⟩ : Gen.Binomial R).n < 2 ^ 8 := by norm_num

/-- defect candidate: `Binomial::new(300, 0.5).supports(&100u8)` is `false` although 100 ≤ 300 -/
-- @site Binomial.supports_nat
theorem Binomial_supports_nat_counterexample :
    Gen.Binomial.supports_nat (⟨300, ⟨0.5⟩⟩ : Gen.Binomial R) 8 100 = false := by
  simp [Gen.Binomial.supports_nat, wrapNat]

/-- signed kinds (`kbits = b + 1`): correct when n fits into the non-negative half -/
-- @site Binomial.supports_int
theorem Binomial_supports_int (d : Gen.Binomial R) (b : Nat) (k : Int) (h : d.n < 2 ^ b) :
    Gen.Binomial.supports_int d (b + 1) k = true ↔ (0 ≤ k ∧ k ≤ d.n) := by
  have hP : (0 : Int) < 2 ^ b := by positivity
  have hn : (d.n : Int) < 2 ^ b := by exact_mod_cast h
  have hpow : (2 : Int) ^ (b + 1) = 2 * 2 ^ b := by ring
  have hmod : (d.n : Int) % (2 * 2 ^ b) = d.n := Int.emod_eq_of_lt (by positivity) (by linarith)
  have hdiv : (2 * (2 : Int) ^ b) / 2 = 2 ^ b := by simp
  have hlt : ¬ ((d.n : Int) ≥ 2 ^ b) := by linarith
  simp [Gen.Binomial.supports_int, wrapInt, hpow, hmod, hdiv, hlt]

/-- defect candidate: `Binomial::new(200, 0.5).supports(&100i8)` is `false` (200 as i8 = −56) -/
-- @site Binomial.supports_int
theorem Binomial_supports_int_counterexample :
    Gen.Binomial.supports_int (⟨200, ⟨0.5⟩⟩ : Gen.Binomial R) 8 100 = false := by
  simp [Gen.Binomial.supports_int, wrapInt]

/-! ### BetaBinomial -/

-- @site BetaBinomial.ln_f_nat
theorem BetaBinomial_ln_f_nat (d : Gen.BetaBinomial R) (k : Nat) (hn : 0 < d.n) (ha : 0 < d.alpha.val)
    (hb : 0 < d.beta.val) (hk : k ≤ d.n) :
    (Gen.BetaBinomial.ln_f_nat d k).val = (Spec.BetaBinomial.lnPmf d k).val := by
  simp only [Gen.BetaBinomial.ln_f_nat, Gen.BetaBinomial.ln_beta_ab, Gen.ln_binom, Spec.BetaBinomial.lnPmf,
    Spec.lnChoose, Spec.lnFactorial, if_pos hk, R.add_val, R.sub_val, R.lgamma_val, R.lnBeta_val,
    R.ofNatR_val, R.sci_val]
  push_cast [Nat.cast_sub hk]
  norm_num

-- @site BetaBinomial.ln_f_int
theorem BetaBinomial_ln_f_int (d : Gen.BetaBinomial R) (k : Int) (hn : 0 < d.n) (ha : 0 < d.alpha.val)
    (hb : 0 < d.beta.val) (hk0 : 0 ≤ k) (hk : k ≤ d.n) :
    (Gen.BetaBinomial.ln_f_int d k).val = (Spec.BetaBinomial.lnPmfInt d k).val := by
  obtain ⟨m, rfl⟩ := Int.eq_ofNat_of_zero_le hk0
  have hm : m ≤ d.n := by exact_mod_cast hk
  have hneg : ¬ ((m : Int) < 0) := by omega
  simp only [Gen.BetaBinomial.ln_f_int, Gen.BetaBinomial.ln_beta_ab, Gen.ln_binom,
    Spec.BetaBinomial.lnPmfInt, Spec.BetaBinomial.lnPmf, Spec.lnChoose, Spec.lnFactorial, if_neg hneg,
    Int.toNat_natCast, if_pos hm, R.add_val, R.sub_val, R.lgamma_val, R.lnBeta_val, R.ofNatR_val,
    R.ofIntR_val, R.sci_val]
  push_cast [Nat.cast_sub hm]
  norm_num

example : ∃ d : Gen.BetaBinomial R, 0 < d.n ∧ 0 < d.alpha.val ∧ 0 < d.beta.val ∧ (7 : Nat) ≤ d.n :=
  ⟨⟨20, ⟨3⟩, ⟨2⟩⟩, by norm_num, by norm_num, by norm_num, by norm_num⟩

-- @site BetaBinomial.supports_nat
theorem BetaBinomial_supports_nat (d : Gen.BetaBinomial R) (kbits k : Nat) (h : d.n < 2 ^ kbits) :
    Gen.BetaBinomial.supports_nat d kbits k = true ↔ k ≤ d.n := by
  simp [Gen.BetaBinomial.supports_nat, wrapNat, Nat.mod_eq_of_lt h]

/-- defect candidate: `BetaBinomial::new(300, 0.5, 0.5).supports(&100u8)` is `false` -/
-- @site BetaBinomial.supports_nat
theorem BetaBinomial_supports_nat_counterexample :
    Gen.BetaBinomial.supports_nat (⟨300, ⟨0.5⟩, ⟨0.5⟩⟩ : Gen.BetaBinomial R) 8 100 = false := by
  simp [Gen.BetaBinomial.supports_nat, wrapNat]

-- @site BetaBinomial.supports_int
theorem BetaBinomial_supports_int (d : Gen.BetaBinomial R) (b : Nat) (k : Int) (h : d.n < 2 ^ b) :
    Gen.BetaBinomial.supports_int d (b + 1) k = true ↔ (0 ≤ k ∧ k ≤ d.n) := by
  have hP : (0 : Int) < 2 ^ b := by positivity
  have hn : (d.n : Int) < 2 ^ b := by exact_mod_cast h
  have hpow : (2 : Int) ^ (b + 1) = 2 * 2 ^ b := by ring
  have hmod : (d.n : Int) % (2 * 2 ^ b) = d.n := Int.emod_eq_of_lt (by positivity) (by linarith)
  have hdiv : (2 * (2 : Int) ^ b) / 2 = 2 ^ b := by simp
  have hlt : ¬ ((d.n : Int) ≥ 2 ^ b) := by linarith
  simp [Gen.BetaBinomial.supports_int, wrapInt, hpow, hmod, hdiv, hlt]

/-! ### Poisson — relative to `Gen.ln_fact` (table below 254, Stirling above; its accuracy is property C14) -/

/-- unconditional: the generated log-mass differs from the textbook one exactly by the error of `ln_fact` -/
-- @site Poisson.ln_f_nat
theorem Poisson_ln_f_nat_rel_ln_fact (d : Gen.Poisson R) (k : Nat) :
    (Gen.Poisson.ln_f_nat d k).val - (Spec.Poisson.lnPmf d k).val
      = Real.log (k.factorial) - (Gen.ln_fact (α := R) k).val := by
  simp only [Gen.Poisson.ln_f_nat, Gen.Poisson.ln_rate, Spec.Poisson.lnPmf, Spec.lnFactorial, mulAdd,
    R.add_val, R.sub_val, R.mul_val, R.neg_val, R.ln_val, R.lgamma_val, R.ofNatR_val]
  push_cast
  rw [Real.Gamma_nat_eq_factorial]
  ring

/-- exact-arithmetic idealisation: if `ln_fact` were exactly ln n! the Poisson log-mass is the textbook one.
    (On `R` the table entries are decimal literals, so `hfact` only holds approximately: the usable form is
    `Poisson_ln_f_nat_given_ln_fact_approx`.) -/
-- @site Poisson.ln_f_nat
theorem Poisson_ln_f_nat_given_ln_fact
    (hfact : ∀ n, (Gen.ln_fact (α := R) n).val = Real.log (n.factorial))
    (d : Gen.Poisson R) (k : Nat) (hr : 0 < d.rate.val) :
    (Gen.Poisson.ln_f_nat d k).val = (Spec.Poisson.lnPmf d k).val := by
  have h := Poisson_ln_f_nat_rel_ln_fact d k
  rw [hfact k] at h
  linarith

/-- if `ln_fact k` is within ε of ln k! then so is the Poisson log-mass of the textbook value -/
-- @site Poisson.ln_f_nat
theorem Poisson_ln_f_nat_given_ln_fact_approx (ε : ℝ) (d : Gen.Poisson R) (k : Nat) (hr : 0 < d.rate.val)
    (hfact : |(Gen.ln_fact (α := R) k).val - Real.log (k.factorial)| ≤ ε) :
    |(Gen.Poisson.ln_f_nat d k).val - (Spec.Poisson.lnPmf d k).val| ≤ ε := by
  rw [Poisson_ln_f_nat_rel_ln_fact, abs_sub_comm]
  exact hfact

example : (0:ℝ) < (⟨⟨2.5⟩⟩ : Gen.Poisson R).rate.val := by norm_num

/-- the hypothesis of `Poisson_ln_f_nat_given_ln_fact_approx` is satisfiable: at k = 2 the table entry is the
    named constant ln 2, so it even holds with ε = 0 -/
example : |(Gen.ln_fact (α := R) 2).val - Real.log ((2 : ℕ).factorial)| ≤ 0 := by
  have h : (Gen.ln_fact (α := R) 2).val = Real.log 2 := rfl
  rw [h]
  norm_num [Nat.factorial]

/-! ### Geometric (number of failures before the first success) -/

-- @site Geometric.ln_f_nat
theorem Geometric_ln_f_nat (d : Gen.Geometric R) (k : Nat) (hp0 : 0 < d.p.val) (hp1 : d.p.val < 1) :
    (Gen.Geometric.ln_f_nat d k).val = (Spec.Geometric.lnPmf d k).val := by
  simp only [Gen.Geometric.ln_f_nat, Gen.Geometric.ln_1mp, Gen.Geometric.ln_p, Spec.Geometric.lnPmf,
    Option.getD_some, mulAdd, R.add_val, R.sub_val, R.mul_val, R.ln_val, R.ofNatR_val, R.sci_val]

example : (0:ℝ) < (⟨⟨0.5⟩⟩ : Gen.Geometric R).p.val ∧ (⟨⟨0.5⟩⟩ : Gen.Geometric R).p.val < 1 := by norm_num

/-- Boundary p = 1 (accepted by `Geometric::new`): textbook P(0) = 1, ln = 0.  Not expressible on `R`; on every
    carrier the generated value at k = 0 is `0 · ln(1 − p) + ln p`, i.e. `0 · (−∞) + 0 = NaN` in binary64 at
    p = 1 (observed on the real code: `Geometric::new(1.0).ln_f(&0u32)` is NaN). -/
-- @site Geometric.ln_f_nat
theorem Geometric_ln_f_boundary_partial {α : Type} [RealLike α] (p : α) :
    Gen.Geometric.ln_f_nat (⟨p⟩ : Gen.Geometric α) 0
      = RealLike.ofNatR 0 * RealLike.ln ((1.0 : α) - p) + RealLike.ln p := rfl

/-! ### NegBinomial(r, p), MathWorld parameterisation -/

-- @site NegBinomial.ln_f_nat
theorem NegBinomial_ln_f_nat (d : Gen.NegBinomial R) (k : Nat) (hr : 1 ≤ d.r.val) (hp0 : 0 < d.p.val)
    (hp1 : d.p.val < 1) :
    (Gen.NegBinomial.ln_f_nat d k).val = (Spec.NegBinomial.lnPmf d k).val := by
  simp only [Gen.NegBinomial.ln_f_nat, Gen.NegBinomial.ln_1mp, Gen.NegBinomial.r_ln_p, Gen.ln_binom,
    Spec.NegBinomial.lnPmf, Spec.lnFactorial, mulAdd, R.add_val, R.sub_val, R.mul_val, R.ln_val,
    R.lgamma_val, R.ofNatR_val, R.sci_val]
  push_cast
  norm_num
  ring_nf

example : ∃ d : Gen.NegBinomial R, 1 ≤ d.r.val ∧ 0 < d.p.val ∧ d.p.val < 1 :=
  ⟨⟨⟨4⟩, ⟨0.8⟩⟩, by norm_num, by norm_num, by norm_num⟩

/-- Boundary p = 1 (accepted by `NegBinomial::new`, which admits 0 ≤ p ≤ 1): textbook P(0) = 1, ln = 0.
    On every carrier the generated value at k = 0 contains `0 · ln(1 − p)`, i.e. `0 · (−∞) = NaN` in binary64
    at p = 1 (observed on the real code: `NegBinomial::new(2.0, 1.0).ln_f(&0u8)` is NaN). -/
-- @site NegBinomial.ln_f_nat
theorem NegBinomial_ln_f_boundary_partial {α : Type} [RealLike α] (r p : α) :
    Gen.NegBinomial.ln_f_nat (⟨r, p⟩ : Gen.NegBinomial α) 0
      = Gen.ln_binom ((RealLike.ofNatR 0 + r) - (1.0 : α)) (r - (1.0 : α))
        + (RealLike.ofNatR 0 * RealLike.ln ((1.0 : α) - p) + r * RealLike.ln p) := rfl

/-! ### Categorical (the structure stores log-weights) -/

-- @site Categorical.ln_f_nat
theorem Categorical_ln_f_nat (d : Gen.Categorical R) (k : Nat) (hk : k < d.ln_weights.length) :
    (Gen.Categorical.ln_f_nat d k).val = (Spec.Categorical.lnPmf d k).val := by
  simp [Gen.Categorical.ln_f_nat, Spec.Categorical.lnPmf, idxR, List.getD, hk]

-- @site Categorical.ln_f_bool
theorem Categorical_ln_f_bool (d : Gen.Categorical R) (b : Bool) (hk : 2 ≤ d.ln_weights.length) :
    (Gen.Categorical.ln_f_bool d b).val = (Spec.Categorical.lnPmfBool d b).val := by
  have h1 : 1 < d.ln_weights.length := hk
  have h0 : 0 < d.ln_weights.length := by omega
  cases b <;>
    simp [Gen.Categorical.ln_f_bool, Spec.Categorical.lnPmfBool, Spec.Categorical.lnPmf, idxR, List.getD, h0, h1]

/-- type independence: `true` is category 1, for every carrier -/
-- @site Categorical.ln_f_bool
theorem Categorical_ln_f_bool_true_eq_nat_one {α : Type} [RealLike α] (d : Gen.Categorical α) :
    Gen.Categorical.ln_f_bool d true = Gen.Categorical.ln_f_nat d 1 := by
  simp [Gen.Categorical.ln_f_bool, Gen.Categorical.ln_f_nat]

/-- type independence: `false` is category 0, for every carrier -/
-- @site Categorical.ln_f_bool
theorem Categorical_ln_f_bool_false_eq_nat_zero {α : Type} [RealLike α] (d : Gen.Categorical α) :
    Gen.Categorical.ln_f_bool d false = Gen.Categorical.ln_f_nat d 0 := by
  simp [Gen.Categorical.ln_f_bool, Gen.Categorical.ln_f_nat]

example : (1 : Nat) < (⟨[⟨Real.log 0.25⟩, ⟨Real.log 0.75⟩]⟩ : Gen.Categorical R).ln_weights.length := by
  simp

/-! ### DiscreteUniform(a, b): the generated `ln_f` is 0 on the support instead of −ln(b − a + 1) -/

/-- what the code computes on the support (the observation, an integer in Rust, is a real in the model) -/
-- @site DiscreteUniform.ln_f_real
theorem DiscreteUniform_ln_f_on_support (d : Gen.DiscreteUniform R) (x : Int) (hx : d.a ≤ x ∧ x ≤ d.b) :
    (Gen.DiscreteUniform.ln_f_real d (RealLike.ofIntR x)).val = 0 := by
  have h1 : (d.a : ℝ) ≤ x := by exact_mod_cast hx.1
  have h2 : (x : ℝ) ≤ d.b := by exact_mod_cast hx.2
  have e1 : RealLike.le (RealLike.ofIntR d.a : R) (RealLike.ofIntR x) = true := by simpa using h1
  have e2 : RealLike.le (RealLike.ofIntR x : R) (RealLike.ofIntR d.b) = true := by simpa using h2
  simp only [Gen.DiscreteUniform.ln_f_real, RealLike.ge, e1, e2, Bool.and_self, if_true, R.sci_val]
  norm_num

/-- the code is wrong at *every* valid parameter and *every* support point:
    textbook ln P(x) = −ln(b − a + 1) < 0 = generated value -/
-- @site DiscreteUniform.ln_f_real
theorem DiscreteUniform_ln_f_never_textbook (d : Gen.DiscreteUniform R) (x : Int) (hab : d.a < d.b)
    (hx : d.a ≤ x ∧ x ≤ d.b) :
    (Spec.DiscreteUniform.lnPmf d x).val < (Gen.DiscreteUniform.ln_f_real d (RealLike.ofIntR x)).val := by
  rw [DiscreteUniform_ln_f_on_support d x hx]
  simp only [Spec.DiscreteUniform.lnPmf, if_pos hx, R.neg_val, R.ln_val, R.ofIntR_val]
  have : (1 : ℝ) < ((d.b - d.a + 1 : Int) : ℝ) := by
    have : (1 : Int) < d.b - d.a + 1 := by omega
    exact_mod_cast this
  have := Real.log_pos this
  linarith

/-- defect: `DiscreteUniform::new(0, 1).ln_f(&0)` = 0 but ln P(0) = −ln 2 -/
-- @site DiscreteUniform.ln_f_real
theorem DiscreteUniform_ln_f_counterexample :
    (Gen.DiscreteUniform.ln_f_real (⟨0, 1⟩ : Gen.DiscreteUniform R) (RealLike.ofIntR 0)).val
      ≠ (Spec.DiscreteUniform.lnPmf (⟨0, 1⟩ : Gen.DiscreteUniform R) 0).val := by
  have h := DiscreteUniform_ln_f_never_textbook (⟨0, 1⟩ : Gen.DiscreteUniform R) 0 (by norm_num) (by norm_num)
  exact (ne_of_lt h).symm

/-! ### Dirichlet / SymmetricDirichlet (density on the simplex) -/

-- @site Dirichlet.ln_f_Vecf64
theorem Dirichlet_ln_f (d : Gen.Dirichlet R) (x : List R) (hne : d.alphas ≠ [])
    (ha : ∀ a ∈ d.alphas, 0 < a.val) (hlen : x.length = d.alphas.length) (hx : ∀ xi ∈ x, 0 < xi.val)
    (hsum : (x.map R.val).sum = 1) :
    (Gen.Dirichlet.ln_f_Vecf64 d x).val = (Spec.Dirichlet.lnPdf d x).val := by
  have h1 := foldl_add_val (fun (acc : R) (alpha : R) => acc + RealLike.lgamma alpha)
    (fun a => Real.log (Real.Gamma a.val)) (by intro acc b; simp) (0.0 : R) d.alphas
  have h2 := foldl_add_val
    (fun (acc : R) (p : R × R) => mulAdd (p.2 - (1.0 : R)) (RealLike.ln p.1) acc)
    (fun p => (p.2.val - 1) * Real.log p.1.val)
    (by intro acc b; simp only [mulAdd, R.add_val, R.sub_val, R.mul_val, R.ln_val, R.sci_val]; norm_num; ring)
    (0.0 : R) (List.zip x d.alphas)
  have h3 := sum_map_zip_swap (fun (a xi : R) => (a.val - 1) * Real.log xi.val) d.alphas x
  have h4 := sumL_zipWith_val (fun (a xi : R) => (a - (1.0 : R)) * RealLike.ln xi) d.alphas x
  have h5 := sumL_map_val (RealLike.lgamma : R → R) d.alphas
  simp only [Gen.Dirichlet.ln_f_Vecf64, Spec.Dirichlet.lnPdf, R.add_val, R.sub_val, R.lgamma_val]
  simp only [R.sub_val, R.mul_val, R.ln_val, R.sci_val, R.lgamma_val] at h1 h2 h3 h4 h5
  rw [h1, h2, h3, h4, h5]
  norm_num
  ring

example : ∃ (d : Gen.Dirichlet R) (x : List R), d.alphas ≠ [] ∧ (∀ a ∈ d.alphas, 0 < a.val) ∧
    x.length = d.alphas.length ∧ (∀ xi ∈ x, 0 < xi.val) ∧ (x.map R.val).sum = 1 :=
  ⟨⟨[⟨2⟩, ⟨0.5⟩]⟩, [⟨0.25⟩, ⟨0.75⟩], by simp, by simp; norm_num, by simp, by simp; norm_num,
    by simp; norm_num⟩

-- @site SymmetricDirichlet.ln_f_Vecf64
theorem SymmetricDirichlet_ln_f (d : Gen.SymmetricDirichlet R) (x : List R) (hk : 0 < d.k)
    (ha : 0 < d.alpha.val) (hlen : x.length = d.k) (hx : ∀ xi ∈ x, 0 < xi.val)
    (hsum : (x.map R.val).sum = 1) :
    (Gen.SymmetricDirichlet.ln_f_Vecf64 d x).val = (Spec.SymmetricDirichlet.lnPdf d x).val := by
  obtain ⟨alpha, k⟩ := d
  simp only at hlen
  subst hlen
  have h2 := foldl_add_val
    (fun (acc : R) (xi : R) => mulAdd (alpha - (1.0 : R)) (RealLike.ln xi) acc)
    (fun xi => (alpha.val - 1) * Real.log xi.val)
    (by intro acc b; simp only [mulAdd, R.add_val, R.sub_val, R.mul_val, R.ln_val, R.sci_val]; norm_num; ring)
    (0.0 : R) x
  have h4 := sumL_zipWith_replicate_val (fun (a xi : R) => (a - (1.0 : R)) * RealLike.ln xi) alpha x
  have h5 := sumL_map_val (RealLike.lgamma : R → R) (List.replicate x.length alpha)
  have h6 := R.sumL_val (List.replicate x.length alpha)
  simp only [Gen.SymmetricDirichlet.ln_f_Vecf64, Gen.SymmetricDirichlet.ln_gamma_alpha,
    Spec.SymmetricDirichlet.lnPdf, Spec.Dirichlet.lnPdf, R.add_val, R.sub_val, R.mul_val, R.lgamma_val,
    R.ofNatR_val, List.map_replicate]
  simp only [R.sub_val, R.mul_val, R.ln_val, R.sci_val, R.lgamma_val, List.map_replicate,
    List.sum_replicate, nsmul_eq_mul] at h2 h4 h5 h6
  rw [h2, h4, h5, h6]
  norm_num
  ring_nf

example : ∃ (d : Gen.SymmetricDirichlet R) (x : List R), 0 < d.k ∧ 0 < d.alpha.val ∧
    x.length = d.k ∧ (∀ xi ∈ x, 0 < xi.val) ∧ (x.map R.val).sum = 1 :=
  ⟨⟨⟨1.2⟩, 2⟩, [⟨0.25⟩, ⟨0.75⟩], by simp, by simp; norm_num, by simp, by simp; norm_num,
    by simp; norm_num⟩

/-! ### Chinese restaurant process: EPPF  α^K Π (n_j − 1)! Γ(α) / Γ(α + n) -/

-- @site Crp.ln_f_Partition
theorem Crp_ln_f (d : Gen.Crp R) (x : Gen.Partition R) (hn : 0 < d.n) (ha : 0 < d.alpha.val)
    (hlen : x.z.length = d.n) (hcounts : ∀ c ∈ x.counts, 1 ≤ c) (hsum : x.counts.sum = d.n) :
    (Gen.Crp.ln_f_Partition d x).val = (Spec.Crp.lnPmf d x).val := by
  have h1 := foldl_add_val (fun (acc : R) (ct : Nat) => acc + RealLike.lgamma (RealLike.ofNatR ct))
    (fun ct => Real.log (Real.Gamma (ct : ℝ))) (by intro acc b; simp) (0.0 : R) x.counts
  have h2 := sumL_map_val (fun c : Nat => (Spec.lnFactorial (c - 1) : R)) x.counts
  have h3 : x.counts.map (fun c : Nat => ((Spec.lnFactorial (c - 1) : R)).val)
      = x.counts.map (fun ct : Nat => Real.log (Real.Gamma (ct : ℝ))) := by
    apply List.map_congr_left
    intro c hc
    have := hcounts c hc
    simp only [Spec.lnFactorial, R.lgamma_val, R.ofNatR_val, Nat.sub_add_cancel this]
  simp only [Gen.Crp.ln_f_Partition, Gen.Partition.get_counts, Gen.Partition.k, Gen.Partition.len,
    Spec.Crp.lnPmf, mulAdd, R.add_val, R.sub_val, R.mul_val, R.ln_val, R.lgamma_val, R.ofNatR_val]
  rw [h1, h2, h3, hlen]
  norm_num
  ring_nf

example : ∃ (d : Gen.Crp R) (x : Gen.Partition R), 0 < d.n ∧ 0 < d.alpha.val ∧ x.z.length = d.n ∧
    (∀ c ∈ x.counts, 1 ≤ c) ∧ x.counts.sum = d.n :=
  ⟨⟨⟨1.5⟩, 3⟩, ⟨[0, 1, 0], [2, 1]⟩, by simp, by simp; norm_num, by simp, by simp, by simp⟩

/-- `Crp::supports` accepts every partition, also of a number of items different from `n`
    (and `ln_f` uses `x.len()`, never `self.n`): `Crp::new(1.0, 3).supports(&partition of 1 item)` is true. -/
-- @site Crp.supports_Partition
theorem Crp_supports_ignores_n_counterexample :
    Gen.Crp.supports_Partition (⟨⟨1⟩, 3⟩ : Gen.Crp R) (⟨[0], [1]⟩ : Gen.Partition R) = true := rfl

/-! ### Bridges: the `Spec` formulas (written with ln Γ) are the logarithms of the elementary textbook
    mass functions (written with powers, factorials and binomial coefficients) -/

private theorem fact_pos' (m : ℕ) : (0:ℝ) < (m.factorial : ℝ) := by exact_mod_cast m.factorial_pos

theorem Binomial_spec_is_textbook (d : Gen.Binomial R) (k : Nat) (hp0 : 0 < d.p.val) (hp1 : d.p.val < 1)
    (hk : k ≤ d.n) :
    (Spec.Binomial.lnPmf d k).val
      = Real.log ((d.n.choose k : ℝ) * d.p.val ^ k * (1 - d.p.val) ^ (d.n - k)) := by
  have hq : 0 < 1 - d.p.val := by linarith
  have h1 := fact_pos' d.n
  have h2 := fact_pos' k
  have h3 := fact_pos' (d.n - k)
  rw [Nat.cast_choose ℝ hk, Real.log_mul (by positivity) (by positivity),
    Real.log_mul (by positivity) (by positivity), Real.log_div (by positivity) (by positivity),
    Real.log_mul (by positivity) (by positivity), Real.log_pow, Real.log_pow]
  simp only [Spec.Binomial.lnPmf, Spec.lnChoose, Spec.lnFactorial, if_pos hk, R.add_val, R.sub_val,
    R.mul_val, R.ln_val, R.lgamma_val, R.ofNatR_val, R.sci_val]
  push_cast
  rw [Real.Gamma_nat_eq_factorial, Real.Gamma_nat_eq_factorial, Real.Gamma_nat_eq_factorial]
  norm_num
  ring

theorem Poisson_spec_is_textbook (d : Gen.Poisson R) (k : Nat) (hr : 0 < d.rate.val) :
    (Spec.Poisson.lnPmf d k).val
      = Real.log (Real.exp (-d.rate.val) * d.rate.val ^ k / (k.factorial : ℝ)) := by
  have h2 := fact_pos' k
  rw [Real.log_div (by positivity) (by positivity), Real.log_mul (by positivity) (by positivity),
    Real.log_exp, Real.log_pow]
  simp only [Spec.Poisson.lnPmf, Spec.lnFactorial, R.sub_val, R.mul_val, R.ln_val, R.lgamma_val,
    R.ofNatR_val]
  push_cast
  rw [Real.Gamma_nat_eq_factorial]
  ring

theorem Geometric_spec_is_textbook (d : Gen.Geometric R) (k : Nat) (hp0 : 0 < d.p.val) (hp1 : d.p.val < 1) :
    (Spec.Geometric.lnPmf d k).val = Real.log ((1 - d.p.val) ^ k * d.p.val) := by
  have hq : 0 < 1 - d.p.val := by linarith
  rw [Real.log_mul (by positivity) (by positivity), Real.log_pow]
  simp only [Spec.Geometric.lnPmf, R.add_val, R.sub_val, R.mul_val, R.ln_val, R.ofNatR_val, R.sci_val]
  norm_num

/-- integer r ≥ 1: P(k) = C(k + r − 1, r − 1) p^r (1 − p)^k -/
theorem NegBinomial_spec_is_textbook (d : Gen.NegBinomial R) (r k : Nat) (hr : 1 ≤ r) (hdr : d.r.val = r)
    (hp0 : 0 < d.p.val) (hp1 : d.p.val < 1) :
    (Spec.NegBinomial.lnPmf d k).val
      = Real.log (((k + r - 1).choose (r - 1) : ℝ) * d.p.val ^ r * (1 - d.p.val) ^ k) := by
  have hq : 0 < 1 - d.p.val := by linarith
  obtain ⟨s, rfl⟩ : ∃ s, r = s + 1 := ⟨r - 1, by omega⟩
  have hle : s ≤ k + s := by omega
  have h1 := fact_pos' (k + s)
  have h2 := fact_pos' k
  have h3 := fact_pos' s
  have e1 : k + (s + 1) - 1 = k + s := by omega
  have e2 : s + 1 - 1 = s := by omega
  have e3 : k + s - s = k := by omega
  rw [e1, e2, Nat.cast_choose ℝ hle, e3, Real.log_mul (by positivity) (by positivity),
    Real.log_mul (by positivity) (by positivity), Real.log_div (by positivity) (by positivity),
    Real.log_mul (by positivity) (by positivity), Real.log_pow, Real.log_pow]
  simp only [Spec.NegBinomial.lnPmf, Spec.lnFactorial, R.add_val, R.sub_val, R.mul_val, R.ln_val,
    R.lgamma_val, R.ofNatR_val, R.sci_val, hdr]
  have g1 : Real.Gamma ((k : ℝ) + ((s + 1 : ℕ) : ℝ)) = ((k + s).factorial : ℝ) := by
    rw [← Real.Gamma_nat_eq_factorial]; push_cast; ring_nf
  have g2 : Real.Gamma (((s + 1 : ℕ) : ℝ)) = (s.factorial : ℝ) := by
    rw [← Real.Gamma_nat_eq_factorial]; push_cast; ring_nf
  have g3 : Real.Gamma (((k + 1 : ℕ) : ℝ)) = (k.factorial : ℝ) := by
    rw [← Real.Gamma_nat_eq_factorial]; push_cast; ring_nf
  rw [g1, g2, g3]
  norm_num
  ring

/-- EPPF of the Chinese restaurant process -/
theorem Crp_spec_is_textbook (d : Gen.Crp R) (x : Gen.Partition R) (ha : 0 < d.alpha.val) :
    (Spec.Crp.lnPmf d x).val
      = Real.log (d.alpha.val ^ x.counts.length * ((x.counts.map (fun c => ((c - 1).factorial : ℝ))).prod)
          * Real.Gamma d.alpha.val / Real.Gamma (d.alpha.val + d.n)) := by
  have hprod : (0:ℝ) < (x.counts.map (fun c => ((c - 1).factorial : ℝ))).prod := by
    apply List.prod_pos
    intro a ha'
    obtain ⟨c, _, rfl⟩ := List.mem_map.mp ha'
    exact fact_pos' _
  have hg1 : 0 < Real.Gamma d.alpha.val := Real.Gamma_pos_of_pos ha
  have hg2 : 0 < Real.Gamma (d.alpha.val + d.n) := Real.Gamma_pos_of_pos (by positivity)
  have hl : Real.log ((x.counts.map (fun c => ((c - 1).factorial : ℝ))).prod)
      = (x.counts.map (fun c => Real.log ((c - 1).factorial : ℝ))).sum := by
    rw [Real.log_list_prod]
    · rw [List.map_map]; rfl
    · intro a ha'
      obtain ⟨c, _, rfl⟩ := List.mem_map.mp ha'
      exact (fact_pos' _).ne'
  have h2 := sumL_map_val (fun c : Nat => (Spec.lnFactorial (c - 1) : R)) x.counts
  have h3 : x.counts.map (fun c : Nat => ((Spec.lnFactorial (c - 1) : R)).val)
      = x.counts.map (fun c => Real.log ((c - 1).factorial : ℝ)) := by
    apply List.map_congr_left
    intro c _
    simp only [Spec.lnFactorial, R.lgamma_val, R.ofNatR_val]
    push_cast
    rw [Real.Gamma_nat_eq_factorial]
  rw [Real.log_div (by positivity) (by positivity), Real.log_mul (by positivity) (by positivity),
    Real.log_mul (by positivity) (by positivity), Real.log_pow, hl]
  simp only [Spec.Crp.lnPmf, R.add_val, R.sub_val, R.mul_val, R.ln_val, R.lgamma_val, R.ofNatR_val]
  rw [h2, h3]

end C01

#print axioms C01.Bernoulli_ln_f_bool
#print axioms C01.Bernoulli_ln_f_nat
#print axioms C01.Bernoulli_ln_f_nat_one_eq_bool_true
#print axioms C01.Bernoulli_ln_f_nat_zero_eq_bool_false
#print axioms C01.Binomial_ln_f_nat
#print axioms C01.Binomial_ln_f_int
#print axioms C01.Binomial_ln_f_int_eq_nat
#print axioms C01.Binomial_ln_f_boundary_partial
#print axioms C01.Binomial_supports_nat
#print axioms C01.Binomial_supports_nat_counterexample
#print axioms C01.Binomial_supports_int
#print axioms C01.Binomial_supports_int_counterexample
#print axioms C01.BetaBinomial_ln_f_nat
#print axioms C01.BetaBinomial_ln_f_int
#print axioms C01.BetaBinomial_supports_nat
#print axioms C01.BetaBinomial_supports_nat_counterexample
#print axioms C01.BetaBinomial_supports_int
#print axioms C01.Poisson_ln_f_nat_rel_ln_fact
#print axioms C01.Poisson_ln_f_nat_given_ln_fact
#print axioms C01.Poisson_ln_f_nat_given_ln_fact_approx
#print axioms C01.Geometric_ln_f_nat
#print axioms C01.Geometric_ln_f_boundary_partial
#print axioms C01.NegBinomial_ln_f_nat
#print axioms C01.NegBinomial_ln_f_boundary_partial
#print axioms C01.Categorical_ln_f_nat
#print axioms C01.Categorical_ln_f_bool
#print axioms C01.Categorical_ln_f_bool_true_eq_nat_one
#print axioms C01.Categorical_ln_f_bool_false_eq_nat_zero
#print axioms C01.DiscreteUniform_ln_f_on_support
#print axioms C01.DiscreteUniform_ln_f_never_textbook
#print axioms C01.DiscreteUniform_ln_f_counterexample
#print axioms C01.Dirichlet_ln_f
#print axioms C01.SymmetricDirichlet_ln_f
#print axioms C01.Crp_ln_f
#print axioms C01.Crp_supports_ignores_n_counterexample
#print axioms C01.Binomial_spec_is_textbook
#print axioms C01.Poisson_spec_is_textbook
#print axioms C01.Geometric_spec_is_textbook
#print axioms C01.NegBinomial_spec_is_textbook
#print axioms C01.Crp_spec_is_textbook
