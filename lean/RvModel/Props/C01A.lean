import RvModel.RealInst
import RvModel.Spec.C01A
import Mathlib.Probability.Distributions.Gaussian.Real
/-!
  C01 (group A): every generated `ln_f` equals the textbook log-density on the support, for all valid
  parameters, over exact reals.  `-- @site` names the generated definition a theorem is about.
-/
open Real ProbabilityTheory

namespace C01

-- @site Gaussian.ln_f_real
theorem Gaussian_ln_f (d : Gen.Gaussian R) (x : R) (hσ : 0 < d.sigma.val) :
    (Gen.Gaussian.ln_f_real d x).val = (Spec.Gaussian.lnPdf d x).val := by
  have h : d.sigma.val ≠ 0 := ne_of_gt hσ
  simp only [Gen.Gaussian.ln_f_real, Gen.Gaussian.ln_sigma, Spec.Gaussian.lnPdf, mulAdd, R.add_val, R.sub_val,
    R.mul_val, R.div_val, R.neg_val, R.ln_val, R.sci_val, R.halfLn2Pi_val]
  norm_num
  field_simp
  ring

/-- bridge: the textbook formula is the log of Mathlib's Gaussian density with variance σ² -/
theorem Gaussian_spec_is_mathlib (d : Gen.Gaussian R) (x : R) (v : NNReal) (hσ : 0 < d.sigma.val)
    (hv : (v : ℝ) = d.sigma.val ^ 2) :
    (Spec.Gaussian.lnPdf d x).val = Real.log (gaussianPDFReal d.mu.val v x.val) := by
  have hpi : (0:ℝ) < 2 * π := by positivity
  have hs2 : (0:ℝ) < d.sigma.val ^ 2 := by positivity
  unfold gaussianPDFReal
  rw [hv, Real.log_mul (by positivity) (by positivity), Real.log_exp, Real.log_inv,
    Real.log_sqrt (by positivity), Real.log_mul (by positivity) (by positivity), Real.log_pow]
  simp only [Spec.Gaussian.lnPdf, R.add_val, R.sub_val, R.mul_val, R.div_val, R.neg_val, R.ln_val, R.sci_val,
    R.halfLn2Pi_val]
  norm_num
  ring

example : (0:ℝ) < (⟨⟨0⟩, ⟨2⟩⟩ : Gen.Gaussian R).sigma.val := by norm_num

end C01

#print axioms C01.Gaussian_ln_f
#print axioms C01.Gaussian_spec_is_mathlib
