import RvModel.RealInst
import RvModel.Gen.Defs
import RvModel.Spec.C08
import RvModel.Lemmas.C08
/-!
  C08 (part A): mean, variance, skewness, kurtosis of every distribution equal the textbook closed forms of
  Spec/C08.lean over exact reals, including the existence clause.

  Uniform style.  The summaries are `Option R`; theorems compare them through `.val`:
      `(Gen.D.s d).map R.val = (Spec.D.s d).map R.val`
  under the validity hypotheses the checked constructor enforces.  For the summaries that have an existence
  condition there is in addition
      `D_s_none_iff : Gen.D.s d = none ↔ ¬ (existence condition)`       (None exactly when there is no finite value)
      `D_s_ne_none`                                                       (summaries rendered as Some(∞))
      `D_s_inf : (infinite regime) → Gen.D.s d = some posInf ∧ Spec.D.s d = some posInf`
  The constant `posInf` is junk on `R`; it only occurs *symbolically* in the `_inf` theorems (same branch taken by
  model and Spec); the main equalities carry a hypothesis `hfin` that excludes the infinite regime whenever the
  summary is rendered `Some(∞)` there, so no arithmetic is ever done on `posInf`.
  Confirmed (unrepaired) defects of the code (Skellam.kurtosis, DiscreteUniform.kurtosis) are in
  Props/C08B.lean as `_counterexample`.
-/
open Real
set_option linter.unusedVariables false
set_option linter.unusedTactic false
set_option linter.unusedSimpArgs false

namespace C08

-- @site Bernoulli.mean_real
theorem Bernoulli_mean (d : Gen.Bernoulli R) :
    (Gen.Bernoulli.mean_real d).map R.val = (Spec.Bernoulli.mean d).map R.val := by
  simp only [Gen.Bernoulli.mean_real, Spec.Bernoulli.mean]
  c08_close
noncomputable example : Gen.Bernoulli R := ⟨⟨1/3⟩⟩

-- @site Bernoulli.variance_real
theorem Bernoulli_variance (d : Gen.Bernoulli R) :
    (Gen.Bernoulli.variance_real d).map R.val = (Spec.Bernoulli.variance d).map R.val := by
  simp only [Gen.Bernoulli.variance_real, Spec.Bernoulli.variance]
  c08_close
noncomputable example : Gen.Bernoulli R := ⟨⟨1/3⟩⟩

-- @site Bernoulli.skewness
theorem Bernoulli_skewness (d : Gen.Bernoulli R) (hp0 : 0 < d.p.val) (hp1 : d.p.val < 1) :
    (Gen.Bernoulli.skewness d).map R.val = (Spec.Bernoulli.skewness d).map R.val := by
  simp only [Gen.Bernoulli.skewness, Spec.Bernoulli.skewness, Gen.Bernoulli.q]
  c08_close
example : 0 < (⟨⟨1/3⟩⟩ : Gen.Bernoulli R).p.val ∧ (⟨⟨1/3⟩⟩ : Gen.Bernoulli R).p.val < 1 := by norm_num

-- @site Bernoulli.kurtosis
theorem Bernoulli_kurtosis (d : Gen.Bernoulli R) (hp0 : 0 < d.p.val) (hp1 : d.p.val < 1) :
    (Gen.Bernoulli.kurtosis d).map R.val = (Spec.Bernoulli.kurtosis d).map R.val := by
  simp only [Gen.Bernoulli.kurtosis, Spec.Bernoulli.kurtosis, Gen.Bernoulli.q]
  have h1 : (1:ℝ) - d.p.val ≠ 0 := by linarith
  have h0 : d.p.val ≠ 0 := hp0.ne'
  c08_close
example : 0 < (⟨⟨1/3⟩⟩ : Gen.Bernoulli R).p.val ∧ (⟨⟨1/3⟩⟩ : Gen.Bernoulli R).p.val < 1 := by norm_num

-- @site Beta.mean_real
theorem Beta_mean (d : Gen.Beta R) (halpha : 0 < d.alpha.val) (hbeta : 0 < d.beta.val) :
    (Gen.Beta.mean_real d).map R.val = (Spec.Beta.mean d).map R.val := by
  simp only [Gen.Beta.mean_real, Spec.Beta.mean]
  c08_close
example : 0 < (⟨⟨2⟩, ⟨3⟩⟩ : Gen.Beta R).alpha.val ∧ 0 < (⟨⟨2⟩, ⟨3⟩⟩ : Gen.Beta R).beta.val := by norm_num

-- @site Beta.variance_real
theorem Beta_variance (d : Gen.Beta R) (halpha : 0 < d.alpha.val) (hbeta : 0 < d.beta.val) :
    (Gen.Beta.variance_real d).map R.val = (Spec.Beta.variance d).map R.val := by
  simp only [Gen.Beta.variance_real, Spec.Beta.variance]
  c08_close
example : 0 < (⟨⟨2⟩, ⟨3⟩⟩ : Gen.Beta R).alpha.val ∧ 0 < (⟨⟨2⟩, ⟨3⟩⟩ : Gen.Beta R).beta.val := by norm_num

-- @site Beta.skewness
theorem Beta_skewness (d : Gen.Beta R) (halpha : 0 < d.alpha.val) (hbeta : 0 < d.beta.val) :
    (Gen.Beta.skewness d).map R.val = (Spec.Beta.skewness d).map R.val := by
  simp only [Gen.Beta.skewness, Spec.Beta.skewness]
  c08_close
example : 0 < (⟨⟨2⟩, ⟨3⟩⟩ : Gen.Beta R).alpha.val ∧ 0 < (⟨⟨2⟩, ⟨3⟩⟩ : Gen.Beta R).beta.val := by norm_num

-- @site Beta.kurtosis
theorem Beta_kurtosis (d : Gen.Beta R) (halpha : 0 < d.alpha.val) (hbeta : 0 < d.beta.val) :
    (Gen.Beta.kurtosis d).map R.val = (Spec.Beta.kurtosis d).map R.val := by
  simp only [Gen.Beta.kurtosis, Spec.Beta.kurtosis]
  c08_close
example : 0 < (⟨⟨2⟩, ⟨3⟩⟩ : Gen.Beta R).alpha.val ∧ 0 < (⟨⟨2⟩, ⟨3⟩⟩ : Gen.Beta R).beta.val := by norm_num

-- @site BetaBinomial.mean_real
theorem BetaBinomial_mean (d : Gen.BetaBinomial R) (halpha : 0 < d.alpha.val) (hbeta : 0 < d.beta.val) :
    (Gen.BetaBinomial.mean_real d).map R.val = (Spec.BetaBinomial.mean d).map R.val := by
  simp only [Gen.BetaBinomial.mean_real, Spec.BetaBinomial.mean]
  c08_close
example : 0 < (⟨5, ⟨2⟩, ⟨3⟩⟩ : Gen.BetaBinomial R).alpha.val ∧ 0 < (⟨5, ⟨2⟩, ⟨3⟩⟩ : Gen.BetaBinomial R).beta.val := by norm_num

-- @site BetaBinomial.variance_real
theorem BetaBinomial_variance (d : Gen.BetaBinomial R) (halpha : 0 < d.alpha.val) (hbeta : 0 < d.beta.val) :
    (Gen.BetaBinomial.variance_real d).map R.val = (Spec.BetaBinomial.variance d).map R.val := by
  simp only [Gen.BetaBinomial.variance_real, Spec.BetaBinomial.variance]
  c08_close
example : 0 < (⟨5, ⟨2⟩, ⟨3⟩⟩ : Gen.BetaBinomial R).alpha.val ∧ 0 < (⟨5, ⟨2⟩, ⟨3⟩⟩ : Gen.BetaBinomial R).beta.val := by norm_num

-- @site Binomial.mean_real
theorem Binomial_mean (d : Gen.Binomial R) :
    (Gen.Binomial.mean_real d).map R.val = (Spec.Binomial.mean d).map R.val := by
  simp only [Gen.Binomial.mean_real, Spec.Binomial.mean]
  c08_close
noncomputable example : Gen.Binomial R := ⟨5, ⟨1/3⟩⟩

-- @site Binomial.variance_real
theorem Binomial_variance (d : Gen.Binomial R) :
    (Gen.Binomial.variance_real d).map R.val = (Spec.Binomial.variance d).map R.val := by
  simp only [Gen.Binomial.variance_real, Spec.Binomial.variance]
  c08_close
noncomputable example : Gen.Binomial R := ⟨5, ⟨1/3⟩⟩

-- @site Binomial.skewness
theorem Binomial_skewness (d : Gen.Binomial R) (hp0 : 0 < d.p.val) (hp1 : d.p.val < 1) :
    (Gen.Binomial.skewness d).map R.val = (Spec.Binomial.skewness d).map R.val := by
  simp only [Gen.Binomial.skewness, Spec.Binomial.skewness, Gen.Binomial.q]
  c08_close
example : 0 < (⟨5, ⟨1/3⟩⟩ : Gen.Binomial R).p.val ∧ (⟨5, ⟨1/3⟩⟩ : Gen.Binomial R).p.val < 1 := by norm_num

-- @site Binomial.kurtosis
theorem Binomial_kurtosis (d : Gen.Binomial R) (hn : 0 < d.n) (hp0 : 0 < d.p.val) (hp1 : d.p.val < 1) :
    (Gen.Binomial.kurtosis d).map R.val = (Spec.Binomial.kurtosis d).map R.val := by
  simp only [Gen.Binomial.kurtosis, Spec.Binomial.kurtosis, Gen.Binomial.q]
  have h1 : (1:ℝ) - d.p.val ≠ 0 := by linarith
  have h0 : d.p.val ≠ 0 := hp0.ne'
  have hn' : (d.n : ℝ) ≠ 0 := by exact_mod_cast hn.ne'
  c08_close
example : 0 < (⟨5, ⟨1/3⟩⟩ : Gen.Binomial R).n ∧ 0 < (⟨5, ⟨1/3⟩⟩ : Gen.Binomial R).p.val ∧ (⟨5, ⟨1/3⟩⟩ : Gen.Binomial R).p.val < 1 := by norm_num

-- @site ChiSquared.mean_real
theorem ChiSquared_mean (d : Gen.ChiSquared R) (hk : 0 < d.k.val) :
    (Gen.ChiSquared.mean_real d).map R.val = (Spec.ChiSquared.mean d).map R.val := by
  simp only [Gen.ChiSquared.mean_real, Spec.ChiSquared.mean]
  c08_close
example : 0 < (⟨⟨3⟩⟩ : Gen.ChiSquared R).k.val := by norm_num

-- @site ChiSquared.variance_real
theorem ChiSquared_variance (d : Gen.ChiSquared R) (hk : 0 < d.k.val) :
    (Gen.ChiSquared.variance_real d).map R.val = (Spec.ChiSquared.variance d).map R.val := by
  simp only [Gen.ChiSquared.variance_real, Spec.ChiSquared.variance]
  c08_close
example : 0 < (⟨⟨3⟩⟩ : Gen.ChiSquared R).k.val := by norm_num

-- @site ChiSquared.skewness
theorem ChiSquared_skewness (d : Gen.ChiSquared R) (hk : 0 < d.k.val) :
    (Gen.ChiSquared.skewness d).map R.val = (Spec.ChiSquared.skewness d).map R.val := by
  simp only [Gen.ChiSquared.skewness, Spec.ChiSquared.skewness]
  c08_close
example : 0 < (⟨⟨3⟩⟩ : Gen.ChiSquared R).k.val := by norm_num

-- @site ChiSquared.kurtosis
theorem ChiSquared_kurtosis (d : Gen.ChiSquared R) (hk : 0 < d.k.val) :
    (Gen.ChiSquared.kurtosis d).map R.val = (Spec.ChiSquared.kurtosis d).map R.val := by
  simp only [Gen.ChiSquared.kurtosis, Spec.ChiSquared.kurtosis]
  c08_close
example : 0 < (⟨⟨3⟩⟩ : Gen.ChiSquared R).k.val := by norm_num

-- @site DiscreteUniform.skewness
theorem DiscreteUniform_skewness (d : Gen.DiscreteUniform R) (hab : d.a < d.b) :
    (Gen.DiscreteUniform.skewness d).map R.val = (Spec.DiscreteUniform.skewness d).map R.val := by
  simp only [Gen.DiscreteUniform.skewness, Spec.DiscreteUniform.skewness]
  c08_close
example : (⟨0, 5⟩ : Gen.DiscreteUniform R).a < (⟨0, 5⟩ : Gen.DiscreteUniform R).b := by norm_num

-- @site Empirical.mean_real
theorem Empirical_mean (d : Gen.Empirical R) :
    (Gen.Empirical.mean_real d).map R.val = (Spec.Empirical.mean d).map R.val := by
  simp only [Gen.Empirical.mean_real, Spec.Empirical.mean]
  c08_close
noncomputable example : Gen.Empirical R := ⟨[⟨1⟩, ⟨2⟩], (⟨1⟩, ⟨2⟩)⟩

-- @site Empirical.variance_real
theorem Empirical_variance (d : Gen.Empirical R) :
    (Gen.Empirical.variance_real d).map R.val = (Spec.Empirical.variance d).map R.val := by
  simp only [Gen.Empirical.variance_real, Spec.Empirical.variance]
  simp only [Gen.Empirical.mean_real, Option.map_some]
noncomputable example : Gen.Empirical R := ⟨[⟨1⟩, ⟨2⟩], (⟨1⟩, ⟨2⟩)⟩

-- @site Exponential.mean_real
theorem Exponential_mean (d : Gen.Exponential R) (hrate : 0 < d.rate.val) :
    (Gen.Exponential.mean_real d).map R.val = (Spec.Exponential.mean d).map R.val := by
  simp only [Gen.Exponential.mean_real, Spec.Exponential.mean]
  c08_close
example : 0 < (⟨⟨2⟩⟩ : Gen.Exponential R).rate.val := by norm_num

-- @site Exponential.variance_real
theorem Exponential_variance (d : Gen.Exponential R) (hrate : 0 < d.rate.val) :
    (Gen.Exponential.variance_real d).map R.val = (Spec.Exponential.variance d).map R.val := by
  simp only [Gen.Exponential.variance_real, Spec.Exponential.variance]
  c08_close
example : 0 < (⟨⟨2⟩⟩ : Gen.Exponential R).rate.val := by norm_num

-- @site Exponential.skewness
theorem Exponential_skewness (d : Gen.Exponential R) (hrate : 0 < d.rate.val) :
    (Gen.Exponential.skewness d).map R.val = (Spec.Exponential.skewness d).map R.val := by
  simp only [Gen.Exponential.skewness, Spec.Exponential.skewness]
  c08_close
example : 0 < (⟨⟨2⟩⟩ : Gen.Exponential R).rate.val := by norm_num

-- @site Exponential.kurtosis
theorem Exponential_kurtosis (d : Gen.Exponential R) (hrate : 0 < d.rate.val) :
    (Gen.Exponential.kurtosis d).map R.val = (Spec.Exponential.kurtosis d).map R.val := by
  simp only [Gen.Exponential.kurtosis, Spec.Exponential.kurtosis]
  c08_close
example : 0 < (⟨⟨2⟩⟩ : Gen.Exponential R).rate.val := by norm_num

-- @site Gamma.mean_real
theorem Gamma_mean (d : Gen.Gamma R) (hshape : 0 < d.shape.val) (hrate : 0 < d.rate.val) :
    (Gen.Gamma.mean_real d).map R.val = (Spec.Gamma.mean d).map R.val := by
  simp only [Gen.Gamma.mean_real, Spec.Gamma.mean]
  c08_close
example : 0 < (⟨⟨3⟩, ⟨2⟩⟩ : Gen.Gamma R).shape.val ∧ 0 < (⟨⟨3⟩, ⟨2⟩⟩ : Gen.Gamma R).rate.val := by norm_num

-- @site Gamma.variance_real
theorem Gamma_variance (d : Gen.Gamma R) (hshape : 0 < d.shape.val) (hrate : 0 < d.rate.val) :
    (Gen.Gamma.variance_real d).map R.val = (Spec.Gamma.variance d).map R.val := by
  simp only [Gen.Gamma.variance_real, Spec.Gamma.variance]
  c08_close
example : 0 < (⟨⟨3⟩, ⟨2⟩⟩ : Gen.Gamma R).shape.val ∧ 0 < (⟨⟨3⟩, ⟨2⟩⟩ : Gen.Gamma R).rate.val := by norm_num

-- @site Gamma.skewness
theorem Gamma_skewness (d : Gen.Gamma R) (hshape : 0 < d.shape.val) (hrate : 0 < d.rate.val) :
    (Gen.Gamma.skewness d).map R.val = (Spec.Gamma.skewness d).map R.val := by
  simp only [Gen.Gamma.skewness, Spec.Gamma.skewness]
  c08_close
example : 0 < (⟨⟨3⟩, ⟨2⟩⟩ : Gen.Gamma R).shape.val ∧ 0 < (⟨⟨3⟩, ⟨2⟩⟩ : Gen.Gamma R).rate.val := by norm_num

-- @site Gamma.kurtosis
theorem Gamma_kurtosis (d : Gen.Gamma R) (hshape : 0 < d.shape.val) (hrate : 0 < d.rate.val) :
    (Gen.Gamma.kurtosis d).map R.val = (Spec.Gamma.kurtosis d).map R.val := by
  simp only [Gen.Gamma.kurtosis, Spec.Gamma.kurtosis]
  c08_close
example : 0 < (⟨⟨3⟩, ⟨2⟩⟩ : Gen.Gamma R).shape.val ∧ 0 < (⟨⟨3⟩, ⟨2⟩⟩ : Gen.Gamma R).rate.val := by norm_num

-- @site Gaussian.mean_real
theorem Gaussian_mean (d : Gen.Gaussian R) (hsigma : 0 < d.sigma.val) :
    (Gen.Gaussian.mean_real d).map R.val = (Spec.Gaussian.mean d).map R.val := by
  simp only [Gen.Gaussian.mean_real, Spec.Gaussian.mean]
  c08_close
example : 0 < (⟨⟨1⟩, ⟨2⟩⟩ : Gen.Gaussian R).sigma.val := by norm_num

-- @site Gaussian.variance_real
theorem Gaussian_variance (d : Gen.Gaussian R) (hsigma : 0 < d.sigma.val) :
    (Gen.Gaussian.variance_real d).map R.val = (Spec.Gaussian.variance d).map R.val := by
  simp only [Gen.Gaussian.variance_real, Spec.Gaussian.variance]
  c08_close
example : 0 < (⟨⟨1⟩, ⟨2⟩⟩ : Gen.Gaussian R).sigma.val := by norm_num

-- @site Gaussian.skewness
theorem Gaussian_skewness (d : Gen.Gaussian R) (hsigma : 0 < d.sigma.val) :
    (Gen.Gaussian.skewness d).map R.val = (Spec.Gaussian.skewness d).map R.val := by
  simp only [Gen.Gaussian.skewness, Spec.Gaussian.skewness]
  c08_close
example : 0 < (⟨⟨1⟩, ⟨2⟩⟩ : Gen.Gaussian R).sigma.val := by norm_num

-- @site Gaussian.kurtosis
theorem Gaussian_kurtosis (d : Gen.Gaussian R) (hsigma : 0 < d.sigma.val) :
    (Gen.Gaussian.kurtosis d).map R.val = (Spec.Gaussian.kurtosis d).map R.val := by
  simp only [Gen.Gaussian.kurtosis, Spec.Gaussian.kurtosis]
  c08_close
example : 0 < (⟨⟨1⟩, ⟨2⟩⟩ : Gen.Gaussian R).sigma.val := by norm_num

-- @site Geometric.mean_real
theorem Geometric_mean (d : Gen.Geometric R) (hp0 : 0 < d.p.val) (hp1 : d.p.val < 1) :
    (Gen.Geometric.mean_real d).map R.val = (Spec.Geometric.mean d).map R.val := by
  simp only [Gen.Geometric.mean_real, Spec.Geometric.mean]
  c08_close
example : 0 < (⟨⟨1/3⟩⟩ : Gen.Geometric R).p.val ∧ (⟨⟨1/3⟩⟩ : Gen.Geometric R).p.val < 1 := by norm_num

-- @site Geometric.variance_real
theorem Geometric_variance (d : Gen.Geometric R) (hp0 : 0 < d.p.val) (hp1 : d.p.val < 1) :
    (Gen.Geometric.variance_real d).map R.val = (Spec.Geometric.variance d).map R.val := by
  simp only [Gen.Geometric.variance_real, Spec.Geometric.variance]
  c08_close
example : 0 < (⟨⟨1/3⟩⟩ : Gen.Geometric R).p.val ∧ (⟨⟨1/3⟩⟩ : Gen.Geometric R).p.val < 1 := by norm_num

-- @site Geometric.skewness
theorem Geometric_skewness (d : Gen.Geometric R) (hp0 : 0 < d.p.val) (hp1 : d.p.val < 1) :
    (Gen.Geometric.skewness d).map R.val = (Spec.Geometric.skewness d).map R.val := by
  simp only [Gen.Geometric.skewness, Spec.Geometric.skewness]
  c08_close
example : 0 < (⟨⟨1/3⟩⟩ : Gen.Geometric R).p.val ∧ (⟨⟨1/3⟩⟩ : Gen.Geometric R).p.val < 1 := by norm_num

-- @site Geometric.kurtosis
theorem Geometric_kurtosis (d : Gen.Geometric R) (hp0 : 0 < d.p.val) (hp1 : d.p.val < 1) :
    (Gen.Geometric.kurtosis d).map R.val = (Spec.Geometric.kurtosis d).map R.val := by
  simp only [Gen.Geometric.kurtosis, Spec.Geometric.kurtosis]
  c08_close
example : 0 < (⟨⟨1/3⟩⟩ : Gen.Geometric R).p.val ∧ (⟨⟨1/3⟩⟩ : Gen.Geometric R).p.val < 1 := by norm_num

-- @site Gev.mean_real
theorem Gev_mean (d : Gen.Gev R) (hscale : 0 < d.scale.val) (hfin : d.shape.val < 1) :
    (Gen.Gev.mean_real d).map R.val = (Spec.Gev.mean d).map R.val := by
  simp only [Gen.Gev.mean_real, Spec.Gev.mean]
  c08_split
example : 0 < (⟨⟨1⟩, ⟨2⟩, ⟨1/4⟩⟩ : Gen.Gev R).scale.val ∧ (⟨⟨1⟩, ⟨2⟩, ⟨1/4⟩⟩ : Gen.Gev R).shape.val < 1 := by norm_num

-- @site Gev.variance_real
theorem Gev_variance (d : Gen.Gev R) (hscale : 0 < d.scale.val) (hfin : d.shape.val < 1 / 2) :
    (Gen.Gev.variance_real d).map R.val = (Spec.Gev.variance d).map R.val := by
  simp only [Gen.Gev.variance_real, Spec.Gev.variance]
  norm_num at hfin
  c08_split
example : 0 < (⟨⟨1⟩, ⟨2⟩, ⟨1/4⟩⟩ : Gen.Gev R).scale.val ∧ (⟨⟨1⟩, ⟨2⟩, ⟨1/4⟩⟩ : Gen.Gev R).shape.val < 1 / 2 := by norm_num

-- @site InvChiSquared.mean_real
theorem InvChiSquared_mean (d : Gen.InvChiSquared R) (hv : 0 < d.v.val) :
    (Gen.InvChiSquared.mean_real d).map R.val = (Spec.InvChiSquared.mean d).map R.val := by
  simp only [Gen.InvChiSquared.mean_real, Spec.InvChiSquared.mean, Spec.infNone]
  c08_split
example : 0 < (⟨⟨9⟩⟩ : Gen.InvChiSquared R).v.val := by norm_num

-- @site InvChiSquared.variance_real
theorem InvChiSquared_variance (d : Gen.InvChiSquared R) (hv : 0 < d.v.val) :
    (Gen.InvChiSquared.variance_real d).map R.val = (Spec.InvChiSquared.variance d).map R.val := by
  simp only [Gen.InvChiSquared.variance_real, Spec.InvChiSquared.variance, Spec.infNone]
  c08_split
example : 0 < (⟨⟨9⟩⟩ : Gen.InvChiSquared R).v.val := by norm_num

-- @site InvChiSquared.skewness
theorem InvChiSquared_skewness (d : Gen.InvChiSquared R) (hv : 0 < d.v.val) :
    (Gen.InvChiSquared.skewness d).map R.val = (Spec.InvChiSquared.skewness d).map R.val := by
  simp only [Gen.InvChiSquared.skewness, Spec.InvChiSquared.skewness, Spec.infNone]
  c08_split
example : 0 < (⟨⟨9⟩⟩ : Gen.InvChiSquared R).v.val := by norm_num

-- @site InvChiSquared.kurtosis
theorem InvChiSquared_kurtosis (d : Gen.InvChiSquared R) (hv : 0 < d.v.val) :
    (Gen.InvChiSquared.kurtosis d).map R.val = (Spec.InvChiSquared.kurtosis d).map R.val := by
  simp only [Gen.InvChiSquared.kurtosis, Spec.InvChiSquared.kurtosis, Spec.infNone]
  c08_split
example : 0 < (⟨⟨9⟩⟩ : Gen.InvChiSquared R).v.val := by norm_num

-- @site InvGamma.mean_real
theorem InvGamma_mean (d : Gen.InvGamma R) (hshape : 0 < d.shape.val) (hscale : 0 < d.scale.val) :
    (Gen.InvGamma.mean_real d).map R.val = (Spec.InvGamma.mean d).map R.val := by
  simp only [Gen.InvGamma.mean_real, Spec.InvGamma.mean, Spec.infNone]
  c08_split
example : 0 < (⟨⟨5⟩, ⟨2⟩⟩ : Gen.InvGamma R).shape.val ∧ 0 < (⟨⟨5⟩, ⟨2⟩⟩ : Gen.InvGamma R).scale.val := by norm_num

-- @site InvGamma.variance_real
theorem InvGamma_variance (d : Gen.InvGamma R) (hshape : 0 < d.shape.val) (hscale : 0 < d.scale.val) :
    (Gen.InvGamma.variance_real d).map R.val = (Spec.InvGamma.variance d).map R.val := by
  simp only [Gen.InvGamma.variance_real, Spec.InvGamma.variance, Spec.infNone]
  c08_split
example : 0 < (⟨⟨5⟩, ⟨2⟩⟩ : Gen.InvGamma R).shape.val ∧ 0 < (⟨⟨5⟩, ⟨2⟩⟩ : Gen.InvGamma R).scale.val := by norm_num

-- @site InvGamma.skewness
theorem InvGamma_skewness (d : Gen.InvGamma R) (hshape : 0 < d.shape.val) (hscale : 0 < d.scale.val) :
    (Gen.InvGamma.skewness d).map R.val = (Spec.InvGamma.skewness d).map R.val := by
  simp only [Gen.InvGamma.skewness, Spec.InvGamma.skewness, Spec.infNone]
  c08_split
example : 0 < (⟨⟨5⟩, ⟨2⟩⟩ : Gen.InvGamma R).shape.val ∧ 0 < (⟨⟨5⟩, ⟨2⟩⟩ : Gen.InvGamma R).scale.val := by norm_num

-- @site InvGamma.kurtosis
theorem InvGamma_kurtosis (d : Gen.InvGamma R) (hshape : 0 < d.shape.val) (hscale : 0 < d.scale.val) :
    (Gen.InvGamma.kurtosis d).map R.val = (Spec.InvGamma.kurtosis d).map R.val := by
  simp only [Gen.InvGamma.kurtosis, Spec.InvGamma.kurtosis, Spec.infNone]
  c08_split
example : 0 < (⟨⟨5⟩, ⟨2⟩⟩ : Gen.InvGamma R).shape.val ∧ 0 < (⟨⟨5⟩, ⟨2⟩⟩ : Gen.InvGamma R).scale.val := by norm_num

-- @site InvGaussian.mean_real
theorem InvGaussian_mean (d : Gen.InvGaussian R) (hmu : 0 < d.mu.val) (hl : 0 < d.lambda'.val) :
    (Gen.InvGaussian.mean_real d).map R.val = (Spec.InvGaussian.mean d).map R.val := by
  simp only [Gen.InvGaussian.mean_real, Spec.InvGaussian.mean]
  c08_close
example : 0 < (⟨⟨2⟩, ⟨3⟩⟩ : Gen.InvGaussian R).mu.val ∧ 0 < (⟨⟨2⟩, ⟨3⟩⟩ : Gen.InvGaussian R).lambda'.val := by norm_num

-- @site InvGaussian.variance_real
theorem InvGaussian_variance (d : Gen.InvGaussian R) (hmu : 0 < d.mu.val) (hl : 0 < d.lambda'.val) :
    (Gen.InvGaussian.variance_real d).map R.val = (Spec.InvGaussian.variance d).map R.val := by
  simp only [Gen.InvGaussian.variance_real, Spec.InvGaussian.variance]
  c08_close
example : 0 < (⟨⟨2⟩, ⟨3⟩⟩ : Gen.InvGaussian R).mu.val ∧ 0 < (⟨⟨2⟩, ⟨3⟩⟩ : Gen.InvGaussian R).lambda'.val := by norm_num

-- @site InvGaussian.skewness
theorem InvGaussian_skewness (d : Gen.InvGaussian R) (hmu : 0 < d.mu.val) (hl : 0 < d.lambda'.val) :
    (Gen.InvGaussian.skewness d).map R.val = (Spec.InvGaussian.skewness d).map R.val := by
  simp only [Gen.InvGaussian.skewness, Spec.InvGaussian.skewness]
  c08_close
example : 0 < (⟨⟨2⟩, ⟨3⟩⟩ : Gen.InvGaussian R).mu.val ∧ 0 < (⟨⟨2⟩, ⟨3⟩⟩ : Gen.InvGaussian R).lambda'.val := by norm_num

-- @site InvGaussian.kurtosis
theorem InvGaussian_kurtosis (d : Gen.InvGaussian R) (hmu : 0 < d.mu.val) (hl : 0 < d.lambda'.val) :
    (Gen.InvGaussian.kurtosis d).map R.val = (Spec.InvGaussian.kurtosis d).map R.val := by
  simp only [Gen.InvGaussian.kurtosis, Spec.InvGaussian.kurtosis]
  c08_close
example : 0 < (⟨⟨2⟩, ⟨3⟩⟩ : Gen.InvGaussian R).mu.val ∧ 0 < (⟨⟨2⟩, ⟨3⟩⟩ : Gen.InvGaussian R).lambda'.val := by norm_num

-- @site Kumaraswamy.mean_real
theorem Kumaraswamy_mean (d : Gen.Kumaraswamy R) (ha : 0 < d.a.val) (hb : 0 < d.b.val) :
    (Gen.Kumaraswamy.mean_real d).map R.val = (Spec.Kumaraswamy.mean d).map R.val := by
  simp only [Gen.Kumaraswamy.mean_real, Spec.Kumaraswamy.mean]
  c08_close
example : 0 < (⟨⟨2⟩, ⟨3⟩⟩ : Gen.Kumaraswamy R).a.val ∧ 0 < (⟨⟨2⟩, ⟨3⟩⟩ : Gen.Kumaraswamy R).b.val := by norm_num

-- @site Laplace.mean_real
theorem Laplace_mean (d : Gen.Laplace R) (hb : 0 < d.b.val) :
    (Gen.Laplace.mean_real d).map R.val = (Spec.Laplace.mean d).map R.val := by
  simp only [Gen.Laplace.mean_real, Spec.Laplace.mean]
  c08_close
example : 0 < (⟨⟨1⟩, ⟨2⟩⟩ : Gen.Laplace R).b.val := by norm_num

-- @site Laplace.variance_real
theorem Laplace_variance (d : Gen.Laplace R) (hb : 0 < d.b.val) :
    (Gen.Laplace.variance_real d).map R.val = (Spec.Laplace.variance d).map R.val := by
  simp only [Gen.Laplace.variance_real, Spec.Laplace.variance]
  c08_close
example : 0 < (⟨⟨1⟩, ⟨2⟩⟩ : Gen.Laplace R).b.val := by norm_num

-- @site Laplace.skewness
theorem Laplace_skewness (d : Gen.Laplace R) (hb : 0 < d.b.val) :
    (Gen.Laplace.skewness d).map R.val = (Spec.Laplace.skewness d).map R.val := by
  simp only [Gen.Laplace.skewness, Spec.Laplace.skewness]
  c08_close
example : 0 < (⟨⟨1⟩, ⟨2⟩⟩ : Gen.Laplace R).b.val := by norm_num

-- @site Laplace.kurtosis
theorem Laplace_kurtosis (d : Gen.Laplace R) (hb : 0 < d.b.val) :
    (Gen.Laplace.kurtosis d).map R.val = (Spec.Laplace.kurtosis d).map R.val := by
  simp only [Gen.Laplace.kurtosis, Spec.Laplace.kurtosis]
  c08_close
example : 0 < (⟨⟨1⟩, ⟨2⟩⟩ : Gen.Laplace R).b.val := by norm_num

-- @site LogNormal.mean_real
theorem LogNormal_mean (d : Gen.LogNormal R) (hsigma : 0 < d.sigma.val) :
    (Gen.LogNormal.mean_real d).map R.val = (Spec.LogNormal.mean d).map R.val := by
  simp only [Gen.LogNormal.mean_real, Spec.LogNormal.mean]
  c08_close
example : 0 < (⟨⟨1⟩, ⟨2⟩⟩ : Gen.LogNormal R).sigma.val := by norm_num

-- @site LogNormal.variance_real
theorem LogNormal_variance (d : Gen.LogNormal R) (hsigma : 0 < d.sigma.val) :
    (Gen.LogNormal.variance_real d).map R.val = (Spec.LogNormal.variance d).map R.val := by
  simp only [Gen.LogNormal.variance_real, Spec.LogNormal.variance]
  c08_close
example : 0 < (⟨⟨1⟩, ⟨2⟩⟩ : Gen.LogNormal R).sigma.val := by norm_num

-- @site LogNormal.skewness
theorem LogNormal_skewness (d : Gen.LogNormal R) (hsigma : 0 < d.sigma.val) :
    (Gen.LogNormal.skewness d).map R.val = (Spec.LogNormal.skewness d).map R.val := by
  simp only [Gen.LogNormal.skewness, Spec.LogNormal.skewness]
  c08_close
example : 0 < (⟨⟨1⟩, ⟨2⟩⟩ : Gen.LogNormal R).sigma.val := by norm_num

-- @site LogNormal.kurtosis
theorem LogNormal_kurtosis (d : Gen.LogNormal R) (hsigma : 0 < d.sigma.val) :
    (Gen.LogNormal.kurtosis d).map R.val = (Spec.LogNormal.kurtosis d).map R.val := by
  simp only [Gen.LogNormal.kurtosis, Spec.LogNormal.kurtosis]
  c08_close
example : 0 < (⟨⟨1⟩, ⟨2⟩⟩ : Gen.LogNormal R).sigma.val := by norm_num

-- @site NegBinomial.mean_real
theorem NegBinomial_mean (d : Gen.NegBinomial R) (hr : 0 < d.r.val) (hp0 : 0 < d.p.val) (hp1 : d.p.val < 1) :
    (Gen.NegBinomial.mean_real d).map R.val = (Spec.NegBinomial.mean d).map R.val := by
  simp only [Gen.NegBinomial.mean_real, Spec.NegBinomial.mean]
  c08_close
example : 0 < (⟨⟨3⟩, ⟨1/3⟩⟩ : Gen.NegBinomial R).r.val ∧ 0 < (⟨⟨3⟩, ⟨1/3⟩⟩ : Gen.NegBinomial R).p.val ∧ (⟨⟨3⟩, ⟨1/3⟩⟩ : Gen.NegBinomial R).p.val < 1 := by norm_num

-- @site NegBinomial.variance_real
theorem NegBinomial_variance (d : Gen.NegBinomial R) (hr : 0 < d.r.val) (hp0 : 0 < d.p.val) (hp1 : d.p.val < 1) :
    (Gen.NegBinomial.variance_real d).map R.val = (Spec.NegBinomial.variance d).map R.val := by
  simp only [Gen.NegBinomial.variance_real, Spec.NegBinomial.variance]
  c08_close
example : 0 < (⟨⟨3⟩, ⟨1/3⟩⟩ : Gen.NegBinomial R).r.val ∧ 0 < (⟨⟨3⟩, ⟨1/3⟩⟩ : Gen.NegBinomial R).p.val ∧ (⟨⟨3⟩, ⟨1/3⟩⟩ : Gen.NegBinomial R).p.val < 1 := by norm_num

-- @site NegBinomial.skewness
theorem NegBinomial_skewness (d : Gen.NegBinomial R) (hr : 0 < d.r.val) (hp0 : 0 < d.p.val) (hp1 : d.p.val < 1) :
    (Gen.NegBinomial.skewness d).map R.val = (Spec.NegBinomial.skewness d).map R.val := by
  simp only [Gen.NegBinomial.skewness, Spec.NegBinomial.skewness]
  c08_close
example : 0 < (⟨⟨3⟩, ⟨1/3⟩⟩ : Gen.NegBinomial R).r.val ∧ 0 < (⟨⟨3⟩, ⟨1/3⟩⟩ : Gen.NegBinomial R).p.val ∧ (⟨⟨3⟩, ⟨1/3⟩⟩ : Gen.NegBinomial R).p.val < 1 := by norm_num

-- @site NegBinomial.kurtosis
theorem NegBinomial_kurtosis (d : Gen.NegBinomial R) (hr : 0 < d.r.val) (hp0 : 0 < d.p.val) (hp1 : d.p.val < 1) :
    (Gen.NegBinomial.kurtosis d).map R.val = (Spec.NegBinomial.kurtosis d).map R.val := by
  simp only [Gen.NegBinomial.kurtosis, Spec.NegBinomial.kurtosis]
  have h1 : (1:ℝ) - d.p.val ≠ 0 := by linarith
  have hr' : d.r.val ≠ 0 := hr.ne'
  c08_close
example : 0 < (⟨⟨3⟩, ⟨1/3⟩⟩ : Gen.NegBinomial R).r.val ∧ 0 < (⟨⟨3⟩, ⟨1/3⟩⟩ : Gen.NegBinomial R).p.val ∧ (⟨⟨3⟩, ⟨1/3⟩⟩ : Gen.NegBinomial R).p.val < 1 := by norm_num

-- @site Pareto.mean_real
theorem Pareto_mean (d : Gen.Pareto R) (hshape : 0 < d.shape.val) (hscale : 0 < d.scale.val) (hfin : 1 < d.shape.val) :
    (Gen.Pareto.mean_real d).map R.val = (Spec.Pareto.mean d).map R.val := by
  simp only [Gen.Pareto.mean_real, Spec.Pareto.mean]
  c08_split
example : 0 < (⟨⟨5⟩, ⟨2⟩⟩ : Gen.Pareto R).shape.val ∧ 0 < (⟨⟨5⟩, ⟨2⟩⟩ : Gen.Pareto R).scale.val ∧ 1 < (⟨⟨5⟩, ⟨2⟩⟩ : Gen.Pareto R).shape.val := by norm_num

-- @site Pareto.variance_real
theorem Pareto_variance (d : Gen.Pareto R) (hshape : 0 < d.shape.val) (hscale : 0 < d.scale.val) (hfin : 2 < d.shape.val) :
    (Gen.Pareto.variance_real d).map R.val = (Spec.Pareto.variance d).map R.val := by
  simp only [Gen.Pareto.variance_real, Spec.Pareto.variance]
  c08_split
example : 0 < (⟨⟨5⟩, ⟨2⟩⟩ : Gen.Pareto R).shape.val ∧ 0 < (⟨⟨5⟩, ⟨2⟩⟩ : Gen.Pareto R).scale.val ∧ 2 < (⟨⟨5⟩, ⟨2⟩⟩ : Gen.Pareto R).shape.val := by norm_num

-- @site Pareto.skewness
theorem Pareto_skewness (d : Gen.Pareto R) (hshape : 0 < d.shape.val) (hscale : 0 < d.scale.val) :
    (Gen.Pareto.skewness d).map R.val = (Spec.Pareto.skewness d).map R.val := by
  simp only [Gen.Pareto.skewness, Spec.Pareto.skewness, Spec.infNone]
  c08_split
example : 0 < (⟨⟨5⟩, ⟨2⟩⟩ : Gen.Pareto R).shape.val ∧ 0 < (⟨⟨5⟩, ⟨2⟩⟩ : Gen.Pareto R).scale.val := by norm_num

-- @site Pareto.kurtosis
theorem Pareto_kurtosis (d : Gen.Pareto R) (hshape : 0 < d.shape.val) (hscale : 0 < d.scale.val) :
    (Gen.Pareto.kurtosis d).map R.val = (Spec.Pareto.kurtosis d).map R.val := by
  simp only [Gen.Pareto.kurtosis, Spec.Pareto.kurtosis, Spec.infNone]
  c08_split
example : 0 < (⟨⟨5⟩, ⟨2⟩⟩ : Gen.Pareto R).shape.val ∧ 0 < (⟨⟨5⟩, ⟨2⟩⟩ : Gen.Pareto R).scale.val := by norm_num

-- @site Poisson.mean_real
theorem Poisson_mean (d : Gen.Poisson R) (hrate : 0 < d.rate.val) :
    (Gen.Poisson.mean_real d).map R.val = (Spec.Poisson.mean d).map R.val := by
  simp only [Gen.Poisson.mean_real, Spec.Poisson.mean]
  c08_close
example : 0 < (⟨⟨3⟩⟩ : Gen.Poisson R).rate.val := by norm_num

-- @site Poisson.variance_real
theorem Poisson_variance (d : Gen.Poisson R) (hrate : 0 < d.rate.val) :
    (Gen.Poisson.variance_real d).map R.val = (Spec.Poisson.variance d).map R.val := by
  simp only [Gen.Poisson.variance_real, Spec.Poisson.variance]
  c08_close
example : 0 < (⟨⟨3⟩⟩ : Gen.Poisson R).rate.val := by norm_num

-- @site Poisson.skewness
theorem Poisson_skewness (d : Gen.Poisson R) (hrate : 0 < d.rate.val) :
    (Gen.Poisson.skewness d).map R.val = (Spec.Poisson.skewness d).map R.val := by
  simp only [Gen.Poisson.skewness, Spec.Poisson.skewness]
  c08_close
example : 0 < (⟨⟨3⟩⟩ : Gen.Poisson R).rate.val := by norm_num

-- @site Poisson.kurtosis
theorem Poisson_kurtosis (d : Gen.Poisson R) (hrate : 0 < d.rate.val) :
    (Gen.Poisson.kurtosis d).map R.val = (Spec.Poisson.kurtosis d).map R.val := by
  simp only [Gen.Poisson.kurtosis, Spec.Poisson.kurtosis]
  c08_close
example : 0 < (⟨⟨3⟩⟩ : Gen.Poisson R).rate.val := by norm_num

-- @site ScaledInvChiSquared.mean_real
theorem ScaledInvChiSquared_mean (d : Gen.ScaledInvChiSquared R) (hv : 0 < d.v.val) (ht2 : 0 < d.t2.val) :
    (Gen.ScaledInvChiSquared.mean_real d).map R.val = (Spec.ScaledInvChiSquared.mean d).map R.val := by
  simp only [Gen.ScaledInvChiSquared.mean_real, Spec.ScaledInvChiSquared.mean, Spec.infNone]
  c08_split
example : 0 < (⟨⟨9⟩, ⟨2⟩⟩ : Gen.ScaledInvChiSquared R).v.val ∧ 0 < (⟨⟨9⟩, ⟨2⟩⟩ : Gen.ScaledInvChiSquared R).t2.val := by norm_num

-- @site ScaledInvChiSquared.variance_real
theorem ScaledInvChiSquared_variance (d : Gen.ScaledInvChiSquared R) (hv : 0 < d.v.val) (ht2 : 0 < d.t2.val) :
    (Gen.ScaledInvChiSquared.variance_real d).map R.val = (Spec.ScaledInvChiSquared.variance d).map R.val := by
  simp only [Gen.ScaledInvChiSquared.variance_real, Spec.ScaledInvChiSquared.variance, Spec.infNone]
  c08_split
example : 0 < (⟨⟨9⟩, ⟨2⟩⟩ : Gen.ScaledInvChiSquared R).v.val ∧ 0 < (⟨⟨9⟩, ⟨2⟩⟩ : Gen.ScaledInvChiSquared R).t2.val := by norm_num

-- @site ScaledInvChiSquared.skewness
theorem ScaledInvChiSquared_skewness (d : Gen.ScaledInvChiSquared R) (hv : 0 < d.v.val) (ht2 : 0 < d.t2.val) :
    (Gen.ScaledInvChiSquared.skewness d).map R.val = (Spec.ScaledInvChiSquared.skewness d).map R.val := by
  simp only [Gen.ScaledInvChiSquared.skewness, Spec.ScaledInvChiSquared.skewness, Spec.infNone]
  c08_split
example : 0 < (⟨⟨9⟩, ⟨2⟩⟩ : Gen.ScaledInvChiSquared R).v.val ∧ 0 < (⟨⟨9⟩, ⟨2⟩⟩ : Gen.ScaledInvChiSquared R).t2.val := by norm_num

-- @site ScaledInvChiSquared.kurtosis
theorem ScaledInvChiSquared_kurtosis (d : Gen.ScaledInvChiSquared R) (hv : 0 < d.v.val) (ht2 : 0 < d.t2.val) :
    (Gen.ScaledInvChiSquared.kurtosis d).map R.val = (Spec.ScaledInvChiSquared.kurtosis d).map R.val := by
  simp only [Gen.ScaledInvChiSquared.kurtosis, Spec.ScaledInvChiSquared.kurtosis, Spec.infNone]
  c08_split
example : 0 < (⟨⟨9⟩, ⟨2⟩⟩ : Gen.ScaledInvChiSquared R).v.val ∧ 0 < (⟨⟨9⟩, ⟨2⟩⟩ : Gen.ScaledInvChiSquared R).t2.val := by norm_num

-- @site Skellam.mean_real
theorem Skellam_mean (d : Gen.Skellam R) (h1 : 0 < d.mu_1.val) (h2 : 0 < d.mu_2.val) :
    (Gen.Skellam.mean_real d).map R.val = (Spec.Skellam.mean d).map R.val := by
  simp only [Gen.Skellam.mean_real, Spec.Skellam.mean]
  c08_close
example : 0 < (⟨⟨2⟩, ⟨3⟩⟩ : Gen.Skellam R).mu_1.val ∧ 0 < (⟨⟨2⟩, ⟨3⟩⟩ : Gen.Skellam R).mu_2.val := by norm_num

-- @site Skellam.variance_real
theorem Skellam_variance (d : Gen.Skellam R) (h1 : 0 < d.mu_1.val) (h2 : 0 < d.mu_2.val) :
    (Gen.Skellam.variance_real d).map R.val = (Spec.Skellam.variance d).map R.val := by
  simp only [Gen.Skellam.variance_real, Spec.Skellam.variance]
  c08_close
example : 0 < (⟨⟨2⟩, ⟨3⟩⟩ : Gen.Skellam R).mu_1.val ∧ 0 < (⟨⟨2⟩, ⟨3⟩⟩ : Gen.Skellam R).mu_2.val := by norm_num

-- @site Skellam.skewness
theorem Skellam_skewness (d : Gen.Skellam R) (h1 : 0 < d.mu_1.val) (h2 : 0 < d.mu_2.val) :
    (Gen.Skellam.skewness d).map R.val = (Spec.Skellam.skewness d).map R.val := by
  simp only [Gen.Skellam.skewness, Spec.Skellam.skewness]
  c08_norm
  have hs : (0:ℝ) ≤ d.mu_1.val + d.mu_2.val := by linarith
  have : Real.sqrt ((d.mu_1.val + d.mu_2.val) ^ (3:ℤ)) = (d.mu_1.val + d.mu_2.val) * Real.sqrt (d.mu_1.val + d.mu_2.val) := by
    have e : (d.mu_1.val + d.mu_2.val) ^ (3:ℤ) = (d.mu_1.val + d.mu_2.val) ^ 2 * (d.mu_1.val + d.mu_2.val) := by
      rw [show (3:ℤ) = ((3:ℕ):ℤ) from rfl, zpow_natCast]; ring
    rw [e, Real.sqrt_mul (sq_nonneg _), Real.sqrt_sq hs]
  rw [this]
example : 0 < (⟨⟨2⟩, ⟨3⟩⟩ : Gen.Skellam R).mu_1.val ∧ 0 < (⟨⟨2⟩, ⟨3⟩⟩ : Gen.Skellam R).mu_2.val := by norm_num

-- @site StudentsT.mean_real
theorem StudentsT_mean (d : Gen.StudentsT R) (hv : 0 < d.v.val) :
    (Gen.StudentsT.mean_real d).map R.val = (Spec.StudentsT.mean d).map R.val := by
  simp only [Gen.StudentsT.mean_real, Spec.StudentsT.mean]
  c08_split
example : 0 < (⟨⟨5⟩⟩ : Gen.StudentsT R).v.val := by norm_num

-- @site StudentsT.variance_real
theorem StudentsT_variance (d : Gen.StudentsT R) (hv : 0 < d.v.val) :
    (Gen.StudentsT.variance_real d).map R.val = (Spec.StudentsT.variance d).map R.val := by
  simp only [Gen.StudentsT.variance_real, Spec.StudentsT.variance, Spec.infNone]
  c08_split
example : 0 < (⟨⟨5⟩⟩ : Gen.StudentsT R).v.val := by norm_num

-- @site StudentsT.skewness
theorem StudentsT_skewness (d : Gen.StudentsT R) (hv : 0 < d.v.val) :
    (Gen.StudentsT.skewness d).map R.val = (Spec.StudentsT.skewness d).map R.val := by
  simp only [Gen.StudentsT.skewness, Spec.StudentsT.skewness]
  c08_split
example : 0 < (⟨⟨5⟩⟩ : Gen.StudentsT R).v.val := by norm_num

-- @site StudentsT.kurtosis
theorem StudentsT_kurtosis (d : Gen.StudentsT R) (hv : 0 < d.v.val) (hfin : 4 < d.v.val ∨ d.v.val ≤ 2) :
    (Gen.StudentsT.kurtosis d).map R.val = (Spec.StudentsT.kurtosis d).map R.val := by
  simp only [Gen.StudentsT.kurtosis, Spec.StudentsT.kurtosis]
  c08_norm
  norm_num1
  split_ifs with h4 h2
  · simp
  · exfalso; rcases hfin with h | h <;> linarith
  · simp
example : 0 < (⟨⟨5⟩⟩ : Gen.StudentsT R).v.val ∧ 4 < (⟨⟨5⟩⟩ : Gen.StudentsT R).v.val ∨ (⟨⟨5⟩⟩ : Gen.StudentsT R).v.val ≤ 2 := by norm_num

-- @site Uniform.mean_real
theorem Uniform_mean (d : Gen.Uniform R) (hab : d.a.val < d.b.val) :
    (Gen.Uniform.mean_real d).map R.val = (Spec.Uniform.mean d).map R.val := by
  simp only [Gen.Uniform.mean_real, Spec.Uniform.mean]
  c08_close
example : (⟨⟨1⟩, ⟨3⟩⟩ : Gen.Uniform R).a.val < (⟨⟨1⟩, ⟨3⟩⟩ : Gen.Uniform R).b.val := by norm_num

-- @site Uniform.variance_real
theorem Uniform_variance (d : Gen.Uniform R) (hab : d.a.val < d.b.val) :
    (Gen.Uniform.variance_real d).map R.val = (Spec.Uniform.variance d).map R.val := by
  simp only [Gen.Uniform.variance_real, Spec.Uniform.variance]
  c08_close
example : (⟨⟨1⟩, ⟨3⟩⟩ : Gen.Uniform R).a.val < (⟨⟨1⟩, ⟨3⟩⟩ : Gen.Uniform R).b.val := by norm_num

-- @site Uniform.skewness
theorem Uniform_skewness (d : Gen.Uniform R) (hab : d.a.val < d.b.val) :
    (Gen.Uniform.skewness d).map R.val = (Spec.Uniform.skewness d).map R.val := by
  simp only [Gen.Uniform.skewness, Spec.Uniform.skewness]
  c08_close
example : (⟨⟨1⟩, ⟨3⟩⟩ : Gen.Uniform R).a.val < (⟨⟨1⟩, ⟨3⟩⟩ : Gen.Uniform R).b.val := by norm_num

-- @site Uniform.kurtosis
theorem Uniform_kurtosis (d : Gen.Uniform R) (hab : d.a.val < d.b.val) :
    (Gen.Uniform.kurtosis d).map R.val = (Spec.Uniform.kurtosis d).map R.val := by
  simp only [Gen.Uniform.kurtosis, Spec.Uniform.kurtosis]
  c08_close
example : (⟨⟨1⟩, ⟨3⟩⟩ : Gen.Uniform R).a.val < (⟨⟨1⟩, ⟨3⟩⟩ : Gen.Uniform R).b.val := by norm_num

-- @site UnitPowerLaw.mean_real
theorem UnitPowerLaw_mean (d : Gen.UnitPowerLaw R) (halpha : 0 < d.alpha.val) :
    (Gen.UnitPowerLaw.mean_real d).map R.val = (Spec.UnitPowerLaw.mean d).map R.val := by
  simp only [Gen.UnitPowerLaw.mean_real, Spec.UnitPowerLaw.mean]
  c08_close
example : 0 < (⟨⟨2⟩⟩ : Gen.UnitPowerLaw R).alpha.val := by norm_num

-- @site UnitPowerLaw.variance_real
theorem UnitPowerLaw_variance (d : Gen.UnitPowerLaw R) (halpha : 0 < d.alpha.val) :
    (Gen.UnitPowerLaw.variance_real d).map R.val = (Spec.UnitPowerLaw.variance d).map R.val := by
  simp only [Gen.UnitPowerLaw.variance_real, Spec.UnitPowerLaw.variance]
  c08_close
example : 0 < (⟨⟨2⟩⟩ : Gen.UnitPowerLaw R).alpha.val := by norm_num

-- @site UnitPowerLaw.skewness
theorem UnitPowerLaw_skewness (d : Gen.UnitPowerLaw R) (halpha : 0 < d.alpha.val) :
    (Gen.UnitPowerLaw.skewness d).map R.val = (Spec.UnitPowerLaw.skewness d).map R.val := by
  simp only [Gen.UnitPowerLaw.skewness, Spec.UnitPowerLaw.skewness]
  c08_close
example : 0 < (⟨⟨2⟩⟩ : Gen.UnitPowerLaw R).alpha.val := by norm_num

-- @site UnitPowerLaw.kurtosis
theorem UnitPowerLaw_kurtosis (d : Gen.UnitPowerLaw R) (halpha : 0 < d.alpha.val) :
    (Gen.UnitPowerLaw.kurtosis d).map R.val = (Spec.UnitPowerLaw.kurtosis d).map R.val := by
  simp only [Gen.UnitPowerLaw.kurtosis, Spec.UnitPowerLaw.kurtosis]
  c08_close
example : 0 < (⟨⟨2⟩⟩ : Gen.UnitPowerLaw R).alpha.val := by norm_num

-- @site VonMises.mean_real
theorem VonMises_mean (d : Gen.VonMises R) (hk : 0 < d.k.val) :
    (Gen.VonMises.mean_real d).map R.val = (Spec.VonMises.mean d).map R.val := by
  simp only [Gen.VonMises.mean_real, Spec.VonMises.mean]
  c08_close
example : 0 < (⟨⟨1⟩, ⟨2⟩, ⟨RealLike.bessI0 (⟨2⟩ : R) |>.val⟩⟩ : Gen.VonMises R).k.val := by norm_num

-- @site VonMises.variance_real
theorem VonMises_variance (d : Gen.VonMises R) (hk : 0 < d.k.val) (hi : d.i0_k.val = R.bessIR 0 d.k.val) :
    (Gen.VonMises.variance_real d).map R.val = (Spec.VonMises.variance d).map R.val := by
  simp only [Gen.VonMises.variance_real, Spec.VonMises.variance]
  c08_norm
  rw [hi]
  c08_close
example : 0 < (⟨⟨1⟩, ⟨2⟩, ⟨RealLike.bessI0 (⟨2⟩ : R) |>.val⟩⟩ : Gen.VonMises R).k.val ∧ (⟨⟨1⟩, ⟨2⟩, ⟨RealLike.bessI0 (⟨2⟩ : R) |>.val⟩⟩ : Gen.VonMises R).i0_k.val = R.bessIR 0 (⟨⟨1⟩, ⟨2⟩, ⟨RealLike.bessI0 (⟨2⟩ : R) |>.val⟩⟩ : Gen.VonMises R).k.val := by norm_num

-- existence clauses ---------------------------------------------------------------------------

-- @site StudentsT.mean_real
theorem StudentsT_mean_none_iff (d : Gen.StudentsT R) :
    Gen.StudentsT.mean_real d = none ↔ ¬ (1 < d.v.val) := by
  simp only [Gen.StudentsT.mean_real]
  c08_iff
example : ∃ d : Gen.StudentsT R, ¬ (1 < d.v.val) := ⟨⟨⟨1⟩⟩, by norm_num⟩

-- @site InvGamma.mean_real
theorem InvGamma_mean_none_iff (d : Gen.InvGamma R) :
    Gen.InvGamma.mean_real d = none ↔ ¬ (1 < d.shape.val) := by
  simp only [Gen.InvGamma.mean_real]
  c08_iff
example : ∃ d : Gen.InvGamma R, ¬ (1 < d.shape.val) := ⟨⟨⟨1⟩, ⟨1⟩⟩, by norm_num⟩

-- @site InvChiSquared.mean_real
theorem InvChiSquared_mean_none_iff (d : Gen.InvChiSquared R) :
    Gen.InvChiSquared.mean_real d = none ↔ ¬ (2 < d.v.val) := by
  simp only [Gen.InvChiSquared.mean_real]
  c08_iff
example : ∃ d : Gen.InvChiSquared R, ¬ (2 < d.v.val) := ⟨⟨⟨1⟩⟩, by norm_num⟩

-- @site ScaledInvChiSquared.mean_real
theorem ScaledInvChiSquared_mean_none_iff (d : Gen.ScaledInvChiSquared R) :
    Gen.ScaledInvChiSquared.mean_real d = none ↔ ¬ (2 < d.v.val) := by
  simp only [Gen.ScaledInvChiSquared.mean_real]
  c08_iff
example : ∃ d : Gen.ScaledInvChiSquared R, ¬ (2 < d.v.val) := ⟨⟨⟨1⟩, ⟨1⟩⟩, by norm_num⟩

-- @site StudentsT.variance_real
theorem StudentsT_variance_none_iff (d : Gen.StudentsT R) :
    Gen.StudentsT.variance_real d = none ↔ ¬ (2 < d.v.val) := by
  simp only [Gen.StudentsT.variance_real]
  c08_iff
example : ∃ d : Gen.StudentsT R, ¬ (2 < d.v.val) := ⟨⟨⟨1⟩⟩, by norm_num⟩

-- @site InvGamma.variance_real
theorem InvGamma_variance_none_iff (d : Gen.InvGamma R) :
    Gen.InvGamma.variance_real d = none ↔ ¬ (2 < d.shape.val) := by
  simp only [Gen.InvGamma.variance_real]
  c08_iff
example : ∃ d : Gen.InvGamma R, ¬ (2 < d.shape.val) := ⟨⟨⟨1⟩, ⟨1⟩⟩, by norm_num⟩

-- @site InvChiSquared.variance_real
theorem InvChiSquared_variance_none_iff (d : Gen.InvChiSquared R) :
    Gen.InvChiSquared.variance_real d = none ↔ ¬ (4 < d.v.val) := by
  simp only [Gen.InvChiSquared.variance_real]
  c08_iff
example : ∃ d : Gen.InvChiSquared R, ¬ (4 < d.v.val) := ⟨⟨⟨1⟩⟩, by norm_num⟩

-- @site ScaledInvChiSquared.variance_real
theorem ScaledInvChiSquared_variance_none_iff (d : Gen.ScaledInvChiSquared R) :
    Gen.ScaledInvChiSquared.variance_real d = none ↔ ¬ (4 < d.v.val) := by
  simp only [Gen.ScaledInvChiSquared.variance_real]
  c08_iff
example : ∃ d : Gen.ScaledInvChiSquared R, ¬ (4 < d.v.val) := ⟨⟨⟨1⟩, ⟨1⟩⟩, by norm_num⟩

-- @site StudentsT.skewness
theorem StudentsT_skewness_none_iff (d : Gen.StudentsT R) :
    Gen.StudentsT.skewness d = none ↔ ¬ (3 < d.v.val) := by
  simp only [Gen.StudentsT.skewness]
  c08_iff
example : ∃ d : Gen.StudentsT R, ¬ (3 < d.v.val) := ⟨⟨⟨1⟩⟩, by norm_num⟩

-- @site InvGamma.skewness
theorem InvGamma_skewness_none_iff (d : Gen.InvGamma R) :
    Gen.InvGamma.skewness d = none ↔ ¬ (3 < d.shape.val) := by
  simp only [Gen.InvGamma.skewness]
  c08_iff
example : ∃ d : Gen.InvGamma R, ¬ (3 < d.shape.val) := ⟨⟨⟨1⟩, ⟨1⟩⟩, by norm_num⟩

-- @site InvChiSquared.skewness
theorem InvChiSquared_skewness_none_iff (d : Gen.InvChiSquared R) :
    Gen.InvChiSquared.skewness d = none ↔ ¬ (6 < d.v.val) := by
  simp only [Gen.InvChiSquared.skewness]
  c08_iff
example : ∃ d : Gen.InvChiSquared R, ¬ (6 < d.v.val) := ⟨⟨⟨1⟩⟩, by norm_num⟩

-- @site ScaledInvChiSquared.skewness
theorem ScaledInvChiSquared_skewness_none_iff (d : Gen.ScaledInvChiSquared R) :
    Gen.ScaledInvChiSquared.skewness d = none ↔ ¬ (6 < d.v.val) := by
  simp only [Gen.ScaledInvChiSquared.skewness]
  c08_iff
example : ∃ d : Gen.ScaledInvChiSquared R, ¬ (6 < d.v.val) := ⟨⟨⟨1⟩, ⟨1⟩⟩, by norm_num⟩

-- @site InvGamma.kurtosis
theorem InvGamma_kurtosis_none_iff (d : Gen.InvGamma R) :
    Gen.InvGamma.kurtosis d = none ↔ ¬ (4 < d.shape.val) := by
  simp only [Gen.InvGamma.kurtosis]
  c08_iff
example : ∃ d : Gen.InvGamma R, ¬ (4 < d.shape.val) := ⟨⟨⟨1⟩, ⟨1⟩⟩, by norm_num⟩

-- @site InvChiSquared.kurtosis
theorem InvChiSquared_kurtosis_none_iff (d : Gen.InvChiSquared R) :
    Gen.InvChiSquared.kurtosis d = none ↔ ¬ (8 < d.v.val) := by
  simp only [Gen.InvChiSquared.kurtosis]
  c08_iff
example : ∃ d : Gen.InvChiSquared R, ¬ (8 < d.v.val) := ⟨⟨⟨1⟩⟩, by norm_num⟩

-- @site ScaledInvChiSquared.kurtosis
theorem ScaledInvChiSquared_kurtosis_none_iff (d : Gen.ScaledInvChiSquared R) :
    Gen.ScaledInvChiSquared.kurtosis d = none ↔ ¬ (8 < d.v.val) := by
  simp only [Gen.ScaledInvChiSquared.kurtosis]
  c08_iff
example : ∃ d : Gen.ScaledInvChiSquared R, ¬ (8 < d.v.val) := ⟨⟨⟨1⟩, ⟨1⟩⟩, by norm_num⟩

-- @site StudentsT.kurtosis
theorem StudentsT_kurtosis_none_iff (d : Gen.StudentsT R) :
    Gen.StudentsT.kurtosis d = none ↔ ¬ (2 < d.v.val) := by
  simp only [Gen.StudentsT.kurtosis]
  c08_iff
example : ∃ d : Gen.StudentsT R, ¬ (2 < d.v.val) := ⟨⟨⟨1⟩⟩, by norm_num⟩

-- @site Pareto.skewness
theorem Pareto_skewness_none_iff (d : Gen.Pareto R) :
    Gen.Pareto.skewness d = none ↔ ¬ (3 < d.shape.val) := by
  simp only [Gen.Pareto.skewness]
  c08_iff
example : ∃ d : Gen.Pareto R, ¬ (3 < d.shape.val) := ⟨⟨⟨1⟩, ⟨1⟩⟩, by norm_num⟩

-- @site Pareto.kurtosis
theorem Pareto_kurtosis_none_iff (d : Gen.Pareto R) :
    Gen.Pareto.kurtosis d = none ↔ ¬ (4 < d.shape.val) := by
  simp only [Gen.Pareto.kurtosis]
  c08_iff
example : ∃ d : Gen.Pareto R, ¬ (4 < d.shape.val) := ⟨⟨⟨1⟩, ⟨1⟩⟩, by norm_num⟩

-- @site Pareto.mean_real
theorem Pareto_mean_ne_none (d : Gen.Pareto R) : Gen.Pareto.mean_real d ≠ none := by
  simp only [Gen.Pareto.mean_real]
  split_ifs <;> simp
noncomputable example : Gen.Pareto R := ⟨⟨5⟩, ⟨2⟩⟩

-- @site Pareto.variance_real
theorem Pareto_variance_ne_none (d : Gen.Pareto R) : Gen.Pareto.variance_real d ≠ none := by
  simp only [Gen.Pareto.variance_real]
  split_ifs <;> simp
noncomputable example : Gen.Pareto R := ⟨⟨5⟩, ⟨2⟩⟩

-- @site Gev.mean_real
theorem Gev_mean_ne_none (d : Gen.Gev R) : Gen.Gev.mean_real d ≠ none := by
  simp only [Gen.Gev.mean_real]
  split_ifs <;> simp
noncomputable example : Gen.Gev R := ⟨⟨1⟩, ⟨2⟩, ⟨1/4⟩⟩

-- @site Gev.variance_real
theorem Gev_variance_ne_none (d : Gen.Gev R) : Gen.Gev.variance_real d ≠ none := by
  simp only [Gen.Gev.variance_real]
  split_ifs <;> simp
noncomputable example : Gen.Gev R := ⟨⟨1⟩, ⟨2⟩, ⟨1/4⟩⟩

-- @site Pareto.mean_real
theorem Pareto_mean_inf (d : Gen.Pareto R) (h : d.shape.val ≤ 1) :
    Gen.Pareto.mean_real d = some RealLike.posInf ∧ Spec.Pareto.mean d = some RealLike.posInf := by
  simp only [Gen.Pareto.mean_real, Spec.Pareto.mean, Spec.infSome]
  constructor <;> (split_ifs <;> first | rfl | (exfalso; simp_all [R.lt_iff, R.le_iff, R.feq_iff, R.sci_val]; (try norm_num at *); (try linarith)))
example : ∃ d : Gen.Pareto R, d.shape.val ≤ 1 := ⟨⟨⟨1/2⟩, ⟨2⟩⟩, by norm_num⟩

-- @site Pareto.variance_real
theorem Pareto_variance_inf (d : Gen.Pareto R) (h : d.shape.val ≤ 2) :
    Gen.Pareto.variance_real d = some RealLike.posInf ∧ Spec.Pareto.variance d = some RealLike.posInf := by
  simp only [Gen.Pareto.variance_real, Spec.Pareto.variance, Spec.infSome]
  constructor <;> (split_ifs <;> first | rfl | (exfalso; simp_all [R.lt_iff, R.le_iff, R.feq_iff, R.sci_val]; (try norm_num at *); (try linarith)))
example : ∃ d : Gen.Pareto R, d.shape.val ≤ 2 := ⟨⟨⟨3/2⟩, ⟨2⟩⟩, by norm_num⟩

-- @site StudentsT.kurtosis
theorem StudentsT_kurtosis_inf (d : Gen.StudentsT R) (h2 : 2 < d.v.val) (h4 : d.v.val ≤ 4) :
    Gen.StudentsT.kurtosis d = some RealLike.posInf ∧ Spec.StudentsT.kurtosis d = some RealLike.posInf := by
  simp only [Gen.StudentsT.kurtosis, Spec.StudentsT.kurtosis, Spec.infSome]
  constructor <;> (split_ifs <;> first | rfl | (exfalso; simp_all [R.lt_iff, R.le_iff, R.feq_iff, R.sci_val]; (try norm_num at *); (try linarith)))
example : ∃ d : Gen.StudentsT R, 2 < d.v.val ∧ d.v.val ≤ 4 := ⟨⟨⟨3⟩⟩, by norm_num⟩

-- @site Gev.mean_real
theorem Gev_mean_inf (d : Gen.Gev R) (h : 1 ≤ d.shape.val) :
    Gen.Gev.mean_real d = some RealLike.posInf ∧ Spec.Gev.mean d = some RealLike.posInf := by
  simp only [Gen.Gev.mean_real, Spec.Gev.mean, Spec.infSome]
  constructor <;> (split_ifs <;> first | rfl | (exfalso; simp_all [R.lt_iff, R.le_iff, R.feq_iff, R.sci_val]; (try norm_num at *); (try linarith)))
example : ∃ d : Gen.Gev R, 1 ≤ d.shape.val := ⟨⟨⟨0⟩, ⟨2⟩, ⟨3/2⟩⟩, by norm_num⟩

-- @site Gev.variance_real
theorem Gev_variance_inf (d : Gen.Gev R) (h : 1 / 2 ≤ d.shape.val) :
    Gen.Gev.variance_real d = some RealLike.posInf ∧ Spec.Gev.variance d = some RealLike.posInf := by
  simp only [Gen.Gev.variance_real, Spec.Gev.variance, Spec.infSome]
  constructor <;> (split_ifs <;> first | rfl | (exfalso; simp_all [R.lt_iff, R.le_iff, R.feq_iff, R.sci_val]; (try norm_num at *); (try linarith)))
example : ∃ d : Gen.Gev R, 1 / 2 ≤ d.shape.val := ⟨⟨⟨0⟩, ⟨2⟩, ⟨3/4⟩⟩, by norm_num⟩

end C08

#print axioms C08.Bernoulli_mean
#print axioms C08.Bernoulli_variance
#print axioms C08.Bernoulli_skewness
#print axioms C08.Bernoulli_kurtosis
#print axioms C08.Beta_mean
#print axioms C08.Beta_variance
#print axioms C08.Beta_skewness
#print axioms C08.Beta_kurtosis
#print axioms C08.BetaBinomial_mean
#print axioms C08.BetaBinomial_variance
#print axioms C08.Binomial_mean
#print axioms C08.Binomial_variance
#print axioms C08.Binomial_skewness
#print axioms C08.Binomial_kurtosis
#print axioms C08.ChiSquared_mean
#print axioms C08.ChiSquared_variance
#print axioms C08.ChiSquared_skewness
#print axioms C08.ChiSquared_kurtosis
#print axioms C08.DiscreteUniform_skewness
#print axioms C08.Empirical_mean
#print axioms C08.Empirical_variance
#print axioms C08.Exponential_mean
#print axioms C08.Exponential_variance
#print axioms C08.Exponential_skewness
#print axioms C08.Exponential_kurtosis
#print axioms C08.Gamma_mean
#print axioms C08.Gamma_variance
#print axioms C08.Gamma_skewness
#print axioms C08.Gamma_kurtosis
#print axioms C08.Gaussian_mean
#print axioms C08.Gaussian_variance
#print axioms C08.Gaussian_skewness
#print axioms C08.Gaussian_kurtosis
#print axioms C08.Geometric_mean
#print axioms C08.Geometric_variance
#print axioms C08.Geometric_skewness
#print axioms C08.Geometric_kurtosis
#print axioms C08.Gev_mean
#print axioms C08.Gev_variance
#print axioms C08.InvChiSquared_mean
#print axioms C08.InvChiSquared_variance
#print axioms C08.InvChiSquared_skewness
#print axioms C08.InvChiSquared_kurtosis
#print axioms C08.InvGamma_mean
#print axioms C08.InvGamma_variance
#print axioms C08.InvGamma_skewness
#print axioms C08.InvGamma_kurtosis
#print axioms C08.InvGaussian_mean
#print axioms C08.InvGaussian_variance
#print axioms C08.InvGaussian_skewness
#print axioms C08.InvGaussian_kurtosis
#print axioms C08.Kumaraswamy_mean
#print axioms C08.Laplace_mean
#print axioms C08.Laplace_variance
#print axioms C08.Laplace_skewness
#print axioms C08.Laplace_kurtosis
#print axioms C08.LogNormal_mean
#print axioms C08.LogNormal_variance
#print axioms C08.LogNormal_skewness
#print axioms C08.LogNormal_kurtosis
#print axioms C08.NegBinomial_mean
#print axioms C08.NegBinomial_variance
#print axioms C08.NegBinomial_skewness
#print axioms C08.NegBinomial_kurtosis
#print axioms C08.Pareto_mean
#print axioms C08.Pareto_variance
#print axioms C08.Pareto_skewness
#print axioms C08.Pareto_kurtosis
#print axioms C08.Poisson_mean
#print axioms C08.Poisson_variance
#print axioms C08.Poisson_skewness
#print axioms C08.Poisson_kurtosis
#print axioms C08.ScaledInvChiSquared_mean
#print axioms C08.ScaledInvChiSquared_variance
#print axioms C08.ScaledInvChiSquared_skewness
#print axioms C08.ScaledInvChiSquared_kurtosis
#print axioms C08.Skellam_mean
#print axioms C08.Skellam_variance
#print axioms C08.Skellam_skewness
#print axioms C08.StudentsT_mean
#print axioms C08.StudentsT_variance
#print axioms C08.StudentsT_skewness
#print axioms C08.StudentsT_kurtosis
#print axioms C08.Uniform_mean
#print axioms C08.Uniform_variance
#print axioms C08.Uniform_skewness
#print axioms C08.Uniform_kurtosis
#print axioms C08.UnitPowerLaw_mean
#print axioms C08.UnitPowerLaw_variance
#print axioms C08.UnitPowerLaw_skewness
#print axioms C08.UnitPowerLaw_kurtosis
#print axioms C08.VonMises_mean
#print axioms C08.VonMises_variance
#print axioms C08.StudentsT_mean_none_iff
#print axioms C08.InvGamma_mean_none_iff
#print axioms C08.InvChiSquared_mean_none_iff
#print axioms C08.ScaledInvChiSquared_mean_none_iff
#print axioms C08.StudentsT_variance_none_iff
#print axioms C08.InvGamma_variance_none_iff
#print axioms C08.InvChiSquared_variance_none_iff
#print axioms C08.ScaledInvChiSquared_variance_none_iff
#print axioms C08.StudentsT_skewness_none_iff
#print axioms C08.InvGamma_skewness_none_iff
#print axioms C08.InvChiSquared_skewness_none_iff
#print axioms C08.ScaledInvChiSquared_skewness_none_iff
#print axioms C08.InvGamma_kurtosis_none_iff
#print axioms C08.InvChiSquared_kurtosis_none_iff
#print axioms C08.ScaledInvChiSquared_kurtosis_none_iff
#print axioms C08.StudentsT_kurtosis_none_iff
#print axioms C08.Pareto_skewness_none_iff
#print axioms C08.Pareto_kurtosis_none_iff
#print axioms C08.Pareto_mean_ne_none
#print axioms C08.Pareto_variance_ne_none
#print axioms C08.Gev_mean_ne_none
#print axioms C08.Gev_variance_ne_none
#print axioms C08.Pareto_mean_inf
#print axioms C08.Pareto_variance_inf
#print axioms C08.StudentsT_kurtosis_inf
#print axioms C08.Gev_mean_inf
#print axioms C08.Gev_variance_inf
