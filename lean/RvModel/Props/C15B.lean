import RvModel.RealInst
import RvModel.ExtInst
import RvModel.Hand.Mvg
import RvModel.Lemmas.C15
import RvModel.Props.C15A
import Mathlib.LinearAlgebra.Matrix.Trace
import Mathlib.LinearAlgebra.Matrix.NonsingularInverse
import Mathlib.LinearAlgebra.Matrix.Notation
import Mathlib.Analysis.SpecialFunctions.Log.Basic
import Mathlib.Tactic.FieldSimp
import Mathlib.Tactic.Ring
import Mathlib.Tactic.Linarith
import Mathlib.Tactic.LinearCombination
import Mathlib.Tactic.FinCases
/-!
  C15 (part B): `InvWishart`, `NormalInvWishart` and the conjugate analysis NIW–MvGaussian (`dist/niw/mvg_prior.rs`),
  for EVERY dimension `d`.

  Abstract layer (`Lemmas/C15.lean`): `C15L.ANiw` with `postParams / posterior / posteriorData` (the update as the code
  computes it at `mvg_prior.rs:38-57`), `lnZ / lnM / lnPp` and `ANiw.lnF`, all through the scalar cores of `Hand/Mvg.lean`
  (`lnZCore`, `lnMCore`, `lnPpCore`, `iwLnFCore`, `lnFCore`) at the carrier `R`; `lnmv_gamma` is the GENERATED
  `Gen.lnmv_gamma` and only enters as an opaque term (its value: `C13.lnmv_gamma_eq`).
  Executable layer (`Hand.Mvg.InvWishart / NormalInvWishart`, lists): validation ladders, NaN handling, empty data.

  Bayes' rule is proved as the log-density identity `ln f_post(θ) = ln f_prior(θ) + Σ ln N(xᵢ | θ) − ln_m(x)` at every
  valid `θ = (μ, Σ)`; it needs no integral.  NOT proved (`_partial` in the sense of the guide, no theorem stated): that
  the inverse-Wishart density integrates to one, hence that `exp ln_m` IS the integral `∫ Π N(xᵢ|θ) dNIW(θ)`.
-/
open Matrix Hand.Mvg C15L Real

namespace C15
variable {d : ℕ}

/-- a concrete valid prior (d = 2) -/
noncomputable def exNiw : ANiw 2 := { mu := ![1, -2], k := 0.5, df := 3, scale := !![4, 2; 2, 10] }
theorem exNiw_valid : exNiw.Valid := by constructor <;> norm_num [exNiw]
example : ∃ p : ANiw 2, p.Valid := ⟨exNiw, exNiw_valid⟩

/-! ## the conjugate update -/

-- @site NormalInvWishart::posterior
/-- completing the square — the conjugacy core, a matrix identity:
    `κ(μ−m)(μ−m)ᵀ + n(x̄−μ)(x̄−μ)ᵀ = κₙ(μ−mₙ)(μ−mₙ)ᵀ + (κn/κₙ)(x̄−m)(x̄−m)ᵀ`, `κₙ = κ+n`, `mₙ = (κm + n x̄)/κₙ` -/
theorem niw_complete_square (κ n : ℝ) (hκn : κ + n ≠ 0) (m xbar μ : V d) :
    κ • vecMulVec (μ - m) (μ - m) + n • vecMulVec (xbar - μ) (xbar - μ)
      = (κ + n) • vecMulVec (μ - (κ + n)⁻¹ • (κ • m + n • xbar)) (μ - (κ + n)⁻¹ • (κ • m + n • xbar))
        + (κ * n / (κ + n)) • vecMulVec (xbar - m) (xbar - m) := complete_square κ n hκn m xbar μ

example : (0.5 : ℝ) + 3 ≠ 0 := by norm_num

-- @site NormalInvWishart::posterior
/-- the `.expect("Invalid posterior parameters")` never fires: the updated hyper-parameters are valid -/
theorem niw_posterior_valid (pr : ANiw d) (hpr : pr.Valid) (xs : List (V d)) : (pr.posteriorData xs).Valid :=
  posteriorData_valid pr hpr xs

-- @site NormalInvWishart::posterior
/-- the code's posterior hyper-parameters are the textbook NIW update (Murphy 2007 §9, eq. 250–254; Gelman BDA3 §3.6) -/
theorem niw_posterior_textbook (pr : ANiw d) (hpr : pr.Valid) (xs : List (V d)) (hxs : xs ≠ [])
    (n : ℝ) (xbar : V d) (hn : n = xs.length) (hxbar : xbar = n⁻¹ • xs.sum) :
    (pr.posteriorData xs).k = pr.k + n
    ∧ (pr.posteriorData xs).df = pr.df + xs.length
    ∧ (pr.posteriorData xs).mu = (pr.k + n)⁻¹ • (pr.k • pr.mu + n • xbar)
    ∧ (pr.posteriorData xs).scale
        = pr.scale + (xs.map fun x => vecMulVec (x - xbar) (x - xbar)).sum
          + (pr.k * n / (pr.k + n)) • vecMulVec (xbar - pr.mu) (xbar - pr.mu) := by
  have hk := hpr.1
  have hn0 : n ≠ 0 := by
    have : 0 < xs.length := List.length_pos_iff.mpr hxs
    rw [hn]; exact_mod_cast this.ne'
  have hn1 : (0:ℝ) ≤ n := by rw [hn]; positivity
  have hkn : pr.k + n ≠ 0 := by positivity
  rw [posteriorData_closed pr hk, sum_outer_center]
  subst hxbar
  rw [← hn]
  refine ⟨rfl, rfl, ?_, ?_⟩
  · show (pr.k + n)⁻¹ • (pr.k • pr.mu + xs.sum) = _
    rw [smul_smul, mul_inv_cancel₀ hn0, one_smul]
  · show pr.scale + (xs.map fun x => vecMulVec x x).sum + pr.k • vecMulVec pr.mu pr.mu
        - (pr.k + n) • vecMulVec ((pr.k + n)⁻¹ • (pr.k • pr.mu + xs.sum)) ((pr.k + n)⁻¹ • (pr.k • pr.mu + xs.sum)) = _
    ext i j
    simp only [vecMulVec_apply, Matrix.add_apply, Matrix.sub_apply, Matrix.smul_apply, Pi.add_apply, Pi.sub_apply,
      Pi.smul_apply, smul_eq_mul]
    field_simp
    ring

-- @site NormalInvWishart::ln_m_with_cache
/-- the marginal likelihood of no data is one -/
theorem niw_ln_m_nil (pr : ANiw d) : pr.lnM [] = 0 := by
  simp only [ANiw.lnM, posteriorData_nil, lnMCore, mulAdd, R.add_val, R.mul_val, R.neg_val, R.div_val, R.sub_val,
    R.ofNatR_val, List.length_nil, Nat.cast_zero, mul_zero, zero_div, zero_mul, sub_self, add_zero]

-- @site NormalInvWishart::ln_pp_with_cache
/-- chain rule: `ln_pp(y | D) = ln_m(D ∪ {y}) − ln_m(D)` -/
theorem niw_chain_rule (pr : ANiw d) (hpr : pr.Valid) (y : V d) (xs : List (V d)) :
    pr.lnPp y xs = pr.lnM (xs ++ [y]) - pr.lnM xs := by
  have e : (pr.posteriorData xs).posterior ((AStat.new : AStat d).observe y).n ((AStat.new : AStat d).observe y)
      = pr.posteriorData (xs ++ [y]) := by
    rw [← posteriorData_append pr hpr xs [y]]
    rfl
  simp only [ANiw.lnPp, ANiw.lnM, e, lnPpCore, lnMCore, mulAdd, R.add_val, R.mul_val, R.neg_val, R.div_val, R.sub_val,
    R.ofNatR_val, R.sci_val, R.ln2Pi_val, List.length_append, List.length_singleton]
  have h2 : (OfScientific.ofScientific 20 true 1 : ℝ) = 2 := by norm_num
  rw [h2]
  push_cast
  ring

-- @site NormalInvWishart::posterior
/-- no data: the early return gives back the prior -/
theorem niw_posterior_nil (pr : ANiw d) : pr.posteriorData [] = pr := posteriorData_nil pr

-- @site NormalInvWishart::posterior
/-- sequential updating equals batch updating (equality of all four hyper-parameters), any split incl. empty parts -/
theorem niw_posterior_sequential (pr : ANiw d) (hpr : pr.Valid) (xs ys : List (V d)) :
    (pr.posteriorData xs).posteriorData ys = pr.posteriorData (xs ++ ys) := posteriorData_append pr hpr xs ys

-- @site NormalInvWishart::posterior
/-- the `SuffStat` arm on the statistic of the data is the `Data` arm (same `n`, same statistic) -/
theorem niw_posterior_arms (pr : ANiw d) (xs : List (V d)) :
    pr.posterior (AStat.ofData xs).n (AStat.ofData xs) = pr.posteriorData xs := by
  rw [ANiw.posteriorData, (AStat.abs_ofData xs).1]

private theorem list_sum_affine {β : Type} (xs : List β) (a b : ℝ) (f : β → ℝ) :
    (xs.map fun x => a * (b + f x)).sum = a * ((xs.length : ℝ) * b + (xs.map f).sum) := by
  induction xs with
  | nil => simp
  | cons x xs ih => simp only [List.map_cons, List.sum_cons, ih, List.length_cons, Nat.cast_add, Nat.cast_one]; ring

-- @site NormalInvWishart::ln_f
/-- Bayes' rule in log form at every valid Gaussian `θ = (μ, Σ)` -/
theorem niw_bayes (pr : ANiw d) (hpr : pr.Valid) (xs : List (V d)) (θ : AMvg d) (hθ : θ.Valid)
    (inner0 innerN : AMvg d) (h0 : pr.InnerOk θ inner0) (hN : (pr.posteriorData xs).InnerOk θ innerN)
    (xinv : Mx d) (hx : xinv * θ.cov = 1) :
    (pr.posteriorData xs).lnF θ innerN xinv
      = pr.lnF θ inner0 xinv + (xs.map θ.lnF).sum - pr.lnM xs := by
  have hv := posteriorData_valid pr hpr xs
  have hk := hpr.1
  -- the quadratic / trace part
  have hM := bayes_matrix_identity pr hk xs θ.mu
  have hq : (pr.posteriorData xs).k * quadA θ.inv (θ.mu - (pr.posteriorData xs).mu)
        + trace (θ.inv * (pr.posteriorData xs).scale)
      = pr.k * quadA θ.inv (θ.mu - pr.mu) + trace (θ.inv * pr.scale)
        + (xs.map fun x => quadA θ.inv (x - θ.mu)).sum := by
    have e := sum_quadA θ.inv (xs.map fun x => x - θ.mu)
    simp only [List.map_map, Function.comp_def] at e
    have key := congrArg (fun M => trace (θ.inv * M)) hM
    simp only [Matrix.mul_add, trace_add, Matrix.mul_smul, trace_smul, smul_eq_mul] at key
    rw [e, quadA_trace, quadA_trace]
    exact key
  have e : (xs.map θ.lnF).sum
      = (xs.map fun x => (-(1/2 : ℝ)) * ((Real.log θ.cov.det + (d : ℝ) * Real.log (2 * π))
            + quadA θ.inv (x - θ.mu))).sum := by
    congr 1
    exact List.map_congr_left fun x _ => mvg_lnF_quad θ hθ x
  have hkn : (pr.posteriorData xs).k = pr.k + xs.length := by rw [posteriorData_closed pr hk]
  have hdf : (pr.posteriorData xs).df = pr.df + xs.length := by rw [posteriorData_closed pr hk]
  have hlm : pr.lnM xs = (d : ℝ) * (xs.length : ℝ) / 2 * (-Real.log (2 * π)) + ((pr.posteriorData xs).lnZ - pr.lnZ) := by
    simp only [ANiw.lnM, lnMCore, mulAdd, R.add_val, R.mul_val, R.neg_val, R.div_val, R.sub_val, R.ofNatR_val,
      R.sci_val, R.ln2Pi_val]
    have h2 : (OfScientific.ofScientific 20 true 1 : ℝ) = 2 := by norm_num
    rw [h2]
  rw [niw_lnF_closed _ hv.1 θ innerN hθ hN xinv hx, niw_lnF_closed pr hk θ inner0 hθ h0 xinv hx, e, list_sum_affine,
    hlm, niw_lnZ_closed _ hv.1, niw_lnZ_closed pr hk]
  have hdfc : ((pr.posteriorData xs).df : ℝ) = (pr.df : ℝ) + (xs.length : ℝ) := by rw [hdf]; push_cast; ring
  rw [hdfc]
  generalize (Gen.lnmv_gamma d ((RealLike.ofNatR (pr.posteriorData xs).df : R) / (2.0 : R))).val = Gn
  generalize (Gen.lnmv_gamma d ((RealLike.ofNatR pr.df : R) / (2.0 : R))).val = G0
  generalize Real.log (pr.posteriorData xs).scale.det = LPn
  generalize Real.log pr.scale.det = LP0
  generalize Real.log (pr.posteriorData xs).k = lkn
  generalize (xs.map fun x => quadA θ.inv (x - θ.mu)).sum = SQ at hq ⊢
  generalize quadA θ.inv (θ.mu - (pr.posteriorData xs).mu) = Qn at hq ⊢
  generalize trace (θ.inv * (pr.posteriorData xs).scale) = Tn at hq ⊢
  generalize (pr.posteriorData xs).k = kn at hq hkn ⊢
  linear_combination (-(1/2 : ℝ)) * hq

/-- the hypotheses of `niw_bayes` are satisfiable: inner Gaussian of `exNiw` at `θ = exMvgB` (`Σ/κ = 2Σ`) -/
noncomputable def exMvgB : AMvg 2 :=
  { mu := ![0, 1], cov := !![4, 2; 2, 10], L := !![2, 0; 1, 3], inv := !![10/36, -2/36; -2/36, 4/36] }
theorem exMvgB_valid : exMvgB.Valid := by
  refine ⟨?_, ?_, ?_, ?_⟩
  · intro i j hij; fin_cases i <;> fin_cases j <;> simp_all [exMvgB]
  · intro i; fin_cases i <;> simp [exMvgB]
  · ext i j; fin_cases i <;> fin_cases j <;> simp [exMvgB, Matrix.mul_apply, Fin.sum_univ_two] <;> norm_num
  · ext i j; fin_cases i <;> fin_cases j <;> simp [exMvgB, Matrix.mul_apply, Fin.sum_univ_two] <;> norm_num
example : ∃ θ : AMvg 2, θ.Valid ∧ ∃ xinv : Mx 2, xinv * θ.cov = 1 := ⟨exMvgB, exMvgB_valid, exMvgB.inv, exMvgB_valid.inv⟩


/-! ## InvWishart: density, mean, mode -/

-- @site InvWishart::ln_f
/-- the code's `ln_f` is the textbook inverse-Wishart log-density
    `ν/2·ln|Ψ| − (νp/2·ln 2 + ln Γ_p(ν/2)) − (ν+p+1)/2·ln|X| − ½ tr(Ψ X⁻¹)`; `ln Γ_p` is the generated `lnmv_gamma`
    (`C13.lnmv_gamma_eq`) -/
theorem iw_ln_f_eq (scale x xinv : Mx d) (df : ℕ) (hx : xinv * x = 1) :
    iwLnFA scale df x xinv
      = (df : ℝ) / 2 * Real.log scale.det
        - ((df : ℝ) * d / 2 * Real.log 2 + (Gen.lnmv_gamma d ((RealLike.ofNatR df : R) / (2.0 : R))).val)
        - ((df : ℝ) + d + 1) / 2 * Real.log x.det
        - trace (scale * x⁻¹) / 2 := by
  rw [Matrix.inv_eq_left_inv hx]
  simp only [iwLnFA, iwLnFCore, half_mul_R, mulAdd, R.add_val, R.sub_val, R.mul_val, R.neg_val, R.ln_val, R.sci_val,
    R.ofNatR_val, R.ln2_val]
  norm_num
  ring

example : ∃ x xinv : Mx 2, xinv * x = 1 := ⟨1, 1, by simp⟩

-- @site InvWishart::mean
/-- `mean = Ψ/(ν−p−1)` when `ν > p+1`, else `None`; `mode = Ψ/(ν+p+1)`; the divisors are exact -/
theorem iw_mean_mode (iw : InvWishart R) :
    (nrows iw.inv_scale + 1 < iw.df →
        iw.mean = some (iw.inv_scale.map fun r => r.map fun v => v / RealLike.ofNatR (iw.df - nrows iw.inv_scale - 1))
        ∧ ((RealLike.ofNatR (iw.df - nrows iw.inv_scale - 1) : R)).val = (iw.df : ℝ) - nrows iw.inv_scale - 1)
    ∧ (iw.df ≤ nrows iw.inv_scale + 1 → iw.mean = none)
    ∧ iw.mode = some (iw.inv_scale.map fun r => r.map fun v => v / RealLike.ofNatR (iw.df + nrows iw.inv_scale + 1))
    ∧ ((RealLike.ofNatR (iw.df + nrows iw.inv_scale + 1) : R)).val = (iw.df : ℝ) + nrows iw.inv_scale + 1 := by
  refine ⟨fun h => ⟨?_, ?_⟩, fun h => ?_, rfl, ?_⟩
  · simp [InvWishart.mean, mdivs, vdivs, h]
  · rw [R.ofNatR_val, Nat.sub_sub, Nat.cast_sub (by omega)]; push_cast; ring
  · simp [InvWishart.mean]; omega
  · rw [R.ofNatR_val]; push_cast; ring

example : ∃ iw : InvWishart R, nrows iw.inv_scale + 1 < iw.df := ⟨⟨[[⟨1⟩]], 5⟩, by simp [nrows]⟩

section Validation
variable {α : Type} [RealLike α]

/-! ## NormalInvWishart: density -/

-- @site NormalInvWishart::ln_f
/-- the code's `ln_f(θ)` is `ln N(μ | m, Σ/κ) + ln W⁻¹(Σ | Ψ, ν)`, both factors in textbook form -/
theorem niw_ln_f_eq (p : ANiw d) (θ inner : AMvg d) (hin : p.InnerOk θ inner) (xinv : Mx d)
    (hx : xinv * θ.cov = 1) :
    p.lnF θ inner xinv
      = -(1 / 2 : ℝ) * ((d : ℝ) * Real.log (2 * π) + Real.log (p.k⁻¹ • θ.cov).det
            + (θ.mu - p.mu) ⬝ᵥ ((p.k⁻¹ • θ.cov)⁻¹ *ᵥ (θ.mu - p.mu)))
        + ((p.df : ℝ) / 2 * Real.log p.scale.det
            - ((p.df : ℝ) * d / 2 * Real.log 2 + (Gen.lnmv_gamma d ((RealLike.ofNatR p.df : R) / (2.0 : R))).val)
            - ((p.df : ℝ) + d + 1) / 2 * Real.log θ.cov.det
            - trace (p.scale * θ.cov⁻¹) / 2) := by
  unfold ANiw.lnF
  rw [iw_ln_f_eq p.scale θ.cov xinv p.df hx, mvg_ln_f_eq inner hin.valid, hin.cov, hin.mu]


/-! ## validation ladders, NaN, empty data (executable model) -/

-- @site InvWishart::new
/-- `InvWishart::new` / `validate_inv_scale`: ladder -/
theorem iw_new_ladder (sc : Mat α) (df : Nat) :
    (nrows sc ≠ ncols sc →
        InvWishart.new sc df = .error (Err.mk "ScaleMatrixNotSquare" [RealLike.ofNatR (nrows sc), RealLike.ofNatR (ncols sc)]))
    ∧ (nrows sc = ncols sc → df < nrows sc →
        InvWishart.new sc df = .error (Err.mk "DfLessThanDimensions" [RealLike.ofNatR df, RealLike.ofNatR (nrows sc)]))
    ∧ (nrows sc = ncols sc → nrows sc ≤ df → InvWishart.new sc df = .ok ⟨sc, df⟩) := by
  refine ⟨fun h => ?_, fun h1 h2 => ?_, fun h1 h2 => ?_⟩
  all_goals
    simp only [InvWishart.new, validate_inv_scale, isSquare, beq_iff_eq]
    split_ifs <;> first | rfl | (exfalso; omega)

-- @site NormalInvWishart::new
/-- `NormalInvWishart::new` / `validate_params`: ladder, in the order of the code (`k`, `df`, squareness, dimension).
    The `k` test is `!(k > 0.0)` (commit 395fe75): everything that is not `> 0` — NaN included — is `KTooLow`. -/
theorem niw_new_ladder (mu : Vec α) (k : α) (df : Nat) (sc : Mat α) :
    (RealLike.gt k (0.0 : α) = false → NormalInvWishart.new mu k df sc = .error (Err.mk "KTooLow" [k]))
    ∧ (RealLike.gt k (0.0 : α) = true → df < mu.length →
        NormalInvWishart.new mu k df sc
          = .error (Err.mk "DfLessThanDimensions" [RealLike.ofNatR df, RealLike.ofNatR mu.length]))
    ∧ (RealLike.gt k (0.0 : α) = true → mu.length ≤ df → nrows sc ≠ ncols sc →
        NormalInvWishart.new mu k df sc
          = .error (Err.mk "ScaleMatrixNotSquare" [RealLike.ofNatR (nrows sc), RealLike.ofNatR (ncols sc)]))
    ∧ (RealLike.gt k (0.0 : α) = true → mu.length ≤ df → nrows sc = ncols sc → mu.length ≠ nrows sc →
        NormalInvWishart.new mu k df sc
          = .error (Err.mk "MuScaleDimensionMismatch" [RealLike.ofNatR mu.length, RealLike.ofNatR (nrows sc)]))
    ∧ (RealLike.gt k (0.0 : α) = true → mu.length ≤ df → nrows sc = ncols sc → mu.length = nrows sc →
        NormalInvWishart.new mu k df sc = .ok ⟨mu, k, df, sc⟩) := by
  refine ⟨fun h => ?_, fun h0 h => ?_, fun h0 h1 h2 => ?_, fun h0 h1 h2 h3 => ?_, fun h0 h1 h2 h3 => ?_⟩
  all_goals
    simp only [NormalInvWishart.new, NormalInvWishart.validate_params, isSquare, beq_iff_eq]
    split_ifs <;> first | rfl | (exfalso; omega) | simp_all

-- @site NormalInvWishart::set_k
/-- `set_k`: same test -/
theorem niw_set_k_ladder (p : NormalInvWishart α) (k : α) :
    (RealLike.gt k (0.0 : α) = false → p.set_k k = .error (Err.mk "KTooLow" [k]))
    ∧ (RealLike.gt k (0.0 : α) = true → p.set_k k = .ok { p with k := k }) := by
  refine ⟨fun h => ?_, fun h => ?_⟩ <;> simp [NormalInvWishart.set_k, h]

end Validation

-- @site NormalInvWishart::new
/-- on exact reals the `k` test rejects exactly `k ≤ 0` -/
theorem niw_new_k_R (mu : Vec R) (k : R) (df : Nat) (sc : Mat R) (hk : k.val ≤ 0) :
    NormalInvWishart.new mu k df sc = .error (Err.mk "KTooLow" [k]) := by
  apply (niw_new_ladder mu k df sc).1
  show RealLike.lt (0.0 : R) k = false
  rw [R.lt_false_iff, zero_val]; exact not_lt.mpr hk

-- @site NormalInvWishart::new
/-- the `k` test on the carrier `X` (IEEE special values): passed exactly by the finite positive values and `+inf` -/
theorem niw_k_test_X (k : X) :
    RealLike.gt k (0.0 : X) = true ↔ (k = X.pinf ∨ ∃ r : ℝ, 0 < r ∧ k = X.fin r) := by
  have h0 : (0.0 : X) = X.fin 0 := by rw [X.sci_eq]; norm_num
  rw [h0]
  show RealLike.lt (X.fin 0) k = true ↔ _
  rcases k with _ | _ | _ | r <;> simp

-- @site NormalInvWishart::new
/-- REPAIRED (commit 395fe75; before: `k <= 0.0` let NaN through): `k = NaN` is rejected with `KTooLow`, whatever the other
    arguments.  Former witness `niw.new - L1 xbffe058416e06640 xNaN 2 1 1 L1 x3ff0000000000000` now ↦ `E:KTooLow`. -/
theorem niw_new_nan_k_rejected (mu : Vec X) (df : Nat) (sc : Mat X) :
    NormalInvWishart.new mu X.nan df sc = .error (Err.mk "KTooLow" [X.nan]) := by
  apply (niw_new_ladder mu X.nan df sc).1
  cases h : RealLike.gt X.nan (0.0 : X) with
  | false => rfl
  | true => rcases (niw_k_test_X X.nan).mp h with h1 | ⟨r, _, h1⟩ <;> cases h1

-- @site NormalInvWishart::new
/-- every accepted `k` is `> 0` (finite or `+inf`), in particular not NaN, not zero, not negative -/
theorem niw_new_ok_k_pos (mu : Vec X) (k : X) (df : Nat) (sc : Mat X) (p : NormalInvWishart X)
    (h : NormalInvWishart.new mu k df sc = .ok p) : k = X.pinf ∨ ∃ r : ℝ, 0 < r ∧ k = X.fin r := by
  apply (niw_k_test_X k).mp
  cases hk : RealLike.gt k (0.0 : X) with
  | true => rfl
  | false => rw [(niw_new_ladder mu k df sc).1 hk] at h; cases h

-- @site NormalInvWishart::set_k
/-- same for the setter: NaN is rejected -/
theorem niw_set_k_nan_rejected (p : NormalInvWishart X) :
    p.set_k X.nan = .error (Err.mk "KTooLow" [X.nan]) := by
  apply (niw_set_k_ladder p X.nan).1
  cases h : RealLike.gt X.nan (0.0 : X) with
  | false => rfl
  | true => rcases (niw_k_test_X X.nan).mp h with h1 | ⟨r, _, h1⟩ <;> cases h1

example : ∃ p, NormalInvWishart.new [X.fin (-1.87)] (X.fin 0.5) 2 [[X.fin 1]] = .ok p :=
  ⟨_, (niw_new_ladder _ _ _ _).2.2.2.2 ((niw_k_test_X _).mpr (Or.inr ⟨0.5, by norm_num, rfl⟩)) (by simp)
    (by simp [nrows, ncols]) (by simp [nrows])⟩

section Empty
variable {α : Type} [RealLike α]

-- @site NormalInvWishart::posterior
/-- `posterior` of no data is the prior itself (both arms), every carrier -/
theorem niw_posterior_empty_data (pr : NormalInvWishart α) : pr.posterior (.data []) = .ok pr := by
  simp [NormalInvWishart.posterior, MvgData.n]

-- @site NormalInvWishart::posterior
theorem niw_posterior_empty_stat (pr : NormalInvWishart α) (s : MvGaussianSuffStat α) (h : s.n = 0) :
    pr.posterior (.suffStat s) = .ok pr := by
  simp [NormalInvWishart.posterior, MvgData.n, h]

end Empty

-- @site NormalInvWishart::ln_m_with_cache
/-- `ln_m` of no data is `0` (executable model at the carrier `R`) -/
theorem niw_ln_m_empty (pr : NormalInvWishart R) : ∃ v, pr.ln_m (.data []) = .ok v ∧ v.val = 0 := by
  refine ⟨_, by simp [NormalInvWishart.ln_m, NormalInvWishart.ln_m_with_cache, niw_posterior_empty_data]; rfl, ?_⟩
  simp only [lnMCore, MvgData.n, NormalInvWishart.ln_m_cache, mulAdd, R.add_val, R.mul_val, R.neg_val, R.div_val,
    R.sub_val, R.ofNatR_val, List.length_nil, Nat.cast_zero, mul_zero, zero_div, zero_mul, sub_self, add_zero]

/-! ## tie: the executable `posterior` at the carrier `R` IS the abstract update -/

-- @site NormalInvWishart::posterior
/-- `SuffStat` arm: the executable model returns `Ok` (the `.expect` does not fire) with the abstract hyper-parameters -/
theorem exec_posterior_stat (p : ANiw d) (hp : p.Valid) (s : AStat d) :
    p.toExec.posterior (.suffStat s.toExec) = .ok (p.posterior s.n s).toExec := posterior_bridge p hp s

-- @site NormalInvWishart::posterior
/-- `Data` arm -/
theorem exec_posterior_data (p : ANiw d) (hp : p.Valid) (xs : List (V d)) :
    p.toExec.posterior (.data (xs.map toVec)) = .ok (p.posteriorData xs).toExec := posterior_data_bridge p hp xs

-- @site NormalInvWishart::posterior
/-- both arms agree on the executable model -/
theorem exec_posterior_arms (p : ANiw d) (hp : p.Valid) (xs : List (V d)) :
    p.toExec.posterior (.data (xs.map toVec))
      = p.toExec.posterior (.suffStat ((MvGaussianSuffStat.new d).observe_many (xs.map toVec))) := by
  rw [exec_posterior_data p hp, stat_ofData_bridge, exec_posterior_stat p hp, niw_posterior_arms]

/-! ## draws: the deterministic part of `NormalInvWishart::draw` -/

-- @site NormalInvWishart::draw
/-- the drawn mean is `μ₀ + L′z` with `L′L′ᵀ = Σ/κ` (a Gaussian built on `Σ/κ`): variates of covariance `1` give a mean of
    covariance `Σ/κ` — not `Σ/κ²` -/
theorem niw_draw_mean_cov (p : ANiw d) (θ inner : AMvg d) (hin : p.InnerOk θ inner) (z : V d) :
    inner.drawZ z = p.mu + inner.L *ᵥ z ∧ inner.L * (1 : Mx d) * inner.Lᵀ = p.k⁻¹ • θ.cov := by
  refine ⟨?_, ?_⟩
  · rw [mvg_draw_eq inner hin.valid, hin.mu]
  · rw [mvg_draw_cov inner hin.valid, hin.cov]

-- @site NormalInvWishart::draw
/-- the scaled Mahalanobis distance of the drawn mean is the squared norm of the variates, whatever `κ`:
    `κ (μ−μ₀)ᵀ Σ⁻¹ (μ−μ₀) = zᵀz` (so it is χ²_d for standard-normal `z`; the harness checks its mean `d`) -/
theorem niw_draw_mahalanobis (p : ANiw d) (hk : 0 < p.k) (θ inner : AMvg d) (hθ : θ.Valid) (hin : p.InnerOk θ inner)
    (z : V d) : p.k * quadA θ.inv (inner.drawZ z - p.mu) = z ⬝ᵥ z := by
  have hL : inner.Lᵀ * (inner.inv * inner.L) = 1 := by
    apply mul_eq_one_comm.mp
    rw [Matrix.mul_assoc, hin.valid.chol]; exact hin.valid.inv
  rw [(niw_draw_mean_cov p θ inner hin z).1, add_sub_cancel_left, ← quadA_smul, ← inner_inv hk hθ hin, quadA_eq,
    ← vecMul_transpose, ← dotProduct_mulVec, mulVec_mulVec, vecMul_transpose, mulVec_mulVec, Matrix.mul_assoc, hL,
    one_mulVec]

example : (0 : ℝ) < exNiw.k := exNiw_valid.1
end C15

#print axioms C15.exNiw_valid
#print axioms C15.niw_complete_square
#print axioms C15.niw_posterior_valid
#print axioms C15.niw_posterior_textbook
#print axioms C15.niw_ln_m_nil
#print axioms C15.niw_chain_rule
#print axioms C15.niw_posterior_nil
#print axioms C15.niw_posterior_sequential
#print axioms C15.niw_posterior_arms
#print axioms C15.niw_bayes
#print axioms C15.exMvgB_valid
#print axioms C15.iw_ln_f_eq
#print axioms C15.iw_mean_mode
#print axioms C15.niw_ln_f_eq
#print axioms C15.iw_new_ladder
#print axioms C15.niw_new_ladder
#print axioms C15.niw_new_k_R
#print axioms C15.niw_set_k_ladder
#print axioms C15.niw_k_test_X
#print axioms C15.niw_new_nan_k_rejected
#print axioms C15.niw_new_ok_k_pos
#print axioms C15.niw_set_k_nan_rejected
#print axioms C15.niw_posterior_empty_data
#print axioms C15.niw_posterior_empty_stat
#print axioms C15.niw_ln_m_empty
#print axioms C15.exec_posterior_stat
#print axioms C15.exec_posterior_data
#print axioms C15.exec_posterior_arms
#print axioms C15.niw_draw_mean_cov
#print axioms C15.niw_draw_mahalanobis
