import RvModel.RealInst
import RvModel.Gen.Defs
import RvModel.Spec.C08
import RvModel.Lemmas.C08
import RvModel.Lemmas.Erf
/-!
  C08 (part C): KL divergence, and the functional identity `cdf (median) = ½` for the closed-form CDFs.

  * `kl_sym p q = kl p q + kl q p` (trait default) for the five implementors — definitional.
  * all inequalities come from `log x ≤ x − 1`, strict for x ≠ 1.
  * Gaussian, Poisson, Exponential, Bernoulli (0 < p < 1): `kl = textbook`, `0 ≤ kl`, `kl p q = 0 ↔ p = q`
    (Exponential and Bernoulli after the repairs `fix: Exponential KL …` / `fix: Bernoulli KL …` of the crate).
  * Categorical: `kl = textbook` (list fold = Σ); non-negativity is `_partial` (only `kl p p = 0` is proved —
    Gibbs' inequality over lists needs the normalisation Σ wᵢ = 1 of both arguments and is not done).
  * median: `cdf (median d) = ½` through the *generated* cdf for Exponential, Cauchy, Laplace, Uniform,
    Kumaraswamy, Gev, LogNormal, Gaussian (Pareto has no `Median` impl in the crate).
-/
open Real
set_option linter.unusedVariables false
set_option linter.unusedTactic false
set_option linter.unusedSimpArgs false

namespace C08

/-! ## kl_sym is the sum of the two directions (trait default) -/

-- @site Gaussian.kl_sym
theorem Gaussian_kl_sym (p q : Gen.Gaussian R) :
    Gen.Gaussian.kl_sym p q = Gen.Gaussian.kl p q + Gen.Gaussian.kl q p := rfl
-- @site Poisson.kl_sym
theorem Poisson_kl_sym (p q : Gen.Poisson R) :
    Gen.Poisson.kl_sym p q = Gen.Poisson.kl p q + Gen.Poisson.kl q p := rfl
-- @site Exponential.kl_sym
theorem Exponential_kl_sym (p q : Gen.Exponential R) :
    Gen.Exponential.kl_sym p q = Gen.Exponential.kl p q + Gen.Exponential.kl q p := rfl
-- @site Bernoulli.kl_sym
theorem Bernoulli_kl_sym (p q : Gen.Bernoulli R) :
    Gen.Bernoulli.kl_sym p q = Gen.Bernoulli.kl p q + Gen.Bernoulli.kl q p := rfl
-- @site Categorical.kl_sym
theorem Categorical_kl_sym (p q : Gen.Categorical R) :
    Gen.Categorical.kl_sym p q = Gen.Categorical.kl p q + Gen.Categorical.kl q p := rfl
noncomputable example : Gen.Gaussian R × Gen.Gaussian R := (⟨⟨1⟩, ⟨2⟩⟩, ⟨⟨0⟩, ⟨3⟩⟩)

/-! ## Gaussian -/

-- @site Gaussian.kl
theorem Gaussian_kl (p q : Gen.Gaussian R) (hp : 0 < p.sigma.val) (hq : 0 < q.sigma.val) :
    (Gen.Gaussian.kl p q).val = (Spec.Gaussian.kl p q).val := by
  simp only [Gen.Gaussian.kl, Spec.Gaussian.kl]
  c08_norm
  norm_num1
  rw [Real.log_div hq.ne' hp.ne']
  ring
example : 0 < (⟨⟨1⟩, ⟨2⟩⟩ : Gen.Gaussian R).sigma.val := by norm_num

-- @site Gaussian.kl
theorem Gaussian_kl_nonneg (p q : Gen.Gaussian R) (hp : 0 < p.sigma.val) (hq : 0 < q.sigma.val) :
    0 ≤ (Gen.Gaussian.kl p q).val := by
  simp only [Gen.Gaussian.kl]
  c08_norm
  norm_num1
  have hr : 0 < (p.sigma.val / q.sigma.val) ^ 2 := by positivity
  have hlog := Real.log_le_sub_one_of_pos hr
  have e : Real.log ((p.sigma.val / q.sigma.val) ^ 2) = 2 * (Real.log p.sigma.val - Real.log q.sigma.val) := by
    rw [Real.log_pow, Real.log_div hp.ne' hq.ne']; push_cast; ring
  have e2 : (p.sigma.val * p.sigma.val + (p.mu.val - q.mu.val) * (p.mu.val - q.mu.val)) / (2 * q.sigma.val * q.sigma.val)
      = (p.sigma.val / q.sigma.val) ^ 2 / 2 + (p.mu.val - q.mu.val) ^ 2 / (2 * q.sigma.val ^ 2) := by
    field_simp
  have h3 : 0 ≤ (p.mu.val - q.mu.val) ^ 2 / (2 * q.sigma.val ^ 2) := by positivity
  rw [e2]
  linarith
example : 0 < (⟨⟨1⟩, ⟨2⟩⟩ : Gen.Gaussian R).sigma.val := by norm_num

-- @site Gaussian.kl
theorem Gaussian_kl_eq_zero_iff (p q : Gen.Gaussian R) (hp : 0 < p.sigma.val) (hq : 0 < q.sigma.val) :
    (Gen.Gaussian.kl p q).val = 0 ↔ p = q := by
  have hpq : p = q ↔ (p.mu.val = q.mu.val ∧ p.sigma.val = q.sigma.val) := by
    constructor
    · rintro rfl; exact ⟨rfl, rfl⟩
    · rintro ⟨h1, h2⟩
      cases p; cases q
      simp only [Gen.Gaussian.mk.injEq]
      exact ⟨R.ext' h1, R.ext' h2⟩
  rw [hpq]
  simp only [Gen.Gaussian.kl]
  c08_norm
  norm_num1
  have hr : 0 < (p.sigma.val / q.sigma.val) ^ 2 := by positivity
  have e : Real.log ((p.sigma.val / q.sigma.val) ^ 2) = 2 * (Real.log p.sigma.val - Real.log q.sigma.val) := by
    rw [Real.log_pow, Real.log_div hp.ne' hq.ne']; push_cast; ring
  have e2 : (p.sigma.val * p.sigma.val + (p.mu.val - q.mu.val) * (p.mu.val - q.mu.val)) / (2 * q.sigma.val * q.sigma.val)
      = (p.sigma.val / q.sigma.val) ^ 2 / 2 + (p.mu.val - q.mu.val) ^ 2 / (2 * q.sigma.val ^ 2) := by
    field_simp
  have h3 : 0 ≤ (p.mu.val - q.mu.val) ^ 2 / (2 * q.sigma.val ^ 2) := by positivity
  rw [e2]
  constructor
  · intro h
    have hr1 : (p.sigma.val / q.sigma.val) ^ 2 = 1 := by
      by_contra hne
      have := Real.log_lt_sub_one_of_pos hr hne
      linarith
    have hlog1 : Real.log ((p.sigma.val / q.sigma.val) ^ 2) = 0 := by rw [hr1, Real.log_one]
    have hd : (p.mu.val - q.mu.val) ^ 2 / (2 * q.sigma.val ^ 2) = 0 := by linarith
    have hq2 : (0:ℝ) < 2 * q.sigma.val ^ 2 := by positivity
    have hd2 : (p.mu.val - q.mu.val) ^ 2 = 0 := by
      rcases div_eq_zero_iff.mp hd with h' | h'
      · exact h'
      · exact absurd h' hq2.ne'
    have hmu : p.mu.val = q.mu.val := by
      have := pow_eq_zero_iff (two_ne_zero) |>.mp hd2
      linarith
    have hdiv : p.sigma.val / q.sigma.val = 1 := by
      have hpos : 0 < p.sigma.val / q.sigma.val := by positivity
      nlinarith [hr1, hpos]
    have hs : p.sigma.val = q.sigma.val := by
      rw [div_eq_one_iff_eq hq.ne'] at hdiv; exact hdiv
    exact ⟨hmu, hs⟩
  · rintro ⟨h1, h2⟩
    rw [h1, h2]
    have : q.sigma.val / q.sigma.val = 1 := div_self hq.ne'
    rw [this]
    simp
example : 0 < (⟨⟨1⟩, ⟨2⟩⟩ : Gen.Gaussian R).sigma.val := by norm_num

/-! ## Poisson -/

-- @site Poisson.kl
theorem Poisson_kl (p q : Gen.Poisson R) (hp : 0 < p.rate.val) (hq : 0 < q.rate.val) :
    (Gen.Poisson.kl p q).val = (Spec.Poisson.kl p q).val := by
  simp only [Gen.Poisson.kl, Spec.Poisson.kl, Gen.Poisson.get_rate, Gen.Poisson.ln_rate]
  c08_close
example : 0 < (⟨⟨3⟩⟩ : Gen.Poisson R).rate.val := by norm_num

-- @site Poisson.kl
theorem Poisson_kl_nonneg (p q : Gen.Poisson R) (hp : 0 < p.rate.val) (hq : 0 < q.rate.val) :
    0 ≤ (Gen.Poisson.kl p q).val := by
  simp only [Gen.Poisson.kl, Gen.Poisson.get_rate, Gen.Poisson.ln_rate]
  c08_norm
  have hx : 0 < q.rate.val / p.rate.val := by positivity
  have hlog := Real.log_le_sub_one_of_pos hx
  rw [Real.log_div hq.ne' hp.ne'] at hlog
  have h := mul_le_mul_of_nonneg_left hlog hp.le
  have e : p.rate.val * (q.rate.val / p.rate.val - 1) = q.rate.val - p.rate.val := by field_simp
  rw [e] at h
  nlinarith
example : 0 < (⟨⟨3⟩⟩ : Gen.Poisson R).rate.val := by norm_num

-- @site Poisson.kl
theorem Poisson_kl_eq_zero_iff (p q : Gen.Poisson R) (hp : 0 < p.rate.val) (hq : 0 < q.rate.val) :
    (Gen.Poisson.kl p q).val = 0 ↔ p = q := by
  have hpq : p = q ↔ p.rate.val = q.rate.val := by
    constructor
    · rintro rfl; rfl
    · intro h; cases p; cases q; simp only [Gen.Poisson.mk.injEq]; exact R.ext' h
  rw [hpq]
  simp only [Gen.Poisson.kl, Gen.Poisson.get_rate, Gen.Poisson.ln_rate]
  c08_norm
  have hx : 0 < q.rate.val / p.rate.val := by positivity
  have e : p.rate.val * (q.rate.val / p.rate.val - 1) = q.rate.val - p.rate.val := by field_simp
  constructor
  · intro h
    by_contra hne
    have hx1 : q.rate.val / p.rate.val ≠ 1 := by
      intro h1; rw [div_eq_one_iff_eq hp.ne'] at h1; exact hne h1.symm
    have hlog := Real.log_lt_sub_one_of_pos hx hx1
    rw [Real.log_div hq.ne' hp.ne'] at hlog
    have h2 := mul_lt_mul_of_pos_left hlog hp
    rw [e] at h2
    nlinarith
  · intro h
    rw [h]; ring
example : 0 < (⟨⟨3⟩⟩ : Gen.Poisson R).rate.val := by norm_num

/-! ## Exponential -/

-- @site Exponential.kl
theorem Exponential_kl (p q : Gen.Exponential R) (hp : 0 < p.rate.val) (hq : 0 < q.rate.val) :
    (Gen.Exponential.kl p q).val = (Spec.Exponential.kl p q).val := by
  simp only [Gen.Exponential.kl, Spec.Exponential.kl]
  c08_close
example : 0 < (⟨⟨2⟩⟩ : Gen.Exponential R).rate.val := by norm_num

-- @site Exponential.kl
theorem Exponential_kl_nonneg (p q : Gen.Exponential R) (hp : 0 < p.rate.val) (hq : 0 < q.rate.val) :
    0 ≤ (Gen.Exponential.kl p q).val := by
  simp only [Gen.Exponential.kl]
  c08_norm
  simp only [C08L.lit10]
  have hx : 0 < q.rate.val / p.rate.val := by positivity
  have hlog := Real.log_le_sub_one_of_pos hx
  rw [Real.log_div hq.ne' hp.ne'] at hlog
  linarith
example : 0 < (⟨⟨2⟩⟩ : Gen.Exponential R).rate.val := by norm_num

-- @site Exponential.kl
theorem Exponential_kl_eq_zero_iff (p q : Gen.Exponential R) (hp : 0 < p.rate.val) (hq : 0 < q.rate.val) :
    (Gen.Exponential.kl p q).val = 0 ↔ p = q := by
  have hpq : p = q ↔ p.rate.val = q.rate.val := by
    constructor
    · rintro rfl; rfl
    · intro h; cases p; cases q; simp only [Gen.Exponential.mk.injEq]; exact R.ext' h
  rw [hpq]
  simp only [Gen.Exponential.kl]
  c08_norm
  simp only [C08L.lit10]
  have hx : 0 < q.rate.val / p.rate.val := by positivity
  constructor
  · intro h
    by_contra hne
    have hx1 : q.rate.val / p.rate.val ≠ 1 := by
      intro h1; rw [div_eq_one_iff_eq hp.ne'] at h1; exact hne h1.symm
    have hlog := Real.log_lt_sub_one_of_pos hx hx1
    rw [Real.log_div hq.ne' hp.ne'] at hlog
    linarith
  · intro h
    rw [h, div_self hq.ne']; ring
example : 0 < (⟨⟨2⟩⟩ : Gen.Exponential R).rate.val := by norm_num

-- @site Exponential.kl_sym
theorem Exponential_kl_sym_spec (p q : Gen.Exponential R) (hp : 0 < p.rate.val) (hq : 0 < q.rate.val) :
    (Gen.Exponential.kl_sym p q).val = (Spec.Exponential.kl p q).val + (Spec.Exponential.kl q p).val := by
  simp only [Gen.Exponential.kl_sym, Gen.Exponential.kl, Spec.Exponential.kl]
  c08_close
example : 0 < (⟨⟨2⟩⟩ : Gen.Exponential R).rate.val := by norm_num

/-! ## Bernoulli (0 < p < 1; at p ∈ {0,1} the binary64 code returns NaN — 0·ln 0 — which `R` cannot express) -/

-- @site Bernoulli.kl
theorem Bernoulli_kl (p q : Gen.Bernoulli R) (hp0 : 0 < p.p.val) (hp1 : p.p.val < 1)
    (hq0 : 0 < q.p.val) (hq1 : q.p.val < 1) :
    (Gen.Bernoulli.kl p q).val = (Spec.Bernoulli.kl p q).val := by
  have h1 : ¬ ((1:ℝ) - p.p.val = 0) := by intro h; linarith
  have h0 : ¬ (p.p.val = 0) := hp0.ne'
  simp only [Gen.Bernoulli.kl, Spec.Bernoulli.kl, Gen.Bernoulli.q, Spec.xlnxy]
  c08_norm
  simp only [C08L.lit00, C08L.lit10, if_neg h0, if_neg h1]
  c08_norm
  simp only [C08L.lit10]
example : 0 < (⟨⟨1/3⟩⟩ : Gen.Bernoulli R).p.val ∧ (⟨⟨1/3⟩⟩ : Gen.Bernoulli R).p.val < 1 := by norm_num

-- @site Bernoulli.kl
theorem Bernoulli_kl_nonneg (p q : Gen.Bernoulli R) (hp0 : 0 < p.p.val) (hp1 : p.p.val < 1)
    (hq0 : 0 < q.p.val) (hq1 : q.p.val < 1) :
    0 ≤ (Gen.Bernoulli.kl p q).val := by
  simp only [Gen.Bernoulli.kl, Gen.Bernoulli.q]
  c08_norm
  simp only [C08L.lit10]
  have hp' : 0 < 1 - p.p.val := by linarith
  have hq' : 0 < 1 - q.p.val := by linarith
  have a1 := Real.log_le_sub_one_of_pos (show 0 < q.p.val / p.p.val by positivity)
  have a2 := Real.log_le_sub_one_of_pos (show 0 < (1 - q.p.val) / (1 - p.p.val) by positivity)
  rw [Real.log_div hq0.ne' hp0.ne'] at a1
  rw [Real.log_div hq'.ne' hp'.ne'] at a2
  have b1 := mul_le_mul_of_nonneg_left a1 hp0.le
  have b2 := mul_le_mul_of_nonneg_left a2 hp'.le
  have e1 : p.p.val * (q.p.val / p.p.val - 1) = q.p.val - p.p.val := by field_simp
  have e2 : (1 - p.p.val) * ((1 - q.p.val) / (1 - p.p.val) - 1) = (1 - q.p.val) - (1 - p.p.val) := by field_simp
  rw [e1] at b1
  rw [e2] at b2
  nlinarith
example : 0 < (⟨⟨1/3⟩⟩ : Gen.Bernoulli R).p.val ∧ (⟨⟨1/3⟩⟩ : Gen.Bernoulli R).p.val < 1 := by norm_num

-- @site Bernoulli.kl
theorem Bernoulli_kl_eq_zero_iff (p q : Gen.Bernoulli R) (hp0 : 0 < p.p.val) (hp1 : p.p.val < 1)
    (hq0 : 0 < q.p.val) (hq1 : q.p.val < 1) :
    (Gen.Bernoulli.kl p q).val = 0 ↔ p = q := by
  have hpq : p = q ↔ p.p.val = q.p.val := by
    constructor
    · rintro rfl; rfl
    · intro h; cases p; cases q; simp only [Gen.Bernoulli.mk.injEq]; exact R.ext' h
  rw [hpq]
  simp only [Gen.Bernoulli.kl, Gen.Bernoulli.q]
  c08_norm
  simp only [C08L.lit10]
  have hp' : 0 < 1 - p.p.val := by linarith
  have hq' : 0 < 1 - q.p.val := by linarith
  have a2 := Real.log_le_sub_one_of_pos (show 0 < (1 - q.p.val) / (1 - p.p.val) by positivity)
  rw [Real.log_div hq'.ne' hp'.ne'] at a2
  have b2 := mul_le_mul_of_nonneg_left a2 hp'.le
  have e1 : p.p.val * (q.p.val / p.p.val - 1) = q.p.val - p.p.val := by field_simp
  have e2 : (1 - p.p.val) * ((1 - q.p.val) / (1 - p.p.val) - 1) = (1 - q.p.val) - (1 - p.p.val) := by field_simp
  rw [e2] at b2
  constructor
  · intro h
    by_contra hne
    have hx1 : q.p.val / p.p.val ≠ 1 := by
      intro h1; rw [div_eq_one_iff_eq hp0.ne'] at h1; exact hne h1.symm
    have a1 := Real.log_lt_sub_one_of_pos (show 0 < q.p.val / p.p.val by positivity) hx1
    rw [Real.log_div hq0.ne' hp0.ne'] at a1
    have b1 := mul_lt_mul_of_pos_left a1 hp0
    rw [e1] at b1
    nlinarith
  · intro h
    rw [h]; ring
example : 0 < (⟨⟨1/3⟩⟩ : Gen.Bernoulli R).p.val ∧ (⟨⟨1/3⟩⟩ : Gen.Bernoulli R).p.val < 1 := by norm_num

/-! ## Categorical -/

-- @site Categorical.kl
theorem Categorical_kl (p q : Gen.Categorical R) :
    (Gen.Categorical.kl p q).val = (Spec.Categorical.kl p q).val := by
  simp only [Gen.Categorical.kl, Spec.Categorical.kl]
  rw [R.sumL_val, List.map_map]
  rw [C08L.foldlR_val (fun acc (x : R × R) => mulAdd (RealLike.exp x.1) (x.1 - x.2) acc)
    (fun x => Real.exp x.1.val * (x.1.val - x.2.val))
    (by intro a x; simp only [mulAdd, R.add_val, R.mul_val, R.exp_val, R.sub_val]; ring)]
  have h0 : ((0.0 : R)).val = 0 := by simp only [R.sci_val]; norm_num
  rw [h0, zero_add]
  congr 1
  apply List.map_congr_left
  intro x _
  have hne : ¬ (Real.exp x.1.val = (0.0:ℝ)) := by
    rw [C08L.lit00]; exact (Real.exp_pos _).ne'
  simp only [Function.comp_apply, R.feq_iff, R.exp_val, R.sci_val, if_neg hne, R.mul_val, R.sub_val]
noncomputable example : Gen.Categorical R := ⟨[⟨Real.log (1/3)⟩, ⟨Real.log (2/3)⟩]⟩

/-- FULL STATEMENT (not proved): for normalised weight vectors of equal length, 0 ≤ kl p q and kl p q = 0 ↔ p = q
    (Gibbs' inequality over lists).  Proved here: the diagonal value. -/
-- @site Categorical.kl
theorem Categorical_kl_self_partial (p : Gen.Categorical R) : (Gen.Categorical.kl p p).val = 0 := by
  rw [Categorical_kl]
  simp only [Spec.Categorical.kl]
  rw [R.sumL_val, List.map_map]
  apply List.sum_eq_zero
  intro x hx
  simp only [List.mem_map, Function.comp_apply] at hx
  obtain ⟨y, hy, rfl⟩ := hx
  have hy' : y.1 = y.2 := by
    rcases y with ⟨a, b⟩
    have hz : ∀ (l : List R) (a b : R), (a, b) ∈ l.zip l → a = b := by
      intro l
      induction l with
      | nil => intro a b h; simp at h
      | cons c l ih =>
        intro a b h
        simp only [List.zip_cons_cons, List.mem_cons, Prod.mk.injEq] at h
        rcases h with ⟨h1, h2⟩ | h
        · rw [h1, h2]
        · exact ih a b h
    exact hz _ a b hy
  split_ifs
  · simp only [R.sci_val, C08L.lit00]
  · simp [R.mul_val, R.sub_val, hy']
noncomputable example : Gen.Categorical R := ⟨[⟨Real.log (1/3)⟩, ⟨Real.log (2/3)⟩]⟩

/-! ## cdf (median) = ½ through the generated cdf -/

-- @site Exponential.median_real
theorem Exponential_cdf_median (d : Gen.Exponential R) (hr : 0 < d.rate.val) :
    ∀ m, Gen.Exponential.median_real d = some m → (Gen.Exponential.cdf_real d m).val = 1 / 2 := by
  intro m hm
  simp only [Gen.Exponential.median_real, Option.some.injEq] at hm
  subst hm
  simp only [Gen.Exponential.cdf_real]
  c08_norm
  norm_num1
  have e : -d.rate.val * (Real.log 2 / d.rate.val) = -Real.log 2 := by field_simp
  rw [e, Real.exp_neg, Real.exp_log (by norm_num)]
  norm_num
example : 0 < (⟨⟨2⟩⟩ : Gen.Exponential R).rate.val := by norm_num

-- @site Cauchy.median_real
theorem Cauchy_cdf_median (d : Gen.Cauchy R) (hs : 0 < d.scale.val) :
    ∀ m, Gen.Cauchy.median_real d = some m → (Gen.Cauchy.cdf_real d m).val = 1 / 2 := by
  intro m hm
  simp only [Gen.Cauchy.median_real, Option.some.injEq] at hm
  subst hm
  simp only [Gen.Cauchy.cdf_real]
  c08_norm
  norm_num
example : 0 < (⟨⟨1⟩, ⟨2⟩⟩ : Gen.Cauchy R).scale.val := by norm_num

-- @site Laplace.median_real
theorem Laplace_cdf_median (d : Gen.Laplace R) (hb : 0 < d.b.val) :
    ∀ m, Gen.Laplace.median_real d = some m → (Gen.Laplace.cdf_real d m).val = 1 / 2 := by
  intro m hm
  simp only [Gen.Laplace.median_real, Option.some.injEq] at hm
  subst hm
  simp only [Gen.Laplace.cdf_real]
  c08_norm
  norm_num
example : 0 < (⟨⟨1⟩, ⟨2⟩⟩ : Gen.Laplace R).b.val := by norm_num

-- @site Uniform.median_real
theorem Uniform_cdf_median (d : Gen.Uniform R) (hab : d.a.val < d.b.val) :
    ∀ m, Gen.Uniform.median_real d = some m → (Gen.Uniform.cdf_real d m).val = 1 / 2 := by
  intro m hm
  simp only [Gen.Uniform.median_real, Option.some.injEq] at hm
  subst hm
  simp only [Gen.Uniform.cdf_real]
  c08_norm
  norm_num1
  have h1 : ¬ ((d.b.val + d.a.val) / 2 < d.a.val) := by linarith
  have h2 : ¬ (d.b.val ≤ (d.b.val + d.a.val) / 2) := by linarith
  have hne : d.b.val - d.a.val ≠ 0 := by linarith
  rw [if_neg h1, if_neg h2]
  c08_norm
  norm_num1
  field_simp
  ring
example : (⟨⟨1⟩, ⟨3⟩⟩ : Gen.Uniform R).a.val < (⟨⟨1⟩, ⟨3⟩⟩ : Gen.Uniform R).b.val := by norm_num

-- @site Kumaraswamy.median_real
theorem Kumaraswamy_cdf_median (d : Gen.Kumaraswamy R) (ha : 0 < d.a.val) (hb : 0 < d.b.val) :
    ∀ m, Gen.Kumaraswamy.median_real d = some m → (Gen.Kumaraswamy.cdf_real d m).val = 1 / 2 := by
  intro m hm
  simp only [Gen.Kumaraswamy.median_real, Option.some.injEq] at hm
  subst hm
  simp only [Gen.Kumaraswamy.cdf_real]
  c08_norm
  simp only [C08L.lit10]
  have hy1 : (2:ℝ) ^ (-(1 / d.b.val)) ≤ 1 :=
    Real.rpow_le_one_of_one_le_of_nonpos (by norm_num) (by
      have : 0 < 1 / d.b.val := by positivity
      linarith)
  have hy0 : (0:ℝ) ≤ 1 - (2:ℝ) ^ (-(1 / d.b.val)) := by linarith
  have e1 : ((1 - (2:ℝ) ^ (-(1 / d.b.val))) ^ (1 / d.a.val)) ^ d.a.val = 1 - (2:ℝ) ^ (-(1 / d.b.val)) := by
    rw [one_div d.a.val, Real.rpow_inv_rpow hy0 ha.ne']
  rw [e1]
  have e2 : (1:ℝ) - (1 - (2:ℝ) ^ (-(1 / d.b.val))) = (2:ℝ) ^ (-(1 / d.b.val)) := by ring
  rw [e2, ← Real.rpow_mul (by norm_num)]
  have e3 : -(1 / d.b.val) * d.b.val = -1 := by field_simp
  rw [e3]
  norm_num
example : 0 < (⟨⟨2⟩, ⟨3⟩⟩ : Gen.Kumaraswamy R).a.val ∧ 0 < (⟨⟨2⟩, ⟨3⟩⟩ : Gen.Kumaraswamy R).b.val := by norm_num

-- @site Gev.median_real
theorem Gev_cdf_median (d : Gen.Gev R) (hs : 0 < d.scale.val) :
    ∀ m, Gen.Gev.median_real d = some m → (Gen.Gev.cdf_real d m).val = 1 / 2 := by
  intro m hm
  have hl2 : 0 < Real.log 2 := Real.log_pos (by norm_num)
  simp only [Gen.Gev.median_real] at hm
  simp only [Gen.Gev.cdf_real, Gen.t]
  by_cases h0 : d.shape.val = 0
  · have hc : RealLike.feq d.shape (0.0 : R) = true := by
      rw [R.feq_iff, R.sci_val, C08L.lit00]; exact h0
    rw [if_pos hc] at hm
    rw [if_pos hc]
    simp only [Option.some.injEq] at hm
    subst hm
    c08_norm
    have e : (d.loc.val - (d.scale.val * -Real.log (Real.log 2) + d.loc.val)) / d.scale.val = Real.log (Real.log 2) := by
      field_simp; ring
    rw [e, Real.exp_log hl2, Real.exp_neg, Real.exp_log (by norm_num)]
    norm_num
  · have hc : ¬ (RealLike.feq d.shape (0.0 : R) = true) := by
      rw [R.feq_iff, R.sci_val, C08L.lit00]; exact h0
    rw [if_neg hc] at hm
    rw [if_neg hc]
    simp only [Option.some.injEq] at hm
    subst hm
    c08_norm
    simp only [C08L.lit10]
    have e : 1 + d.shape.val * (d.loc.val + d.scale.val * (Real.log 2 ^ (-d.shape.val) - 1) / d.shape.val - d.loc.val) / d.scale.val
        = Real.log 2 ^ (-d.shape.val) := by
      field_simp; ring
    rw [e, ← Real.rpow_mul hl2.le]
    have e2 : -d.shape.val * (-1 / d.shape.val) = 1 := by field_simp
    rw [e2, Real.rpow_one, Real.exp_neg, Real.exp_log (by norm_num)]
    norm_num
example : 0 < (⟨⟨1⟩, ⟨2⟩, ⟨1/4⟩⟩ : Gen.Gev R).scale.val := by norm_num

-- @site LogNormal.median_real
theorem LogNormal_cdf_median (d : Gen.LogNormal R) (hs : 0 < d.sigma.val) :
    ∀ m, Gen.LogNormal.median_real d = some m → (Gen.LogNormal.cdf_real d m).val = 1 / 2 := by
  intro m hm
  simp only [Gen.LogNormal.median_real, Option.some.injEq] at hm
  subst hm
  simp only [Gen.LogNormal.cdf_real]
  c08_norm
  rw [Real.log_exp, sub_self, zero_div, C08L.erfR_zero]
  norm_num
example : 0 < (⟨⟨1⟩, ⟨2⟩⟩ : Gen.LogNormal R).sigma.val := by norm_num

-- @site Gaussian.median_real
theorem Gaussian_cdf_median (d : Gen.Gaussian R) (hs : 0 < d.sigma.val) :
    ∀ m, Gen.Gaussian.median_real d = some m → (Gen.Gaussian.cdf_real d m).val = 1 / 2 := by
  intro m hm
  simp only [Gen.Gaussian.median_real, Option.some.injEq] at hm
  subst hm
  simp only [Gen.Gaussian.cdf_real]
  c08_norm
  rw [ErfL.erfc_neg_val]
  c08_norm
  rw [sub_self, zero_div, C08L.erfR_zero]
  norm_num
example : 0 < (⟨⟨1⟩, ⟨2⟩⟩ : Gen.Gaussian R).sigma.val := by norm_num

end C08

#print axioms C08.Gaussian_kl_sym
#print axioms C08.Poisson_kl_sym
#print axioms C08.Exponential_kl_sym
#print axioms C08.Bernoulli_kl_sym
#print axioms C08.Categorical_kl_sym
#print axioms C08.Gaussian_kl
#print axioms C08.Gaussian_kl_nonneg
#print axioms C08.Gaussian_kl_eq_zero_iff
#print axioms C08.Poisson_kl
#print axioms C08.Poisson_kl_nonneg
#print axioms C08.Poisson_kl_eq_zero_iff
#print axioms C08.Exponential_kl
#print axioms C08.Exponential_kl_nonneg
#print axioms C08.Exponential_kl_eq_zero_iff
#print axioms C08.Exponential_kl_sym_spec
#print axioms C08.Bernoulli_kl
#print axioms C08.Bernoulli_kl_nonneg
#print axioms C08.Bernoulli_kl_eq_zero_iff
#print axioms C08.Categorical_kl
#print axioms C08.Categorical_kl_self_partial
#print axioms C08.Exponential_cdf_median
#print axioms C08.Cauchy_cdf_median
#print axioms C08.Laplace_cdf_median
#print axioms C08.Uniform_cdf_median
#print axioms C08.Kumaraswamy_cdf_median
#print axioms C08.Gev_cdf_median
#print axioms C08.LogNormal_cdf_median
#print axioms C08.Gaussian_cdf_median
