import RvModel.RealInst
import RvModel.ExtInst
import RvModel.Gen.Defs
import RvModel.Lemmas.C02
import RvModel.Lemmas.C02C
import RvModel.Props.C01A
import RvModel.Props.C01B
import RvModel.Props.C01C
import Mathlib.Probability.Distributions.Gaussian.Real
import Mathlib.Probability.Distributions.Gamma
import Mathlib.Probability.Distributions.Beta
import Mathlib.Probability.Distributions.Exponential
import Mathlib.Probability.Distributions.Cauchy
import Mathlib.Probability.Distributions.Pareto
import Mathlib.Probability.Distributions.Poisson.Basic
import Mathlib.Analysis.SpecificLimits.Basic
import Mathlib.Algebra.BigOperators.Intervals
/-!
  C02 (part C): *normalisation* and *non-negativity*, carrier `R` (exact reals, Mathlib measure theory).

  `∫_{support} exp(ln_f) = 1` / `Σ exp(ln_f) = 1` for the generated `ln_f`, obtained from the C01 theorems
  (`Gen ln_f = Spec` on the support, `Spec = log (Mathlib pdf)`) and Mathlib's normalisation lemmas.

  Done: Gaussian, Gamma, χ² (= Gamma), Exponential, Beta, UnitPowerLaw (= Beta(α,1)), Pareto, Uniform;
        Bernoulli (`R` open, `X` closed domain), Categorical (+ the constructor establishes the hypothesis),
        Binomial (binomial theorem), Geometric (geometric series).
  `_partial`: Cauchy (far-field shortcut of `logaddexp`), Poisson (`ln_fact` is a literal table).
  NOT DONE (no theorem; missing fact named):
    * Laplace, Kumaraswamy, GEV — need the antiderivative / FTC argument of C03 (closed-form CDFs), not in Mathlib;
    * LogNormal — change of variables `x = e^y` to the Gaussian integral;
    * InvGamma, InvChiSquared, ScaledInvChiSquared — change of variables `x ↦ 1/x` to the Gamma integral;
    * StudentsT — `∫ (1+x²/ν)^{-(ν+1)/2} dx = √(νπ) Γ(ν/2)/Γ((ν+1)/2)` (Beta-function substitution), not in Mathlib;
    * InvGaussian, VonMises (`∫_0^{2π} e^{κ cos} = 2π I₀(κ)` for the series `bessIR`), KsTwoAsymptotic;
    * NegBinomial — negative-binomial series `Σ C(k+r-1,k) q^k = (1-q)^{-r}` for real `r`;
    * BetaBinomial — Vandermonde / `Σ C(n,k) B(k+α,n-k+β) = B(α,β)`;
    * DiscreteUniform — known wrong (`ln_f = 0` on the support: the masses sum to `b-a+1`, see C01C);
    * Dirichlet / SymmetricDirichlet (simplex integral), Crp (sum over partitions), Skellam.
  Non-negativity: `density_nonneg` — every linear form of the crate is `exp (…)` (C02A `…_eq_exp_…`), hence `> 0`
  on `R`; for the Bernoulli override `f ∈ {p, 1-p}`.
  `-- @site` names the generated definition a theorem is about.  Helper lemmas: Lemmas/C02.lean, Lemmas/C02C.lean.
-/
set_option linter.unusedVariables false
set_option linter.unusedSimpArgs false
open Real MeasureTheory ProbabilityTheory C02Lemmas

namespace C02

/-! ### Non-negativity -/

-- @site Gaussian.f_real
/-- the one generic lemma: a value of the form `exp y` is positive on `R`.  Every `f`/`pdf`/`pmf` of the
    generated model except the Bernoulli override is *definitionally* of this form (C02A). -/
theorem density_nonneg (y : R) : 0 ≤ (RealLike.exp y).val ∧ 0 < (RealLike.exp y).val :=
  ⟨(Real.exp_pos _).le, Real.exp_pos _⟩

example (d : Gen.Gaussian R) (x : R) : 0 ≤ (Gen.Gaussian.pdf_real d x).val := (density_nonneg _).1
example (d : Gen.Binomial R) (k : Nat) : 0 ≤ (Gen.Binomial.pmf_nat d 8 k).val := (density_nonneg _).1
example (d : Gen.Dirichlet R) (x : List R) : 0 ≤ (Gen.Dirichlet.pdf_Vecf64 d x).val := (density_nonneg _).1

-- @site Bernoulli.f_bool
/-- the Bernoulli override is not of the form `exp …`: non-negative on the closed domain `0 ≤ p ≤ 1` -/
theorem Bernoulli_f_nonneg (d : Gen.Bernoulli R) (hp0 : 0 ≤ d.p.val) (hp1 : d.p.val ≤ 1) (x : Bool) :
    0 ≤ (Gen.Bernoulli.f_bool d x).val ∧ 0 ≤ (Gen.Bernoulli.pmf_bool d x).val := by
  cases x <;> simp [Gen.Bernoulli.pmf_bool, Gen.Bernoulli.f_bool] <;> norm_num <;> linarith

example : ∃ d : Gen.Bernoulli R, 0 ≤ d.p.val ∧ d.p.val ≤ 1 := ⟨⟨⟨0⟩⟩, by norm_num, by norm_num⟩

/-! ### Normalisation -/

-- @site Gaussian.ln_f_real
/-- `∫_ℝ exp(ln_f) = 1` — via `C01.Gaussian_ln_f`, `C01.Gaussian_spec_is_mathlib`, `integral_gaussianPDFReal_eq_one` -/
theorem Gaussian_normalised (d : Gen.Gaussian R) (hσ : 0 < d.sigma.val) :
    ∫ x : ℝ, Real.exp (Gen.Gaussian.ln_f_real d ⟨x⟩).val = 1 := by
  let v : NNReal := ⟨d.sigma.val ^ 2, by positivity⟩
  have hv : v ≠ 0 := by
    intro h
    have : (v : ℝ) = 0 := by rw [h]; rfl
    have h2 : d.sigma.val ^ 2 = 0 := this
    have := pow_pos hσ 2
    linarith
  rw [← integral_gaussianPDFReal_eq_one d.mu.val hv]
  congr 1; funext x
  rw [C01.Gaussian_ln_f d ⟨x⟩ hσ, C01.Gaussian_spec_is_mathlib d ⟨x⟩ v hσ rfl,
    Real.exp_log (gaussianPDFReal_pos _ _ _ hv)]

example : ∃ d : Gen.Gaussian R, 0 < d.sigma.val := ⟨⟨⟨-1⟩, ⟨3⟩⟩, by norm_num⟩

-- @site Gamma.ln_f_real
/-- `∫_{x>0} exp(ln_f) = 1` — via the C01 bridge and Mathlib's `lintegral_gammaPDF_eq_one` -/
theorem Gamma_normalised (d : Gen.Gamma R) (hs : 0 < d.shape.val) (hr : 0 < d.rate.val) :
    ∫ x in Set.Ioi (0:ℝ), Real.exp (Gen.Gamma.ln_f_real d ⟨x⟩).val = 1 := by
  have h1 : ∫ x, gammaPDFReal d.shape.val d.rate.val x = 1 :=
    integral_eq_one_of_lintegral (measurable_gammaPDFReal _ _) (gammaPDFReal_nonneg hs hr)
      (lintegral_gammaPDF_eq_one hs hr)
  refine setIntegral_Ioi_eq_one (fun x hx => ?_) (fun x hx => ?_) h1
  · rw [C01.Gamma_ln_f d ⟨x⟩ hs hr hx, C01.Gamma_spec_is_mathlib d ⟨x⟩ hs hr hx,
      Real.exp_log (gammaPDFReal_pos hs hr hx)]
  · simp [gammaPDFReal, not_le.mpr hx]

example : ∃ d : Gen.Gamma R, 0 < d.shape.val ∧ 0 < d.rate.val := ⟨⟨⟨2⟩, ⟨3⟩⟩, by norm_num, by norm_num⟩

-- @site ChiSquared.ln_f_real
/-- χ²(k) = Gamma(k/2, rate 1/2): the generated log-densities coincide, so `Gamma_normalised` applies -/
theorem ChiSquared_normalised (d : Gen.ChiSquared R) (hk : 0 < d.k.val) :
    ∫ x in Set.Ioi (0:ℝ), Real.exp (Gen.ChiSquared.ln_f_real d ⟨x⟩).val = 1 := by
  have h := Gamma_normalised ⟨⟨d.k.val / 2⟩, ⟨1 / 2⟩⟩ (by positivity) (by norm_num)
  refine Eq.trans ?_ h
  refine setIntegral_congr_fun measurableSet_Ioi (fun x hx => ?_)
  show Real.exp _ = Real.exp _
  congr 1
  simp only [Gen.ChiSquared.ln_f_real, Gen.Gamma.ln_f_real, Gen.Gamma.ln_rate, Gen.Gamma.ln_gamma_shape, mulAdd,
    R.add_val, R.sub_val, R.mul_val, R.div_val, R.neg_val, R.ln_val, R.lgamma_val, R.ln2_val, R.sci_val]
  have e : Real.log (1 / 2 : ℝ) = -Real.log 2 := by rw [one_div, Real.log_inv]
  rw [e]
  norm_num
  ring

example : ∃ d : Gen.ChiSquared R, 0 < d.k.val := ⟨⟨⟨3⟩⟩, by norm_num⟩

-- @site Exponential.ln_f_real
/-- `∫_{x≥0} exp(ln_f) = 1` — the `ln_f` guard (`x < 0 ↦ -inf`) is outside the domain of integration -/
theorem Exponential_normalised (d : Gen.Exponential R) (hr : 0 < d.rate.val) :
    ∫ x in Set.Ici (0:ℝ), Real.exp (Gen.Exponential.ln_f_real d ⟨x⟩).val = 1 := by
  have h1 : ∫ x, exponentialPDFReal d.rate.val x = 1 :=
    integral_eq_one_of_lintegral (measurable_exponentialPDFReal _) (exponentialPDFReal_nonneg hr)
      (lintegral_exponentialPDF_eq_one hr)
  refine setIntegral_eq_one measurableSet_Ici (fun x hx => ?_) (fun x hx => ?_) h1
  · have hx' : (0:ℝ) ≤ x := hx
    have hpos : 0 < exponentialPDFReal d.rate.val x := by
      unfold exponentialPDFReal gammaPDFReal
      rw [if_pos hx']
      simp only [Real.Gamma_one, sub_self, Real.rpow_zero, Real.rpow_one, div_one, mul_one]
      positivity
    rw [C01.Exponential_ln_f d ⟨x⟩ hr hx', C01.Exponential_spec_is_mathlib d ⟨x⟩ hr hx', Real.exp_log hpos]
  · have hx' : ¬ (0:ℝ) ≤ x := hx
    simp [exponentialPDFReal, gammaPDFReal, hx']

example : ∃ d : Gen.Exponential R, 0 < d.rate.val := ⟨⟨⟨3⟩⟩, by norm_num⟩

-- @site Beta.ln_f_real
/-- `∫_{0<x<1} exp(ln_f) = 1` — via Mathlib's `lintegral_betaPDF_eq_one` -/
theorem Beta_normalised (d : Gen.Beta R) (ha : 0 < d.alpha.val) (hb : 0 < d.beta.val) :
    ∫ x in Set.Ioo (0:ℝ) 1, Real.exp (Gen.Beta.ln_f_real d ⟨x⟩).val = 1 := by
  have h0 : ∀ x, 0 ≤ betaPDFReal d.alpha.val d.beta.val x := by
    intro x
    by_cases hx : 0 < x ∧ x < 1
    · exact (betaPDFReal_pos hx.1 hx.2 ha hb).le
    · simp [betaPDFReal, hx]
  have h1 : ∫ x, betaPDFReal d.alpha.val d.beta.val x = 1 :=
    integral_eq_one_of_lintegral (measurable_betaPDFReal _ _) h0 (lintegral_betaPDF_eq_one ha hb)
  refine setIntegral_eq_one measurableSet_Ioo (fun x hx => ?_) (fun x hx => ?_) h1
  · rw [C01.Beta_ln_f d ⟨x⟩ ha hb hx.1 hx.2, C01.Beta_spec_is_mathlib d ⟨x⟩ ha hb hx.1 hx.2,
      Real.exp_log (betaPDFReal_pos hx.1 hx.2 ha hb)]
  · have hx' : ¬ (0 < x ∧ x < 1) := hx
    simp [betaPDFReal, hx']

example : ∃ d : Gen.Beta R, 0 < d.alpha.val ∧ 0 < d.beta.val := ⟨⟨⟨2⟩, ⟨3⟩⟩, by norm_num, by norm_num⟩

-- @site UnitPowerLaw.ln_f_real
/-- UnitPowerLaw(α) = Beta(α, 1): the generated log-densities coincide on (0,1) (`B(α,1) = 1/α`) -/
theorem UnitPowerLaw_normalised (d : Gen.UnitPowerLaw R) (ha : 0 < d.alpha.val) :
    ∫ x in Set.Ioo (0:ℝ) 1, Real.exp (Gen.UnitPowerLaw.ln_f_real d ⟨x⟩).val = 1 := by
  have h := Beta_normalised ⟨d.alpha, ⟨1⟩⟩ ha one_pos
  refine Eq.trans ?_ h
  refine setIntegral_congr_fun measurableSet_Ioo (fun x hx => ?_)
  show Real.exp _ = Real.exp _
  congr 1
  have hG := Real.Gamma_pos_of_pos ha
  simp only [Gen.UnitPowerLaw.ln_f_real, Gen.UnitPowerLaw.alpha_ln, Gen.Beta.ln_f_real, Gen.Beta.ln_beta_ab,
    mulAdd, R.add_val, R.sub_val, R.mul_val, R.ln_val, R.lnBeta_val, R.sci_val]
  rw [Real.Gamma_add_one ha.ne', Real.Gamma_one, mul_one, div_mul_cancel_right₀ hG.ne', Real.log_inv]
  norm_num
  ring

example : ∃ d : Gen.UnitPowerLaw R, 0 < d.alpha.val := ⟨⟨⟨3⟩⟩, by norm_num⟩

-- @site Pareto.ln_f_real
/-- `∫_{x≥scale} exp(ln_f) = 1` — via Mathlib's `lintegral_paretoPDF_eq_one` -/
theorem Pareto_normalised (d : Gen.Pareto R) (hs : 0 < d.shape.val) (hc : 0 < d.scale.val) :
    ∫ x in Set.Ici d.scale.val, Real.exp (Gen.Pareto.ln_f_real d ⟨x⟩).val = 1 := by
  have h1 : ∫ x, paretoPDFReal d.scale.val d.shape.val x = 1 :=
    integral_eq_one_of_lintegral (measurable_paretoPDFReal _ _) (paretoPDFReal_nonneg hc.le hs.le)
      (lintegral_paretoPDF_eq_one hc hs)
  refine setIntegral_eq_one measurableSet_Ici (fun x hx => ?_) (fun x hx => ?_) h1
  · have hx' : d.scale.val ≤ x := hx
    rw [C01.Pareto_ln_f d ⟨x⟩ hs hc hx', C01.Pareto_spec_is_mathlib d ⟨x⟩ hs hc hx',
      Real.exp_log (paretoPDFReal_pos hc hs hx')]
  · have hx' : ¬ d.scale.val ≤ x := hx
    simp [paretoPDFReal, hx']

example : ∃ d : Gen.Pareto R, 0 < d.shape.val ∧ 0 < d.scale.val := ⟨⟨⟨2⟩, ⟨3⟩⟩, by norm_num, by norm_num⟩

-- @site Uniform.ln_f_real
/-- `∫_{a≤x≤b} exp(ln_f) = 1` — direct: the density is the constant `1/(b-a)` on `[a,b]` -/
theorem Uniform_normalised (d : Gen.Uniform R) (hab : d.a.val < d.b.val) :
    ∫ x in Set.Icc d.a.val d.b.val, Real.exp (Gen.Uniform.ln_f_real d ⟨x⟩).val = 1 := by
  have hpos : 0 < d.b.val - d.a.val := sub_pos.mpr hab
  rw [setIntegral_congr_fun measurableSet_Icc (g := fun _ => (d.b.val - d.a.val)⁻¹)]
  · rw [setIntegral_const, measureReal_def, Real.volume_Icc, ENNReal.toReal_ofReal hpos.le, smul_eq_mul,
      mul_inv_cancel₀ hpos.ne']
  · intro x hx
    show Real.exp (Gen.Uniform.ln_f_real d ⟨x⟩).val = (d.b.val - d.a.val)⁻¹
    rw [C01.Uniform_ln_f d ⟨x⟩ hab hx.1 hx.2]
    simp only [Spec.Uniform.lnPdf, R.neg_val, R.ln_val, R.sub_val]
    rw [Real.exp_neg, Real.exp_log hpos]

example : ∃ d : Gen.Uniform R, d.a.val < d.b.val := ⟨⟨⟨2⟩, ⟨3⟩⟩, by norm_num⟩

-- @site Cauchy.ln_f_real
/-- PARTIAL.  Full statement: `∫_ℝ exp(ln_f) = 1`.  Not true over exact reals as stated: outside
    `e^{-18.5} < |x-loc|/scale < e^{18.5}` the code's `logaddexp` uses the binary64-exact shortcut `ln(1+e^y) ≈ e^y`
    (`C01.Cauchy_ln_f_farfield_differs`; relative difference `< 1e-32`), and at `x = loc` it relies on `ln 0 = -inf`.
    Proved: on the exact branch the generated density **is** Mathlib's Cauchy density, whose integral is 1. -/
theorem Cauchy_normalised_partial (d : Gen.Cauchy R) (γ : NNReal) (hs : 0 < d.scale.val) (hγ : (γ : ℝ) = d.scale.val) :
    (∀ x : ℝ, x ≠ d.loc.val → |Real.log |x - d.loc.val| - Real.log d.scale.val| < 37 / 2 →
        Real.exp (Gen.Cauchy.ln_f_real d ⟨x⟩).val = cauchyPDFReal d.loc.val γ x) ∧
      ∫ x, cauchyPDFReal d.loc.val γ x = 1 := by
  have hγ0 : γ ≠ 0 := by
    intro h; rw [h] at hγ; simp at hγ; linarith
  refine ⟨fun x hx hr => ?_, integral_cauchyPDFReal_eq_one _ hγ0⟩
  have hpos : 0 < cauchyPDFReal d.loc.val γ x := by
    rw [cauchyPDFReal_def]
    have : (0:ℝ) < γ := by rw [hγ]; exact hs
    positivity
  rw [C01.Cauchy_ln_f_partial d ⟨x⟩ hs hx hr, C01.Cauchy_spec_is_mathlib d ⟨x⟩ γ hs hγ, Real.exp_log hpos]

example : ∃ (d : Gen.Cauchy R) (γ : NNReal), 0 < d.scale.val ∧ (γ : ℝ) = d.scale.val :=
  ⟨⟨⟨1⟩, ⟨2⟩⟩, 2, by norm_num, by norm_num⟩

-- @site Bernoulli.ln_f_bool
/-- `P(true) + P(false) = 1`, open domain on `R` -/
theorem Bernoulli_normalised (d : Gen.Bernoulli R) (hp0 : 0 < d.p.val) (hp1 : d.p.val < 1) :
    Real.exp (Gen.Bernoulli.ln_f_bool d true).val + Real.exp (Gen.Bernoulli.ln_f_bool d false).val = 1 := by
  have hq : (0:ℝ) < 1 - d.p.val := by linarith
  simp only [Gen.Bernoulli.ln_f_bool, Gen.Bernoulli.f_bool, R.ln_val, R.sub_val, R.sci_val, if_true,
    Bool.false_eq_true, if_false]
  norm_num
  rw [Real.exp_log hp0, Real.exp_log hq]; ring

example : ∃ d : Gen.Bernoulli R, 0 < d.p.val ∧ d.p.val < 1 := ⟨⟨⟨1/3⟩⟩, by norm_num, by norm_num⟩

-- @site Bernoulli.f_bool
/-- … and on `X` on the closed domain `0 ≤ p ≤ 1` (boundary included), both for the linear override `f`
    and for `exp ∘ ln_f` -/
theorem Bernoulli_normalised_X (p : ℝ) (hp0 : 0 ≤ p) (hp1 : p ≤ 1) :
    Gen.Bernoulli.f_bool (⟨X.fin p⟩ : Gen.Bernoulli X) true + Gen.Bernoulli.f_bool ⟨X.fin p⟩ false = X.fin 1 ∧
    RealLike.exp (Gen.Bernoulli.ln_f_bool (⟨X.fin p⟩ : Gen.Bernoulli X) true)
      + RealLike.exp (Gen.Bernoulli.ln_f_bool ⟨X.fin p⟩ false) = X.fin 1 := by
  have hq : (0:ℝ) ≤ 1 - p := by linarith
  constructor
  · norm_num [Gen.Bernoulli.f_bool]
  · simp only [Gen.Bernoulli.ln_f_bool, Gen.Bernoulli.f_bool, if_true, Bool.false_eq_true, if_false, lit_one,
      X.fin_sub_fin, exp_ln_fin hp0, exp_ln_fin hq, X.fin_add_fin]
    simp

/-- boundary `p = 0` -/
example : RealLike.exp (Gen.Bernoulli.ln_f_bool (⟨X.fin 0⟩ : Gen.Bernoulli X) true)
    + RealLike.exp (Gen.Bernoulli.ln_f_bool ⟨X.fin 0⟩ false) = X.fin 1 :=
  (Bernoulli_normalised_X 0 (le_refl _) zero_le_one).2

-- @site Categorical.ln_f_nat
/-- `Σ_{k<K} exp(ln_f k) = 1` whenever the stored log-weights are normalised (`Σ exp wᵢ = 1`) … -/
theorem Categorical_normalised (d : Gen.Categorical R)
    (hw : (d.ln_weights.map (fun w => Real.exp w.val)).sum = 1) :
    ((List.range d.ln_weights.length).map (fun k => Real.exp (Gen.Categorical.ln_f_nat d k).val)).sum = 1 := by
  simp only [Gen.Categorical.ln_f_nat, idxR]
  rw [map_range_getD d.ln_weights RealLike.nan (fun w => Real.exp w.val), hw]

example : ∃ d : Gen.Categorical R, (d.ln_weights.map (fun w => Real.exp w.val)).sum = 1 :=
  ⟨⟨[⟨Real.log (1/2)⟩, ⟨Real.log (1/2)⟩]⟩, by
    simp only [List.map_cons, List.map_nil, List.sum_cons, List.sum_nil, R.mk_val]
    rw [Real.exp_log (by norm_num)]; norm_num⟩

-- @site Categorical.new
/-- … which is what the checked constructor establishes for strictly positive weights (zero weights are junk on
    `R`: `ln 0`; see `C02.Categorical_new_all_zero_counterexample` in C02B for the all-zero case). -/
theorem Categorical_new_normalised (ws : List R) (hne : ws ≠ []) (hpos : ∀ w ∈ ws, 0 < w.val) :
    ∃ d : Gen.Categorical R, Gen.Categorical.new ws = Except.ok d ∧
      (d.ln_weights.map (fun w => Real.exp w.val)).sum = 1 := by
  have hS : 0 < (sumL ws).val := by
    rw [R.sumL_val]
    exact sum_pos_of_pos _ (by simpa using hne) (by
      intro x hx
      obtain ⟨w, hw, rfl⟩ := List.mem_map.mp hx
      exact hpos w hw)
  have hemp : ws.isEmpty = false := by
    cases ws with
    | nil => exact absurd rfl hne
    | cons a t => rfl
  refine ⟨⟨ws.map (fun w => RealLike.ln w - RealLike.ln (sumL ws))⟩, ?_, ?_⟩
  · unfold Gen.Categorical.new
    rw [hemp]
    rw [tryForEach_ok _ _ (by
      rintro ⟨ix, w⟩ hx
      have hw : w ∈ ws := (List.of_mem_zip hx).2
      have h1 : RealLike.lt w (0.0 : R) = false := by
        rw [R.lt_false_iff, R.sci_val]; norm_num; exact (hpos w hw).le
      simp [h1])]
    simp only [Bool.false_eq_true, if_false]
    rfl
  · simp only [List.map_map]
    have e : (List.map ((fun w : R => Real.exp w.val) ∘ (fun w : R => RealLike.ln w - RealLike.ln (sumL ws))) ws)
        = List.map (fun w : R => w.val * (sumL ws).val⁻¹) ws := by
      apply List.map_congr_left
      intro w hw
      simp only [Function.comp, R.sub_val, R.ln_val]
      rw [Real.exp_sub, Real.exp_log (hpos w hw), Real.exp_log hS, div_eq_mul_inv]
    rw [e, List.sum_map_mul_right, ← R.sumL_val, mul_inv_cancel₀ hS.ne']

example : ∃ ws : List R, ws ≠ [] ∧ ∀ w ∈ ws, 0 < w.val := ⟨[⟨1⟩, ⟨3⟩], by simp, by simp⟩

-- @site Binomial.ln_f_nat
/-- `Σ_{k≤n} exp(ln_f k) = (p + (1-p))^n = 1` — C01C bridge `Binomial_spec_is_textbook` + the binomial theorem -/
theorem Binomial_normalised (d : Gen.Binomial R) (hn : 0 < d.n) (hp0 : 0 < d.p.val) (hp1 : d.p.val < 1) :
    ∑ k ∈ Finset.range (d.n + 1), Real.exp (Gen.Binomial.ln_f_nat d k).val = 1 := by
  have hq : 0 < 1 - d.p.val := by linarith
  have key : ∀ k ∈ Finset.range (d.n + 1), Real.exp (Gen.Binomial.ln_f_nat d k).val
      = d.p.val ^ k * (1 - d.p.val) ^ (d.n - k) * (d.n.choose k : ℝ) := by
    intro k hk
    have hk' : k ≤ d.n := Nat.lt_succ_iff.mp (Finset.mem_range.mp hk)
    have hc : (0:ℝ) < (d.n.choose k : ℝ) := by exact_mod_cast Nat.choose_pos hk'
    rw [C01.Binomial_ln_f_nat d k hn hp0 hp1 hk', C01.Binomial_spec_is_textbook d k hp0 hp1 hk',
      Real.exp_log (by positivity)]
    ring
  rw [Finset.sum_congr rfl key, ← add_pow]
  norm_num

example : ∃ d : Gen.Binomial R, 0 < d.n ∧ 0 < d.p.val ∧ d.p.val < 1 := ⟨⟨5, ⟨1/3⟩⟩, by norm_num, by norm_num, by norm_num⟩

-- @site Geometric.ln_f_nat
/-- `Σ_k exp(ln_f k) = p Σ (1-p)^k = 1` (geometric series) -/
theorem Geometric_normalised (d : Gen.Geometric R) (hp0 : 0 < d.p.val) (hp1 : d.p.val < 1) :
    HasSum (fun k : ℕ => Real.exp (Gen.Geometric.ln_f_nat d k).val) 1 := by
  have hq : 0 < 1 - d.p.val := by linarith
  have hq1 : 1 - d.p.val < 1 := by linarith
  have h := (hasSum_geometric_of_lt_one hq.le hq1).mul_right d.p.val
  have e : (1 - (1 - d.p.val))⁻¹ * d.p.val = 1 := by
    rw [sub_sub_cancel, inv_mul_cancel₀ hp0.ne']
  rw [e] at h
  have key : (fun k : ℕ => Real.exp (Gen.Geometric.ln_f_nat d k).val)
      = fun k : ℕ => (1 - d.p.val) ^ k * d.p.val := by
    funext k
    rw [C01.Geometric_ln_f_nat d k hp0 hp1, C01.Geometric_spec_is_textbook d k hp0 hp1,
      Real.exp_log (by positivity)]
  rw [key]; exact h

example : ∃ d : Gen.Geometric R, 0 < d.p.val ∧ d.p.val < 1 := ⟨⟨⟨1/3⟩⟩, by norm_num, by norm_num⟩

-- @site Poisson.ln_f_nat
/-- PARTIAL.  Full statement: `∀ d, 0 < rate → HasSum (fun k => exp (ln_f d k)) 1`.  It is **not** true over exact
    reals as stated: `ln_fact` is a table of 17-digit decimal literals (and a truncated Stirling series above 253),
    so each term is off by a relative `≈1e-16`.  Proved under the idealisation `ln_fact n = ln n!`
    (`C01.Poisson_ln_f_nat_given_ln_fact`), via Mathlib's `hasSum_one_poissonMeasure`.  Missing: a bound on
    `|ln_fact n - ln n!|` (C14 / C01 `…_approx`) would give `|Σ - 1| ≤ e^ε - 1`. -/
theorem Poisson_normalised_partial
    (hfact : ∀ n, (Gen.ln_fact (α := R) n).val = Real.log (n.factorial))
    (d : Gen.Poisson R) (hr : 0 < d.rate.val) :
    HasSum (fun k : ℕ => Real.exp (Gen.Poisson.ln_f_nat d k).val) 1 := by
  have h := hasSum_one_poissonMeasure ⟨d.rate.val, hr.le⟩
  have key : (fun k : ℕ => Real.exp (Gen.Poisson.ln_f_nat d k).val)
      = fun k : ℕ => Real.exp (-d.rate.val) * d.rate.val ^ k / (k.factorial : ℝ) := by
    funext k
    have hf : (0:ℝ) < (k.factorial : ℝ) := by exact_mod_cast k.factorial_pos
    rw [C01.Poisson_ln_f_nat_given_ln_fact hfact d k hr, C01.Poisson_spec_is_textbook d k hr,
      Real.exp_log (by positivity)]
  rw [key]; exact h

end C02

#print axioms C02.density_nonneg
#print axioms C02.Bernoulli_f_nonneg
#print axioms C02.Gaussian_normalised
#print axioms C02.Gamma_normalised
#print axioms C02.ChiSquared_normalised
#print axioms C02.Exponential_normalised
#print axioms C02.Beta_normalised
#print axioms C02.UnitPowerLaw_normalised
#print axioms C02.Pareto_normalised
#print axioms C02.Uniform_normalised
#print axioms C02.Cauchy_normalised_partial
#print axioms C02.Bernoulli_normalised
#print axioms C02.Bernoulli_normalised_X
#print axioms C02.Categorical_normalised
#print axioms C02.Categorical_new_normalised
#print axioms C02.Binomial_normalised
#print axioms C02.Geometric_normalised
#print axioms C02.Poisson_normalised_partial
