import RvModel.RealInst
import RvModel.Gen.Defs
import RvModel.Lemmas.C06
/-!
  C06 (group B): the three conjugate priors of the Gaussian (NormalGamma, NormalInvGamma, NormalInvChiSquared).
-/
set_option linter.unusedSimpArgs false
open Real C06L

namespace C06

abbrev GStat := Gen.GaussianSuffStat R
noncomputable abbrev gfold (xs : List R) : GStat := xs.foldl Gen.GaussianSuffStat.observe_real Gen.GaussianSuffStat.new

theorem gfold_append (xs : List R) (y : R) : gfold (xs ++ [y]) = Gen.GaussianSuffStat.observe_real (gfold xs) y := by
  simp [gfold, List.foldl_append]

/-! ## NormalGamma – Gaussian -/

-- @site NormalGamma.ln_m_real_Gaussian
theorem NormalGamma_Gaussian_ln_m_cached (pr : Gen.NormalGamma R) (x : DataOrSuffStat R GStat) :
    Gen.NormalGamma.ln_m_real_Gaussian pr x
      = Gen.NormalGamma.ln_m_with_cache_real_Gaussian pr (Gen.NormalGamma.ln_m_cache_real_Gaussian pr) x := rfl

-- @site NormalGamma.ln_pp_real_Gaussian
theorem NormalGamma_Gaussian_ln_pp_cached (pr : Gen.NormalGamma R) (y : R) (x : DataOrSuffStat R GStat) :
    Gen.NormalGamma.ln_pp_real_Gaussian pr y x
      = Gen.NormalGamma.ln_pp_with_cache_real_Gaussian pr (Gen.NormalGamma.ln_pp_cache_real_Gaussian pr x) y := rfl

-- @site NormalGamma.pp_real_Gaussian
theorem NormalGamma_Gaussian_pp_eq_exp (pr : Gen.NormalGamma R) (y : R) (x : DataOrSuffStat R GStat) :
    Gen.NormalGamma.pp_real_Gaussian pr y x = RealLike.exp (Gen.NormalGamma.ln_pp_real_Gaussian pr y x) := rfl

-- @site NormalGamma.pp_with_cache_real_Gaussian
theorem NormalGamma_Gaussian_pp_with_cache_eq_exp (pr : Gen.NormalGamma R) (c : GStat × R) (y : R) :
    Gen.NormalGamma.pp_with_cache_real_Gaussian pr c y
      = RealLike.exp (Gen.NormalGamma.ln_pp_with_cache_real_Gaussian pr c y) := rfl

-- @site NormalGamma.ln_m_real_Gaussian
theorem NormalGamma_Gaussian_ln_m_data_eq_stat (pr : Gen.NormalGamma R) (xs : List R) :
    Gen.NormalGamma.ln_m_real_Gaussian pr (.data xs) = Gen.NormalGamma.ln_m_real_Gaussian pr (.suffStat (gfold xs)) := rfl

-- @site NormalGamma.ln_pp_real_Gaussian
theorem NormalGamma_Gaussian_ln_pp_data_eq_stat (pr : Gen.NormalGamma R) (y : R) (xs : List R) :
    Gen.NormalGamma.ln_pp_real_Gaussian pr y (.data xs)
      = Gen.NormalGamma.ln_pp_real_Gaussian pr y (.suffStat (gfold xs)) := rfl

-- @site NormalGamma.ln_pp_real_Gaussian
theorem NormalGamma_Gaussian_chain_rule_stat (pr : Gen.NormalGamma R) (S : GStat) (y : R) :
    (Gen.NormalGamma.ln_pp_real_Gaussian pr y (.suffStat S)).val
      = (Gen.NormalGamma.ln_m_real_Gaussian pr (.suffStat (Gen.GaussianSuffStat.observe_real S y))).val
        - (Gen.NormalGamma.ln_m_real_Gaussian pr (.suffStat S)).val := by
  have hn : (Gen.GaussianSuffStat.observe_real S y).n = S.n + 1 := rfl
  simp only [Gen.NormalGamma.ln_pp_real_Gaussian, Gen.NormalGamma.ln_pp_cache_real_Gaussian,
    Gen.NormalGamma.ln_pp_with_cache_real_Gaussian, Gen.NormalGamma.ln_m_real_Gaussian,
    Gen.NormalGamma.ln_m_with_cache_real_Gaussian, Gen.NormalGamma.get_r, Gen.NormalGamma.get_s, Gen.NormalGamma.get_v,
    Gen.GaussianSuffStat.get_n, hn, mulAdd, R.add_val, R.sub_val, R.mul_val, R.neg_val, R.ofNatR_val]
  push_cast
  ring

-- @site NormalGamma.ln_pp_real_Gaussian
theorem NormalGamma_Gaussian_chain_rule (pr : Gen.NormalGamma R) (xs : List R) (y : R) :
    (Gen.NormalGamma.ln_pp_real_Gaussian pr y (.data xs)).val
      = (Gen.NormalGamma.ln_m_real_Gaussian pr (.data (xs ++ [y]))).val
        - (Gen.NormalGamma.ln_m_real_Gaussian pr (.data xs)).val := by
  rw [NormalGamma_Gaussian_ln_pp_data_eq_stat, NormalGamma_Gaussian_ln_m_data_eq_stat,
    NormalGamma_Gaussian_ln_m_data_eq_stat, gfold_append]
  exact NormalGamma_Gaussian_chain_rule_stat pr _ y

-- @site NormalGamma.ln_m_real_Gaussian
theorem NormalGamma_Gaussian_ln_m_perm (pr : Gen.NormalGamma R) {xs ys : List R} (h : xs.Perm ys) :
    Gen.NormalGamma.ln_m_real_Gaussian pr (.data xs) = Gen.NormalGamma.ln_m_real_Gaussian pr (.data ys) := by
  rw [NormalGamma_Gaussian_ln_m_data_eq_stat, NormalGamma_Gaussian_ln_m_data_eq_stat, gfold, gfold,
    GaussStat_fold_perm h]

-- @site NormalGamma.ln_m_real_Gaussian
theorem NormalGamma_Gaussian_ln_m_empty (pr : Gen.NormalGamma R) (hr : 0 < pr.r.val) (hs : 0 < pr.s.val)
    (hv : 0 < pr.v.val) :
    (Gen.NormalGamma.ln_m_real_Gaussian pr (.data [])).val = 0 := by
  rw [NormalGamma_Gaussian_ln_m_data_eq_stat]
  simp only [Gen.NormalGamma.ln_m_real_Gaussian, Gen.NormalGamma.ln_m_with_cache_real_Gaussian,
    Gen.NormalGamma.ln_m_cache_real_Gaussian, Gen.posterior_from_stat_normal_gamma,
    Gen.NormalGamma.get_r, Gen.NormalGamma.get_s, Gen.NormalGamma.get_v, Gen.NormalGamma.get_m,
    Gen.GaussianSuffStat.get_n, Gen.GaussianSuffStat.sum_x, Gen.GaussianSuffStat.sum_x_sq,
    Gen.GaussianSuffStat.get_mean, gfold, List.foldl_nil, Gen.GaussianSuffStat.new]
  rw [NormalGamma_new_ok]
  · simp only [Gen.ln_z_normal_gamma, mulAdd, R.add_val, R.sub_val, R.mul_val, R.div_val, R.neg_val, R.ln_val,
      R.lgamma_val, R.ofNatR_val, R.ln2_val, R.halfLnPi_val, R.halfLn2Pi_val, lit0, lit05, Nat.cast_zero]
    have hr' := hr.ne'
    simp [hr']
    ring_nf
  · simp only [R.add_val, R.ofNatR_val, Nat.cast_zero, add_zero]; exact hr
  · convert hs using 1
    have hr' := hr.ne'
    simp only [mulAdd, R.add_val, R.sub_val, R.mul_val, R.div_val, R.neg_val, R.ofNatR_val, lit0, Nat.cast_zero]
    field_simp
    ring
  · simp only [R.add_val, R.ofNatR_val, Nat.cast_zero, add_zero]; exact hv

example : ∃ pr : Gen.NormalGamma R, 0 < pr.r.val ∧ 0 < pr.s.val ∧ 0 < pr.v.val :=
  ⟨⟨⟨-1⟩, ⟨2⟩, ⟨3/2⟩, ⟨5⟩⟩, by norm_num, by norm_num, by norm_num⟩

/-! ## NormalInvGamma – Gaussian -/

-- @site NormalInvGamma.ln_m_real_Gaussian
theorem NormalInvGamma_Gaussian_ln_m_cached (pr : Gen.NormalInvGamma R) (x : DataOrSuffStat R GStat) :
    Gen.NormalInvGamma.ln_m_real_Gaussian pr x
      = Gen.NormalInvGamma.ln_m_with_cache_real_Gaussian pr (Gen.NormalInvGamma.ln_m_cache_real_Gaussian pr) x := rfl

-- @site NormalInvGamma.ln_pp_real_Gaussian
theorem NormalInvGamma_Gaussian_ln_pp_cached (pr : Gen.NormalInvGamma R) (y : R) (x : DataOrSuffStat R GStat) :
    Gen.NormalInvGamma.ln_pp_real_Gaussian pr y x
      = Gen.NormalInvGamma.ln_pp_with_cache_real_Gaussian pr (Gen.NormalInvGamma.ln_pp_cache_real_Gaussian pr x) y := rfl

-- @site NormalInvGamma.pp_real_Gaussian
theorem NormalInvGamma_Gaussian_pp_eq_exp (pr : Gen.NormalInvGamma R) (y : R) (x : DataOrSuffStat R GStat) :
    Gen.NormalInvGamma.pp_real_Gaussian pr y x = RealLike.exp (Gen.NormalInvGamma.ln_pp_real_Gaussian pr y x) := rfl

-- @site NormalInvGamma.pp_with_cache_real_Gaussian
theorem NormalInvGamma_Gaussian_pp_with_cache_eq_exp (pr : Gen.NormalInvGamma R) (c : GStat × R) (y : R) :
    Gen.NormalInvGamma.pp_with_cache_real_Gaussian pr c y
      = RealLike.exp (Gen.NormalInvGamma.ln_pp_with_cache_real_Gaussian pr c y) := rfl

-- @site NormalInvGamma.ln_m_real_Gaussian
theorem NormalInvGamma_Gaussian_ln_m_data_eq_stat (pr : Gen.NormalInvGamma R) (xs : List R) :
    Gen.NormalInvGamma.ln_m_real_Gaussian pr (.data xs) = Gen.NormalInvGamma.ln_m_real_Gaussian pr (.suffStat (gfold xs)) := rfl

-- @site NormalInvGamma.ln_pp_real_Gaussian
theorem NormalInvGamma_Gaussian_ln_pp_data_eq_stat (pr : Gen.NormalInvGamma R) (y : R) (xs : List R) :
    Gen.NormalInvGamma.ln_pp_real_Gaussian pr y (.data xs)
      = Gen.NormalInvGamma.ln_pp_real_Gaussian pr y (.suffStat (gfold xs)) := rfl

-- @site NormalInvGamma.ln_pp_real_Gaussian
theorem NormalInvGamma_Gaussian_chain_rule_stat (pr : Gen.NormalInvGamma R) (S : GStat) (y : R) :
    (Gen.NormalInvGamma.ln_pp_real_Gaussian pr y (.suffStat S)).val
      = (Gen.NormalInvGamma.ln_m_real_Gaussian pr (.suffStat (Gen.GaussianSuffStat.observe_real S y))).val
        - (Gen.NormalInvGamma.ln_m_real_Gaussian pr (.suffStat S)).val := by
  have hn : (Gen.GaussianSuffStat.observe_real S y).n = S.n + 1 := rfl
  simp only [Gen.NormalInvGamma.ln_pp_real_Gaussian, Gen.NormalInvGamma.ln_pp_cache_real_Gaussian,
    Gen.NormalInvGamma.ln_pp_with_cache_real_Gaussian, Gen.NormalInvGamma.ln_m_real_Gaussian,
    Gen.NormalInvGamma.ln_m_with_cache_real_Gaussian, 
    Gen.GaussianSuffStat.get_n, hn, mulAdd, R.add_val, R.sub_val, R.mul_val, R.neg_val, R.ofNatR_val]
  push_cast
  ring

-- @site NormalInvGamma.ln_pp_real_Gaussian
theorem NormalInvGamma_Gaussian_chain_rule (pr : Gen.NormalInvGamma R) (xs : List R) (y : R) :
    (Gen.NormalInvGamma.ln_pp_real_Gaussian pr y (.data xs)).val
      = (Gen.NormalInvGamma.ln_m_real_Gaussian pr (.data (xs ++ [y]))).val
        - (Gen.NormalInvGamma.ln_m_real_Gaussian pr (.data xs)).val := by
  rw [NormalInvGamma_Gaussian_ln_pp_data_eq_stat, NormalInvGamma_Gaussian_ln_m_data_eq_stat,
    NormalInvGamma_Gaussian_ln_m_data_eq_stat, gfold_append]
  exact NormalInvGamma_Gaussian_chain_rule_stat pr _ y

-- @site NormalInvGamma.ln_m_real_Gaussian
theorem NormalInvGamma_Gaussian_ln_m_perm (pr : Gen.NormalInvGamma R) {xs ys : List R} (h : xs.Perm ys) :
    Gen.NormalInvGamma.ln_m_real_Gaussian pr (.data xs) = Gen.NormalInvGamma.ln_m_real_Gaussian pr (.data ys) := by
  rw [NormalInvGamma_Gaussian_ln_m_data_eq_stat, NormalInvGamma_Gaussian_ln_m_data_eq_stat, gfold, gfold,
    GaussStat_fold_perm h]

theorem NIG_post_new (pr : Gen.NormalInvGamma R) (hv : 0 < pr.v.val) (ha : 0 < pr.a.val) (hb : 0 < pr.b.val) :
    (Gen.posterior_from_stat_normal_inv_gamma pr Gen.GaussianSuffStat.new).v.val = pr.v.val
    ∧ (Gen.posterior_from_stat_normal_inv_gamma pr Gen.GaussianSuffStat.new).a.val = pr.a.val
    ∧ (Gen.posterior_from_stat_normal_inv_gamma pr Gen.GaussianSuffStat.new).b.val = pr.b.val := by
  have hv' := hv.ne'
  simp only [Gen.posterior_from_stat_normal_inv_gamma,
    Gen.NormalInvGamma.emit_params, Gen.NormalInvGamma.get_m, Gen.NormalInvGamma.get_v, Gen.NormalInvGamma.get_a,
    Gen.NormalInvGamma.get_b,
    Gen.GaussianSuffStat.get_n, Gen.GaussianSuffStat.sum_x, Gen.GaussianSuffStat.sum_x_sq,
    Gen.GaussianSuffStat.get_mean, Gen.GaussianSuffStat.new]
  rw [NormalInvGamma_new_ok]
  · refine ⟨?_, ?_, ?_⟩ <;>
      simp only [mulAdd, RealLike.recip, R.add_val, R.sub_val, R.mul_val, R.div_val, R.neg_val, R.ofNatR_val, lit0,
        lit05, lit1, Nat.cast_zero] <;> field_simp <;> ring
  · simp only [RealLike.recip, R.add_val, R.div_val, R.ofNatR_val, lit1, Nat.cast_zero, add_zero]; positivity
  · simp only [mulAdd, R.add_val, R.mul_val, R.ofNatR_val, Nat.cast_zero, zero_mul, zero_add]; exact ha
  · convert hb using 1
    simp only [mulAdd, RealLike.recip, R.add_val, R.sub_val, R.mul_val, R.div_val, R.neg_val, R.ofNatR_val, lit0,
      lit05, lit1, Nat.cast_zero]
    field_simp
    ring

-- @site NormalInvGamma.ln_m_real_Gaussian
theorem NormalInvGamma_Gaussian_ln_m_empty (pr : Gen.NormalInvGamma R) (hv : 0 < pr.v.val) (ha : 0 < pr.a.val)
    (hb : 0 < pr.b.val) :
    (Gen.NormalInvGamma.ln_m_real_Gaussian pr (.data [])).val = 0 := by
  rw [NormalInvGamma_Gaussian_ln_m_data_eq_stat]
  obtain ⟨e1, e2, e3⟩ := NIG_post_new pr hv ha hb
  simp only [Gen.NormalInvGamma.ln_m_real_Gaussian, Gen.NormalInvGamma.ln_m_with_cache_real_Gaussian,
    Gen.NormalInvGamma.ln_m_cache_real_Gaussian, Gen.ln_z_normal_inv_gamma, gfold, List.foldl_nil,
    Gen.GaussianSuffStat.get_n, mulAdd, R.add_val, R.sub_val, R.mul_val, R.neg_val, R.ln_val, R.lgamma_val,
    R.ofNatR_val, e1, e2, e3]
  simp [Gen.GaussianSuffStat.new]

example : ∃ pr : Gen.NormalInvGamma R, 0 < pr.v.val ∧ 0 < pr.a.val ∧ 0 < pr.b.val :=
  ⟨⟨⟨-1⟩, ⟨2⟩, ⟨3/2⟩, ⟨5⟩⟩, by norm_num, by norm_num, by norm_num⟩

/-! ## NormalInvChiSquared – Gaussian -/

-- @site NormalInvChiSquared.ln_m_real_Gaussian
theorem NormalInvChiSquared_Gaussian_ln_m_cached (pr : Gen.NormalInvChiSquared R) (x : DataOrSuffStat R GStat) :
    Gen.NormalInvChiSquared.ln_m_real_Gaussian pr x
      = Gen.NormalInvChiSquared.ln_m_with_cache_real_Gaussian pr (Gen.NormalInvChiSquared.ln_m_cache_real_Gaussian pr) x := rfl

-- @site NormalInvChiSquared.ln_pp_real_Gaussian
theorem NormalInvChiSquared_Gaussian_ln_pp_cached (pr : Gen.NormalInvChiSquared R) (y : R) (x : DataOrSuffStat R GStat) :
    Gen.NormalInvChiSquared.ln_pp_real_Gaussian pr y x
      = Gen.NormalInvChiSquared.ln_pp_with_cache_real_Gaussian pr (Gen.NormalInvChiSquared.ln_pp_cache_real_Gaussian pr x) y := rfl

-- @site NormalInvChiSquared.pp_real_Gaussian
theorem NormalInvChiSquared_Gaussian_pp_eq_exp (pr : Gen.NormalInvChiSquared R) (y : R) (x : DataOrSuffStat R GStat) :
    Gen.NormalInvChiSquared.pp_real_Gaussian pr y x = RealLike.exp (Gen.NormalInvChiSquared.ln_pp_real_Gaussian pr y x) := rfl

-- @site NormalInvChiSquared.pp_with_cache_real_Gaussian
theorem NormalInvChiSquared_Gaussian_pp_with_cache_eq_exp (pr : Gen.NormalInvChiSquared R) (c : GStat × R) (y : R) :
    Gen.NormalInvChiSquared.pp_with_cache_real_Gaussian pr c y
      = RealLike.exp (Gen.NormalInvChiSquared.ln_pp_with_cache_real_Gaussian pr c y) := rfl

-- @site NormalInvChiSquared.ln_m_real_Gaussian
theorem NormalInvChiSquared_Gaussian_ln_m_data_eq_stat (pr : Gen.NormalInvChiSquared R) (xs : List R) :
    Gen.NormalInvChiSquared.ln_m_real_Gaussian pr (.data xs) = Gen.NormalInvChiSquared.ln_m_real_Gaussian pr (.suffStat (gfold xs)) := rfl

-- @site NormalInvChiSquared.ln_pp_real_Gaussian
theorem NormalInvChiSquared_Gaussian_ln_pp_data_eq_stat (pr : Gen.NormalInvChiSquared R) (y : R) (xs : List R) :
    Gen.NormalInvChiSquared.ln_pp_real_Gaussian pr y (.data xs)
      = Gen.NormalInvChiSquared.ln_pp_real_Gaussian pr y (.suffStat (gfold xs)) := rfl

-- @site NormalInvChiSquared.ln_pp_real_Gaussian
theorem NormalInvChiSquared_Gaussian_chain_rule_stat (pr : Gen.NormalInvChiSquared R) (S : GStat) (y : R) :
    (Gen.NormalInvChiSquared.ln_pp_real_Gaussian pr y (.suffStat S)).val
      = (Gen.NormalInvChiSquared.ln_m_real_Gaussian pr (.suffStat (Gen.GaussianSuffStat.observe_real S y))).val
        - (Gen.NormalInvChiSquared.ln_m_real_Gaussian pr (.suffStat S)).val := by
  have hn : (Gen.GaussianSuffStat.observe_real S y).n = S.n + 1 := rfl
  simp only [Gen.NormalInvChiSquared.ln_pp_real_Gaussian, Gen.NormalInvChiSquared.ln_pp_cache_real_Gaussian,
    Gen.NormalInvChiSquared.ln_pp_with_cache_real_Gaussian, Gen.NormalInvChiSquared.ln_m_real_Gaussian,
    Gen.NormalInvChiSquared.ln_m_with_cache_real_Gaussian, 
    Gen.GaussianSuffStat.get_n, hn, mulAdd, R.add_val, R.sub_val, R.mul_val, R.neg_val, R.ofNatR_val]
  push_cast
  ring

-- @site NormalInvChiSquared.ln_pp_real_Gaussian
theorem NormalInvChiSquared_Gaussian_chain_rule (pr : Gen.NormalInvChiSquared R) (xs : List R) (y : R) :
    (Gen.NormalInvChiSquared.ln_pp_real_Gaussian pr y (.data xs)).val
      = (Gen.NormalInvChiSquared.ln_m_real_Gaussian pr (.data (xs ++ [y]))).val
        - (Gen.NormalInvChiSquared.ln_m_real_Gaussian pr (.data xs)).val := by
  rw [NormalInvChiSquared_Gaussian_ln_pp_data_eq_stat, NormalInvChiSquared_Gaussian_ln_m_data_eq_stat,
    NormalInvChiSquared_Gaussian_ln_m_data_eq_stat, gfold_append]
  exact NormalInvChiSquared_Gaussian_chain_rule_stat pr _ y

-- @site NormalInvChiSquared.ln_m_real_Gaussian
theorem NormalInvChiSquared_Gaussian_ln_m_perm (pr : Gen.NormalInvChiSquared R) {xs ys : List R} (h : xs.Perm ys) :
    Gen.NormalInvChiSquared.ln_m_real_Gaussian pr (.data xs) = Gen.NormalInvChiSquared.ln_m_real_Gaussian pr (.data ys) := by
  rw [NormalInvChiSquared_Gaussian_ln_m_data_eq_stat, NormalInvChiSquared_Gaussian_ln_m_data_eq_stat, gfold, gfold,
    GaussStat_fold_perm h]

-- @site NormalInvChiSquared.ln_m_real_Gaussian
theorem NormalInvChiSquared_Gaussian_ln_m_empty (pr : Gen.NormalInvChiSquared R) :
    (Gen.NormalInvChiSquared.ln_m_real_Gaussian pr (.data [])).val = 0 := by
  rw [NormalInvChiSquared_Gaussian_ln_m_data_eq_stat]
  simp only [Gen.NormalInvChiSquared.ln_m_real_Gaussian, Gen.NormalInvChiSquared.ln_m_with_cache_real_Gaussian,
    Gen.NormalInvChiSquared.ln_m_cache_real_Gaussian, Gen.posterior_from_stat_normal_inv_chi_squared,
    Gen.GaussianSuffStat.get_n, gfold, List.foldl_nil, Gen.GaussianSuffStat.new, beq_self_eq_true, if_true,
    mulAdd, R.add_val, R.sub_val, R.mul_val, R.neg_val, R.ofNatR_val, Nat.cast_zero]
  ring

example : ∃ pr : Gen.NormalInvChiSquared R, 0 < pr.k.val ∧ 0 < pr.v.val ∧ 0 < pr.s2.val :=
  ⟨⟨⟨-1⟩, ⟨2⟩, ⟨3/2⟩, ⟨5⟩⟩, by norm_num, by norm_num, by norm_num⟩

end C06

-- AXIOMS
#print axioms C06.gfold_append
#print axioms C06.NormalGamma_Gaussian_ln_m_cached
#print axioms C06.NormalGamma_Gaussian_ln_pp_cached
#print axioms C06.NormalGamma_Gaussian_pp_eq_exp
#print axioms C06.NormalGamma_Gaussian_pp_with_cache_eq_exp
#print axioms C06.NormalGamma_Gaussian_ln_m_data_eq_stat
#print axioms C06.NormalGamma_Gaussian_ln_pp_data_eq_stat
#print axioms C06.NormalGamma_Gaussian_chain_rule_stat
#print axioms C06.NormalGamma_Gaussian_chain_rule
#print axioms C06.NormalGamma_Gaussian_ln_m_perm
#print axioms C06.NormalGamma_Gaussian_ln_m_empty
#print axioms C06.NormalInvGamma_Gaussian_ln_m_cached
#print axioms C06.NormalInvGamma_Gaussian_ln_pp_cached
#print axioms C06.NormalInvGamma_Gaussian_pp_eq_exp
#print axioms C06.NormalInvGamma_Gaussian_pp_with_cache_eq_exp
#print axioms C06.NormalInvGamma_Gaussian_ln_m_data_eq_stat
#print axioms C06.NormalInvGamma_Gaussian_ln_pp_data_eq_stat
#print axioms C06.NormalInvGamma_Gaussian_chain_rule_stat
#print axioms C06.NormalInvGamma_Gaussian_chain_rule
#print axioms C06.NormalInvGamma_Gaussian_ln_m_perm
#print axioms C06.NIG_post_new
#print axioms C06.NormalInvGamma_Gaussian_ln_m_empty
#print axioms C06.NormalInvChiSquared_Gaussian_ln_m_cached
#print axioms C06.NormalInvChiSquared_Gaussian_ln_pp_cached
#print axioms C06.NormalInvChiSquared_Gaussian_pp_eq_exp
#print axioms C06.NormalInvChiSquared_Gaussian_pp_with_cache_eq_exp
#print axioms C06.NormalInvChiSquared_Gaussian_ln_m_data_eq_stat
#print axioms C06.NormalInvChiSquared_Gaussian_ln_pp_data_eq_stat
#print axioms C06.NormalInvChiSquared_Gaussian_chain_rule_stat
#print axioms C06.NormalInvChiSquared_Gaussian_chain_rule
#print axioms C06.NormalInvChiSquared_Gaussian_ln_m_perm
#print axioms C06.NormalInvChiSquared_Gaussian_ln_m_empty
