import RvModel.RealInst
import RvModel.Gen.Defs
import RvModel.Lemmas.C06
/-!
  C06 (group B): NormalGamma–, NormalInvGamma–, NormalInvChiSquared–Gaussian over the exact-real carrier `R`.

  Per pair: cached = uncached (`*_cached`, `*_eq_exp`, `*_data_eq_stat`), `ln_m [] = 0`, permutation invariance of
  `ln_m` (the Welford update commutes exactly on `R`, `C06L.GaussStat_obs_comm`), the chain rule (here structural: the
  code computes `ln_pp` and `ln_m` through the same `ln_z (posterior_from_stat …)`), and
  `*_pp_normalised_partial`: `ln_pp y | S` is the log-density of the textbook Student-t whose parameters are read off
  the model's own posterior (this uses the closed form of `posterior_from_stat` and the one-step composition
  `posterior (S ∪ {y})` from `posterior S`).  Missing for the full normalisation statement: the Student-t integral
  (not in Mathlib).  The integral form of `m` for these two-dimensional priors is not attempted.

  Not in the generated model: the trait default `ConjugatePrior::m` of these three priors (its key collides with the
  inherent getter `m()`), and `ConjugateModel`.

  Helper lemmas: `RvModel/Lemmas/C06.lean` (namespace `C06L`).
-/
set_option linter.unusedSimpArgs false
set_option linter.unnecessarySeqFocus false
open Real C06L

namespace C06

/-! ## NormalGamma – Gaussian -/

-- @site NormalGamma.ln_m_real_Gaussian
theorem NormalGamma_Gaussian_ln_m_cached (pr : Gen.NormalGamma R) (x : DataOrSuffStat R GStat) :
    Gen.NormalGamma.ln_m_real_Gaussian pr x
      = Gen.NormalGamma.ln_m_with_cache_real_Gaussian pr (Gen.NormalGamma.ln_m_cache_real_Gaussian pr) x := rfl

-- @site NormalGamma.ln_pp_real_Gaussian
theorem NormalGamma_Gaussian_ln_pp_cached (pr : Gen.NormalGamma R) (y : R) (x : DataOrSuffStat R GStat) :
    Gen.NormalGamma.ln_pp_real_Gaussian pr y x
      = Gen.NormalGamma.ln_pp_with_cache_real_Gaussian pr (Gen.NormalGamma.ln_pp_cache_real_Gaussian pr x) y := rfl

-- @site NormalGamma.pp_real_Gaussian
theorem NormalGamma_Gaussian_pp_eq_exp (pr : Gen.NormalGamma R) (y : R) (x : DataOrSuffStat R GStat) :
    Gen.NormalGamma.pp_real_Gaussian pr y x = RealLike.exp (Gen.NormalGamma.ln_pp_real_Gaussian pr y x) := rfl

-- @site NormalGamma.pp_with_cache_real_Gaussian
theorem NormalGamma_Gaussian_pp_with_cache_eq_exp (pr : Gen.NormalGamma R) (c : GStat × R) (y : R) :
    Gen.NormalGamma.pp_with_cache_real_Gaussian pr c y
      = RealLike.exp (Gen.NormalGamma.ln_pp_with_cache_real_Gaussian pr c y) := rfl

-- @site NormalGamma.ln_m_real_Gaussian
theorem NormalGamma_Gaussian_ln_m_data_eq_stat (pr : Gen.NormalGamma R) (xs : List R) :
    Gen.NormalGamma.ln_m_real_Gaussian pr (.data xs) = Gen.NormalGamma.ln_m_real_Gaussian pr (.suffStat (gfold xs)) := rfl

-- @site NormalGamma.ln_pp_real_Gaussian
theorem NormalGamma_Gaussian_ln_pp_data_eq_stat (pr : Gen.NormalGamma R) (y : R) (xs : List R) :
    Gen.NormalGamma.ln_pp_real_Gaussian pr y (.data xs)
      = Gen.NormalGamma.ln_pp_real_Gaussian pr y (.suffStat (gfold xs)) := rfl

-- @site NormalGamma.ln_pp_real_Gaussian
theorem NormalGamma_Gaussian_chain_rule_stat (pr : Gen.NormalGamma R) (S : GStat) (y : R) :
    (Gen.NormalGamma.ln_pp_real_Gaussian pr y (.suffStat S)).val
      = (Gen.NormalGamma.ln_m_real_Gaussian pr (.suffStat (Gen.GaussianSuffStat.observe_real S y))).val
        - (Gen.NormalGamma.ln_m_real_Gaussian pr (.suffStat S)).val := by
  have hn : (Gen.GaussianSuffStat.observe_real S y).n = S.n + 1 := rfl
  simp only [Gen.NormalGamma.ln_pp_real_Gaussian, Gen.NormalGamma.ln_pp_cache_real_Gaussian,
    Gen.NormalGamma.ln_pp_with_cache_real_Gaussian, Gen.NormalGamma.ln_m_real_Gaussian,
    Gen.NormalGamma.ln_m_with_cache_real_Gaussian, Gen.NormalGamma.get_r, Gen.NormalGamma.get_s, Gen.NormalGamma.get_v,
    Gen.GaussianSuffStat.get_n, hn, mulAdd, R.add_val, R.sub_val, R.mul_val, R.neg_val, R.ofNatR_val]
  push_cast
  ring

-- @site NormalGamma.ln_pp_real_Gaussian
theorem NormalGamma_Gaussian_chain_rule (pr : Gen.NormalGamma R) (xs : List R) (y : R) :
    (Gen.NormalGamma.ln_pp_real_Gaussian pr y (.data xs)).val
      = (Gen.NormalGamma.ln_m_real_Gaussian pr (.data (xs ++ [y]))).val
        - (Gen.NormalGamma.ln_m_real_Gaussian pr (.data xs)).val := by
  rw [NormalGamma_Gaussian_ln_pp_data_eq_stat, NormalGamma_Gaussian_ln_m_data_eq_stat,
    NormalGamma_Gaussian_ln_m_data_eq_stat, gfold_append]
  exact NormalGamma_Gaussian_chain_rule_stat pr _ y

-- @site NormalGamma.ln_m_real_Gaussian
theorem NormalGamma_Gaussian_ln_m_perm (pr : Gen.NormalGamma R) {xs ys : List R} (h : xs.Perm ys) :
    Gen.NormalGamma.ln_m_real_Gaussian pr (.data xs) = Gen.NormalGamma.ln_m_real_Gaussian pr (.data ys) := by
  rw [NormalGamma_Gaussian_ln_m_data_eq_stat, NormalGamma_Gaussian_ln_m_data_eq_stat, gfold, gfold,
    GaussStat_fold_perm h]

-- @site NormalGamma.ln_m_real_Gaussian
theorem NormalGamma_Gaussian_ln_m_empty (pr : Gen.NormalGamma R) (hr : 0 < pr.r.val) (hs : 0 < pr.s.val)
    (hv : 0 < pr.v.val) :
    (Gen.NormalGamma.ln_m_real_Gaussian pr (.data [])).val = 0 := by
  rw [NormalGamma_Gaussian_ln_m_data_eq_stat]
  simp only [Gen.NormalGamma.ln_m_real_Gaussian, Gen.NormalGamma.ln_m_with_cache_real_Gaussian,
    Gen.NormalGamma.ln_m_cache_real_Gaussian, Gen.posterior_from_stat_normal_gamma,
    Gen.NormalGamma.get_r, Gen.NormalGamma.get_s, Gen.NormalGamma.get_v, Gen.NormalGamma.get_m,
    Gen.GaussianSuffStat.get_n, Gen.GaussianSuffStat.sum_x, Gen.GaussianSuffStat.sum_x_sq,
    Gen.GaussianSuffStat.get_mean, gfold, List.foldl_nil, Gen.GaussianSuffStat.new]
  rw [NormalGamma_new_ok]
  · simp only [Gen.ln_z_normal_gamma, mulAdd, R.add_val, R.sub_val, R.mul_val, R.div_val, R.neg_val, R.ln_val,
      R.lgamma_val, R.ofNatR_val, R.ln2_val, R.halfLnPi_val, R.halfLn2Pi_val, lit0, lit05, Nat.cast_zero]
    have hr' := hr.ne'
    simp [hr']
    ring_nf
  · simp only [R.add_val, R.ofNatR_val, Nat.cast_zero, add_zero]; exact hr
  · convert hs using 1
    have hr' := hr.ne'
    simp only [mulAdd, R.add_val, R.sub_val, R.mul_val, R.div_val, R.neg_val, R.ofNatR_val, lit0, Nat.cast_zero]
    field_simp
    ring
  · simp only [R.add_val, R.ofNatR_val, Nat.cast_zero, add_zero]; exact hv

/-! ### NormalGamma: the predictive is a Student-t -/

/-- The NormalGamma posterior predictive of `y` given a statistic is the Student-t density with `ν = vₙ`, location `mₙ`
    and squared scale `sₙ(rₙ+1)/(vₙ rₙ)`, where `(mₙ,rₙ,sₙ,vₙ)` is the model's own posterior
    (`posterior_from_stat_normal_gamma`).  Full statement of C06.5 for this pair would add
    `∫ y, exp (ln_pp y) = 1`; missing: Mathlib has no Student-t distribution, i.e. no proof of
    `∫ (1 + t²/ν)^(-(ν+1)/2) dt = √(νπ) Γ(ν/2) / Γ((ν+1)/2)`. -/
-- @site NormalGamma.ln_pp_real_Gaussian
theorem NormalGamma_Gaussian_pp_normalised_partial (pr : Gen.NormalGamma R) (S : GStat) (y : R)
    (hr : 0 < pr.r.val) (hs : 0 < pr.s.val) (hv : 0 < pr.v.val) (hsx : 0 ≤ S.sx.val) :
    (Gen.NormalGamma.ln_pp_real_Gaussian pr y (.suffStat S)).val
      = lnStudentT (Gen.NormalGamma.posterior_real_Gaussian pr (.suffStat S)).v.val
          (Gen.NormalGamma.posterior_real_Gaussian pr (.suffStat S)).m.val
          ((Gen.NormalGamma.posterior_real_Gaussian pr (.suffStat S)).s.val
            * ((Gen.NormalGamma.posterior_real_Gaussian pr (.suffStat S)).r.val + 1)
            / ((Gen.NormalGamma.posterior_real_Gaussian pr (.suffStat S)).v.val
                * (Gen.NormalGamma.posterior_real_Gaussian pr (.suffStat S)).r.val)) y.val := by
  obtain ⟨p1, p2, p3, p4⟩ := NG_post_vals pr S hr hs hv hsx
  obtain ⟨q1, q2, q3, q4⟩ := NG_post_vals pr (Gen.GaussianSuffStat.observe_real S y) hr hs hv
    (GaussStat_obs_sx_nonneg S y hsx)
  have hn1 : (0:ℝ) < (S.n : ℝ) + 1 := by positivity
  have hrn : 0 < pr.r.val + (S.n : ℝ) := by positivity
  have hrn1 : 0 < pr.r.val + (S.n : ℝ) + 1 := by positivity
  have hP : Gen.NormalGamma.posterior_real_Gaussian pr (.suffStat S) = Gen.posterior_from_stat_normal_gamma pr S := rfl
  rw [hP]
  simp only [Gen.NormalGamma.ln_pp_real_Gaussian, Gen.NormalGamma.ln_pp_cache_real_Gaussian,
    Gen.NormalGamma.ln_pp_with_cache_real_Gaussian, Gen.NormalGamma.get_r, Gen.NormalGamma.get_s, Gen.NormalGamma.get_v,
    ln_z_normal_gamma_val, R.add_val, R.sub_val, R.neg_val, R.halfLn2Pi_val]
  refine ng_student (by rw [p1]; exact hrn) (by rw [p4]; positivity) (by rw [p2]; positivity) ?_ ?_ ?_
  · rw [q1, p1]; simp only [Gen.GaussianSuffStat.observe_real]; push_cast; ring
  · rw [q2, p2]; simp only [Gen.GaussianSuffStat.observe_real]; push_cast; ring
  · rw [q4, p4, p1, p3]
    simp only [Gen.GaussianSuffStat.observe_real, mulAdd, RealLike.recip, R.add_val, R.sub_val, R.mul_val, R.div_val,
      R.ofNatR_val, lit1, Nat.cast_add, Nat.cast_one]
    field_simp
    ring

example : ∃ pr : Gen.NormalGamma R, 0 < pr.r.val ∧ 0 < pr.s.val ∧ 0 < pr.v.val :=
  ⟨⟨⟨-1⟩, ⟨2⟩, ⟨3/2⟩, ⟨5⟩⟩, by norm_num, by norm_num, by norm_num⟩

/-! ## NormalInvGamma – Gaussian -/

-- @site NormalInvGamma.ln_m_real_Gaussian
theorem NormalInvGamma_Gaussian_ln_m_cached (pr : Gen.NormalInvGamma R) (x : DataOrSuffStat R GStat) :
    Gen.NormalInvGamma.ln_m_real_Gaussian pr x
      = Gen.NormalInvGamma.ln_m_with_cache_real_Gaussian pr (Gen.NormalInvGamma.ln_m_cache_real_Gaussian pr) x := rfl

-- @site NormalInvGamma.ln_pp_real_Gaussian
theorem NormalInvGamma_Gaussian_ln_pp_cached (pr : Gen.NormalInvGamma R) (y : R) (x : DataOrSuffStat R GStat) :
    Gen.NormalInvGamma.ln_pp_real_Gaussian pr y x
      = Gen.NormalInvGamma.ln_pp_with_cache_real_Gaussian pr (Gen.NormalInvGamma.ln_pp_cache_real_Gaussian pr x) y := rfl

-- @site NormalInvGamma.pp_real_Gaussian
theorem NormalInvGamma_Gaussian_pp_eq_exp (pr : Gen.NormalInvGamma R) (y : R) (x : DataOrSuffStat R GStat) :
    Gen.NormalInvGamma.pp_real_Gaussian pr y x = RealLike.exp (Gen.NormalInvGamma.ln_pp_real_Gaussian pr y x) := rfl

-- @site NormalInvGamma.pp_with_cache_real_Gaussian
theorem NormalInvGamma_Gaussian_pp_with_cache_eq_exp (pr : Gen.NormalInvGamma R) (c : GStat × R) (y : R) :
    Gen.NormalInvGamma.pp_with_cache_real_Gaussian pr c y
      = RealLike.exp (Gen.NormalInvGamma.ln_pp_with_cache_real_Gaussian pr c y) := rfl

-- @site NormalInvGamma.ln_m_real_Gaussian
theorem NormalInvGamma_Gaussian_ln_m_data_eq_stat (pr : Gen.NormalInvGamma R) (xs : List R) :
    Gen.NormalInvGamma.ln_m_real_Gaussian pr (.data xs) = Gen.NormalInvGamma.ln_m_real_Gaussian pr (.suffStat (gfold xs)) := rfl

-- @site NormalInvGamma.ln_pp_real_Gaussian
theorem NormalInvGamma_Gaussian_ln_pp_data_eq_stat (pr : Gen.NormalInvGamma R) (y : R) (xs : List R) :
    Gen.NormalInvGamma.ln_pp_real_Gaussian pr y (.data xs)
      = Gen.NormalInvGamma.ln_pp_real_Gaussian pr y (.suffStat (gfold xs)) := rfl

-- @site NormalInvGamma.ln_pp_real_Gaussian
theorem NormalInvGamma_Gaussian_chain_rule_stat (pr : Gen.NormalInvGamma R) (S : GStat) (y : R) :
    (Gen.NormalInvGamma.ln_pp_real_Gaussian pr y (.suffStat S)).val
      = (Gen.NormalInvGamma.ln_m_real_Gaussian pr (.suffStat (Gen.GaussianSuffStat.observe_real S y))).val
        - (Gen.NormalInvGamma.ln_m_real_Gaussian pr (.suffStat S)).val := by
  have hn : (Gen.GaussianSuffStat.observe_real S y).n = S.n + 1 := rfl
  simp only [Gen.NormalInvGamma.ln_pp_real_Gaussian, Gen.NormalInvGamma.ln_pp_cache_real_Gaussian,
    Gen.NormalInvGamma.ln_pp_with_cache_real_Gaussian, Gen.NormalInvGamma.ln_m_real_Gaussian,
    Gen.NormalInvGamma.ln_m_with_cache_real_Gaussian, 
    Gen.GaussianSuffStat.get_n, hn, mulAdd, R.add_val, R.sub_val, R.mul_val, R.neg_val, R.ofNatR_val]
  push_cast
  ring

-- @site NormalInvGamma.ln_pp_real_Gaussian
theorem NormalInvGamma_Gaussian_chain_rule (pr : Gen.NormalInvGamma R) (xs : List R) (y : R) :
    (Gen.NormalInvGamma.ln_pp_real_Gaussian pr y (.data xs)).val
      = (Gen.NormalInvGamma.ln_m_real_Gaussian pr (.data (xs ++ [y]))).val
        - (Gen.NormalInvGamma.ln_m_real_Gaussian pr (.data xs)).val := by
  rw [NormalInvGamma_Gaussian_ln_pp_data_eq_stat, NormalInvGamma_Gaussian_ln_m_data_eq_stat,
    NormalInvGamma_Gaussian_ln_m_data_eq_stat, gfold_append]
  exact NormalInvGamma_Gaussian_chain_rule_stat pr _ y

-- @site NormalInvGamma.ln_m_real_Gaussian
theorem NormalInvGamma_Gaussian_ln_m_perm (pr : Gen.NormalInvGamma R) {xs ys : List R} (h : xs.Perm ys) :
    Gen.NormalInvGamma.ln_m_real_Gaussian pr (.data xs) = Gen.NormalInvGamma.ln_m_real_Gaussian pr (.data ys) := by
  rw [NormalInvGamma_Gaussian_ln_m_data_eq_stat, NormalInvGamma_Gaussian_ln_m_data_eq_stat, gfold, gfold,
    GaussStat_fold_perm h]

-- @site NormalInvGamma.ln_m_real_Gaussian
theorem NormalInvGamma_Gaussian_ln_m_empty (pr : Gen.NormalInvGamma R) (hv : 0 < pr.v.val) (ha : 0 < pr.a.val)
    (hb : 0 < pr.b.val) :
    (Gen.NormalInvGamma.ln_m_real_Gaussian pr (.data [])).val = 0 := by
  rw [NormalInvGamma_Gaussian_ln_m_data_eq_stat]
  obtain ⟨e1, e2, e3⟩ := NIG_post_new pr hv ha hb
  simp only [Gen.NormalInvGamma.ln_m_real_Gaussian, Gen.NormalInvGamma.ln_m_with_cache_real_Gaussian,
    Gen.NormalInvGamma.ln_m_cache_real_Gaussian, Gen.ln_z_normal_inv_gamma, gfold, List.foldl_nil,
    Gen.GaussianSuffStat.get_n, mulAdd, R.add_val, R.sub_val, R.mul_val, R.neg_val, R.ln_val, R.lgamma_val,
    R.ofNatR_val, e1, e2, e3]
  simp [Gen.GaussianSuffStat.new]

/-! ### NormalInvGamma: the predictive is a Student-t -/

/-- The NormalInvGamma posterior predictive is the Student-t density with `ν = 2aₙ`, location `mₙ`, squared scale
    `bₙ(1+vₙ)/aₙ` for the model's own posterior `(mₙ,vₙ,aₙ,bₙ)`.  Missing for the full C06.5 statement: the
    Student-t normalisation integral (not in Mathlib). -/
-- @site NormalInvGamma.ln_pp_real_Gaussian
theorem NormalInvGamma_Gaussian_pp_normalised_partial (pr : Gen.NormalInvGamma R) (S : GStat) (y : R)
    (hv : 0 < pr.v.val) (ha : 0 < pr.a.val) (hb : 0 < pr.b.val) (hsx : 0 ≤ S.sx.val) :
    (Gen.NormalInvGamma.ln_pp_real_Gaussian pr y (.suffStat S)).val
      = lnStudentT (2 * (Gen.NormalInvGamma.posterior_real_Gaussian pr (.suffStat S)).a.val)
          (Gen.NormalInvGamma.posterior_real_Gaussian pr (.suffStat S)).m.val
          ((Gen.NormalInvGamma.posterior_real_Gaussian pr (.suffStat S)).b.val
            * (1 + (Gen.NormalInvGamma.posterior_real_Gaussian pr (.suffStat S)).v.val)
            / (Gen.NormalInvGamma.posterior_real_Gaussian pr (.suffStat S)).a.val) y.val := by
  obtain ⟨p1, p2, p3, p4⟩ := NIG_post_vals pr S hv ha hb hsx
  obtain ⟨q1, q2, q3, q4⟩ := NIG_post_vals pr (Gen.GaussianSuffStat.observe_real S y) hv ha hb
    (GaussStat_obs_sx_nonneg S y hsx)
  have hn1 : (0:ℝ) < (S.n : ℝ) + 1 := by positivity
  have h1 : 0 < 1 + (S.n : ℝ) * pr.v.val := by positivity
  have h2 : 0 < 1 + ((S.n : ℝ) + 1) * pr.v.val := by positivity
  have h3 : 0 < 1 + (S.n : ℝ) * pr.v.val + pr.v.val := by positivity
  have hP : Gen.NormalInvGamma.posterior_real_Gaussian pr (.suffStat S)
      = Gen.posterior_from_stat_normal_inv_gamma pr S := rfl
  rw [hP]
  simp only [Gen.NormalInvGamma.ln_pp_real_Gaussian, Gen.NormalInvGamma.ln_pp_cache_real_Gaussian,
    Gen.NormalInvGamma.ln_pp_with_cache_real_Gaussian,
    ln_z_normal_inv_gamma_val, R.add_val, R.sub_val, R.neg_val, R.halfLn2Pi_val]
  refine nig_student (by rw [p1]; positivity) (by rw [p2]; positivity) (by rw [p4]; positivity) ?_ ?_ ?_
  · rw [q1, p1]; simp only [Gen.GaussianSuffStat.observe_real]; push_cast; field_simp; ring
  · rw [q2, p2]; simp only [Gen.GaussianSuffStat.observe_real]; push_cast; ring
  · rw [q4, p4, p1, p3]
    simp only [Gen.GaussianSuffStat.observe_real, mulAdd, RealLike.recip, R.add_val, R.sub_val, R.mul_val, R.div_val,
      R.ofNatR_val, lit1, Nat.cast_add, Nat.cast_one]
    field_simp
    ring

example : ∃ pr : Gen.NormalInvGamma R, 0 < pr.v.val ∧ 0 < pr.a.val ∧ 0 < pr.b.val :=
  ⟨⟨⟨-1⟩, ⟨2⟩, ⟨3/2⟩, ⟨5⟩⟩, by norm_num, by norm_num, by norm_num⟩

/-! ## NormalInvChiSquared – Gaussian -/

-- @site NormalInvChiSquared.ln_m_real_Gaussian
theorem NormalInvChiSquared_Gaussian_ln_m_cached (pr : Gen.NormalInvChiSquared R) (x : DataOrSuffStat R GStat) :
    Gen.NormalInvChiSquared.ln_m_real_Gaussian pr x
      = Gen.NormalInvChiSquared.ln_m_with_cache_real_Gaussian pr (Gen.NormalInvChiSquared.ln_m_cache_real_Gaussian pr) x := rfl

-- @site NormalInvChiSquared.ln_pp_real_Gaussian
theorem NormalInvChiSquared_Gaussian_ln_pp_cached (pr : Gen.NormalInvChiSquared R) (y : R) (x : DataOrSuffStat R GStat) :
    Gen.NormalInvChiSquared.ln_pp_real_Gaussian pr y x
      = Gen.NormalInvChiSquared.ln_pp_with_cache_real_Gaussian pr (Gen.NormalInvChiSquared.ln_pp_cache_real_Gaussian pr x) y := rfl

-- @site NormalInvChiSquared.pp_real_Gaussian
theorem NormalInvChiSquared_Gaussian_pp_eq_exp (pr : Gen.NormalInvChiSquared R) (y : R) (x : DataOrSuffStat R GStat) :
    Gen.NormalInvChiSquared.pp_real_Gaussian pr y x = RealLike.exp (Gen.NormalInvChiSquared.ln_pp_real_Gaussian pr y x) := rfl

-- @site NormalInvChiSquared.pp_with_cache_real_Gaussian
theorem NormalInvChiSquared_Gaussian_pp_with_cache_eq_exp (pr : Gen.NormalInvChiSquared R) (c : GStat × R) (y : R) :
    Gen.NormalInvChiSquared.pp_with_cache_real_Gaussian pr c y
      = RealLike.exp (Gen.NormalInvChiSquared.ln_pp_with_cache_real_Gaussian pr c y) := rfl

-- @site NormalInvChiSquared.ln_m_real_Gaussian
theorem NormalInvChiSquared_Gaussian_ln_m_data_eq_stat (pr : Gen.NormalInvChiSquared R) (xs : List R) :
    Gen.NormalInvChiSquared.ln_m_real_Gaussian pr (.data xs) = Gen.NormalInvChiSquared.ln_m_real_Gaussian pr (.suffStat (gfold xs)) := rfl

-- @site NormalInvChiSquared.ln_pp_real_Gaussian
theorem NormalInvChiSquared_Gaussian_ln_pp_data_eq_stat (pr : Gen.NormalInvChiSquared R) (y : R) (xs : List R) :
    Gen.NormalInvChiSquared.ln_pp_real_Gaussian pr y (.data xs)
      = Gen.NormalInvChiSquared.ln_pp_real_Gaussian pr y (.suffStat (gfold xs)) := rfl

-- @site NormalInvChiSquared.ln_pp_real_Gaussian
theorem NormalInvChiSquared_Gaussian_chain_rule_stat (pr : Gen.NormalInvChiSquared R) (S : GStat) (y : R) :
    (Gen.NormalInvChiSquared.ln_pp_real_Gaussian pr y (.suffStat S)).val
      = (Gen.NormalInvChiSquared.ln_m_real_Gaussian pr (.suffStat (Gen.GaussianSuffStat.observe_real S y))).val
        - (Gen.NormalInvChiSquared.ln_m_real_Gaussian pr (.suffStat S)).val := by
  have hn : (Gen.GaussianSuffStat.observe_real S y).n = S.n + 1 := rfl
  simp only [Gen.NormalInvChiSquared.ln_pp_real_Gaussian, Gen.NormalInvChiSquared.ln_pp_cache_real_Gaussian,
    Gen.NormalInvChiSquared.ln_pp_with_cache_real_Gaussian, Gen.NormalInvChiSquared.ln_m_real_Gaussian,
    Gen.NormalInvChiSquared.ln_m_with_cache_real_Gaussian, 
    Gen.GaussianSuffStat.get_n, hn, mulAdd, R.add_val, R.sub_val, R.mul_val, R.neg_val, R.ofNatR_val]
  push_cast
  ring

-- @site NormalInvChiSquared.ln_pp_real_Gaussian
theorem NormalInvChiSquared_Gaussian_chain_rule (pr : Gen.NormalInvChiSquared R) (xs : List R) (y : R) :
    (Gen.NormalInvChiSquared.ln_pp_real_Gaussian pr y (.data xs)).val
      = (Gen.NormalInvChiSquared.ln_m_real_Gaussian pr (.data (xs ++ [y]))).val
        - (Gen.NormalInvChiSquared.ln_m_real_Gaussian pr (.data xs)).val := by
  rw [NormalInvChiSquared_Gaussian_ln_pp_data_eq_stat, NormalInvChiSquared_Gaussian_ln_m_data_eq_stat,
    NormalInvChiSquared_Gaussian_ln_m_data_eq_stat, gfold_append]
  exact NormalInvChiSquared_Gaussian_chain_rule_stat pr _ y

-- @site NormalInvChiSquared.ln_m_real_Gaussian
theorem NormalInvChiSquared_Gaussian_ln_m_perm (pr : Gen.NormalInvChiSquared R) {xs ys : List R} (h : xs.Perm ys) :
    Gen.NormalInvChiSquared.ln_m_real_Gaussian pr (.data xs) = Gen.NormalInvChiSquared.ln_m_real_Gaussian pr (.data ys) := by
  rw [NormalInvChiSquared_Gaussian_ln_m_data_eq_stat, NormalInvChiSquared_Gaussian_ln_m_data_eq_stat, gfold, gfold,
    GaussStat_fold_perm h]

-- @site NormalInvChiSquared.ln_m_real_Gaussian
theorem NormalInvChiSquared_Gaussian_ln_m_empty (pr : Gen.NormalInvChiSquared R) :
    (Gen.NormalInvChiSquared.ln_m_real_Gaussian pr (.data [])).val = 0 := by
  rw [NormalInvChiSquared_Gaussian_ln_m_data_eq_stat]
  simp only [Gen.NormalInvChiSquared.ln_m_real_Gaussian, Gen.NormalInvChiSquared.ln_m_with_cache_real_Gaussian,
    Gen.NormalInvChiSquared.ln_m_cache_real_Gaussian, Gen.posterior_from_stat_normal_inv_chi_squared,
    Gen.GaussianSuffStat.get_n, gfold, List.foldl_nil, Gen.GaussianSuffStat.new, beq_self_eq_true, if_true,
    mulAdd, R.add_val, R.sub_val, R.mul_val, R.neg_val, R.ofNatR_val, Nat.cast_zero]
  ring

/-! ### NormalInvChiSquared: the predictive is a Student-t -/

/-- The NormalInvChiSquared posterior predictive is the Student-t density with `ν = vₙ`, location `mₙ`, squared scale
    `(1+kₙ) s2ₙ / kₙ` for the model's own posterior `(mₙ,kₙ,vₙ,s2ₙ)`.  Missing for the full C06.5 statement: the
    Student-t normalisation integral (not in Mathlib). -/
-- @site NormalInvChiSquared.ln_pp_real_Gaussian
theorem NormalInvChiSquared_Gaussian_pp_normalised_partial (pr : Gen.NormalInvChiSquared R) (S : GStat) (y : R)
    (hk : 0 < pr.k.val) (hv : 0 < pr.v.val) (hs : 0 < pr.s2.val) (hsx : 0 ≤ S.sx.val)
    (hsx0 : S.n = 0 → S.sx.val = 0) :
    (Gen.NormalInvChiSquared.ln_pp_real_Gaussian pr y (.suffStat S)).val
      = lnStudentT (Gen.NormalInvChiSquared.posterior_real_Gaussian pr (.suffStat S)).v.val
          (Gen.NormalInvChiSquared.posterior_real_Gaussian pr (.suffStat S)).m.val
          ((1 + (Gen.NormalInvChiSquared.posterior_real_Gaussian pr (.suffStat S)).k.val)
            * (Gen.NormalInvChiSquared.posterior_real_Gaussian pr (.suffStat S)).s2.val
            / (Gen.NormalInvChiSquared.posterior_real_Gaussian pr (.suffStat S)).k.val) y.val := by
  obtain ⟨p1, p2, p3, p4⟩ := NIX_post_vals pr S hk hv hs hsx hsx0
  obtain ⟨q1, q2, q3, q4⟩ := NIX_post_vals pr (Gen.GaussianSuffStat.observe_real S y) hk hv hs
    (GaussStat_obs_sx_nonneg S y hsx) (by intro h; simp [Gen.GaussianSuffStat.observe_real] at h)
  have hn1 : (0:ℝ) < (S.n : ℝ) + 1 := by positivity
  have hkn : 0 < pr.k.val + (S.n : ℝ) := by positivity
  have hvn : 0 < pr.v.val + (S.n : ℝ) := by positivity
  have hkn1 : 0 < pr.k.val + (S.n : ℝ) + 1 := by positivity
  have hvn1 : 0 < pr.v.val + (S.n : ℝ) + 1 := by positivity
  have hkn1' : 0 < pr.k.val + ((S.n : ℝ) + 1) := by positivity
  have hvn1' : 0 < pr.v.val + ((S.n : ℝ) + 1) := by positivity
  have hP : Gen.NormalInvChiSquared.posterior_real_Gaussian pr (.suffStat S)
      = Gen.posterior_from_stat_normal_inv_chi_squared pr S := rfl
  rw [hP]
  simp only [Gen.NormalInvChiSquared.ln_pp_real_Gaussian, Gen.NormalInvChiSquared.ln_pp_cache_real_Gaussian,
    Gen.NormalInvChiSquared.ln_pp_with_cache_real_Gaussian,
    NIX_ln_z_val, R.add_val, R.sub_val, R.neg_val, R.halfLnPi_val]
  refine nix_student (by rw [p1]; exact hkn) (by rw [p2]; exact hvn) (by rw [p4]; positivity) ?_ ?_ ?_
  · rw [q1, p1]; simp only [Gen.GaussianSuffStat.observe_real]; push_cast; ring
  · rw [q2, p2]; simp only [Gen.GaussianSuffStat.observe_real]; push_cast; ring
  · rw [q2, q4, p1, p2, p3, p4]
    simp only [Gen.GaussianSuffStat.observe_real, mulAdd, RealLike.recip, R.add_val, R.sub_val, R.mul_val, R.div_val,
      R.ofNatR_val, lit1, Nat.cast_add, Nat.cast_one]
    field_simp
    ring

example : ∃ pr : Gen.NormalInvChiSquared R, 0 < pr.k.val ∧ 0 < pr.v.val ∧ 0 < pr.s2.val :=
  ⟨⟨⟨-1⟩, ⟨2⟩, ⟨3/2⟩, ⟨5⟩⟩, by norm_num, by norm_num, by norm_num⟩

/-! ## data-level corollaries of the Student-t identities -/

-- @site NormalGamma.ln_pp_real_Gaussian
theorem NormalGamma_Gaussian_pp_normalised_data_partial (pr : Gen.NormalGamma R) (xs : List R) (y : R)
    (hr : 0 < pr.r.val) (hs : 0 < pr.s.val) (hv : 0 < pr.v.val) :
    (Gen.NormalGamma.ln_pp_real_Gaussian pr y (.data xs)).val
      = lnStudentT (Gen.NormalGamma.posterior_real_Gaussian pr (.data xs)).v.val
          (Gen.NormalGamma.posterior_real_Gaussian pr (.data xs)).m.val
          ((Gen.NormalGamma.posterior_real_Gaussian pr (.data xs)).s.val
            * ((Gen.NormalGamma.posterior_real_Gaussian pr (.data xs)).r.val + 1)
            / ((Gen.NormalGamma.posterior_real_Gaussian pr (.data xs)).v.val
                * (Gen.NormalGamma.posterior_real_Gaussian pr (.data xs)).r.val)) y.val :=
  NormalGamma_Gaussian_pp_normalised_partial pr (gfold xs) y hr hs hv (gfold_valid xs).1

-- @site NormalInvGamma.ln_pp_real_Gaussian
theorem NormalInvGamma_Gaussian_pp_normalised_data_partial (pr : Gen.NormalInvGamma R) (xs : List R) (y : R)
    (hv : 0 < pr.v.val) (ha : 0 < pr.a.val) (hb : 0 < pr.b.val) :
    (Gen.NormalInvGamma.ln_pp_real_Gaussian pr y (.data xs)).val
      = lnStudentT (2 * (Gen.NormalInvGamma.posterior_real_Gaussian pr (.data xs)).a.val)
          (Gen.NormalInvGamma.posterior_real_Gaussian pr (.data xs)).m.val
          ((Gen.NormalInvGamma.posterior_real_Gaussian pr (.data xs)).b.val
            * (1 + (Gen.NormalInvGamma.posterior_real_Gaussian pr (.data xs)).v.val)
            / (Gen.NormalInvGamma.posterior_real_Gaussian pr (.data xs)).a.val) y.val :=
  NormalInvGamma_Gaussian_pp_normalised_partial pr (gfold xs) y hv ha hb (gfold_valid xs).1

-- @site NormalInvChiSquared.ln_pp_real_Gaussian
theorem NormalInvChiSquared_Gaussian_pp_normalised_data_partial (pr : Gen.NormalInvChiSquared R) (xs : List R) (y : R)
    (hk : 0 < pr.k.val) (hv : 0 < pr.v.val) (hs : 0 < pr.s2.val) :
    (Gen.NormalInvChiSquared.ln_pp_real_Gaussian pr y (.data xs)).val
      = lnStudentT (Gen.NormalInvChiSquared.posterior_real_Gaussian pr (.data xs)).v.val
          (Gen.NormalInvChiSquared.posterior_real_Gaussian pr (.data xs)).m.val
          ((1 + (Gen.NormalInvChiSquared.posterior_real_Gaussian pr (.data xs)).k.val)
            * (Gen.NormalInvChiSquared.posterior_real_Gaussian pr (.data xs)).s2.val
            / (Gen.NormalInvChiSquared.posterior_real_Gaussian pr (.data xs)).k.val) y.val :=
  NormalInvChiSquared_Gaussian_pp_normalised_partial pr (gfold xs) y hk hv hs (gfold_valid xs).1 (gfold_valid xs).2

/-! ## concrete instances -/

example : (Gen.NormalGamma.ln_m_real_Gaussian (⟨⟨-1⟩, ⟨2⟩, ⟨3/2⟩, ⟨5⟩⟩ : Gen.NormalGamma R) (.data [])).val = 0 :=
  NormalGamma_Gaussian_ln_m_empty _ (by norm_num) (by norm_num) (by norm_num)

example : Gen.NormalInvChiSquared.ln_m_real_Gaussian (⟨⟨-1⟩, ⟨2⟩, ⟨3/2⟩, ⟨5⟩⟩ : Gen.NormalInvChiSquared R)
      (.data [⟨3/10⟩, ⟨-6/5⟩, ⟨5/2⟩])
    = Gen.NormalInvChiSquared.ln_m_real_Gaussian (⟨⟨-1⟩, ⟨2⟩, ⟨3/2⟩, ⟨5⟩⟩ : Gen.NormalInvChiSquared R)
      (.data [⟨5/2⟩, ⟨3/10⟩, ⟨-6/5⟩]) :=
  NormalInvChiSquared_Gaussian_ln_m_perm _
    (List.perm_append_comm (l₁ := [(⟨3/10⟩ : R), ⟨-6/5⟩]) (l₂ := [⟨5/2⟩]))

end C06

-- AXIOMS
#print axioms C06.NormalGamma_Gaussian_ln_m_cached
#print axioms C06.NormalGamma_Gaussian_ln_pp_cached
#print axioms C06.NormalGamma_Gaussian_pp_eq_exp
#print axioms C06.NormalGamma_Gaussian_pp_with_cache_eq_exp
#print axioms C06.NormalGamma_Gaussian_ln_m_data_eq_stat
#print axioms C06.NormalGamma_Gaussian_ln_pp_data_eq_stat
#print axioms C06.NormalGamma_Gaussian_chain_rule_stat
#print axioms C06.NormalGamma_Gaussian_chain_rule
#print axioms C06.NormalGamma_Gaussian_ln_m_perm
#print axioms C06.NormalGamma_Gaussian_ln_m_empty
#print axioms C06.NormalGamma_Gaussian_pp_normalised_partial
#print axioms C06.NormalInvGamma_Gaussian_ln_m_cached
#print axioms C06.NormalInvGamma_Gaussian_ln_pp_cached
#print axioms C06.NormalInvGamma_Gaussian_pp_eq_exp
#print axioms C06.NormalInvGamma_Gaussian_pp_with_cache_eq_exp
#print axioms C06.NormalInvGamma_Gaussian_ln_m_data_eq_stat
#print axioms C06.NormalInvGamma_Gaussian_ln_pp_data_eq_stat
#print axioms C06.NormalInvGamma_Gaussian_chain_rule_stat
#print axioms C06.NormalInvGamma_Gaussian_chain_rule
#print axioms C06.NormalInvGamma_Gaussian_ln_m_perm
#print axioms C06.NormalInvGamma_Gaussian_ln_m_empty
#print axioms C06.NormalInvGamma_Gaussian_pp_normalised_partial
#print axioms C06.NormalInvChiSquared_Gaussian_ln_m_cached
#print axioms C06.NormalInvChiSquared_Gaussian_ln_pp_cached
#print axioms C06.NormalInvChiSquared_Gaussian_pp_eq_exp
#print axioms C06.NormalInvChiSquared_Gaussian_pp_with_cache_eq_exp
#print axioms C06.NormalInvChiSquared_Gaussian_ln_m_data_eq_stat
#print axioms C06.NormalInvChiSquared_Gaussian_ln_pp_data_eq_stat
#print axioms C06.NormalInvChiSquared_Gaussian_chain_rule_stat
#print axioms C06.NormalInvChiSquared_Gaussian_chain_rule
#print axioms C06.NormalInvChiSquared_Gaussian_ln_m_perm
#print axioms C06.NormalInvChiSquared_Gaussian_ln_m_empty
#print axioms C06.NormalInvChiSquared_Gaussian_pp_normalised_partial
#print axioms C06.NormalGamma_Gaussian_pp_normalised_data_partial
#print axioms C06.NormalInvGamma_Gaussian_pp_normalised_data_partial
#print axioms C06.NormalInvChiSquared_Gaussian_pp_normalised_data_partial
